import Lox.LR.EmitProofsCells
import Lox.LR.EmitProofsAuto
import Lox.LR.EmitProofsFirst
/-! The tables the model of the generator emits (`Lox.LR.Emit.generate` = `Cons.construct` then
`Emit.emitParser`) pass the validator `Lox.LR.check`, for ALL well-formed grammars whose action
cells each hold one action (`conflictFreeB`). Assembly of:

* `EmitProofsTable`: what `_Find` / `rowOf` read in the emitted arrays are the rows of the model;
* `EmitProofsCells`: the `_actions` row = the single candidate action of every cell;
* `EmitProofsAuto`: shape of the automaton `construct` returns (`Built`);
* `EmitProofsFirst`: the validator's own FIRST table is closed and contained in the semantic FIRST.
-/
namespace Lox.LR.Emit
open Lox.LR Lox.LR.Gen Lox.LR.Cons Lox.LR.FixFirst
open Lox.Dec (Action ProdInfo)
open Lox.Table

/-! ### Decidable well-formedness of the inputs -/

/-- `lhs`, terminals and rules of every production are in range (what `prodsB` demands). -/
def symsInRangeB (G : Grammar) (nT nR : Nat) : Bool :=
  G.prods.toList.all fun pr =>
    decide (pr.lhs < nR) && pr.rhs.all fun
      | .t x => decide (x < nT)
      | .n B => decide (B < nR)

/-- The EOF terminal (0) occurs on no right-hand side. -/
def noEofB (G : Grammar) : Bool :=
  G.prods.toList.all fun pr => !pr.rhs.contains (.t 0)

/-- `ord` lists every terminal below `nT` and every rule below `nR` exactly once, and nothing
else (the harness passes all symbols sorted by name). -/
def ordOKB (nT nR : Nat) (ord : List Sym) : Bool :=
  decide ord.Nodup &&
  (ord.all fun
    | .t a => decide (a < nT)
    | .n B => decide (B < nR)) &&
  ((List.range nT).all fun a => ord.contains (.t a)) &&
  ((List.range nR).all fun B => ord.contains (.n B))

structure OrdOK (nT nR : Nat) (ord : List Sym) : Prop where
  nodup : ord.Nodup
  terms : ∀ a, Sym.t a ∈ ord ↔ a < nT
  rules : ∀ B, Sym.n B ∈ ord ↔ B < nR

theorem ordOKB_spec {nT nR : Nat} {ord : List Sym} (h : ordOKB nT nR ord = true) :
    OrdOK nT nR ord := by
  simp only [ordOKB, Bool.and_eq_true, decide_eq_true_eq, List.all_eq_true, List.mem_range,
    List.contains_eq_mem] at h
  obtain ⟨⟨⟨h1, h2⟩, h3⟩, h4⟩ := h
  refine ⟨h1, fun a => ⟨fun hm => ?_, h3 a⟩, fun B => ⟨fun hm => ?_, h4 B⟩⟩
  · simpa using h2 _ hm
  · simpa using h2 _ hm

theorem symsInRangeB_spec {G : Grammar} {nT nR : Nat} (h : symsInRangeB G nT nR = true) :
    SymsInRange G nT nR := by
  intro pr hpr
  simp only [symsInRangeB, List.all_eq_true, Bool.and_eq_true, decide_eq_true_eq] at h
  obtain ⟨h1, h2⟩ := h pr hpr
  refine ⟨h1, fun s hs => ?_⟩
  have := h2 s hs
  cases s <;> simpa using this

theorem SymsInRange.termsBelow {G : Grammar} {nT nR : Nat} (h : SymsInRange G nT nR) :
    TermsBelow G nT := by
  intro pr hpr a ha
  exact (h pr hpr).2 (.t a) ha

theorem SymsInRange.ordCovers {G : Grammar} {nT nR : Nat} {ord : List Sym}
    (h : SymsInRange G nT nR) (ho : OrdOK nT nR ord) : OrdCovers G ord := by
  intro p pr d X hp hX
  have hpr : pr ∈ G.prods.toList := by
    rw [Array.mem_toList_iff]; exact Array.mem_of_getElem? hp
  have := (h pr hpr).2 X (List.mem_of_getElem? hX)
  cases X with
  | t a => exact (ho.terms a).mpr this
  | n B => exact (ho.rules B).mpr this

theorem noEofB_spec {G : Grammar} (h : noEofB G = true) {p : Nat} {pr : Prod}
    (hp : G.prods[p]? = some pr) : Sym.t 0 ∉ pr.rhs := by
  simp only [noEofB, List.all_eq_true, Bool.not_eq_true', List.contains_eq_mem,
    decide_eq_false_iff_not] at h
  exact h pr (by rw [Array.mem_toList_iff]; exact Array.mem_of_getElem? hp)

/-! ### The `_goto` row -/

theorem gotoRow_spec {ord : List Sym} (hn : ord.Nodup) (row : List (Sym × Nat)) :
    ((gotoRow ord row).map (·.1)).Nodup ∧
    ∀ k v, (k, v) ∈ gotoRow ord row ↔ ∃ (B t : Nat), k = (B : Int) ∧ v = (t : Int) ∧
      Sym.n B ∈ ord ∧ lookupSym (.n B) row = some t := by
  constructor
  · unfold gotoRow
    rw [List.map_filterMap]
    have : (rulesOf ord).filterMap (fun (B : Nat) =>
        ((lookupSym (.n B) row).map fun (t : Nat) => ((B : Int), (t : Int))).map (·.1)) =
        ((rulesOf ord).filter fun B => (lookupSym (.n B) row).isSome).map fun (B : Nat) => (B : Int) := by
      induction rulesOf ord with
      | nil => rfl
      | cons B r ih =>
        simp only [List.filterMap_cons, List.filter_cons]
        cases lookupSym (.n B) row with
        | none => simpa using ih
        | some t => simpa using ih
    rw [this, List.Nodup, List.pairwise_map]
    exact ((nodup_rulesOf hn).filter _).imp fun hne e => hne (by exact_mod_cast e)
  · intro k v
    unfold gotoRow
    rw [List.mem_filterMap]
    constructor
    · rintro ⟨B, hB, h⟩
      cases hl : lookupSym (.n B) row with
      | none => simp [hl] at h
      | some t =>
        simp only [hl, Option.map_some, Option.some.injEq] at h
        cases h
        exact ⟨B, t, rfl, rfl, mem_rulesOf.mp hB, hl⟩
    · rintro ⟨B, t, rfl, rfl, hB, hl⟩
      exact ⟨B, mem_rulesOf.mpr hB, by simp [hl]⟩

theorem nodupKeys_of_nodup : ∀ {row : List (Int × Int)}, (row.map (·.1)).Nodup → nodupKeys row = true
  | [], _ => rfl
  | (k, v) :: r, h => by
    simp only [List.map_cons, List.nodup_cons] at h
    simp only [nodupKeys, Bool.and_eq_true, List.all_eq_true, bne_iff_ne, ne_eq]
    refine ⟨fun e he hk => h.1 (List.mem_map.mpr ⟨e, he, hk⟩), nodupKeys_of_nodup h.2⟩

/-! ### Everything about one run of the generator model -/

/-- The hypotheses and the derived facts the per-state lemmas use, for tables emitted with the
precedences `info` (conflicts allowed). -/
structure RunS (info : Nat → ProdInfo) (G : Grammar) (nT nR : Nat) (ord : List Sym) (st : CState)
    (T : Tables) : Prop where
  syms : SymsInRange G nT nR
  ordOK : OrdOK nT nR ord
  noStart : NoStart G
  noEof : ∀ (p : Nat) (pr : Prod), G.prods[p]? = some pr → Sym.t 0 ∉ pr.rhs
  p0 : ∃ S', G.prods[0]? = some ⟨S', [.n (startSym G)]⟩
  built : Built G nT st
  emitted : Emitted info G nT ord st T
  small : st.states.length ≤ 2147483647

/-- … without precedences and with exactly one action in every cell. -/
structure Run (G : Grammar) (nT nR : Nat) (ord : List Sym) (st : CState) (T : Tables) : Prop
    extends RunS noPrec G nT nR ord st T where
  free : conflictFreeB G nT st = true

section
variable {info : Nat → ProdInfo} {G : Grammar} {nT nR : Nat} {ord : List Sym} {st : CState}
  {T : Tables}

theorem trTerm_eq (st : CState) (s x : Nat) :
    trTerm st.transTab s x = lookupSym (.t x) (st.trans[s]?.getD []) := by
  simp [trTerm, rowOfT, CState.transTab]

theorem RunS.stateWf (hr : RunS info G nT nR ord st T) {s : Nat} {I : List Item}
    (hs : st.states[s]? = some I) : StateWf G nT ord (trTerm st.transTab s) I where
  la := fun it hit => by
    obtain ⟨_, _, _, h⟩ := hr.built.item_wf hs hit
    exact h
  trs := fun it hit x hx => by
    obtain ⟨pr, hp, hX⟩ := afterDot_eq.mp hx
    obtain ⟨t, _, htr, _, _⟩ := hr.built.step hs hit hp hX
    rw [trTerm_eq, htr]
    simp
  below := fun it hit x hx => by
    obtain ⟨pr, hp, hX⟩ := afterDot_eq.mp hx
    have hpr : pr ∈ G.prods.toList := by
      rw [Array.mem_toList_iff]; exact Array.mem_of_getElem? hp
    exact (hr.syms pr hpr).2 (.t x) (List.mem_of_getElem? hX)
  ordNodup := hr.ordOK.nodup
  ordTerms := fun a ha => (hr.ordOK.terms a).mpr ha

theorem Run.stateOK (hr : Run G nT nR ord st T) {s : Nat} {I : List Item}
    (hs : st.states[s]? = some I) : StateOK G nT ord (trTerm st.transTab s) I where
  toStateWf := hr.toRunS.stateWf hs
  single := by
    have hlt : s < st.states.length := (List.getElem?_eq_some_iff.mp hs).1
    have := hr.free
    simp only [conflictFreeB, List.all_eq_true, List.mem_range] at this
    have h := this s hlt
    simp only [hs, Option.getD_some] at h
    cases hc : actionsOf G nT (trTerm st.transTab s) I with
    | none => simp [hc] at h
    | some cells =>
      simp only [hc, List.all_eq_true, beq_iff_eq] at h
      exact ⟨cells, rfl, h⟩

/-- `_Find` on `_actions`: the single action of the cell. -/
theorem Run.find_action (hr : Run G nT nR ord st T) {s : Nat} {I : List Item}
    (hs : st.states[s]? = some I) {a : Nat} {act : Action}
    (hcell : cellOn G nT (trTerm st.transTab s) I a = .ok [act])
    (hat : a ∈ cellTerminals G nT (trTerm st.transTab s) I) :
    find T.actions (s : Int) (a : Int) = .hit (actCode act) := by
  have hlt : s < st.states.length := (List.getElem?_eq_some_iff.mp hs).1
  obtain ⟨row, hrow, _, hfind⟩ := hr.emitted.arow s hlt
  unfold stateActionRow at hrow
  simp only [hs, Option.getD_some] at hrow
  obtain ⟨hnd, hmem⟩ := actionRow_spec (hr.stateOK hs) hrow
  rw [hfind, lookResult_hit, firstMatch_iff_mem hnd]
  exact (hmem _ _).mpr ⟨a, act, rfl, hat, hcell, rfl⟩

/-- `_Find` on `_actions` for a candidate action. -/
theorem Run.find_cand (hr : Run G nT nR ord st T) {s : Nat} {I : List Item}
    (hs : st.states[s]? = some I) {a : Nat} {c : Gen.Cand} (hc : CandOf G I a c) :
    ∃ act, kindOf act = c ∧ find T.actions (s : Int) (a : Int) = .hit (actCode act) ∧
      (∀ t ps, act = .shift t ps → lookupSym (.t a) (st.trans[s]?.getD []) = some t) := by
  obtain ⟨act, hcell, hk, hat, hsh⟩ := cand_single (hr.stateOK hs) hc
  refine ⟨act, hk, hr.find_action hs hcell hat, fun t ps e => ?_⟩
  rw [← trTerm_eq]
  exact hsh t ps e

/-- `_Find` on `_goto`: the recorded transition. -/
theorem RunS.find_goto (hr : RunS info G nT nR ord st T) {s : Nat} (hlt : s < st.states.length)
    {B t : Nat} (hB : B < nR) (htr : lookupSym (.n B) (st.trans[s]?.getD []) = some t) :
    find T.gotos (s : Int) (B : Int) = .hit (t : Int) := by
  obtain ⟨_, hfind⟩ := hr.emitted.grow s hlt
  obtain ⟨hnd, hmem⟩ := gotoRow_spec hr.ordOK.nodup (st.trans[s]?.getD [])
  rw [hfind, lookResult_hit]
  unfold stateGotoRow
  rw [firstMatch_iff_mem hnd]
  exact (hmem _ _).mpr ⟨B, t, rfl, rfl, (hr.ordOK.rules B).mpr hB, htr⟩

/-! ### The conditions of `check`, one by one -/

theorem mem_dot0Of {items : List Item} {n q b : Nat} (hq : q < n)
    (h : (⟨q, 0, b⟩ : Item) ∈ items) : b ∈ (dot0Of items n)[q]?.getD [] := by
  simp only [dot0Of, Array.getElem?_ofFn, hq, dite_true, Option.getD_some, List.mem_map,
    List.mem_filter, Bool.and_eq_true, beq_iff_eq]
  exact ⟨⟨q, 0, b⟩, ⟨h, rfl, rfl⟩, rfl⟩

theorem RunS.lt_accept (hr : RunS info G nT nR ord st T) {t : Nat} (ht : t < st.states.length) :
    (t : Int) ≠ acceptCode := by
  have := hr.small
  unfold acceptCode
  omega

/-- The predecessor condition of a recorded transition. -/
theorem RunS.backB (hr : RunS info G nT nR ord st T) {s : Nat} {X : Sym} {t : Nat}
    (htr : lookupSym X (st.trans[s]?.getD []) = some t) : backB G st.cert s X t = true := by
  obtain ⟨I, J, hI, hJ, hback⟩ := hr.built.back htr
  have ht0 : t ≠ 0 := fun e => hr.built.noInto0 hr.noStart s X (e ▸ htr)
  have htlt : t < st.states.length := (List.getElem?_eq_some_iff.mp hJ).1
  simp only [Lox.LR.backB, Bool.and_eq_true, bne_iff_ne, ne_eq, decide_eq_true_eq, List.all_eq_true,
    Bool.or_eq_true, beq_iff_eq]
  refine ⟨⟨ht0, by simpa [CState.cert] using htlt⟩, ?_⟩
  intro it hit
  rw [itemsOf_cert, hJ] at hit
  by_cases hd : it.d = 0
  · exact .inl hd
  · right
    obtain ⟨pr, hp, hX, a', hmem⟩ := hback it hit (by omega)
    simp only [hp, Bool.and_eq_true, beq_iff_eq]
    exact ⟨hX, hasCore_iff.mpr ⟨a', by rw [itemsOf_cert, hI]; exact hmem⟩⟩

theorem kindOf_accept_inv {act : Action} (h : kindOf act = .accept) : act = .accept := by
  cases act <;> simp [kindOf] at h ⊢

theorem kindOf_reduce_inv {act : Action} {p : Nat} (h : kindOf act = .reduce p) :
    act = .reduce p := by
  cases act <;> simp [kindOf] at h ⊢
  exact h

theorem kindOf_shift_inv {act : Action} (h : kindOf act = .shift) : ∃ t ps, act = .shift t ps := by
  cases act <;> simp [kindOf] at h ⊢

theorem RunS.lhs_lt (hr : RunS info G nT nR ord st T) {p : Nat} {pr : Prod} (hp : G.prods[p]? = some pr) :
    pr.lhs < nR :=
  (hr.syms pr (by rw [Array.mem_toList_iff]; exact Array.mem_of_getElem? hp)).1

theorem RunS.rule_lt (hr : RunS info G nT nR ord st T) {p : Nat} {pr : Prod} (hp : G.prods[p]? = some pr)
    {d B : Nat} (hX : pr.rhs[d]? = some (.n B)) : B < nR :=
  (hr.syms pr (by rw [Array.mem_toList_iff]; exact Array.mem_of_getElem? hp)).2 (.n B)
    (List.mem_of_getElem? hX)

/-- The part of `itemB` about the symbol after the dot. -/
theorem Run.item_next (hr : Run G nT nR ord st T) {s : Nat} {I : List Item}
    (hs : st.states[s]? = some I) {it : Item} (hit : it ∈ I) {pr : Prod}
    (hp : G.prods[it.p]? = some pr) (hdle : it.d ≤ pr.rhs.length) :
    (match pr.rhs[it.d]? with
    | some (.t x) =>
      match find T.actions (s : Int) (x : Int) with
      | .hit v => v != acceptCode && decide (0 ≤ v) &&
          hasItem (itemsOf st.cert v.toNat) ⟨it.p, it.d + 1, it.a⟩
      | _ => false
    | some (.n B) =>
      (match find T.gotos (s : Int) (B : Int) with
      | .hit v => hasItem (itemsOf st.cert v.toNat) ⟨it.p, it.d + 1, it.a⟩
      | _ => false) &&
      (let fs := firstOf (firstFix G nT nR) (pr.rhs.drop (it.d + 1)) it.a
       (List.range G.prods.size).all fun q =>
        match G.prods[q]? with
        | some qr => qr.lhs != B || fs.all fun b =>
            decide (b ∈ (dot0Of (itemsOf st.cert s) G.prods.size)[q]?.getD [])
        | none => true)
    | none =>
      it.d == pr.rhs.length &&
      (if it.p = 0 then
        it.a == 0 && (match find T.actions (s : Int) 0 with
          | .hit v => v == acceptCode
          | _ => false)
      else
        match find T.actions (s : Int) (it.a : Int) with
        | .hit v => v == -(it.p : Int)
        | _ => false)) = true := by
  have hlt : s < st.states.length := (List.getElem?_eq_some_iff.mp hs).1
  cases hX : pr.rhs[it.d]? with
  | none =>
    have hd : it.d = pr.rhs.length := by
      have := List.getElem?_eq_none_iff.mp hX
      omega
    simp only [Bool.and_eq_true, beq_iff_eq]
    refine ⟨hd, ?_⟩
    by_cases hp0 : it.p = 0
    · have ha := hr.built.p0_la hr.noStart hs hit hp0
      have hc : CandOf G I 0 .accept := by
        obtain ⟨p, d, a⟩ := it
        simp only at hp0 ha hd hp
        subst hp0 ha hd
        exact ⟨pr, hp, hit⟩
      obtain ⟨act, hk, hf, _⟩ := hr.find_cand hs hc
      rw [kindOf_accept_inv hk] at hf
      have hf' : find T.actions (s : Int) 0 = .hit acceptCode := by simpa [actCode] using hf
      simp only [hp0, if_true, ha, hf', beq_self_eq_true, Bool.and_self]
    · have hc : CandOf G I it.a (.reduce it.p) := by
        obtain ⟨p, d, a⟩ := it
        simp only at hp0 hd hp ⊢
        subst hd
        exact ⟨hp0, pr, hp, hit⟩
      obtain ⟨act, hk, hf, _⟩ := hr.find_cand hs hc
      rw [kindOf_reduce_inv hk] at hf
      simp only [hp0, if_false, hf, actCode, beq_self_eq_true]
  | some X =>
    obtain ⟨t, J, htr, hJ, hadv⟩ := hr.built.step hs hit hp hX
    have htlt : t < st.states.length := (List.getElem?_eq_some_iff.mp hJ).1
    have hitem : hasItem (itemsOf st.cert ((t : Int).toNat)) ⟨it.p, it.d + 1, it.a⟩ = true := by
      rw [Int.toNat_natCast, itemsOf_cert, hJ]
      exact hasItem_iff.mpr hadv
    cases X with
    | t x =>
      have hc : CandOf G I x .shift := ⟨it, hit, afterDot_eq.mpr ⟨pr, hp, hX⟩⟩
      obtain ⟨act, hk, hf, hsh⟩ := hr.find_cand hs hc
      obtain ⟨t', ps, rfl⟩ := kindOf_shift_inv hk
      have := hsh t' ps rfl
      rw [htr] at this
      cases this
      simp only [hf, actCode, Bool.and_eq_true, bne_iff_ne, ne_eq, decide_eq_true_eq]
      exact ⟨⟨hr.lt_accept htlt, by omega⟩, hitem⟩
    | n B =>
      have hB : B < nR := hr.rule_lt hp hX
      have hf := hr.find_goto hlt hB htr
      simp only [hf, Bool.and_eq_true, List.all_eq_true, List.mem_range]
      refine ⟨hitem, ?_⟩
      intro q hq
      cases hqr : G.prods[q]? with
      | none => rfl
      | some qr =>
        simp only [Bool.or_eq_true, bne_iff_ne, ne_eq, List.all_eq_true, decide_eq_true_eq]
        by_cases hl : qr.lhs = B
        · right
          intro b hb
          have hfirst := firstFix_sound G nT nR hb
          have hmem := hr.built.closure hs hit hp hX hqr hl hfirst
          apply mem_dot0Of hq
          rw [itemsOf_cert, hs]
          exact hmem
        · exact .inl hl

/-- The shape conditions on an item (`itemSafeB`; the last three conjuncts of `itemB`). -/
theorem RunS.itemSafeB (hr : RunS info G nT nR ord st T) {s : Nat} {I : List Item}
    (hs : st.states[s]? = some I) {it : Item} (hit : it ∈ I) :
    Lox.LR.itemSafeB G T s it = true := by
  have hlt : s < st.states.length := (List.getElem?_eq_some_iff.mp hs).1
  obtain ⟨pr, hp, hdle, _⟩ := hr.built.item_wf hs hit
  unfold Lox.LR.itemSafeB
  simp only [hp]
  rw [Bool.and_eq_true, Bool.and_eq_true]
  refine ⟨⟨?_, ?_⟩, ?_⟩
  · -- every dot-0 item's rule has a goto
    by_cases hd : it.d = 0
    · by_cases hp0 : it.p = 0
      · simp [hp0]
      · obtain ⟨t, htr, _⟩ := hr.built.gotoDef hs hit hd hp0 hp
        have hf := hr.find_goto hlt (hr.lhs_lt hp) htr
        simp [hf]
    · simp [hd]
  · by_cases h0 : it.p = 0 ∧ it.d = 0
    · have := hr.built.startOnly hr.noStart hs hit h0.1 h0.2
      simp [this]
    · have : (it.p == 0 && it.d == 0) = false := by
        simp only [Bool.and_eq_false_iff, beq_eq_false_iff_ne, ne_eq]
        by_cases hp0 : it.p = 0
        · exact .inr fun hd => h0 ⟨hp0, hd⟩
        · exact .inl hp0
      simp [this]
  · by_cases hs0 : s = 0
    · subst hs0
      have := hr.built.s0 hr.noStart hs hit
      simp [this]
    · simp [hs0]

/-- All of `itemB` for an item of the certificate. -/
theorem Run.itemB (hr : Run G nT nR ord st T) {s : Nat} {I : List Item}
    (hs : st.states[s]? = some I) {it : Item} (hit : it ∈ I) :
    Lox.LR.itemB G (firstFix G nT nR) T st.cert s (dot0Of (itemsOf st.cert s) G.prods.size) it
      = true := by
  obtain ⟨pr, hp, hdle, _⟩ := hr.built.item_wf hs hit
  have hsafe := hr.toRunS.itemSafeB hs hit
  unfold Lox.LR.itemSafeB at hsafe
  simp only [hp] at hsafe
  rw [Bool.and_eq_true, Bool.and_eq_true] at hsafe
  unfold Lox.LR.itemB
  simp only [hp]
  rw [Bool.and_eq_true, Bool.and_eq_true, Bool.and_eq_true]
  exact ⟨⟨⟨hr.item_next hs hit hp hdle, hsafe.1.1⟩, hsafe.1.2⟩, hsafe.2⟩

/-- The code of any action `createActions` put into the cell `(s, a)` passes `actEntryB`. -/
theorem RunS.actEntryB (hr : RunS info G nT nR ord st T) {s : Nat} {I : List Item}
    (hs : st.states[s]? = some I) {a : Nat} {cell : List Action} {act : Action}
    (hcell : cellOn G nT (trTerm st.transTab s) I a = .ok cell) (hact : act ∈ cell)
    (hat : a ∈ cellTerminals G nT (trTerm st.transTab s) I) :
    Lox.LR.actEntryB G nT st.cert s (a : Int) (actCode act) = true := by
  have hso := hr.stateWf hs
  obtain ⟨hcand, hsh⟩ := mem_cand hso hcell hact
  have halt : a < nT := by
    rcases cellTerminals_cases hat with ⟨it, hit, rfl, hlt⟩ | ⟨it, hit, had⟩
    · exact hlt
    · exact hso.below it hit a had
  obtain ⟨S', hp0⟩ := hr.p0
  unfold Lox.LR.actEntryB
  rw [Bool.and_eq_true, Bool.and_eq_true]
  refine ⟨⟨by simp, by simpa using halt⟩, ?_⟩
  cases act with
  | accept =>
    obtain ⟨pr0, h0, hmem⟩ := hcand
    rw [hp0] at h0
    cases h0
    have ha : a = 0 := hr.built.p0_la hr.noStart hs hmem rfl
    subst ha
    simp only [actCode, if_true, Bool.and_eq_true, beq_iff_eq]
    exact ⟨rfl, hasCore_iff.mpr ⟨0, by rw [itemsOf_cert, hs]; exact hmem⟩⟩
  | reduce p =>
    obtain ⟨hpne, pr, hpr, hmem⟩ := hcand
    have h1 : ¬ (-(p : Int) = acceptCode) := by unfold acceptCode; omega
    have h2 : ¬ (0 ≤ -(p : Int)) := by omega
    have h3 : (- -(p : Int)).toNat = p := by simp
    simp only [actCode, h1, h2, if_false, h3, hpr]
    exact hasCore_iff.mpr ⟨a, by rw [itemsOf_cert, hs]; exact hmem⟩
  | shift t ps =>
    obtain ⟨it, hit, had⟩ := hcand
    have htr : lookupSym (.t a) (st.trans[s]?.getD []) = some t := by
      rw [← trTerm_eq]; exact hsh t ps rfl
    obtain ⟨_, J, _, hJ, _⟩ := hr.built.back htr
    have htlt : t < st.states.length := (List.getElem?_eq_some_iff.mp hJ).1
    have h1 : ¬ ((t : Int) = acceptCode) := hr.lt_accept htlt
    have h2 : (0 : Int) ≤ (t : Int) := by omega
    have ha0 : a ≠ 0 := by
      rintro rfl
      obtain ⟨pr, hp, hX⟩ := afterDot_eq.mp had
      exact hr.noEof _ _ hp (List.mem_of_getElem? hX)
    simp only [actCode, h1, h2, if_false, if_true, Int.toNat_natCast, Bool.and_eq_true, bne_iff_ne,
      ne_eq]
    exact ⟨by omega, hr.backB htr⟩

/-- Every entry of the `_goto` row of a state passes `gotoEntryB`. -/
theorem RunS.gotoEntryB (hr : RunS info G nT nR ord st T) {s B t : Nat} (hB : B < nR)
    (htr : lookupSym (.n B) (st.trans[s]?.getD []) = some t) :
    Lox.LR.gotoEntryB G nR st.cert s (B : Int) (t : Int) = true := by
  unfold Lox.LR.gotoEntryB
  simp only [Int.toNat_natCast, Bool.and_eq_true, decide_eq_true_eq]
  exact ⟨⟨⟨by omega, hB⟩, by omega⟩, hr.backB htr⟩

/-- Everything `check` demands of state `s`. -/
theorem Run.stateB (hr : Run G nT nR ord st T) {s : Nat} (hlt : s < st.states.length) :
    Lox.LR.stateB G nT nR (firstFix G nT nR) T st.cert s = true := by
  obtain ⟨I, hs⟩ : ∃ I, st.states[s]? = some I := ⟨_, List.getElem?_eq_some_iff.mpr ⟨hlt, rfl⟩⟩
  obtain ⟨arow, harow, hrowA, _⟩ := hr.emitted.arow s hlt
  obtain ⟨hrowG, _⟩ := hr.emitted.grow s hlt
  unfold stateActionRow at harow
  simp only [hs, Option.getD_some] at harow
  obtain ⟨hndA, hmemA⟩ := actionRow_spec (hr.stateOK hs) harow
  obtain ⟨hndG, hmemG⟩ := gotoRow_spec hr.ordOK.nodup (st.trans[s]?.getD [])
  unfold Lox.LR.stateB
  simp only [hrowA, hrowG]
  rw [Bool.and_eq_true, Bool.and_eq_true]
  refine ⟨⟨?_, ?_⟩, ?_⟩
  · rw [List.all_eq_true]
    intro it hit
    have hit' : it ∈ I := by rw [itemsOf_cert, hs] at hit; exact hit
    obtain ⟨_, _, _, hla⟩ := hr.built.item_wf hs hit'
    rw [Bool.and_eq_true]
    exact ⟨by simpa using hla, hr.itemB hs hit'⟩
  · rw [Bool.and_eq_true]
    refine ⟨nodupKeys_of_nodup hndA, ?_⟩
    rw [List.all_eq_true]
    rintro ⟨k, v⟩ he
    obtain ⟨a, act, rfl, hat, hcell, rfl⟩ := (hmemA k v).mp he
    exact hr.toRunS.actEntryB hs hcell (by simp) hat
  · rw [Bool.and_eq_true]
    refine ⟨nodupKeys_of_nodup hndG, ?_⟩
    rw [List.all_eq_true]
    rintro ⟨k, v⟩ he
    obtain ⟨B, t, rfl, rfl, hB, htr⟩ := (hmemG k v).mp he
    exact hr.gotoEntryB ((hr.ordOK.rules B).mp hB) htr

/-- `_rules` / `_termCounts` are the left-hand sides / right-hand-side lengths. -/
theorem prodsB_emit {G : Grammar} {nT nR : Nat} {T : Tables} (hsyms : symsInRangeB G nT nR = true)
    (h1 : T.rules = rulesArr G) (h2 : T.termCounts = termCountsArr G) :
    prodsB G nT nR T = true := by
  unfold prodsB
  simp only [h1, h2, rulesArr, termCountsArr, Array.size_map, beq_self_eq_true, Bool.true_and,
    List.all_eq_true, List.mem_range]
  intro p hp
  have hget : G.prods[p]? = some G.prods[p] := by simp [hp]
  simp only [hget, Array.getElem?_map, Option.map_some, beq_self_eq_true, Bool.true_and]
  simp only [symsInRangeB, List.all_eq_true] at hsyms
  exact hsyms G.prods[p] (by simp [Array.mem_toList_iff])

/-- **The whole check.** -/
theorem Run.checkB (hr : Run G nT nR ord st T) (hp0 : prod0B G = true) (hns : noStartB G = true)
    (hsyms : symsInRangeB G nT nR = true) : Lox.LR.checkB G nT nR T st.cert = true := by
  unfold Lox.LR.checkB
  simp only [hp0, hns, prodsB_emit hsyms hr.emitted.rules hr.emitted.termCounts,
    firstFix_closed hr.syms, Bool.true_and, Bool.and_eq_true, List.all_eq_true, List.mem_range]
  constructor
  · obtain ⟨I0, hI0, hmem⟩ := hr.built.inv.start
    rw [itemsOf_cert, hI0]
    exact hasItem_iff.mpr hmem
  · intro s hs
    exact hr.stateB (by simpa [CState.cert] using hs)

/-! ### The soundness half for ANY emitted table (conflicts, precedences) -/

/-- Everything `checkSafe` demands of state `s`. -/
theorem RunS.stateSafeB (hr : RunS info G nT nR ord st T) {s : Nat} (hlt : s < st.states.length) :
    Lox.LR.stateSafeB G nT nR T st.cert s = true := by
  obtain ⟨I, hs⟩ : ∃ I, st.states[s]? = some I := ⟨_, List.getElem?_eq_some_iff.mpr ⟨hlt, rfl⟩⟩
  obtain ⟨arow, harow, hrowA, _⟩ := hr.emitted.arow s hlt
  obtain ⟨hrowG, _⟩ := hr.emitted.grow s hlt
  unfold stateActionRow at harow
  simp only [hs, Option.getD_some] at harow
  obtain ⟨_, _, hndA, _, _⟩ := actionRow_lookup hr.ordOK.nodup harow
  obtain ⟨hndG, hmemG⟩ := gotoRow_spec hr.ordOK.nodup (st.trans[s]?.getD [])
  unfold Lox.LR.stateSafeB
  simp only [hrowA, hrowG]
  rw [Bool.and_eq_true, Bool.and_eq_true]
  refine ⟨⟨?_, ?_⟩, ?_⟩
  · rw [List.all_eq_true]
    intro it hit
    have hit' : it ∈ I := by rw [itemsOf_cert, hs] at hit; exact hit
    exact hr.itemSafeB hs hit'
  · rw [Bool.and_eq_true]
    refine ⟨nodupKeys_of_nodup hndA, ?_⟩
    rw [List.all_eq_true]
    rintro ⟨k, v⟩ he
    obtain ⟨a, act, cell, rfl, hat, hcell, hact, rfl⟩ := actionRow_entries harow he
    exact hr.actEntryB hs hcell hact hat
  · rw [Bool.and_eq_true]
    refine ⟨nodupKeys_of_nodup hndG, ?_⟩
    rw [List.all_eq_true]
    rintro ⟨k, v⟩ he
    obtain ⟨B, t, rfl, rfl, hB, htr⟩ := (hmemG k v).mp he
    exact hr.gotoEntryB ((hr.ordOK.rules B).mp hB) htr

/-- **The soundness-only check**, for tables emitted with any precedences, conflicts or not. -/
theorem RunS.checkSafeB (hr : RunS info G nT nR ord st T) (hp0 : prod0B G = true)
    (hsyms : symsInRangeB G nT nR = true) : Lox.LR.checkSafeB G nT nR T st.cert = true := by
  unfold Lox.LR.checkSafeB
  simp only [hp0, prodsB_emit hsyms hr.emitted.rules hr.emitted.termCounts, Bool.true_and,
    Bool.and_eq_true, List.all_eq_true, List.mem_range, decide_eq_true_eq]
  constructor
  · obtain ⟨I0, hI0, _⟩ := hr.built.inv.start
    have := (List.getElem?_eq_some_iff.mp hI0).1
    simpa [CState.cert] using this
  · intro s hs
    exact hr.stateSafeB (by simpa [CState.cert] using hs)

end

end Lox.LR.Emit
