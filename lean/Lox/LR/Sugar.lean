import Lox.LR.Model
/-! What the synthesised actions of helper rules (`x?`, `x*`, `x+`, `x*!`, `@list`) compute
(`_act` template branches in emit_parser.go), as an interpretation of the structural value tree. -/
namespace Lox.LR

/-- Kind of a production as the `_act` template sees it (`RuleGenerated` + number of terms). -/
inductive Kind where
  | user
  | plusOne        -- x+  = x            → [x]
  | plusMore       -- x+  = x+ x         → l ++ [x]
  | plusFOne       -- x+! = x            → [x] unless x.Discard()
  | plusFMore      -- x+! = x+! x        → l ++ [x] unless x.Discard()
  | listOne        -- @list = x          → [x]
  | listMore       -- @list = @list s x  → l ++ [x]
  | optSome        -- x?  = x            → x
  | optNone        -- x?  = ε            → zero value (scalar)
  | starSome       -- x*  = x+           → l
  | starNone       -- x*  = ε            → nil slice
  | optNoneList    -- @list(..)? = ε     → nil slice
  | sprime
  deriving DecidableEq, Repr, Inhabited

def Kind.ofCode : Nat → Kind
  | 0 => .user | 1 => .plusOne | 2 => .plusMore | 3 => .plusFOne | 4 => .plusFMore
  | 5 => .listOne | 6 => .listMore | 7 => .optSome | 8 => .optNone | 9 => .starSome
  | 10 => .starNone | 12 => .optNoneList | _ => .sprime

/-- Values as the user's actions see them. -/
inductive SVal where
  | zero
  | tok (idx : Nat) (ty : Nat)
  | err (idx : Nat) (expected : List Int)
  | node (rule : Int) (kids : List SVal)   -- result of a user action of that rule
  | list (xs : List SVal)
  deriving Repr, Inhabited

/-- The harness' `Discard()` methods: tokens of even type and nodes with an odd number of children. -/
def SVal.discard : SVal → Bool
  | .tok _ ty => ty % 2 == 0
  | .node _ kids => kids.length % 2 == 1
  | _ => false

def SVal.elems : SVal → List SVal
  | .list xs => xs
  | _ => []

def combine (k : Kind) (p : Int) (kids : List SVal) : SVal :=
  match k, kids with
  | .user, _ => .node p kids
  | .sprime, _ => .node p kids
  | .plusOne, [x] => .list [x]
  | .plusMore, [l, x] => .list (l.elems ++ [x])
  | .plusFOne, [x] => .list (if x.discard then [] else [x])
  | .plusFMore, [l, x] => .list (if x.discard then l.elems else l.elems ++ [x])
  | .listOne, [x] => .list [x]
  | .listMore, [l, _, x] => .list (l.elems ++ [x])
  | .optSome, [x] => x
  | .optNone, _ => .zero
  | .starSome, [l] => l
  | .starNone, _ => .list []
  | .optNoneList, _ => .list []
  | _, _ => .zero

mutual
def interp (kinds : Array Nat) (rules : Array Int) : Val → SVal
  | .nil => .zero
  | .tok i ty => .tok i ty
  | .err i _ ex => .err i ex
  | .node p kids => combine (Kind.ofCode (kinds[p]?.getD 0)) (rules[p]?.getD (-1)) (interpList kinds rules kids)
def interpList (kinds : Array Nat) (rules : Array Int) : List Val → List SVal
  | [] => []
  | v :: vs => interp kinds rules v :: interpList kinds rules vs
end

mutual
def SVal.render : SVal → String
  | .zero => "_"
  | .tok i _ => "t" ++ toString i
  | .err i ex => "E" ++ toString i ++ "{" ++ ",".intercalate (ex.map toString) ++ "}"
  | .node r kids => "(r" ++ toString r ++ renderList kids ++ ")"
  | .list xs => "[" ++ (renderList xs).drop 1 ++ "]"
def renderList : List SVal → String
  | [] => ""
  | x :: xs => " " ++ x.render ++ renderList xs
end

end Lox.LR
