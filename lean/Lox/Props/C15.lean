import Lox.Rang3.Model
import Lox.Rang3.Proofs
import Lox.Rang3.ClassText
/-! Property theorems for C15 (character classes and literals denote exact code-point sets).
Only statements that are part of the property live here; helper lemmas are in `Lox.Rang3.Proofs`. -/
namespace Lox.Props.C15
open Lox.Rang3

/-- `c ∈ ⟦r⟧`. -/
def Range.mem (c : Int) (r : Range) : Prop := r.b ≤ c ∧ c ≤ r.e

/-- `Intersects` is set intersection being non-empty (for ranges with `b ≤ e`). -/
theorem intersects_iff (a b : Range) (ha : a.b ≤ a.e) (hb : b.b ≤ b.e) :
    a.intersects b = true ↔ ∃ c, Range.mem c a ∧ Range.mem c b := by
  unfold Range.intersects Range.mem
  constructor
  · intro h
    split at h
    · exact ⟨a.b, ⟨by omega, by omega⟩, by simp at h; omega, by simp at h; omega⟩
    · exact ⟨b.b, ⟨by simp at h; omega, by simp at h; omega⟩, by omega, by omega⟩
  · rintro ⟨c, ⟨h1, h2⟩, h3, h4⟩
    split <;> simp <;> omega

/-- `Contains` is set inclusion (for a non-empty inner range). -/
theorem contains_iff (a b : Range) (hb : b.b ≤ b.e) :
    a.contains b = true ↔ ∀ c, Range.mem c b → Range.mem c a := by
  unfold Range.contains Range.mem
  constructor
  · intro h c hc; simp at h; omega
  · intro h
    have h1 := h b.b ⟨by omega, hb⟩
    have h2 := h b.e ⟨hb, by omega⟩
    simp; omega

/-! ## 1. `Flatten` -/

/-- `Flatten` (range.go) keeps exactly the code points of its input: for every list of ranges with
`b ≤ e`, `c ∈ ⟦flatten rs⟧ ↔ c ∈ ⟦rs⟧`. -/
theorem flatten_den (rs : List Range) (hv : ∀ r ∈ rs, Valid r) (c : Int) :
    Den (flatten rs) c ↔ Den rs c := flatten_den' rs hv c

/-- The result of `Flatten` is canonical: every range non-empty, strictly increasing and pairwise
non-touching (`x.e + 1 < y.b` whenever `x` comes before `y`). -/
theorem flatten_sorted (rs : List Range) (hv : ∀ r ∈ rs, Valid r) :
    (∀ r ∈ flatten rs, Valid r) ∧ (flatten rs).Pairwise (fun x y => x.e + 1 < y.b) :=
  flatten_flat' rs hv

example : (∀ r ∈ [(⟨5, 9⟩ : Range), ⟨1, 3⟩, ⟨4, 4⟩, ⟨20, 30⟩], Valid r) ∧
    flatten [⟨5, 9⟩, ⟨1, 3⟩, ⟨4, 4⟩, ⟨20, 30⟩] = [⟨1, 9⟩, ⟨20, 30⟩] := by decide

/-! ## 2. `Subtract` -/

/-- `Subtract(a, b)` (range.go) is set difference: for all lists of ranges with `b ≤ e`,
`c ∈ ⟦subtract a b⟧ ↔ c ∈ ⟦a⟧ ∧ c ∉ ⟦b⟧`. Covers the early `return a` when either side is empty and
the `eb.B + 1` arm of the loop. -/
theorem subtract_den (a b : List Range) (ha : ∀ r ∈ a, Valid r) (hb : ∀ r ∈ b, Valid r) (c : Int) :
    Den (subtract a b) c ↔ Den a c ∧ ¬ Den b c := subtract_den' a b ha hb c

/-- The result of `Subtract` is canonical (non-empty ranges, strictly increasing, pairwise
non-touching). When `b` is empty Go returns `a` itself, so `a` must then be canonical already
(it always is where `GetRanges` calls `Subtract`, see `eval_sorted`). -/
theorem subtract_sorted (a b : List Range) (ha : ∀ r ∈ a, Valid r) (hb : ∀ r ∈ b, Valid r)
    (hfa : b = [] → Flat a) : Flat (subtract a b) := by
  refine subtract_flat' a b ha hb ?_
  rintro (h | h)
  · have : a = [] := by simpa using h
    subst this; exact flat_nil
  · exact hfa (by simpa using h)

/-- The fuel the model gives to the loop of `Subtract` is never exhausted: any larger amount of fuel
gives the same result (the loop has terminated by itself). -/
theorem subtract_fuel_suffices (a b : List Range) (ha : ∀ r ∈ a, Valid r) (hb : ∀ r ∈ b, Valid r)
    (fuel' : Nat) (hf : 4 * ((flatten a).length + 1) * ((flatten b).length + 1) + 8 ≤ fuel') :
    subtractLoop fuel' (flatten a) (flatten b) [] =
      subtractLoop (4 * ((flatten a).length + 1) * ((flatten b).length + 1) + 8) (flatten a) (flatten b) [] :=
  subtractLoop_fuel_ge _ _ _ _ _ (subInv_init (flatten_flat' a ha) (flatten_flat' b hb))
    (subMeasure_init_lt _ _) hf

/-- Hence `subtract` is the fuel-free loop: with non-empty sides it equals the loop run with any
sufficiently large fuel. -/
theorem subtract_eq_loop (a b : List Range) (ha : ∀ r ∈ a, Valid r) (hb : ∀ r ∈ b, Valid r)
    (hne : a ≠ [] ∧ b ≠ []) (fuel' : Nat)
    (hf : 4 * ((flatten a).length + 1) * ((flatten b).length + 1) + 8 ≤ fuel') :
    subtract a b = subtractLoop fuel' (flatten a) (flatten b) [] := by
  rw [subtract_fuel_suffices a b ha hb fuel' hf]
  unfold subtract
  have : (a.isEmpty || b.isEmpty) = false := by
    cases a <;> cases b <;> simp_all
  simp [this]

-- the `eb.B + 1` arm (`[1-9] - [3-5]`), a cut on both sides, and an untouched range
example : (∀ r ∈ [(⟨1, 9⟩ : Range), ⟨20, 30⟩, ⟨40, 41⟩], Valid r) ∧
    (∀ r ∈ [(⟨3, 5⟩ : Range), ⟨0, 0⟩, ⟨18, 22⟩, ⟨29, 35⟩], Valid r) ∧
    subtract [⟨1, 9⟩, ⟨20, 30⟩, ⟨40, 41⟩] [⟨3, 5⟩, ⟨0, 0⟩, ⟨18, 22⟩, ⟨29, 35⟩] =
      [⟨1, 2⟩, ⟨6, 9⟩, ⟨23, 28⟩, ⟨40, 41⟩] := by decide

-- `subtract_sorted` with `b = []`: the hypothesis is needed (Go returns the unsorted `a` itself)
example : subtract [⟨5, 6⟩, ⟨1, 2⟩] [] = [⟨5, 6⟩, ⟨1, 2⟩] := by decide

/-! ## 3. Class expressions -/

/-- Set-theoretic reading of a class expression over the code space `0 … 0x10FFFF`. -/
def meaning : ClassExpr → Int → Prop
  | .cls false items, c => Den items c
  | .cls true items, c => 0 ≤ c ∧ c ≤ maxRune ∧ ¬ Den items c
  | .sub l r, c => meaning l c ∧ ¬ meaning r c
  | .add l r, c => meaning l c ∨ meaning r c

/-- `GetRanges` (char_class.go, char_class_expr.go) returns a canonical list. -/
theorem eval_sorted (e : ClassExpr) (hv : ∀ r ∈ e.items, Valid r) : Flat e.eval := eval_flat e hv

/-- `GetRanges` denotes exactly the set-theoretic meaning of the expression: ranges and single
characters, negation `~[…]` (complement in `0 … 0x10FFFF`), difference `[…]-[…]`
(and the unused `Add`), for every expression whose items satisfy `From ≤ To`. -/
theorem eval_den (e : ClassExpr) (hv : ∀ r ∈ e.items, Valid r) (c : Int) :
    Den e.eval c ↔ meaning e c := by
  induction e generalizing c with
  | cls neg items =>
    have hf := flatten_flat' items hv
    cases neg with
    | false => simpa [ClassExpr.eval, meaning] using flatten_den' items hv c
    | true =>
      simp only [ClassExpr.eval, meaning, if_true]
      rw [subtract_den' _ _ flat_full.1 hf.1, flatten_den' items hv]
      simp [Den, and_assoc]
  | sub l r ihl ihr =>
    simp only [ClassExpr.items, List.mem_append] at hv
    have hl : ∀ x ∈ l.items, Valid x := fun x hx => hv x (Or.inl hx)
    have hr : ∀ x ∈ r.items, Valid x := fun x hx => hv x (Or.inr hx)
    simp only [ClassExpr.eval, meaning]
    rw [subtract_den' _ _ (eval_flat l hl).1 (eval_flat r hr).1, ihl hl, ihr hr]
  | add l r ihl ihr =>
    simp only [ClassExpr.items, List.mem_append] at hv
    have hl : ∀ x ∈ l.items, Valid x := fun x hx => hv x (Or.inl hx)
    have hr : ∀ x ∈ r.items, Valid x := fun x hx => hv x (Or.inr hx)
    simp only [ClassExpr.eval, meaning]
    rw [flatten_den', den_append, ihl hl, ihr hr]
    intro x hx
    rcases List.mem_append.1 hx with hx | hx
    · exact (eval_flat l hl).1 x hx
    · exact (eval_flat r hr).1 x hx

/-- From the text between `[` and `]` to the AST (`parser.on_char_class`): the items are the written
items in order. An escaped dash `\\-` (a `CLASS_CHAR` token with code point 45) is a character wherever
it stands; only an unescaped dash between two characters forms a range. -/
theorem class_items_as_written (ws : List Written) :
    classItems (spell ws) = ws.map Written.toRange := classItems_spell ws

/-- … hence a written class `~?[w₁ … wₙ]` with `From ≤ To` in every range matches exactly the union of
its written items (complemented in `0 … 0x10FFFF` under `~`). -/
theorem class_text_den (neg : Bool) (ws : List Written)
    (hv : ∀ w ∈ ws, Valid w.toRange) (c : Int) :
    Den (ClassExpr.cls neg (classItems (spell ws))).eval c ↔
      meaning (.cls neg (ws.map Written.toRange)) c := by
  rw [classItems_spell]
  exact eval_den _ (by
    intro r hr
    simp only [ClassExpr.items, List.mem_map] at hr
    obtain ⟨w, hw, rfl⟩ := hr
    exact hv w hw) c

/-- `[a\\-z]` is the three characters a, `-`, z; `[a-z]` is the range (non-vacuity of the two readings). -/
example : classItems (spell [.single 97, .single 45, .single 122]) = [⟨97, 97⟩, ⟨45, 45⟩, ⟨122, 122⟩] ∧
    classItems (spell [.range 97 122]) = [⟨97, 122⟩] := by decide

/-- `.` matches exactly the code points `0 … 0x10FFFF`. -/
theorem dot_den (c : Int) : Den ClassExpr.dot.eval c ↔ 0 ≤ c ∧ c ≤ maxRune := by
  rw [eval_den _ (by intro r hr; simp [ClassExpr.dot, ClassExpr.items] at hr; subst hr; decide)]
  simp [ClassExpr.dot, meaning, Den]

/-- `GetRanges` stays inside the code space when the items do. -/
theorem eval_bounds (e : ClassExpr) (hv : ∀ r ∈ e.items, Valid r)
    (hb : ∀ r ∈ e.items, 0 ≤ r.b ∧ r.e ≤ maxRune) : ∀ r ∈ e.eval, 0 ≤ r.b ∧ r.e ≤ maxRune := by
  have hm : ∀ c, meaning e c → 0 ≤ c ∧ c ≤ maxRune := by
    induction e with
    | cls neg items =>
      intro c hc
      cases neg with
      | false =>
        obtain ⟨r, hr, h1, h2⟩ := hc
        have := hb r hr
        omega
      | true => exact ⟨hc.1, hc.2.1⟩
    | sub l r ihl _ =>
      intro c hc
      simp only [ClassExpr.items, List.mem_append] at hv hb
      exact ihl (fun x hx => hv x (Or.inl hx)) (fun x hx => hb x (Or.inl hx)) c hc.1
    | add l r ihl ihr =>
      intro c hc
      simp only [ClassExpr.items, List.mem_append] at hv hb
      rcases hc with hc | hc
      · exact ihl (fun x hx => hv x (Or.inl hx)) (fun x hx => hb x (Or.inl hx)) c hc
      · exact ihr (fun x hx => hv x (Or.inr hx)) (fun x hx => hb x (Or.inr hx)) c hc
  intro r hr
  have hvr : Valid r := (eval_flat e hv).1 r hr
  unfold Valid at hvr
  have h1 := hm r.b ((eval_den e hv r.b).1 ⟨r, hr, Int.le_refl _, hvr⟩)
  have h2 := hm r.e ((eval_den e hv r.e).1 ⟨r, hr, hvr, Int.le_refl _⟩)
  omega

-- `~[a-z0-9_] - [\u0000-\u001f]`
example : (∀ r ∈ (ClassExpr.sub (.cls true [⟨97, 122⟩, ⟨48, 57⟩, ⟨95, 95⟩]) (.cls false [⟨0, 31⟩])).items, Valid r) := by
  decide
example : (ClassExpr.sub (.cls true [⟨97, 122⟩, ⟨48, 57⟩, ⟨95, 95⟩]) (.cls false [⟨0, 31⟩])).eval =
    [⟨32, 47⟩, ⟨58, 94⟩, ⟨96, 96⟩, ⟨123, maxRune⟩] := by decide

/-! ## 4. `Normalize` terminates and never reaches `panic("not reached")` -/

/-- For every list of ranges with `b ≤ e`, the loop of `Normalize` (range.go) ends normally: the
four geometric cases are exhaustive for two distinct intersecting ranges taken from the heap in
`Compare` order, and the fuel of the model is not exhausted (measure: total length of the heap). -/
theorem normalize_total (rs : List Range) (hv : ∀ r ∈ rs, Valid r) : normalize rs ≠ none := by
  obtain ⟨L, _, _, hL, _⟩ := normalize_spec rs hv
  simp [hL]

/-- More fuel does not change the outcome: the model's `normalize` is the fuel-free loop. -/
theorem normalize_fuel_suffices (rs : List Range) (hv : ∀ r ∈ rs, Valid r) (fuel' : Nat)
    (hf : normalizeFuel rs ≤ fuel') : normalizeLoop fuel' (heapOf rs) [] = normalize rs := by
  obtain ⟨L, _, _, hL, _⟩ := normalize_spec rs hv
  rw [hL]
  exact normalizeLoop_fuel_ge _ _ _ _ _ hL hf

theorem normalizePieces_total (rs : List Range) (hv : ∀ r ∈ rs, Valid r) : normalizePieces rs ≠ none := by
  obtain ⟨ps, hps, _⟩ := normalizePieces_spec rs hv
  simp [hps]

/-- Every `onChange(o, a, b, c)` call made by `Normalize` splits a label that is currently present:
`o` is in the label set the earlier calls produced (this is `assert.True(len(states) > 0)` in
`mode.normalizeInputs`), `a`, `b`, `c` lie inside `o` and together cover `o`. -/
theorem normalize_callbacks_split (rs : List Range) (hv : ∀ r ∈ rs, Valid r) (log : List NormCb)
    (h : normalize rs = some log) : CbsOk (heapOf rs) log := by
  obtain ⟨L, _, _, hL, _, _, hcbs⟩ := normalize_spec rs hv
  rw [hL] at h
  cases h
  exact hcbs

/-! ## 5. The pieces `Normalize` leaves behind -/

/-- The final pieces are non-empty, pairwise disjoint and listed in increasing order. -/
theorem normalize_disjoint (rs : List Range) (hv : ∀ r ∈ rs, Valid r) (ps : List Range)
    (h : normalizePieces rs = some ps) :
    (∀ p ∈ ps, Valid p) ∧ ps.Pairwise (fun p q => p.e < q.b) := by
  obtain ⟨ps', hps, h1, h2, _⟩ := normalizePieces_spec rs hv
  rw [hps] at h; cases h
  exact ⟨h1, h2⟩

/-- Every input range is the exact union of the final pieces it contains. -/
theorem normalize_refines (rs : List Range) (hv : ∀ r ∈ rs, Valid r) (ps : List Range)
    (h : normalizePieces rs = some ps) (r : Range) (hr : r ∈ rs) (c : Int) :
    (r.b ≤ c ∧ c ≤ r.e) ↔ ∃ p ∈ ps, r.contains p = true ∧ p.b ≤ c ∧ c ≤ p.e := by
  obtain ⟨ps', hps, _, _, href⟩ := normalizePieces_spec rs hv
  rw [hps] at h; cases h
  constructor
  · rintro ⟨h1, h2⟩
    obtain ⟨p, hp, hsub, hc⟩ := href.cover r ((mem_heapOf rs r).2 hr) c h1 h2
    exact ⟨p, hp, (contains_iff_inside r p).2 hsub, hc⟩
  · rintro ⟨p, _, hsub, h1, h2⟩
    have := (contains_iff_inside r p).1 hsub
    unfold Inside at this
    omega

/-- Every final piece lies inside some input range … -/
theorem normalize_pieces_inside (rs : List Range) (hv : ∀ r ∈ rs, Valid r) (ps : List Range)
    (h : normalizePieces rs = some ps) (p : Range) (hp : p ∈ ps) :
    ∃ r ∈ rs, r.contains p = true := by
  obtain ⟨ps', hps, _, _, href⟩ := normalizePieces_spec rs hv
  rw [hps] at h; cases h
  obtain ⟨r, hr, hsub⟩ := href.inside p hp
  exact ⟨r, (mem_heapOf rs r).1 hr, (contains_iff_inside r p).2 hsub⟩

/-- … and no piece straddles the border of an input range: a piece that meets an input range lies
inside it. So after `normalizeInputs` two transition labels are either equal or disjoint. -/
theorem normalize_no_straddle (rs : List Range) (hv : ∀ r ∈ rs, Valid r) (ps : List Range)
    (h : normalizePieces rs = some ps) (p : Range) (hp : p ∈ ps) (r : Range) (hr : r ∈ rs)
    (hi : p.intersects r = true) : r.contains p = true := by
  obtain ⟨hpv, hdis⟩ := normalize_disjoint rs hv ps h
  obtain ⟨c, hcp, hcr⟩ := (intersects_iff p r (hpv p hp) (hv r hr)).1 hi
  obtain ⟨q, hq, hsub, hcq⟩ := (normalize_refines rs hv ps h r hr c).1 hcr
  have : p = q := disjoint_eq_of_common hdis hpv hp hq hcp hcq
  subst this
  exact hsub

/-- Nothing is gained or lost: the pieces denote exactly the code points of the input. -/
theorem normalize_den (rs : List Range) (hv : ∀ r ∈ rs, Valid r) (ps : List Range)
    (h : normalizePieces rs = some ps) (c : Int) : Den ps c ↔ Den rs c := by
  constructor
  · rintro ⟨p, hp, h1, h2⟩
    obtain ⟨r, hr, hsub⟩ := normalize_pieces_inside rs hv ps h p hp
    have := (contains_iff_inside r p).1 hsub
    unfold Inside at this
    exact ⟨r, hr, by omega, by omega⟩
  · rintro ⟨r, hr, hc⟩
    obtain ⟨p, hp, _, hcp⟩ := (normalize_refines rs hv ps h r hr c).1 hc
    exact ⟨p, hp, hcp⟩

-- `[a-z]`, `[a-f]`, `[d-k]`, `x`, `[0-9]` and a duplicate
example : ∀ r ∈ [(⟨97, 122⟩ : Range), ⟨97, 102⟩, ⟨100, 107⟩, ⟨120, 120⟩, ⟨48, 57⟩, ⟨97, 102⟩], Valid r := by decide
example : normalize [⟨97, 122⟩, ⟨97, 102⟩] = some [⟨⟨97, 122⟩, ⟨97, 102⟩, ⟨103, 122⟩, ⟨103, 122⟩⟩] := by decide
example : normalizePieces [⟨97, 122⟩, ⟨97, 102⟩, ⟨100, 107⟩, ⟨120, 120⟩, ⟨48, 57⟩, ⟨97, 102⟩] =
    some [⟨48, 57⟩, ⟨97, 99⟩, ⟨100, 102⟩, ⟨103, 107⟩, ⟨108, 119⟩, ⟨120, 120⟩, ⟨121, 122⟩] := by decide

/-! ## 6. Merging pieces back (`mode.mergeTransitions`) -/

/-- The callbacks of `Flatten`, applied as `mergeTransitions` applies them to a set `s` of labels
that starts as the set of input ranges: every single callback leaves the denotation of the label
set unchanged (`MergeOk`), and at the end the label set is exactly the set of returned ranges,
which denotes exactly the input. -/
theorem merge_sound (rs s : List Range) (hv : ∀ r ∈ rs, Valid r) (hs : ∀ x, x ∈ s ↔ x ∈ rs) :
    MergeOk s (flattenWithLog rs).2 ∧
    (∀ x, x ∈ (flattenWithLog rs).2.foldl applyFlatCb s ↔ x ∈ (flattenWithLog rs).1) ∧
    (∀ c, Den ((flattenWithLog rs).2.foldl applyFlatCb s) c ↔ Den rs c) := by
  have hinv := loopInv_sortRanges hv
  have hlog := flattenLoop_log (sortRanges rs) [] s hinv
    (logInv_init (fun x => (hs x).trans (mem_sortRanges rs x).symm))
  refine ⟨hlog.2, hlog.1, fun c => ?_⟩
  exact (den_congr hlog.1 c).trans (flatten_den' rs hv c)

/-- The instance the driver prints (`rang3.flattenlog`): start from `heapOf rs`. -/
theorem merge_sound_heapOf (rs : List Range) (hv : ∀ r ∈ rs, Valid r) :
    ∀ x, x ∈ (flattenWithLog rs).2.foldl applyFlatCb (heapOf rs) ↔ x ∈ flatten rs :=
  (merge_sound rs (heapOf rs) hv (mem_heapOf rs)).2.1

/-- With pairwise distinct labels (the keys of a transition map) both `assert.True` calls in the
callback of `mergeTransitions` hold: `oa` and `ob` are labels of the state when the callback runs. -/
theorem merge_asserts_hold (rs s : List Range) (hv : ∀ r ∈ rs, Valid r) (hnd : rs.Nodup)
    (hs : ∀ x, x ∈ s ↔ x ∈ rs) : MergeAsserts s (flattenWithLog rs).2 :=
  flattenLoop_asserts (sortRanges rs) [] s (loopInv_sortRanges hv)
    (logInv_init (fun x => (hs x).trans (mem_sortRanges rs x).symm))
    (nodup_sortRanges rs hnd) (fun r hr => (hs r).2 ((mem_sortRanges rs r).1 hr)) (by simp)

/-- `Flatten` sorts twice, the second time with an unstable sort that only looks at the lower
bounds. Whatever order that leaves among ranges with equal lower bound, the merge loop returns the
same ranges as the model (which keeps the `Compare` order), and `merge_sound` holds for that order too. -/
theorem flatten_any_order (rs l : List Range) (hv : ∀ r ∈ rs, Valid r)
    (hsorted : l.Pairwise (fun x y => x.b ≤ y.b)) (hperm : ∀ x, x ∈ l ↔ x ∈ rs) :
    (flattenLoop l [] []).1 = flatten rs ∧
    (∀ s, (∀ x, x ∈ s ↔ x ∈ rs) →
      MergeOk s (flattenLoop l [] []).2 ∧
      ∀ x, x ∈ (flattenLoop l [] []).2.foldl applyFlatCb s ↔ x ∈ flatten rs) := by
  have heq := flattenLoop_any_order rs l hv hsorted hperm
  refine ⟨heq, fun s hs => ?_⟩
  have hvl : ∀ r ∈ l, Valid r := fun r hr => hv r ((hperm r).1 hr)
  have hlog := flattenLoop_log l [] s (loopInv_init hsorted hvl)
    (logInv_init (fun x => (hs x).trans (hperm x).symm))
  rw [heq] at hlog
  exact ⟨hlog.2, hlog.1⟩

/-- Canonical lists are determined by their denotation … -/
theorem canonical_unique (l1 l2 : List Range) (h1 : Flat l1) (h2 : Flat l2)
    (h : ∀ c, Den l1 c ↔ Den l2 c) : l1 = l2 := flat_unique h1 h2 h

/-- … so two class expressions with the same meaning get literally the same ranges. -/
theorem eval_canonical (e1 e2 : ClassExpr) (h1 : ∀ r ∈ e1.items, Valid r) (h2 : ∀ r ∈ e2.items, Valid r)
    (h : ∀ c, meaning e1 c ↔ meaning e2 c) : e1.eval = e2.eval :=
  flat_unique (eval_flat e1 h1) (eval_flat e2 h2)
    (fun c => (eval_den e1 h1 c).trans ((h c).trans (eval_den e2 h2 c).symm))

-- three pieces of `[a-k]` and a separate `x` merged back (valid, pairwise distinct)
example : (∀ r ∈ [(⟨100, 102⟩ : Range), ⟨97, 99⟩, ⟨120, 120⟩, ⟨103, 107⟩], Valid r) ∧
    [(⟨100, 102⟩ : Range), ⟨97, 99⟩, ⟨120, 120⟩, ⟨103, 107⟩].Nodup := by decide
-- an arrangement sorted by lower bound only that differs from the `Compare` order
example : [(⟨1, 5⟩ : Range), ⟨1, 2⟩, ⟨4, 9⟩].Pairwise (fun x y => x.b ≤ y.b) ∧
    sortRanges [⟨1, 5⟩, ⟨1, 2⟩, ⟨4, 9⟩] = [⟨1, 2⟩, ⟨1, 5⟩, ⟨4, 9⟩] := by decide
example : flattenWithLog [⟨100, 102⟩, ⟨97, 99⟩, ⟨120, 120⟩, ⟨103, 107⟩] =
    ([⟨97, 107⟩, ⟨120, 120⟩],
     [⟨⟨97, 99⟩, ⟨100, 102⟩, ⟨97, 102⟩⟩, ⟨⟨97, 102⟩, ⟨103, 107⟩, ⟨97, 107⟩⟩]) := by decide

/-! ## 7. What the NFA fragments of a class and of a literal accept -/

/-- A class term accepts the single code point `c` iff `c` is in the meaning of the expression. -/
theorem class_exact (e : ClassExpr) (hv : ∀ r ∈ e.items, Valid r) (c : Int) :
    inRanges e.eval c = true ↔ meaning e c := by
  rw [← eval_den e hv c]
  simp [inRanges, Den]

/-- The chain built for a literal spells exactly the literal's code-point sequence. -/
theorem literal_exact (cps w : List Int) : chainMatches (literalLabels cps) w = true ↔ w = cps := by
  induction cps generalizing w with
  | nil => cases w <;> simp [literalLabels, chainMatches]
  | cons c cps ih =>
    cases w with
    | nil => simp [literalLabels, chainMatches]
    | cons d w =>
      have := ih w
      simp only [literalLabels] at this
      simp only [literalLabels, List.map_cons, chainMatches, Bool.and_eq_true, decide_eq_true_eq,
        this, List.cons.injEq]
      constructor
      · rintro ⟨⟨h1, h2⟩, h3⟩; exact ⟨by omega, h3⟩
      · rintro ⟨h1, h2⟩; exact ⟨⟨by omega, by omega⟩, h2⟩

example : chainMatches (literalLabels [105, 102]) [105, 102] = true ∧
    chainMatches (literalLabels [105, 102]) [105] = false := by decide

/-! ## 8. The callbacks applied to transitions (`relabelSplit`, `relabelMerge` in ClassExpr.lean) -/

/-- `normalizeInputs`: applying all callbacks of a `Normalize` run to the transitions of any state
leaves, for every target, the set of code points leading to it unchanged. -/
theorem relabel_split_sound (rs : List Range) (hv : ∀ r ∈ rs, Valid r) (log : List NormCb)
    (h : normalize rs = some log) (t : Trans) (q : Nat) (c : Int) :
    DenT (log.foldl relabelSplit t) q c ↔ DenT t q c :=
  relabelSplit_fold_denT t (heapOf rs) log (normalize_callbacks_split rs hv log h) q c

/-- `mergeTransitions`: for a state whose labels are non-empty and whose transitions are
deterministic (no code point leads to two targets), merging the labels `rs` of target `q` with the
callbacks of `Flatten` leaves, for every target, the set of code points leading to it unchanged;
the labels stay non-empty, so the statement applies again to the next target. -/
theorem relabel_merge_sound (t : Trans) (q : Nat) (rs : List Range)
    (hval : ∀ p ∈ t, Valid p.1) (hdet : ∀ q1 q2 c, DenT t q1 c → DenT t q2 c → q1 = q2)
    (hnd : rs.Nodup) (hrs : ∀ x, x ∈ rs ↔ (x, q) ∈ t) :
    (∀ q' c, DenT ((flattenWithLog rs).2.foldl (fun t cb => relabelMerge t cb q) t) q' c ↔ DenT t q' c) ∧
      ∀ p ∈ (flattenWithLog rs).2.foldl (fun t cb => relabelMerge t cb q) t, Valid p.1 := by
  have hv : ∀ r ∈ rs, Valid r := fun r hr => hval (r, q) ((hrs r).1 hr)
  refine relabelMerge_fold t q hval hdet _ rs t (merge_sound rs rs hv (fun _ => Iff.rfl)).1
    (merge_asserts_hold rs rs hv hnd (fun _ => Iff.rfl)) (flattenLoop_log_form _ _) hrs
    (fun _ _ => Iff.rfl) ?_ hv
  intro c
  constructor
  · rintro ⟨x, hx, hc⟩
    exact ⟨(x, q), (hrs x).1 hx, rfl, hc⟩
  · rintro ⟨p, hp, hpq, hc⟩
    obtain ⟨x, y⟩ := p
    simp only at hpq; subst hpq
    exact ⟨x, (hrs x).2 hp, hc⟩

-- a state with `[a-c]→1, [d-f]→1, x→2`: the two labels of target 1 are merged, `x` stays
example : (flattenWithLog [⟨97, 99⟩, ⟨100, 102⟩]).2.foldl (fun t cb => relabelMerge t cb 1)
    [(⟨97, 99⟩, 1), (⟨100, 102⟩, 1), (⟨120, 120⟩, 2)] = [(⟨97, 102⟩, 1), (⟨120, 120⟩, 2)] := by decide
-- a state with `[a-z]→7` while `[a-f]` occurs elsewhere: its label is split, the target kept
example : ([⟨⟨97, 122⟩, ⟨97, 102⟩, ⟨103, 122⟩, ⟨103, 122⟩⟩] : List NormCb).foldl relabelSplit
    [(⟨97, 122⟩, 7)] = [(⟨97, 102⟩, 7), (⟨103, 122⟩, 7)] := by decide

end Lox.Props.C15
