import Lox.Rang3.Model
/-! Property theorems for C15 (character classes and literals denote exact code-point sets).
Only statements that are part of the property live here; helper lemmas are in `Lox.Rang3.Proofs`. -/
namespace Lox.Props.C15
open Lox.Rang3

/-- `c ∈ ⟦r⟧`. -/
def Range.mem (c : Int) (r : Range) : Prop := r.b ≤ c ∧ c ≤ r.e

/-- `Intersects` is set intersection being non-empty (for ranges with `b ≤ e`). -/
theorem intersects_iff (a b : Range) (ha : a.b ≤ a.e) (hb : b.b ≤ b.e) :
    a.intersects b = true ↔ ∃ c, Range.mem c a ∧ Range.mem c b := by
  unfold Range.intersects Range.mem
  constructor
  · intro h
    split at h
    · exact ⟨a.b, ⟨by omega, by omega⟩, by simp at h; omega, by simp at h; omega⟩
    · exact ⟨b.b, ⟨by simp at h; omega, by simp at h; omega⟩, by omega, by omega⟩
  · rintro ⟨c, ⟨h1, h2⟩, h3, h4⟩
    split <;> simp <;> omega

/-- `Contains` is set inclusion (for a non-empty inner range). -/
theorem contains_iff (a b : Range) (hb : b.b ≤ b.e) :
    a.contains b = true ↔ ∀ c, Range.mem c b → Range.mem c a := by
  unfold Range.contains Range.mem
  constructor
  · intro h c hc; simp at h; omega
  · intro h
    have h1 := h b.b ⟨by omega, hb⟩
    have h2 := h b.e ⟨hb, by omega⟩
    simp; omega

end Lox.Props.C15
