import Lox.Props.C03_e2e
import Lox.Props.C16
/-!
# C16, the SUGAR end to end: `_onBounds` on the parser lox generates for a sugar grammar

Hypotheses as in `C01_sugar_e2e.lean` (well-formed sugar grammar `SG`, `desugar SG` accepted
without conflicts by the generator model, `T` the emitted tables), input `w` of declared tokens,
the model of the generated `parse()` with `_onBounds` defined (`withBounds = true`) accepts `w`
cleanly. Composition of `C16.on_bounds_calls` / `C16.erasure` (any tables) with
`C03.sugar_generator_actions` (the calls are the post-order of a value tree whose leaves are the
input tokens) and `generator_valid`.

What is added to `on_bounds_calls` by the composition: the span of every reduction is a
CONTIGUOUS stretch `b, …, b+n-1` of the input, the leaves of the action's result are exactly the
tokens `w[b], …, w[b+n-1]` (so `Begin`/`End` are the first and last token of the text the node
derives), and `n = 0` exactly for nodes that derive nothing. `tokAt w i` = the `i`-th token the
lexer returned; `wordOf v` = the token types at the leaves of `v`. -/
namespace Lox.Props.C16
open Lox.LR Lox.LR.Emit Lox.LR.Abs Lox.LR.Rt

variable {SG : SGrammar} {ord : List Sym} {T : Tables} {cert : Array (List Item)}

/-- **sugar_generator_bounds.** Chronological log of a clean accepting run with `_onBounds`.
(a) Every action call `_act(p, kids)` – user production or helper – spans a contiguous stretch of
`n` input tokens starting at token `b`: the leaves of its result are exactly `w[b], …, w[b+n-1]`.
If `n > 0` the call is IMMEDIATELY followed by `_onBounds(result, token b, token b+n-1)`; if
`n = 0` (the node derives nothing) the next event, if any, is not an `_onBounds` call.
(b) Every `_onBounds` call is such a follower: directly preceded by the action call of the same
reduction, carrying its result and the first and last token of its non-empty span. -/
theorem sugar_generator_bounds (hw : SG.wf = true)
    (hord : ordOKB SG.nTerms SG.nRules ord = true)
    (hgen : generate (desugar SG).1 SG.nTerms ord = some (T, cert))
    (hfree : conflictFree (desugar SG).1 SG.nTerms ord = true)
    (hsmall : cert.size ≤ 2147483647) {w : List Nat} (hw2 : ∀ x ∈ w, 2 ≤ x) {fuel : Nat}
    (hacc : (parseG T w.toArray true fuel).1 = .accept)
    (h0 : (parseG T w.toArray true fuel).2.2 = 0) :
    (∀ (pre post : List Event) (p : Nat) (kids : List Val),
      (parse T w.toArray true fuel).2.log.reverse = pre ++ .act p kids :: post →
        ∃ b n, b + n ≤ w.length ∧
          leaves (.node p kids) = (List.range' b n).map (tokAt w) ∧
          wordOf (.node p kids) = (w.drop b).take n ∧
          (0 < n → ∃ post', post = .bounds p (.node p kids) b (b + n - 1) :: post') ∧
          (n = 0 → ∀ ev, post.head? = some ev → ev.isBounds = false)) ∧
    (∀ (pre post : List Event) (p : Nat) (v : Val) (b e : Nat),
      (parse T w.toArray true fuel).2.log.reverse = pre ++ .bounds p v b e :: post →
        ∃ pre' kids, pre = pre' ++ [.act p kids] ∧ v = .node p kids ∧ b ≤ e ∧ e < w.length ∧
          leaves v = (List.range' b (e - b + 1)).map (tokAt w)) := by
  obtain ⟨v, _, _, _, hl, hlog, _⟩ :=
    C03.sugar_generator_actions hw hord hgen hfree hsmall hw2 hacc h0
  obtain ⟨ha, hb⟩ := on_bounds_calls T w.toArray fuel
  have hspan : ∀ (pre post : List Event) (p : Nat) (kids : List Val),
      (parse T w.toArray true fuel).2.log.reverse = pre ++ .act p kids :: post →
      ∃ b n, b + n ≤ w.length ∧ leaves (.node p kids) = (List.range' b n).map (tokAt w) := by
    intro pre post p kids hsplit
    have hev : Event.act p kids ∈ (parse T w.toArray true fuel).2.log := by
      rw [← List.mem_reverse, hsplit]; simp
    have hm : (p, kids) ∈ v.post := by
      rw [← hlog, List.mem_reverse]; exact mem_actCalls.2 hev
    exact call_span hl hm
  constructor
  · intro pre post p kids hsplit
    obtain ⟨b, n, hbn, hlv⟩ := hspan pre post p kids hsplit
    have hy := yieldIdx_of_span hlv
    obtain ⟨h1, h2⟩ := ha pre post p kids hsplit
    refine ⟨b, n, hbn, hlv, wordOf_of_span hbn hlv, fun hn => ?_, fun hn => ?_⟩
    · obtain ⟨b', e', post', hp, hb', he'⟩ := h1 (by rw [hy]; intro h; simp at h; omega)
      rw [hy, head?_range'_pos hn] at hb'
      rw [hy, getLast?_range'_pos hn] at he'
      cases hb'; cases he'
      exact ⟨post', hp⟩
    · exact h2 (by rw [hy, hn]; rfl)
  · intro pre post p u b e hsplit
    obtain ⟨pre', kids, hpre, hu, hb', he'⟩ := hb pre post p u b e hsplit
    subst hu
    obtain ⟨b0, n, hbn, hlv⟩ := hspan pre' (.bounds p (.node p kids) b e :: post) p kids
      (by rw [hsplit, hpre]; simp)
    have hy := yieldIdx_of_span hlv
    rw [hy] at hb' he'
    have hn : 0 < n := by
      cases n with
      | zero => simp at hb'
      | succ n => omega
    rw [head?_range'_pos hn] at hb'
    rw [getLast?_range'_pos hn] at he'
    cases hb'; cases he'
    refine ⟨pre', kids, hpre, rfl, by omega, by omega, ?_⟩
    rw [hlv]
    congr 2
    omega

/-- **sugar_generator_bounds_erasure.** "Its presence changes nothing else": on the emitted tables
the run with `_onBounds` and the run without have the same outcome, the same number of
recoveries (so one is a clean accept iff the other is), the same action calls in the same order,
the same number of `ReadToken` calls, the same lexer position, the same stack (states and
values), and without `_onBounds` no `_onBounds` call is logged. (Holds for any tables; stated here
for the generated ones, for every input – lexer ERROR tokens included – and every fuel.) -/
theorem sugar_generator_bounds_erasure (_hgen : generate (desugar SG).1 SG.nTerms ord = some (T, cert))
    (inp : Array Nat) (fuel : Nat) :
    (parseG T inp true fuel).1 = (parseG T inp false fuel).1 ∧
    (parseG T inp true fuel).2.2 = (parseG T inp false fuel).2.2 ∧
    actEvents (parse T inp true fuel).2.log = (parse T inp false fuel).2.log ∧
    actCalls (parse T inp true fuel).2.log = actCalls (parse T inp false fuel).2.log ∧
    (parse T inp true fuel).2.reads = (parse T inp false fuel).2.reads ∧
    (parse T inp true fuel).2.pos = (parse T inp false fuel).2.pos ∧
    (parse T inp true fuel).2.stack.map (fun e => (e.state, e.sym)) =
      (parse T inp false fuel).2.stack.map (fun e => (e.state, e.sym)) ∧
    ∀ ev ∈ (parse T inp false fuel).2.log, ev.isBounds = false := by
  obtain ⟨h1, h2, h3, h4, _⟩ := erasure T inp fuel
  refine ⟨by rw [parseG_fst, parseG_fst, h1], parseG_counter_eraseB T inp fuel, h2, ?_, h3, h4,
    erasure_stack T inp fuel, no_calls_without T inp fuel⟩
  rw [← h2]
  generalize (parse T inp true fuel).2.log = l
  induction l with
  | nil => rfl
  | cons ev l ih => cases ev <;> simp [actEvents, actCalls, Event.isBounds] at ih ⊢ <;> exact ih

/-- For sentences no hypothesis about the run is left: for sufficient fuel the run with
`_onBounds` accepts cleanly and (a), (b) of `sugar_generator_bounds` hold. -/
theorem sugar_generator_sentence_bounds (hw : SG.wf = true)
    (hord : ordOKB SG.nTerms SG.nRules ord = true)
    (hgen : generate (desugar SG).1 SG.nTerms ord = some (T, cert))
    (hfree : conflictFree (desugar SG).1 SG.nTerms ord = true)
    (hsmall : cert.size ≤ 2147483647) {w : List Nat} (hw2 : ∀ x ∈ w, 2 ≤ x)
    (hs : SDer SG [.atom (.rule 0)] w) :
    ∃ N, ∀ fuel, N ≤ fuel → (parse T w.toArray true fuel).1 = .accept ∧
      ∀ (pre post : List Event) (p : Nat) (kids : List Val),
        (parse T w.toArray true fuel).2.log.reverse = pre ++ .act p kids :: post →
          ∃ b n, b + n ≤ w.length ∧
            leaves (.node p kids) = (List.range' b n).map (tokAt w) ∧
            (0 < n → ∃ post', post = .bounds p (.node p kids) b (b + n - 1) :: post') ∧
            (n = 0 → ∀ ev, post.head? = some ev → ev.isBounds = false) := by
  obtain ⟨N, hN⟩ := C01.sugar_generator_accepts hw hord hgen hfree hsmall hw2 hs true
  refine ⟨N, fun fuel hf => ?_⟩
  obtain ⟨hacc, h0⟩ := hN fuel hf
  refine ⟨by rw [← parseG_fst]; exact hacc, fun pre post p kids hsplit => ?_⟩
  obtain ⟨b, n, h1, h2, _, h3, h4⟩ :=
    (sugar_generator_bounds hw hord hgen hfree hsmall hw2 hacc h0).1 pre post p kids hsplit
  exact ⟨b, n, h1, h2, h3, h4⟩

/-! ### Non-vacuity: `s = A? b+ ;  b = @list(B, C)` (`C01.exE2E`) -/

open Lox.Props.C01 (exE2E exE2EOrd exE2E_free exE2E_gen exE2E_accept exE2E_member)

/-- A decidable summary of an event log: `(0, p, #args, 0)` for an action call,
`(1, p, begin, end)` for an `_onBounds` call. -/
def evSummary : Event → Nat × Nat × Nat × Nat
  | .act p kids => (0, p, kids.length, 0)
  | .bounds p _ b e => (1, p, b, e)

/-- By evaluation, `A B C B B`: `A? → A` spans token 0; the list `B C B` grows (1,1) then (1,3);
`b` (1,3); `b+` (1,3); the second list and `b` span token 4; `b+` and `s` end at token 4. -/
theorem exE2E_log : (generate (desugar exE2E).1 exE2E.nTerms exE2EOrd).map
    (fun r => (parseG r.1 #[2, 3, 4, 3, 3] true 60).2.1.log.reverse.map evSummary) =
    some [(0, 3, 1, 0), (1, 3, 0, 0), (0, 8, 1, 0), (1, 8, 1, 1), (0, 7, 3, 0), (1, 7, 1, 3),
      (0, 2, 1, 0), (1, 2, 1, 3), (0, 6, 1, 0), (1, 6, 1, 3), (0, 8, 1, 0), (1, 8, 4, 4),
      (0, 2, 1, 0), (1, 2, 4, 4), (0, 5, 2, 0), (1, 5, 1, 4), (0, 1, 2, 0), (1, 1, 0, 4)] := by
  decide +kernel

/-- By evaluation, `B` alone: `A? → ε` (production 4) derives nothing and gets NO `_onBounds`
call; the root `s` spans token 0 only (the empty child in front is skipped). -/
theorem exE2E_log_empty : (generate (desugar exE2E).1 exE2E.nTerms exE2EOrd).map
    (fun r => ((parseG r.1 #[3] true 60).1, (parseG r.1 #[3] true 60).2.2)) = some (.accept, 0) ∧
    (generate (desugar exE2E).1 exE2E.nTerms exE2EOrd).map
      (fun r => (parseG r.1 #[3] true 60).2.1.log.reverse.map evSummary) =
    some [(0, 4, 0, 0), (0, 8, 1, 0), (1, 8, 0, 0), (0, 2, 1, 0), (1, 2, 0, 0),
      (0, 6, 1, 0), (1, 6, 0, 0), (0, 1, 2, 0), (1, 1, 0, 0)] := by
  constructor <;> decide +kernel

/-- THROUGH the theorem, on the sentence `A B C B B` (all hypotheses by evaluation): the first
event of the log is an action call; `sugar_generator_bounds` gives its span `b, n`; if `n > 0` the
second event is its `_onBounds` call with tokens `b` and `b+n-1`. -/
example : ∃ T cert, generate (desugar exE2E).1 exE2E.nTerms exE2EOrd = some (T, cert) ∧
    ∀ (p : Nat) (kids : List Val) (post : List Event),
      (parse T #[2, 3, 4, 3, 3] true 60).2.log.reverse = .act p kids :: post →
      ∃ b n, b + n ≤ 5 ∧ wordOf (.node p kids) = ([2, 3, 4, 3, 3].drop b).take n ∧
        (0 < n → ∃ post', post = .bounds p (.node p kids) b (b + n - 1) :: post') := by
  obtain ⟨T, cert, hgen, hsz⟩ := exE2E_gen
  have hr := exE2E_accept
  rw [hgen] at hr
  simp only [Option.map_some, Option.some.injEq, Prod.mk.injEq] at hr
  refine ⟨T, cert, hgen, fun p kids post hlog => ?_⟩
  obtain ⟨b, n, h1, _, h3, h4, _⟩ :=
    (sugar_generator_bounds (SG := exE2E) (by decide) (by decide) hgen exE2E_free hsz
      (w := [2, 3, 4, 3, 3]) (by decide) hr.1 hr.2).1 [] post p kids (by simpa using hlog)
  exact ⟨b, n, h1, h3, h4⟩

/-- … and the same through `sugar_generator_sentence_bounds`, from the documented reading alone
(`exE2E_member : SDer exE2E … [2, 3, 4, 3, 3]`), without evaluating the parser. -/
example : ∃ T cert, generate (desugar exE2E).1 exE2E.nTerms exE2EOrd = some (T, cert) ∧
    ∃ N, ∀ fuel, N ≤ fuel → (parse T #[2, 3, 4, 3, 3] true fuel).1 = .accept := by
  obtain ⟨T, cert, hgen, hsz⟩ := exE2E_gen
  obtain ⟨N, hN⟩ := sugar_generator_sentence_bounds (SG := exE2E) (by decide) (by decide) hgen
    exE2E_free hsz (w := [2, 3, 4, 3, 3]) (by decide) exE2E_member
  exact ⟨T, cert, hgen, N, fun fuel hf => (hN fuel hf).1⟩

end Lox.Props.C16
