import Lox.LR.GenModelProofsClosure
import Lox.LR.GenModelProofsActions
/-! # C04, generator side — the generator's own FIRST / Closure / LR0Key / createActions invent nothing

C04: conflicts are reported exactly when the grammar is not LALR(1). A FIRST set with a terminal
too many gives a lookahead too many and may report a conflict that does not exist; a terminal too
few hides one (that direction is `Lox/Props/C01_gen.lean`). The theorems are about the model
`Lox/LR/GenModel.lean` of the generator's code (tie: family `genmodel`). -/
namespace Lox.Props.C04
open Lox.LR Lox.LR.Gen

/-- **FIRST is sound** (textbook reading), for every grammar, every fuel and every symbol string:
a terminal in the model's `First(g, α)` can stand first in a sentential form derived from `α`; if ε
is in it then `α ⇒* ε`. No hypothesis: every table the loop passes through is sound. -/
theorem first_sound (G : Grammar) (nT : Nat) (α : List Sym) :
    (∀ b ∈ (firstOfSyms G nT α).1, SFirst G α b) ∧ ((firstOfSyms G nT α).2 = true → SNull G α) :=
  firstSeq_sound (firstSets_sound (semS G) nT) α trivial

/-- **FIRST is sound w.r.t. complete derivations** (`Der`) when every symbol on a right-hand side
and in `α` derives some terminal string (without that, `A = x B; B = B y` has `x ∈ FIRST(A)` in
the textbook sense although `A` derives no terminal string at all). -/
theorem first_sound_der {G : Grammar} (hp : ∀ pr ∈ G.prods.toList, ∀ s ∈ pr.rhs, Productive G s)
    (nT : Nat) {α : List Sym} (hα : ∀ s ∈ α, Productive G s) :
    (∀ b ∈ (firstOfSyms G nT α).1, ∃ w ts, Der G α (b :: w) ts) ∧
      ((firstOfSyms G nT α).2 = true → ∃ ts, Der G α [] ts) :=
  firstSeq_sound (firstSets_sound (semD G hp) nT) α hα

/-- **The model's FIRST is exactly the semantic FIRST.** -/
theorem first_exact {G : Grammar} {nT : Nat} (ht : TermsBelow G nT) (α : List Sym) :
    (∀ b, b ∈ (firstOfSyms G nT α).1 ↔ SFirst G α b) ∧
      ((firstOfSyms G nT α).2 = true ↔ SNull G α) :=
  firstSets_exact ht α

/-- With complete derivations on both sides, for grammars whose symbols are all productive. -/
theorem first_exact_der {G : Grammar} {nT : Nat} (ht : TermsBelow G nT)
    (hp : ∀ pr ∈ G.prods.toList, ∀ s ∈ pr.rhs, Productive G s) {α : List Sym}
    (hα : ∀ s ∈ α, Productive G s) (b : Nat) :
    b ∈ (firstOfSyms G nT α).1 ↔ ∃ w ts, Der G α (b :: w) ts := by
  constructor
  · exact (first_sound_der hp nT hα).1 b
  · rintro ⟨w, ts, hd⟩
    exact ((first_exact ht α).1 b).mpr ⟨w.map Sym.t, by simpa using Der.derives hd⟩

/-- The lookahead sets `Closure` iterates over, FIRST(β a), never contain ε (so the index 0 that
the pseudo-terminal `Epsilon` shares with EOF never becomes a lookahead). -/
theorem firstLA_no_epsilon (G : Grammar) (nT : Nat) (β : List Sym) (a : Nat) :
    (firstOfSyms G nT (β ++ [.t a])).2 = false :=
  firstLA_no_eps _ β a

/-! ### Non-vacuity -/

/-- `A = x B; B = B y`: all hypotheses of `first_sound` are trivially met (there are none) and the
unproductive `B` shows why `first_sound_der` needs its hypothesis: `x ∈ FIRST(A)`. -/
def gUnprod : Grammar := ⟨#[⟨0, [.n 1]⟩, ⟨1, [.t 2, .n 2]⟩, ⟨2, [.n 2, .t 3]⟩]⟩

example : firstOfSyms gUnprod 4 [.n 1] = ([2], false) := by decide
example : TermsBelow gUnprod 4 := termsBelowB_iff.mp (by decide)

/-- A grammar whose symbols are all productive: `s = s a | ε` (left recursion, nullable). -/
def gLeft : Grammar := ⟨#[⟨0, [.n 1]⟩, ⟨1, [.n 1, .t 2]⟩, ⟨1, []⟩]⟩

private theorem gLeft_productive : ∀ pr ∈ gLeft.prods.toList, ∀ s ∈ pr.rhs, Productive gLeft s := by
  have hs : Productive gLeft (.n 1) :=
    ⟨[], [.node 2 []], by simpa using Der.nonterm (G := gLeft) (q := 2) (pr := ⟨1, []⟩) rfl .nil .nil⟩
  have ht : Productive gLeft (.t 2) := ⟨[2], [.leaf 2], .term .nil⟩
  intro pr hpr s hs'
  simp [gLeft] at hpr
  rcases hpr with rfl | rfl | rfl <;> simp at hs'
  · subst hs'; exact hs
  · rcases hs' with rfl | rfl
    · exact hs
    · exact ht

example : firstOfSyms gLeft 3 [.n 1] = ([2], true) := by decide

/-- `first_sound_der` applies to `gLeft`: `a ∈ FIRST(s)` comes with a complete derivation. -/
example : ∃ w ts, Der gLeft [.n 1] (2 :: w) ts :=
  (first_sound_der gLeft_productive 3 (α := [.n 1])
    (by intro s hs; simp at hs; subst hs
        exact gLeft_productive ⟨0, [.n 1]⟩ (by simp [gLeft]) _ (by simp))).1 2
    (by decide)

/-! ## Closure and Goto: exactly the least closed set -/

/-- **closure_spec.** What `Closure` returns is exactly the LEAST item set that contains its
argument and is closed under the LR(1) closure rule taken with the semantic first sets: an item
is in the result iff it is derivable from the argument by the rule (`ClosureOf`). -/
theorem closure_spec {G : Grammar} {nT : Nat} (ht : TermsBelow G nT) {I C : List Item}
    (h : closure? G nT I = some C) : ∀ x, x ∈ C ↔ ClosureOf G I x :=
  closureLoop_spec (exactTab_firstSets ht) _ (loopInv_init G (firstSets G nT) I) h

/-- The three parts of "least closed superset" spelled out. -/
theorem closure_least {G : Grammar} {nT : Nat} (ht : TermsBelow G nT) {I C : List Item}
    (h : closure? G nT I = some C) :
    (∀ x ∈ I, x ∈ C) ∧ ClosedSet G C ∧
      ∀ S : List Item, (∀ x ∈ I, x ∈ S) → ClosedSet G S → ∀ x ∈ C, x ∈ S := by
  have spec := closure_spec ht h
  refine ⟨fun x hx => (spec x).mpr (.base hx),
    fun it hit new hr => (spec new).mpr (.step ((spec it).mp hit) hr), ?_⟩
  intro S hIS hS x hx
  have := (spec x).mp hx
  induction this with
  | base hi => exact hIS _ hi
  | step hprev hrule ih => exact hS _ (ih ((spec _).mpr hprev)) _ hrule

/-- `Closure` invents nothing: every item of the result that is not in the argument has dot 0 and
a lookahead that the closure rule justifies from an item of the result. -/
theorem closure_justified {G : Grammar} {nT : Nat} (ht : TermsBelow G nT) {I C : List Item}
    (h : closure? G nT I = some C) {x : Item} (hx : x ∈ C) :
    x ∈ I ∨ ∃ it ∈ C, ClosureRule G it x := by
  have spec := closure_spec ht h
  cases (spec x).mp hx with
  | base hi => exact Or.inl hi
  | step hprev hrule => exact Or.inr ⟨_, (spec _).mpr hprev, hrule⟩

/-- **closure_idempotent** (as sets): closing a closed set adds nothing. -/
theorem closure_idempotent {G : Grammar} {nT : Nat} (ht : TermsBelow G nT) {I C C' : List Item}
    (h : closure? G nT I = some C) (h' : closure? G nT C = some C') : ∀ x, x ∈ C' ↔ x ∈ C := by
  have hc := closure_least ht h
  have spec' := closure_spec ht h'
  intro x
  constructor
  · intro hx
    have := (spec' x).mp hx
    induction this with
    | base hi => exact hi
    | step hprev hrule ih => exact hc.2.1 _ (ih ((spec' _).mpr hprev)) _ hrule
  · intro hx
    exact (spec' x).mpr (.base hx)

/-- **goto_spec.** `Goto(I, X)` = closure of the items of `I` advanced over `X`: by definition of
the model (mirror of `goto.go`), and semantically: an item is in `Goto(I, X)` iff it is derivable
by the closure rule from the advanced items. -/
theorem goto_spec {G : Grammar} {nT : Nat} (I : List Item) (X : Sym) :
    goto? G nT I X = closure? G nT (advance G I X) ∧
      (∀ x, x ∈ advance G I X ↔ ∃ it ∈ I, afterDot G it = some X ∧ x = ⟨it.p, it.d + 1, it.a⟩) ∧
      (TermsBelow G nT → ∀ C, goto? G nT I X = some C →
        ∀ x, x ∈ C ↔ ClosureOf G (advance G I X) x) :=
  ⟨rfl, fun _ => mem_advance, fun ht _ h => closure_spec ht h⟩

/-- Non-vacuity: `Goto(I0, tt)` on the grammar of D1 (`s = tt r; tt = T; r = oo X | oo Y Z;
oo = O | ε`): `oo → ·O` and `oo → ·` with lookaheads `X` and `Y`. -/
def gD1 : Grammar := ⟨#[⟨0, [.n 1]⟩, ⟨1, [.n 2, .n 3]⟩, ⟨2, [.t 2]⟩, ⟨3, [.n 4, .t 3]⟩,
  ⟨3, [.n 4, .t 4, .t 5]⟩, ⟨4, [.t 6]⟩, ⟨4, []⟩]⟩

example : (goto? gD1 7 [⟨0, 0, 0⟩, ⟨1, 0, 0⟩, ⟨2, 0, 3⟩, ⟨2, 0, 4⟩, ⟨2, 0, 6⟩] (.n 2)).map sortItems =
    some [⟨1, 1, 0⟩, ⟨3, 0, 0⟩, ⟨4, 0, 0⟩, ⟨5, 0, 3⟩, ⟨5, 0, 4⟩, ⟨6, 0, 3⟩, ⟨6, 0, 4⟩] := by decide

example : TermsBelow gD1 7 := termsBelowB_iff.mp (by decide)

/-! ## LR0Key: states are identified by their kernel cores -/

/-- **lr0Key_spec.** Two item sets get the same `LR0Key` iff they have the same set of kernel
(production, dot) pairs (kernel = production 0 or dot ≠ 0; lookaheads and closure items do not
matter). This is the LALR merge criterion of `ConstructLALR`. -/
theorem lr0Key_spec (I J : List Item) :
    lr0Key I = lr0Key J ↔
      ∀ p d : Nat, (∃ a, (⟨p, d, a⟩ : Item) ∈ I ∧ (p = 0 ∨ d ≠ 0)) ↔
        (∃ a, (⟨p, d, a⟩ : Item) ∈ J ∧ (p = 0 ∨ d ≠ 0)) := by
  have conv : ∀ (K : List Item) (p d : Nat),
      (∃ it ∈ K, isKernel it = true ∧ (it.p, it.d) = (p, d)) ↔
        (∃ a, (⟨p, d, a⟩ : Item) ∈ K ∧ (p = 0 ∨ d ≠ 0)) := by
    intro K p d
    constructor
    · rintro ⟨⟨p', d', a⟩, hit, hk, heq⟩
      simp only [Prod.mk.injEq] at heq
      obtain ⟨rfl, rfl⟩ := heq
      exact ⟨a, hit, by simpa [isKernel] using hk⟩
    · rintro ⟨a, hit, hk⟩
      exact ⟨⟨p, d, a⟩, hit, by simpa [isKernel] using hk, rfl⟩
  rw [lr0Key_eq_iff]
  constructor
  · intro h p d
    rw [← conv I p d, ← conv J p d]
    exact h (p, d)
  · rintro h ⟨p, d⟩
    rw [conv I p d, conv J p d]
    exact h p d

/-- The key lists each kernel pair once, in `SortItems` order, and `ItemSet.Items()` /
`LR0Key` / `Next` depend only on the SET of items (Go iterates over hash sets). -/
theorem lr0Key_canonical (I : List Item) :
    SSorted pairLt (lr0Key I) ∧ (lr0Key I).Nodup ∧
      ∀ J : List Item, (∀ x, x ∈ I ↔ x ∈ J) → lr0Key I = lr0Key J ∧ sortItems I = sortItems J :=
  ⟨sorted_lr0Key I, nodup_of_sorted pairLt_order (sorted_lr0Key I), fun J h =>
    ⟨lr0Key_eq_iff.mpr (fun pd => by
        constructor
        · rintro ⟨it, hit, r⟩; exact ⟨it, (h it).mp hit, r⟩
        · rintro ⟨it, hit, r⟩; exact ⟨it, (h it).mpr hit, r⟩),
      sortItems_ext h⟩⟩

/-- `Next`: exactly the symbols after a dot, each once. -/
theorem next_spec (G : Grammar) (I : List Item) :
    (∀ X, X ∈ next G I ↔ ∃ it ∈ I, afterDot G it = some X) ∧ (next G I).Nodup :=
  ⟨fun _ => mem_next, nodup_of_sorted symLt_order (sorted_next G I)⟩

example : lr0Key [⟨3, 1, 4⟩, ⟨0, 0, 0⟩, ⟨3, 1, 2⟩, ⟨5, 0, 2⟩, ⟨2, 2, 9⟩] = [(0, 0), (2, 2), (3, 1)] := by
  decide

/-! ## createActions: the candidate actions are the textbook ones -/

/-- **actions_spec.** For an item set `I` (lookaheads are terminals, every terminal after a dot
has a transition — i.e. the Go code does not panic) and a terminal `a`, the cell that
`createActions` builds holds every kind of action at most once, and holds
* accept iff `[S' → S·, a] ∈ I`,
* reduce `p` iff `[p, |rhs p|, a] ∈ I` with `p ≠ 0`,
* a shift iff some item of `I` has the terminal `a` after its dot; its target is the transition
  on `a`. -/
theorem actions_spec {G : Grammar} {nT : Nat} {tr : Nat → Option Nat} {I : List Item}
    (hI : ∀ it ∈ I, it.a < nT)
    (htr : ∀ it ∈ I, ∀ x, afterDot G it = some (.t x) → tr x ≠ none) (a : Nat) :
    ∃ cell, cellOn G nT tr I a = .ok cell ∧ (cell.map kindOf).Nodup ∧
      (∀ c, c ∈ cell.map kindOf ↔ CandOf G I a c) ∧
      (∀ s ps, Lox.Dec.Action.shift s ps ∈ cell → tr a = some s) := by
  obtain ⟨cell, h1, h2, h3, h4⟩ := cellOn_spec hI htr a
  exact ⟨cell, h1, h2, h3, fun s ps h => (h4 s ps h).1⟩

/-- **Conflict = more than one candidate.** The generator calls (state, `a`) conflicting when its
cell holds more than one action (`actions.Len() != 1` in `resolveConflicts`, `<== CONFLICT` in
the report); by `actions_spec` that is: at least two different textbook candidates — the
definition of an LR(1) conflict of the item set. -/
theorem gen_conflict_iff {G : Grammar} {nT : Nat} {tr : Nat → Option Nat} {I : List Item}
    (hI : ∀ it ∈ I, it.a < nT)
    (htr : ∀ it ∈ I, ∀ x, afterDot G it = some (.t x) → tr x ≠ none) (a : Nat)
    {cell : List Lox.Dec.Action} (hc : cellOn G nT tr I a = .ok cell) :
    1 < cell.length ↔ ∃ c₁ c₂, CandOf G I a c₁ ∧ CandOf G I a c₂ ∧ c₁ ≠ c₂ := by
  obtain ⟨cell', h1, h2, h3, _⟩ := cellOn_spec hI htr a
  rw [hc] at h1
  cases h1
  have := length_gt_one_iff h2
  rw [List.length_map] at this
  rw [this]
  constructor
  · rintro ⟨x, y, hx, hy, hne⟩
    exact ⟨x, y, (h3 x).mp hx, (h3 y).mp hy, hne⟩
  · rintro ⟨x, y, hx, hy, hne⟩
    exact ⟨x, y, (h3 x).mpr hx, (h3 y).mpr hy, hne⟩

/-- Non-vacuity: the dangling-else state `s = I s · | I s · E s` with lookahead `E`
(grammar `s = I s | I s E s | X`; terminals 2 = I, 3 = E, 4 = X): a shift/reduce conflict. -/
def gIf : Grammar := ⟨#[⟨0, [.n 1]⟩, ⟨1, [.t 2, .n 1]⟩, ⟨1, [.t 2, .n 1, .t 3, .n 1]⟩, ⟨1, [.t 4]⟩]⟩

example : cellOn gIf 5 (fun x => if x = 3 then some 7 else none) [⟨1, 2, 3⟩, ⟨2, 2, 3⟩, ⟨1, 2, 0⟩, ⟨2, 2, 0⟩] 3 =
    .ok [.reduce 1, .shift 7 [2, 2]] := by rfl

example : ∀ it ∈ [(⟨1, 2, 3⟩ : Item), ⟨2, 2, 3⟩, ⟨1, 2, 0⟩, ⟨2, 2, 0⟩], it.a < 5 := by decide

example : CandOf gIf [⟨1, 2, 3⟩, ⟨2, 2, 3⟩, ⟨1, 2, 0⟩, ⟨2, 2, 0⟩] 3 (.reduce 1) :=
  ⟨by decide, ⟨1, [.t 2, .n 1]⟩, rfl, by simp⟩

/-- The transition hypothesis of `actions_spec` on that state: only `E` (3) stands after a dot. -/
example : ∀ it ∈ [(⟨1, 2, 3⟩ : Item), ⟨2, 2, 3⟩, ⟨1, 2, 0⟩, ⟨2, 2, 0⟩], ∀ x,
    afterDot gIf it = some (.t x) → (fun x => if x = 3 then some 7 else none) x ≠ none := by
  intro it hit x hx
  simp only [List.mem_cons, List.not_mem_nil, or_false] at hit
  rcases hit with rfl | rfl | rfl | rfl <;> simp [afterDot, gIf] at hx <;> subst hx <;> simp

/-- Two different candidates: the conflict `gen_conflict_iff` speaks of. -/
example : CandOf gIf [⟨1, 2, 3⟩, ⟨2, 2, 3⟩, ⟨1, 2, 0⟩, ⟨2, 2, 0⟩] 3 .shift :=
  ⟨⟨2, 2, 3⟩, by simp, rfl⟩

end Lox.Props.C04
