import Lox.Lex.EmitProofs6
import Lox.Props.C02_e2e
/-! Property theorems for C10 (emitted tables are faithful), END TO END for lexer mode tables on
the model of the emitter: for EVERY well-formed DFA, `mode_table` + `table.go` write an array from
which both readers of the framework (`Lox.Lex.rowAt` of the validator `bisim`, `Rt.decodeRow` of
the runtime theorems) get back, for every state, exactly its flags, its transitions (sorted,
disjoint) and its action pairs; nothing is out of range; the decoded automaton steps like the DFA.
And for every rule list the generator's array is a well-formed mode (`Rt.wfMode`), so the runtime
theorems of C11 / C07 (no index out of range, progress, termination, conservation) hold for every
specification on the model of the generator, not only for validated tables.

Models: `Lox/Lex/EmitModel.lean` (`emitMode`, `genMode`), `Lox/Table/Model.lean`. Tie: family
`lexemit` (harness/drv/ops_lexemit.go). Helper lemmas: `Lox/Lex/EmitProofs*.lean`. -/
namespace Lox.Props.C10
open Lox.Lex Lox.Lex.Gen

/-- `AddRow` never panics in `mode_table` (state IDs are `0, 1, 2, …`): every DFA has an array. -/
theorem emit_total (F : DFA) (acts : Nat → List Pair) : ∃ tbl, emitMode F acts = some tbl :=
  emitMode_total F acts

/-- **`emit_faithful`.** `F` is a non-empty DFA of the model, well formed (targets are states, two
transitions of a state that share a code point are the same transition, labels `lo ≤ hi`: what
`C10.subset_wellformed`, `optimize_correct`, `splitStart_correct`, `mergeTransitions_correct`
establish for the output of `Build`) with labels inside `0..0x10FFFF`; `acts s` are the action
pairs of state `s`. Then the emitted array `tbl`
* is a well-formed table (`wfTable`: offsets, counts, triples and pairs all inside the array, rows
  sorted by `lo`, pairwise disjoint, inside `0..0x10FFFF`, targets are states) with one offset per
  state (`tbl[0]` = number of states);
* read by either decoder gives for every state `s` the row `⟨flags, triples, pairs⟩` with
  `flags = 1` iff `Accept && NonGreedy`, `pairs = acts s`, and `triples` = the transitions of the
  state `(lo, hi, target)`, each exactly once, in increasing disjoint order;
* steps like the DFA: `tableStep tbl s c = F.step s c` on every code point (no step at all from a
  state with the non-greedy-accepting flag, as in `PushRune`). -/
theorem emit_faithful (F : DFA) (acts : Nat → List Pair) (hwf : F.WF) (hr : F.Runes)
    (hn : 0 < F.states.length) :
    ∃ tbl, emitMode F acts = some tbl ∧ wfTable tbl = true ∧ nStates tbl = F.states.length ∧
      ∀ s st, F.states[s]? = some st →
        rowAt tbl s = some ⟨stateFlags st, stateTriples st, acts s⟩ ∧
        Rt.decodeRow tbl (s : Int) = some ⟨stateFlags st, stateTriples st, acts s⟩ ∧
        (∀ x, x ∈ stateTriples st ↔ ∃ t ∈ st.trans, x = (t.1.b, t.1.e, (t.2 : Int))) ∧
        (stateTriples st).Pairwise (fun a b => a.2.1 < b.1) ∧
        (∀ x ∈ stateTriples st, 0 ≤ x.1 ∧ x.1 ≤ x.2.1 ∧ x.2.1 ≤ maxRune ∧
          0 ≤ x.2.2 ∧ x.2.2 < F.states.length) ∧
        ∀ c, tableStep tbl s c = if stateFlags st % 2 = 0 then F.step s c else none := by
  obtain ⟨tbl, ht⟩ := emitMode_total F acts
  obtain ⟨h1, _, h3⟩ := emit_rows ht hn
  refine ⟨tbl, ht, emit_wfTable ht hn hwf hr, h1, ?_⟩
  intro s st hst
  have hok := transOK_of_wf hwf hr hst
  have hsorted := sortedFrom_spec _ _ hok.sorted
  refine ⟨h3 s st hst, emit_decodeRow ht hst, fun x => hok.mem_triples, hsorted.2, ?_,
    fun c => emit_tableStep ht hn hwf hr hst c⟩
  intro x hx
  obtain ⟨t, htm, rfl⟩ := hok.mem_triples.1 hx
  have := hok.lo t htm
  have := hok.valid t htm
  have := hok.hi t htm
  have := hok.tgt t htm
  simp only
  omega

/-- `slices.SortFunc(inputs, rang3.Compare)` (pdqsort) is modelled by its result: any list that
holds every key of the transition map once and is ordered by `rang3.Compare` is the list
`sortedKeys` the model uses (`rang3.Compare` is a total order on ranges and map keys are
distinct). -/
theorem sortFunc_unique (ts : List (Lox.Rang3.Range × Nat)) (l : List Lox.Rang3.Range)
    (hmem : ∀ k, k ∈ l ↔ ∃ t ∈ ts, t.1 = k) (hnodup : l.Nodup)
    (hsorted : l.Pairwise fun a b => Lox.Rang3.cmp a b ≤ 0) : l = sortedKeys ts :=
  sortedKeys_unique ts l hmem hnodup hsorted

/-- With no non-greedy-accepting state the decoded table RUNS like the DFA from every state on
every word, and the pairs stored on a state are the pairs given for it. -/
theorem emit_runs (F : DFA) (acts : Nat → List Pair) (hwf : F.WF) (hr : F.Runes)
    (hn : 0 < F.states.length) (hg : F.Greedy) (tbl : Mode) (ht : emitMode F acts = some tbl) :
    (∀ w s, s < F.states.length → tableRunFrom tbl s w = F.run s w) ∧
    ∀ s, s < F.states.length → rowPairs tbl s = acts s :=
  ⟨emit_run ht hn hwf hr hg, fun _ hs => emit_rowPairs ht hn hs⟩

/-- **The emitted array is a well-formed mode** (`Rt.wfMode`, checked by `lex.wfmodes` on every
emitted table and assumed by the runtime theorems of C11 / C07) for a DFA as in `emit_faithful`
without transitions into state 0 (`splitStartState`), when the pairs of every state are empty or
`mode actions…, one terminal action` with existing modes, and state 0 has none. -/
theorem emit_wfMode (F : DFA) (acts : Nat → List Pair) (nModes : Nat) (hwf : F.WF) (hr : F.Runes)
    (hn : 0 < F.states.length) (hno : NoEdgeIntoStart F)
    (hacts : ∀ s, s < F.states.length → Rt.wfPairs nModes (acts s) = true) (h0 : acts 0 = [])
    (tbl : Mode) (ht : emitMode F acts = some tbl) : Rt.wfMode nModes tbl = true :=
  Lox.Lex.Gen.emit_wfMode nModes ht hn hwf hr hno hacts h0

/-- The automaton `Build` returns satisfies the hypotheses of `emit_faithful` / `emit_runs`. -/
theorem build_emittable (xs : List Rx) (hne : xs ≠ []) (hok : ∀ r ∈ xs, r.clsOK = true) (F : DFA)
    (h : buildDFA (modeNFA xs) = some (.ok F)) :
    F.WF ∧ 0 < F.states.length ∧ NoEdgeIntoStart F ∧
    ((∀ r ∈ xs, r.runesOK = true) → F.Runes) ∧ ((∀ r ∈ xs, r.greedy = true) → F.Greedy) :=
  buildDFA_shape xs hne hok F h

/-- `m` is the array the generator emits for some mode of a lexer with `nModes` modes: rules over
code points, none matching the empty string (the premise of C11; known finding K3 otherwise), the
action pairs of every rule of the documented shape (`Rt.wfPairs`: mode actions with existing
modes, then exactly one terminal action – what `tokenRulePairs` / `fragRulePairs` produce).
Non-greedy operators are allowed. -/
def GeneratedMode (nModes : Nat) (m : Mode) : Prop :=
  ∃ (xs : List Rx) (rules : List Rule), rules.map (·.1) = xs.map Rx.toRe ∧ xs ≠ [] ∧
    (∀ r ∈ xs, r.clsOK = true) ∧ (∀ r ∈ xs, r.runesOK = true) ∧
    (∀ r ∈ rules, Rt.wfPairs nModes r.2 = true) ∧ (∀ r ∈ rules, ¬ Matches r.1 []) ∧
    genMode xs rules = some m

/-- **`generator_wfMode`.** Every generated mode table is a well-formed mode: `lex.wfmodes` cannot
fail on the output of the (model of the) generator. -/
theorem generator_wfMode (nModes : Nat) (m : Mode) (h : GeneratedMode nModes m) :
    Rt.wfMode nModes m = true := by
  obtain ⟨xs, rules, hmap, hne, hok, hrunes, hpairs, hnonempty, hgen⟩ := h
  obtain ⟨F, hF, _, hrun⟩ := Lox.Props.C02.build_spec xs rules hmap hne hok
  obtain ⟨hwf, hpos, hno, hr, _⟩ := buildDFA_shape xs hne hok F hF
  simp only [genMode, hF] at hgen
  apply Lox.Lex.Gen.emit_wfMode nModes hgen hpos hwf (hr hrunes) hno
  · intro s hs
    have hst : F.states[s]? = some F.states[s] := List.getElem?_eq_getElem hs
    rw [Lox.Props.C02.statePairs_eq rules _ F s _ hst]
    cases pickAction (modeNFA xs) F.states[s].nfa with
    | none => rfl
    | some i =>
      simp only [Lox.Props.C02.winnerPairs]
      cases hi : rules[i]? with
      | none => rfl
      | some r => exact hpairs r (List.mem_of_getElem? hi)
  · obtain ⟨_, hlab⟩ := hrun []
    obtain ⟨st, hst, hl⟩ := hlab 0 rfl
    rw [Lox.Props.C02.statePairs_eq rules _ F 0 st hst, ← hl]
    exact label_of_none rules [] hnonempty

/-- **`generator_wfModes`.** A lexer all of whose mode tables are generated is `WFModes`: the
hypothesis of every runtime theorem of C11 and C07 (`C11.no_oob`, `progress`,
`lexAll_terminates`, `conservation`, `C07.mode_stack_discipline`, …). -/
theorem generator_wfModes (modes : Array Mode) (hsz : 0 < modes.size)
    (h : ∀ m ∈ modes.toList, GeneratedMode modes.size m) : Rt.WFModes modes := by
  rw [← Rt.wfModes_iff]
  simp only [Rt.wfModes, Bool.and_eq_true, decide_eq_true_eq, List.all_eq_true]
  exact ⟨hsz, fun m hm => generator_wfMode modes.size m (h m hm)⟩

/-- For instance: the model of `simplelexer` over generated tables reaches EOF on every input,
without a Go panic (`C11.lexAll_terminates`). -/
theorem generator_lexAll_terminates (modes : Array Mode) (hsz : 0 < modes.size)
    (h : ∀ m ∈ modes.toList, GeneratedMode modes.size m) (inp : Input) (fuel n : Nat)
    (hfuel : 2 * inp.size < fuel) (hn : inp.size < n) :
    ∃ ts p, lexAll modes inp fuel n {} [] = (ts ++ [.eof p], "ok") ∧ ∀ t ∈ ts, ∀ q, t ≠ .eof q := by
  obtain ⟨ts, p, e, hh⟩ := Rt.lexAll_progress (generator_wfModes modes hsz h) inp fuel hfuel n {} []
    (Rt.inRange_init (generator_wfModes modes hsz h)) rfl (Nat.zero_le _) (by simpa using hn)
  exact ⟨ts, p, by simpa using e, hh⟩

/-! ### Non-vacuity -/

/-- The automaton `Build` returns for `'if'`, `[a-z]+` (`C02.exKw`). -/
def exKwDFA : DFA :=
  { states := [
      { nfa := [0, 3, 5, 7, 9], trans := [(⟨105, 105⟩, 1), (⟨97, 104⟩, 3), (⟨106, 122⟩, 3)],
        accept := false, ng := false },
      { nfa := [1, 3, 4, 5, 6, 8], trans := [(⟨102, 102⟩, 2), (⟨97, 101⟩, 3), (⟨103, 122⟩, 3)],
        accept := true, ng := false },
      { nfa := [2, 3, 4, 5, 6, 8], trans := [(⟨97, 122⟩, 3)], accept := true, ng := false },
      { nfa := [3, 4, 5, 6, 8], trans := [(⟨97, 122⟩, 3)], accept := true, ng := false }] }

example : buildDFA (modeNFA Lox.Props.C02.exKw) = some (.ok exKwDFA) := by decide +kernel

/-- The hypotheses of `emit_faithful` and `emit_runs` hold for it (through `build_emittable`). -/
example : exKwDFA.WF ∧ 0 < exKwDFA.states.length ∧ exKwDFA.Runes ∧ exKwDFA.Greedy := by
  obtain ⟨h1, h2, _, h4, h5⟩ := build_emittable Lox.Props.C02.exKw (by decide) (by decide) exKwDFA
    (by decide +kernel)
  exact ⟨h1, h2, h4 (by decide), h5 (by decide)⟩

/-- The emitted array: the unsorted transitions of states 0 and 1 come out sorted (no two states
share a row here; see the next example for sharing). -/
example : emitMode exKwDFA (fun s => [[], [(3, 3)], [(3, 2)], [(3, 3)]].getD s []) =
    some Lox.Props.C02.exKwTbl := by decide +kernel

/-- Row sharing (`AddRow` finds the key in `rowMap`): states 1 and 2 are identical leaves, both
offsets point to one stored row; a state with the non-greedy-accepting flag. -/
example : emitMode
    { states := [
        { nfa := [], trans := [(⟨98, 98⟩, 2), (⟨97, 97⟩, 1)], accept := false, ng := false },
        { nfa := [], trans := [], accept := true, ng := false },
        { nfa := [], trans := [], accept := true, ng := false },
        { nfa := [], trans := [(⟨97, 97⟩, 1)], accept := true, ng := true }] }
    (fun s => [[], [(3, 2)], [(3, 2)], [(3, 3)]].getD s []) =
    some #[4, 13, 13, 18, 8, 0, 2, 97, 97, 1, 98, 98, 2, 4, 0, 0, 3, 2, 7, 1, 1, 97, 97, 1, 3, 3] := by
  decide +kernel

/-- `GeneratedMode` is satisfiable: the one-mode lexer `IF = 'if'  ID = [a-z]+`. -/
example : GeneratedMode 1 Lox.Props.C02.exKwTbl := by
  refine ⟨Lox.Props.C02.exKw, Lox.Props.C02.exKwRules, rfl, by decide, by decide, by decide,
    by decide, ?_, Lox.Props.C02.exKw_genMode⟩
  have hn : ∀ r ∈ Lox.Props.C02.exKwRules, nullable r.1 = false := by decide
  intro r hr hm
  have := (Lox.Lex.nullable_iff r.1).mpr hm
  rw [hn r hr] at this
  cases this

example : Rt.wfModes #[Lox.Props.C02.exKwTbl] = true := by decide +kernel

end Lox.Props.C10
