import Lox.Dec.ContainersSetProofs
import Lox.Dec.ContainersMultiProofs
/-! C13 "Output is deterministic" — the insertion-ordered containers of `/repo/internal/base`
(`stablemap.Map`, `stablemap.MultiMap`, `set.Set`, `stack.Stack`, `array.Array`), modelled at
pointer level in `Lox/Dec/Containers.lean` (node store, `next`/`prev` links, sentinel, the Go map
`nodes` as an association list whose order nothing may depend on) and tied to the real packages by
family `containers` (`harness/drv/ops_containers.go`).

The generator iterates over these containers instead of over Go maps; the theorems say that what
comes out is a function of the sequence of operations alone: the containers refine lists in
first-insertion order, for all operation sequences, whatever order the Go runtime gives the
underlying map. -/
set_option linter.unusedSectionVars false
namespace Lox.Props.C13
open Lox.Dec.Containers

section Map
variable {K V : Type} [DecidableEq K] [Inhabited K] [Inhabited V]

/-! ### stablemap_refines -/

/-- What the invariant says: the map is the zero value `Map{}`, or it is initialised and, for
some list `cyc` of node ids, `Ring m cyc` holds — `m.list` is node 0 (the sentinel); following
`next` from 0 visits exactly `cyc` and returns to 0; following `prev` visits `cyc` backwards (so
`prev` is the inverse of `next` on the ring); 0 and the nodes of `cyc` are pairwise different and
allocated; the Go map `m.nodes` is, up to order, exactly `{key(i) ↦ i | i ∈ cyc}`; the keys along
the ring are pairwise different. -/
theorem stablemap_inv_iff (m : CMap K V) :
    Inv m ↔ m = CMap.zero ∨ ∃ cyc : List Nat,
      m.list = some 0 ∧
      (∃ g, m.nodes = some g ∧ g.Perm (cyc.map fun i => (keyAt m.heap i, i))) ∧
      cyc.length < m.heap.size ∧ (∀ i ∈ cyc, i < m.heap.size) ∧ (0 :: cyc).Nodup ∧
      Chain (nextAt m.heap) 0 cyc 0 ∧ Chain (prevAt m.heap) 0 cyc.reverse 0 ∧
      (cyc.map (keyAt m.heap)).Nodup := by
  constructor
  · rintro ⟨l, ⟨h, _⟩ | ⟨cyc, hr, _⟩⟩
    · exact Or.inl h
    · exact Or.inr ⟨cyc, hr.list, hr.nodes, hr.size, hr.bound, hr.nodup, hr.fwd, hr.bwd, hr.keys⟩
  · rintro (rfl | ⟨cyc, h1, h2, h3, h4, h5, h6, h7, h8⟩)
    · exact ⟨[], rep_zero⟩
    · exact ⟨_, Or.inr ⟨cyc, ⟨h1, h2, h3, h4, h5, h6, h7, h8⟩, rfl⟩⟩

theorem rep_of_inv_abs {m : CMap K V} {l : AMap K V} (hi : Inv m) (ha : abs m = .ok l) :
    Rep m l := by
  obtain ⟨l', h⟩ := hi
  rw [h.abs] at ha
  cases ha
  exact h

/-- The zero value satisfies the invariant and represents the empty map. -/
theorem stablemap_init :
    Inv (CMap.zero : CMap K V) ∧ abs (CMap.zero : CMap K V) = .ok [] :=
  ⟨⟨[], rep_zero⟩, rfl⟩

/-- Under the invariant the abstraction function (follow `next` from the sentinel, with fuel
`allocated nodes + 1`) never fails. -/
theorem stablemap_abs_total (m : CMap K V) (hi : Inv m) : ∃ l, abs m = .ok l := by
  obtain ⟨l, h⟩ := hi
  exact ⟨l, h.abs⟩

/-- One operation: it does not panic, its observable result is the specification's, the invariant
is preserved and the new state represents the specification's new state. -/
theorem stablemap_step_refines (m : CMap K V) (l : AMap K V) (op : Op K V) (hi : Inv m)
    (ha : abs m = .ok l) :
    ∃ m', step op m = .ok ((specStep op l).1, m') ∧ Inv m' ∧ abs m' = .ok (specStep op l).2 := by
  obtain ⟨m', h1, h2⟩ := step_refines (rep_of_inv_abs hi ha) op
  exact ⟨m', h1, ⟨_, h2⟩, h2.abs⟩

/-- `stablemap.Map` refines "the live entries in insertion order" for ALL operation sequences,
from every state that satisfies the invariant, in particular from the zero value: no operation
panics, the sequence of observable results (Get/GetOrZero/Has/Len results, the ForEach/Keys/Values
sequences) is the one the list specification gives, and the final state satisfies the invariant
and represents the specification's final list. -/
theorem stablemap_refines :
    (∀ (m : CMap K V) (l : AMap K V) (ops : List (Op K V)), Inv m → abs m = .ok l →
      ∃ m', run ops m = .ok ((runSpec ops l).1, m') ∧ Inv m' ∧ abs m' = .ok (runSpec ops l).2) ∧
    (∀ ops : List (Op K V),
      ∃ m', run ops (CMap.zero : CMap K V) = .ok ((runSpec ops []).1, m') ∧ Inv m' ∧
        abs m' = .ok (runSpec ops []).2) := by
  have key : ∀ (m : CMap K V) (l : AMap K V) (ops : List (Op K V)), Inv m → abs m = .ok l →
      ∃ m', run ops m = .ok ((runSpec ops l).1, m') ∧ Inv m' ∧ abs m' = .ok (runSpec ops l).2 := by
    intro m l ops hi ha
    obtain ⟨m', h1, h2⟩ := run_refines (rep_of_inv_abs hi ha) ops
    exact ⟨m', h1, ⟨_, h2⟩, h2.abs⟩
  exact ⟨key, fun ops => key _ _ ops stablemap_init.1 stablemap_init.2⟩

/-! The specification is the obvious one: -/

/-- `Put` of a present key keeps the key sequence; `Put` of a new key appends it. -/
theorem spec_put_keys (l : AMap K V) (k : K) (v : V) :
    (aPut l k v).map (·.1) =
      if k ∈ l.map (·.1) then l.map (·.1) else l.map (·.1) ++ [k] := by
  have hany : l.any (fun e => decide (e.1 = k)) = true ↔ k ∈ l.map (·.1) := by
    simp only [List.any_eq_true, decide_eq_true_eq, List.mem_map]
  unfold aPut
  by_cases h : k ∈ l.map (·.1)
  · rw [if_pos (hany.mpr h), if_pos h, List.map_map]
    apply List.map_congr_left
    intro e _
    simp only [Function.comp]
    split <;> rfl
  · rw [if_neg (fun h' => h (hany.mp h')), if_neg h]
    simp

/-- After `Put k v` the value under `k` is `v`; other keys keep their value. -/
theorem spec_get_put (l : AMap K V) (k k' : K) (v : V) :
    aGet (aPut l k v) k' = if k' = k then (v, true) else aGet l k' := by
  have hlk : ∀ l : AMap K V, (l.map (fun e => if e.1 = k then (e.1, v) else e)).lookup k' =
      if k' = k then (l.lookup k').map (fun _ => v) else l.lookup k' := by
    intro l
    induction l with
    | nil => simp
    | cons e l ih =>
      obtain ⟨a, b⟩ := e
      by_cases hak : a = k
      · subst hak
        by_cases hk : k' = a
        · subst hk; simp
        · have : (k' == a) = false := by simpa using hk
          simp [List.lookup_cons, this, ih, hk]
      · by_cases hk : k' = a
        · subst hk
          simp [hak]
        · have : (k' == a) = false := by simpa using hk
          simp [List.lookup_cons, hak, this, ih]
  have hany : ∀ l : AMap K V, l.any (fun e => decide (e.1 = k)) = (l.lookup k).isSome :=
    fun l => any_eq_lookup_isSome l k
  have happ : ∀ l : AMap K V, (l ++ [(k, v)]).lookup k' =
      (l.lookup k').or (if k' = k then some v else none) := by
    intro l
    induction l with
    | nil =>
      by_cases hk : k' = k
      · subst hk; simp
      · have : (k' == k) = false := by simpa using hk
        simp [List.lookup_cons, hk, this]
    | cons e l ih =>
      obtain ⟨a, b⟩ := e
      simp only [List.cons_append, List.lookup_cons, ih]
      cases k' == a <;> simp
  unfold aGet aPut
  by_cases ha : l.any (fun e => decide (e.1 = k)) = true
  · rw [if_pos ha, hlk]
    by_cases hk : k' = k
    · subst hk
      rw [hany] at ha
      obtain ⟨w, hw⟩ := Option.isSome_iff_exists.mp ha
      simp [hw]
    · simp [hk]
  · rw [if_neg ha, happ]
    by_cases hk : k' = k
    · subst hk
      have : l.lookup k' = none := by
        rw [hany] at ha
        cases h : l.lookup k' with
        | none => rfl
        | some w => rw [h] at ha; simp at ha
      simp [this]
    · simp [hk]

/-- `Remove` erases the key and keeps the order of the others. -/
theorem spec_remove_keys (l : AMap K V) (k : K) :
    (aRemove l k).map (·.1) = (l.map (·.1)).filter (fun k' => decide (k' ≠ k)) := by
  simp only [aRemove, List.filter_map]
  rfl

/-! ### foreach_order_independent_of_go_map -/

/-- "Insertion-ordered": let the Go runtime rearrange the map `nodes` arbitrarily before every
single operation (`sched i` is applied before step `i`; any permutation is allowed). No observable
result of any operation sequence changes: every schedule produces the results of the list
specification, hence any two schedules produce the same results. -/
theorem foreach_order_independent_of_go_map
    (sched₁ sched₂ : Nat → List (K × Nat) → List (K × Nat))
    (h₁ : ∀ i g, (sched₁ i g).Perm g) (h₂ : ∀ i g, (sched₂ i g).Perm g) (ops : List (Op K V)) :
    (runSched sched₁ 0 ops (CMap.zero : CMap K V)).map (·.1) = .ok (runSpec ops []).1 ∧
    (runSched sched₁ 0 ops (CMap.zero : CMap K V)).map (·.1) =
      (runSched sched₂ 0 ops (CMap.zero : CMap K V)).map (·.1) := by
  obtain ⟨m₁, e₁, _⟩ := runSched_refines (rep_zero (K := K) (V := V)) sched₁ h₁ 0 ops
  obtain ⟨m₂, e₂, _⟩ := runSched_refines (rep_zero (K := K) (V := V)) sched₂ h₂ 0 ops
  rw [e₁, e₂]
  exact ⟨rfl, rfl⟩

/-- The same from any state: two states that differ only in the order of the Go map (and satisfy
the invariant) are indistinguishable by any operation sequence, also when the map keeps being
rearranged on both sides. -/
theorem go_map_order_unobservable (m : CMap K V) (hi : Inv m)
    (f : List (K × Nat) → List (K × Nat)) (hf : ∀ g, (f g).Perm g)
    (sched₁ sched₂ : Nat → List (K × Nat) → List (K × Nat))
    (h₁ : ∀ i g, (sched₁ i g).Perm g) (h₂ : ∀ i g, (sched₂ i g).Perm g) (ops : List (Op K V)) :
    (runSched sched₁ 0 ops m).map (·.1) = (runSched sched₂ 0 ops (reorder f m)).map (·.1) ∧
    (run ops m).map (·.1) = (run ops (reorder f m)).map (·.1) := by
  obtain ⟨l, h⟩ := hi
  obtain ⟨m₁, e₁, _⟩ := runSched_refines h sched₁ h₁ 0 ops
  obtain ⟨m₂, e₂, _⟩ := runSched_refines (h.reorder hf) sched₂ h₂ 0 ops
  obtain ⟨m₃, e₃, _⟩ := run_refines h ops
  obtain ⟨m₄, e₄, _⟩ := run_refines (h.reorder hf) ops
  rw [e₁, e₂, e₃, e₄]
  exact ⟨rfl, rfl⟩

/-- The invariant itself does not depend on the order of the Go map. -/
theorem inv_reorder (m : CMap K V) (hi : Inv m) (f : List (K × Nat) → List (K × Nat))
    (hf : ∀ g, (f g).Perm g) : Inv (reorder f m) ∧ abs (reorder f m) = abs m := by
  obtain ⟨l, h⟩ := hi
  exact ⟨⟨l, h.reorder hf⟩, by rw [(h.reorder hf).abs, h.abs]⟩

end Map

/-! Non-vacuity: the sequence of the property text (Put a, Put b, Put a again, Remove a, Put a,
Keys = [b, a]) on the pointer-level model, the final store, and the same run with the Go map
reversed before every step. -/

def exampleOps : List (Op Nat Nat) :=
  [.put 1 10, .put 2 20, .put 1 11, .keys, .remove 1, .put 1 12, .keys, .values, .get 1, .get 7,
   .len, .has 2, .forEach]

example : (run exampleOps CMap.zero).map (·.1) =
    .ok [.unit, .unit, .unit, .keys [1, 2], .unit, .unit, .keys [2, 1], .values [20, 12],
      .got 12 true, .got 0 false, .nat 2, .bool true, .pairs [(2, 20), (1, 12)]] := by decide

example : (run exampleOps CMap.zero).map (·.1) = .ok (runSpec exampleOps []).1 := by decide

example : (runSched (fun _ g => g.reverse) 0 exampleOps CMap.zero).map (·.1) =
    (run exampleOps CMap.zero).map (·.1) := by decide

/-- The store after the run (per node: next, prev, key, value): node 1 (the removed first `a`) is unlinked (`next = prev = nil`), the
ring is 0 → 2 → 3 → 0 and the Go map holds exactly the ring's nodes. -/
def dumpLinks (m : CMap Nat Nat) : List (List (Option Nat)) :=
  m.heap.toList.map fun n => [n.next, n.prev, some n.key, some n.value]

example : (run exampleOps CMap.zero).map (fun r => dumpLinks r.2) =
    .ok [[some 2, some 3, some 0, some 0], [none, none, some 1, some 11],
      [some 3, some 0, some 2, some 20], [some 0, some 2, some 1, some 12]] := by decide

example : (run exampleOps CMap.zero).map (fun r => (r.2.nodes, r.2.list)) =
    .ok (some [(1, 3), (2, 2)], some 0) := by decide

/-- The invariant is not trivially true: a store whose `prev` link is wrong violates it, and there
`ForEach` is still defined (it only follows `next`), so the invariant says more than "`abs`
succeeds". A broken `next` link makes the traversal fail with an explicit error. -/
example :
    let bad : CMap Nat Nat :=
      ⟨some [(5, 1)], some 0, #[⟨some 1, some 1, 0, 0⟩, ⟨some 0, none, 5, 50⟩]⟩
    abs bad = .ok [(5, 50)] ∧ ¬ Inv bad := by
  refine ⟨by decide, ?_⟩
  rintro ⟨l, ⟨h, _⟩ | ⟨cyc, hr, _⟩⟩
  · cases h
  · have h0 := chain_head hr.fwd
    have h1 : nextAt (#[⟨some 1, some 1, 0, 0⟩, ⟨some 0, none, 5, 50⟩] : Heap Nat Nat) 0 = some 1 := by
      decide
    rw [h1] at h0
    cases cyc with
    | nil => simp at h0
    | cons x r =>
      simp only [List.headD_cons, Option.some.injEq] at h0
      subst h0
      have hb := hr.bwd
      simp only [List.reverse_cons] at hb
      have := chain_last hb
      simp only [List.getLastD_eq_getLast?, List.getLast?_append, List.getLast?_singleton] at this
      rw [show ((some 1).or r.reverse.getLast?).getD 0 = 1 from rfl] at this
      revert this
      decide

example :
    let bad : CMap Nat Nat :=
      ⟨some [(5, 1)], some 0, #[⟨some 1, some 1, 0, 0⟩, ⟨some 1, some 0, 5, 50⟩]⟩
    abs bad = .error .fuel := by decide

example :
    let bad : CMap Nat Nat :=
      ⟨some [(5, 1)], some 0, #[⟨some 1, some 1, 0, 0⟩, ⟨none, some 0, 5, 50⟩]⟩
    abs bad = .error .nilDeref := by decide

/-! ### set_refines -/

section Set
variable {T : Type} [DecidableEq T] [Inhabited T]

/-- `set.Set` refines duplicate-free lists in first-insertion order, for all programs over any
number of set variables (Add, AddSlice, AddSet, Remove, Has, Empty, Len, Elements, Equal, ForEach,
Clone, Clear, New), starting from zero values: no operation panics, every observable result
(`Add`/`AddSlice`/`AddSet`'s `changed`, Has, Empty, Len, Equal, the Elements/ForEach sequences) is
the specification's, and afterwards every variable `r` represents the specification's list for
`r`: that list is duplicate-free and is what `Elements` returns. -/
theorem set_refines (ops : List (SetOp T)) :
    ∃ regs', setRun ops (fun _ => (CSet.zero : CSet T)) =
        .ok ((setRunSpec ops fun _ => []).1, regs') ∧
      ∀ r, SetRep (regs' r) ((setRunSpec ops fun _ => []).2 r) ∧
        ((setRunSpec ops fun _ => []).2 r).Nodup ∧
        setElements (regs' r) = .ok ((setRunSpec ops fun _ => []).2 r) := by
  obtain ⟨regs', h1, h2⟩ :=
    setRun_refines (regs := fun _ => (CSet.zero : CSet T)) (aregs := fun _ => [])
      (fun _ => setRep_zero) ops
  exact ⟨regs', h1, fun r => ⟨h2 r, (h2 r).nodup, (h2 r).elements⟩⟩

/-- … and from any states that represent lists. -/
theorem set_refines_from (regs : Nat → CSet T) (aregs : Nat → ASet T)
    (h : ∀ r, SetRep (regs r) (aregs r)) (ops : List (SetOp T)) :
    ∃ regs', setRun ops regs = .ok ((setRunSpec ops aregs).1, regs') ∧
      ∀ r, SetRep (regs' r) ((setRunSpec ops aregs).2 r) :=
  setRun_refines h ops

/-- `Equal` is set equality (on the duplicate-free lists the sets represent). -/
theorem set_equal_is_set_equality {s o : CSet T} {l lo : ASet T} (hs : SetRep s l)
    (ho : SetRep o lo) : ∃ b, setEqual s o = .ok b ∧ (b = true ↔ ∀ x, x ∈ l ↔ x ∈ lo) :=
  ⟨sEqual l lo, hs.equal ho, sEqual_iff hs.nodup ho.nodup⟩

/-- `Clone` preserves the order (and the clone is a separate object: the original is unchanged
by construction, `setClone` does not return it). -/
theorem set_clone_preserves_order {s : CSet T} {l : ASet T} (hs : SetRep s l) :
    ∃ c, setClone s = .ok c ∧ SetRep c l ∧ setElements c = .ok l := by
  obtain ⟨c, h1, h2⟩ := hs.clone
  exact ⟨c, h1, h2, h2.elements⟩

/-- `AddSet` appends the elements of the other set that are new, in the other set's order, and
reports whether there were any. -/
theorem set_addSet_appends_in_order {s o : CSet T} {l lo : ASet T} (hs : SetRep s l)
    (ho : SetRep o lo) :
    ∃ s', setAddSet s o = .ok (lo.any (fun x => decide (x ∉ l)), s') ∧
      SetRep s' (l ++ lo.filter (fun x => decide (x ∉ l))) := by
  obtain ⟨s', h1, h2⟩ := hs.addSet ho
  obtain ⟨e1, e2⟩ := sAddAll_nodup l lo ho.nodup
  rw [e1] at h2
  rw [e2] at h1
  exact ⟨s', h1, h2⟩

/-- `Add` reports `changed` exactly when the element was absent, and then appends it. -/
theorem set_add_changed {s : CSet T} {l : ASet T} (hs : SetRep s l) (x : T) :
    ∃ s', setAdd s x = .ok (decide (x ∉ l), s') ∧
      SetRep s' (if x ∈ l then l else l ++ [x]) := by
  obtain ⟨s', h1, h2⟩ := hs.add x
  refine ⟨s', ?_, ?_⟩
  · rw [h1]; unfold sAdd; split <;> simp [*]
  · unfold sAdd at h2; split at h2 <;> simp_all

end Set

example :
    let ops : List (SetOp Nat) :=
      [.add 0 3, .add 0 3, .addSlice 0 [1, 2, 3, 4], .elements 0, .new 1 [4, 9, 4], .addSet 0 1,
       .elements 0, .equal 0 1, .clone 2 0, .equal 0 2, .remove 0 3, .elements 0, .elements 2,
       .addSet 0 0, .empty 3, .len 0]
    (setRun ops fun _ => CSet.zero).map (·.1) =
      .ok [.bool true, .bool false, .bool true, .elems [3, 1, 2, 4], .unit, .bool true,
        .elems [3, 1, 2, 4, 9], .bool false, .unit, .bool true, .unit, .elems [1, 2, 4, 9],
        .elems [3, 1, 2, 4, 9], .bool false, .bool true, .nat 4] := by decide

/-! ### multimap_refines -/

section Multi
variable {K V : Type} [DecidableEq K] [Inhabited K]

/-- `stablemap.MultiMap` (Add, Get+Elements, Has, Len, Remove, Clear, Keys, ForEach) refines
"keys in first-insertion order, each with its values in insertion order" for all operation
sequences from the zero value: no panic (in particular `arr.Add` never hits a nil `*Array`), the
observable results are the specification's, and `ForEach` on the final state yields the
specification's final list. -/
theorem multimap_refines (ops : List (MOp K V)) :
    ∃ m', mmRun ops (CMulti.zero : CMulti K V) = .ok ((mmRunSpec ops []).1, m') ∧
      MRep m' (mmRunSpec ops []).2 ∧ mmForEach m' = .ok (mmRunSpec ops []).2 := by
  obtain ⟨m', h1, h2⟩ := mmRun_refines (mrep_zero (K := K) (V := V)) ops
  exact ⟨m', h1, h2, h2.forEach⟩

end Multi

example :
    let ops : List (MOp Nat Nat) :=
      [.add 1 5, .add 2 6, .add 1 7, .get 1, .get 3, .forEach, .remove 1, .add 1 8, .forEach, .keys]
    (mmRun ops CMulti.zero).map (·.1) =
      .ok [.unit, .unit, .unit, .got [5, 7] true, .got [] false, .all [(1, [5, 7]), (2, [6])],
        .unit, .unit, .all [(2, [6]), (1, [8])], .keys [2, 1]] := by decide

/-! ### stack, array (slices; the model is the specification) -/

/-- `Pop` after `Push` returns the pushed element and the stack as it was (LIFO); `Peek` too. -/
theorem stack_push_pop {T : Type} (s : List T) (e : T) :
    stackPop (slicePush s e) = .ok (e, s) ∧ stackPeek (slicePush s e) = .ok e := by
  simp [stackPop, stackPeek, slicePush]

/-- `Pop`/`Peek` of the empty stack panic (index out of range) — never a default value. -/
theorem stack_empty_panics {T : Type} :
    stackPop ([] : List T) = .error .index ∧ stackPeek ([] : List T) = .error .index :=
  ⟨rfl, rfl⟩

/-- `Get(len)` after `Add` returns the added element; earlier indices are unchanged. -/
theorem array_get_add {T : Type} (s : List T) (e : T) (i : Nat) :
    arrayGet (slicePush s e) (i : Int) =
      if i < s.length then arrayGet s (i : Int)
      else if i = s.length then .ok e else .error .index := by
  have h0 : ¬ ((i : Int) < 0) := by omega
  simp only [arrayGet, slicePush, h0, if_false, Int.toNat_natCast]
  by_cases h1 : i < s.length
  · simp [h1, List.getElem?_append_left h1]
  · by_cases h2 : i = s.length
    · subst h2; simp
    · have : s.length + 1 ≤ i := by omega
      simp [h1, h2, List.getElem?_eq_none (by simpa using this : (s ++ [e]).length ≤ i)]

end Lox.Props.C13

