import Lox.Lex.EmitProofs5
import Lox.Props.C02_gen
import Lox.Props.C02
/-! Property theorems for C02, END TO END on the model of the generator: for EVERY list of rules
the `_lexerModeN` array the generator emits — `NFACons` of every rule, `ModeBuilder.Build`
(`normalizeInputs`, `NFAToDFA` with `optimize`, `splitStartState`, `mergeTransitions`,
`pickAction`), `EmitLexer`'s `mode_table` row encoding and `codegen/table.go` — computes the
rule-level specification: longest viable match, earliest rule wins. This is the conclusion of
`bisim_sound` (`Lox/Props/C02.lean`) without running the validator `bisim` on the table.

Executable models (read these): `Lox/Lex/EmitModel.lean` (`emitMode`, `genMode`, new here),
`Lox/Lex/GenNFA.lean`, `GenDFA.lean`, `GenOpt.lean`, `Lox/Table/Model.lean`; reader side
`Lox.Lex.rowAt`, `tableStep`, `tableRun` (`Lox/Lex/Bisim.lean`), `readToken` (`Lox/Lex/Model.lean`).
Specification: `Lox.Lex.viable`, `label`, `specRun` (`Lox/Lex/Spec.lean`).
Tie to the Go code: families `lexmodel` (every stage of `Build`) and `lexemit`
(harness/drv/ops_lexemit.go: `lex.emit` = `mode_table` on the real DFA, array for array;
`lex.genmode` = the whole composition, arrays compared up to the numbering of the states).
Helper lemmas: `Lox/Lex/EmitProofs*.lean`.

Hypotheses beyond those of `build_spec`: the rules are written over code points `0..0x10FFFF`
(`Rx.runesOK`; needed because `mode_table` stores `uint32(input.B)` and the generated `PushRune`
uses `-1` for end of input) and contain no `*?` / `+?` (`Rx.greedy`; non-greedy rules have their
own specification, C08, and known finding K2). -/
namespace Lox.Props.C02
open Lox.Lex Lox.Lex.Gen

/-- `statePairs` (model file) is `winnerPairs` of the state's `pickAction` winner. -/
theorem statePairs_eq (rules : List Rule) (m : NFA) (F : DFA) (j : Nat) (st : DState)
    (h : F.states[j]? = some st) :
    statePairs rules m F j = winnerPairs rules (pickAction m st.nfa) := by
  simp only [statePairs, h, Option.map_some, Option.getD_some]
  cases pickAction m st.nfa <;> rfl

/-- **The generator never fails** (classes written `lo ≤ hi`): no panic of `rang3.Normalize`,
`GetStateGroup` or `AddRow`, no loop of the model runs out of fuel. -/
theorem generator_total (xs : List Rx) (rules : List Rule) (hok : ∀ r ∈ xs, r.clsOK = true) :
    ∃ tbl, genMode xs rules = some tbl := by
  obtain ⟨F, hF⟩ := buildDFA_total xs hok
  obtain ⟨tbl, ht⟩ := emitMode_total F (statePairs rules (modeNFA xs) F)
  exact ⟨tbl, by simp only [genMode, hF, ht]⟩

/-- **`generator_bisim`.** For every non-empty list of greedy rules over code points: the
generator emits an array `tbl`; `tbl` is a well-formed table (everything `PushRune` reads is in
range, rows sorted and disjoint, targets are states); and on EVERY word `s` the automaton decoded
from `tbl` (`tableRun`: offsets, `flags, gotoN, triples, pairs` rows, first matching triple) dies
exactly when `s` is not a prefix of a match of any rule, and otherwise stops in a state whose
stored action pairs are those of the earliest rule matching `s` exactly (`[]` if none). -/
theorem generator_bisim (xs : List Rx) (rules : List Rule) (h : rules.map (·.1) = xs.map Rx.toRe)
    (hne : xs ≠ []) (hok : ∀ r ∈ xs, r.clsOK = true) (hrunes : ∀ r ∈ xs, r.runesOK = true)
    (hgreedy : ∀ r ∈ xs, r.greedy = true) :
    ∃ tbl, genMode xs rules = some tbl ∧ wfTable tbl = true ∧
      ∀ s : List Int, tableRun tbl s = specRun rules s := by
  obtain ⟨F, hF, _, hrun⟩ := build_spec xs rules h hne hok
  obtain ⟨hwf, hpos, _, hr, hg⟩ := buildDFA_shape xs hne hok F hF
  obtain ⟨tbl, ht⟩ := emitMode_total F (statePairs rules (modeNFA xs) F)
  refine ⟨tbl, by simp only [genMode, hF, ht], emit_wfTable ht hpos hwf (hr hrunes), ?_⟩
  intro s
  obtain ⟨hv, hlab⟩ := hrun s
  simp only [tableRun, emit_run ht hpos hwf (hr hrunes) (hg hgreedy) s 0 hpos, specRun]
  cases hj : F.run 0 s with
  | none =>
    have : ¬ viable rules s := fun hvi => by
      have := hv.2 hvi
      rw [hj] at this
      cases this
    simp [this]
  | some j =>
    have hvi : viable rules s := hv.1 (by rw [hj]; rfl)
    obtain ⟨st, hst, hl⟩ := hlab j hj
    have hjlt : j < F.states.length := (List.getElem?_eq_some_iff.1 hst).1
    simp only [Option.map_some, hvi, ↓reduceIte, Option.some.injEq]
    rw [emit_rowPairs ht hpos hjlt, statePairs_eq rules _ F j st hst, hl]

/-- The same as a `TableSpec` (the interface of the maximal-munch theorems of
`Lox/Lex/MunchProofs.lean`). -/
theorem generator_tableSpec (xs : List Rx) (rules : List Rule)
    (h : rules.map (·.1) = xs.map Rx.toRe) (hne : xs ≠ []) (hok : ∀ r ∈ xs, r.clsOK = true)
    (hrunes : ∀ r ∈ xs, r.runesOK = true) (hgreedy : ∀ r ∈ xs, r.greedy = true) :
    ∃ tbl, genMode xs rules = some tbl ∧ TableSpec tbl (viable rules) (label rules) := by
  obtain ⟨tbl, ht, hwf, hrun⟩ := generator_bisim xs rules h hne hok hrunes hgreedy
  refine ⟨tbl, ht, hwf, ?_, ?_⟩
  · intro s
    rw [hrun s]
    unfold specRun
    by_cases hv : viable rules s <;> simp [hv]
  · intro s ps hs
    rw [hrun s] at hs
    unfold specRun at hs
    by_cases hv : viable rules s
    · simp only [hv, ↓reduceIte, Option.some.injEq] at hs; exact hs.symm
    · simp [hv] at hs

/-- State 0 of the emitted table means "nothing consumed since the last token": no transition
leads into it (`splitStartState`), and it stores no action pairs provided no rule matches the
empty string (the premise of C02/C11; its failure is known finding K3). -/
theorem generator_startClean (xs : List Rx) (rules : List Rule)
    (h : rules.map (·.1) = xs.map Rx.toRe) (hne : xs ≠ []) (hok : ∀ r ∈ xs, r.clsOK = true)
    (hrunes : ∀ r ∈ xs, r.runesOK = true) (hgreedy : ∀ r ∈ xs, r.greedy = true)
    (hnonempty : ∀ r ∈ rules, ¬ Matches r.1 []) (tbl : Mode) (ht : genMode xs rules = some tbl) :
    startClean tbl = true := by
  obtain ⟨F, hF, hno, _⟩ := build_spec xs rules h hne hok
  obtain ⟨hwf, hpos, _, hr, _⟩ := buildDFA_shape xs hne hok F hF
  obtain ⟨tbl', ht', _, hrun⟩ := generator_bisim xs rules h hne hok hrunes hgreedy
  rw [ht] at ht'; cases ht'
  simp only [genMode, hF] at ht
  obtain ⟨hn, _, hrows⟩ := emit_rows ht hpos
  simp only [startClean, Bool.and_eq_true, List.isEmpty_iff, List.all_eq_true, List.mem_range]
  refine ⟨?_, ?_⟩
  · have h0 : tableRun tbl [] = some (rowPairs tbl 0) := rfl
    rw [hrun []] at h0
    unfold specRun at h0
    split at h0
    · simp only [Option.some.injEq] at h0
      rw [← h0]
      exact label_of_none rules [] hnonempty
    · cases h0
  · intro q hq
    rw [hn] at hq
    have hst : F.states[q]? = some F.states[q] := List.getElem?_eq_getElem hq
    rw [hrows q _ hst]
    simp only [List.all_eq_true, decide_eq_true_eq]
    intro x hx
    have hok' := transOK_of_wf hwf (hr hrunes) hst
    obtain ⟨t, htm, rfl⟩ := hok'.mem_triples.1 hx
    have := hno q t (by rw [DFA.trans_of_get hst]; exact htm)
    simp only
    omega

/-- **`generator_munch` (C02 headline, for all specifications on the model of the generator).**
`modes` are the mode tables of a lexer, `m = modes[current mode]` the array the generator emits
for the rules `xs` / `rules` of that mode, `l` the `simplelexer` state between two tokens. With
`s` the runes not yet read, `k = scanLen m 0 s` and `p = s.take k`: `p` is the LONGEST viable
prefix of `s`, and one `ReadToken` call consumes exactly `p` and then does what
`simplelexer.ReadToken` does (`tokBody`) with the outcome of executing the action pairs of the
EARLIEST rule that matches `p` (`label rules p`; `[]` → ERROR or EOF). The state reached is not 0
if `p ≠ []` and no rule matches the empty string. -/
theorem generator_munch (xs : List Rx) (rules : List Rule) (h : rules.map (·.1) = xs.map Rx.toRe)
    (hne : xs ≠ []) (hok : ∀ r ∈ xs, r.clsOK = true) (hrunes : ∀ r ∈ xs, r.runesOK = true)
    (hgreedy : ∀ r ∈ xs, r.greedy = true)
    (modes : Array Mode) (inp : Input) (m : Mode) (l : Lx) (hgen : genMode xs rules = some m)
    (hmode : modes[l.sm.mode.getD 0]? = some m) (hstate : l.sm.state = 0)
    (start : Option Nat) (n : Nat) :
    viable rules ((l.rest inp).take (scanLen m 0 (l.rest inp))) ∧
    (∀ j, scanLen m 0 (l.rest inp) < j → j ≤ (l.rest inp).length →
      ¬ viable rules ((l.rest inp).take j)) ∧
    ∃ q', tableRunFrom m 0 ((l.rest inp).take (scanLen m 0 (l.rest inp))) = some q' ∧
      ((∀ r ∈ rules, ¬ Matches r.1 []) →
        (l.rest inp).take (scanLen m 0 (l.rest inp)) ≠ [] → q' ≠ 0) ∧
      readToken modes inp (scanLen m 0 (l.rest inp) + (n + 1)) start l =
        tokBody modes inp n (start.getD l.offset) (l.advance inp (scanLen m 0 (l.rest inp)))
          (runPairs modes ((l.advance inp (scanLen m 0 (l.rest inp))).char inp)
            (label rules ((l.rest inp).take (scanLen m 0 (l.rest inp))))
            { l.sm with mode := some (l.sm.mode.getD 0), state := (q' : Int) }) := by
  obtain ⟨tbl, ht, hS⟩ := generator_tableSpec xs rules h hne hok hrunes hgreedy
  rw [hgen] at ht; cases ht
  obtain ⟨h1, h2, q', h3, h4, h5⟩ := munch_driver_gen modes inp m l hS hmode hstate start n
  exact ⟨h1, h2, q', h3,
    fun hnm => h4 (generator_startClean xs rules h hne hok hrunes hgreedy hnm m hgen), h5⟩

/-- A plain token rule for terminal `t` wins on the longest viable prefix: `ReadToken` returns
token `t` with exactly that prefix as its text. -/
theorem generator_munch_token (xs : List Rx) (rules : List Rule)
    (h : rules.map (·.1) = xs.map Rx.toRe) (hne : xs ≠ []) (hok : ∀ r ∈ xs, r.clsOK = true)
    (hrunes : ∀ r ∈ xs, r.runesOK = true) (hgreedy : ∀ r ∈ xs, r.greedy = true)
    (modes : Array Mode) (inp : Input) (m : Mode) (l : Lx) (hgen : genMode xs rules = some m)
    (hmode : modes[l.sm.mode.getD 0]? = some m) (hstate : l.sm.state = 0)
    (start : Option Nat) (n : Nat) (t : Int)
    (hlab : label rules ((l.rest inp).take (scanLen m 0 (l.rest inp))) = [(3, t)]) :
    readToken modes inp (scanLen m 0 (l.rest inp) + (n + 1)) start l =
      some (some (.tok t (start.getD l.offset) (l.advance inp (scanLen m 0 (l.rest inp))).offset),
        { l.advance inp (scanLen m 0 (l.rest inp)) with
          sm := { l.sm with token := t, mode := some (l.sm.mode.getD 0), state := 0 } }) := by
  obtain ⟨tbl, ht, hS⟩ := generator_tableSpec xs rules h hne hok hrunes hgreedy
  rw [hgen] at ht; cases ht
  exact munch_token_gen modes inp m l hS hmode hstate start n t hlab

/-! ### Non-vacuity: `'if'` and `[a-z]+` (`exKw` of `C02_gen.lean`) -/

/-- `IF = 'if'` (terminal 2), `ID = [a-z]+` (terminal 3). -/
def exKwRules : List Rule := [(Re.lit [105, 102], [(3, 2)]), (Re.plus (.cls [(97, 122)]), [(3, 3)])]

/-- The hypotheses of `generator_bisim` / `generator_munch` hold. -/
example : exKwRules.map (·.1) = exKw.map Rx.toRe ∧ exKw ≠ [] ∧ (∀ r ∈ exKw, r.clsOK = true) ∧
    (∀ r ∈ exKw, r.runesOK = true) ∧ (∀ r ∈ exKw, r.greedy = true) := by
  refine ⟨rfl, by decide, by decide, by decide, by decide⟩

/-- No rule matches the empty string (hypothesis of `generator_startClean`). -/
example : ∀ r ∈ exKwRules, ¬ Matches r.1 [] := by
  have hn : ∀ r ∈ exKwRules, nullable r.1 = false := by decide
  intro r hr hm
  have := (Lox.Lex.nullable_iff r.1).mpr hm
  rw [hn r hr] at this
  cases this

/-- The array the model of the generator emits for the example. -/
def exKwTbl : Mode := #[4, 16, 30, 38, 11, 0, 3, 97, 104, 3, 105, 105, 1, 106, 122, 3, 13, 0, 3,
  97, 101, 3, 102, 102, 2, 103, 122, 3, 3, 3, 7, 0, 1, 97, 122, 3, 3, 2, 7, 0, 1, 97, 122, 3, 3, 3]

theorem exKw_genMode : genMode exKw exKwRules = some exKwTbl := by decide +kernel

/-- What the real lox writes into `_lexerMode0` for
`@lexer IF = 'if' ID = [a-z]+ @parser @start S = IF ID` (`lox` built from /repo; the real
`NFAToDFA` numbers the states by a depth-first walk, the model by order of creation). -/
def exKwReal : List Int := [4, 16, 24, 32, 11, 0, 3, 97, 104, 1, 105, 105, 3, 106,
  122, 1, 7, 0, 1, 97, 122, 1, 3, 3, 7, 0, 1, 97,
  122, 1, 3, 2, 13, 0, 3, 97, 101, 1, 102, 102, 2, 103,
  122, 1, 3, 3]

/-- The model's array and the real array are the same automaton: equal after renumbering the
states breadth first from state 0 (`canonMode`). -/
example : canonMode exKwTbl.toList = canonMode exKwReal ∧ (canonMode exKwReal).isSome := by
  decide +kernel

/-- Consequences on the instance, through `generator_bisim` (not by running the table): `"if"` is
labelled by `IF` although `ID` matches it too, `"ig"` by `ID`, and `"i0"` is not viable. -/
example : label exKwRules [105, 102] = [(3, 2)] ∧ label exKwRules [105, 103] = [(3, 3)] ∧
    ¬ viable exKwRules [105, 48] := by
  obtain ⟨tbl, ht, _, hrun⟩ := generator_bisim exKw exKwRules rfl (by decide) (by decide)
    (by decide) (by decide)
  rw [exKw_genMode] at ht
  cases ht
  have h1 : tableRun exKwTbl [105, 102] = some [(3, 2)] := by decide +kernel
  have h2 : tableRun exKwTbl [105, 103] = some [(3, 3)] := by decide +kernel
  have h3 : tableRun exKwTbl [105, 48] = none := by decide +kernel
  rw [hrun] at h1 h2 h3
  unfold specRun at h1 h2 h3
  refine ⟨?_, ?_, ?_⟩
  · split at h1
    · exact Option.some.inj h1
    · cases h1
  · split at h2
    · exact Option.some.inj h2
    · cases h2
  · intro hv
    rw [if_pos hv] at h3
    cases h3

end Lox.Props.C02
