import Lox.LR.CheckSound
import Lox.LR.Example
/-! # C01 — the generated parser accepts exactly L(G)

Specification: `Lox.LR.Der` (derivations with trees), `Lox.LR.startSym`.
Machine: `Lox.LR.Abs.run` (the loop of the generated `parse` without recovery) over the automaton
`Lox.LR.autoOf T cert` whose lookups are the generated `_Find` on the emitted `_actions`/`_goto`.
Validator: `Lox.LR.check` (run per emitted artefact by `lr.validate`), sound by `check_sound`.

The abstract theorems hold for every automaton satisfying `Valid` / `Safe`; the `tables_*` theorems
are what one `ok` answer of the validator means for EVERY token sequence. -/
namespace Lox.Props.C01
open Lox.LR Lox.LR.Abs

variable {G : Grammar} {A : Auto} {first : List Sym → Nat → List Nat}

/-- Completeness: a sentence with derivation tree `t` is accepted, with exactly that tree (and the
reductions performed are the post-order of `t`). No fuel bound is needed from the caller: some
fuel suffices. -/
theorem complete (hv : Valid G A first) (hf : FirstOK G first) {w : List Nat} {t : Tree}
    (hd : Der G [.n (startSym G)] w [t]) : ∃ fuel, run G A fuel (init w) = .acc t t.post :=
  complete_run hv hf hd

/-- Soundness: whatever the fuel, an accepting run returns a derivation tree of the whole input
(the input must not contain the EOF terminal 0 itself). -/
theorem sound (hs : Safe G A) {w : List Nat} (hw : eof ∉ w) {fuel : Nat} {t : Tree}
    {lg : List (Nat × List Tree)} (h : run G A fuel (init w) = .acc t lg) :
    Der G [.n (startSym G)] w [t] :=
  sound_run hs hw h

/-- Unambiguity: a grammar with a valid automaton has at most one derivation tree per sentence. -/
theorem unambiguous (hv : Valid G A first) (hf : FirstOK G first) {w : List Nat} {t₁ t₂ : Tree}
    (h₁ : Der G [.n (startSym G)] w [t₁]) (h₂ : Der G [.n (startSym G)] w [t₂]) : t₁ = t₂ := by
  obtain ⟨n₁, r₁⟩ := complete_run hv hf h₁
  obtain ⟨n₂, r₂⟩ := complete_run hv hf h₂
  have := run_det r₁ r₂ (by simp) (by simp)
  simp at this
  exact this.1

/-- Exactness (headline): the machine accepts `w` with tree `t` iff `t` is a derivation tree of `w`
from the start symbol. -/
theorem exact (hv : Valid G A first) (hs : Safe G A) (hf : FirstOK G first) {w : List Nat}
    (hw : eof ∉ w) (t : Tree) :
    (∃ fuel lg, run G A fuel (init w) = .acc t lg) ↔ Der G [.n (startSym G)] w [t] :=
  ⟨fun ⟨_, _, h⟩ => sound_run hs hw h, fun h => (complete_run hv hf h).imp fun _ h => ⟨_, h⟩⟩

/-- Rejection: if the run fails (no action / no goto) the input is not a sentence. -/
theorem reject (hv : Valid G A first) (hf : FirstOK G first) {w : List Nat} {fuel : Nat}
    (h : run G A fuel (init w) = .fail) : ¬ ∃ t, Der G [.n (startSym G)] w [t] := by
  rintro ⟨t, hd⟩
  obtain ⟨n, r⟩ := complete_run hv hf hd
  have := run_det r h (by simp) (by simp)
  simp at this

/-- The verdict does not depend on the fuel: two runs that both finish agree. -/
theorem deterministic {w : List Nat} {n m : Nat} {r r' : Res} (h : run G A n (init w) = r)
    (h' : run G A m (init w) = r') (hr : r ≠ .timeout) (hr' : r' ≠ .timeout) : r = r' :=
  run_det h h' hr hr'

/-! ### What an `ok` of the validator means for the emitted tables -/

variable {nTerms nRules : Nat} {T : Tables} {cert : Array (List Item)}

/-- **C01 for a validated artefact.** If `check` accepted (grammar, emitted arrays, item
certificate) then for every token sequence `w` (without the EOF terminal inside) the table-driven
machine accepts `w` with tree `t` exactly when `t` is a derivation tree of `w`. -/
theorem tables_exact (h : check G nTerms nRules T cert = .ok ()) {w : List Nat} (hw : eof ∉ w)
    (t : Tree) :
    (∃ fuel lg, run G (autoOf T cert) fuel (init w) = .acc t lg) ↔
      Der G [.n (startSym G)] w [t] :=
  let ⟨hv, hs, hf⟩ := check_sound h
  exact hv hs hf hw t

/-- A validated artefact never accepts a non-sentence, never returns a wrong tree, whatever the
fuel. -/
theorem tables_sound (h : check G nTerms nRules T cert = .ok ()) {w : List Nat} (hw : eof ∉ w)
    {fuel : Nat} {t : Tree} {lg : List (Nat × List Tree)}
    (hr : run G (autoOf T cert) fuel (init w) = .acc t lg) : Der G [.n (startSym G)] w [t] :=
  sound (check_sound h).2.1 hw hr

/-- A validated artefact accepts every sentence, returning its derivation tree. -/
theorem tables_complete (h : check G nTerms nRules T cert = .ok ()) {w : List Nat} {t : Tree}
    (hd : Der G [.n (startSym G)] w [t]) :
    ∃ fuel, run G (autoOf T cert) fuel (init w) = .acc t t.post :=
  complete (check_sound h).1 (check_sound h).2.2 hd

/-- A validated grammar is unambiguous. -/
theorem tables_unambiguous (h : check G nTerms nRules T cert = .ok ()) {w : List Nat}
    {t₁ t₂ : Tree} (h₁ : Der G [.n (startSym G)] w [t₁]) (h₂ : Der G [.n (startSym G)] w [t₂]) :
    t₁ = t₂ :=
  unambiguous (check_sound h).1 (check_sound h).2.2 h₁ h₂

/-- If the validated machine stops without an action, the input is not a sentence. -/
theorem tables_reject (h : check G nTerms nRules T cert = .ok ()) {w : List Nat} {fuel : Nat}
    (hr : run G (autoOf T cert) fuel (init w) = .fail) : ¬ ∃ t, Der G [.n (startSym G)] w [t] :=
  reject (check_sound h).1 (check_sound h).2.2 hr

/-! ### Non-vacuity: the hypotheses hold for tables emitted by the real generator -/

example : check Example.G 4 2 Example.T Example.cert = .ok () := Example.check_ok

example : Valid Example.G (autoOf Example.T Example.cert) (firstOf (firstFix Example.G 4 2)) ∧
    Safe Example.G (autoOf Example.T Example.cert) ∧
    FirstOK Example.G (firstOf (firstFix Example.G 4 2)) := check_sound Example.check_ok

/-- `a a b` is a sentence of the example grammar, so by `tables_complete` the machine accepts it. -/
example : ∃ fuel, run Example.G (autoOf Example.T Example.cert) fuel (init [2, 2, 3]) =
    .acc Example.tree Example.tree.post := tables_complete Example.check_ok Example.der_aab

end Lox.Props.C01
