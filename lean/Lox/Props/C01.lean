import Lox.LR.CheckSound
import Lox.LR.Refine
import Lox.LR.SoundLog
import Lox.LR.TermSound
import Lox.LR.TermCounter
import Lox.LR.Example
/-! # C01 — the generated parser accepts exactly L(G)

Specification: `Lox.LR.Der` (derivations with trees), `Lox.LR.startSym`.
Machine: `Lox.LR.Abs.run` (the loop of the generated `parse` without recovery) over the automaton
`Lox.LR.autoOf T cert` whose lookups are the generated `_Find` on the emitted `_actions`/`_goto`.
Validator: `Lox.LR.check` (run per emitted artefact by `lr.validate`), sound by `check_sound`.

The abstract theorems hold for every automaton satisfying `Valid` / `Safe`; the `tables_*` theorems
are what one `ok` answer of the validator means for EVERY token sequence. -/
namespace Lox.Props.C01
open Lox.LR Lox.LR.Abs

variable {G : Grammar} {A : Auto} {first : List Sym → Nat → List Nat}

/-- Completeness: a sentence with derivation tree `t` is accepted, with exactly that tree (and the
reductions performed are the post-order of `t`). No fuel bound is needed from the caller: some
fuel suffices. -/
theorem complete (hv : Valid G A first) (hf : FirstOK G first) {w : List Nat} {t : Tree}
    (hd : Der G [.n (startSym G)] w [t]) : ∃ fuel, run G A fuel (init w) = .acc t t.post :=
  complete_run hv hf hd

/-- Soundness: whatever the fuel, an accepting run returns a derivation tree of the whole input
(the input must not contain the EOF terminal 0 itself). -/
theorem sound (hs : Safe G A) {w : List Nat} (hw : eof ∉ w) {fuel : Nat} {t : Tree}
    {lg : List (Nat × List Tree)} (h : run G A fuel (init w) = .acc t lg) :
    Der G [.n (startSym G)] w [t] :=
  sound_run hs hw h

/-- Unambiguity: a grammar with a valid automaton has at most one derivation tree per sentence. -/
theorem unambiguous (hv : Valid G A first) (hf : FirstOK G first) {w : List Nat} {t₁ t₂ : Tree}
    (h₁ : Der G [.n (startSym G)] w [t₁]) (h₂ : Der G [.n (startSym G)] w [t₂]) : t₁ = t₂ := by
  obtain ⟨n₁, r₁⟩ := complete_run hv hf h₁
  obtain ⟨n₂, r₂⟩ := complete_run hv hf h₂
  have := run_det r₁ r₂ (by simp) (by simp)
  simp at this
  exact this.1

/-- Exactness (headline): the machine accepts `w` with tree `t` iff `t` is a derivation tree of `w`
from the start symbol. -/
theorem exact (hv : Valid G A first) (hs : Safe G A) (hf : FirstOK G first) {w : List Nat}
    (hw : eof ∉ w) (t : Tree) :
    (∃ fuel lg, run G A fuel (init w) = .acc t lg) ↔ Der G [.n (startSym G)] w [t] :=
  ⟨fun ⟨_, _, h⟩ => sound_run hs hw h, fun h => (complete_run hv hf h).imp fun _ h => ⟨_, h⟩⟩

/-- Rejection: if the run fails (no action / no goto) the input is not a sentence. -/
theorem reject (hv : Valid G A first) (hf : FirstOK G first) {w : List Nat} {fuel : Nat}
    (h : run G A fuel (init w) = .fail) : ¬ ∃ t, Der G [.n (startSym G)] w [t] := by
  rintro ⟨t, hd⟩
  obtain ⟨n, r⟩ := complete_run hv hf hd
  have := run_det r h (by simp) (by simp)
  simp at this

/-- The verdict does not depend on the fuel: two runs that both finish agree. -/
theorem deterministic {w : List Nat} {n m : Nat} {r r' : Res} (h : run G A n (init w) = r)
    (h' : run G A m (init w) = r') (hr : r ≠ .timeout) (hr' : r' ≠ .timeout) : r = r' :=
  run_det h h' hr hr'

/-! ### What an `ok` of the validator means for the emitted tables -/

variable {nTerms nRules : Nat} {T : Tables} {cert : Array (List Item)}

/-- **C01 for a validated artefact.** If `check` accepted (grammar, emitted arrays, item
certificate) then for every token sequence `w` (without the EOF terminal inside) the table-driven
machine accepts `w` with tree `t` exactly when `t` is a derivation tree of `w`. -/
theorem tables_exact (h : check G nTerms nRules T cert = .ok ()) {w : List Nat} (hw : eof ∉ w)
    (t : Tree) :
    (∃ fuel lg, run G (autoOf T cert) fuel (init w) = .acc t lg) ↔
      Der G [.n (startSym G)] w [t] :=
  let ⟨hv, hs, hf⟩ := check_sound h
  exact hv hs hf hw t

/-- A validated artefact never accepts a non-sentence, never returns a wrong tree, whatever the
fuel. -/
theorem tables_sound (h : check G nTerms nRules T cert = .ok ()) {w : List Nat} (hw : eof ∉ w)
    {fuel : Nat} {t : Tree} {lg : List (Nat × List Tree)}
    (hr : run G (autoOf T cert) fuel (init w) = .acc t lg) : Der G [.n (startSym G)] w [t] :=
  sound (check_sound h).2.1 hw hr

/-- A validated artefact accepts every sentence, returning its derivation tree. -/
theorem tables_complete (h : check G nTerms nRules T cert = .ok ()) {w : List Nat} {t : Tree}
    (hd : Der G [.n (startSym G)] w [t]) :
    ∃ fuel, run G (autoOf T cert) fuel (init w) = .acc t t.post :=
  complete (check_sound h).1 (check_sound h).2.2 hd

/-- A validated grammar is unambiguous. -/
theorem tables_unambiguous (h : check G nTerms nRules T cert = .ok ()) {w : List Nat}
    {t₁ t₂ : Tree} (h₁ : Der G [.n (startSym G)] w [t₁]) (h₂ : Der G [.n (startSym G)] w [t₂]) :
    t₁ = t₂ :=
  unambiguous (check_sound h).1 (check_sound h).2.2 h₁ h₂

/-- If the validated machine stops without an action, the input is not a sentence. -/
theorem tables_reject (h : check G nTerms nRules T cert = .ok ()) {w : List Nat} {fuel : Nat}
    (hr : run G (autoOf T cert) fuel (init w) = .fail) : ¬ ∃ t, Der G [.n (startSym G)] w [t] :=
  reject (check_sound h).1 (check_sound h).2.2 hr

/-! ### The model of the GENERATED `parse` (`Lox.LR.parse`, Model.lean) on validated tables

`Lox.LR.parse T inp withBounds fuel` is the transcription of the generated Go `parse` (with
`_readToken`, `_recover`, `_Bounds`; out-of-range reads and failed type assertions are explicit
`panic` outcomes) that the correspondence harness ties to the compiled parsers (`lr.parse`).
`inp` is the array of token types the lexer returns (then EOF forever). -/

/-- **Every sentence is accepted by the generated parser** (also for grammars with `@error`
productions: on a sentence `_recover` is never entered). The `_act` calls logged are the
post-order of the derivation tree and the value left on top of the stack is the tree. -/
theorem parse_complete (h : check G nTerms nRules T cert = .ok ()) {w : List Nat}
    (hw : ∀ x ∈ w, x ≠ 1) {t : Tree} (hd : Der G [.n (startSym G)] w [t]) (wb : Bool) :
    ∃ n, ∀ fuel, n ≤ fuel →
      (parse T w.toArray wb fuel).1 = .accept ∧
      (actsOf (parse T w.toArray wb fuel).2.log).reverse = t.post ∧
      (parse T w.toArray wb fuel).2.stack.head?.map (fun e => e.sym.toTree) = some t := by
  obtain ⟨n, hn⟩ := tables_complete h hd
  exact ⟨n, fun fuel hf =>
    parse_accept (checkB_spec (check_ok_iff.mp h)).toSafeOK (inp := w.toArray) (by simpa using hw) wb
      (by simpa using hn) hf⟩

/-- **The generated parser accepts only sentences** (tables without ERROR actions, i.e. the grammar
has no `@error`; input without EOF/ERROR token types), whatever the fuel; the logged `_act` calls
are the post-order of the unique derivation tree. -/
theorem parse_sound (h : check G nTerms nRules T cert = .ok ())
    (hne : NoErrorActions T cert.size) {w : List Nat} (hw0 : eof ∉ w) (hw : ∀ x ∈ w, x ≠ 1)
    (wb : Bool) (fuel : Nat) (hacc : (parse T w.toArray wb fuel).1 = .accept) :
    ∃ t, Der G [.n (startSym G)] w [t] ∧
      (actsOf (parse T w.toArray wb fuel).2.log).reverse = t.post ∧
      (parse T w.toArray wb fuel).2.stack.head?.map (fun e => e.sym.toTree) = some t := by
  have hc := (checkB_spec (check_ok_iff.mp h)).toSafeOK
  have ho := parse_outcome hc hne (inp := w.toArray) (by simpa using hw) wb fuel
  cases hr : run G (autoOf T cert) fuel (init w.toArray.toList) with
  | acc t lg =>
    rw [hr] at ho
    have hr' : run G (autoOf T cert) fuel (init w) = .acc t lg := by simpa using hr
    have hd := tables_sound h hw0 hr'
    obtain ⟨n, hn⟩ := tables_complete h hd
    have := run_det hr' hn (by simp) (by simp)
    simp at this
    exact ⟨t, hd, by rw [ho.2.1, this], ho.2.2⟩
  | fail =>
    rw [hr] at ho
    rcases ho with ho | ho <;> rw [ho] at hacc <;> simp at hacc
  | timeout =>
    rw [hr] at ho
    simp only at ho
    rw [ho] at hacc; simp at hacc

/-- **The generated parser never panics** on validated tables without ERROR actions (no index out
of range in `_Find`/`_rules`/`_termCounts`, no peek beyond the stack, no failed type assertion). -/
theorem parse_no_panic (h : check G nTerms nRules T cert = .ok ())
    (hne : NoErrorActions T cert.size) {w : List Nat} (hw : ∀ x ∈ w, x ≠ 1)
    (wb : Bool) (fuel : Nat) (m : String) : (parse T w.toArray wb fuel).1 ≠ .panic m := by
  have hc := (checkB_spec (check_ok_iff.mp h)).toSafeOK
  have ho := parse_outcome hc hne (inp := w.toArray) (by simpa using hw) wb fuel
  intro hp
  cases hr : run G (autoOf T cert) fuel (init w.toArray.toList) with
  | acc t lg => rw [hr] at ho; rw [ho.1] at hp; simp at hp
  | fail => rw [hr] at ho; rcases ho with ho | ho <;> rw [ho] at hp <;> simp at hp
  | timeout => rw [hr] at ho; simp only at ho; rw [ho] at hp; simp at hp

/-- **A rejected input is not a sentence** (same premises). -/
theorem parse_reject (h : check G nTerms nRules T cert = .ok ())
    (hne : NoErrorActions T cert.size) {w : List Nat} (hw : ∀ x ∈ w, x ≠ 1)
    (wb : Bool) (fuel : Nat) (hrej : (parse T w.toArray wb fuel).1 = .reject) :
    ¬ ∃ t, Der G [.n (startSym G)] w [t] := by
  have hc := (checkB_spec (check_ok_iff.mp h)).toSafeOK
  have ho := parse_outcome hc hne (inp := w.toArray) (by simpa using hw) wb fuel
  cases hr : run G (autoOf T cert) fuel (init w.toArray.toList) with
  | acc t lg => rw [hr] at ho; rw [ho.1] at hrej; simp at hrej
  | fail => exact tables_reject h (by simpa using hr)
  | timeout => rw [hr] at ho; simp only at ho; rw [ho] at hrej; simp at hrej

/-! ### The soundness half alone: tables whose conflicts were resolved by `@left/@right`

For such grammars (e.g. examples/calc, examples/bolox) the generator deletes actions, the grammar is
ambiguous and `check` rejects the completeness side. `checkSafe` (op `lr.validate_safe`) still
passes and gives: nothing but sentences is accepted, the returned tree is a derivation tree of the
input, and the reductions performed are its post-order. -/

/-- **Soundness for a `checkSafe`-validated artefact**, whatever the fuel. -/
theorem tables_sound_safe (h : checkSafe G nTerms nRules T cert = .ok ()) {w : List Nat}
    (hw : eof ∉ w) {fuel : Nat} {t : Tree} {lg : List (Nat × List Tree)}
    (hr : run G (autoOf T cert) fuel (init w) = .acc t lg) :
    Der G [.n (startSym G)] w [t] ∧ lg = t.post :=
  ⟨sound (checkSafe_sound h) hw hr, sound_log (checkSafe_sound h) hr⟩

/-- The model of the generated `parse` on `checkSafe`-validated tables without ERROR actions:
it accepts only sentences, the value it leaves is a derivation tree of the input and the `_act`
calls are that tree's post-order; and it never panics. -/
theorem parse_sound_safe (h : checkSafe G nTerms nRules T cert = .ok ())
    (hne : NoErrorActions T cert.size) {w : List Nat} (hw0 : eof ∉ w) (hw : ∀ x ∈ w, x ≠ 1)
    (wb : Bool) (fuel : Nat) :
    (∀ m, (parse T w.toArray wb fuel).1 ≠ .panic m) ∧
    ((parse T w.toArray wb fuel).1 = .accept →
      ∃ t, Der G [.n (startSym G)] w [t] ∧
        (actsOf (parse T w.toArray wb fuel).2.log).reverse = t.post ∧
        (parse T w.toArray wb fuel).2.stack.head?.map (fun e => e.sym.toTree) = some t) := by
  have hc := checkSafeB_spec (checkSafe_ok_iff.mp h)
  have ho := parse_outcome hc hne (inp := w.toArray) (by simpa using hw) wb fuel
  cases hr : run G (autoOf T cert) fuel (init w.toArray.toList) with
  | acc t lg =>
    rw [hr] at ho
    have hr' : run G (autoOf T cert) fuel (init w) = .acc t lg := by simpa using hr
    obtain ⟨hd, hlg⟩ := tables_sound_safe h hw0 hr'
    refine ⟨fun m hp => ?_, fun _ => ⟨t, hd, by rw [ho.2.1, hlg], ho.2.2⟩⟩
    rw [ho.1] at hp; simp at hp
  | fail =>
    rw [hr] at ho
    refine ⟨fun m hp => ?_, fun hacc => ?_⟩
    · rcases ho with ho | ho <;> rw [ho] at hp <;> simp at hp
    · rcases ho with ho | ho <;> rw [ho] at hacc <;> simp at hacc
  | timeout =>
    rw [hr] at ho
    simp only at ho
    refine ⟨fun m hp => ?_, fun hacc => ?_⟩
    · rw [ho] at hp; simp at hp
    · rw [ho] at hacc; simp at hacc

/-! ### Termination

`Valid ∧ Safe` do not bound the number of consecutive reductions on a NON-sentence
(`termination_needs_more`: tables that pass `check` and loop forever). The validator therefore runs
a second check, `termB` (all local reduce-only runs leave their local stack within a fuel), and
with it the machine finishes on every input, i.e. it DECIDES the language. -/

/-- Abstract termination (`Abs.LocalTerm` is what `termB` establishes). -/
theorem terminates {F : Nat} (hs : Safe G A) (hl : LocalTerm G A F) (w : List Nat) :
    ∃ fuel, run G A fuel (init w) ≠ .timeout :=
  Abs.terminates hs hl w

/-- `check` alone cannot give termination: these tables pass `check`, and the run on `b` (not a
sentence) is out of fuel for every fuel. -/
theorem termination_needs_more :
    check TermCounter.G 4 3 TermCounter.T TermCounter.cert = .ok () ∧
      ∀ fuel, run TermCounter.G (autoOf TermCounter.T TermCounter.cert) fuel (init [3]) =
        .timeout :=
  TermCounter.check_does_not_imply_termination

/-- **The validated machine decides L(G)**: with `check` and `termB`, for every token sequence some
fuel suffices, and the verdict is right: accept with the derivation tree, or fail on a
non-sentence. -/
theorem tables_decide (h : check G nTerms nRules T cert = .ok ()) (ht : termB G T cert = true)
    {w : List Nat} (hw : eof ∉ w) :
    ∃ fuel, (∃ t, run G (autoOf T cert) fuel (init w) = .acc t t.post ∧
              Der G [.n (startSym G)] w [t]) ∨
            (run G (autoOf T cert) fuel (init w) = .fail ∧
              ¬ ∃ t, Der G [.n (startSym G)] w [t]) := by
  obtain ⟨n, hn⟩ := tables_terminate h ht w
  refine ⟨n, ?_⟩
  cases hr : run G (autoOf T cert) n (init w) with
  | acc t lg =>
    have hd := tables_sound h hw hr
    obtain ⟨m, hm⟩ := tables_complete h hd
    have := run_det hr hm (by simp) (by simp)
    exact Or.inl ⟨t, by rw [this], hd⟩
  | fail => exact Or.inr ⟨rfl, tables_reject h hr⟩
  | timeout => exact absurd hr hn

/-- **The generated parser decides L(G)** (model `Lox.LR.parse`; tables validated by `check` and
`termB`, no ERROR actions, input without EOF/ERROR token types): from some fuel on the outcome is
`accept` exactly for sentences and `reject` otherwise – never `panic`, never `timeout`. -/
theorem parse_decides (h : check G nTerms nRules T cert = .ok ()) (ht : termB G T cert = true)
    (hne : NoErrorActions T cert.size) {w : List Nat} (hw0 : eof ∉ w) (hw : ∀ x ∈ w, x ≠ 1)
    (wb : Bool) :
    ∃ N, ∀ fuel, N ≤ fuel →
      ((parse T w.toArray wb fuel).1 = .accept ∧ ∃ t, Der G [.n (startSym G)] w [t]) ∨
      ((parse T w.toArray wb fuel).1 = .reject ∧ ¬ ∃ t, Der G [.n (startSym G)] w [t]) := by
  have hc := (checkB_spec (check_ok_iff.mp h)).toSafeOK
  obtain ⟨n, hn⟩ := tables_terminate h ht w
  refine ⟨n + w.length + 2, fun fuel hf => ?_⟩
  cases hr : run G (autoOf T cert) n (init w) with
  | acc t lg =>
    have hd := tables_sound h hw0 hr
    have := parse_accept hc (inp := w.toArray) (by simpa using hw) wb (n := n)
      (by simpa using hr) (fuel := fuel) (by omega)
    exact Or.inl ⟨this.1, t, hd⟩
  | fail =>
    have := parse_reject_of_fail hc hne (inp := w.toArray) (by simpa using hw) wb (n := n)
      (by simpa using hr) (fuel := fuel) (by omega) (by simp; omega)
    exact Or.inr ⟨this, tables_reject h hr⟩
  | timeout => exact absurd hr hn

/-- Termination also for `checkSafe`-validated tables. -/
theorem tables_terminate_safe (h : checkSafe G nTerms nRules T cert = .ok ())
    (ht : termB G T cert = true) (w : List Nat) :
    ∃ fuel, run G (autoOf T cert) fuel (init w) ≠ .timeout :=
  Lox.LR.tables_terminate_safe h ht w

/-! ### Non-vacuity: the hypotheses hold for tables emitted by the real generator -/

example : checkSafe Example.G 4 2 Example.T Example.cert = .ok () :=
  checkSafe_ok_iff.mpr (by decide)

/-- A precedence-resolved artefact: `check` rejects, `checkSafe` and `termB` accept. -/
example : checkB ExamplePrec.G 4 2 ExamplePrec.T ExamplePrec.cert = false ∧
    checkSafe ExamplePrec.G 4 2 ExamplePrec.T ExamplePrec.cert = .ok () ∧
    termB ExamplePrec.G ExamplePrec.T ExamplePrec.cert = true :=
  ⟨ExamplePrec.checkB_fails, ExamplePrec.checkSafe_ok, ExamplePrec.termB_ok⟩

example : LocalTerm Example.G (autoOf Example.T Example.cert)
    (termFuel Example.G Example.cert) :=
  termB_spec (checkB_spec Example.checkB_ok).toSafeOK (by decide)

/-- All hypotheses of `parse_decides` hold for the example tables. -/
example : ∃ N, ∀ fuel, N ≤ fuel →
    ((parse Example.T [2, 2, 3].toArray false fuel).1 = .accept ∧
      ∃ t, Der Example.G [.n (startSym Example.G)] [2, 2, 3] [t]) ∨
    ((parse Example.T [2, 2, 3].toArray false fuel).1 = .reject ∧
      ¬ ∃ t, Der Example.G [.n (startSym Example.G)] [2, 2, 3] [t]) :=
  parse_decides Example.check_ok (by decide) (noErrorB_spec (by decide)) (by decide) (by decide)
    false

example : termB Example.G Example.T Example.cert = true := by decide


example : NoErrorActions Example.T Example.cert.size :=
  noErrorB_spec (by decide)

/-- The model of the generated parser on the example tables: accepts `a a b`, rejects `a a`. -/
example : (parse Example.T #[2, 2, 3] false 20).1 = .accept := by decide
example : (parse Example.T #[2, 2] false 20).1 = .reject := by decide


example : check Example.G 4 2 Example.T Example.cert = .ok () := Example.check_ok

example : Valid Example.G (autoOf Example.T Example.cert) (firstOf (firstFix Example.G 4 2)) ∧
    Safe Example.G (autoOf Example.T Example.cert) ∧
    FirstOK Example.G (firstOf (firstFix Example.G 4 2)) := check_sound Example.check_ok

/-- `a a b` is a sentence of the example grammar, so by `tables_complete` the machine accepts it. -/
example : ∃ fuel, run Example.G (autoOf Example.T Example.cert) fuel (init [2, 2, 3]) =
    .acc Example.tree Example.tree.post := tables_complete Example.check_ok Example.der_aab

end Lox.Props.C01
