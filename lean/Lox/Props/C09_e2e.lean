import Lox.Props.C09
import Lox.Props.C09_prefix
import Lox.Props.C01_e2e
import Lox.Props.C04_e2e
import Lox.Props.C01_sugar_e2e
import Lox.LR.EmitProofsJustify
import Lox.LR.RuntimeSoundE2E
/-!
# C09, end to end on the model of the generator: syntax-error behaviour for ALL grammars

Property (verbatim): "For every accepted grammar and every finite token sequence, including lexer
ERROR tokens, parse() terminates without panicking. Reading @error as a terminal that only the
parser itself can supply: if the sequence is not a sentence, parse() either returns false or
delivers at least one Error to an @error action, and the first Error delivered carries the first
token at which the input stops being a prefix of any sentence. When parse() returns true, the
symbols it consumed (input tokens in order, possibly with stretches replaced by @error) form a
sentence."

`Lox/Props/C09.lean` and `Lox/Props/C09_prefix.lean` decide C09 PER EMITTED ARTEFACT (hypotheses
`checkSafe`/`check`/`justify`/`noShiftEOFB`/`acceptOnlyEOFB` … = validators run on the tables of one
grammar). Here the tables are the output of the MODEL of the generator
(`Lox.LR.Emit.generateP info G nT ord` = `Cons.construct`, model of `lr1.ConstructLALR`, then
`Emit.emitParserP`, model of `codegen.EmitParser`; tied to the real code number for number by the
families `construct`, `genmodel`, `resolve`, `emit`) and NO validator is run: the statements hold
for every well-formed grammar (`wfGrammarB`), every name order listing each symbol once (`ordOKB`)
and – where the proof only needs the soundness half – every precedence table `info`.

* **Any emitted table** (conflicts resolved by `@left/@right` or not; `generator_safe`):
  `generator_parse_no_panic`, `generator_accepted_edit_is_sentence`, `generator_error_delivered`,
  `generator_no_silent_accept`, `generator_recoveries_bounded`, `generator_consumed_is_edit`,
  `generator_noShiftEOF`, `generator_acceptOnlyEOF`; termination `generator_parse_terminates_partial`
  / `generator_parse_total_partial` (hypotheses `termB`, `recoveryOKB` KEPT, see below);
  `generator_recoveryOK_errorFree`, `generator_parse_terminates_errorFree_partial`: for grammars
  WITHOUT `@error` the hypothesis `recoveryOKB` is derived (only `termB` stays).
* **Conflict-free grammars** (`conflictFree`: every cell `createActions` builds holds one action,
  = LALR(1) by definition, `Lox.Props.C04.conflictFree_iff_lalr1`; `generator_valid`):
  `generator_sentence_never_recovers`, `generator_justified` (everything the validator `justify`
  establishes, derived from `generator_satisfies_conflict_checks`), `generator_lookaheads_exact`,
  `generator_first_error_not_prefix`, `generator_first_error_token` (+ `productiveB`, which the
  front end does not enforce), `generator_abs_correct_prefix`, `generator_abs_error_detection`,
  `generator_consumed_symbols_viable`.
* **`recoveryOKB` is not derived** for grammars with `@error`: trying to derive it exposed defect D30
  (for the LALR(1) grammar `s = b @error C; b = a; a = ε` the pinned `_recover()` looped forever on
  every input; repaired, see the section at the end: `hang_repaired_recoveryOK`,
  `hang_repaired_parse`). `termB` ("conflict-free ⇒ no reduction cycle") is not derived either.
* The Boolean checkers `noShiftEOFB` / `acceptOnlyEOFB` range over EVERY index of the `_actions`
  array, also indices that are not states (where `_Find` would read row data as a row offset); in
  that form `noShiftEOFB` is false for some well-formed conflict-free grammar (`noShiftEOFB_false`).
  What the C09 theorems need – the property for the STATES – holds for every emitted table, and
  `generator_recoveries_bounded` / `generator_consumed_is_edit` need no table-level hypothesis.
-/
namespace Lox.Props.C09
open Lox.LR Lox.LR.Rt Lox.LR.Emit Lox.LR.Cons
open Lox.Dec (ProdInfo)
open Lox.Props.C01 (wfGrammarB generator_safe generator_valid generator_total)

/-! ## Any emitted table: every well-formed grammar, every precedence table -/

section AnyTable
variable {info : Nat → ProdInfo} {G : Grammar} {nT nR : Nat} {ord : List Sym} {T : Tables}
  {cert : Array (List Item)}

/-- **generator_parse_no_panic.** On the tables the model of the generator emits for ANY
well-formed grammar and precedence table, `parse` never panics: for every token sequence, lexer
ERROR tokens (1) included, with and without `_onBounds` (`wb`), whatever the fuel and however often
it recovers (stack never empty, every `_Find` / `_rules` / `_termCounts` index in range in the main
loop, `_makeError`, the stack search and the reduce simulation of `_recover`; type assertions on
`_lasym` hold). -/
theorem generator_parse_no_panic (hwf : wfGrammarB G nT nR = true) (hord : ordOKB nT nR ord = true)
    (hgen : generateP info G nT ord = some (T, cert)) (hsmall : cert.size ≤ 2147483647)
    (inp : Array Nat) (wb : Bool) (fuel : Nat) : ∀ w, (parse T inp wb fuel).1 ≠ .panic w :=
  parse_no_panic (generator_safe hwf hord hgen hsmall) inp wb fuel

/-- **generator_accepted_edit_is_sentence.** "When parse() returns true, the symbols it consumed
(input tokens in order, possibly with stretches replaced by @error) form a sentence": the accepting
stack is `[⟨_, v⟩, bottom]`, the lookahead is EOF, the leaves of `v` read as terminals
(`Error ↦ ERROR = 1`) derive from the start symbol with `v` as derivation tree, and they are the
consumed symbols of the coverage invariant `Cov`. -/
theorem generator_accepted_edit_is_sentence (hwf : wfGrammarB G nT nR = true)
    (hord : ordOKB nT nR ord = true) (hgen : generateP info G nT ord = some (T, cert))
    (hsmall : cert.size ≤ 2147483647) {inp : Array Nat} {wb : Bool} {fuel : Nat}
    (hacc : (parse T inp wb fuel).1 = .accept) :
    (parse T inp wb fuel).2.la = tEOF ∧
    ∃ st0 v b bot, (parse T inp wb fuel).2.stack = [{ state := st0, sym := v, bounds := b }, bot] ∧
      bot.sym = .nil ∧ stackLeaves (parse T inp wb fuel).2.stack = leaves v ∧
      Der G [.n (startSym G)] (wordOf v) [v.toTree] ∧ Cov inp (parse T inp wb fuel).2 :=
  accepted_edit_is_sentence (generator_safe hwf hord hgen hsmall) hacc

/-- **generator_error_delivered.** If `parse` accepts and `_recover()` returned `true` at least
once, some action was called with an `Error` argument. -/
theorem generator_error_delivered (hwf : wfGrammarB G nT nR = true) (hord : ordOKB nT nR ord = true)
    (hgen : generateP info G nT ord = some (T, cert)) (hsmall : cert.size ≤ 2147483647)
    {inp : Array Nat} {wb : Bool} {fuel : Nat} (hacc : (parseG T inp wb fuel).1 = .accept)
    (hrec : 0 < (parseG T inp wb fuel).2.2) : Delivered (parseG T inp wb fuel).2.1.log :=
  error_delivered (generator_safe hwf hord hgen hsmall) hacc hrec

/-- **generator_no_silent_accept.** If `parse` accepts, `_recover()` never returned `true` and the
input holds neither ERROR (1) nor EOF (0) tokens, the input is a sentence (derivation tree = the
value on top of the accepting stack). Contrapositive: on a non-sentence `parse` returns false or
recovers, and then delivers an Error (`generator_error_delivered`). -/
theorem generator_no_silent_accept (hwf : wfGrammarB G nT nR = true) (hord : ordOKB nT nR ord = true)
    (hgen : generateP info G nT ord = some (T, cert)) (hsmall : cert.size ≤ 2147483647)
    {inp : Array Nat} {wb : Bool} {fuel : Nat} (hinp1 : ∀ i : Nat, inp[i]? ≠ some 1)
    (hinp0 : ∀ i : Nat, inp[i]? ≠ some 0) (hacc : (parseG T inp wb fuel).1 = .accept)
    (h0 : (parseG T inp wb fuel).2.2 = 0) :
    ∃ st0 v b bot, (parse T inp wb fuel).2.stack = [{ state := st0, sym := v, bounds := b }, bot] ∧
      Der G [.n (startSym G)] inp.toList [v.toTree] :=
  no_silent_accept (generator_safe hwf hord hgen hsmall) hinp1 hinp0 hacc h0

/-- **generator_noShiftEOF.** No STATE of an emitted table shifts EOF: a `_Find` hit on `_actions`
for a state and the EOF lookahead is the accept code or a reduction. (This is `NoShiftEOF`
restricted to the states; the Boolean `noShiftEOFB T`, which also ranges over indices that are not
states, does not hold for every emitted table: `noShiftEOFB_false`.) -/
theorem generator_noShiftEOF (hwf : wfGrammarB G nT nR = true) (hord : ordOKB nT nR ord = true)
    (hgen : generateP info G nT ord = some (T, cert)) (hsmall : cert.size ≤ 2147483647)
    {st : Nat} (hst : st < cert.size) {v : Int} (hf : find T.actions (st : Int) tEOF = .hit v) :
    v = acceptCode ∨ v < 0 :=
  noShiftEOF_inR (checkSafeB_spec (checkSafe_ok_iff.mp (generator_safe hwf hord hgen hsmall)))
    ⟨by omega, by simpa using hst⟩ hf

/-- **generator_acceptOnlyEOF.** A STATE of an emitted table holds the accept code only under the
EOF lookahead. -/
theorem generator_acceptOnlyEOF (hwf : wfGrammarB G nT nR = true) (hord : ordOKB nT nR ord = true)
    (hgen : generateP info G nT ord = some (T, cert)) (hsmall : cert.size ≤ 2147483647)
    {st : Nat} (hst : st < cert.size) {la : Int}
    (hf : find T.actions (st : Int) la = .hit acceptCode) : la = tEOF :=
  acceptOnlyEOF_inR (checkSafeB_spec (checkSafe_ok_iff.mp (generator_safe hwf hord hgen hsmall)))
    ⟨by omega, by simpa using hst⟩ hf

/- FULL STATEMENTS (not proved; the first is FALSE as it stands):
     generator_noShiftEOFB    : … → noShiftEOFB T = true       (false: `noShiftEOFB_false`)
     generator_acceptOnlyEOFB : … → acceptOnlyEOFB T = true
   Both checkers evaluate `findAll T.actions _ k` for EVERY index `k < T.actions.size`; for `k` beyond
   the number of states `_Find` would interpret row data (counts, keys, actions) as a row offset. No
   run of `parse` does that (`parse_no_panic`: every state on the stack is a state), so the theorems
   below need no table-level hypothesis at all. -/

/-- **generator_recoveries_bounded.** Along any run of `parse` on an emitted table – whatever the
fuel, i.e. however long the run – `_recover()` returns `true` at most `2 * |input| + 1` times (fix
F12; no `NoShiftEOF` hypothesis left: the invariant of validated tables supplies it). -/
theorem generator_recoveries_bounded (hwf : wfGrammarB G nT nR = true)
    (hord : ordOKB nT nR ord = true) (hgen : generateP info G nT ord = some (T, cert))
    (hsmall : cert.size ≤ 2147483647) (inp : Array Nat) (wb : Bool) (fuel : Nat) :
    (parseG T inp wb fuel).2.2 ≤ 2 * inp.size + 1 :=
  parseG_bound_safe (checkSafeB_spec (checkSafe_ok_iff.mp (generator_safe hwf hord hgen hsmall)))
    inp wb fuel

/-- **generator_consumed_is_edit.** In every state at the top of the loop of `parse` the consumed
symbols followed by the pending lookaheads are the input tokens in order with stretches replaced by
`Error`s (`Cov`, see `consumed_is_edit`), and the LR stack invariant holds. -/
theorem generator_consumed_is_edit (hwf : wfGrammarB G nT nR = true)
    (hord : ordOKB nT nR ord = true) (hgen : generateP info G nT ord = some (T, cert))
    (hsmall : cert.size ≤ 2147483647) {inp : Array Nat} {wb : Bool} {fuel : Nat} {s : PState}
    (h : ParseReach T inp wb fuel s) : Cov inp s :=
  (parseReach_SInv
    (checkSafeB_spec (checkSafe_ok_iff.mp (generator_safe hwf hord hgen hsmall))) h).cov

/- FULL STATEMENT (not proved; it was FALSE on the pinned template, defect D30 at the end of the file): `generator_parse_terminates`
     wfGrammarB G nT nR = true → ordOKB nT nR ord = true → generate G nT ord = some (T, cert) →
     conflictFree G nT ord = true → cert.size ≤ 2147483647 →
       ∀ inp wb, ∃ N, ∀ fuel, N ≤ fuel → (parse T inp wb fuel).1 ≠ .timeout -/

/-- **generator_parse_terminates_partial.** EXTRA hypotheses w.r.t. the full statement above:
`ht` (`termB`: no cycle of reductions; "conflict-free ⇒ no reduction cycle" is not derived) and
`hr` (`recoveryOKB`: the reduce simulation inside `_recover` cannot loop; on the pinned template it
failed on an LALR(1) grammar whose emitted parser did hang – defect D30, see the end of the file). With
them, for every input – lexer ERROR tokens included – there is a fuel from which the model of
`parse` never returns `timeout`. -/
theorem generator_parse_terminates_partial (hwf : wfGrammarB G nT nR = true)
    (hord : ordOKB nT nR ord = true) (hgen : generateP info G nT ord = some (T, cert))
    (hsmall : cert.size ≤ 2147483647) (ht : termB G T cert = true)
    (hr : recoveryOKB T cert.size = true) (inp : Array Nat) (wb : Bool) :
    ∃ N, ∀ fuel, N ≤ fuel → (parse T inp wb fuel).1 ≠ .timeout :=
  parse_terminates (generator_safe hwf hord hgen hsmall) ht hr inp wb

/-- **generator_parse_total_partial.** Under the same two extra hypotheses `parse` decides: with
enough fuel the outcome is `accept` or `reject`. -/
theorem generator_parse_total_partial (hwf : wfGrammarB G nT nR = true)
    (hord : ordOKB nT nR ord = true) (hgen : generateP info G nT ord = some (T, cert))
    (hsmall : cert.size ≤ 2147483647) (ht : termB G T cert = true)
    (hr : recoveryOKB T cert.size = true) (inp : Array Nat) (wb : Bool) :
    ∃ N, ∀ fuel, N ≤ fuel →
      (parse T inp wb fuel).1 = .accept ∨ (parse T inp wb fuel).1 = .reject :=
  parse_total (generator_safe hwf hord hgen hsmall) ht hr inp wb

/-- **generator_recoveryOK_errorFree.** For grammars WITHOUT `@error` (the ERROR terminal 1 stands
on no right-hand side) the hypothesis `recoveryOKB` is derivable: no state has an action on ERROR
(`Lox.Props.C01.generator_no_error_actions`), so the reduce simulation of `_recover` has no edge.
(With `@error` it is not derived; on the pinned template it was false, defect D30.) -/
theorem generator_recoveryOK_errorFree (hwf : wfGrammarB G nT nR = true)
    (hord : ordOKB nT nR ord = true) (hgen : generateP info G nT ord = some (T, cert))
    (hno : ¬ TermUsed G 1) : recoveryOKB T cert.size = true := by
  have hna := Lox.Props.C01.generator_no_error_actions hwf hord hgen hno
  unfold recoveryOKB simRankOK
  rw [List.all_eq_true]
  intro k hk
  have hm := hna k (List.mem_range.mp hk)
  simp [simNext, hm]

/-- **generator_parse_terminates_errorFree_partial.** For every well-formed grammar without
`@error` and every precedence table: `parse` terminates on every input (lexer ERROR tokens
included) – EXTRA hypothesis w.r.t. the full statement only `ht` (`termB`). -/
theorem generator_parse_terminates_errorFree_partial (hwf : wfGrammarB G nT nR = true)
    (hord : ordOKB nT nR ord = true) (hgen : generateP info G nT ord = some (T, cert))
    (hsmall : cert.size ≤ 2147483647) (hno : ¬ TermUsed G 1) (ht : termB G T cert = true)
    (inp : Array Nat) (wb : Bool) :
    ∃ N, ∀ fuel, N ≤ fuel →
      (parse T inp wb fuel).1 = .accept ∨ (parse T inp wb fuel).1 = .reject :=
  parse_total (generator_safe hwf hord hgen hsmall) ht
    (generator_recoveryOK_errorFree hwf hord hgen hno) inp wb

end AnyTable

/-! ## Conflict-free grammars: exact lookaheads, the first `Error` blames the right token -/

section ConflictFree
variable {G : Grammar} {nT nR : Nat} {ord : List Sym} {T : Tables} {cert : Array (List Item)}

/-- **generator_justified.** For every well-formed conflict-free grammar the emitted tables with
the states' item lists satisfy everything the ⊆ validator `justify` establishes (`JustifyOK`) –
without running it: every item of every state has a derivation by the rules that define the
LALR(1) item sets INSIDE the item sets, along the edges `_Find` reads in the emitted arrays; every
`_actions` entry is called for by an item (a reduce entry by the completed item with exactly that
lookahead), every `_goto` entry by an item with that rule after the dot; distinct states have
distinct LR(0) kernels. Derived from the Prop-level `generator_satisfies_conflict_checks`
(`ConflictOK`, on the transitions `ConstructLALR` recorded) and the fact that on a conflict-free
run the emitted arrays have exactly those transitions (`Emit.Run.trans_eq`). -/
theorem generator_justified (hwf : wfGrammarB G nT nR = true) (hord : ordOKB nT nR ord = true)
    (hgen : generate G nT ord = some (T, cert)) (hfree : conflictFree G nT ord = true)
    (hsmall : cert.size ≤ 2147483647) : JustifyOK G T cert :=
  justifyOK_of_generate (Lox.Props.C04.wfGrammar_spec hwf) (ordOKB_spec hord) hgen hfree hsmall

/-- **generator_lookaheads_exact.** … hence the item list of every state IS its LALR(1) item set by
definition w.r.t. the automaton read off the emitted arrays: nothing missing (`check`), nothing
invented (`generator_justified`). -/
theorem generator_lookaheads_exact (hwf : wfGrammarB G nT nR = true)
    (hord : ordOKB nT nR ord = true) (hgen : generate G nT ord = some (T, cert))
    (hfree : conflictFree G nT ord = true) (hsmall : cert.size ≤ 2147483647) (s : Nat) (it : Item) :
    it ∈ itemsOf cert s ↔ LALRItem G (autoOf T cert) s it :=
  ⟨fun hit => ((generator_justified hwf hord hgen hfree hsmall).justd s it hit).lalr,
    LALRItem.mem (closed_of_checkOK
      (checkB_spec (check_ok_iff.mp (generator_valid hwf hord hgen hfree hsmall))))⟩

/-- **generator_sentence_never_recovers.** On a sentence `_recover()` is never called (also for
grammars with `@error` productions). -/
theorem generator_sentence_never_recovers (hwf : wfGrammarB G nT nR = true)
    (hord : ordOKB nT nR ord = true) (hgen : generate G nT ord = some (T, cert))
    (hfree : conflictFree G nT ord = true) (hsmall : cert.size ≤ 2147483647) {w : List Nat}
    {t : Tree} (hd : Der G [.n (startSym G)] w [t]) {wb : Bool} {fuel : Nat} {s : PState}
    (hr : ParseReach T w.toArray wb fuel s) : isRecoverStep T s = false :=
  sentence_never_recovers (generator_valid hwf hord hgen hfree hsmall) hd hr

/-- **generator_first_error_not_prefix** (no productivity needed; lexer ERROR tokens allowed). The
run is plain up to `s` and the iteration from `s` is the first successful `_recover()`: the `Error`
it injects carries the lookahead token of `s` (index `j`), every earlier `Error` value wraps a
lexer ERROR token, and no sentence agrees with the input on the positions `0..j`. -/
theorem generator_first_error_not_prefix (hwf : wfGrammarB G nT nR = true)
    (hord : ordOKB nT nR ord = true) (hgen : generate G nT ord = some (T, cert))
    (hfree : conflictFree G nT ord = true) (hsmall : cert.size ≤ 2147483647)
    {inp : Array Nat} {wb : Bool} {fuel : Nat} {s1 s s' : PState}
    (h1 : readToken T inp Rt.initState = .ok s1) (hreach : PlainReach T inp wb fuel s1 s)
    (hrec : isRecoverStep T s = true) (hstep : step T inp wb fuel s = .cont s') :
    (∃ i ty ex, s'.lasym = .err i ty ex ∧ s'.la = tERROR ∧ symTokIdx s.lasym = some i ∧
      lidx s.lasym = i) ∧
    ErrsInv (lexErrAt inp) s ∧
    ∀ (w : List Nat) (t : Tree), Der G [.n (startSym G)] w [t] →
      ¬ ∀ i, i ≤ lidx s.lasym → inp[i]? = w.toArray[i]? :=
  first_error_token_partial (generator_valid hwf hord hgen hfree hsmall) h1 hreach hrec hstep

/-- **generator_first_error_token.** "The first Error delivered carries the first token at which
the input stops being a prefix of any sentence" – for every well-formed conflict-free PRODUCTIVE
grammar (`productiveB`: every rule derives a token string; the front end does not enforce it, and
without it the statement is false: `Gunprod` in `C09_prefix.lean`). The input holds no lexer ERROR
token; the run is plain up to `s` and the iteration from `s` is the first successful `_recover()`.
With `j` the index of the lookahead token of `s`:
1. the `Error` injected carries token `j`; it was never shifted (it is still the lookahead of `s`)
   and exactly `inp[0..j)` has been consumed;
2. `inp[0..j)` IS a prefix of a sentence;
3. no sentence agrees with the input on the positions `0..j` (for `j = |inp|`, the EOF lookahead:
   the input is not a sentence). -/
theorem generator_first_error_token (hwf : wfGrammarB G nT nR = true)
    (hord : ordOKB nT nR ord = true) (hgen : generate G nT ord = some (T, cert))
    (hfree : conflictFree G nT ord = true) (hsmall : cert.size ≤ 2147483647)
    (hp : productiveB G nR = true)
    {inp : Array Nat} {wb : Bool} {fuel : Nat} {s1 s s' : PState}
    (hinp1 : ∀ i : Nat, inp[i]? ≠ some 1)
    (h1 : readToken T inp Rt.initState = .ok s1) (hreach : PlainReach T inp wb fuel s1 s)
    (hrec : isRecoverStep T s = true) (hstep : step T inp wb fuel s = .cont s') :
    (∃ i ty ex, s'.lasym = .err i ty ex ∧ s'.la = tERROR ∧ s.lasym = .tok i ty ∧
      lidx s.lasym = i ∧ (stackLeaves s.stack).map leafNat = inp.toList.take i) ∧
    (∃ v t, Der G [.n (startSym G)] (inp.toList.take (lidx s.lasym) ++ v) [t]) ∧
    (∀ (w : List Nat) (t : Tree), Der G [.n (startSym G)] w [t] →
      ¬ ∀ i, i ≤ lidx s.lasym → inp[i]? = w.toArray[i]?) :=
  first_error_token_of_justified (generator_valid hwf hord hgen hfree hsmall)
    (generator_justified hwf hord hgen hfree hsmall) (productiveB_sound hp) hinp1 h1 hreach hrec
    hstep

/-- **generator_consumed_symbols_viable.** In EVERY state at the top of the loop of `parse` (also
after recoveries) the symbols consumed so far, read as terminals with `Error ↦ ERROR = 1`, are a
prefix of a sentence of `G`. -/
theorem generator_consumed_symbols_viable (hwf : wfGrammarB G nT nR = true)
    (hord : ordOKB nT nR ord = true) (hgen : generate G nT ord = some (T, cert))
    (hfree : conflictFree G nT ord = true) (hsmall : cert.size ≤ 2147483647)
    (hp : productiveB G nR = true) {inp : Array Nat} {wb : Bool} {fuel : Nat} {s : PState}
    (h : ParseReach T inp wb fuel s) :
    ∃ v t, Der G [.n (startSym G)] ((stackLeaves s.stack).map leafNat ++ v) [t] :=
  Rt.consumed_viable (checkB_spec (check_ok_iff.mp (generator_valid hwf hord hgen hfree hsmall)))
    (generator_justified hwf hord hgen hfree hsmall) (productiveB_sound hp) h

/-- **generator_abs_correct_prefix.** Correct-prefix property of the abstract LR machine on the
emitted tables: in every configuration reached from `init w` the input splits as
`w = u ++ c.input` with the consumed part `u` a prefix of a sentence. -/
theorem generator_abs_correct_prefix (hwf : wfGrammarB G nT nR = true)
    (hord : ordOKB nT nR ord = true) (hgen : generate G nT ord = some (T, cert))
    (hfree : conflictFree G nT ord = true) (hsmall : cert.size ≤ 2147483647)
    (hp : productiveB G nR = true) {w : List Nat} {c : Abs.Config}
    (h : Abs.Reaches G (autoOf T cert) (Abs.init w) c) :
    ∃ u, w = u ++ c.input ∧ ∃ v t, Der G [.n (startSym G)] (u ++ v) [t] := by
  have hck := checkB_spec (check_ok_iff.mp (generator_valid hwf hord hgen hfree hsmall))
  have hjo := generator_justified hwf hord hgen hfree hsmall
  exact Abs.correct_prefix (closed_of_checkOK hck) (safe_of_checkOK hck) hjo.justd hjo.edges
    (productiveB_sound hp) h

/-- **generator_abs_error_detection.** Immediate error detection, both halves: the machine fails in
`c`; then `w = u ++ c.input`, `u` IS a prefix of a sentence, and `u` followed by the offending
token (the lookahead of `c`, never shifted) is NOT a prefix of any sentence followed by EOF. -/
theorem generator_abs_error_detection (hwf : wfGrammarB G nT nR = true)
    (hord : ordOKB nT nR ord = true) (hgen : generate G nT ord = some (T, cert))
    (hfree : conflictFree G nT ord = true) (hsmall : cert.size ≤ 2147483647)
    (hp : productiveB G nR = true) {w : List Nat} {c : Abs.Config}
    (h : Abs.Reaches G (autoOf T cert) (Abs.init w) c)
    (hfail : Abs.step G (autoOf T cert) c = .fail) :
    ∃ u, w = u ++ c.input ∧ (∃ v t, Der G [.n (startSym G)] (u ++ v) [t]) ∧
      ∀ w' t, Der G [.n (startSym G)] w' [t] → ¬ (u ++ [Abs.la c.input]) <+: (w' ++ [eof]) := by
  have hc := generator_valid hwf hord hgen hfree hsmall
  obtain ⟨u, hu, hvia⟩ := generator_abs_correct_prefix hwf hord hgen hfree hsmall hp h
  obtain ⟨u', hu', hneg⟩ :=
    Abs.error_not_prefix (check_sound hc).1 (check_sound hc).2.2 (check_sound hc).2.1 h hfail
  have : u' = u := List.append_cancel_right (hu'.symm.trans hu)
  subst this
  exact ⟨u', hu, hvia, hneg⟩

end ConflictFree

/-! ## `recoveryOKB` is not derived: the grammar on which the pinned `_recover()` never returned

`@start s = b @error C; b = a; a = @empty` (terminals EOF=0 ERROR=1 C=2 X=3; rules S'=0 s=1 b=2
a=3; productions 0 `S' → s`, 1 `s → b ERROR C`, 2 `b → a`, 3 `a → ε`; name order
`C EOF ERROR S' X a b s`). lox accepts it without a conflict. State 0 has ONE action: reduce
`a → ε` on ERROR. Whatever the first token is (unless it is a lexer ERROR token), state 0 has no
action on it and `parse` calls `_recover()`. The inner loop of `_recover` follows reductions on
ERROR WITHOUT popping. On the pinned tree it ignored the `ok` of `_Find(_goto, state, rule)` and ran
`0 —(a → ε, goto(0,a) = 1)→ 1 —(b → a, goto(1,b) MISSING: 0)→ 0 → …` forever: the real generated
parser did not return on "", "c", "x", "c c", "x c" (defect D30, found while trying to derive
`recoveryOKB`; witness corpus/C09/D30_recover_goto_miss.json). The repaired template leaves the
simulation when the goto entry is missing (`fix:` commit 3abd5ce in /repo); model and theorems below
are about the repaired code. `hangT` is, number for number, what lox writes into `parser.gen.go`
for this grammar. `recoveryOKB` stays a per-artefact check: a cycle of simulated reductions whose
gotos all exist is not excluded by any theorem here. -/

def hangG : Grammar := ⟨#[⟨0, [.n 1]⟩, ⟨1, [.n 2, .t 1, .t 2]⟩, ⟨2, [.n 3]⟩, ⟨3, []⟩]⟩

def hangOrd : List Sym := [.t 2, .t 0, .t 1, .n 0, .t 3, .n 3, .n 2, .n 1]

/-- The arrays of the real `parser.gen.go`. -/
def hangT : Tables :=
  { rules := #[0, 1, 2, 3], termCounts := #[1, 3, 1, 0],
    actions := #[6, 9, 12, 15, 18, 21, 2, 1, -3, 2, 1, -2, 2, 1, 4, 2, 0, 2147483647, 2, 2, 5, 2,
      0, -1],
    gotos := #[6, 13, 13, 13, 13, 13, 6, 3, 1, 2, 2, 1, 3, 0] }

/-- The model of the generator emits exactly these arrays (6 states). -/
theorem hang_generate : (generate hangG 4 hangOrd).map (fun r =>
      (r.1.rules.toList, r.1.termCounts.toList, r.1.actions.toList, r.1.gotos.toList, r.2.size)) =
    some (hangT.rules.toList, hangT.termCounts.toList, hangT.actions.toList, hangT.gotos.toList, 6) := by
  decide +kernel

theorem hang_tables {T : Tables} {cert : Array (List Item)}
    (h : generate hangG 4 hangOrd = some (T, cert)) : T = hangT ∧ cert.size = 6 := by
  have hg := hang_generate
  rw [h] at hg
  simp only [Option.map_some, Option.some.injEq, Prod.mk.injEq] at hg
  obtain ⟨h1, h2, h3, h4, h5⟩ := hg
  refine ⟨?_, h5⟩
  cases T
  simp only [hangT, Tables.mk.injEq]
  exact ⟨Array.toList_inj.mp h1, Array.toList_inj.mp h2, Array.toList_inj.mp h3,
    Array.toList_inj.mp h4⟩

/-- On the repaired template the missing goto entry ends the simulation: from state 0 the chain is
`0 —(a → ε)→ 1 —(b → a, goto(1,b) missing)→ stop`, the ranking check passes … -/
theorem hang_repaired_recoveryOK : recoveryOKB hangT 6 = true := by decide +kernel

/-- … and `parse` returns (`reject`: nothing can be recovered at the only stack depth) on the inputs
on which the pinned parser did not return: `c`, `x`, `c c`, the empty input. -/
theorem hang_repaired_parse :
    (parse hangT #[2] false 200).1 = .reject ∧ (parse hangT #[3] false 200).1 = .reject ∧
    (parse hangT #[2, 2] true 200).1 = .reject ∧ (parse hangT #[] false 200).1 = .reject := by
  decide +kernel

/-- All hypotheses of `generator_parse_terminates_partial` now hold on this grammar. -/
theorem hang_hyps : wfGrammarB hangG 4 4 = true ∧ ordOKB 4 4 hangOrd = true ∧
    conflictFree hangG 4 hangOrd = true ∧ productiveB hangG 4 = true ∧
    (generate hangG 4 hangOrd).map (fun r => (termB hangG r.1 r.2, recoveryOKB r.1 r.2.size)) =
      some (true, true) := by
  refine ⟨by decide, by decide, by decide +kernel, by decide, by decide +kernel⟩

/-! ## The Boolean `noShiftEOFB` is not derivable either

`S' → S; S → a U | b c` where the rule `U` has NO production (well formed in the sense of
`wfGrammarB`, conflict-free; the real front end rejects an undefined rule, and `productiveB` is
false). The state after `a` has no action, its `_actions` row is empty (count 0), and an index
that is not a state, read as a row offset, leads `findAll` across that empty row: it sees the
count `0` as the key EOF and the count of the next row as a non-negative "shift". -/

def noEofG : Grammar := ⟨#[⟨0, [.n 1]⟩, ⟨1, [.t 2, .n 2]⟩, ⟨1, [.t 3, .t 4]⟩]⟩

def noEofOrd : List Sym := [.t 0, .t 1, .t 2, .t 3, .t 4, .n 0, .n 1, .n 2]

theorem noShiftEOFB_false : wfGrammarB noEofG 5 3 = true ∧ ordOKB 5 3 noEofOrd = true ∧
    conflictFree noEofG 5 noEofOrd = true ∧
    (generate noEofG 5 noEofOrd).map (fun r => (noShiftEOFB r.1, acceptOnlyEOFB r.1)) =
      some (false, true) := by
  refine ⟨by decide, by decide, by decide +kernel, by decide +kernel⟩

/-- … while `generator_noShiftEOF` applies to it: none of its 6 STATES shifts EOF. -/
example : ∃ T cert, generate noEofG 5 noEofOrd = some (T, cert) ∧
    ∀ st, st < cert.size → ∀ v, find T.actions (st : Int) tEOF = .hit v → v = acceptCode ∨ v < 0 := by
  obtain ⟨hwf, hord, hfree, _⟩ := noShiftEOFB_false
  obtain ⟨T, cert, hgen⟩ := generator_total hfree
  have hsz : (generate noEofG 5 noEofOrd).map (fun r => r.2.size) = some 6 := by decide +kernel
  rw [hgen] at hsz
  simp only [Option.map_some, Option.some.injEq] at hsz
  exact ⟨T, cert, hgen, fun st hst v hf =>
    generator_noShiftEOF (nR := 3) hwf hord hgen (by omega) hst hf⟩

/-- Deciding `¬ TermUsed G a` (for the non-vacuity example below). -/
theorem not_termUsed_of_all {G : Grammar} {a : Nat}
    (h : (G.prods.toList.all fun pr => !pr.rhs.contains (.t a)) = true) : ¬ TermUsed G a := by
  rintro ⟨q, qr, hq, hm⟩
  have := List.all_eq_true.mp h qr (by rw [Array.mem_toList_iff]; exact Array.mem_of_getElem? hq)
  simp only [Bool.not_eq_true', List.contains_eq_mem, decide_eq_false_iff_not] at this
  exact this hm

/-- Non-vacuity of `generator_recoveryOK_errorFree` / `generator_parse_terminates_errorFree_partial`:
the grammar of defect D1 (`Lox.Props.C01.gD1`, no `@error`, 10 states) meets every hypothesis
(`termB` by evaluation), hence its generated parser decides every input. -/
example : ∃ T cert, generate Lox.Props.C01.gD1 7 Lox.Props.C01.e2eOrd = some (T, cert) ∧
    recoveryOKB T cert.size = true ∧
    ∀ inp wb, ∃ N, ∀ fuel, N ≤ fuel →
      (parse T inp wb fuel).1 = .accept ∨ (parse T inp wb fuel).1 = .reject := by
  have hfree : conflictFree Lox.Props.C01.gD1 7 Lox.Props.C01.e2eOrd = true := by decide +kernel
  obtain ⟨T, cert, hgen⟩ := generator_total hfree
  have hchk : (generate Lox.Props.C01.gD1 7 Lox.Props.C01.e2eOrd).map (fun r =>
      (r.2.size, termB Lox.Props.C01.gD1 r.1 r.2)) = some (10, true) := by decide +kernel
  rw [hgen] at hchk
  simp only [Option.map_some, Option.some.injEq, Prod.mk.injEq] at hchk
  have hno : ¬ TermUsed Lox.Props.C01.gD1 1 := not_termUsed_of_all (by decide)
  have hgenP : generateP noPrec Lox.Props.C01.gD1 7 Lox.Props.C01.e2eOrd = some (T, cert) := hgen
  exact ⟨T, cert, hgen, generator_recoveryOK_errorFree (nR := 5) (by decide) (by decide) hgenP hno,
    fun inp wb => generator_parse_terminates_errorFree_partial (nR := 5) (by decide) (by decide) hgenP
      (by omega) hno hchk.2 inp wb⟩

/-! ## Non-vacuity: a grammar with an `@error` production, and an input that recovers

The curated `s = item* ; item = A SEMI | @error SEMI` (`Lox.Props.C01.exErr`) after desugaring:
terminals EOF=0 ERROR=1 A=2 SEMI=3, rules `S' s item item* item+`, 8 productions, 10 states. All
hypotheses of every theorem above hold by evaluation; the consequences for the input `A ; ;`
(tokens `2 3 3`: the second `;` stands where `A` or `@error` must start) are obtained THROUGH the
theorems. -/

open Lox.Props.C01 (exErr exErrOrd exErr_free) in
/-- The hypotheses: well formed, name order, conflict-free, productive, `termB`, `recoveryOKB`,
10 states. -/
theorem e2e_hyps : wfGrammarB (desugar exErr).1 exErr.nTerms exErr.nRules = true ∧
    ordOKB exErr.nTerms exErr.nRules exErrOrd = true ∧
    productiveB (desugar exErr).1 exErr.nRules = true ∧
    (generate (desugar exErr).1 exErr.nTerms exErrOrd).map (fun r =>
      (r.2.size, termB (desugar exErr).1 r.1 r.2, recoveryOKB r.1 r.2.size)) =
      some (10, true, true) := by
  refine ⟨by decide, by decide, by decide, by decide +kernel⟩

/-- The first recovery of a run, found by evaluation: the state `s` from which the loop calls
`_recover()` for the first time (after plain iterations only) and the state `s'` it returns. -/
def firstRecover (T : Tables) (inp : Array Nat) (wb : Bool) (fuel : Nat) :
    Nat → PState → Option (PState × PState)
  | 0, _ => none
  | k + 1, s =>
    match step T inp wb fuel s with
    | .cont s' => if isRecoverStep T s then some (s, s') else firstRecover T inp wb fuel k s'
    | .done _ _ => none

theorem firstRecover_spec {T : Tables} {inp : Array Nat} {wb : Bool} {fuel : Nat} :
    ∀ (k : Nat) {s1 s s' : PState}, firstRecover T inp wb fuel k s1 = some (s, s') →
      PlainReach T inp wb fuel s1 s ∧ isRecoverStep T s = true ∧ step T inp wb fuel s = .cont s'
  | 0, _, _, _, h => by simp [firstRecover] at h
  | k + 1, s1, s, s', h => by
    unfold firstRecover at h
    cases hst : step T inp wb fuel s1 with
    | done o sf => simp [hst] at h
    | cont s2 =>
      simp only [hst] at h
      cases hr : isRecoverStep T s1 with
      | true =>
        simp only [hr, if_true, Option.some.injEq, Prod.mk.injEq] at h
        obtain ⟨rfl, rfl⟩ := h
        exact ⟨.refl _, hr, hst⟩
      | false =>
        simp only [hr, Bool.false_eq_true, if_false] at h
        obtain ⟨h1, h2, h3⟩ := firstRecover_spec k h
        exact ⟨.step hr hst h1, h2, h3⟩

open Lox.Props.C01 (exErr exErrOrd exErr_free) in
/-- What evaluation gives for `A ; ;`: the run accepts after exactly one recovery (with bounds),
and the first recovery happens with token number 2 as lookahead. -/
theorem e2e_run : (generate (desugar exErr).1 exErr.nTerms exErrOrd).map (fun r =>
      ((parseG r.1 #[2, 3, 3] true 60).1, (parseG r.1 #[2, 3, 3] true 60).2.2,
       (match readToken r.1 #[2, 3, 3] Rt.initState with
        | .ok s1 => (firstRecover r.1 #[2, 3, 3] true 60 60 s1).map (fun p => lidx p.1.lasym)
        | .error _ => none))) = some (.accept, 1, some 2) := by
  decide +kernel

open Lox.Props.C01 (exErr exErrOrd exErr_free) in
/-- **All hypotheses hold on a concrete grammar with an `@error` production, and the consequences
are derived through the theorems** for the input `A ; ;` that recovers: no panic for any input;
at most `2·3+1` recoveries; the run accepted, so an `Error` was delivered to an action
(`generator_error_delivered`) and the consumed symbols form a sentence in which a stretch is
replaced by `@error` (`generator_accepted_edit_is_sentence`); `parse` terminates on every input
(`generator_parse_total_partial`); and the first `Error` blames token 2: `A ;` is a prefix of a
sentence, and no sentence starts with `A ; ;` (`generator_first_error_token`). -/
example : ∃ T cert, generate (desugar exErr).1 exErr.nTerms exErrOrd = some (T, cert) ∧
    (∀ inp wb fuel w, (parse T inp wb fuel).1 ≠ .panic w) ∧
    (parseG T #[2, 3, 3] true 60).2.2 ≤ 7 ∧
    Delivered (parseG T #[2, 3, 3] true 60).2.1.log ∧
    (∃ v, Der (desugar exErr).1 [.n (startSym (desugar exErr).1)] (wordOf v) [v.toTree] ∧
      stackLeaves (parse T #[2, 3, 3] true 60).2.stack = leaves v) ∧
    (∀ inp wb, ∃ N, ∀ fuel, N ≤ fuel →
      (parse T inp wb fuel).1 = .accept ∨ (parse T inp wb fuel).1 = .reject) ∧
    (∃ v t, Der (desugar exErr).1 [.n (startSym (desugar exErr).1)] ([2, 3] ++ v) [t]) ∧
    (∀ w t, Der (desugar exErr).1 [.n (startSym (desugar exErr).1)] w [t] →
      ¬ ∀ i, i ≤ 2 → (#[2, 3, 3] : Array Nat)[i]? = w.toArray[i]?) := by
  obtain ⟨hwf, hord, hprod, hchk⟩ := e2e_hyps
  have hfree := exErr_free
  obtain ⟨T, cert, hgen⟩ := generator_total hfree
  have hrun := e2e_run
  rw [hgen] at hchk hrun
  simp only [Option.map_some, Option.some.injEq, Prod.mk.injEq] at hchk hrun
  obtain ⟨hsz, hterm, hrecok⟩ := hchk
  obtain ⟨hacc, hcnt, hfirst⟩ := hrun
  have hsmall : cert.size ≤ 2147483647 := by omega
  have hgenP : generateP noPrec (desugar exErr).1 exErr.nTerms exErrOrd = some (T, cert) := hgen
  -- the accepting run
  have hacc' : (parse T #[2, 3, 3] true 60).1 = .accept := by
    rw [← hacc]; exact (congrArg Prod.fst (ghost_erases T #[2, 3, 3] true 60)).symm
  obtain ⟨-, st0, v, b, bot, hstack, -, hleaves, hder, -⟩ :=
    generator_accepted_edit_is_sentence hwf hord hgenP hsmall hacc'
  -- the first recovery
  cases h1 : readToken T #[2, 3, 3] Rt.initState with
  | error w => rw [h1] at hfirst; cases hfirst
  | ok s1 =>
    rw [h1] at hfirst
    simp only at hfirst
    cases hfr : firstRecover T #[2, 3, 3] true 60 60 s1 with
    | none => rw [hfr] at hfirst; cases hfirst
    | some p =>
      obtain ⟨s, s'⟩ := p
      rw [hfr] at hfirst
      simp only [Option.map_some, Option.some.injEq] at hfirst
      obtain ⟨hreach, hrec, hstep⟩ := firstRecover_spec 60 hfr
      have hinp : ∀ i : Nat, (#[2, 3, 3] : Array Nat)[i]? ≠ some 1 := by
        intro i
        match i with
        | 0 | 1 | 2 => simp
        | i + 3 => simp
      obtain ⟨-, hvia, hneg⟩ := generator_first_error_token hwf hord hgen hfree hsmall hprod hinp h1
        hreach hrec hstep
      rw [hfirst] at hvia hneg
      exact ⟨T, cert, hgen, fun inp wb fuel => generator_parse_no_panic hwf hord hgenP hsmall inp wb fuel,
        generator_recoveries_bounded hwf hord hgenP hsmall _ _ _,
        generator_error_delivered hwf hord hgenP hsmall hacc (by omega),
        ⟨v, hder, hleaves⟩,
        fun inp wb => generator_parse_total_partial hwf hord hgenP hsmall hterm hrecok inp wb,
        by simpa using hvia, hneg⟩

/-- `generator_sentence_never_recovers` and `generator_lookaheads_exact` on the same grammar: the
sentence `A ;` never calls `_recover()`, and state 0 holds `[item → ·@error SEMI, A]` as an LALR(1)
item by definition. -/
example : ∃ T cert, generate (desugar Lox.Props.C01.exErr).1 Lox.Props.C01.exErr.nTerms
      Lox.Props.C01.exErrOrd = some (T, cert) ∧
    (∀ wb fuel s, ParseReach T #[2, 3] wb fuel s → isRecoverStep T s = false) := by
  obtain ⟨hwf, hord, _, hchk⟩ := e2e_hyps
  have hfree := Lox.Props.C01.exErr_free
  obtain ⟨T, cert, hgen⟩ := generator_total hfree
  rw [hgen] at hchk
  simp only [Option.map_some, Option.some.injEq, Prod.mk.injEq] at hchk
  have hsmall : cert.size ≤ 2147483647 := by omega
  refine ⟨T, cert, hgen, fun wb fuel s hr => ?_⟩
  -- `A ;` is a sentence: s → item* → item+ → item → A SEMI
  have hs : startSym (desugar Lox.Props.C01.exErr).1 = 1 := by decide
  have h2 : Der (desugar Lox.Props.C01.exErr).1 [.n 2] [2, 3] [.node 2 [.leaf 2, .leaf 3]] := by
    simpa using Der.nonterm (G := (desugar Lox.Props.C01.exErr).1) (q := 2)
      (pr := ⟨2, [.t 2, .t 3]⟩) (by decide) (.term (.term .nil)) .nil
  have h7 : Der (desugar Lox.Props.C01.exErr).1 [.n 4] [2, 3]
      [.node 7 [.node 2 [.leaf 2, .leaf 3]]] := by
    simpa using Der.nonterm (G := (desugar Lox.Props.C01.exErr).1) (q := 7) (pr := ⟨4, [.n 2]⟩)
      (by decide) h2 .nil
  have h4 : Der (desugar Lox.Props.C01.exErr).1 [.n 3] [2, 3]
      [.node 4 [.node 7 [.node 2 [.leaf 2, .leaf 3]]]] := by
    simpa using Der.nonterm (G := (desugar Lox.Props.C01.exErr).1) (q := 4) (pr := ⟨3, [.n 4]⟩)
      (by decide) h7 .nil
  have h1 : Der (desugar Lox.Props.C01.exErr).1 [.n 1] [2, 3]
      [.node 1 [.node 4 [.node 7 [.node 2 [.leaf 2, .leaf 3]]]]] := by
    simpa using Der.nonterm (G := (desugar Lox.Props.C01.exErr).1) (q := 1) (pr := ⟨1, [.n 3]⟩)
      (by decide) h4 .nil
  rw [← hs] at h1
  exact generator_sentence_never_recovers hwf hord hgen hfree hsmall h1 (w := [2, 3]) hr

end Lox.Props.C09
