import Lox.Props.C01
/-! # C03 — actions run bottom-up, once per node of the unique derivation tree

`Lox.LR.Tree.post t` lists the production nodes of `t` children-before-parent, left to right; each
entry `(p, kids)` carries the children subtrees in production order. The machine logs `(p, kids)`
at every reduction (`kids` = the values popped, bottom-most first = what `_act(p)` reads with
`Peek(n-i-1)`), so "log = post-order" says: every user/synthesised action is called exactly once
per node, after all actions of its subtrees, with the subtrees' results as arguments in production
order. -/
namespace Lox.Props.C03
open Lox.LR Lox.LR.Abs

variable {G : Grammar} {A : Auto} {first : List Sym → Nat → List Nat}

/-- The reductions of any accepting run are the post-order of the tree it returns, which is the
unique derivation tree of the input. -/
theorem actions_postorder (hv : Valid G A first) (hs : Safe G A) (hf : FirstOK G first)
    {w : List Nat} (hw : eof ∉ w) {fuel : Nat} {t : Tree} {lg : List (Nat × List Tree)}
    (h : run G A fuel (init w) = .acc t lg) :
    lg = t.post ∧ Der G [.n (startSym G)] w [t] ∧
      ∀ t', Der G [.n (startSym G)] w [t'] → t' = t := by
  have hd := sound_run hs hw h
  obtain ⟨n, r⟩ := complete_run hv hf hd
  have := run_det h r (by simp) (by simp)
  simp at this
  exact ⟨this, hd, fun t' hd' => C01.unambiguous hv hf hd' hd⟩

/-- Every entry of the log is a node of the returned tree with exactly its children: the log is
`t.post`, and `t.post` lists `(p, kids)` for each subterm `node p kids` (by definition of
`Tree.post`); in particular the last reduction builds the root. -/
theorem last_action_is_root (hv : Valid G A first) (hs : Safe G A) (hf : FirstOK G first)
    {w : List Nat} (hw : eof ∉ w) {fuel : Nat} {p : Nat} {kids : List Tree}
    {lg : List (Nat × List Tree)} (h : run G A fuel (init w) = .acc (.node p kids) lg) :
    lg = postList kids ++ [(p, kids)] := by
  have := (actions_postorder hv hs hf hw h).1
  simpa [Tree.post] using this

/-- The post-order property needs only the soundness conditions: it is an invariant of the machine
(log = post-order of the values on the stack). So it also holds for precedence-resolved tables. -/
theorem actions_postorder_safe (hs : Safe G A) {w : List Nat} {fuel : Nat} {t : Tree}
    {lg : List (Nat × List Tree)} (h : run G A fuel (init w) = .acc t lg) : lg = t.post :=
  sound_log hs h

variable {nTerms nRules : Nat} {T : Tables} {cert : Array (List Item)}

/-- **C03 for a validated artefact.** -/
theorem tables_actions_postorder (hc : check G nTerms nRules T cert = .ok ()) {w : List Nat}
    (hw : eof ∉ w) {fuel : Nat} {t : Tree} {lg : List (Nat × List Tree)}
    (h : run G (autoOf T cert) fuel (init w) = .acc t lg) :
    lg = t.post ∧ Der G [.n (startSym G)] w [t] ∧
      ∀ t', Der G [.n (startSym G)] w [t'] → t' = t :=
  let ⟨hv, hs, hf⟩ := check_sound hc
  actions_postorder hv hs hf hw h

/-- **C03 for the model of the generated `parse`** (`Lox.LR.parse`): whenever it accepts (tables
without ERROR actions), the `_act` calls it performed – production and argument values, oldest
first – are exactly the post-order of the unique derivation tree of the input. -/
theorem parse_actions_postorder (hc : check G nTerms nRules T cert = .ok ())
    (hne : NoErrorActions T cert.size) {w : List Nat} (hw0 : eof ∉ w) (hw : ∀ x ∈ w, x ≠ 1)
    (wb : Bool) (fuel : Nat) (hacc : (parse T w.toArray wb fuel).1 = .accept) :
    ∃ t, Der G [.n (startSym G)] w [t] ∧ (∀ t', Der G [.n (startSym G)] w [t'] → t' = t) ∧
      (actsOf (parse T w.toArray wb fuel).2.log).reverse = t.post := by
  obtain ⟨t, hd, hlog, _⟩ := C01.parse_sound hc hne hw0 hw wb fuel hacc
  exact ⟨t, hd, fun t' hd' => C01.tables_unambiguous hc hd' hd, hlog⟩

/-- For sentences of ANY validated grammar (with or without `@error`) the generated parser performs
exactly the post-order actions of the derivation tree. -/
theorem parse_actions_of_sentence (hc : check G nTerms nRules T cert = .ok ()) {w : List Nat}
    (hw : ∀ x ∈ w, x ≠ 1) {t : Tree} (hd : Der G [.n (startSym G)] w [t]) (wb : Bool) :
    ∃ n, ∀ fuel, n ≤ fuel → (parse T w.toArray wb fuel).1 = .accept ∧
      (actsOf (parse T w.toArray wb fuel).2.log).reverse = t.post := by
  obtain ⟨n, hn⟩ := C01.parse_complete hc hw hd wb
  exact ⟨n, fun fuel hf => ⟨(hn fuel hf).1, (hn fuel hf).2.1⟩⟩

/-- Non-vacuity: on the example tables the run on `a a b` logs three reductions, innermost first. -/
example : run Example.G (autoOf Example.T Example.cert) 10 (init [2, 2, 3]) =
    .acc Example.tree
      [(2, [.leaf 3]), (1, [.leaf 2, .node 2 [.leaf 3]]),
       (1, [.leaf 2, .node 1 [.leaf 2, .node 2 [.leaf 3]]])] := by rfl

end Lox.Props.C03
