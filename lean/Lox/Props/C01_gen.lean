import Lox.LR.GenModelProofsClosure
/-! # C01, generator side — the generator's own FIRST / Closure / Goto lose nothing

C01 (the generated parser accepts exactly L(G)) is decided per emitted artefact by the validator
(`Lox/Props/C01.lean`). The theorems here are about the GENERATOR's code that produces those
artefacts, mirrored by `Lox/LR/GenModel.lean` (tie: family `genmodel`, ops `lr.first`,
`lr.closure`, `lr.goto`, … against the real `lr1.First`, `lr1.Closure`, `lr1.Goto`): for ALL
grammars the model's FIRST contains every terminal that can stand first (a lost terminal was the
defect that started this project: `firstSets`' predecessor visited a nullable rule only once), and
the fixpoint loop stops within its fuel.

Specification: `Lox.LR.Gen.Derives` (sentential forms), `SFirst`, `SNull`, `Lox.LR.Der`.
The soundness direction ("nothing invented") is in `Lox/Props/C04_gen.lean`. -/
namespace Lox.Props.C01
open Lox.LR Lox.LR.Gen

/-- **FIRST is complete** (textbook reading): if `α ⇒* b β` then `b` is in the model's
`First(g, α)`, and if `α ⇒* ε` then ε is in it. All grammars: left recursion, nullable rules
reached any number of times, unreachable and unproductive rules. `TermsBelow G nT` only says that
`nT` really is the number of terminals (it sizes the fuel). -/
theorem first_complete {G : Grammar} {nT : Nat} (ht : TermsBelow G nT) (α : List Sym) :
    (∀ b, SFirst G α b → b ∈ (firstOfSyms G nT α).1) ∧
      (SNull G α → (firstOfSyms G nT α).2 = true) :=
  ⟨fun b h => ((firstSets_exact ht α).1 b).mpr h, (firstSets_exact ht α).2.mpr⟩

/-- **FIRST is complete w.r.t. complete derivations** (`Der`, the relation C01 is stated with):
the first token of every string derived from `α` is in `First(g, α)`; if `α` derives the empty
string, ε is in it. -/
theorem first_complete_der {G : Grammar} {nT : Nat} (ht : TermsBelow G nT) {α : List Sym}
    {w : List Nat} {ts : List Tree} (hd : Der G α w ts) :
    (∀ b w', w = b :: w' → b ∈ (firstOfSyms G nT α).1) ∧
      (w = [] → (firstOfSyms G nT α).2 = true) := by
  have hder := Der.derives hd
  constructor
  · rintro b w' rfl
    exact (first_complete ht α).1 b ⟨w'.map Sym.t, by simpa using hder⟩
  · rintro rfl
    exact (first_complete ht α).2 (by simpa [SNull] using hder)

/-- The same without any hypothesis: take `termBound G` for the number of terminals. -/
theorem first_complete_all (G : Grammar) (α : List Sym) :
    (∀ b, SFirst G α b → b ∈ (firstOfSyms G (termBound G) α).1) ∧
      (SNull G α → (firstOfSyms G (termBound G) α).2 = true) :=
  first_complete (termBound_spec G) α

/-- **Corollary: the model's FIRST(β a) satisfies `FirstOK`** – the condition that the
completeness theorem of the LR machine (`Lox.Props.C01.complete`) asks of the FIRST function used in the
closure condition. -/
theorem firstOK_of_model {G : Grammar} {nT : Nat} (ht : TermsBelow G nT) :
    FirstOK G (firstLA (firstSets G nT)) := by
  constructor
  intro α w ts a hd
  have h := first_complete_der ht hd
  rw [mem_firstLA]
  cases w with
  | nil => exact Or.inr ⟨h.2 rfl, rfl⟩
  | cons b w' => exact Or.inl (h.1 b w' rfl)

/-- **The fixpoint loop of `firstSets` stabilises within its fuel**
`#rules × (#terminals + 1) + 1`: the loop exits by itself (`firstConverged`), and one more pass
over all productions changes nothing. -/
theorem first_terminates {G : Grammar} {nT : Nat} (ht : TermsBelow G nT) :
    firstConverged G nT = true ∧ round G (firstSets G nT) = (firstSets G nT, false) := by
  have hc := iter_converges ht
  refine ⟨hc, ?_⟩
  have hcl := firstSets_closed ht
  -- a closed table is left unchanged by a pass
  have hsz : (firstSets G nT).size = numRules G := by
    unfold firstSets; rw [size_iter]; simp [firstInit]
  have hwf := firstSets_wf ht
  have key : ∀ pr ∈ G.prods.toList, stepProd (firstSets G nT) pr = (firstSets G nT, false) := by
    intro pr hpr
    have hlt : pr.lhs < (firstSets G nT).size := by rw [hsz]; exact lt_numRules hpr
    have h := hcl pr hpr
    have hu : union (tget (firstSets G nT) pr.lhs).1 (firstSeq (firstSets G nT) pr.rhs).1 =
        (tget (firstSets G nT) pr.lhs).1 := by
      obtain ⟨e, he⟩ := union_prefix (tget (firstSets G nT) pr.lhs).1
        (firstSeq (firstSets G nT) pr.rhs).1
      have hn := nodup_union (r := (firstSeq (firstSets G nT) pr.rhs).1) (hwf pr.lhs).1
      rw [he] at hn ⊢
      cases e with
      | nil => simp
      | cons x e =>
        exfalso
        have hx : x ∈ union (tget (firstSets G nT) pr.lhs).1 (firstSeq (firstSets G nT) pr.rhs).1 := by
          rw [he]; simp
        have hx' : x ∈ (tget (firstSets G nT) pr.lhs).1 := by
          rcases mem_union.mp hx with h' | h'
          · exact h'
          · exact h.1 x h'
        rw [List.nodup_append] at hn
        exact hn.2.2 x hx' x (by simp) rfl
    have hb : ((tget (firstSets G nT) pr.lhs).2 || (firstSeq (firstSets G nT) pr.rhs).2) =
        (tget (firstSets G nT) pr.lhs).2 := by
      cases he : (firstSeq (firstSets G nT) pr.rhs).2
      · simp
      · simp [h.2 he]
    unfold stepProd
    rw [if_pos hlt]
    simp only [hu, hb]
    rw [setIfInBounds_self _ _ hlt]
    simp
  unfold round
  have fold : ∀ (L : List Prod), (∀ pr ∈ L, pr ∈ G.prods.toList) →
      L.foldl (fun st pr => ((stepProd st.1 pr).1, st.2 || (stepProd st.1 pr).2))
        (firstSets G nT, false) = (firstSets G nT, false) := by
    intro L
    induction L with
    | nil => intro _; rfl
    | cons p L ih =>
      intro hL
      simp only [List.foldl_cons]
      rw [key p (hL p (by simp))]
      exact ih (fun q hq => hL q (by simp [hq]))
  exact fold _ (fun _ h => h)

/-- The result does not depend on the fuel once it suffices: any larger terminal count gives the
same table. -/
theorem first_fuel_irrelevant {G : Grammar} {nT nT' : Nat} (ht : TermsBelow G nT) (h : nT ≤ nT') :
    firstSets G nT' = firstSets G nT := by
  unfold firstSets
  rw [iter_mono (firstFuel G nT) (firstFuel G nT') _ (iter_converges ht)]
  unfold firstFuel
  exact Nat.add_le_add_right (Nat.mul_le_mul_left _ (by omega)) 1

/-! ### Non-vacuity: the grammar of defect D1 (`s = tt r; tt = T; r = oo X | oo Y Z; oo = O | ε`)

Terminals: 0 EOF, 1 ERROR, 2 T, 3 X, 4 Y, 5 Z, 6 O; rules: 0 S', 1 s, 2 tt, 3 r, 4 oo. -/

def gD1 : Grammar := ⟨#[⟨0, [.n 1]⟩, ⟨1, [.n 2, .n 3]⟩, ⟨2, [.t 2]⟩, ⟨3, [.n 4, .t 3]⟩,
  ⟨3, [.n 4, .t 4, .t 5]⟩, ⟨4, [.t 6]⟩, ⟨4, []⟩]⟩

example : TermsBelow gD1 7 := termsBelowB_iff.mp (by decide)

/-- `FIRST(r) = {O, X, Y}`: the nullable `oo` is reached twice and `Y` is not lost (the defective
`first` returned `{O, X}`). -/
example : firstOfSyms gD1 7 [.n 3] = ([6, 3, 4], false) := by decide

/-- `r ⇒ oo Y Z ⇒ Y Z`: a derivation that `first_complete` turns into `Y ∈ FIRST(r)`. -/
example : SFirst gD1 [.n 3] 4 :=
  ⟨[.t 5], .step (Step.mk (G := gD1) (q := 4) [] [] rfl)
    (.step (Step.mk (G := gD1) (q := 6) [] [.t 4, .t 5] rfl) (.refl _))⟩

/-- A complete derivation `r ⇒* Y Z` (hypothesis of `first_complete_der`). -/
example : Der gD1 [.n 3] [4, 5] [.node 4 [.node 6 [], .leaf 4, .leaf 5]] := by
  have h1 : Der gD1 [.n 4, .t 4, .t 5] ([] ++ [4, 5]) [.node 6 [], .leaf 4, .leaf 5] :=
    Der.nonterm (q := 6) (pr := ⟨4, []⟩) rfl .nil (.term (.term .nil))
  simpa using Der.nonterm (q := 4) (pr := ⟨3, [.n 4, .t 4, .t 5]⟩) rfl h1 .nil

/-! ## Closure and Goto: nothing required is missing -/

/-- **`Closure` terminates within its fuel** `#prods × #terminals + 2` passes, for every grammar
and every item list whose lookaheads are terminals. -/
theorem closure_terminates {G : Grammar} {nT : Nat} (ht : TermsBelow G nT) {I : List Item}
    (hI : ∀ it ∈ I, it.a < nT) : ∃ C, closure? G nT I = some C := by
  unfold closure? closureWith closureFuel
  obtain ⟨h1, _, h3, _⟩ := foldl_addNew I [] []
  have inv := loopInv_init G (firstSets G nT) I
  refine closureLoop_isSome ht (firstSets_wf ht) (R0 := (I.foldl addNew ([], [])).1) _ ?_ inv.pend
    (by omega)
  refine ⟨h3 (by simp), ?_, fun x hx => Or.inl hx⟩
  intro x hx
  rcases (h1 x).mp hx with h | h
  · simp at h
  · exact hI x h

/-- **`Closure` contains its argument and is closed under the LR(1) closure rule taken with the
SEMANTIC first sets**: for `[A → α·Bβ, a]` in the result, every production `q` of `B` and every
terminal `b` with `β a ⇒* b …`, the item `[q, 0, b]` is in the result. (A lookahead lost here is
how the FIRST defect made valid sentences be rejected.) -/
theorem closure_complete {G : Grammar} {nT : Nat} (ht : TermsBelow G nT) {I C : List Item}
    (h : closure? G nT I = some C) : (∀ x ∈ I, x ∈ C) ∧ ClosedSet G C := by
  have spec := closureLoop_spec (exactTab_firstSets ht) _ (loopInv_init G (firstSets G nT) I) h
  exact ⟨fun x hx => (spec x).mpr (.base hx),
    fun it hit new hr => (spec new).mpr (.step ((spec it).mp hit) hr)⟩

/-- **`Goto(I, X)` is the closure of the items of `I` advanced over `X`** (by definition of the
model, which mirrors `goto.go`), hence contains every advanced item and is closed. -/
theorem goto_complete {G : Grammar} {nT : Nat} (ht : TermsBelow G nT) {I C : List Item} {X : Sym}
    (h : goto? G nT I X = some C) :
    (∀ it ∈ I, afterDot G it = some X → (⟨it.p, it.d + 1, it.a⟩ : Item) ∈ C) ∧ ClosedSet G C := by
  have hc := closure_complete ht (I := advance G I X) h
  exact ⟨fun it hit ha => hc.1 _ (mem_advance.mpr ⟨it, hit, ha, rfl⟩), hc.2⟩

theorem goto_terminates {G : Grammar} {nT : Nat} (ht : TermsBelow G nT) {I : List Item}
    (hI : ∀ it ∈ I, it.a < nT) (X : Sym) : ∃ C, goto? G nT I X = some C := by
  apply closure_terminates ht
  intro x hx
  obtain ⟨it, hit, _, rfl⟩ := mem_advance.mp hx
  exact hI it hit

/-- The closure condition of the validator (`Lox.LR.Valid.closure`, stated with a FIRST function)
holds for every item set `Closure` returns, with the model's own FIRST(β a) as that function: what
the generator builds is what `Valid` asks for. -/
theorem closure_meets_valid {G : Grammar} {nT : Nat} (ht : TermsBelow G nT) {I C : List Item}
    (h : closure? G nT I = some C) (it : Item) (pr : Prod) (B q : Nat) (qr : Prod) (b : Nat)
    (hit : it ∈ C) (hp : G.prods[it.p]? = some pr) (hB : pr.rhs[it.d]? = some (.n B))
    (hq : G.prods[q]? = some qr) (hl : qr.lhs = B)
    (hb : b ∈ firstLA (firstSets G nT) (pr.rhs.drop (it.d + 1)) it.a) : (⟨q, 0, b⟩ : Item) ∈ C :=
  (closure_complete ht h).2 it hit ⟨q, 0, b⟩
    ⟨pr, B, qr, hp, hB, hq, hl, rfl, (exactTab_firstSets ht _ _).mp hb⟩

/-- The Go-panic wrapper agrees with the total model wherever the Go code does not panic. -/
theorem closureGo_eq {G : Grammar} {nT : Nat} {I C : List Item} (h : closureGo G nT I = some C) :
    closure? G nT I = some C := by
  unfold closureGo at h
  split at h
  · cases h
  · exact h

/-- Non-vacuity on the grammar of D1: the start state. `tt → ·T` carries the lookaheads
`FIRST(r EOF) = {X, Y, O}`; with the defective FIRST the lookahead `Y` was missing. -/
example : closure? gD1 7 [⟨0, 0, 0⟩] =
    some [⟨2, 0, 4⟩, ⟨2, 0, 3⟩, ⟨2, 0, 6⟩, ⟨1, 0, 0⟩, ⟨0, 0, 0⟩] := by decide

example : ∀ it ∈ [(⟨0, 0, 0⟩ : Item)], it.a < 7 := by decide

/-- The closure rule instance behind `[2, 0, 4]`: from `[s → ·tt r, EOF]`, `r EOF ⇒ oo Y Z EOF ⇒ Y Z EOF`. -/
example : ClosureRule gD1 ⟨1, 0, 0⟩ ⟨2, 0, 4⟩ :=
  ⟨⟨1, [.n 2, .n 3]⟩, 2, ⟨2, [.t 2]⟩, rfl, rfl, rfl, rfl, rfl,
    ⟨[.t 5, .t 0], .step (Step.mk (G := gD1) (q := 4) [] [.t 0] rfl)
      (.step (Step.mk (G := gD1) (q := 6) [] [.t 4, .t 5, .t 0] rfl) (.refl _))⟩⟩

end Lox.Props.C01
