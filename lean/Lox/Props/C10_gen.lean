import Lox.Lex.GenTotalProofs
/-! Property theorems for C10, generator part: subset construction, state merging (`optimize`),
the start-state repair (`splitStartState`) and range merging (`mergeTransitions`) change nothing
observable — the automaton that is finally encoded into `_lexerModeN` runs, dies and labels
exactly like the NFA of the rules.

Models: `Lox/Lex/GenDFA.lean`, `Lox/Lex/GenOpt.lean`. "Observable" of a state: `DFA.view`
(its NFA states, `Accept`, `NonGreedy`), `accNFA` (its accepting NFA states, all `pickAction`
looks at). Helper lemmas: `Lox/Lex/GenOptProofs.lean`, `GenBuildProofs.lean`. -/
namespace Lox.Props.C10
open Lox.Lex Lox.Lex.Gen Lox.Rang3

/-- The subset construction yields a well-formed DFA: targets are states, two transitions of a
state that share a code point are the same transition, labels are written `lo ≤ hi`, and `Accept`
says whether an NFA state of the set accepts. -/
theorem subset_wellformed (m : NFA) (hPD : PD m.edges) (hv : ValidLabels m.edges) (fuel : Nat)
    (d : DFA) (h : subset m fuel = some d) : d.WF ∧ AccOK m d := subset_wf m hPD hv fuel d h

/-- **`optimize_correct`.** The partition refinement of `optimize.go`, modelled as written
(initial split accepting / non-accepting; `subPartition` against the first state of each group by
target group per input and by equality of the accepting-NFA-state sets; passes until no group is
created; merged states; group of state 0 swapped to index 0). If it returns `d'`, then `d'` is the
image of `d` under a map `f` of states with `f 0 = 0`: on every word the run of `d'` is the image
of the run of `d` — so exactly the same words die —, a state and its image agree on `Accept` and
have the same accepting NFA states. `d'` is again well formed and not empty. -/
theorem optimize_correct (m : NFA) (d : DFA) (hwf : d.WF) (hacc : AccOK m d) (d' : DFA)
    (h : optimize m d = .ok d') :
    d'.WF ∧ AccOK m d' ∧ (0 < d.states.length → 0 < d'.states.length) ∧
    ∃ f : Nat → Nat, f 0 = 0 ∧ ∀ w,
      d'.run 0 w = (d.run 0 w).map f ∧
      ∀ j, d.run 0 w = some j → d'.accept (f j) = d.accept j ∧
        ∀ q, q ∈ accNFA m d' (f j) ↔ q ∈ accNFA m d j :=
  Lox.Lex.Gen.optimize_correct m d hwf hacc d' h

/-- Same accepting NFA states ⇒ same winning rule: `optimize` does not change the actions
`pickAction` attaches to the state reached by any word. -/
theorem optimize_labels (m : NFA) (d : DFA) (hwf : d.WF) (hacc : AccOK m d) (d' : DFA)
    (h : optimize m d = .ok d') (w : List Int) (j : Nat) (hj : d.run 0 w = some j) :
    ∃ j', d'.run 0 w = some j' ∧
      pickAction m ((d'.states[j']?.map (·.nfa)).getD []) =
        pickAction m ((d.states[j]?.map (·.nfa)).getD []) := by
  obtain ⟨_, _, _, f, _, hf⟩ := Lox.Lex.Gen.optimize_correct m d hwf hacc d' h
  obtain ⟨h1, h2⟩ := hf w
  refine ⟨f j, by rw [h1, hj]; rfl, ?_⟩
  apply pickAction_congr
  intro q
  have := (h2 j hj).2 q
  simp only [accNFA, List.mem_filter] at this
  exact this

/-- **`splitStart_correct`.** `optimize` may merge the start state with a state in the middle of
a token (example below); the generated state machine reads "state 0" as "nothing consumed since
the last token". After `splitStartState` no transition leads into state 0, and the automaton is
unchanged up to the map `g` sending the copy back to the start state: runs correspond (so the
same words die) and corresponding states show the same NFA states, `Accept` and `NonGreedy`. -/
theorem splitStart_correct (d : DFA) (hwf : d.WF) :
    NoEdgeIntoStart (splitStart d) ∧ (splitStart d).WF ∧
    ∃ g : Nat → Nat, g 0 = 0 ∧
      (∀ j, (splitStart d).view j = none ∨ (splitStart d).view j = d.view (g j)) ∧
      ∀ w, ((splitStart d).run 0 w).map g = d.run 0 w :=
  Lox.Lex.Gen.splitStart_correct d hwf

/-- **`mergeTransitions` changes no step.** Replacing, per target, the input ranges by their
`rang3.Flatten` leaves every state as it was and the successor of every state on every code point
unchanged (hence every run), keeps the automaton well formed and keeps state 0 without incoming
transitions. -/
theorem mergeTransitions_correct (d : DFA) (hwf : d.WF) :
    (mergeTransitions d).WF ∧ (∀ j, (mergeTransitions d).view j = d.view j) ∧
    (∀ s c, (mergeTransitions d).step s c = d.step s c) ∧
    (∀ s w, (mergeTransitions d).run s w = d.run s w) ∧
    (NoEdgeIntoStart d → NoEdgeIntoStart (mergeTransitions d)) := by
  obtain ⟨h1, h2, h3, h4⟩ := Lox.Lex.Gen.mergeTransitions_correct d hwf
  exact ⟨h1, h2, h3, fun s w => run_congr h3 w s, h4⟩

/-- The subset construction ends within the model's fuel `2^n + 1` (a DFA state is a strictly
increasing list of NFA-state IDs below `n`; each iteration consumes a pending state or creates a
new one). -/
theorem subset_terminates (m : NFA) (hb : m.Bounded) : ∃ d, subset m (subsetFuel m) = some d :=
  subset_total m hb

/-- `optimize` is total on well-formed DFAs: the refinement loop ends within `n + 1` passes (the
groups are non-empty and partition the `n` states, every non-final pass creates a group) and
`GetStateGroup` never fails its `assert.True` (the groups always cover all states). -/
theorem optimize_terminates (m : NFA) (d : DFA) (hwf : d.WF) : ∃ d', optimize m d = .ok d' :=
  optimize_total m d hwf

/-! ### Non-vacuity and the start-state merge -/

/-- `'a'* '\n'`: the start state has a self loop. -/
def exLoop : List Rx := [.seq (.star false (.lit [97])) (.lit [10])]

-- the subset construction gives three states: start, "after some a", "after the newline"
example : (normalizeNFA (modeNFA exLoop)).bind (fun m => subset m (subsetFuel m)) = some
    { states := [
        { nfa := [0, 2, 3, 4, 6], trans := [(⟨97, 97⟩, 1), (⟨10, 10⟩, 2)], accept := false, ng := false },
        { nfa := [0, 1, 3, 4], trans := [(⟨97, 97⟩, 1), (⟨10, 10⟩, 2)], accept := false, ng := false },
        { nfa := [5], trans := [], accept := true, ng := false }] } := by decide

-- `optimize` merges the start state with the state "after some a": state 0 gets an incoming edge
example : (normalizeNFA (modeNFA exLoop)).bind (fun m =>
    (subset m (subsetFuel m)).map fun d => optimize m d) = some (.ok
    { states := [
        { nfa := [0, 2, 3, 4, 6, 0, 1, 3, 4], trans := [(⟨97, 97⟩, 0), (⟨10, 10⟩, 1)],
          accept := false, ng := false },
        { nfa := [5], trans := [], accept := true, ng := false }] }) := by decide

-- `splitStartState` redirects it to a copy
example : buildDFA (modeNFA exLoop) = some (.ok
    { states := [
        { nfa := [0, 2, 3, 4, 6, 0, 1, 3, 4], trans := [(⟨97, 97⟩, 2), (⟨10, 10⟩, 1)],
          accept := false, ng := false },
        { nfa := [5], trans := [], accept := true, ng := false },
        { nfa := [0, 2, 3, 4, 6, 0, 1, 3, 4], trans := [(⟨97, 97⟩, 2), (⟨10, 10⟩, 1)],
          accept := false, ng := false }] }) := by decide

-- `mergeTransitions`: `[a-c] | [d-f]` leads to one state by two pieces, merged into one range
example : (buildDFA (modeNFA [.alt (.cls [(97, 99)]) (.last (.cls [(100, 102)]))])).map
    (fun r => match r with | .ok F => (F.states.getD 0 default).trans | _ => []) =
    some [(⟨97, 102⟩, 1)] := by decide

end Lox.Props.C10
