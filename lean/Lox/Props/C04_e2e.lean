import Lox.LR.VerdictE2ECells
import Lox.LR.VerdictE2EBool
import Lox.LR.VerdictE2EFree
import Lox.Props.C01_e2e
import Lox.Props.C04_construct
import Lox.Props.C05
/-!
# C04, end to end on the model of the generator: the conflict verdict is the verdict of the definition, for ALL grammars

Property (verbatim): "lox refuses a grammar with 'grammar has conflicts' if and only if its LALR(1)
automaton has a state and lookahead with more than one action left after the documented precedence
rule is applied; it never silently picks an action and never rejects an LALR(1) grammar. Precedence
qualifiers settle only shift/reduce conflicts among productions of one rule that all carry explicit
qualifiers; they never hide reduce/reduce conflicts or conflicts spanning rules. For accepted
grammars the emitted action and goto tables are the LALR(1) tables."

`Lox/Props/C04_verdict.lean` proves this PER RUN: the validator `conflictCheckB` accepts the item
sets and transitions of a run ⇒ the verdict recomputed from them is the verdict by definition. Here
the validator is not run at all: the table is the output of the MODEL of the generator
(`Cons.construct`, model of the worklist of `lr1.ConstructLALR`, tied to the real code by the
family `construct`; the cells by `Gen.cellOn` = `createActions`, family `genmodel`; the loop of
`resolveConflicts` by `Lox.Dec.hasConflicts` / `resolveOne`, family `resolve`; `EmitParser` by
`Emit.emitParserP`, family `emit`), and the statements hold for EVERY well-formed grammar
(`wfGrammarB`: production 0 is `S' → start`, `S'` on no right-hand side, symbols in range, no EOF
on a right-hand side), every name order listing each symbol once (`ordOKB`) and every precedence
table `info`.

**Definition** (read `Lox/LR/LALR.lean`, `Lox/LR/ConflictSpec.lean`; nothing algorithmic):
`LR1Item G γ it` – the LR(1) item `it` is valid for the viable prefix `γ`; `LALRItem G A s it` – `it`
is valid for some `γ` that leads to state `s`; `Cand` – the actions an item set calls for on a
terminal (shift if some item has the terminal after the dot, reduce `p` for a completed item of `p`
with this lookahead, accept); `Conflict` – two different candidates; `Settled` – the documented
precedence rule applies; `Unsettled` = `Conflict ∧ ¬ Settled`; `CellOf` – a listing of the candidates
(what `resolveOne` works on). The automaton skeleton `skelOf st` only supplies the numbering of the
states (its edges are the recorded transitions; by `construct_correct` every viable prefix reaches
exactly one state).

`hasConflictsP info G nT st` is the model of `ParserTable.HasConflicts` after `resolveConflicts`.

Theorems (helper lemmas: `Lox/LR/ConstructEdges.lean`, `VerdictE2E.lean`, `VerdictE2ECells.lean`,
`VerdictE2EBool.lean`, `VerdictE2EFree.lean`):
* `generator_satisfies_conflict_checks` – the model's table satisfies everything `conflictCheckB`
  establishes (`ConflictOK`); `generator_passes_closed_check`,
  `generator_passes_conflict_check_partial` – the Boolean ⊇ half / kernel check always pass, the
  whole Boolean validator passes iff the untrusted rank search does (full statement NOT proved);
* `generator_verdict_exact` (`_states`, `_cells`, `_doc`, `_lalr_set`), `generator_refuses_iff`;
* `generator_never_invents_conflict`, `generator_never_hides_conflict`,
  `precedence_only_settles_sr_of_one_rule`;
* `accepted_tables_are_lalr`, `emitted_gotos_are_lalr`, `generator_is_lr0_automaton`;
* `conflictFree_iff_lalr1`, `lalr1_grammar_gets_exact_parser` (bridge to C01 end to end).
-/
namespace Lox.Props.C04
open Lox.LR Lox.LR.Cons Lox.LR.Emit
open Lox.Dec (ProdInfo Action resolveOne resolveOneDoc resolveCell SRPairOfOneRule)
open Lox.Props.C01 (wfGrammarB emit_find_actions emit_find_goto)

section
variable {G : Grammar} {nT nR : Nat} {ord : List Sym} {st : CState}

/-- What `wfGrammarB` decides. -/
theorem wfGrammar_spec (h : wfGrammarB G nT nR = true) : GrammarWf G nT nR := by
  simp only [wfGrammarB, Bool.and_eq_true] at h
  obtain ⟨⟨⟨hp0, hns⟩, hsyms⟩, hne⟩ := h
  exact grammarWf_of_bools hp0 hns hsyms hne

/-- **generator_satisfies_conflict_checks** (completeness of the validator's conditions on the
generator model). For every well-formed grammar the table the model of `ConstructLALR` returns
satisfies everything a successful run of `conflictCheckB` establishes (`ConflictOK`): the ⊇ half
and the shape conditions (`SkelOK`: start item, goto along the transitions, closure w.r.t. the
validator's own FIRST table, which is closed; no edge into state 0, none on EOF, every edge called
for by an item, predecessors), the ⊆ half (every item has a derivation inside the item sets,
`Justd`), distinct kernels. So every theorem of `C04_verdict.lean` applies to the model without a
validator run.

The BOOLEAN `conflictCheckB … = true` additionally needs the untrusted rank search
`Jst.searchRanks` to succeed; that is NOT proved (see `generator_passes_closed_check`,
`generator_passes_conflict_check_partial` for the Boolean ⊇ half). -/
theorem generator_satisfies_conflict_checks (hwf : wfGrammarB G nT nR = true)
    (hord : ordOKB nT nR ord = true) (hst : construct G nT ord = some st) :
    ConflictOK G nT nR st.transTab st.cert :=
  conflictOK_of_construct (wfGrammar_spec hwf) (ordOKB_spec hord) hst

/-- **generator_verdict_exact** (state form). The model's verdict is `true` iff some (state,
terminal) cell of the LALR(1) automaton BY DEFINITION has two different candidate actions that the
documented precedence rule does not settle. -/
theorem generator_verdict_exact_states (hwf : wfGrammarB G nT nR = true)
    (hord : ordOKB nT nR ord = true) (info : Nat → ProdInfo)
    (hst : construct G nT ord = some st) :
    hasConflictsP info G nT st = true ↔
      ∃ s a, Unsettled G info (skelOf st) (LALRItem G (skelOf st)) s a :=
  hasConflictsP_iff (wfGrammar_spec hwf) (ordOKB_spec hord) hst info

/-- **generator_verdict_exact.** For every well-formed grammar, every precedence table and every
name order: lox (the model) says "grammar has conflicts" IFF there are a viable prefix `γ` (some
LR(1) item is valid for it), the one state `s` it leads to, and a terminal `a` such that the
LALR(1) item set of that state (all LR(1) items valid for prefixes leading to `s`) calls for two
different actions on `a` that the documented precedence rule does not settle. This is
`verdict_exact` without the per-run validator. -/
theorem generator_verdict_exact (hwf : wfGrammarB G nT nR = true)
    (hord : ordOKB nT nR ord = true) (info : Nat → ProdInfo)
    (hst : construct G nT ord = some st) :
    hasConflictsP info G nT st = true ↔
      ∃ γ s a, (∃ it, LR1Item G γ it) ∧ Path (skelOf st) 0 γ s ∧
        (∀ s', Path (skelOf st) 0 γ s' → s' = s) ∧
        Unsettled G info (skelOf st) (LALRItem G (skelOf st)) s a := by
  rw [generator_verdict_exact_states hwf hord info hst]
  constructor
  · rintro ⟨s, a, hu⟩
    obtain ⟨it, γ, hpath, hit⟩ := hu.1.has_item
    exact ⟨γ, s, a, ⟨it, hit⟩, hpath, fun s' hp' => hp'.det hpath, hu⟩
  · rintro ⟨_, s, a, _, _, _, hu⟩
    exact ⟨s, a, hu⟩

/-- The same with `resolveOne` (the model of `resolveConflict`) on ANY listing of the candidate
actions by definition (`CellOf`: each candidate once, in any order): the verdict is `true` iff some
LALR(1) cell has more than one action left after `resolveOne`. -/
theorem generator_verdict_exact_cells (hwf : wfGrammarB G nT nR = true)
    (hord : ordOKB nT nR ord = true) (info : Nat → ProdInfo)
    (hst : construct G nT ord = some st) :
    hasConflictsP info G nT st = true ↔
      ∃ s a cell, CellOf G (skelOf st) (LALRItem G (skelOf st)) s a cell ∧
        1 < (resolveOne info cell).1.length :=
  (generator_satisfies_conflict_checks hwf hord hst).verdict_cells info

/-- The documented resolver (`resolveOneDoc`: known finding K1 repaired) leaves as many actions in
a cell as the pinned one. -/
theorem resolveOneDoc_length (info : Nat → ProdInfo) (acts : List Action) :
    (resolveOneDoc info acts).1.length = (resolveOne info acts).1.length := by
  have hv := Lox.Props.C05.doc_same_verdict info acts
  rw [resolveOne_length]
  cases hr : (resolveOne info acts).2 with
  | false =>
    rw [hr] at hv
    have : (resolveOneDoc info acts).1 = acts := by
      unfold resolveOneDoc at hv ⊢
      split <;> (try rfl)
      · next t ps rp =>
        cases hd : Lox.Dec.decideSRDoc info ps rp with
        | none => rfl
        | some k => simp [hd] at hv
      · next rp t ps =>
        cases hd : Lox.Dec.decideSRDoc info ps rp with
        | none => rfl
        | some k => simp [hd] at hv
    simp [this]
  | true =>
    rw [hr] at hv
    unfold resolveOneDoc at hv ⊢
    split
    · next t ps rp =>
      cases hd : Lox.Dec.decideSRDoc info ps rp with
      | none => simp [hd] at hv
      | some k => cases k <;> simp [Lox.Dec.keepOf]
    · next rp t ps =>
      cases hd : Lox.Dec.decideSRDoc info ps rp with
      | none => simp [hd] at hv
      | some k => cases k <;> simp [Lox.Dec.keepOf]
    · next h1 h2 =>
      split at hv
      · exact absurd rfl (h1 _ _ _)
      · exact absurd rfl (h2 _ _ _)
      · cases hv

/-- … hence the verdict is also exact w.r.t. the DOCUMENTED rule `resolveOneDoc` (it does not depend
on known finding K1, which only concerns WHICH action survives). -/
theorem generator_verdict_exact_doc (hwf : wfGrammarB G nT nR = true)
    (hord : ordOKB nT nR ord = true) (info : Nat → ProdInfo)
    (hst : construct G nT ord = some st) :
    hasConflictsP info G nT st = true ↔
      ∃ s a cell, CellOf G (skelOf st) (LALRItem G (skelOf st)) s a cell ∧
        1 < (resolveOneDoc info cell).1.length := by
  rw [generator_verdict_exact_cells hwf hord info hst]
  simp only [resolveOneDoc_length]

/-- **generator_never_invents_conflict.** The model says "grammar has conflicts" ⇒ a conflict of
the LALR(1) automaton by definition exists that the documented rule does not settle: lox never
rejects an LALR(1) grammar (nor one whose conflicts the precedence rule settles). -/
theorem generator_never_invents_conflict (hwf : wfGrammarB G nT nR = true)
    (hord : ordOKB nT nR ord = true) (info : Nat → ProdInfo)
    (hst : construct G nT ord = some st) (h : hasConflictsP info G nT st = true) :
    ∃ γ s a, (∃ it, LR1Item G γ it) ∧ Path (skelOf st) 0 γ s ∧
      (∀ s', Path (skelOf st) 0 γ s' → s' = s) ∧
      Unsettled G info (skelOf st) (LALRItem G (skelOf st)) s a :=
  (generator_verdict_exact hwf hord info hst).mp h

/-- **generator_never_hides_conflict.** The model accepts (verdict `false`) ⇒ every cell of the
LALR(1) automaton by definition has at most one candidate action, or exactly a shift and a reduce
that the documented rule settles; and on any listing of the candidates of any cell at most one
action is left after `resolveOne`. -/
theorem generator_never_hides_conflict (hwf : wfGrammarB G nT nR = true)
    (hord : ordOKB nT nR ord = true) (info : Nat → ProdInfo)
    (hst : construct G nT ord = some st) (h : hasConflictsP info G nT st = false) (s a : Nat) :
    (¬ Conflict G (skelOf st) (LALRItem G (skelOf st)) s a ∨
      Settled G info (skelOf st) (LALRItem G (skelOf st)) s a) ∧
    ∀ cell, CellOf G (skelOf st) (LALRItem G (skelOf st)) s a cell →
      (resolveOne info cell).1.length ≤ 1 := by
  have hno : ¬ ∃ s a, Unsettled G info (skelOf st) (LALRItem G (skelOf st)) s a := by
    rw [← generator_verdict_exact_states hwf hord info hst, h]; simp
  constructor
  · by_cases hcf : Conflict G (skelOf st) (LALRItem G (skelOf st)) s a
    · by_cases hs : Settled G info (skelOf st) (LALRItem G (skelOf st)) s a
      · exact .inr hs
      · exact absurd ⟨s, a, hcf, hs⟩ hno
    · exact .inl hcf
  · intro cell hcell
    have := mt (hcell.unsettled_iff_left info).mpr (fun hu => hno ⟨s, a, hu⟩)
    omega

/-- **precedence_only_settles_sr_of_one_rule** (`resolve_only_sr` lifted to the generator). If
`resolveConflicts` changes the cell `createActions` built for state `s` and terminal `a` of the
model's table (removes an action), then the cell is exactly one shift and one reduce whose
contributing productions all belong to the rule of the reduced production and all carry one
explicit precedence (`SRPairOfOneRule`), AND in terms of the definition: the LALR(1) candidates of
`(s, a)` are exactly that shift and that reduce – no second reduce, no accept –, every production
with an item `[… · a …]` in the LALR(1) set belongs to the rule of the reduced one, they share one
explicit precedence, and the reduced one carries an explicit precedence (`Settled`). Qualifiers
never hide a reduce/reduce conflict or one spanning rules. -/
theorem precedence_only_settles_sr_of_one_rule (hwf : wfGrammarB G nT nR = true)
    (hord : ordOKB nT nR ord = true) (info : Nat → ProdInfo)
    (hst : construct G nT ord = some st) {s a : Nat} {cell : List Action}
    (hco : Gen.cellOn G nT (trTerm st.transTab s) (st.states[s]?.getD []) a = .ok cell)
    (hch : (resolveCell info cell).1 ≠ cell) :
    SRPairOfOneRule info cell ∧ Settled G info (skelOf st) (LALRItem G (skelOf st)) s a := by
  obtain ⟨cell', hco', hcell, _⟩ := (generator_satisfies_conflict_checks hwf hord hst).cellOf s a
  rw [itemsOf_cert, hco] at hco'
  cases hco'
  have hne : (resolveOne info cell).1 ≠ cell := by
    unfold resolveCell at hch
    split at hch
    · exact absurd rfl hch
    · exact hch
  have hsr := resolve_only_sr info cell hne
  exact ⟨hsr, (hcell.resolved_iff info).mp ((resolved_iff info cell).mpr hsr)⟩

/-- **accepted_tables_are_lalr.** For a grammar the model accepts (verdict `false`) and the tables
`EmitParser` writes: for every state `s` and terminal `a`, a `_Find` HIT on the emitted `_actions`
is the code of THE remaining LALR(1) action of the cell `(s, a)`: a candidate action by definition,
the only action `resolveConflicts` leaves of a listing of the candidates, and every other candidate
was removed by the documented precedence rule (the cell is `Settled`); a MISS means the LALR(1)
item set of `s` calls for no action on `a`; `_Find` never indexes out of range. -/
theorem accepted_tables_are_lalr {info : Nat → ProdInfo} {T : Tables}
    (hwf : wfGrammarB G nT nR = true) (hord : ordOKB nT nR ord = true)
    (hst : construct G nT ord = some st) (hT : emitParserP info G nT ord st = some T)
    (hacc : hasConflictsP info G nT st = false) {s : Nat} (hs : s < st.states.length) {a : Nat}
    (ha : a < nT) :
    (∀ v, find T.actions (s : Int) (a : Int) = .hit v →
      ∃ x : Action, v = actCode x ∧
        Cand G (skelOf st) (LALRItem G (skelOf st)) s a (actOf x) ∧
        (∀ y, Cand G (skelOf st) (LALRItem G (skelOf st)) s a y →
          y = actOf x ∨ Settled G info (skelOf st) (LALRItem G (skelOf st)) s a) ∧
        ∃ cell, CellOf G (skelOf st) (LALRItem G (skelOf st)) s a cell ∧
          (resolveCell info cell).1 = [x]) ∧
    (find T.actions (s : Int) (a : Int) = .miss →
      ∀ act, ¬ Cand G (skelOf st) (LALRItem G (skelOf st)) s a act) ∧
    find T.actions (s : Int) (a : Int) ≠ .oob := by
  have ok := generator_satisfies_conflict_checks hwf hord hst
  have hO := ordOKB_spec hord
  obtain ⟨cells, hcells, hfind, hoob⟩ := emit_find_actions hT hO.nodup hs
  have hf := hfind a ((hO.terms a).mpr ha)
  obtain ⟨cell, hco, hcell, hne⟩ := ok.cellOf s a
  refine ⟨?_, ?_, hoob _⟩
  · intro v hv
    by_cases hat : a ∈ Gen.cellTerminals G nT (trTerm st.transTab s) (itemsOf st.cert s)
    · obtain ⟨x, hx, hxc, hall⟩ :=
        accepted_cell info hacc (by rw [size_cert]; exact hs) a hco hat
      rw [itemsOf_cert] at hco hat
      rw [lookupCell_cellsOf_some hcells hat hco, hx] at hf
      rw [hf] at hv
      cases hv
      refine ⟨x, rfl, (hcell.cand _).mp (List.mem_map.mpr ⟨x, hxc, rfl⟩), fun y hy => ?_,
        cell, hcell, hx⟩
      obtain ⟨y', hy', rfl⟩ := List.mem_map.mp ((hcell.cand y).mpr hy)
      rcases hall y' hy' with rfl | hr
      · exact .inl rfl
      · exact .inr ((hcell.resolved_iff info).mp hr)
    · rw [itemsOf_cert] at hat
      rw [lookupCell_cellsOf_none hcells hat, hv] at hf
      cases hf
  · intro hm act hact
    by_cases hat : a ∈ Gen.cellTerminals G nT (trTerm st.transTab s) (itemsOf st.cert s)
    · obtain ⟨x, hx, _, _⟩ := accepted_cell info hacc (by rw [size_cert]; exact hs) a hco hat
      rw [itemsOf_cert] at hco hat
      rw [lookupCell_cellsOf_some hcells hat hco, hx, hm] at hf
      cases hf
    · have hnil : cell = [] := by
        cases cell with
        | nil => rfl
        | cons x r => exact absurd (hne.mp (by simp)) hat
      have := (hcell.cand act).mpr hact
      rw [hnil] at this
      simp at this

/-- In a PRODUCTIVE grammar (`productiveB`) no automaton is needed to name the item set: the
verdict is `true` iff for some viable prefix `γ` the textbook LALR(1) set `LALRSet G γ` (all LR(1)
items valid for prefixes with the same LR(0) items as `γ`) calls for two different actions on some
terminal that the documented rule does not settle. (`skelOf st` only supplies the number of the
shift target.) -/
theorem generator_verdict_exact_lalr_set (hwf : wfGrammarB G nT nR = true)
    (hord : ordOKB nT nR ord = true) (hp : productiveB G nR = true) (info : Nat → ProdInfo)
    (hst : construct G nT ord = some st) :
    hasConflictsP info G nT st = true ↔
      ∃ γ s a, Path (skelOf st) 0 γ s ∧
        Unsettled G info (skelOf st) (fun _ it => LALRSet G γ it) s a := by
  have ok := generator_satisfies_conflict_checks hwf hord hst
  have hset := (ok.lr0 (productiveB_sound hp)).2.2.2
  have hiff : ∀ γ s, Path (skelOf st) 0 γ s → ∀ it,
      LALRItem G (skelOf st) s it ↔ (fun (_ : Nat) it => LALRSet G γ it) s it :=
    fun γ s hpath it => (ok.items_exact s it).symm.trans (hset γ s hpath it)
  rw [generator_verdict_exact_states hwf hord info hst]
  constructor
  · rintro ⟨s, a, hu⟩
    obtain ⟨it, γ, hpath, hit⟩ := hu.1.has_item
    exact ⟨γ, s, a, hpath, (Unsettled.congr (hiff γ s hpath)).mp hu⟩
  · rintro ⟨γ, s, a, hpath, hu⟩
    exact ⟨s, a, (Unsettled.congr (hiff γ s hpath)).mpr hu⟩

/-- … and in a productive grammar the model's skeleton IS the LR(0) automaton: every LR(0) viable
prefix reaches a state, two prefixes reach the same state iff they have the same LR(0) items, and
the item list of the state reached along `γ` is `LALRSet G γ` – for all grammars, no validator
run. -/
theorem generator_is_lr0_automaton (hwf : wfGrammarB G nT nR = true)
    (hord : ordOKB nT nR ord = true) (hp : productiveB G nR = true)
    (hst : construct G nT ord = some st) :
    (∀ γ p d, LR0Item G γ p d → ∃ s, Path (skelOf st) 0 γ s) ∧
    (∀ γ γ' s s', Path (skelOf st) 0 γ s → Path (skelOf st) 0 γ' s' →
      (s = s' ↔ SameLR0 G γ γ')) ∧
    (∀ γ s, Path (skelOf st) 0 γ s → ∀ it, it ∈ st.states[s]?.getD [] ↔ LALRSet G γ it) := by
  obtain ⟨h1, _, h3, h4⟩ :=
    (generator_satisfies_conflict_checks hwf hord hst).lr0 (productiveB_sound hp)
  refine ⟨h1, h3, fun γ s hpath it => ?_⟩
  rw [← itemsOf_cert]
  exact h4 γ s hpath it

/-- **emitted_gotos_are_lalr.** For ANY table of the model (accepted or not) and the tables
`EmitParser` writes: a `_Find` HIT on `_goto` for state `s` and rule `B` is the LALR(1) goto: the
state every viable prefix `γB` reaches when `γ` reaches `s`, and some LALR(1) item of `s` has `B`
after its dot; a MISS means no LALR(1) item of `s` has `B` after its dot. -/
theorem emitted_gotos_are_lalr {info : Nat → ProdInfo} {T : Tables}
    (hwf : wfGrammarB G nT nR = true) (hord : ordOKB nT nR ord = true)
    (hst : construct G nT ord = some st) (hT : emitParserP info G nT ord st = some T)
    {s : Nat} (hs : s < st.states.length) {B : Nat} (hB : B < nR) :
    (∀ v, find T.gotos (s : Int) (B : Int) = .hit v →
      ∃ t : Nat, v = (t : Int) ∧ trans (skelOf st) s (.n B) = some t ∧
        (∀ γ, Path (skelOf st) 0 γ s → Path (skelOf st) 0 (γ ++ [.n B]) t) ∧
        ∃ p d b pr, LALRItem G (skelOf st) s ⟨p, d, b⟩ ∧ G.prods[p]? = some pr ∧
          pr.rhs[d]? = some (.n B)) ∧
    (find T.gotos (s : Int) (B : Int) = .miss →
      ∀ p d b pr, LALRItem G (skelOf st) s ⟨p, d, b⟩ → G.prods[p]? = some pr →
        pr.rhs[d]? ≠ some (.n B)) ∧
    find T.gotos (s : Int) (B : Int) ≠ .oob := by
  have ok := generator_satisfies_conflict_checks hwf hord hst
  have hO := ordOKB_spec hord
  obtain ⟨hfind, hoob⟩ := emit_find_goto hT hO.nodup hs
  have hf := hfind B ((hO.rules B).mpr hB)
  rw [← trans_skelOf] at hf
  refine ⟨fun v hv => ?_, fun hm p d b pr hit hp hX => ?_, hoob _⟩
  · cases htr : trans (skelOf st) s (.n B) with
    | none => rw [htr, hv] at hf; cases hf
    | some t =>
      rw [htr, hv] at hf
      cases hf
      obtain ⟨⟨p, d, b⟩, hit, pr, hp, hX⟩ := ok.skel.edgesBacked s (.n B) t htr
      exact ⟨t, rfl, rfl, fun γ hpath => .snoc hpath htr, p, d, b, pr,
        (ok.items_exact s _).mp hit, hp, hX⟩
  · have hmem := (ok.items_exact s _).mpr hit
    obtain ⟨t, htr, _⟩ := ok.skel.closed.step s _ pr _ hmem hp hX
    have htr' : trans (skelOf st) s (.n B) = some t := htr
    rw [htr', hm] at hf
    cases hf

/-- **generator_passes_closed_check.** As Booleans: on the model's own output the ⊇ half of the
validator with all shape conditions (`closedSkelB`) and the kernel check (`kernelsDistinctB`)
evaluate to `true`, for every well-formed grammar. -/
theorem generator_passes_closed_check (hwf : wfGrammarB G nT nR = true)
    (hord : ordOKB nT nR ord = true) (hst : construct G nT ord = some st) :
    closedSkelB G nT nR st.transTab st.cert = true ∧ kernelsDistinctB st.cert = true :=
  ⟨closedSkelB_of_construct (wfGrammar_spec hwf) (ordOKB_spec hord) hst,
    kernelsDistinctB_of_inv (built_of_wf (wfGrammar_spec hwf) (ordOKB_spec hord) hst).inv⟩

/- FULL STATEMENT (not proved): `generator_passes_conflict_check`
     wfGrammarB G nT nR = true → ordOKB nT nR ord = true → construct G nT ord = some st →
       conflictCheckB G nT nR st.transTab st.cert = true.
   What is missing is the success of the UNTRUSTED search (`rankTabs`, `Jst.searchRanks`) that
   produces the ranks the ⊆ check `itemsJustB` verifies; what that check would establish
   (`ConflictOK.justd`) is proved directly in `generator_satisfies_conflict_checks`. -/

/-- **generator_passes_conflict_check_partial.** The Boolean validator on the model's own output
passes iff the check of the untrusted rank search passes (extra hypothesis w.r.t. the full
statement above: `hsearch`). -/
theorem generator_passes_conflict_check_partial (hwf : wfGrammarB G nT nR = true)
    (hord : ordOKB nT nR ord = true) (hst : construct G nT ord = some st)
    (hsearch : (rankOKB G (rankTabs G nT nR) &&
        itemsJustB G (skelAuto st.transTab st.cert) (rankTabs G nT nR)
          (Jst.searchRanks G nR (skelAuto st.transTab st.cert) st.cert (rankTabs G nT nR)).1
          (Jst.searchRanks G nR (skelAuto st.transTab st.cert) st.cert (rankTabs G nT nR)).2
          st.cert.size) = true) :
    conflictCheckB G nT nR st.transTab st.cert = true := by
  rw [conflictCheckB_eq_search (wfGrammar_spec hwf) (ordOKB_spec hord) hst]
  exact hsearch

/-- **generator_refuses_iff** (closed form, no hypothesis about the run): for every well-formed
grammar with at least one terminal, every name order and every precedence table the model of
`ConstructLALR` terminates without a panic, and it sets `HasConflicts` iff the LALR(1) automaton by
definition has a viable prefix and a terminal with two different actions that the documented
precedence rule does not settle. -/
theorem generator_refuses_iff (hwf : wfGrammarB G nT nR = true) (hord : ordOKB nT nR ord = true)
    (hnT : 0 < nT) (info : Nat → ProdInfo) :
    ∃ st, construct G nT ord = some st ∧
      (hasConflictsP info G nT st = true ↔
        ∃ γ s a, (∃ it, LR1Item G γ it) ∧ Path (skelOf st) 0 γ s ∧
          (∀ s', Path (skelOf st) 0 γ s' → s' = s) ∧
          Unsettled G info (skelOf st) (LALRItem G (skelOf st)) s a) := by
  have hw := wfGrammar_spec hwf
  obtain ⟨S', h0⟩ := prod0B_spec hw.prod0
  obtain ⟨st, hst⟩ := construct_terminates (SymsInRange.termsBelow hw.syms) ⟨_, h0⟩ hnT ord
  exact ⟨st, hst, generator_verdict_exact hwf hord info hst⟩

/-- **conflictFree_iff_lalr1.** The hypothesis `conflictFree` of the C01 end-to-end theorems
(`Lox.Props.C01.generator_valid` …: every cell `createActions` builds holds exactly one action) is
the DEFINITION of "the grammar is LALR(1)": no (state, terminal) cell of the LALR(1) automaton by
definition has two different candidate actions. -/
theorem conflictFree_iff_lalr1 (hwf : wfGrammarB G nT nR = true) (hord : ordOKB nT nR ord = true)
    (hst : construct G nT ord = some st) :
    conflictFree G nT ord = true ↔
      ∀ s a, ¬ Conflict G (skelOf st) (LALRItem G (skelOf st)) s a := by
  unfold conflictFree
  rw [hst]
  exact conflictFreeB_iff (wfGrammar_spec hwf) (ordOKB_spec hord) hst

/-- **lalr1_grammar_gets_exact_parser** (C04 + C01 end to end). For every well-formed grammar that
is LALR(1) BY DEFINITION (no cell of the LALR(1) automaton has two candidate actions): the model of
lox does not refuse it (`HasConflicts = false` for every precedence table), it emits tables (no
panic), the tables pass the validator `check`, and the table-driven parser accepts `w` with tree
`t` iff `t` is a derivation tree of `w` from the start symbol. -/
theorem lalr1_grammar_gets_exact_parser (hwf : wfGrammarB G nT nR = true)
    (hord : ordOKB nT nR ord = true) (hst : construct G nT ord = some st)
    (hlalr : ∀ s a, ¬ Conflict G (skelOf st) (LALRItem G (skelOf st)) s a)
    (hsmall : st.states.length ≤ 2147483647) :
    (∀ info, hasConflictsP info G nT st = false) ∧
    ∃ T, generate G nT ord = some (T, st.cert) ∧ check G nT nR T st.cert = .ok () ∧
      ∀ w, eof ∉ w → ∀ t, (∃ fuel lg, Abs.run G (autoOf T st.cert) fuel (Abs.init w) = .acc t lg) ↔
        Der G [.n (startSym G)] w [t] := by
  have hfree := (conflictFree_iff_lalr1 hwf hord hst).mpr hlalr
  have hfreeB : conflictFreeB G nT st = true := by
    unfold conflictFree at hfree
    rw [hst] at hfree
    exact hfree
  obtain ⟨T, cert, hgen⟩ := Lox.Props.C01.generator_total hfree
  have hcert : cert = st.cert := by
    have h := hgen
    unfold generate generateP at h
    rw [hst] at h
    cases hT : emitParserP noPrec G nT ord st with
    | none => simp [hT] at h
    | some T' =>
      simp only [hT, Option.some.injEq, Prod.mk.injEq] at h
      exact h.2.symm
  subst hcert
  have hsz : st.cert.size ≤ 2147483647 := by rw [size_cert]; exact hsmall
  exact ⟨fun info => Lox.Props.C01.conflictFree_verdict info hfreeB, T, hgen,
    Lox.Props.C01.generator_valid hwf hord hgen hfree hsz,
    fun w hw t => Lox.Props.C01.generator_correct hwf hord hgen hfree hsz hw t⟩

end

end Lox.Props.C04

/-! ## Non-vacuity: the three grammars of `C04_verdict.lean` / `C04_construct.lean`

`s = s s | A` (ambiguous; refused), the classic LR(1)-but-not-LALR(1) grammar (refused), and
`e = e A e @left(1) | e B e @left(2) | C` (accepted, conflicts settled by precedence). The name
orders are those of the real runs; by `constructEx_amb` … the model's output is literally the
output of the real `ConstructLALR`. -/
namespace Lox.Props.C04
open Lox.LR Lox.LR.Cons Lox.LR.Emit
open Lox.Dec (ProdInfo Action resolveOne resolveCell SRPairOfOneRule)
open Lox.Props.C01 (wfGrammarB)

/-- The hypotheses `wfGrammarB`, `ordOKB` hold on the three grammars. -/
example : wfGrammarB VerdictEx.Amb.G 4 2 = true ∧ ordOKB 4 2 constructEx_ordAmb = true := by decide
example : wfGrammarB VerdictEx.NotLalr.G 7 4 = true ∧ ordOKB 7 4 constructEx_ordNotLalr = true := by
  decide
example : wfGrammarB VerdictEx.PrecOk.G 5 2 = true ∧ ordOKB 5 2 constructEx_ordPrec = true := by
  decide

/-- Ambiguous grammar: the model says "conflicts" (evaluation), hence – by
`generator_never_invents_conflict`, no validator involved – a viable prefix and a terminal with an
unsettled LALR(1) cell exist; and the model's table satisfies the validator's conditions. -/
example : ∃ st, construct VerdictEx.Amb.G 4 constructEx_ordAmb = some st ∧
    hasConflictsP VerdictEx.Amb.info VerdictEx.Amb.G 4 st = true ∧
    ConflictOK VerdictEx.Amb.G 4 2 st.transTab st.cert ∧
    ∃ γ s a, (∃ it, LR1Item VerdictEx.Amb.G γ it) ∧ Path (skelOf st) 0 γ s ∧
      (∀ s', Path (skelOf st) 0 γ s' → s' = s) ∧
      Unsettled VerdictEx.Amb.G VerdictEx.Amb.info (skelOf st)
        (LALRItem VerdictEx.Amb.G (skelOf st)) s a := by
  have hc := constructEx_checks.1
  cases hst : construct VerdictEx.Amb.G 4 constructEx_ordAmb with
  | none => rw [hst] at hc; cases hc
  | some st =>
    rw [hst] at hc
    simp only [Option.map_some, Option.some.injEq, Prod.mk.injEq] at hc
    have hv : hasConflictsP VerdictEx.Amb.info VerdictEx.Amb.G 4 st = true := hc.2
    exact ⟨st, rfl, hv, generator_satisfies_conflict_checks (by decide) (by decide) hst,
      generator_never_invents_conflict (nR := 2) (by decide) (by decide) _ hst hv⟩

/-- LR(1) but not LALR(1): refused, and (the grammar is productive) the unsettled cell sits in a
textbook LALR(1) set `LALRSet G γ` (`generator_verdict_exact_lalr_set`). -/
example : ∃ st, construct VerdictEx.NotLalr.G 7 constructEx_ordNotLalr = some st ∧
    hasConflictsP VerdictEx.NotLalr.info VerdictEx.NotLalr.G 7 st = true ∧
    ∃ γ s a, Path (skelOf st) 0 γ s ∧
      Unsettled VerdictEx.NotLalr.G VerdictEx.NotLalr.info (skelOf st)
        (fun _ it => LALRSet VerdictEx.NotLalr.G γ it) s a := by
  have hc := constructEx_checks.2.1
  cases hst : construct VerdictEx.NotLalr.G 7 constructEx_ordNotLalr with
  | none => rw [hst] at hc; cases hc
  | some st =>
    rw [hst] at hc
    simp only [Option.map_some, Option.some.injEq, Prod.mk.injEq] at hc
    have hv : hasConflictsP VerdictEx.NotLalr.info VerdictEx.NotLalr.G 7 st = true := hc.2
    exact ⟨st, rfl, hv,
      (generator_verdict_exact_lalr_set (nR := 4) (by decide) (by decide) (by decide) _ hst).mp hv⟩

/-- What the model computes for the precedence grammar: it emits tables, the verdict is "no
conflict", state 5 (after `e A e`) holds the cell `[shift 3, reduce 1]` on `A` which
`resolveConflicts` changes to `[reduce 1]`, and `_Find` on the emitted `_actions` returns `-1`
there, misses on `C`, and returns `MaxInt32` (accept) for state 2 on EOF. -/
theorem e2eEx_prec :
    (construct VerdictEx.PrecOk.G 5 constructEx_ordPrec).bind (fun st =>
      (emitParserP VerdictEx.PrecOk.info VerdictEx.PrecOk.G 5 constructEx_ordPrec st).map fun T =>
        ((st.states.length, hasConflictsP VerdictEx.PrecOk.info VerdictEx.PrecOk.G 5 st,
          (Gen.cellOn VerdictEx.PrecOk.G 5 (trTerm st.transTab 5) (st.states[5]?.getD []) 2).toOption),
         (find T.actions 5 2, find T.actions 5 4, find T.actions 2 0))) =
    some ((7, false, some [.shift 3 [1, 1, 1], .reduce 1]), (.hit (-1), .miss, .hit 2147483647)) := by
  decide +kernel

/-- Accepted grammar WITH conflicts by definition: all hypotheses of `generator_never_hides_conflict`,
`precedence_only_settles_sr_of_one_rule` and `accepted_tables_are_lalr` hold; conclusions: the cell
(5, `A`) is settled by the documented rule, and the emitted `-1` is the code of THE remaining
LALR(1) action `reduce 1` of that cell. -/
example : ∃ st T, construct VerdictEx.PrecOk.G 5 constructEx_ordPrec = some st ∧
    emitParserP VerdictEx.PrecOk.info VerdictEx.PrecOk.G 5 constructEx_ordPrec st = some T ∧
    hasConflictsP VerdictEx.PrecOk.info VerdictEx.PrecOk.G 5 st = false ∧
    Settled VerdictEx.PrecOk.G VerdictEx.PrecOk.info (skelOf st)
      (LALRItem VerdictEx.PrecOk.G (skelOf st)) 5 2 ∧
    find T.actions 5 2 = .hit (-1) ∧
    Cand VerdictEx.PrecOk.G (skelOf st) (LALRItem VerdictEx.PrecOk.G (skelOf st)) 5 2 (.reduce 1) ∧
    (∀ act, ¬ Cand VerdictEx.PrecOk.G (skelOf st) (LALRItem VerdictEx.PrecOk.G (skelOf st)) 5 4 act) := by
  have hc := e2eEx_prec
  cases hst : construct VerdictEx.PrecOk.G 5 constructEx_ordPrec with
  | none => rw [hst] at hc; cases hc
  | some st =>
    rw [hst] at hc
    simp only [Option.bind_some] at hc
    cases hT : emitParserP VerdictEx.PrecOk.info VerdictEx.PrecOk.G 5 constructEx_ordPrec st with
    | none => rw [hT] at hc; cases hc
    | some T =>
      rw [hT] at hc
      simp only [Option.map_some, Option.some.injEq, Prod.mk.injEq] at hc
      obtain ⟨⟨hlen, hv, hcell'⟩, hf1, hf2, _⟩ := hc
      have hcell : Gen.cellOn VerdictEx.PrecOk.G 5 (trTerm st.transTab 5) (st.states[5]?.getD []) 2 =
          .ok [.shift 3 [1, 1, 1], .reduce 1] := by
        cases hco : Gen.cellOn VerdictEx.PrecOk.G 5 (trTerm st.transTab 5) (st.states[5]?.getD []) 2 with
        | error e => rw [hco] at hcell'; cases hcell'
        | ok c => rw [hco] at hcell'; cases hcell'; rfl
      have hwf : wfGrammarB VerdictEx.PrecOk.G 5 2 = true := by decide
      have hord : ordOKB 5 2 constructEx_ordPrec = true := by decide
      have hset := (precedence_only_settles_sr_of_one_rule hwf hord VerdictEx.PrecOk.info hst hcell
        (by decide)).2
      have hs : 5 < st.states.length := by omega
      obtain ⟨hhit, _, _⟩ := accepted_tables_are_lalr hwf hord hst hT hv hs (a := 2) (by decide)
      obtain ⟨_, hmiss, _⟩ := accepted_tables_are_lalr hwf hord hst hT hv hs (a := 4) (by decide)
      obtain ⟨x, hx, hcand, _, _⟩ := hhit (-1) hf1
      have hx1 : x = .reduce 1 := by
        cases x with
        | shift t ps => simp only [actCode] at hx; omega
        | reduce p => simp only [actCode] at hx; congr 1; omega
        | accept => simp [actCode, acceptCode] at hx
      subst hx1
      exact ⟨st, T, rfl, hT, hv, hset, hf1, hcand, hmiss hf2⟩

/-- `generator_never_hides_conflict` on the accepted grammar: at most one action is left in every
LALR(1) cell. -/
example : ∃ st, construct VerdictEx.PrecOk.G 5 constructEx_ordPrec = some st ∧
    ∀ s a cell, CellOf VerdictEx.PrecOk.G (skelOf st) (LALRItem VerdictEx.PrecOk.G (skelOf st)) s a cell →
      (resolveOne VerdictEx.PrecOk.info cell).1.length ≤ 1 := by
  have hc := constructEx_checks.2.2
  cases hst : construct VerdictEx.PrecOk.G 5 constructEx_ordPrec with
  | none => rw [hst] at hc; cases hc
  | some st =>
    rw [hst] at hc
    simp only [Option.map_some, Option.some.injEq, Prod.mk.injEq] at hc
    have hv : hasConflictsP VerdictEx.PrecOk.info VerdictEx.PrecOk.G 5 st = false := hc.2
    exact ⟨st, rfl, fun s a cell hcell =>
      (generator_never_hides_conflict (nR := 2) (by decide) (by decide) _ hst hv s a).2 cell hcell⟩

/-- The hypothesis `hsearch` of `generator_passes_conflict_check_partial` holds on the refused
ambiguous grammar (so the whole Boolean validator passes there, as `constructEx_checks` evaluates),
and `generator_passes_closed_check` applies. -/
example : ∃ st, construct VerdictEx.Amb.G 4 constructEx_ordAmb = some st ∧
    (rankOKB VerdictEx.Amb.G (rankTabs VerdictEx.Amb.G 4 2) &&
      itemsJustB VerdictEx.Amb.G (skelAuto st.transTab st.cert) (rankTabs VerdictEx.Amb.G 4 2)
        (Jst.searchRanks VerdictEx.Amb.G 2 (skelAuto st.transTab st.cert) st.cert
          (rankTabs VerdictEx.Amb.G 4 2)).1
        (Jst.searchRanks VerdictEx.Amb.G 2 (skelAuto st.transTab st.cert) st.cert
          (rankTabs VerdictEx.Amb.G 4 2)).2 st.cert.size) = true ∧
    closedSkelB VerdictEx.Amb.G 4 2 st.transTab st.cert = true := by
  have hc := constructEx_checks.1
  cases hst : construct VerdictEx.Amb.G 4 constructEx_ordAmb with
  | none => rw [hst] at hc; cases hc
  | some st =>
    rw [hst] at hc
    simp only [Option.map_some, Option.some.injEq, Prod.mk.injEq] at hc
    have h1 := hc.1
    rw [conflictCheckB_eq_search (wfGrammar_spec (by decide)) (ordOKB_spec (by decide)) hst] at h1
    exact ⟨st, rfl, h1, (generator_passes_closed_check (by decide) (by decide) hst).1⟩

/-- `generator_refuses_iff` needs no run at all: the ambiguous grammar. -/
example : ∃ st, construct VerdictEx.Amb.G 4 constructEx_ordAmb = some st ∧
    (hasConflictsP VerdictEx.Amb.info VerdictEx.Amb.G 4 st = true ↔
      ∃ γ s a, (∃ it, LR1Item VerdictEx.Amb.G γ it) ∧ Path (skelOf st) 0 γ s ∧
        (∀ s', Path (skelOf st) 0 γ s' → s' = s) ∧
        Unsettled VerdictEx.Amb.G VerdictEx.Amb.info (skelOf st)
          (LALRItem VerdictEx.Amb.G (skelOf st)) s a) :=
  generator_refuses_iff (nR := 2) (by decide) (by decide) (by decide) _

/-- `emitted_gotos_are_lalr` on the precedence grammar: `_Find(_goto, 3, e)` hits state 5, the
state reached by `e A e`. -/
example : ∃ st T, construct VerdictEx.PrecOk.G 5 constructEx_ordPrec = some st ∧
    emitParserP VerdictEx.PrecOk.info VerdictEx.PrecOk.G 5 constructEx_ordPrec st = some T ∧
    find T.gotos 3 1 = .hit 5 ∧ trans (skelOf st) 3 (.n 1) = some 5 := by
  have hc : (construct VerdictEx.PrecOk.G 5 constructEx_ordPrec).bind (fun st =>
      (emitParserP VerdictEx.PrecOk.info VerdictEx.PrecOk.G 5 constructEx_ordPrec st).map fun T =>
        (st.states.length, find T.gotos 3 1)) = some (7, .hit 5) := by decide +kernel
  cases hst : construct VerdictEx.PrecOk.G 5 constructEx_ordPrec with
  | none => rw [hst] at hc; cases hc
  | some st =>
    rw [hst] at hc
    simp only [Option.bind_some] at hc
    cases hT : emitParserP VerdictEx.PrecOk.info VerdictEx.PrecOk.G 5 constructEx_ordPrec st with
    | none => rw [hT] at hc; cases hc
    | some T =>
      rw [hT] at hc
      simp only [Option.map_some, Option.some.injEq, Prod.mk.injEq] at hc
      obtain ⟨hlen, hf⟩ := hc
      obtain ⟨hhit, _, _⟩ := emitted_gotos_are_lalr (nR := 2) (B := 1) (by decide) (by decide) hst hT
        (show 3 < st.states.length by omega) (by decide)
      obtain ⟨t, ht, htr, _⟩ := hhit 5 hf
      have : t = 5 := by omega
      subst this
      exact ⟨st, T, rfl, hT, hf, htr⟩

/-- The hypotheses of `lalr1_grammar_gets_exact_parser` hold on the grammar of defect D1
(`Lox.Props.C01.gD1`, 10 states): the model's cells are single (evaluation), hence – by
`conflictFree_iff_lalr1` – the grammar is LALR(1) by definition; and the conclusion. -/
example : ∃ st, construct Lox.Props.C01.gD1 7 Lox.Props.C01.e2eOrd = some st ∧
    (∀ s a, ¬ Conflict Lox.Props.C01.gD1 (skelOf st) (LALRItem Lox.Props.C01.gD1 (skelOf st)) s a) ∧
    ∃ T, generate Lox.Props.C01.gD1 7 Lox.Props.C01.e2eOrd = some (T, st.cert) ∧
      check Lox.Props.C01.gD1 7 5 T st.cert = .ok () := by
  have hfree : conflictFree Lox.Props.C01.gD1 7 Lox.Props.C01.e2eOrd = true := by decide +kernel
  have hlen : (construct Lox.Props.C01.gD1 7 Lox.Props.C01.e2eOrd).map (·.states.length) =
      some 10 := by decide +kernel
  cases hst : construct Lox.Props.C01.gD1 7 Lox.Props.C01.e2eOrd with
  | none => rw [hst] at hlen; cases hlen
  | some st =>
    rw [hst] at hlen
    simp only [Option.map_some, Option.some.injEq] at hlen
    have hl := (conflictFree_iff_lalr1 (nR := 5) (by decide) (by decide) hst).mp hfree
    obtain ⟨_, T, hgen, hchk, _⟩ :=
      lalr1_grammar_gets_exact_parser (nR := 5) (by decide) (by decide) hst hl (by omega)
    exact ⟨st, rfl, hl, T, hgen, hchk⟩

end Lox.Props.C04
