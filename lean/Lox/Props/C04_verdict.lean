import Lox.LR.ConflictVerdict
/-!
# C04 – the verdict "grammar has conflicts" is the verdict of the definition, for refused and accepted grammars alike

Property (verbatim): "lox refuses a grammar with 'grammar has conflicts' if and only if its LALR(1)
automaton has a state and lookahead with more than one action left after the documented precedence
rule is applied; it never silently picks an action and never rejects an LALR(1) grammar."

**Definition** (read `Lox/LR/LALR.lean` and `Lox/LR/ConflictSpec.lean`; nothing algorithmic):
`LALRItem G A s` – the LALR(1) item set of state `s` (LR(1) items valid for the viable prefixes
that lead to `s`, semantic FIRST); `Cand` – the candidate actions an item set calls for on a
terminal; `Conflict` – two different candidates; `Settled` – the documented precedence rule applies
(exactly one shift and one reduce; every production contributing to the shift and the reduced one
belong to one rule; explicit precedences, equal among the contributors); `Unsettled` = `Conflict`
and not `Settled`.

**What is validated** (`Lox/LR/ConflictCheck.lean`, driver op `lr.conflict_check`, family
`conflict`): the item sets and the transitions of EVERY run of the real `ConstructLALR` – no emitted
tables are needed, so this covers the grammars lox refuses. `conflictCheckB` checks ⊇ (start item,
goto along the transitions, closure w.r.t. a closed FIRST table, every symbol after a dot has a
transition), ⊆ (ranked justification) and distinct kernels; `verdictB` recomputes
`ParserTable.HasConflicts` from the certificate with the models of `createActions`
(`Lox.LR.Gen.cellOn`) and of the loop of `resolveConflicts` (`Lox.Dec.hasConflicts`); the driver
answers `ok …` only if it equals the flag of the real run (`conflictVerdict`).

The automaton skeleton is `skelAuto tr cert`: its edges are exactly the given transitions.
`resolveOne` is the model of the code (with known finding K1 in which action SURVIVES); whether a
cell is settled at all does not depend on K1 (`CellOf.resolved_iff` is stated with `resolveOne`
and characterises it by `Settled`, which mentions no associativity).
-/
namespace Lox.Props.C04
open Lox.LR Lox.Dec

section
variable {G : Grammar} {nTerms nRules : Nat} {tr : TransTab} {cert : Array (List Item)}

/-- **conflict_check_sound.** If the checks pass then (1) for every state `s` the generator's item
set is the LALR(1) item set of `s` BY DEFINITION; (2) every viable prefix (a prefix some LR(1) item
is valid for) leads from state 0 to exactly one state, which holds that item; (3) distinct states
have distinct LR(0) kernels. -/
theorem conflict_check_sound (h : conflictCheckB G nTerms nRules tr cert = true) :
    (∀ s it, it ∈ itemsOf cert s ↔ LALRItem G (skelAuto tr cert) s it) ∧
    (∀ γ it, LR1Item G γ it → ∃ s, Path (skelAuto tr cert) 0 γ s ∧
      (∀ s', Path (skelAuto tr cert) 0 γ s' → s' = s) ∧ s < cert.size ∧ it ∈ itemsOf cert s) ∧
    KernelsDistinct (skelAuto tr cert) cert.size :=
  have ok := conflictCheckB_spec h
  ⟨ok.items_exact, fun _ _ hit => ok.prefix_state hit, ok.kernels⟩

/-- In a productive grammar (checked by `productiveB`) the validated skeleton IS the LR(0)
automaton and the item sets are the textbook LALR(1) sets, no automaton mentioned: every LR(0)
viable prefix reaches a state; the cores of the state reached along `γ` are the LR(0) items valid
for `γ`; two prefixes reach the same state iff they have the same LR(0) items; the item set of the
state reached along `γ` is `LALRSet G γ`. -/
theorem skeleton_is_lr0_automaton (h : conflictCheckB G nTerms nRules tr cert = true)
    (hp : productiveB G nRules = true) :
    (∀ γ p d, LR0Item G γ p d → ∃ s, Path (skelAuto tr cert) 0 γ s) ∧
    (∀ γ s, Path (skelAuto tr cert) 0 γ s → ∀ p d,
      HasCore (itemsOf cert s) p d ↔ LR0Item G γ p d) ∧
    (∀ γ γ' s s', Path (skelAuto tr cert) 0 γ s → Path (skelAuto tr cert) 0 γ' s' →
      (s = s' ↔ SameLR0 G γ γ')) ∧
    (∀ γ s, Path (skelAuto tr cert) 0 γ s → ∀ it, it ∈ itemsOf cert s ↔ LALRSet G γ it) := by
  have ok := conflictCheckB_spec h
  have hcl := ok.skel.closed
  have hs := ok.skel.safe
  have he := ok.skel.edgesBacked
  have hpr := productiveB_sound hp
  have hn : ∀ s it, it ∈ (skelAuto tr cert).items s → s < cert.size := fun s it hit => mem_itemsOf hit
  refine ⟨fun γ p d hlr => ?_, fun γ s hpath p d => cores_eq_lr0 hcl hs ok.justd hpr hpath p d,
    fun γ γ' s s' hpath hpath' => ⟨fun e p d => ?_, fun hsame => ?_⟩,
    fun γ s hpath it => items_eq_lalrSet hcl hs ok.justd he ok.kernels hn hpr hpath it⟩
  · obtain ⟨s, hpath, _⟩ := hlr.in_state hcl hpr
    exact ⟨s, hpath⟩
  · subst e
    rw [← cores_eq_lr0 hcl hs ok.justd hpr hpath, ← cores_eq_lr0 hcl hs ok.justd hpr hpath']
  · exact same_state hcl hs ok.justd he ok.kernels hn hpr hpath' hpath hsame

/-- **verdict_exact.** If the checks pass: some (state, terminal) cell of the LALR(1) automaton by
definition has two different candidate actions that the documented precedence rule does not settle
⇔ the conflict flag computed from the certificate (`createActions` + `resolveConflicts` models:
`hasConflicts` of the cells built from `cert`) is set. The driver compares this Boolean with the
`HasConflicts` flag of the real run. -/
theorem verdict_exact (h : conflictCheckB G nTerms nRules tr cert = true) (info : Nat → ProdInfo) :
    (∃ s a, Unsettled G info (skelAuto tr cert) (LALRItem G (skelAuto tr cert)) s a) ↔
      verdictB G nTerms info tr cert = true :=
  (verdictB_iff (conflictCheckB_spec h) info).symm

/-- The same with `resolveOne` on ANY listing of the candidate actions by definition (`CellOf`:
each candidate once, in any order; the shift carrying the contributing productions): the flag is
set ⇔ some cell lists at least two candidates and `resolveConflict` does not resolve it. -/
theorem verdict_exact_cells (h : conflictCheckB G nTerms nRules tr cert = true)
    (info : Nat → ProdInfo) :
    (∃ s a cell, CellOf G (skelAuto tr cert) (LALRItem G (skelAuto tr cert)) s a cell ∧
        2 ≤ cell.length ∧ (resolveOne info cell).2 = false) ↔
      verdictB G nTerms info tr cert = true := by
  have ok := conflictCheckB_spec h
  rw [← verdict_exact h info]
  constructor
  · rintro ⟨s, a, cell, hcell, hlen, hres⟩
    refine ⟨s, a, hcell.conflict_iff.mp hlen, fun hs => ?_⟩
    rw [(hcell.resolved_iff info).mpr hs] at hres
    cases hres
  · rintro ⟨s, a, hconf, hns⟩
    obtain ⟨cell, _, hcell, _⟩ := ok.skel.cellOn_cellOf s a
    have hcl := hcell.congr (ok.items_exact s)
    refine ⟨s, a, cell, hcl, hcl.conflict_iff.mpr hconf, ?_⟩
    cases hr : (resolveOne info cell).2 with
    | false => rfl
    | true => exact absurd ((hcl.resolved_iff info).mp hr) hns

/-- What an `ok` answer of the driver op `lr.conflict_check` means. -/
theorem conflictVerdict_ok_iff {info : Nat → ProdInfo} {flag v : Bool} :
    conflictVerdict G nTerms nRules info tr cert flag = .ok v ↔
      conflictCheckB G nTerms nRules tr cert = true ∧ verdictB G nTerms info tr cert = v ∧
        v = flag := by
  unfold conflictVerdict conflictCheck
  by_cases hc : conflictCheckB G nTerms nRules tr cert = true
  · simp only [hc, if_true, true_and]
    by_cases hv : verdictB G nTerms info tr cert = flag
    · simp only [hv, beq_self_eq_true, if_true, Except.ok.injEq]
      constructor
      · rintro rfl; exact ⟨rfl, rfl⟩
      · rintro ⟨rfl, _⟩; rfl
    · have : (verdictB G nTerms info tr cert == flag) = false := by simpa using hv
      simp only [this, Bool.false_eq_true, if_false]
      constructor
      · intro e; cases e
      · rintro ⟨rfl, e⟩; exact absurd e hv
  · simp [hc]

/-- **refused_has_lalr_conflict.** lox says "grammar has conflicts" (`flag = true`) and the
validator answers `ok`: then the LALR(1) automaton BY DEFINITION has a cell with two different
candidate actions that the documented precedence rule does not settle – lox did not reject an
LALR(1) grammar. -/
theorem refused_has_lalr_conflict {info : Nat → ProdInfo} {v : Bool}
    (h : conflictVerdict G nTerms nRules info tr cert true = .ok v) :
    ∃ s a, Unsettled G info (skelAuto tr cert) (LALRItem G (skelAuto tr cert)) s a := by
  obtain ⟨hc, hv, rfl⟩ := conflictVerdict_ok_iff.mp h
  exact (verdict_exact hc info).mpr hv

/-- **accepted_has_none.** lox accepts (`flag = false`) and the validator answers `ok`: then no
cell of the LALR(1) automaton by definition is left with two actions after the documented rule:
every cell has at most one candidate, or exactly a shift and a reduce that the rule settles. -/
theorem accepted_has_none {info : Nat → ProdInfo} {v : Bool}
    (h : conflictVerdict G nTerms nRules info tr cert false = .ok v) (s a : Nat) :
    ¬ Conflict G (skelAuto tr cert) (LALRItem G (skelAuto tr cert)) s a ∨
      Settled G info (skelAuto tr cert) (LALRItem G (skelAuto tr cert)) s a := by
  obtain ⟨hc, hv, rfl⟩ := conflictVerdict_ok_iff.mp h
  have hno : ¬ ∃ s a, Unsettled G info (skelAuto tr cert) (LALRItem G (skelAuto tr cert)) s a := by
    rw [verdict_exact hc info, hv]; simp
  by_cases hcf : Conflict G (skelAuto tr cert) (LALRItem G (skelAuto tr cert)) s a
  · by_cases hs : Settled G info (skelAuto tr cert) (LALRItem G (skelAuto tr cert)) s a
    · exact .inr hs
    · exact absurd ⟨s, a, hcf, hs⟩ hno
  · exact .inl hcf

/-- In a productive grammar the unsettled cell of a refused grammar sits in a textbook LALR(1) item
set: there is a viable prefix `γ` such that the state it reaches carries exactly `LALRSet G γ` and
has an unsettled cell. -/
theorem refused_conflict_in_lalr_set {info : Nat → ProdInfo} {v : Bool}
    (h : conflictVerdict G nTerms nRules info tr cert true = .ok v)
    (hp : productiveB G nRules = true) :
    ∃ γ s a, Path (skelAuto tr cert) 0 γ s ∧ (∀ it, it ∈ itemsOf cert s ↔ LALRSet G γ it) ∧
      Unsettled G info (skelAuto tr cert) (fun s it => it ∈ itemsOf cert s) s a := by
  obtain ⟨s, a, hconf, hns⟩ := refused_has_lalr_conflict h
  obtain ⟨hc, _, _⟩ := conflictVerdict_ok_iff.mp h
  have ok := conflictCheckB_spec hc
  obtain ⟨x, y, hx, hy, hne⟩ := hconf
  have hit : ∃ it, LALRItem G (skelAuto tr cert) s it := by
    cases hx with
    | shift hmem _ _ _ => exact ⟨_, hmem⟩
    | reduce hmem _ _ => exact ⟨_, hmem⟩
    | accept hmem _ => exact ⟨_, hmem⟩
  obtain ⟨it, γ, hpath, _⟩ := hit
  have hex : ∀ it, LALRItem G (skelAuto tr cert) s it ↔ it ∈ itemsOf cert s :=
    fun it => (ok.items_exact s it).symm
  refine ⟨γ, s, a, hpath, (skeleton_is_lr0_automaton hc hp).2.2.2 γ s hpath,
    ⟨x, y, hx.mono_at fun it => (hex it).mp, hy.mono_at fun it => (hex it).mp, hne⟩, fun hs => hns ?_⟩
  obtain ⟨t, rp, h1, h2, h3, h4⟩ := hs
  refine ⟨t, rp, fun act => ?_, fun q hq => h2 q (hq.mono_at fun it => (hex it).mp),
    fun q q' hq hq' => h3 q q' (hq.mono_at fun it => (hex it).mp) (hq'.mono_at fun it => (hex it).mp), h4⟩
  rw [← h1 act]
  exact ⟨Cand.mono_at fun it => (hex it).mp, Cand.mono_at fun it => (hex it).mpr⟩

end

/-! ## Non-vacuity: three runs of the real `ConstructLALR` (lines of the `conflict` family) -/

/-- `s = s s | A` (ambiguous; lox refuses it). Terminals: 0 EOF, 1 ERROR, 2 A, 3 unused. -/
def VerdictEx.Amb.G : Grammar := ⟨#[⟨0, [.n 1]⟩, ⟨1, [.n 1, .n 1]⟩, ⟨1, [.t 2]⟩]⟩
def VerdictEx.Amb.info : Nat → ProdInfo := fun q => [⟨0, 0, false⟩, ⟨1, 0, false⟩, ⟨1, 0, false⟩].getD q ⟨0, 0, false⟩
def VerdictEx.Amb.tr : TransTab := #[[(.t 2, 1), (.n 1, 2)], [], [(.t 2, 1), (.n 1, 3)], [(.t 2, 1), (.n 1, 3)]]
def VerdictEx.Amb.cert : Array (List Item) := #[[⟨0, 0, 0⟩, ⟨1, 0, 0⟩, ⟨1, 0, 2⟩, ⟨2, 0, 0⟩, ⟨2, 0, 2⟩],
  [⟨2, 1, 0⟩, ⟨2, 1, 2⟩],
  [⟨0, 1, 0⟩, ⟨1, 0, 0⟩, ⟨1, 0, 2⟩, ⟨1, 1, 0⟩, ⟨1, 1, 2⟩, ⟨2, 0, 0⟩, ⟨2, 0, 2⟩],
  [⟨1, 0, 0⟩, ⟨1, 0, 2⟩, ⟨1, 1, 0⟩, ⟨1, 1, 2⟩, ⟨1, 2, 0⟩, ⟨1, 2, 2⟩, ⟨2, 0, 0⟩, ⟨2, 0, 2⟩]]

theorem verdictEx_amb_ok : conflictVerdict VerdictEx.Amb.G 4 2 VerdictEx.Amb.info VerdictEx.Amb.tr VerdictEx.Amb.cert true = .ok true :=
  conflictVerdict_ok_iff.mpr ⟨by decide +kernel, by decide +kernel, rfl⟩

/-- The hypotheses of `conflict_check_sound`, `verdict_exact`, `refused_has_lalr_conflict` hold on
the real output for the refused grammar `s = s s | A`; the conclusion: the definition has an
unsettled cell. -/
example : ∃ s a, Unsettled VerdictEx.Amb.G VerdictEx.Amb.info (skelAuto VerdictEx.Amb.tr VerdictEx.Amb.cert)
    (LALRItem VerdictEx.Amb.G (skelAuto VerdictEx.Amb.tr VerdictEx.Amb.cert)) s a :=
  refused_has_lalr_conflict verdictEx_amb_ok

/-- … and `[s → s s ·, A]` is an LALR(1) item of state 3 by definition. -/
example : LALRItem VerdictEx.Amb.G (skelAuto VerdictEx.Amb.tr VerdictEx.Amb.cert) 3 ⟨1, 2, 2⟩ :=
  ((conflict_check_sound (conflictVerdict_ok_iff.mp verdictEx_amb_ok).1).1 3 ⟨1, 2, 2⟩).mp (by decide)

example : productiveB VerdictEx.Amb.G 2 = true := by decide

/-- The classic LR(1)-but-not-LALR(1) grammar `s = A x D | B y D | A y E | B x E; x = C; y = C`
(lox refuses it: the merged state after `C` reduces both `x` and `y` on `D` and on `E`). -/
def VerdictEx.NotLalr.G : Grammar := ⟨#[⟨0, [.n 1]⟩, ⟨1, [.t 2, .n 2, .t 5]⟩, ⟨1, [.t 3, .n 3, .t 5]⟩,
  ⟨1, [.t 2, .n 3, .t 6]⟩, ⟨1, [.t 3, .n 2, .t 6]⟩, ⟨2, [.t 4]⟩, ⟨3, [.t 4]⟩]⟩
def VerdictEx.NotLalr.info : Nat → ProdInfo := fun q => [⟨0, 0, false⟩, ⟨1, 0, false⟩, ⟨1, 0, false⟩,
  ⟨1, 0, false⟩, ⟨1, 0, false⟩, ⟨2, 0, false⟩, ⟨3, 0, false⟩].getD q ⟨0, 0, false⟩
def VerdictEx.NotLalr.tr : TransTab := #[[(.t 2, 1), (.t 3, 2), (.n 1, 3)], [(.t 4, 4), (.n 2, 5), (.n 3, 6)],
  [(.t 4, 4), (.n 2, 7), (.n 3, 8)], [], [], [(.t 5, 9)], [(.t 6, 11)], [(.t 6, 12)], [(.t 5, 10)],
  [], [], [], []]
def VerdictEx.NotLalr.cert : Array (List Item) := #[[⟨0, 0, 0⟩, ⟨1, 0, 0⟩, ⟨2, 0, 0⟩, ⟨3, 0, 0⟩, ⟨4, 0, 0⟩],
  [⟨1, 1, 0⟩, ⟨3, 1, 0⟩, ⟨5, 0, 5⟩, ⟨6, 0, 6⟩],
  [⟨2, 1, 0⟩, ⟨4, 1, 0⟩, ⟨5, 0, 6⟩, ⟨6, 0, 5⟩],
  [⟨0, 1, 0⟩],
  [⟨5, 1, 5⟩, ⟨5, 1, 6⟩, ⟨6, 1, 5⟩, ⟨6, 1, 6⟩],
  [⟨1, 2, 0⟩], [⟨3, 2, 0⟩], [⟨4, 2, 0⟩], [⟨2, 2, 0⟩], [⟨1, 3, 0⟩], [⟨2, 3, 0⟩], [⟨3, 3, 0⟩],
  [⟨4, 3, 0⟩]]

theorem verdictEx_notLalr_ok :
    conflictVerdict VerdictEx.NotLalr.G 7 4 VerdictEx.NotLalr.info VerdictEx.NotLalr.tr VerdictEx.NotLalr.cert true = .ok true :=
  conflictVerdict_ok_iff.mpr ⟨by decide +kernel, by decide +kernel, rfl⟩

example : ∃ s a, Unsettled VerdictEx.NotLalr.G VerdictEx.NotLalr.info (skelAuto VerdictEx.NotLalr.tr VerdictEx.NotLalr.cert)
    (LALRItem VerdictEx.NotLalr.G (skelAuto VerdictEx.NotLalr.tr VerdictEx.NotLalr.cert)) s a :=
  refused_has_lalr_conflict verdictEx_notLalr_ok

/-- The automaton-free form applies (the grammar is productive). -/
example : ∃ γ s a, Path (skelAuto VerdictEx.NotLalr.tr VerdictEx.NotLalr.cert) 0 γ s ∧
    (∀ it, it ∈ itemsOf VerdictEx.NotLalr.cert s ↔ LALRSet VerdictEx.NotLalr.G γ it) ∧
    Unsettled VerdictEx.NotLalr.G VerdictEx.NotLalr.info (skelAuto VerdictEx.NotLalr.tr VerdictEx.NotLalr.cert)
      (fun s it => it ∈ itemsOf VerdictEx.NotLalr.cert s) s a :=
  refused_conflict_in_lalr_set verdictEx_notLalr_ok (by decide)

/-- `e = e A e @left(1) | e B e @left(2) | C`: every shift/reduce conflict is settled by the
precedence rule, lox accepts. -/
def VerdictEx.PrecOk.G : Grammar := ⟨#[⟨0, [.n 1]⟩, ⟨1, [.n 1, .t 2, .n 1]⟩, ⟨1, [.n 1, .t 3, .n 1]⟩, ⟨1, [.t 4]⟩]⟩
def VerdictEx.PrecOk.info : Nat → ProdInfo := fun q => [⟨0, 0, false⟩, ⟨1, 1, false⟩, ⟨1, 2, false⟩, ⟨1, 0, false⟩].getD q ⟨0, 0, false⟩
def VerdictEx.PrecOk.tr : TransTab := #[[(.t 4, 1), (.n 1, 2)], [], [(.t 2, 3), (.t 3, 4)], [(.t 4, 1), (.n 1, 5)],
  [(.t 4, 1), (.n 1, 6)], [(.t 2, 3), (.t 3, 4)], [(.t 2, 3), (.t 3, 4)]]
def VerdictEx.PrecOk.cert : Array (List Item) := #[[⟨0, 0, 0⟩, ⟨1, 0, 0⟩, ⟨1, 0, 2⟩, ⟨1, 0, 3⟩, ⟨2, 0, 0⟩, ⟨2, 0, 2⟩, ⟨2, 0, 3⟩, ⟨3, 0, 0⟩, ⟨3, 0, 2⟩, ⟨3, 0, 3⟩],
  [⟨3, 1, 0⟩, ⟨3, 1, 2⟩, ⟨3, 1, 3⟩],
  [⟨0, 1, 0⟩, ⟨1, 1, 0⟩, ⟨1, 1, 2⟩, ⟨1, 1, 3⟩, ⟨2, 1, 0⟩, ⟨2, 1, 2⟩, ⟨2, 1, 3⟩],
  [⟨1, 0, 0⟩, ⟨1, 0, 2⟩, ⟨1, 0, 3⟩, ⟨1, 2, 0⟩, ⟨1, 2, 2⟩, ⟨1, 2, 3⟩, ⟨2, 0, 0⟩, ⟨2, 0, 2⟩, ⟨2, 0, 3⟩, ⟨3, 0, 0⟩, ⟨3, 0, 2⟩, ⟨3, 0, 3⟩],
  [⟨1, 0, 0⟩, ⟨1, 0, 2⟩, ⟨1, 0, 3⟩, ⟨2, 0, 0⟩, ⟨2, 0, 2⟩, ⟨2, 0, 3⟩, ⟨2, 2, 0⟩, ⟨2, 2, 2⟩, ⟨2, 2, 3⟩, ⟨3, 0, 0⟩, ⟨3, 0, 2⟩, ⟨3, 0, 3⟩],
  [⟨1, 1, 0⟩, ⟨1, 1, 2⟩, ⟨1, 1, 3⟩, ⟨1, 3, 0⟩, ⟨1, 3, 2⟩, ⟨1, 3, 3⟩, ⟨2, 1, 0⟩, ⟨2, 1, 2⟩, ⟨2, 1, 3⟩],
  [⟨1, 1, 0⟩, ⟨1, 1, 2⟩, ⟨1, 1, 3⟩, ⟨2, 1, 0⟩, ⟨2, 1, 2⟩, ⟨2, 1, 3⟩, ⟨2, 3, 0⟩, ⟨2, 3, 2⟩, ⟨2, 3, 3⟩]]

theorem verdictEx_precOk_ok : conflictVerdict VerdictEx.PrecOk.G 5 2 VerdictEx.PrecOk.info VerdictEx.PrecOk.tr VerdictEx.PrecOk.cert false = .ok false :=
  conflictVerdict_ok_iff.mpr ⟨by decide +kernel, by decide +kernel, rfl⟩

/-- The hypothesis of `accepted_has_none` holds on the real output for an accepted grammar WITH
conflicts by definition: state 5 (after `e A e`) on `A` has a conflict, and it is settled. -/
example : Settled VerdictEx.PrecOk.G VerdictEx.PrecOk.info (skelAuto VerdictEx.PrecOk.tr VerdictEx.PrecOk.cert)
    (LALRItem VerdictEx.PrecOk.G (skelAuto VerdictEx.PrecOk.tr VerdictEx.PrecOk.cert)) 5 2 := by
  rcases accepted_has_none verdictEx_precOk_ok 5 2 with h | h
  · refine absurd ?_ h
    have hc := (conflictVerdict_ok_iff.mp verdictEx_precOk_ok).1
    have ex := (conflict_check_sound hc).1
    refine ⟨.shift 3, .reduce 1, ?_, ?_, by decide⟩
    · exact .shift (p := 1) (d := 1) (b := 0) (pr := ⟨1, [.n 1, .t 2, .n 1]⟩)
        ((ex 5 ⟨1, 1, 0⟩).mp (by decide)) rfl rfl (by decide)
    · exact .reduce (p := 1) (pr := ⟨1, [.n 1, .t 2, .n 1]⟩) ((ex 5 ⟨1, 3, 2⟩).mp (by decide)) rfl
        (by decide)
  · exact h

/-- A wrong flag is rejected: the refused grammar presented as accepted. -/
example : ∀ v, conflictVerdict VerdictEx.Amb.G 4 2 VerdictEx.Amb.info VerdictEx.Amb.tr VerdictEx.Amb.cert false ≠ .ok v := by
  intro v h
  obtain ⟨_, hv, rfl⟩ := conflictVerdict_ok_iff.mp h
  have := (conflictVerdict_ok_iff.mp verdictEx_amb_ok).2.1
  rw [this] at hv
  cases hv

/-- An invented lookahead is rejected (⊆): `[s → A ·, 3]` added to state 1. -/
example : conflictCheckB VerdictEx.Amb.G 4 2 VerdictEx.Amb.tr (VerdictEx.Amb.cert.set! 1 [⟨2, 1, 0⟩, ⟨2, 1, 2⟩, ⟨2, 1, 3⟩]) = false := by
  decide +kernel

/-- A missing lookahead is rejected (⊇): `[s → s s ·, A]` removed from state 3 (this is what
would hide the conflict). -/
example : conflictCheckB VerdictEx.Amb.G 4 2 VerdictEx.Amb.tr (VerdictEx.Amb.cert.set! 3
    [⟨1, 0, 0⟩, ⟨1, 0, 2⟩, ⟨1, 1, 0⟩, ⟨1, 1, 2⟩, ⟨1, 2, 0⟩, ⟨2, 0, 0⟩, ⟨2, 0, 2⟩]) = false := by
  decide +kernel

end Lox.Props.C04
