import Lox.LR.EmitProofsCheck
import Lox.LR.EmitProofsTotal
import Lox.Props.C01
import Lox.Props.C01_gen
/-!
# C01, end to end on the model of the generator: the emitted tables ALWAYS pass the validator

`Lox/Props/C01.lean` decides C01 per emitted artefact: `check` accepted ⇒ the table-driven parser
accepts exactly L(G). Here the artefact is the output of the MODEL of the generator,
`Lox.LR.Emit.generate G nT ord` = `Cons.construct` (model of the worklist of `lr1.ConstructLALR`,
`Lox/LR/ConstructModel.lean`) followed by `Emit.emitParser` (model of `createActions` and of the
closures `actions` / `goto` / `lhs` / `term_counts` of `codegen.EmitParser` over the model of
`codegen/table.go`, `Lox/LR/EmitModel.lean`), tied to the real generator number for number by the
family `emit` (`/verif/harness/drv/ops_emit.go`: the arrays read back from the emitted
`parser.gen.go`).

* `emit_find_actions`, `emit_find_goto`: for ALL grammars and tables (conflicts or not, with or
  without precedences) `_Find` on the emitted `_actions` returns the code of the FIRST action of
  the cell after `resolveConflicts`, and on `_goto` the recorded rule transition.
* `generator_valid`: for every well-formed grammar whose cells each hold one action, the emitted
  tables with the states' item lists as certificate pass `check`.
* `generator_correct`, `generator_unambiguous`, `generator_accepts_sentences`: hence the
  table-driven parser accepts `w` with tree `t` iff `t` derives `w` — for every conflict-free
  grammar, not per validated sample.
* `generator_total`: on such a grammar the model does not panic.
* `generator_safe`, `generator_sound`: for EVERY well-formed grammar — conflicts resolved by
  `@left/@right`, or even left unresolved — the emitted tables pass the soundness half `checkSafe`:
  whatever the table-driven parser accepts is a sentence, with the returned tree as its derivation.
-/
namespace Lox.Props.C01
open Lox.LR Lox.LR.Gen Lox.LR.Cons Lox.LR.Emit Lox.LR.Abs Lox.LR.FixFirst
open Lox.Dec (Action ProdInfo)

/-! ### `_Find` on the emitted arrays: all grammars -/

/-- **emit_find_actions.** Whatever the grammar, the table `st` (conflicts or not) and the
precedences `info`: if `EmitParser` does not panic, then for every state `s` the cells of `s`
after `createActions` + `resolveConflicts` exist, and for every terminal `a` listed in the
(duplicate-free) name order the generated `_Find(_actions, s, a)` returns the code of the FIRST
action of the cell `(s, a)` — `shift` target, `-prod`, or `MaxInt32` — and reports "not found" when
`a` has no cell. It never indexes out of range. -/
theorem emit_find_actions {info : Nat → ProdInfo} {G : Grammar} {nT : Nat} {ord : List Sym}
    {st : CState} {T : Tables} (h : emitParserP info G nT ord st = some T) (hn : ord.Nodup)
    {s : Nat} (hs : s < st.states.length) :
    ∃ cells, cellsOf info G nT (trTerm st.transTab s) (st.states[s]?.getD []) = some cells ∧
      (∀ a, Sym.t a ∈ ord → find T.actions (s : Int) (a : Int) =
        match lookupCell a cells with
        | some (act :: _) => .hit (actCode act)
        | _ => .miss) ∧
      ∀ x, find T.actions (s : Int) x ≠ .oob := by
  obtain ⟨row, hrow, _, hfind⟩ := (emitted_of_emitParserP h).arow s hs
  obtain ⟨cells, hc, _, _, hlk⟩ := actionRow_lookup hn hrow
  refine ⟨cells, hc, fun a ha => ?_, fun x => ?_⟩
  · rw [hfind, hlk a ha]
    cases lookupCell a cells with
    | none => rfl
    | some c => cases c <;> rfl
  · rw [hfind]
    exact lookResult_ne_oob _

/-- **emit_find_goto.** For every state `s` and every rule `B` listed in the name order,
`_Find(_goto, s, B)` returns the target of the recorded transition of `s` on `B`, and "not found"
when there is none; never out of range. -/
theorem emit_find_goto {info : Nat → ProdInfo} {G : Grammar} {nT : Nat} {ord : List Sym}
    {st : CState} {T : Tables} (h : emitParserP info G nT ord st = some T) (hn : ord.Nodup)
    {s : Nat} (hs : s < st.states.length) :
    (∀ B, Sym.n B ∈ ord → find T.gotos (s : Int) (B : Int) =
      match lookupSym (.n B) (st.trans[s]?.getD []) with
      | some t => .hit (t : Int)
      | none => .miss) ∧
    ∀ x, find T.gotos (s : Int) x ≠ .oob := by
  obtain ⟨_, hfind⟩ := (emitted_of_emitParserP h).grow s hs
  obtain ⟨hnd, hmem⟩ := gotoRow_spec hn (st.trans[s]?.getD [])
  refine ⟨fun B hB => ?_, fun x => by rw [hfind]; exact lookResult_ne_oob _⟩
  rw [hfind]
  unfold stateGotoRow
  cases hl : lookupSym (.n B) (st.trans[s]?.getD []) with
  | some t =>
    have : Lox.Table.firstMatch (gotoRow ord (st.trans[s]?.getD [])) (B : Int) = some (t : Int) :=
      (firstMatch_iff_mem hnd _ _).mpr ((hmem _ _).mpr ⟨B, t, rfl, rfl, hB, hl⟩)
    rw [this]; rfl
  | none =>
    have : Lox.Table.firstMatch (gotoRow ord (st.trans[s]?.getD [])) (B : Int) = none := by
      rw [Lox.Table.firstMatch_none]
      intro hm
      obtain ⟨⟨k, v⟩, he, hk⟩ := List.mem_map.mp hm
      obtain ⟨B', t, rfl, _, _, hl'⟩ := (hmem k v).mp he
      have hk' : (B' : Int) = (B : Int) := hk
      have : B' = B := by exact_mod_cast hk'
      subst this
      rw [hl] at hl'
      cases hl'
    rw [this]; rfl

/-! ### The well-formedness the front end guarantees -/

/-- Production 0 is `S' → start`, `S'` is on no right-hand side, every symbol is in range, and EOF
(terminal 0) is on no right-hand side: what `lr1.NewGrammar` / `SetStart` and the front end
establish, and what `check` itself demands of the grammar (`prod0B`, `noStartB`, `prodsB`; an
EOF on a right-hand side would make a shift on EOF, which `check` refuses). Decidable. -/
def wfGrammarB (G : Grammar) (nT nR : Nat) : Bool :=
  prod0B G && noStartB G && symsInRangeB G nT nR && noEofB G

/-! ### The end-to-end theorem -/

/-- **generator_valid.** For every grammar that is well formed (`wfGrammarB`), every name order
that lists each symbol once (`ordOKB`; it implies `OrdCovers`, and `wfGrammarB` implies
`TermsBelow`): if the model of the generator returns tables `T` and the certificate `cert`, and the
model's conflict verdict is "no conflict" in the strong sense that `createActions` left exactly one
action in every cell (`conflictFree`: no precedence resolution was needed), then the validator
accepts: `check G nT nR T cert = .ok ()`.

`hsmall` is the `int32` range of the emitted arrays: a shift to state `2147483647` would be
written as `MaxInt32`, which is the accept code. -/
theorem generator_valid {G : Grammar} {nT nR : Nat} {ord : List Sym} {T : Tables}
    {cert : Array (List Item)} (hwf : wfGrammarB G nT nR = true) (hord : ordOKB nT nR ord = true)
    (hgen : generate G nT ord = some (T, cert)) (hfree : conflictFree G nT ord = true)
    (hsmall : cert.size ≤ 2147483647) : check G nT nR T cert = .ok () := by
  simp only [wfGrammarB, Bool.and_eq_true] at hwf
  obtain ⟨⟨⟨hp0, hns⟩, hsyms⟩, hne⟩ := hwf
  have hS := symsInRangeB_spec hsyms
  have hO := ordOKB_spec hord
  unfold generate generateP at hgen
  unfold conflictFree at hfree
  cases hst : construct G nT ord with
  | none => simp [hst] at hgen
  | some st =>
    simp only [hst] at hgen hfree
    cases hT : emitParserP noPrec G nT ord st with
    | none => simp [hT] at hgen
    | some T' =>
      simp only [hT, Option.some.injEq, Prod.mk.injEq] at hgen
      obtain ⟨rfl, rfl⟩ := hgen
      obtain ⟨S', h0⟩ := prod0B_spec hp0
      have hb : Built G nT st :=
        built_of_construct (SymsInRange.termsBelow hS) (SymsInRange.ordCovers hS hO) h0 rfl hst
      have hr : Run G nT nR ord st T' :=
        { syms := hS, ordOK := hO, noStart := noStartB_spec hns,
          noEof := fun p pr hp => noEofB_spec hne hp, p0 := ⟨S', h0⟩, built := hb,
          emitted := emitted_of_emitParserP hT, free := hfree,
          small := by simpa [CState.cert] using hsmall }
      exact check_ok_iff.mpr (hr.checkB hp0 hns hsyms)

/-- **generator_total.** On a conflict-free grammar the model of `EmitParser` does not panic:
`generate` returns tables (a cell is never empty, `AddRow` is called with increasing indices). -/
theorem generator_total {G : Grammar} {nT : Nat} {ord : List Sym}
    (hfree : conflictFree G nT ord = true) : ∃ T cert, generate G nT ord = some (T, cert) := by
  unfold conflictFree at hfree
  unfold generate generateP
  cases hst : construct G nT ord with
  | none => simp [hst] at hfree
  | some st =>
    simp only [hst] at hfree
    obtain ⟨T, hT⟩ := emitParser_isSome (ord := ord) hfree
    unfold emitParser at hT
    exact ⟨T, st.cert, by simp [hT]⟩

/-- A conflict-free table is also conflict-free for the model of `resolveConflicts`
(`ParserTable.HasConflicts = false`), whatever the precedences: lox accepts the grammar. -/
theorem conflictFree_verdict {G : Grammar} {nT : Nat} {st : CState} (info : Nat → ProdInfo)
    (h : conflictFreeB G nT st = true) : hasConflictsP info G nT st = false :=
  conflictFreeB_verdict info h

/-- **generator_correct.** Under the hypotheses of `generator_valid`, for every token sequence `w`
(without the EOF terminal inside) the table-driven parser on the emitted tables accepts `w` with
tree `t` iff `t` is a derivation tree of `w` from the start symbol. -/
theorem generator_correct {G : Grammar} {nT nR : Nat} {ord : List Sym} {T : Tables}
    {cert : Array (List Item)} (hwf : wfGrammarB G nT nR = true) (hord : ordOKB nT nR ord = true)
    (hgen : generate G nT ord = some (T, cert)) (hfree : conflictFree G nT ord = true)
    (hsmall : cert.size ≤ 2147483647) {w : List Nat} (hw : eof ∉ w) (t : Tree) :
    (∃ fuel lg, run G (autoOf T cert) fuel (init w) = .acc t lg) ↔
      Der G [.n (startSym G)] w [t] :=
  tables_exact (generator_valid hwf hord hgen hfree hsmall) hw t

/-- Every grammar the model generates conflict-free tables for is unambiguous. -/
theorem generator_unambiguous {G : Grammar} {nT nR : Nat} {ord : List Sym} {T : Tables}
    {cert : Array (List Item)} (hwf : wfGrammarB G nT nR = true) (hord : ordOKB nT nR ord = true)
    (hgen : generate G nT ord = some (T, cert)) (hfree : conflictFree G nT ord = true)
    (hsmall : cert.size ≤ 2147483647) {w : List Nat} {t₁ t₂ : Tree}
    (h₁ : Der G [.n (startSym G)] w [t₁]) (h₂ : Der G [.n (startSym G)] w [t₂]) : t₁ = t₂ :=
  tables_unambiguous (generator_valid hwf hord hgen hfree hsmall) h₁ h₂

/-- The model of the GENERATED `parse` (with `_readToken`, `_recover`, `_Bounds`; `Lox.LR.parse`)
on the emitted tables accepts every sentence, performs the `_act` calls in the post-order of its
derivation tree and leaves that tree on the stack. -/
theorem generator_accepts_sentences {G : Grammar} {nT nR : Nat} {ord : List Sym} {T : Tables}
    {cert : Array (List Item)} (hwf : wfGrammarB G nT nR = true) (hord : ordOKB nT nR ord = true)
    (hgen : generate G nT ord = some (T, cert)) (hfree : conflictFree G nT ord = true)
    (hsmall : cert.size ≤ 2147483647) {w : List Nat} (hw : ∀ x ∈ w, x ≠ 1) {t : Tree}
    (hd : Der G [.n (startSym G)] w [t]) (wb : Bool) :
    ∃ n, ∀ fuel, n ≤ fuel →
      (parse T w.toArray wb fuel).1 = .accept ∧
      (actsOf (parse T w.toArray wb fuel).2.log).reverse = t.post ∧
      (parse T w.toArray wb fuel).2.stack.head?.map (fun e => e.sym.toTree) = some t :=
  parse_complete (generator_valid hwf hord hgen hfree hsmall) hw hd wb

/-- A rejection by the table-driven parser on the emitted tables is right: the input is not a
sentence. -/
theorem generator_rejects_only_nonsentences {G : Grammar} {nT nR : Nat} {ord : List Sym}
    {T : Tables} {cert : Array (List Item)} (hwf : wfGrammarB G nT nR = true)
    (hord : ordOKB nT nR ord = true) (hgen : generate G nT ord = some (T, cert))
    (hfree : conflictFree G nT ord = true) (hsmall : cert.size ≤ 2147483647) {w : List Nat}
    {fuel : Nat} (hr : run G (autoOf T cert) fuel (init w) = .fail) :
    ¬ ∃ t, Der G [.n (startSym G)] w [t] :=
  tables_reject (generator_valid hwf hord hgen hfree hsmall) hr

/-! ### The soundness half, for every grammar and every precedence table -/

/-- **generator_safe.** For every well-formed grammar, every precedence table `info` and every
name order that lists each symbol once: whatever tables the model of the generator emits —
conflicts resolved by `@left/@right` (the emitted action is the first action of the cell AFTER
`resolveConflicts`) or not resolved at all — pass `checkSafe` with the states' item lists as
certificate. No conflict-freeness is assumed: `resolveConflicts` only deletes actions, and every
action `createActions` puts into a cell is backed by an item of the state. -/
theorem generator_safe {info : Nat → ProdInfo} {G : Grammar} {nT nR : Nat} {ord : List Sym}
    {T : Tables} {cert : Array (List Item)} (hwf : wfGrammarB G nT nR = true)
    (hord : ordOKB nT nR ord = true) (hgen : generateP info G nT ord = some (T, cert))
    (hsmall : cert.size ≤ 2147483647) : checkSafe G nT nR T cert = .ok () := by
  simp only [wfGrammarB, Bool.and_eq_true] at hwf
  obtain ⟨⟨⟨hp0, hns⟩, hsyms⟩, hne⟩ := hwf
  have hS := symsInRangeB_spec hsyms
  have hO := ordOKB_spec hord
  unfold generateP at hgen
  cases hst : construct G nT ord with
  | none => simp [hst] at hgen
  | some st =>
    simp only [hst] at hgen
    cases hT : emitParserP info G nT ord st with
    | none => simp [hT] at hgen
    | some T' =>
      simp only [hT, Option.some.injEq, Prod.mk.injEq] at hgen
      obtain ⟨rfl, rfl⟩ := hgen
      obtain ⟨S', h0⟩ := prod0B_spec hp0
      have hb : Built G nT st :=
        built_of_construct (SymsInRange.termsBelow hS) (SymsInRange.ordCovers hS hO) h0 rfl hst
      have hr : RunS info G nT nR ord st T' :=
        { syms := hS, ordOK := hO, noStart := noStartB_spec hns,
          noEof := fun p pr hp => noEofB_spec hne hp, p0 := ⟨S', h0⟩, built := hb,
          emitted := emitted_of_emitParserP hT, small := by simpa [CState.cert] using hsmall }
      exact checkSafe_ok_iff.mpr (hr.checkSafeB hp0 hsyms)

/-- **generator_sound.** Whatever the table-driven parser accepts on tables emitted by the model —
for any grammar and precedences — is a sentence, the returned tree is a derivation tree of the
input and the reductions performed are its post-order. -/
theorem generator_sound {info : Nat → ProdInfo} {G : Grammar} {nT nR : Nat} {ord : List Sym}
    {T : Tables} {cert : Array (List Item)} (hwf : wfGrammarB G nT nR = true)
    (hord : ordOKB nT nR ord = true) (hgen : generateP info G nT ord = some (T, cert))
    (hsmall : cert.size ≤ 2147483647) {w : List Nat} (hw : eof ∉ w) {fuel : Nat} {t : Tree}
    {lg : List (Nat × List Tree)} (hr : run G (autoOf T cert) fuel (init w) = .acc t lg) :
    Der G [.n (startSym G)] w [t] ∧ lg = t.post :=
  tables_sound_safe (generator_safe hwf hord hgen hsmall) hw hr

/-! ### Non-vacuity

The grammar of defect D1, `s = tt r; tt = T; r = oo X | oo Y Z; oo = O | ε` (`gD1` of
`C01_gen.lean`: 7 terminals, 5 rules, 7 productions, 10 states), with the name order of the real
run (`EOF ERROR O S' T X Y Z oo r s tt`): all hypotheses hold by evaluation, and what the model
emits is literally what the real generator wrote into `parser.gen.go` for this grammar (the case
`lr.emit 7 5 | …` of the family `emit`). -/

def e2eOrd : List Sym :=
  [.t 0, .t 1, .t 6, .n 0, .t 2, .t 3, .t 4, .t 5, .n 4, .n 3, .n 1, .n 2]

example : wfGrammarB gD1 7 5 = true := by decide
example : ordOKB 7 5 e2eOrd = true := by decide
example : conflictFree gD1 7 e2eOrd = true := by decide +kernel

/-- The arrays the model emits = the arrays of the real `parser.gen.go`. -/
example : (generate gD1 7 e2eOrd).map (fun r =>
      (r.1.rules.toList, r.1.termCounts.toList, r.1.actions.toList, r.1.gotos.toList, r.2.size)) =
    some ([0, 1, 2, 3, 3, 4, 4], [1, 2, 1, 2, 3, 1, 0],
      [10, 13, 20, 23, 30, 35, 40, 43, 46, 49, 2, 2, 1, 6, 6, -2, 3, -2, 4, -2, 2, 0, 2147483647,
       6, 6, 4, 3, -6, 4, -6, 4, 3, -5, 4, -5, 4, 3, 7, 4, 8, 2, 0, -1, 2, 0, -3, 2, 5, 9, 2, 0, -4],
      [10, 15, 15, 16, 15, 15, 15, 15, 15, 15, 4, 1, 2, 2, 3, 0, 4, 4, 5, 3, 6], 10) := by
  decide +kernel

/-- All hypotheses of `generator_valid` at once, and its conclusion, for `gD1`. -/
example : ∃ T cert, generate gD1 7 e2eOrd = some (T, cert) ∧ cert.size ≤ 2147483647 ∧
    check gD1 7 5 T cert = .ok () := by
  have hfree : conflictFree gD1 7 e2eOrd = true := by decide +kernel
  obtain ⟨T, cert, hgen⟩ := generator_total hfree
  have hsz : (generate gD1 7 e2eOrd).map (fun r => r.2.size) = some 10 := by decide +kernel
  rw [hgen] at hsz
  simp only [Option.map_some, Option.some.injEq] at hsz
  exact ⟨T, cert, hgen, by omega,
    generator_valid (by decide) (by decide) hgen hfree (by omega)⟩

/-- … so the emitted tables accept `T O Y Z` (a sentence: `r ⇒ oo Y Z`, the derivation the FIRST
defect lost) with its derivation tree. -/
example : ∃ T cert, generate gD1 7 e2eOrd = some (T, cert) ∧
    ∃ fuel lg, run gD1 (autoOf T cert) fuel (init [2, 6, 4, 5]) =
      .acc (.node 1 [.node 2 [.leaf 2], .node 4 [.node 5 [.leaf 6], .leaf 4, .leaf 5]]) lg := by
  have hfree : conflictFree gD1 7 e2eOrd = true := by decide +kernel
  obtain ⟨T, cert, hgen⟩ := generator_total hfree
  have hsz : (generate gD1 7 e2eOrd).map (fun r => r.2.size) = some 10 := by decide +kernel
  rw [hgen] at hsz
  simp only [Option.map_some, Option.some.injEq] at hsz
  refine ⟨T, cert, hgen, ?_⟩
  refine (generator_correct (nR := 5) (by decide) (by decide) hgen hfree (by omega) (by decide) _).mpr ?_
  have h5 : Der gD1 [.n 4] [6] [.node 5 [.leaf 6]] := by
    simpa using Der.nonterm (G := gD1) (q := 5) (pr := ⟨4, [.t 6]⟩) rfl (.term .nil) .nil
  have h4 : Der gD1 [.n 3] [6, 4, 5] [.node 4 [.node 5 [.leaf 6], .leaf 4, .leaf 5]] := by
    have hr : Der gD1 [.n 4, .t 4, .t 5] ([6] ++ [4, 5]) [.node 5 [.leaf 6], .leaf 4, .leaf 5] :=
      Der.nonterm (q := 5) (pr := ⟨4, [.t 6]⟩) rfl (.term .nil) (.term (.term .nil))
    simpa using Der.nonterm (G := gD1) (q := 4) (pr := ⟨3, [.n 4, .t 4, .t 5]⟩) rfl hr .nil
  have h2 : Der gD1 [.n 2] [2] [.node 2 [.leaf 2]] := by
    simpa using Der.nonterm (G := gD1) (q := 2) (pr := ⟨2, [.t 2]⟩) rfl (.term .nil) .nil
  have h1 : Der gD1 [.n 2, .n 3] ([2] ++ [6, 4, 5])
      [.node 2 [.leaf 2], .node 4 [.node 5 [.leaf 6], .leaf 4, .leaf 5]] :=
    Der.nonterm (q := 2) (pr := ⟨2, [.t 2]⟩) rfl (.term .nil) h4
  have hs : startSym gD1 = 1 := by decide
  rw [hs]
  simpa using Der.nonterm (G := gD1) (q := 1) (pr := ⟨1, [.n 2, .n 3]⟩) rfl h1 .nil

/-- Non-vacuity of `emit_find_actions` / `emit_find_goto` on a table WITH precedence resolution
(`E = E '+' E @left(1) | NUM`, `ExamplePrec` of `Lox/LR/Example.lean`): in state 4 the cell of `+`
held `[shift 3, reduce 1]` and `resolveConflicts` kept the reduce; `_Find` returns `-1`. -/
def e2ePrecOrd : List Sym := [.n 1, .t 0, .t 1, .t 3, .t 2, .n 0]
def e2ePrecInfo : Nat → ProdInfo := fun p => if p = 1 then ⟨1, 1, false⟩ else ⟨if p = 0 then 0 else 1, 0, false⟩

example : (generateP e2ePrecInfo ExamplePrec.G 4 e2ePrecOrd).map (fun r =>
      (r.1.actions.toList, r.1.gotos.toList)) =
    some (ExamplePrec.T.actions.toList, ExamplePrec.T.gotos.toList) := by decide +kernel

example : e2ePrecOrd.Nodup := by decide

example : (construct ExamplePrec.G 4 e2ePrecOrd).map (fun st =>
      (cellsOf noPrec ExamplePrec.G 4 (trTerm st.transTab 4) (st.states[4]?.getD []),
       cellsOf e2ePrecInfo ExamplePrec.G 4 (trTerm st.transTab 4) (st.states[4]?.getD []))) =
    some (some [(0, [.reduce 1]), (2, [.shift 3 [1, 1], .reduce 1])],
          some [(0, [.reduce 1]), (2, [.reduce 1])]) := by decide +kernel

/-- `generator_safe` applies to that precedence-resolved run (for which `check` itself fails:
`ExamplePrec.checkB_fails`, the grammar is ambiguous). -/
example : ∃ T cert, generateP e2ePrecInfo ExamplePrec.G 4 e2ePrecOrd = some (T, cert) ∧
    checkSafe ExamplePrec.G 4 2 T cert = .ok () := by
  have hsome : (generateP e2ePrecInfo ExamplePrec.G 4 e2ePrecOrd).map (fun r => r.2.size) = some 5 := by
    decide +kernel
  cases hgen : generateP e2ePrecInfo ExamplePrec.G 4 e2ePrecOrd with
  | none => rw [hgen] at hsome; cases hsome
  | some r =>
    obtain ⟨T, cert⟩ := r
    rw [hgen] at hsome
    simp only [Option.map_some, Option.some.injEq] at hsome
    exact ⟨T, cert, rfl, generator_safe (by decide) (by decide) hgen (by omega)⟩

end Lox.Props.C01
