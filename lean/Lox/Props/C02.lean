import Lox.Lex.BisimProofs
import Lox.Lex.SpecProofs
import Lox.Lex.TableProofs
import Lox.Lex.MunchProofs
/-! Property theorems for C02 (longest viable match, earliest rule wins).

Specification (read these): `Lox.Lex.Matches` (`Lox/Lex/Regex.lean`), `Lox.Lex.viable`,
`Lox.Lex.label`, `Lox.Lex.specRun` (`Lox/Lex/Spec.lean`). Table side: `Lox.Lex.rowAt`,
`tableStep`, `tableRun`, `wfTable`, `bisim` (`Lox/Lex/Bisim.lean`); `pushRune`, `bsearch`
(`Lox/Lex/Model.lean`). Helper lemmas: `Lox/Lex/*Proofs.lean`. -/
namespace Lox.Props.C02
open Lox.Lex

/-! ### Partial derivatives are correct -/

theorem nullable_iff (r : Re) : nullable r = true ↔ Matches r [] := Lox.Lex.nullable_iff r

theorem pd_sound (c : Int) (r : Re) (w : List Int) :
    (∃ r' ∈ pd c r, Matches r' w) → Matches r (c :: w) := Lox.Lex.pd_sound c r w

theorem pd_complete (c : Int) (r : Re) (w : List Int) :
    Matches r (c :: w) → ∃ r' ∈ pd c r, Matches r' w := Lox.Lex.pd_complete c r w

/-- Lifted to words. -/
theorem pdw_iff (r : Re) (u v : List Int) :
    Matches r (u ++ v) ↔ ∃ r' ∈ pdw u r, Matches r' v := Lox.Lex.pdw_iff r u v

/-- Every regular expression whose classes are all non-empty matches some word (this is what
makes "some term is left" the same as "still viable"). -/
theorem clsOK_matches (r : Re) (h : r.clsOK = true) : ∃ w, Matches r w :=
  Lox.Lex.clsOK_matches r h

/-! ### The specification `label` is "the earliest rule that matches" -/

/-- If rule `i` matches `s` and no earlier rule does, the label of `s` is rule `i`'s pairs. -/
theorem label_least (rules : List Rule) (s : List Int) (i : Nat) (hi : i < rules.length)
    (hm : Matches rules[i].1 s)
    (hleast : ∀ j (hj : j < i), ¬ Matches (rules[j]'(by omega)).1 s) :
    label rules s = rules[i].2 := label_of_least rules s i hi hm hleast

/-- If no rule matches `s` the label is empty. -/
theorem label_none (rules : List Rule) (s : List Int) (h : ∀ r ∈ rules, ¬ Matches r.1 s) :
    label rules s = [] := label_of_none rules s h

/-- One of the two cases always applies. -/
theorem label_cases (rules : List Rule) (s : List Int) :
    (∃ (i : Nat) (hi : i < rules.length), Matches rules[i].1 s ∧
        ∀ j (hj : j < i), ¬ Matches (rules[j]'(by omega)).1 s) ∨
    (∀ r ∈ rules, ¬ Matches r.1 s) := least_or_none rules s

/-! ### Binary search of `PushRune` = linear lookup -/

/-- Over the raw array: for `n` triples stored from `base` on that are sorted by `lo`, pairwise
disjoint, with `lo ≤ hi` (`sortedFrom`), the binary search of the generated `PushRune` returns
exactly the linear lookup, for every rune `r` (any integer, in particular `0..0x10FFFF` and
`-1`). -/
theorem bsearch_correct (tbl : Mode) (base n : Nat) (r : Int) (p : Int)
    (hfit : base + 3 * n ≤ tbl.size) (hs : sortedFrom p (triplesAt tbl base n) = true) :
    bsearch tbl r (base : Int) (n + 1) 0 (n : Int) = some (lookup (triplesAt tbl base n) r) :=
  bsearch_eq_lookup tbl base n r hfit p hs

/-- End of input (`r = -1`) finds no transition in a row whose ranges are non-negative. -/
theorem bsearch_eof (tbl : Mode) (base n : Nat) (hfit : base + 3 * n ≤ tbl.size)
    (hs : sortedFrom (-1) (triplesAt tbl base n) = true) :
    bsearch tbl (-1) (base : Int) (n + 1) 0 (n : Int) = some none := by
  rw [bsearch_eq_lookup tbl base n (-1) hfit (-1) hs, lookup_neg _ (-1) (by omega) hs]

/-! ### The validator -/

/-- **Soundness of the validator.** If `bisim rules tbl` answers `ok`, then for EVERY string `s`
(any list of integers; runes are `0..0x10FFFF`) the table automaton, run from state 0 with
`tableStep` (the decoded row format), dies exactly when `s` is not a prefix of a match of any rule,
and otherwise stops in a state whose stored action pairs are those of the earliest-declared rule
matching `s` exactly (`[]` when no rule matches `s`). -/
theorem bisim_sound {rules : List Rule} {tbl : Mode} (h : bisim rules tbl = .ok ()) :
    ∀ s : List Int, tableRun tbl s = specRun rules s := by
  obtain ⟨R, hC⟩ := bisim_ok h
  exact closed_sound hC

/-- The table dies on `s` iff `s` is not viable. -/
theorem bisim_dead_iff {rules : List Rule} {tbl : Mode} (h : bisim rules tbl = .ok ())
    (s : List Int) : tableRun tbl s = none ↔ ¬ viable rules s := by
  rw [bisim_sound h s]
  unfold specRun
  by_cases hv : viable rules s <;> simp [hv]

/-- If the table survives `s`, the pairs of the state reached are the label of `s`. -/
theorem bisim_label {rules : List Rule} {tbl : Mode} (h : bisim rules tbl = .ok ())
    (s : List Int) (ps : List Pair) (hrun : tableRun tbl s = some ps) : ps = label rules s := by
  rw [bisim_sound h s] at hrun
  unfold specRun at hrun
  by_cases hv : viable rules s
  · simp only [hv, ↓reduceIte, Option.some.injEq] at hrun; exact hrun.symm
  · simp [hv] at hrun

/-- The state reached is non-accepting (no pairs) iff no rule matches `s` exactly. -/
theorem bisim_nonaccepting_iff {rules : List Rule} {tbl : Mode} (h : bisim rules tbl = .ok ())
    (s : List Int) :
    tableRun tbl s = some [] ↔ viable rules s ∧ ∀ r ∈ rules, ¬ Matches r.1 s := by
  obtain ⟨R, hC⟩ := bisim_ok h
  have hne : ∀ r ∈ rules, r.2 ≠ [] := fun r hr => ((rulesOK_iff.mp hC.rulesOK).2 r hr).2
  rw [bisim_sound h s]
  unfold specRun
  by_cases hv : viable rules s
  · simp only [hv, ↓reduceIte, Option.some.injEq, true_and]
    exact label_eq_nil_iff rules s hne
  · simp [hv]

/-- What a successful validation checked about the inputs. -/
theorem bisim_checked {rules : List Rule} {tbl : Mode} (h : bisim rules tbl = .ok ()) :
    wfTable tbl = true ∧ rules ≠ [] ∧ ∀ r ∈ rules, r.1.clsOK = true ∧ r.2 ≠ [] := by
  obtain ⟨R, hC⟩ := bisim_ok h
  exact ⟨hC.wf, rulesOK_iff.mp hC.rulesOK⟩

/-- "No rule matches the empty string" (a hypothesis of C02) is exactly what makes state 0
non-accepting in a validated table (first half of `startClean`; the generated `PushRune` takes state
0 to mean "nothing consumed yet"). -/
theorem start_nonaccepting_iff {rules : List Rule} {tbl : Mode} (h : bisim rules tbl = .ok ()) :
    rowPairs tbl 0 = [] ↔ ∀ r ∈ rules, nullable r.1 = false := by
  have h0 : tableRun tbl [] = some (rowPairs tbl 0) := rfl
  have hiff := bisim_nonaccepting_iff h []
  rw [h0] at hiff
  constructor
  · intro he r hr
    have := (hiff.mp (by rw [he])).2 r hr
    cases hn : nullable r.1 with
    | false => rfl
    | true => exact absurd ((Lox.Lex.nullable_iff r.1).mp hn) this
  · intro hall
    have hv : viable rules [] := by
      by_cases hv : viable rules []
      · exact hv
      · have := (bisim_dead_iff h []).mpr hv
        rw [h0] at this; cases this
    have := hiff.mpr ⟨hv, fun r hr hm => by
      have := (Lox.Lex.nullable_iff r.1).mpr hm
      rw [hall r hr] at this; cases this⟩
    simpa using this

/-! ### `PushRune` walks the decoded automaton -/

/-- On a well-formed table, in state `q` of mode `m`: `PushRune c` consumes and moves to `q'` iff
`tableStep m q c = some q'`; otherwise it runs the action pairs stored on `q` (`runPairs`: the
documented interpreter; nothing else changes). -/
theorem pushRune_consume (modes : Array Mode) (sm : SM) (m : Mode) (q : Nat) (c : Int)
    (hwf : wfTable m = true) (hmode : modes[sm.mode.getD 0]? = some m)
    (hstate : sm.state = (q : Int)) (hq : q < nStates m) :
    pushRune modes sm c =
      match tableStep m q c with
      | some q' => (.consume, { sm with mode := some (sm.mode.getD 0), state := (q' : Int) })
      | none => runPairs modes c (rowPairs m q) { sm with mode := some (sm.mode.getD 0) } :=
  pushRune_step modes sm m q c hwf hmode hstate hq

/-! ### Maximal munch -/

/-- **Maximal munch, table level.** For a validated table and any input `s`: the table, started
in state 0, consumes `k = scanLen tbl 0 s` runes, where `s.take k` is the LONGEST viable prefix of
`s` (it is viable, no longer prefix of `s` is), and the state it stops in stores the action pairs of
the earliest rule matching `s.take k` exactly (`[]` if none). -/
theorem munch_table {rules : List Rule} {tbl : Mode} (h : bisim rules tbl = .ok ())
    (s : List Int) :
    viable rules (s.take (scanLen tbl 0 s)) ∧
    (∀ j, scanLen tbl 0 s < j → j ≤ s.length → ¬ viable rules (s.take j)) ∧
    ∃ q', tableRunFrom tbl 0 (s.take (scanLen tbl 0 s)) = some q' ∧
      rowPairs tbl q' = label rules (s.take (scanLen tbl 0 s)) :=
  Lox.Lex.munch_table (bisim_ok h) s

/-- **Maximal munch, driver level (C02 headline).** `l` is the `simplelexer` state between two
tokens (state machine in state 0) with current mode `m`, validated against `rules`. With `s` the
runes not yet read, `k = scanLen m 0 s`, `p = s.take k`: `p` is the longest viable prefix of `s`,
and one `ReadToken` call consumes exactly `p` (`l.advance inp k`) and then does what
`simplelexer.ReadToken` does (`tokBody`) with the outcome of executing the action pairs of the
EARLIEST rule matching `p` (`label rules p`), or of the empty list when no rule matches `p`
(→ ERROR or EOF). The state reached is not 0 if `p ≠ []` and the table is `startClean`.
`munch_token`, `munch_error`, `munch_eof` spell out the three typical outcomes. -/
theorem munch (modes : Array Mode) (inp : Input) (m : Mode) (rules : List Rule) (l : Lx)
    (h : bisim rules m = .ok ()) (hmode : modes[l.sm.mode.getD 0]? = some m)
    (hstate : l.sm.state = 0) (start : Option Nat) (n : Nat) :
    viable rules ((l.rest inp).take (scanLen m 0 (l.rest inp))) ∧
    (∀ j, scanLen m 0 (l.rest inp) < j → j ≤ (l.rest inp).length →
      ¬ viable rules ((l.rest inp).take j)) ∧
    ∃ q', tableRunFrom m 0 ((l.rest inp).take (scanLen m 0 (l.rest inp))) = some q' ∧
      (startClean m = true → (l.rest inp).take (scanLen m 0 (l.rest inp)) ≠ [] → q' ≠ 0) ∧
      readToken modes inp (scanLen m 0 (l.rest inp) + (n + 1)) start l =
        tokBody modes inp n (start.getD l.offset) (l.advance inp (scanLen m 0 (l.rest inp)))
          (runPairs modes ((l.advance inp (scanLen m 0 (l.rest inp))).char inp)
            (label rules ((l.rest inp).take (scanLen m 0 (l.rest inp))))
            { l.sm with mode := some (l.sm.mode.getD 0), state := (q' : Int) }) :=
  munch_driver modes inp m rules l (bisim_ok h) hmode hstate start n

/-- The earliest rule matching the longest viable prefix is a plain token rule for terminal `t`
(pairs `[(3, t)]`): `ReadToken` returns token `t` with exactly that prefix as its text
(`[start, offset after the prefix)`). -/
theorem munch_token (modes : Array Mode) (inp : Input) (m : Mode) (rules : List Rule) (l : Lx)
    (h : bisim rules m = .ok ()) (hmode : modes[l.sm.mode.getD 0]? = some m)
    (hstate : l.sm.state = 0) (start : Option Nat) (n : Nat) (t : Int)
    (hlab : label rules ((l.rest inp).take (scanLen m 0 (l.rest inp))) = [(3, t)]) :
    readToken modes inp (scanLen m 0 (l.rest inp) + (n + 1)) start l =
      some (some (.tok t (start.getD l.offset) (l.advance inp (scanLen m 0 (l.rest inp))).offset),
        { l.advance inp (scanLen m 0 (l.rest inp)) with
          sm := { l.sm with token := t, mode := some (l.sm.mode.getD 0), state := 0 } }) :=
  Lox.Lex.munch_token modes inp m rules l (bisim_ok h) hmode hstate start n t hlab

/-- No rule matches the longest viable prefix: ERROR token at the start offset, blaming the first
rune that could not be consumed. -/
theorem munch_error (modes : Array Mode) (inp : Input) (m : Mode) (rules : List Rule) (l : Lx)
    (h : bisim rules m = .ok ()) (hmode : modes[l.sm.mode.getD 0]? = some m)
    (hstate : l.sm.state = 0) (start : Option Nat) (n : Nat)
    (hnone : ∀ r ∈ rules, ¬ Matches r.1 ((l.rest inp).take (scanLen m 0 (l.rest inp))))
    (hne : (l.advance inp (scanLen m 0 (l.rest inp))).char inp ≠ -1 ∨
      (startClean m = true ∧ (l.rest inp).take (scanLen m 0 (l.rest inp)) ≠ [])) :
    ∃ l', readToken modes inp (scanLen m 0 (l.rest inp) + (n + 1)) start l =
      some (some (.err (start.getD l.offset)
        ((l.advance inp (scanLen m 0 (l.rest inp))).char inp)), l') :=
  Lox.Lex.munch_error modes inp m rules l (bisim_ok h) hmode hstate start n
    (label_of_none rules _ hnone) hne

/-- End of input between tokens: EOF. -/
theorem munch_eof (modes : Array Mode) (inp : Input) (m : Mode) (rules : List Rule) (l : Lx)
    (h : bisim rules m = .ok ()) (hmode : modes[l.sm.mode.getD 0]? = some m)
    (hstate : l.sm.state = 0) (start : Option Nat) (n : Nat) (hend : l.rest inp = [])
    (hsc : startClean m = true) :
    readToken modes inp (n + 1) start l =
      some (some (.eof (start.getD l.offset)),
        { l with sm := { l.sm with mode := some (l.sm.mode.getD 0) } }) :=
  Lox.Lex.munch_eof modes inp m rules l (bisim_ok h) hmode hstate start n hend hsc

/-! ### Non-vacuity: a table emitted by lox for
`A = 'a' 'b'*`, `IF = 'if'`, `ID = [a-z]+`, `@frag [ \n]+ @discard` -/

def exTbl : Mode := #[6, 27, 38, 46, 54, 68, 20, 0, 6, 10, 10, 1, 32, 32,
  1, 97, 97, 5, 98, 104, 2, 105, 105, 4, 106, 122, 2, 10,
  0, 2, 10, 10, 1, 32, 32, 1, 4, 0, 7, 0, 1, 97,
  122, 2, 3, 4, 7, 0, 1, 97, 122, 2, 3, 3, 13, 0,
  3, 97, 101, 2, 102, 102, 3, 103, 122, 2, 3, 4, 13, 0,
  3, 97, 97, 2, 98, 98, 5, 99, 122, 2, 3, 2]

def exRules : List Rule := [
  (.seq (.cls [(97, 97)]) (.star false (.cls [(98, 98)])), [(3, 2)]),
  (Re.lit [105, 102], [(3, 3)]),
  (Re.plus (.cls [(97, 122)]), [(3, 4)]),
  (Re.plus (.cls [(32, 32), (10, 10)]), [(4, 0)])]

deriving instance DecidableEq for Except

/-- The hypothesis of `bisim_sound` holds on this instance (kernel evaluation of the checker). -/
theorem ex_bisim : bisim exRules exTbl = .ok () := by decide +kernel

/-- Hypotheses of `bsearch_correct` (row of state 0: 6 triples from index 9). -/
example : 9 + 3 * 6 ≤ exTbl.size ∧ sortedFrom (-1) (triplesAt exTbl 9 6) = true := by decide

/-- Hypotheses of `pushRune_consume`. -/
example : wfTable exTbl = true ∧ (#[exTbl])[({} : SM).mode.getD 0]? = some exTbl ∧
    ({} : SM).state = ((0 : Nat) : Int) ∧ 0 < nStates exTbl := by decide

/-- A consequence on the instance: `"if"` is labelled by `IF` (rule 1), although `ID` (rule 2)
matches it too; `"ab"` by `A`; `"i"` is viable and labelled `ID`; `"a "` is not viable. -/
example : label exRules [105, 102] = [(3, 3)] ∧ label exRules [97, 98] = [(3, 2)] ∧
    label exRules [105] = [(3, 4)] ∧ ¬ viable exRules [97, 32] := by
  refine ⟨?_, ?_, ?_, ?_⟩
  · exact (bisim_label ex_bisim [105, 102] _ (by decide)).symm
  · exact (bisim_label ex_bisim [97, 98] _ (by decide)).symm
  · exact (bisim_label ex_bisim [105] _ (by decide)).symm
  · exact (bisim_dead_iff ex_bisim [97, 32]).mp (by decide)

/-- Hypotheses of `munch`, `munch_token`, `munch_error`, `munch_eof` on the instance (initial `simplelexer`
state, any input). -/
example : startClean exTbl = true ∧ (#[exTbl])[(({} : Lx).sm).mode.getD 0]? = some exTbl ∧
    (({} : Lx).sm).state = 0 := by decide

/-- On the input `"if a"` the longest viable prefix is `"if"`; its label is `[(3, 3)]` (above), so
`munch_token` applies with `t = 3` (IF), although ID matches `"if"` and `"i"` as well. -/
example : (({} : Lx).rest #[(105, 1), (102, 1), (32, 1), (97, 1)]).take
    (scanLen exTbl 0 (({} : Lx).rest #[(105, 1), (102, 1), (32, 1), (97, 1)])) = [105, 102] := by
  decide +kernel

/-- Hypotheses of `munch_error` on the input `"A"`: nothing is consumed, no rule matches the empty
prefix, and the offending rune is not end-of-input. Those of `munch_eof` hold on the empty input. -/
example : (∀ r ∈ exRules, ¬ Matches r.1 ((({} : Lx).rest #[(65, 1)]).take
      (scanLen exTbl 0 (({} : Lx).rest #[(65, 1)])))) ∧
    ((({} : Lx).advance #[(65, 1)] (scanLen exTbl 0 (({} : Lx).rest #[(65, 1)]))).char #[(65, 1)]
      ≠ -1) ∧ ({} : Lx).rest #[] = [] := by
  have h : (({} : Lx).rest #[(65, 1)]).take (scanLen exTbl 0 (({} : Lx).rest #[(65, 1)])) = [] := by
    decide +kernel
  have hn : ∀ r ∈ exRules, nullable r.1 = false := by decide
  refine ⟨?_, by decide +kernel, rfl⟩
  rw [h]
  intro r hr hm
  have := (Lox.Lex.nullable_iff r.1).mpr hm
  rw [hn r hr] at this
  cases this

end Lox.Props.C02
