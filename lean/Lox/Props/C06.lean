import Lox.Dec.AssignRun
import Lox.Dec.AssignNames
/-!
# C06 – type-matched binding of action methods

Model: `Lox.Dec.Assign.assign` (`lean/Lox/Dec/Assign.lean`), a pass-by-pass mirror of
`codegen.AssignActions` (`/repo/internal/codegen/assign_actions.go`) parametrised by the relations
`gotypes.AssignableTo` / `gotypes.Identical` that go/types supplies per package.
Statement: `Lox.Dec.Assign.Spec` (`lean/Lox/Dec/AssignSpec.lean`), the clauses of the property.

All theorems are about well-formed cases (`WF`: the helper-rule shapes the front end produces,
distinct rule names, helper-rule names are not Go identifiers) and assume that `Identical` is an
equivalence relation (`IdentEquiv`). Both hypotheses are satisfiable: `exCase_wf`, `exCase_ident`.
-/
namespace Lox.Props.C06

open Lox.Dec.Assign

/-- What a clean run of all six passes means. -/
theorem clean_spec {c : Case} (w : WF c) (ie : IdentEquiv c) {tm : TyMap} {ty : List (Option Ty)}
    (k : Clean c tm ty) :
    Spec c ∧ (∀ r, tyGet ty r = specTy c r) ∧ ty.length = c.rules.length := by
  obtain ⟨tm', h3, hlen, htm⟩ := derive_spec w ie.refl
  have e : tm' = tm := by rw [k.d3] at h3; exact (Except.ok.inj h3).symm
  subst e
  have at' : AllTyped c := by
    intro r ru hr hs
    rw [← htm r]; exact untypedDiags_nil.mp k.d4 r ru hr hs
  obtain ⟨ty', hf, hlen', hty⟩ := finalTypes_spec w at' htm
  have e : ty' = ty := by rw [k.fin] at hf; exact (Option.some.inj hf).symm
  subst e
  have shape := collectDiags_nil.mp k.d1
  refine ⟨⟨shape, ?_, ?_, ?_, ?_, ?_⟩, hty, by rw [hlen', hlen]⟩
  · -- ruleExists
    intro m hm n hn
    obtain ⟨h1, h2⟩ := shape m hm (by simp [hn])
    obtain ⟨a, ha, _, har⟩ := action_of_method hm hn h1 h2
    have := pass2_hasRule k.d2 ha
    rw [har] at this
    exact hasRule_iff.mp this
  · -- retAgree
    intro m hm m' hm' n hn hn'
    obtain ⟨h1, h2⟩ := shape m hm (by simp [hn])
    obtain ⟨h1', h2'⟩ := shape m' hm' (by simp [hn'])
    obtain ⟨a, ha, ham, har⟩ := action_of_method hm hn h1 h2
    obtain ⟨a', ha', ham', har'⟩ := action_of_method hm' hn' h1' h2'
    obtain ⟨f, rest, hl, _, _⟩ := head_actionsOf ha
    have i1 := pass2_identical ie.refl k.d2 ha hl
    have hl' : actionsOf c a'.rule = f :: rest := by rw [har', ← har]; exact hl
    have i2 := pass2_identical ie.refl k.d2 ha' hl'
    rw [ham] at i1; rw [ham'] at i2
    exact ie.trans _ _ _ i1 (ie.symm _ _ i2)
  · -- typed
    intro r ru hr hs
    have h1 := at' r ru hr hs
    have h2 := no_junk w at' r
    rw [specTy_eq_strip]
    cases hsp : specTyR c r with
    | none => exact absurd hsp h1
    | some t =>
      cases t with
      | ty t => exact ⟨t, rfl⟩
      | junk => exact absurd hsp h2
  · -- unique
    intro p hp hu
    obtain ⟨m, hm⟩ := matchDiags_nil.mp k.d5 p hp hu
    refine ⟨m, (mem_matchesOf hty).mp (by rw [hm]; exact List.mem_cons_self), ?_⟩
    intro j hj
    have := (mem_matchesOf hty).mpr hj
    rw [hm] at this
    simpa using this
  · -- noOrphan
    intro i m hi hr
    obtain ⟨n, hn⟩ := Option.isSome_iff_exists.mp hr
    obtain ⟨h1, h2⟩ := shape m (List.mem_of_getElem? hi) hr
    have ha : (⟨i, n, m⟩ : Action) ∈ actions c := mem_actions.mpr ⟨hi, hn, h1, h2⟩
    have := orphanDiags_nil.mp k.d6 _ ha
    obtain ⟨p, hp, hu, hm⟩ := mem_bound.mp this
    exact ⟨p, hp, hu, (mem_matchesOf hty).mp (by rw [hm]; exact List.mem_cons_self)⟩

/-- The clauses of the property make every pass succeed. -/
theorem spec_clean {c : Case} (w : WF c) (ie : IdentEquiv c) (s : Spec c) :
    ∃ tm ty, Clean c tm ty := by
  obtain ⟨tm, h3, hlen, htm⟩ := derive_spec w ie.refl
  have at' : AllTyped c := by
    intro r ru hr hs
    obtain ⟨t, ht⟩ := s.typed r ru hr hs
    intro hn
    rw [specTy_eq_strip, hn] at ht; cases ht
  obtain ⟨ty, hf, _, hty⟩ := finalTypes_spec w at' htm
  have d1 : collectDiags c = [] := collectDiags_nil.mpr s.shape
  have uniq : ∀ p ∈ c.prods, UserProd c p → ∃ m, matchesOf c ty p = [m] := by
    intro p hp hu
    obtain ⟨i, hi, hu'⟩ := s.unique p hp hu
    exact ⟨i, singleton_of_unique (matchesOf_nodup c ty p) ((mem_matchesOf hty).mpr hi)
      (fun j hj => hu' j ((mem_matchesOf hty).mp hj))⟩
  refine ⟨tm, ty, d1, ?_, h3, ?_, hf, matchDiags_nil.mpr uniq, ?_⟩
  · -- pass 2
    refine retDiags_nil.mpr (fun a ha => retDiag_nil_of ?_ ?_)
    · have hm := action_method_mem ha
      exact hasRule_iff.mpr (s.ruleExists a.m hm a.rule (mem_actions.mp ha).2.1)
    · intro f rest hl
      have hf : f ∈ actionsOf c a.rule := by rw [hl]; exact List.mem_cons_self
      obtain ⟨hfa, hfr⟩ := mem_actionsOf.mp hf
      exact s.retAgree a.m (action_method_mem ha) f.m (action_method_mem hfa) a.rule
        (mem_actions.mp ha).2.1 (by rw [(mem_actions.mp hfa).2.1, hfr])
  · -- pass 4
    refine untypedDiags_nil.mpr (fun r ru hr hs => ?_)
    rw [htm r]; exact at' r ru hr hs
  · -- pass 6
    refine orphanDiags_nil.mpr (fun a ha => ?_)
    obtain ⟨h1, h2, _, _⟩ := mem_actions.mp ha
    obtain ⟨p, hp, hu, hm⟩ := s.noOrphan a.idx a.m h1 (by simp [h2])
    obtain ⟨m, hm'⟩ := uniq p hp hu
    have : a.idx ∈ matchesOf c ty p := (mem_matchesOf hty).mpr hm
    rw [hm'] at this
    have e : a.idx = m := by simpa using this
    exact mem_bound.mpr ⟨p, hp, hu, by rw [hm', e]⟩

/-- **C06, decision.** lox's binding pass succeeds exactly when the clauses of the property hold:
every action method returns one value and is not variadic, names an existing rule, all methods of
a rule return one type, every rule gets a type, every production of a user rule has one and only
one method of its rule with matching arity whose parameters accept (by assignability) the types of
its terms, and no `on_` method is left unmatched. -/
theorem assign_ok_iff {c : Case} (w : WF c) (ie : IdentEquiv c) :
    (∃ b, assign c = .ok b) ↔ Spec c := by
  constructor
  · rintro ⟨b, h⟩
    obtain ⟨tm, ty, k, _⟩ := assign_ok_inv h
    exact (clean_spec w ie k).1
  · intro s
    obtain ⟨tm, ty, k⟩ := spec_clean w ie s
    exact ⟨_, assign_ok_of k⟩

/-- On well-formed input the model never reaches one of the Go panics
(`assert.True`, index out of range, failed type assertion, exhausted fuel). -/
theorem assign_no_panic {c : Case} (w : WF c) (ie : IdentEquiv c) (msg : String) :
    assign c ≠ .panic msg := by
  intro h
  obtain ⟨tm, h3, hlen, htm⟩ := derive_spec w ie.refl
  unfold assign at h
  simp only at h
  by_cases h1 : collectDiags c = []
  · simp only [h1, ne_eq, not_true_eq_false, ↓reduceIte] at h
    by_cases h2 : retDiags c = []
    · simp only [h2, not_true_eq_false, ↓reduceIte, h3] at h
      by_cases h4 : untypedDiags c tm = []
      · simp only [h4, not_true_eq_false, ↓reduceIte] at h
        have at' : AllTyped c := by
          intro r ru hr hs
          rw [← htm r]; exact untypedDiags_nil.mp h4 r ru hr hs
        obtain ⟨ty, hf, _, _⟩ := finalTypes_spec w at' htm
        rw [hf] at h; simp only at h
        by_cases h5 : matchDiags c ty = []
        · simp only [h5, not_true_eq_false, ↓reduceIte] at h
          by_cases h6 : orphanDiags c (c.prods.map (bindProd c ty)) = []
          · simp [h6] at h
          · simp [h6] at h
        · simp [h5] at h
      · simp [h4] at h
    · simp [h2] at h
  · simp [h1] at h

/-- **C06, the binding.** When lox succeeds, every production of a user rule is bound to its
unique matching method, no other production is bound, and every rule has the documented type. -/
theorem assign_binding_sound {c : Case} (w : WF c) (ie : IdentEquiv c) {b : Binding}
    (h : assign c = .ok b) :
    (∀ (k : Nat) p, c.prods[k]? = some p → UserProd c p →
      ∃ m, b.method[k]? = some (some m) ∧ Matches c p m ∧ ∀ j, Matches c p j → j = m) ∧
    (∀ (k : Nat) p, c.prods[k]? = some p → ¬ UserProd c p → b.method[k]? = some none) ∧
    (∀ r, tyGet b.ruleTy r = specTy c r) ∧
    b.emitBounds = c.methods.any (·.name == onBoundsName) := by
  obtain ⟨tm, ty, k, rfl⟩ := assign_ok_inv h
  obtain ⟨s, hty, _⟩ := clean_spec w ie k
  refine ⟨?_, ?_, hty, rfl⟩
  · intro i p hp hu
    obtain ⟨m, hm⟩ := matchDiags_nil.mp k.d5 p (List.mem_of_getElem? hp) hu
    refine ⟨m, ?_, (mem_matchesOf hty).mp (by rw [hm]; exact List.mem_cons_self), ?_⟩
    · simp only [List.getElem?_map, hp, Option.map_some, Option.some.injEq]
      unfold bindProd
      simp [isUserProd_iff.mpr hu, hm]
    · intro j hj
      have := (mem_matchesOf hty).mpr hj
      rw [hm] at this
      simpa using this
  · intro i p hp hu
    simp only [List.getElem?_map, hp, Option.map_some, Option.some.injEq]
    unfold bindProd
    have : isUserProd c p = false := by
      cases hh : isUserProd c p with
      | false => rfl
      | true => exact absurd (isUserProd_iff.mp hh) hu
    simp [this]

/-- **C06, diagnostics.** When lox fails it reports at least one diagnostic, and the subject of
every diagnostic (a method, a rule or a production) violates the clause the diagnostic names. -/
theorem assign_diag_names {c : Case} (w : WF c) (ie : IdentEquiv c) {ds : List Diag}
    (h : assign c = .fail ds) : ds ≠ [] ∧ ∀ d ∈ ds, Violates c d := by
  obtain ⟨hne, hcases⟩ := assign_fail_inv h
  refine ⟨hne, ?_⟩
  obtain ⟨tm', h3', _, htm⟩ := derive_spec w ie.refl
  rcases hcases with rfl | ⟨h1, rfl | ⟨h2, tm, h3, rfl | ⟨h4, ty, hf, hrest⟩⟩⟩
  · exact fun d hd => mem_collectDiags hd
  · exact fun d hd => mem_retDiags hd
  · intro d hd
    have e : tm' = tm := by rw [h3] at h3'; exact (Except.ok.inj h3').symm
    subst e
    obtain ⟨r, ru, rfl, hr, hs, hn⟩ := mem_untypedDiags hd
    exact ⟨ru, hr, hs, by rw [← htm r]; exact hn⟩
  · have e : tm' = tm := by rw [h3] at h3'; exact (Except.ok.inj h3').symm
    subst e
    have at' : AllTyped c := by
      intro r ru hr hs
      rw [← htm r]; exact untypedDiags_nil.mp h4 r ru hr hs
    obtain ⟨ty', hf', _, hty⟩ := finalTypes_spec w at' htm
    have e : ty' = ty := by rw [hf] at hf'; exact (Option.some.inj hf').symm
    subst e
    rcases hrest with rfl | ⟨h5, rfl⟩
    · exact fun d hd => mem_matchDiags hty hd
    · intro d hd
      obtain ⟨a, ha, rfl, hb⟩ := mem_orphanDiags hd
      obtain ⟨g1, g2, _, _⟩ := mem_actions.mp ha
      refine ⟨a.idx, a.m, g1, rfl, by simp [g2], ?_⟩
      intro p hp hu hm
      obtain ⟨m, hm'⟩ := matchDiags_nil.mp h5 p hp hu
      have : a.idx ∈ matchesOf c ty' p := (mem_matchesOf hty).mpr hm
      rw [hm'] at this
      have e : a.idx = m := by simpa using this
      exact hb (mem_bound.mpr ⟨p, hp, hu, by rw [hm', e]⟩)

/-- Every diagnostic contradicts the property's clauses: a violated clause is really violated. -/
theorem violates_not_spec {c : Case} {d : Diag} (v : Violates c d) : ¬ Spec c := by
  intro s
  unfold Violates at v
  split at v
  · obtain ⟨m, hm, _, hr, hn⟩ := v
    exact hn (s.shape m hm hr).1
  · obtain ⟨m, hm, _, hr, hv⟩ := v
    have := (s.shape m hm hr).2
    rw [hv] at this; cases this
  · obtain ⟨m, hm, m', hm', _, hr, he, hi⟩ := v
    obtain ⟨n, hn⟩ := Option.isSome_iff_exists.mp hr
    have := s.retAgree m hm m' hm' n hn (by rw [he, hn])
    rw [hi] at this; cases this
  · obtain ⟨m, hm, n, _, hn, hall⟩ := v
    obtain ⟨r, hr, hrn⟩ := s.ruleExists m hm n hn
    exact hall r hr hrn
  · obtain ⟨ru, hr, hs, hn⟩ := v
    obtain ⟨t, ht⟩ := s.typed _ ru hr hs
    rw [specTy_eq_strip, hn] at ht; cases ht
  · obtain ⟨pr, hp, hu, hall⟩ := v
    obtain ⟨i, hi, _⟩ := s.unique pr (List.mem_of_getElem? hp) hu
    exact hall i hi
  · obtain ⟨pr, hp, hu, i, j, hij, hi, hj⟩ := v
    obtain ⟨m, _, hu'⟩ := s.unique pr (List.mem_of_getElem? hp) hu
    exact hij ((hu' i hi).trans (hu' j hj).symm)
  · obtain ⟨i, m, hi, _, hr, hall⟩ := v
    obtain ⟨p, hp, hu, hm⟩ := s.noOrphan i m hi hr
    exact hall p hp hu hm
  · exact v

/-- **The naming convention.** For a rule name that is not empty, contains no `"__"` and does not
end in `'_'`, the methods lox attributes to the rule (`ruleFromMethod`) are exactly `on_<rule>` and
`on_<rule>__<suffix>`. (Rule names with `"__"` are rejected by the front end; for the other two
caveats see the examples after `ruleOfChars_iff`.) -/
theorem naming_convention {n r : List Char} (hne : r ≠ []) (hs : hasSep r = false)
    (hl : r.getLast? ≠ some '_') :
    ruleOfChars n = some r ↔
      n = 'o' :: 'n' :: '_' :: r ∨ ∃ s, n = 'o' :: 'n' :: '_' :: (r ++ '_' :: '_' :: s) :=
  ruleOfChars_iff hne hs hl

/-- The hypotheses of this file are decided per case by the driver (`dec.assignwf`): `decide (WF c)`
and `identCheck`, the latter being sufficient for `IdentEquiv` on a tabulated universe. -/
theorem hypotheses_checkable {c : Case} {n : Nat} (h : identCheck c n = true)
    (hout : ∀ i j, (n ≤ i ∨ n ≤ j) → c.identical i j = (i == j)) : IdentEquiv c :=
  identEquiv_of_check h hout

/-! ## Values at run time -/

/-- Everything `_act` relies on is established by a successful `AssignActions`. -/
theorem ok_facts {c : Case} (w : WF c) (ie : IdentEquiv c) {b : Binding} (h : assign c = .ok b) :
    Facts c b := by
  obtain ⟨h1, _, h3, _⟩ := assign_binding_sound w ie h
  have s := (assign_ok_iff w ie).mp ⟨b, h⟩
  refine ⟨w, ?_, h3, s, ?_⟩
  · intro r ru hr hs
    obtain ⟨t, ht⟩ := s.typed r ru hr hs
    intro hn
    rw [specTy_eq_strip, hn] at ht; cases ht
  · intro k p hp hu
    obtain ⟨m, hm, hmatch, _⟩ := h1 k p hp hu
    exact ⟨m, hm, hmatch⟩

/-- The parser stack as `_act` sees it: grammar symbol and value (`_item.Sym`) of every slot, the
top of the stack last. (The bottom slot of the real stack, pushed by `parse` for state 0, carries
no symbol and is never read by `_act`.) -/
abbrev Stack (V : Values) := List (Term × V.Val)

/-- Every stack value conforms to the Go type lox derived for its symbol. -/
def StackOK (V : Values) (c : Case) (b : Binding) (stk : Stack V) : Prop :=
  ∀ sv ∈ stk, ∃ T, termTyF c b.ruleTy sv.1 = some T ∧ WellTyped V sv.2 T

/-- The moves of `parse` / `_recover` on the stack.
* shift of a token: the lexer's `ReadToken() (Token, int)` returns a value of static type `Token`;
* shift of ERROR: `_makeError()` / `_recover` supply a value of static type `Error`;
* reduce by production `p`: the top `len(Terms)` slots spell the production (an LR invariant,
  see `Lox.LR`), they are replaced by the rule and the value `_act(p)` returns;
* `_recover` pops slots (`p._stack.Pop(1)`, `p._stack = save`). -/
inductive Step (c : Case) (b : Binding) (V : Values) (call : Nat → List V.Val → V.Val) :
    Stack V → Stack V → Prop
  | shiftTok (stk : Stack V) (v : V.Val) : WellTyped V v c.tokenTy → Step c b V call stk (stk ++ [(.tok, v)])
  | shiftErr (stk : Stack V) (v : V.Val) : WellTyped V v c.errorTy → Step c b V call stk (stk ++ [(.err, v)])
  | reduce (stk seg : Stack V) (p : Nat) (pr : Prod) (res : V.Val) :
      c.prods[p]? = some pr → seg.map (·.1) = pr.terms →
      act c b V call (castTo V) p (seg.map (·.2)) = some res →
      Step c b V call (stk ++ seg) (stk ++ [(.rule pr.rule, res)])
  | pop (stk seg : Stack V) : Step c b V call (stk ++ seg) stk

inductive Reach (c : Case) (b : Binding) (V : Values) (call : Nat → List V.Val → V.Val) :
    Stack V → Prop
  | init : Reach c b V call []
  | step {s s' : Stack V} : Reach c b V call s → Step c b V call s s' → Reach c b V call s'

theorem argsOK_of_stack {V : Values} {c : Case} {b : Binding} :
    ∀ (seg : Stack V) (terms : List Term), StackOK V c b seg → seg.map (·.1) = terms →
      ArgsOK V c b.ruleTy terms (seg.map (·.2))
  | [], [], _, _ => trivial
  | [], _ :: _, _, h => by cases h
  | _ :: _, [], _, h => by cases h
  | sv :: seg, t :: ts, hok, h => by
    simp only [List.map_cons, List.cons.injEq] at h
    obtain ⟨h1, h2⟩ := h
    refine ⟨?_, argsOK_of_stack seg ts (fun x hx => hok x (List.mem_cons_of_mem _ hx)) h2⟩
    rw [← h1]; exact hok sv List.mem_cons_self

theorem stackOK_append {V : Values} {c : Case} {b : Binding} {s t : Stack V} :
    StackOK V c b (s ++ t) ↔ StackOK V c b s ∧ StackOK V c b t := by
  unfold StackOK
  simp only [List.mem_append]
  constructor
  · intro h; exact ⟨fun x hx => h x (Or.inl hx), fun x hx => h x (Or.inr hx)⟩
  · rintro ⟨h1, h2⟩ x (hx | hx)
    · exact h1 x hx
    · exact h2 x hx

theorem stackOK_single {V : Values} {c : Case} {b : Binding} {t : Term} {v : V.Val} {T : Ty}
    (h1 : termTyF c b.ruleTy t = some T) (h2 : WellTyped V v T) : StackOK V c b [(t, v)] := by
  intro sv hsv
  simp only [List.mem_cons, List.not_mem_nil, or_false] at hsv
  subst hsv; exact ⟨T, h1, h2⟩

/-- **The stack invariant.** Along every run of the generated parser every stack value conforms
to the Go type lox derived for its symbol: preserved by shifts (given what the lexer's static type
guarantees), by every user action (given that a method returns a value of its declared result
type, `hcall`) and by every synthesised helper action. -/
theorem stack_invariant {c : Case} (w : WF c) (ie : IdentEquiv c) {b : Binding}
    (h : assign c = .ok b) {V : Values} (L : V.Lawful c) (call : Nat → List V.Val → V.Val)
    (hcall : ∀ (i : Nat) m vs, c.methods[i]? = some m → WellTyped V (call i vs) m.ret)
    {stk : Stack V} (hr : Reach c b V call stk) : StackOK V c b stk := by
  have F := ok_facts w ie h
  induction hr with
  | init => intro sv hsv; cases hsv
  | step _ hstep ih =>
    cases hstep with
    | shiftTok stk v hv => exact stackOK_append.mpr ⟨ih, stackOK_single rfl hv⟩
    | shiftErr stk v hv => exact stackOK_append.mpr ⟨ih, stackOK_single rfl hv⟩
    | reduce stk seg p pr res hp hseg hact =>
      obtain ⟨h1, h2⟩ := stackOK_append.mp ih
      obtain ⟨T, hT, hw⟩ := act_wellTyped L F call hcall hp (argsOK_of_stack seg pr.terms h2 hseg) hact
      exact stackOK_append.mpr ⟨h1, stackOK_single hT hw⟩
    | pop stk seg => exact (stackOK_append.mp ih).1

/-- **C06, values.** Whenever lox succeeded, at every reduction by a production of a user rule the
generated `_act` calls the production's unique matching method, and the arguments
`_cast[<type of term i>](slot i)` it passes are exactly the values on the stack – the value
produced for each term, never a substituted zero value – whatever Go types are involved: the cast
is to the TERM's type, to which the slot conforms by `stack_invariant`, and Go's assignability
converts to the parameter type. -/
theorem values_flow {c : Case} (w : WF c) (ie : IdentEquiv c) {b : Binding}
    (h : assign c = .ok b) {V : Values} (L : V.Lawful c) (call : Nat → List V.Val → V.Val)
    (hcall : ∀ (i : Nat) m vs, c.methods[i]? = some m → WellTyped V (call i vs) m.ret)
    {stk seg : Stack V} (hr : Reach c b V call (stk ++ seg))
    {p : Nat} {pr : Prod} (hp : c.prods[p]? = some pr) (hu : UserProd c pr)
    (hseg : seg.map (·.1) = pr.terms) :
    ∃ m, b.method[p]? = some (some m) ∧ Matches c pr m ∧ (∀ j, Matches c pr j → j = m) ∧
      act c b V call (castTo V) p (seg.map (·.2)) = some (call m (seg.map (·.2))) := by
  have F := ok_facts w ie h
  have hok := (stackOK_append.mp (stack_invariant w ie h L call hcall hr)).2
  obtain ⟨m, hm, hmatch, hact⟩ := act_user F call hp hu (argsOK_of_stack seg pr.terms hok hseg)
  obtain ⟨m', hm', _, huniq⟩ := (assign_binding_sound w ie h).1 p pr hp hu
  have e : m' = m := by rw [hm] at hm'; simpa using hm'.symm
  subst e
  exact ⟨m', hm, hmatch, huniq, hact⟩

/-- The same for the synthesised actions of helper rules (`x?`, `x*`, `x+`, `x*!`, `@list`): every
`_cast` they apply to a stack slot returns the slot's value, so no element of a list and no
optional value is replaced by a zero value (`fun _ v => v` is `_act` without any assertion). -/
theorem values_flow_helpers {c : Case} (w : WF c) (ie : IdentEquiv c) {b : Binding}
    (h : assign c = .ok b) {V : Values} (L : V.Lawful c) (call : Nat → List V.Val → V.Val)
    (hcall : ∀ (i : Nat) m vs, c.methods[i]? = some m → WellTyped V (call i vs) m.ret)
    {stk seg : Stack V} (hr : Reach c b V call (stk ++ seg))
    {p : Nat} {pr : Prod} (hp : c.prods[p]? = some pr) (hseg : seg.map (·.1) = pr.terms) :
    act c b V call (castTo V) p (seg.map (·.2)) = act c b V call (fun _ v => v) p (seg.map (·.2)) := by
  have F := ok_facts w ie h
  have hok := (stackOK_append.mp (stack_invariant w ie h L call hcall hr)).2
  exact act_eq_ideal F call hp (argsOK_of_stack seg pr.terms hok hseg)

/-- The documented derivation of helper-rule types, read off the binding itself:
`x?` ↦ type of `x`; `x+`, `x+!`, `@list(x, s)` ↦ slice of the type of `x` (`x` = the only term of the
rule's second production); `x*`, `x*!` ↦ the type of `x+`, `x+!`. -/
theorem helper_types {c : Case} (w : WF c) (ie : IdentEquiv c) {b : Binding}
    (h : assign c = .ok b) (r : Nat) (ru : Rule) (hr : c.rules[r]? = some ru) :
    (ru.gen = .zeroOrOne → ∃ p0 p1 x, ruleProds c r = [p0, p1] ∧ termsOf c p0 = [x] ∧
      termsOf c p1 = [] ∧ tyGet b.ruleTy r = termTyF c b.ruleTy x) ∧
    (isSliceGen (some ru.gen) = true → ∃ p0 p1 x T, ruleProds c r = [p0, p1] ∧ termsOf c p1 = [x] ∧
      termTyF c b.ruleTy x = some T ∧ tyGet b.ruleTy r = some (c.sliceOf T)) ∧
    (ru.gen = .zeroOrMore ∨ ru.gen = .zeroOrMoreF → ∃ p0 p1 h', ruleProds c r = [p0, p1] ∧
      termsOf c p0 = [.rule h'] ∧ termsOf c p1 = [] ∧ tyGet b.ruleTy r = tyGet b.ruleTy h') := by
  have F := ok_facts w ie h
  refine ⟨?_, ?_, ?_⟩
  · intro hg
    obtain ⟨p0, p1, x, hl, h0, h1, hS⟩ := specTy_opt w hr hg
    exact ⟨p0, p1, x, hl, h0, h1, by rw [F.ty, hS, termTyF_facts F]⟩
  · intro hg
    exact slice_types F (by rw [genOf_eq hr]; exact hg)
  · intro hg
    obtain ⟨p0, p1, h', hl, h0, h1, _, hS⟩ := specTy_star w hr hg
    exact ⟨p0, p1, h', hl, h0, h1, by rw [F.ty, hS, F.ty]⟩

/-! ## The hypotheses are satisfiable; the repaired defect D4 -/

/-- `type Token …; type N []int; type S struct{…}`; grammar `s = A* n?`, `n = A`;
`func (p *P) on_s(a []Token, n []int) S` – the parameter `n []int` accepts the value of `n?`
(type `N`) by assignability only – `func (p *P) on_n(a Token) N`, and `_onBounds`.
Types: 0 `Token`, 1 `Error`, 2 `[]int`, 3 `N`, 4 `[]Token`, 5 `[]Error`, 6 `S`, 7 `[]N`, 8 `[]S`,
9 `[][]int`. -/
def exCase : Case where
  assignable a b := a == b || (a == 3 && b == 2) || (a == 2 && b == 3)
  identical a b := a == b
  sliceOf t := match t with | 0 => 4 | 1 => 5 | 3 => 7 | 6 => 8 | _ => 9
  tokenTy := 0
  errorTy := 1
  rules := [⟨"S'", .sprime⟩, ⟨"s", .user⟩, ⟨"n", .user⟩, ⟨"A*", .zeroOrMore⟩, ⟨"A+", .oneOrMore⟩,
    ⟨"n?", .zeroOrOne⟩]
  prods := [⟨0, [.rule 1]⟩, ⟨1, [.rule 3, .rule 5]⟩, ⟨2, [.tok]⟩, ⟨3, [.rule 4]⟩, ⟨3, []⟩,
    ⟨4, [.rule 4, .tok]⟩, ⟨4, [.tok]⟩, ⟨5, [.rule 2]⟩, ⟨5, []⟩]
  methods := [⟨"on_s", [4, 2], 1, 6, false⟩, ⟨"on_n", [0], 1, 3, false⟩,
    ⟨"_onBounds", [9, 0, 0], 0, 0, false⟩]

def exBinding : Binding :=
  ⟨[none, some 0, some 1, none, none, none, none, none, none],
   [none, some 6, some 3, some 4, some 4, some 3], true⟩

theorem exCase_wf : WF exCase := ⟨by decide, by decide, by decide⟩

theorem exCase_ident : IdentEquiv exCase :=
  ⟨fun t => by simp [exCase], fun t u h => by simp [exCase] at h ⊢; exact h.symm,
   fun t u v h1 h2 => by simp [exCase] at h1 h2 ⊢; exact h1.trans h2⟩

theorem exCase_ok : assign exCase = .ok exBinding := by decide

example : Spec exCase := (assign_ok_iff exCase_wf exCase_ident).mp ⟨_, exCase_ok⟩

/-- A failing case for `assign_diag_names`: the same package without `on_n`. -/
def exCaseBad : Case := { exCase with methods := [⟨"on_s", [4, 2], 1, 6, false⟩] }

example : WF exCaseBad := ⟨by decide, by decide, by decide⟩
example : assign exCaseBad = .fail [⟨.untyped, .rule 2⟩, ⟨.untyped, .rule 5⟩] := by decide

/-- A concrete universe of run-time values: dynamic type and an identity. All types of `exCase`
are concrete: the zero value of `T` has dynamic type `T`, `.(T)` succeeds on dynamic type `T` only. -/
def exV : Values where
  Val := Option Ty × Nat
  dyn v := v.1
  zero T := (some T, 0)
  conforms d T := d == T
  lit1 T e := (some (exCase.sliceOf T), e.2 + 1)
  app T l e := (some (exCase.sliceOf T), l.2 + e.2 + 1)
  discard v := v.2 % 2 == 0

theorem exV_lawful : exV.Lawful exCase where
  dyn_lit1 _ _ := rfl
  dyn_app _ _ _ := rfl
  conforms_slice T := by simp [exV]
  conforms_ident d T T' h := by
    have : T = T' := by simpa [exCase] using h
    rw [this]
  zero_ident T T' h := by
    have : T = T' := by simpa [exCase] using h
    rw [this]

/-- Methods that return a value of their declared result type. -/
def exCall (i : Nat) (vs : List exV.Val) : exV.Val :=
  (((exCase.methods[i]?).map (·.ret)), 100 + vs.length)

theorem exCall_typed (i : Nat) (m : Method) (vs : List exV.Val) (h : exCase.methods[i]? = some m) :
    WellTyped exV (exCall i vs) m.ret := by
  left; simp [exCall, h, Values.passes, exV]

/-- `values_flow` is not vacuous: the stack `A` (one token) is reachable and `n = A` reduces it. -/
example : ∃ m, exBinding.method[2]? = some (some m) ∧
    act exCase exBinding exV exCall (castTo exV) 2 [(some 0, 7)] = some (exCall m [(some 0, 7)]) := by
  have hr : Reach exCase exBinding exV exCall ([] ++ [(Term.tok, ((some 0, 7) : exV.Val))]) :=
    Reach.step Reach.init (Step.shiftTok (c := exCase) (b := exBinding) (V := exV) (call := exCall)
      [] (some 0, 7) (Or.inl rfl))
  obtain ⟨m, h1, _, _, h4⟩ := values_flow exCase_wf exCase_ident exCase_ok exV_lawful exCall
    exCall_typed hr (p := 2) (pr := ⟨2, [.tok]⟩) rfl (by unfold UserProd; decide) rfl
  exact ⟨m, h1, h4⟩

/-- `values_flow_helpers` and `stack_invariant` are not vacuous either: `A+ = A` (production 6)
reduces the reachable stack `A`; the slice it builds is well typed for `[]Token`. -/
example :
    act exCase exBinding exV exCall (castTo exV) 6 [(some 0, 7)] =
      act exCase exBinding exV exCall (fun _ v => v) 6 [(some 0, 7)] ∧
    StackOK exV exCase exBinding [(Term.rule 4, ((some 4, 8) : exV.Val))] := by
  have hr : Reach exCase exBinding exV exCall ([] ++ [(Term.tok, ((some 0, 7) : exV.Val))]) :=
    Reach.step Reach.init (Step.shiftTok (c := exCase) (b := exBinding) (V := exV) (call := exCall)
      [] (some 0, 7) (Or.inl rfl))
  refine ⟨values_flow_helpers exCase_wf exCase_ident exCase_ok exV_lawful exCall exCall_typed hr
    (p := 6) (pr := ⟨4, [.tok]⟩) rfl rfl, ?_⟩
  have hr2 : Reach exCase exBinding exV exCall ([] ++ [(Term.rule 4, ((some 4, 8) : exV.Val))]) :=
    Reach.step hr (Step.reduce (c := exCase) (b := exBinding) (V := exV) (call := exCall)
      [] [(Term.tok, ((some 0, 7) : exV.Val))] 6 ⟨4, [.tok]⟩ (some 4, 8) rfl rfl rfl)
  exact stack_invariant exCase_wf exCase_ident exCase_ok exV_lawful exCall exCall_typed hr2

/-- **The repaired defect D4** (`_cast[<parameter type>]`, the template before the repair).
`on_s(a []Token, n []int)` is accepted for `s = A* n?` because `N` is assignable to `[]int`; the
value on the stack has dynamic type `N`; the OLD template asserted the PARAMETER's type `[]int`,
the assertion fails and the action received the zero value (`nil`). With the term's type the
value arrives. -/
example :
    exCase.assignable 3 2 = true ∧ exCase.identical 3 2 = false ∧
    castTo exV 2 ((some 3, 7) : exV.Val) = exV.zero 2 ∧           -- old: `_cast[[]int](v)`
    castTo exV 2 ((some 3, 7) : exV.Val) ≠ (some 3, 7) ∧
    castTo exV 3 ((some 3, 7) : exV.Val) = (some 3, 7) := by     -- repaired: `_cast[N](v)`
  refine ⟨by decide, by decide, rfl, ?_, rfl⟩
  show ((some 2, 0) : Option Ty × Nat) ≠ (some 3, 7)
  decide

end Lox.Props.C06
