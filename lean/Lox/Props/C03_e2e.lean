import Lox.Props.C01_sugar_e2e
import Lox.Props.C03_sugar
import Lox.Props.C03
import Lox.LR.SugarE2EUser
/-!
# C03, the SUGAR end to end: the user's actions run bottom-up, once per node, and every parameter
receives the documented sugar value

The statements speak about the sugar grammar `SG` the user writes and the model of the parser lox
generates for it (`generate (desugar SG).1 …`, hypotheses as in `C01_sugar_e2e.lean`). They compose
`clean_accept` (Lox/LR/SugarE2ERun.lean: value-level post-order of a clean run),
`generator_valid`, `tables_unambiguous`, `term_values` / `list_sugar_values` (C03_sugar.lean).

Vocabulary (Lox/LR/SugarE2ERun.lean): `actCalls log` = the `_act(p, args…)` calls of the event log
with their argument VALUES, newest first; `Val.post v` = the production nodes of the value tree `v`
children-before-parent, left to right, each with its children values; `tokAt w i` = the `i`-th
token the lexer returned. `interp kinds rules v` (Lox/LR/Sugar.lean) = what the generated `_act`
branches make of the value tree `v` (a user node stays a node; helper nodes are folded into the
slice / optional value the user's method receives). `kindOf SG p = 0` ⇔ production `p` was written
by the user (`SGrammar.user_prod_of_kind`, `SGrammar.kind_of_user_prod`). -/
namespace Lox.Props.C03
open Lox.LR Lox.LR.Emit Lox.LR.Abs Lox.LR.Rt
open Lox.Props.C01 (sugar_generator_valid startSym_desugar)

/-- **call_values** (grammar level). In a value tree `v` whose tree is a derivation tree of the
desugared grammar, every call `(p, kids)` of a USER production `p` (`kindOf SG p = 0`) is the call
of production `sp` of a user rule `A`: one argument per term of `sp`, in order; the `i`-th argument
`kid` is derived from the `i`-th term `t`, and when `t` is a sugar term (`x?`, `x*`, `x*!`, `x+`,
`@list(x,s)`, `@list(x,s)?`) the value the user's method receives for it, `interp … kid`, is the
documented one: built from element values `es`, each derived from `x`, listed in input order
(for `?`, `*`, `*!`, `+` the argument's tokens are exactly the elements' tokens, concatenated) –
`x?` → the element's value or the zero value, `x*`/`x+` → all of them, `x*!` → those whose
`Discard()` is false, `@list` → the elements; and for `@list(x, s)` in full: first element, then
(separator, element) pairs, separators derived from `s`, present in the input between the
elements and ABSENT from the value. -/
theorem call_values {SG : SGrammar} (hw : SG.wf = true) (rules : Array Int) {X : Sym}
    {w : List Nat} {v : Val} (hd : Der (desugar SG).1 [X] w [v.toTree]) {p : Nat}
    {kids : List Val} (hm : (p, kids) ∈ v.post) (hk : kindOf SG p = 0) :
    ∃ A r sp, SG.rules[A]? = some r ∧ sp ∈ r.prods ∧
      (desugar SG).1.prods[p]? = some ⟨A + 1, sp.terms.map SG.symOf⟩ ∧
      kids.length = sp.terms.length ∧
      ∀ (i : Nat) (t : STerm) (kid : Val), sp.terms[i]? = some t → kids[i]? = some kid →
        ∃ wi, Der (desugar SG).1 [SG.symOf t] wi [kid.toTree] ∧
          ∀ k, t.key = some k →
            (∃ es : List Val,
              (∀ e ∈ es, ∃ w', Der (desugar SG).1 [SGrammar.symOfAtom k.x] w' [e.toTree]) ∧
              (k.kind ≠ .list → k.kind ≠ .listOpt →
                wi = (es.map fun e => e.toTree.yield).flatten) ∧
              interp (desugar SG).2.1 rules kid =
                docValue k.kind (es.map (interp (desugar SG).2.1 rules))) ∧
            (k.kind = .list → ∃ (e0 : Val) (ps : List (Val × Val)),
              (∀ e ∈ e0 :: ps.map (·.2),
                ∃ w', Der (desugar SG).1 [SGrammar.symOfAtom k.x] w' [e.toTree]) ∧
              (∀ s ∈ ps.map (·.1),
                ∃ w', Der (desugar SG).1 [SGrammar.symOfAtom k.sep] w' [s.toTree]) ∧
              wi = e0.toTree.yield ++
                (ps.map fun q => q.1.toTree.yield ++ q.2.toTree.yield).flatten ∧
              interp (desugar SG).2.1 rules kid =
                .list ((e0 :: ps.map (·.2)).map (interp (desugar SG).2.1 rules))) := by
  have hW := (SGrammar.wf_iff SG).1 hw
  obtain ⟨pr, w', hq, hder⟩ := der_call hd hm
  obtain ⟨A, r, sp, hr, hp, rfl⟩ := SGrammar.user_prod_of_kind hq hk
  obtain ⟨hlen, hargs⟩ := der_args hder
  refine ⟨A, r, sp, hr, hp, hq, by simpa using hlen, fun i t kid ht hkid => ?_⟩
  obtain ⟨wi, hdi⟩ := hargs i (SG.symOf t) kid (by simp [List.getElem?_map, ht]) hkid
  refine ⟨wi, hdi, fun k hkey => ?_⟩
  have htm : t ∈ SG.allTerms := SGrammar.term_mem_allTerms hr hp (List.mem_of_getElem? ht)
  rw [SGrammar.symOf_key hkey] at hdi
  refine ⟨term_values rules hw htm hkey hdi, fun hkind => ?_⟩
  obtain ⟨j, hj, e⟩ := SGrammar.ruleIdx_of_mem hW (SGrammar.key_mem hW htm hkey)
  rw [e] at hdi
  exact list_sugar_values rules hj hkind hdi

variable {SG : SGrammar} {ord : List Sym} {T : Tables} {cert : Array (List Item)}

/-- **sugar_generator_actions.** When the generated parser accepts `w` cleanly (outcome `accept`,
no recovery), the value `v` it leaves on the stack is THE derivation tree of `w` (the grammar is
unambiguous), its leaves are exactly the input tokens `tok 0 w[0], …`, and the action calls it
performed – production and argument values, oldest first – are exactly the post-order of `v`:
one call per node, each after the calls of its children, left to right, with the children's
values as arguments (`_act` for helper nodes included; the user's methods are the calls with
`kindOf SG p = 0`, see `sugar_generator_user_calls`). -/
theorem sugar_generator_actions (hw : SG.wf = true)
    (hord : ordOKB SG.nTerms SG.nRules ord = true)
    (hgen : generate (desugar SG).1 SG.nTerms ord = some (T, cert))
    (hfree : conflictFree (desugar SG).1 SG.nTerms ord = true)
    (hsmall : cert.size ≤ 2147483647) {w : List Nat} (hw2 : ∀ x ∈ w, 2 ≤ x) {wb : Bool}
    {fuel : Nat} (hacc : (parseG T w.toArray wb fuel).1 = .accept)
    (h0 : (parseG T w.toArray wb fuel).2.2 = 0) :
    ∃ v : Val,
      (parse T w.toArray wb fuel).2.stack.head?.map (·.sym) = some v ∧
      Der (desugar SG).1 [.n 1] w [v.toTree] ∧
      (∀ t', Der (desugar SG).1 [.n 1] w [t'] → t' = v.toTree) ∧
      leaves v = (List.range w.length).map (tokAt w) ∧
      (actCalls (parse T w.toArray wb fuel).2.log).reverse = v.post ∧
      (actsOf (parse T w.toArray wb fuel).2.log).reverse = v.toTree.post := by
  have hc := sugar_generator_valid hw hord hgen hfree hsmall
  obtain ⟨st0, v, b, bot, hst, hd, hl, hlog⟩ := clean_accept (C09.safeOK_of_check hc) (w := w)
    (fun x hx => by have := hw2 x hx; omega) (fun x hx => by have := hw2 x hx; omega) hacc h0
  rw [startSym_desugar] at hd
  refine ⟨v, by rw [hst]; rfl, hd, fun t' ht' => ?_, hl, hlog, ?_⟩
  · have h1 := ht'
    rw [← startSym_desugar SG] at h1 hd
    exact C01.tables_unambiguous hc h1 hd
  · rw [actsOf_eq_actCalls, ← List.map_reverse, hlog, post_toTree]

/-- **sugar_generator_user_calls.** On a cleanly accepted input, every logged call of a production
the user wrote (`kindOf SG p = 0`) is the call of production `sp` of a user rule `A` with one
argument per term of `sp`, each argument derived from its term, and for every sugar term the value
handed to the user's method (`interp (desugar SG).2.1 T.rules kid`, `T.rules` = the emitted
`_rules`) is the documented one – see `call_values` for the reading. -/
theorem sugar_generator_user_calls (hw : SG.wf = true)
    (hord : ordOKB SG.nTerms SG.nRules ord = true)
    (hgen : generate (desugar SG).1 SG.nTerms ord = some (T, cert))
    (hfree : conflictFree (desugar SG).1 SG.nTerms ord = true)
    (hsmall : cert.size ≤ 2147483647) {w : List Nat} (hw2 : ∀ x ∈ w, 2 ≤ x) {wb : Bool}
    {fuel : Nat} (hacc : (parseG T w.toArray wb fuel).1 = .accept)
    (h0 : (parseG T w.toArray wb fuel).2.2 = 0) {p : Nat} {kids : List Val}
    (hev : Event.act p kids ∈ (parse T w.toArray wb fuel).2.log) (hk : kindOf SG p = 0) :
    ∃ A r sp, SG.rules[A]? = some r ∧ sp ∈ r.prods ∧
      (desugar SG).1.prods[p]? = some ⟨A + 1, sp.terms.map SG.symOf⟩ ∧
      kids.length = sp.terms.length ∧
      ∀ (i : Nat) (t : STerm) (kid : Val), sp.terms[i]? = some t → kids[i]? = some kid →
        ∃ wi, Der (desugar SG).1 [SG.symOf t] wi [kid.toTree] ∧
          ∀ k, t.key = some k →
            (∃ es : List Val,
              (∀ e ∈ es, ∃ w', Der (desugar SG).1 [SGrammar.symOfAtom k.x] w' [e.toTree]) ∧
              (k.kind ≠ .list → k.kind ≠ .listOpt →
                wi = (es.map fun e => e.toTree.yield).flatten) ∧
              interp (desugar SG).2.1 T.rules kid =
                docValue k.kind (es.map (interp (desugar SG).2.1 T.rules))) ∧
            (k.kind = .list → ∃ (e0 : Val) (ps : List (Val × Val)),
              (∀ e ∈ e0 :: ps.map (·.2),
                ∃ w', Der (desugar SG).1 [SGrammar.symOfAtom k.x] w' [e.toTree]) ∧
              (∀ s ∈ ps.map (·.1),
                ∃ w', Der (desugar SG).1 [SGrammar.symOfAtom k.sep] w' [s.toTree]) ∧
              wi = e0.toTree.yield ++
                (ps.map fun q => q.1.toTree.yield ++ q.2.toTree.yield).flatten ∧
              interp (desugar SG).2.1 T.rules kid =
                .list ((e0 :: ps.map (·.2)).map (interp (desugar SG).2.1 T.rules))) := by
  obtain ⟨v, _, hd, _, _, hlog, _⟩ :=
    sugar_generator_actions hw hord hgen hfree hsmall hw2 hacc h0
  have hm : (p, kids) ∈ v.post := by
    rw [← hlog, List.mem_reverse]
    exact mem_actCalls.2 hev
  exact call_values hw T.rules hd hm hk

/-- The user's methods alone: the calls of user productions, oldest first, are the user nodes of
the derivation tree in post-order – one call per node of a user-written production. -/
theorem sugar_generator_user_actions (hw : SG.wf = true)
    (hord : ordOKB SG.nTerms SG.nRules ord = true)
    (hgen : generate (desugar SG).1 SG.nTerms ord = some (T, cert))
    (hfree : conflictFree (desugar SG).1 SG.nTerms ord = true)
    (hsmall : cert.size ≤ 2147483647) {w : List Nat} (hw2 : ∀ x ∈ w, 2 ≤ x) {wb : Bool}
    {fuel : Nat} (hacc : (parseG T w.toArray wb fuel).1 = .accept)
    (h0 : (parseG T w.toArray wb fuel).2.2 = 0) :
    ∃ v : Val, (parse T w.toArray wb fuel).2.stack.head?.map (·.sym) = some v ∧
      Der (desugar SG).1 [.n 1] w [v.toTree] ∧
      ((actCalls (parse T w.toArray wb fuel).2.log).reverse.filter fun c => kindOf SG c.1 == 0) =
        v.post.filter fun c => kindOf SG c.1 == 0 := by
  obtain ⟨v, h1, hd, _, _, hlog, _⟩ :=
    sugar_generator_actions hw hord hgen hfree hsmall hw2 hacc h0
  exact ⟨v, h1, hd, by rw [hlog]⟩

/-- The same for every sentence: for sufficient fuel the parser accepts cleanly, hence all of the
above applies (no hypothesis about the run is left). -/
theorem sugar_generator_sentence_actions (hw : SG.wf = true)
    (hord : ordOKB SG.nTerms SG.nRules ord = true)
    (hgen : generate (desugar SG).1 SG.nTerms ord = some (T, cert))
    (hfree : conflictFree (desugar SG).1 SG.nTerms ord = true)
    (hsmall : cert.size ≤ 2147483647) {w : List Nat} (hw2 : ∀ x ∈ w, 2 ≤ x)
    (hs : SDer SG [.atom (.rule 0)] w) (wb : Bool) :
    ∃ N, ∀ fuel, N ≤ fuel → ∃ v : Val,
      (parse T w.toArray wb fuel).1 = .accept ∧
      (parse T w.toArray wb fuel).2.stack.head?.map (·.sym) = some v ∧
      Der (desugar SG).1 [.n 1] w [v.toTree] ∧
      (∀ t', Der (desugar SG).1 [.n 1] w [t'] → t' = v.toTree) ∧
      (actCalls (parse T w.toArray wb fuel).2.log).reverse = v.post := by
  obtain ⟨N, hN⟩ := C01.sugar_generator_accepts hw hord hgen hfree hsmall hw2 hs wb
  refine ⟨N, fun fuel hf => ?_⟩
  obtain ⟨hacc, h0⟩ := hN fuel hf
  obtain ⟨v, h1, hd, hu, _, hlog, _⟩ :=
    sugar_generator_actions hw hord hgen hfree hsmall hw2 hacc h0
  exact ⟨v, by rw [← parseG_fst]; exact hacc, h1, hd, hu, hlog⟩

/-! ### Non-vacuity: `s = A? b+ ;  b = @list(B, C)` (`C01.exE2E`) on `A  B C B  B` -/

open Lox.Props.C01 (exE2E exE2EOrd exE2E_free exE2E_gen exE2E_accept exE2E_member)

/-- Kinds: `S'`; three user productions (`s`, `b`: 1, 2); `A?` (3, 4); `b+` (5, 6);
`@list(B,C)` (7, 8). -/
example : (desugar exE2E).2.1 = #[11, 0, 0, 7, 8, 2, 1, 6, 5] := by decide

/-- By evaluation of the models (generator, then generated parser, then `_act`): the value handed
to the root action `on_s(A?, b+)` for `A B C B B` is `(token 0, [b₁, b₂])`, where `b₁`'s own
parameter `@list(B, C)` was `[token 1, token 3]` – the separator, token 2, is not in it – and
`b₂`'s was `[token 4]`. -/
theorem exE2E_value : (generate (desugar exE2E).1 exE2E.nTerms exE2EOrd).map
    (fun r => (parseG r.1 #[2, 3, 4, 3, 3] true 60).2.1.stack.head?.map fun e =>
      (interp (desugar exE2E).2.1 r.1.rules e.sym).render) =
    some (some "(r1 t0 [(r2 [t1 t3]) (r2 [t4])])") := by decide +kernel

/-- THROUGH the theorems: the run on `A B C B B` is a clean accept (by evaluation), so
`sugar_generator_actions` gives the value `v` left on the stack; its root is a call of the user
production `s = A? b+` (kind 0) with two arguments `k0`, `k1`, and `call_values` says what the
user's method receives for them: for `A?` the value of the (first) element derived from `A`, or the
zero value when there is none; for `b+` the list of ALL the `b` values `es` in input order, the
tokens of the argument being exactly the tokens of these elements, concatenated. -/
example : ∃ T cert, generate (desugar exE2E).1 exE2E.nTerms exE2EOrd = some (T, cert) ∧
    ∃ (v k0 k1 : Val), (parse T #[2, 3, 4, 3, 3] true 60).2.stack.head?.map (·.sym) = some v ∧
      v = .node 1 [k0, k1] ∧ (1, [k0, k1]) ∈ v.post ∧
      (∃ es : List Val, (∀ e ∈ es, ∃ w', Der (desugar exE2E).1 [.t 2] w' [e.toTree]) ∧
        interp (desugar exE2E).2.1 T.rules k0 =
          (es.map (interp (desugar exE2E).2.1 T.rules)).head?.getD .zero) ∧
      (∃ (es : List Val) (w1 : List Nat),
        (∀ e ∈ es, ∃ w', Der (desugar exE2E).1 [.n 2] w' [e.toTree]) ∧
        Der (desugar exE2E).1 [.n 4] w1 [k1.toTree] ∧
        w1 = (es.map fun e => e.toTree.yield).flatten ∧
        interp (desugar exE2E).2.1 T.rules k1 =
          .list (es.map (interp (desugar exE2E).2.1 T.rules))) := by
  obtain ⟨T, cert, hgen, hsz⟩ := exE2E_gen
  have hr := exE2E_accept
  rw [hgen] at hr
  simp only [Option.map_some, Option.some.injEq, Prod.mk.injEq] at hr
  obtain ⟨v, hv, hd, _, _, hlog, _⟩ := sugar_generator_actions (SG := exE2E) (by decide)
    (by decide) hgen exE2E_free hsz (w := [2, 3, 4, 3, 3]) (by decide) hr.1 hr.2
  refine ⟨T, cert, hgen, ?_⟩
  -- the root of `v` is a node of a production of rule 1 = `s`
  obtain ⟨q, pr, kids, rfl, hq, hl, hrhs⟩ := hd.val_inv
  have hqs : q = 1 := by
    have hm := Array.mem_of_getElem? hq
    have hlt : q < 9 := (Array.getElem?_eq_some_iff.mp hq).1
    have : ∀ q' < 9, ∀ pr', (desugar exE2E).1.prods[q']? = some pr' → pr'.lhs = 1 → q' = 1 := by
      decide
    exact this q hlt pr hq hl
  subst hqs
  have hroot : (1, kids) ∈ (Val.node 1 kids).post := by simp [Val.post]
  obtain ⟨A, r, sp, hrl, hsp, hpq, hlen, hargs⟩ :=
    call_values (SG := exE2E) (by decide) T.rules hd hroot (by decide)
  have hpr : (desugar exE2E).1.prods[1]? = some ⟨1, [.n 3, .n 4]⟩ := by decide
  rw [hpr] at hpq
  simp only [Option.some.injEq] at hpq
  have hA : 1 = A + 1 := congrArg Lox.LR.Prod.lhs hpq
  have hA0 : A = 0 := by omega
  subst hA0
  have hr0 : r = ⟨"s", [⟨[.opt (.tok 0), .plus (.rule 1)]⟩]⟩ := by
    simpa [exE2E] using hrl.symm
  subst hr0
  simp only [List.mem_singleton] at hsp
  subst hsp
  simp only [List.length_cons, List.length_nil] at hlen
  match kids, hlen with
  | [k0, k1], _ =>
    refine ⟨_, k0, k1, hv, rfl, hroot, ?_, ?_⟩
    · obtain ⟨wi, _, hkey⟩ := hargs 0 (.opt (.tok 0)) k0 rfl rfl
      obtain ⟨⟨es, hes, _, hval⟩, _⟩ := hkey ⟨.opt, .tok 0, .tok 0⟩ rfl
      exact ⟨es, hes, hval⟩
    · obtain ⟨wi, hdi, hkey⟩ := hargs 1 (.plus (.rule 1)) k1 rfl rfl
      obtain ⟨⟨es, hes, hy, hval⟩, _⟩ := hkey ⟨.plus, .rule 1, .rule 1⟩ rfl
      exact ⟨es, wi, hes, hdi, hy (by decide) (by decide), hval⟩

end Lox.Props.C03
