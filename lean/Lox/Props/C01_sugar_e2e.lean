import Lox.Props.C01_e2e
import Lox.Props.C01_sugar
import Lox.Props.C09
import Lox.LR.SugarE2EWf
import Lox.LR.SugarE2ERun
import Lox.LR.SugarE2ENoErr
/-!
# C01, the SUGAR end to end: the parser lox generates for a sugar grammar accepts exactly the
documented language of `?`, `*`, `*!`, `+`, `@list`

Three results are composed here, for ALL sugar grammars:

* `Lox.Props.C01.sugar_lang` (C01_sugar.lean): the grammar `desugar SG` the front end builds
  (`ParserTerm.normalize`, family `desugar`) derives exactly the DOCUMENTED language `SDer SG` of the
  sugar grammar the user wrote;
* `Lox.Props.C01.generator_valid` (C01_e2e.lean): the tables the model of the generator
  (`Emit.generate` = `ConstructLALR` + `EmitParser`, family `emit`) emits for a well-formed
  conflict-free grammar pass the validator `check`;
* `Lox.Props.C01.parse_complete`, `Lox.Props.C09.no_silent_accept`,
  `Lox.Props.C09.sentence_never_recovers`: the model of the GENERATED `parse()` (`Lox.LR.parse`,
  family `lr.parse`) on validated tables.

Vocabulary. `SDer SG [.atom (.rule 0)] w` (Lox/LR/SugarSpec.lean): `w` is a sentence of the start
rule under the documented reading. `parseG T inp wb fuel` (Lox/LR/RuntimeDefs.lean) is
`Lox.LR.parse` with a ghost counter of the `_recover()` calls that returned `true`
(`parseG_fst`/`parseG_snd`: outcome and state are those of `parse`). **Accepts cleanly** =
outcome `accept` and ghost counter `0` (no error recovery took place; for grammars with `@error`
productions `parse()` may also return `true` after a recovery, on a non-sentence: C09).

Hypotheses, all decidable and all enforced or established by lox itself:
* `SG.wf`: the hypothesis of `sugar_lang` (a start rule exists, references are defined, token
  names, rule names and `ERROR` are pairwise different);
* `ordOKB SG.nTerms SG.nRules ord`: the symbol order handed to the generator model lists every
  symbol of the desugared grammar once (the real run: all symbols sorted by name);
* `generate (desugar SG).1 SG.nTerms ord = some (T, cert)`: `T` are the emitted tables (by
  `generator_total` they exist when the grammar is conflict-free);
* `conflictFree …`: lox reports no conflict (every cell of `createActions` holds one action);
* `cert.size ≤ 2147483647`: the `int32` range of the emitted arrays (number of LR states);
* the input `w` consists of declared tokens: terminal numbers `≥ 2` (0 = EOF, 1 = ERROR).

That `desugar SG` satisfies `wfGrammarB` is PROVED from `SG.wf` (`desugar_wf`), not assumed. -/
namespace Lox.Props.C01
open Lox.LR Lox.LR.Gen Lox.LR.Cons Lox.LR.Emit Lox.LR.Abs Lox.LR.Rt

/-- **desugar_wf.** The grammar the front end builds from a well-formed sugar grammar is
well-formed in the sense the generator theorems need: production 0 is `S' → start`, `S'` is on no
right-hand side, every symbol is in range (`nTerms` = declared tokens + 2, `nRules` = 1 + user
rules + helper rules), and EOF is on no right-hand side. -/
theorem desugar_wf {SG : SGrammar} (hw : SG.wf = true) :
    wfGrammarB (desugar SG).1 SG.nTerms SG.nRules = true := by
  have hW := (SGrammar.wf_iff SG).1 hw
  simp only [wfGrammarB, Bool.and_eq_true]
  exact ⟨⟨⟨SGrammar.desugar_prod0B SG, SGrammar.desugar_noStartB hW⟩,
    SGrammar.desugar_symsInRangeB hW⟩, SGrammar.desugar_noEofB hW⟩

variable {SG : SGrammar} {ord : List Sym} {T : Tables} {cert : Array (List Item)}

/-- **sugar_generator_valid.** The tables the generator model emits for the desugared form of a
well-formed, conflict-free sugar grammar pass the validator. -/
theorem sugar_generator_valid (hw : SG.wf = true)
    (hord : ordOKB SG.nTerms SG.nRules ord = true)
    (hgen : generate (desugar SG).1 SG.nTerms ord = some (T, cert))
    (hfree : conflictFree (desugar SG).1 SG.nTerms ord = true)
    (hsmall : cert.size ≤ 2147483647) :
    check (desugar SG).1 SG.nTerms SG.nRules T cert = .ok () :=
  generator_valid (desugar_wf hw) hord hgen hfree hsmall

/-- The generator model does not panic on a conflict-free sugar grammar: tables exist. -/
theorem sugar_generator_total (hfree : conflictFree (desugar SG).1 SG.nTerms ord = true) :
    ∃ T cert, generate (desugar SG).1 SG.nTerms ord = some (T, cert) :=
  generator_total hfree

/-- **Every documented sentence is accepted cleanly** by the generated parser, with or without
`_onBounds`, for every sufficient fuel (also for grammars with `@error` productions: on a sentence
`_recover()` is never entered). -/
theorem sugar_generator_accepts (hw : SG.wf = true)
    (hord : ordOKB SG.nTerms SG.nRules ord = true)
    (hgen : generate (desugar SG).1 SG.nTerms ord = some (T, cert))
    (hfree : conflictFree (desugar SG).1 SG.nTerms ord = true)
    (hsmall : cert.size ≤ 2147483647) {w : List Nat} (hw2 : ∀ x ∈ w, 2 ≤ x)
    (hs : SDer SG [.atom (.rule 0)] w) (wb : Bool) :
    ∃ N, ∀ fuel, N ≤ fuel →
      (parseG T w.toArray wb fuel).1 = .accept ∧ (parseG T w.toArray wb fuel).2.2 = 0 := by
  have hc := sugar_generator_valid hw hord hgen hfree hsmall
  obtain ⟨t, hd⟩ := (sugar_lang hw w).1 hs
  obtain ⟨N, hN⟩ := parse_complete hc (w := w) (fun x hx => by have := hw2 x hx; omega) hd wb
  obtain ⟨n, hrun⟩ := tables_complete hc hd
  refine ⟨N, fun fuel hf => ⟨?_, ?_⟩⟩
  · rw [parseG_fst]; exact (hN fuel hf).1
  · exact (parseG_sentence_clean (C09.safeOK_of_check hc) hrun wb fuel).1

/-- **Whatever the generated parser accepts cleanly is a documented sentence**, whatever the
fuel. -/
theorem sugar_generator_sound (hw : SG.wf = true)
    (hord : ordOKB SG.nTerms SG.nRules ord = true)
    (hgen : generate (desugar SG).1 SG.nTerms ord = some (T, cert))
    (hfree : conflictFree (desugar SG).1 SG.nTerms ord = true)
    (hsmall : cert.size ≤ 2147483647) {w : List Nat} (hw2 : ∀ x ∈ w, 2 ≤ x) {wb : Bool}
    {fuel : Nat} (hacc : (parseG T w.toArray wb fuel).1 = .accept)
    (h0 : (parseG T w.toArray wb fuel).2.2 = 0) : SDer SG [.atom (.rule 0)] w := by
  have hc := sugar_generator_valid hw hord hgen hfree hsmall
  obtain ⟨_, v, _, _, _, hd, _, _⟩ := clean_accept (C09.safeOK_of_check hc) (w := w)
    (fun x hx => by have := hw2 x hx; omega) (fun x hx => by have := hw2 x hx; omega) hacc h0
  exact (sugar_lang hw w).2 ⟨_, hd⟩

/-- **sugar_generator_correct.** For every well-formed sugar grammar `SG` whose desugared form the
generator model accepts without conflicts, and every token sequence `w`: the model of the
generated `parse()` on the emitted tables accepts `w` cleanly (for some fuel; then for every larger
one) IFF `w` is a sentence of `SG` under the documented reading of `?`, `*`, `*!`, `+`, `@list`. -/
theorem sugar_generator_correct (hw : SG.wf = true)
    (hord : ordOKB SG.nTerms SG.nRules ord = true)
    (hgen : generate (desugar SG).1 SG.nTerms ord = some (T, cert))
    (hfree : conflictFree (desugar SG).1 SG.nTerms ord = true)
    (hsmall : cert.size ≤ 2147483647) {w : List Nat} (hw2 : ∀ x ∈ w, 2 ≤ x) (wb : Bool) :
    (∃ fuel, (parseG T w.toArray wb fuel).1 = .accept ∧ (parseG T w.toArray wb fuel).2.2 = 0) ↔
      SDer SG [.atom (.rule 0)] w := by
  constructor
  · rintro ⟨fuel, hacc, h0⟩
    exact sugar_generator_sound hw hord hgen hfree hsmall hw2 hacc h0
  · intro hs
    obtain ⟨N, hN⟩ := sugar_generator_accepts hw hord hgen hfree hsmall hw2 hs wb
    exact ⟨N, hN N (Nat.le_refl N)⟩

/-- **A rejection, or a recovery, happens only on a non-sentence**: if `parse()` returns `false`
or `_recover()` returned `true` at least once – whatever the fuel – the input is not a sentence of
the documented language. -/
theorem sugar_generator_rejects (hw : SG.wf = true)
    (hord : ordOKB SG.nTerms SG.nRules ord = true)
    (hgen : generate (desugar SG).1 SG.nTerms ord = some (T, cert))
    (hfree : conflictFree (desugar SG).1 SG.nTerms ord = true)
    (hsmall : cert.size ≤ 2147483647) {w : List Nat} {wb : Bool} {fuel : Nat}
    (hrej : (parseG T w.toArray wb fuel).1 = .reject ∨ 0 < (parseG T w.toArray wb fuel).2.2) :
    ¬ SDer SG [.atom (.rule 0)] w := by
  intro hs
  have hc := sugar_generator_valid hw hord hgen hfree hsmall
  obtain ⟨t, hd⟩ := (sugar_lang hw w).1 hs
  obtain ⟨n, hrun⟩ := tables_complete hc hd
  obtain ⟨h1, h2⟩ := parseG_sentence_clean (C09.safeOK_of_check hc) hrun wb fuel
  rcases hrej with h | h
  · exact h2 h
  · omega

/-- The generated parser never panics, whatever the input (lexer ERROR tokens included). -/
theorem sugar_generator_no_panic (hw : SG.wf = true)
    (hord : ordOKB SG.nTerms SG.nRules ord = true)
    (hgen : generate (desugar SG).1 SG.nTerms ord = some (T, cert))
    (hfree : conflictFree (desugar SG).1 SG.nTerms ord = true)
    (hsmall : cert.size ≤ 2147483647) (inp : Array Nat) (wb : Bool) (fuel : Nat) :
    ∀ m, (parse T inp wb fuel).1 ≠ .panic m :=
  Rt.parse_no_panic (C09.safeOK_of_check (sugar_generator_valid hw hord hgen hfree hsmall)) inp wb fuel

/-- The same on the table-driven machine without recovery (`Abs.run` over `autoOf T cert`): it
accepts `w` iff `w` is a documented sentence, and a failing run refutes sentencehood. -/
theorem sugar_generator_run_correct (hw : SG.wf = true)
    (hord : ordOKB SG.nTerms SG.nRules ord = true)
    (hgen : generate (desugar SG).1 SG.nTerms ord = some (T, cert))
    (hfree : conflictFree (desugar SG).1 SG.nTerms ord = true)
    (hsmall : cert.size ≤ 2147483647) {w : List Nat} (hw0 : eof ∉ w) :
    ((∃ fuel t lg, run (desugar SG).1 (autoOf T cert) fuel (init w) = .acc t lg) ↔
      SDer SG [.atom (.rule 0)] w) ∧
    (∀ fuel, run (desugar SG).1 (autoOf T cert) fuel (init w) = .fail →
      ¬ SDer SG [.atom (.rule 0)] w) := by
  have hc := sugar_generator_valid hw hord hgen hfree hsmall
  refine ⟨sugar_tables_exact hw hc hw0, fun fuel hr hs => ?_⟩
  exact tables_reject hc hr ((sugar_lang hw w).1 hs)

/-- Every sugar grammar lox accepts without conflict is unambiguous under the desugared reading:
a sentence has exactly one derivation tree. -/
theorem sugar_generator_unambiguous (hw : SG.wf = true)
    (hord : ordOKB SG.nTerms SG.nRules ord = true)
    (hgen : generate (desugar SG).1 SG.nTerms ord = some (T, cert))
    (hfree : conflictFree (desugar SG).1 SG.nTerms ord = true)
    (hsmall : cert.size ≤ 2147483647) {w : List Nat} {t₁ t₂ : Tree}
    (h₁ : Der (desugar SG).1 [.n 1] w [t₁]) (h₂ : Der (desugar SG).1 [.n 1] w [t₂]) : t₁ = t₂ := by
  have hc := sugar_generator_valid hw hord hgen hfree hsmall
  rw [← startSym_desugar SG] at h₁ h₂
  exact tables_unambiguous hc h₁ h₂

/-- For sugar grammars whose tables hold no ERROR action (no `@error`; decidable per artefact:
`noErrorB`), clean or not makes no difference: `parse()` returns `true` iff the input is a
documented sentence. EXTRA hypothesis w.r.t. `sugar_generator_correct`: `hne`. -/
theorem sugar_generator_correct_noerror_partial (hw : SG.wf = true)
    (hord : ordOKB SG.nTerms SG.nRules ord = true)
    (hgen : generate (desugar SG).1 SG.nTerms ord = some (T, cert))
    (hfree : conflictFree (desugar SG).1 SG.nTerms ord = true)
    (hsmall : cert.size ≤ 2147483647) (hne : NoErrorActions T cert.size) {w : List Nat}
    (hw2 : ∀ x ∈ w, 2 ≤ x) (wb : Bool) :
    (∃ fuel, (parse T w.toArray wb fuel).1 = .accept) ↔ SDer SG [.atom (.rule 0)] w := by
  have hc := sugar_generator_valid hw hord hgen hfree hsmall
  constructor
  · rintro ⟨fuel, hacc⟩
    obtain ⟨t, hd, _⟩ := parse_sound hc hne (w := w)
      (fun h => by have := hw2 _ h; simp [eof] at this)
      (fun x hx => by have := hw2 x hx; omega) wb fuel hacc
    exact (sugar_lang hw w).2 ⟨t, hd⟩
  · intro hs
    obtain ⟨N, hN⟩ := sugar_generator_accepts hw hord hgen hfree hsmall hw2 hs wb
    exact ⟨N, by rw [← parseG_fst]; exact (hN N (Nat.le_refl N)).1⟩

/-- **generator_no_error_actions** (grammar level, any precedences). If the ERROR terminal (1)
stands on no right-hand side of a well-formed grammar, the tables the generator model emits hold no
action on ERROR in any state: lookaheads of LALR(1) items are EOF or terminals of right-hand
sides (`lr1_la`). This discharges the hypothesis `NoErrorActions` of `parse_sound`,
`parse_no_panic`, `parse_reject`, `parse_decides` (C01.lean) for EVERY grammar without `@error`. -/
theorem generator_no_error_actions {info : Nat → Lox.Dec.ProdInfo} {G : Grammar} {nT nR : Nat}
    {ord : List Sym} {T : Tables} {cert : Array (List Item)} (hwf : wfGrammarB G nT nR = true)
    (hord : ordOKB nT nR ord = true) (hgen : generateP info G nT ord = some (T, cert))
    (hno : ¬ TermUsed G 1) : NoErrorActions T cert.size := by
  simp only [wfGrammarB, Bool.and_eq_true] at hwf
  obtain ⟨⟨⟨hp0, _⟩, hsyms⟩, _⟩ := hwf
  have hS := symsInRangeB_spec hsyms
  have hO := ordOKB_spec hord
  unfold generateP at hgen
  cases hst : construct G nT ord with
  | none => simp [hst] at hgen
  | some st =>
    simp only [hst] at hgen
    cases hT : emitParserP info G nT ord st with
    | none => simp [hT] at hgen
    | some T' =>
      simp only [hT, Option.some.injEq, Prod.mk.injEq] at hgen
      obtain ⟨rfl, rfl⟩ := hgen
      obtain ⟨S', h0⟩ := prod0B_spec hp0
      have hb : Built G nT st :=
        built_of_construct (SymsInRange.termsBelow hS) (SymsInRange.ordCovers hS hO) h0 rfl hst
      intro s hs
      have := emitted_unused_miss hb (emitted_of_emitParserP hT) (a := 1) (by decide) hno
        (s := s) (by simpa [CState.cert] using hs)
      simpa [tERROR] using this

/-- For a sugar grammar that does not use `@error` (`SGrammar.errorFree`, decidable on the grammar
the user wrote) the emitted tables hold no ERROR action. -/
theorem sugar_generator_no_error_actions (hw : SG.wf = true)
    (hord : ordOKB SG.nTerms SG.nRules ord = true)
    (hgen : generate (desugar SG).1 SG.nTerms ord = some (T, cert))
    (he : SG.errorFree = true) : NoErrorActions T cert.size :=
  generator_no_error_actions (desugar_wf hw) hord hgen (SGrammar.errorFree_unused he)

/-- **sugar_generator_correct_noerror.** For sugar grammars WITHOUT `@error` no ghost counter is
needed: `parse()` returns `true` (for some fuel) iff the input is a documented sentence; it never
accepts anything else, whatever the fuel. -/
theorem sugar_generator_correct_noerror (hw : SG.wf = true)
    (hord : ordOKB SG.nTerms SG.nRules ord = true)
    (hgen : generate (desugar SG).1 SG.nTerms ord = some (T, cert))
    (hfree : conflictFree (desugar SG).1 SG.nTerms ord = true)
    (hsmall : cert.size ≤ 2147483647) (he : SG.errorFree = true) {w : List Nat}
    (hw2 : ∀ x ∈ w, 2 ≤ x) (wb : Bool) :
    (∃ fuel, (parse T w.toArray wb fuel).1 = .accept) ↔ SDer SG [.atom (.rule 0)] w :=
  sugar_generator_correct_noerror_partial hw hord hgen hfree hsmall
    (sugar_generator_no_error_actions hw hord hgen he) hw2 wb

/-- … and a rejection refutes sentencehood (no `@error`: `parse()` returns `false` only on
non-sentences; with `@error` see `sugar_generator_rejects`). -/
theorem sugar_generator_reject_noerror (hw : SG.wf = true)
    (hord : ordOKB SG.nTerms SG.nRules ord = true)
    (hgen : generate (desugar SG).1 SG.nTerms ord = some (T, cert))
    (hfree : conflictFree (desugar SG).1 SG.nTerms ord = true)
    (hsmall : cert.size ≤ 2147483647) {w : List Nat} {wb : Bool} {fuel : Nat}
    (hrej : (parse T w.toArray wb fuel).1 = .reject) : ¬ SDer SG [.atom (.rule 0)] w :=
  sugar_generator_rejects hw hord hgen hfree hsmall (.inl (by rw [parseG_fst]; exact hrej))

/-! ### Non-vacuity: `s = A? b+ ;  b = @list(B, C)`

Tokens `A B C` (terminals 2 3 4); rules `S' s b A? b+ @list(B,C)` (0 … 5); symbol order = all
symbols sorted by name: `@list(B,C) A A? B C EOF ERROR S' b b+ s`. -/

def exE2E : SGrammar :=
  ⟨["A", "B", "C"],
   [⟨"s", [⟨[.opt (.tok 0), .plus (.rule 1)]⟩]⟩,
    ⟨"b", [⟨[.list (.tok 1) (.tok 2)]⟩]⟩]⟩

def exE2EOrd : List Sym :=
  [.n 5, .t 2, .n 3, .t 3, .t 4, .t 0, .t 1, .n 0, .n 2, .n 4, .n 1]

example : exE2E.wf = true := by decide
example : exE2E.nTerms = 5 ∧ exE2E.nRules = 6 := by decide
example : (desugar exE2E).2.2 = #["S'", "s", "b", "A?", "b+", "@list(B,C)"] := by decide
example : (desugar exE2E).1.prods =
    #[⟨0, [.n 1]⟩, ⟨1, [.n 3, .n 4]⟩, ⟨2, [.n 5]⟩, ⟨3, [.t 2]⟩, ⟨3, []⟩,
      ⟨4, [.n 4, .n 2]⟩, ⟨4, [.n 2]⟩, ⟨5, [.n 5, .t 4, .t 3]⟩, ⟨5, [.t 3]⟩] := by decide
example : ordOKB exE2E.nTerms exE2E.nRules exE2EOrd = true := by decide
theorem exE2E_free : conflictFree (desugar exE2E).1 exE2E.nTerms exE2EOrd = true := by
  decide +kernel
theorem exE2E_size :
    (generate (desugar exE2E).1 exE2E.nTerms exE2EOrd).map (fun r => r.2.size) = some 11 := by
  decide +kernel

/-- The arrays the model emits for `exE2E` = the arrays the REAL generator wrote into
`parser.gen.go` for `s = A? b+ ; b = @list(B, C)` (case `lr.emit 5 6 | 0 -2 ; 1 -4 -5 ; 2 -6 ; 3 2 ;
3 ; 4 -5 -3 ; 4 -3 ; 5 -6 4 3 ; 5 3 | -6 2 -4 3 4 0 1 -1 -3 -5 -2` of the family `emit`, i.e. also the
same productions, numbering and name order as `desugar exE2E` / `exE2EOrd`). -/
example : (generate (desugar exE2E).1 exE2E.nTerms exE2EOrd).map (fun r =>
      (r.1.rules.toList, r.1.termCounts.toList, r.1.actions.toList, r.1.gotos.toList)) =
    some ([0, 1, 2, 3, 3, 4, 4, 5, 5], [1, 2, 1, 1, 0, 2, 1, 3, 1],
      [11, 16, 19, 22, 25, 32, 39, 44, 49, 54, 57, 4, 2, 1, 3, -4, 2, 3, -3, 2, 3, 5, 2, 0,
       2147483647, 6, 3, -2, 4, 9, 0, -2, 6, 3, -8, 4, -8, 0, -8, 4, 3, -6, 0, -6, 4, 3, 5, 0, -1,
       4, 3, -5, 0, -5, 2, 3, 10, 6, 3, -7, 4, -7, 0, -7],
      [11, 16, 17, 16, 16, 16, 16, 24, 16, 16, 16, 4, 3, 2, 1, 3, 0, 6, 5, 4, 2, 6, 4, 7, 4, 5, 4,
       2, 8]) := by
  decide +kernel

example : exE2E.errorFree = true := by decide

/-- `sugar_generator_no_error_actions` delivers what evaluation confirms. -/
example : (generate (desugar exE2E).1 exE2E.nTerms exE2EOrd).map
    (fun r => noErrorB r.1 r.2.size) = some true := by decide +kernel

/-- `desugar_wf` delivers what evaluation confirms. -/
example : wfGrammarB (desugar exE2E).1 exE2E.nTerms exE2E.nRules = true := desugar_wf (by decide)
example : wfGrammarB (desugar exE2E).1 5 6 = true := by decide

/-- `A  B C B  B` is a documented sentence: `A?` takes `A`, `b+` is two `b`, the first the list
`B C B`, the second the list `B`. -/
theorem exE2E_member : SDer exE2E [.atom (.rule 0)] [2, 3, 4, 3, 3] := by
  have hA : SDer exE2E [.atom (.tok 0)] [2] := .tok 0
  have hB : SDer exE2E [.atom (.tok 1)] [3] := .tok 1
  have hC : SDer exE2E [.atom (.tok 2)] [4] := .tok 2
  have hl1 : SDer exE2E [.list (.tok 1) (.tok 2)] [3, 4, 3] :=
    SDer.list (x := .tok 1) (s := .tok 2) [3] [([4], [3])] hB (by simp; exact hC) (by simp; exact hB)
  have hl2 : SDer exE2E [.list (.tok 1) (.tok 2)] [3] :=
    SDer.list (x := .tok 1) (s := .tok 2) [3] [] hB (by simp) (by simp)
  have hb1 : SDer exE2E [.atom (.rule 1)] [3, 4, 3] :=
    .rule (A := 1) (r := ⟨"b", _⟩) (p := ⟨[.list (.tok 1) (.tok 2)]⟩) rfl (by simp) hl1
  have hb2 : SDer exE2E [.atom (.rule 1)] [3] :=
    .rule (A := 1) (r := ⟨"b", _⟩) (p := ⟨[.list (.tok 1) (.tok 2)]⟩) rfl (by simp) hl2
  have hplus : SDer exE2E [.plus (.rule 1)] [3, 4, 3, 3] :=
    SDer.plus (x := .rule 1) [[3, 4, 3], [3]] (by simp)
      (by intro v hv; simp at hv; rcases hv with rfl | rfl <;> assumption)
  have hopt : SDer exE2E [.opt (.tok 0)] [2] := .optSome hA
  exact .rule (A := 0) (r := ⟨"s", _⟩) (p := ⟨[.opt (.tok 0), .plus (.rule 1)]⟩) rfl (by simp)
    (.cons hopt hplus)

/-- All hypotheses at once for `exE2E`: tables exist, 11 states. -/
theorem exE2E_gen : ∃ T cert, generate (desugar exE2E).1 exE2E.nTerms exE2EOrd = some (T, cert) ∧
    cert.size ≤ 2147483647 := by
  obtain ⟨T, cert, hgen⟩ := sugar_generator_total exE2E_free
  have hsz := exE2E_size
  rw [hgen] at hsz
  simp only [Option.map_some, Option.some.injEq] at hsz
  exact ⟨T, cert, hgen, by omega⟩

/-- THROUGH the theorem, a sentence: the generated parser accepts `A B C B B` cleanly. -/
example : ∃ T cert, generate (desugar exE2E).1 exE2E.nTerms exE2EOrd = some (T, cert) ∧
    ∃ N, ∀ fuel, N ≤ fuel → (parseG T #[2, 3, 4, 3, 3] true fuel).1 = .accept ∧
      (parseG T #[2, 3, 4, 3, 3] true fuel).2.2 = 0 := by
  obtain ⟨T, cert, hgen, hsz⟩ := exE2E_gen
  exact ⟨T, cert, hgen, sugar_generator_accepts (by decide) (by decide) hgen exE2E_free hsz
    (w := [2, 3, 4, 3, 3]) (by decide) exE2E_member true⟩

/-- The model of the generated parser, evaluated on the emitted tables: `A C` is rejected … -/
theorem exE2E_reject : (generate (desugar exE2E).1 exE2E.nTerms exE2EOrd).map
    (fun r => (parseG r.1 #[2, 4] true 30).1) = some .reject := by decide +kernel

/-- … so THROUGH the theorem, a non-sentence: `A C` is not in the documented language. -/
example : ¬ SDer exE2E [.atom (.rule 0)] [2, 4] := by
  obtain ⟨T, cert, hgen, hsz⟩ := exE2E_gen
  have hr := exE2E_reject
  rw [hgen] at hr
  simp only [Option.map_some, Option.some.injEq] at hr
  exact sugar_generator_rejects (by decide) (by decide) hgen exE2E_free hsz (w := [2, 4])
    (.inl hr)

/-- And evaluation agrees with the theorem on the sentence (fuel 60 suffices): clean accept, hence
(by `sugar_generator_sound`) a documented sentence – the converse route to `exE2E_member`. -/
theorem exE2E_accept : (generate (desugar exE2E).1 exE2E.nTerms exE2EOrd).map
    (fun r => ((parseG r.1 #[2, 3, 4, 3, 3] true 60).1, (parseG r.1 #[2, 3, 4, 3, 3] true 60).2.2)) =
    some (.accept, 0) := by decide +kernel

example : SDer exE2E [.atom (.rule 0)] [2, 3, 4, 3, 3] := by
  obtain ⟨T, cert, hgen, hsz⟩ := exE2E_gen
  have hr := exE2E_accept
  rw [hgen] at hr
  simp only [Option.map_some, Option.some.injEq, Prod.mk.injEq] at hr
  exact sugar_generator_sound (by decide) (by decide) hgen exE2E_free hsz (w := [2, 3, 4, 3, 3])
    (by decide) hr.1 hr.2

/-- THROUGH `sugar_generator_correct_noerror` (`exE2E` has no `@error`): plain acceptance. -/
example : ∃ T cert, generate (desugar exE2E).1 exE2E.nTerms exE2EOrd = some (T, cert) ∧
    ∃ fuel, (parse T #[2, 3, 4, 3, 3] false fuel).1 = .accept := by
  obtain ⟨T, cert, hgen, hsz⟩ := exE2E_gen
  exact ⟨T, cert, hgen, (sugar_generator_correct_noerror (by decide) (by decide) hgen exE2E_free hsz
    (by decide) (w := [2, 3, 4, 3, 3]) (by decide) false).2 exE2E_member⟩

/-- A grammar WITH `@error`: `s = item* ; item = A SEMI | @error SEMI`. It is not `errorFree`,
its tables do hold ERROR actions, and the clean-accept theorems still apply to it. -/
def exErr : SGrammar :=
  ⟨["A", "SEMI"],
   [⟨"s", [⟨[.star (.rule 1)]⟩]⟩,
    ⟨"item", [⟨[.atom (.tok 0), .atom (.tok 1)]⟩, ⟨[.atom .err, .atom (.tok 1)]⟩]⟩]⟩

/-- Rules `S' s item item* item+`; name order `A EOF ERROR S' SEMI item item* item+ s`. -/
def exErrOrd : List Sym := [.t 2, .t 0, .t 1, .n 0, .t 3, .n 2, .n 3, .n 4, .n 1]

example : exErr.wf = true ∧ exErr.errorFree = false := by decide
example : ordOKB exErr.nTerms exErr.nRules exErrOrd = true := by decide
theorem exErr_free : conflictFree (desugar exErr).1 exErr.nTerms exErrOrd = true := by
  decide +kernel

/-- On `A ; <bad> ;` (token 3 = SEMI where `A` or `@error` must start: here `A SEMI SEMI`) the
generated parser recovers once and returns `true`; `sugar_generator_rejects` says: not a sentence. -/
theorem exErr_recovers : (generate (desugar exErr).1 exErr.nTerms exErrOrd).map
    (fun r => ((parseG r.1 #[2, 3, 3] false 60).1, (parseG r.1 #[2, 3, 3] false 60).2.2)) =
    some (.accept, 1) := by decide +kernel

example : ¬ SDer exErr [.atom (.rule 0)] [2, 3, 3] := by
  obtain ⟨T, cert, hgen⟩ := sugar_generator_total exErr_free
  have hsz : (generate (desugar exErr).1 exErr.nTerms exErrOrd).map (fun r => r.2.size) =
      some 10 := by decide +kernel
  have hr := exErr_recovers
  rw [hgen] at hsz hr
  simp only [Option.map_some, Option.some.injEq, Prod.mk.injEq] at hsz hr
  exact sugar_generator_rejects (by decide) (by decide) hgen exErr_free (by omega) (w := [2, 3, 3])
    (.inr (by rw [hr.2]; decide))

end Lox.Props.C01
