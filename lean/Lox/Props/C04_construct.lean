import Lox.LR.ConstructTerm
import Lox.Props.C04_verdict
/-!
# C04 – the construction algorithm itself: the worklist of `ConstructLALR` builds the LALR(1) automaton

`Lox/LR/ConstructModel.lean` is an executable model of the main loop of `lr1.ConstructLALR`
(`/repo/internal/parsergen/lr1/construct.go`): start state = `Closure({[S' → ·S, EOF]})`; rounds
over the pending state KEYS in sorted order; for each pending state and each symbol of `Next` (in
name order – a parameter `ord` of the model, since names are not part of the grammar): `Goto`, then
merge into the state with the same `LR0Key` (re-queue it when an item was added) or add a new
state; transitions recorded. It is built on the models of `Closure`/`Goto`/`Next`/`LR0Key` of
`Lox/LR/GenModel.lean` and tied to the real code by the family `construct` (same states in
creation order, same items, same transitions).

The theorems hold for EVERY grammar whose terminals are below `nT` (`TermsBelow`, what
`lr.construct` checks) and every name order; the definition they refer to is `LALRItem`
(`Lox/LR/LALR.lean`) over the skeleton `skelOf st` whose edges are the recorded transitions.
-/
namespace Lox.Props.C04
open Lox.LR Lox.LR.Gen Lox.LR.Cons

section
variable {G : Grammar} {nT : Nat} {ord : List Sym}

/-- **construct_terminates.** The loop ends within `constructFuel G nT =
2^numCores · (numCores·nT + 1) + 2` rounds and no step panics: there are at most `2^numCores`
states (distinct sorted kernels over `numCores` cores), each holds at most `numCores · nT` items,
and every round that leaves `pendingSet` non-empty adds a state or an item. -/
theorem construct_terminates (ht : TermsBelow G nT) (hp0 : ∃ pr, G.prods[0]? = some pr)
    (hnT : 0 < nT) (ord : List Sym) : ∃ st, construct G nT ord = some st :=
  construct_isSome ht hp0 hnT

/-- **construct_sound** (loop invariant; any fuel, any name order): every item the algorithm puts
into a state is an LALR(1) item of that state by definition. -/
theorem construct_sound (ht : TermsBelow G nT) {fuel : Nat} {st : CState}
    (h : constructWith G nT ord fuel = some st) (s : Nat) (I : List Item) (it : Item)
    (hI : st.states[s]? = some I) (hit : it ∈ I) : LALRItem G (skelOf st) s it :=
  (construct_inv ht h).sound s I it hI hit

/-- **construct_complete.** When the loop ends (`pendingSet` empty) the item sets are CLOSED: the
start item is in state 0; every symbol after a dot has a transition and the advanced item is in
its target; every state is closed under the closure rule with the semantic FIRST; and distinct
states have distinct LR(0) kernels. (`OrdCovers`: `ord` lists every symbol of the grammar – `Next`
sorts the symbols it finds, it does not drop any.) -/
theorem construct_complete (ht : TermsBelow G nT) (hord : OrdCovers G ord) {fuel : Nat}
    {st : CState} (h : constructWith G nT ord fuel = some st) :
    st.pending = [] ∧ Closed G (skelOf st) ∧ KernelsDistinct (skelOf st) st.states.length := by
  obtain ⟨hb, hp⟩ := construct_between ht hord h
  exact ⟨hp, closed_of_between ht hb hp, kernelsDistinct_of_inv hb.inv⟩

/-- **construct_correct.** What the algorithm returns is the LALR(1) automaton by definition:
(1) the item set of every state is exactly its LALR(1) item set; (2) every viable prefix leads to
exactly one state, which holds the items valid for it; (3) distinct states have distinct kernels.
This is the conclusion of `conflict_check_sound`, here for ALL grammars instead of per run. -/
theorem construct_correct (ht : TermsBelow G nT) (hord : OrdCovers G ord) {st : CState}
    (h : construct G nT ord = some st) :
    (∀ s it, it ∈ st.states[s]?.getD [] ↔ LALRItem G (skelOf st) s it) ∧
    (∀ γ it, LR1Item G γ it → ∃ s, Path (skelOf st) 0 γ s ∧
      (∀ s', Path (skelOf st) 0 γ s' → s' = s) ∧ s < st.states.length ∧
      it ∈ st.states[s]?.getD []) ∧
    KernelsDistinct (skelOf st) st.states.length := by
  obtain ⟨_, hcl, hk⟩ := construct_complete ht hord h
  have hinv := construct_inv ht h
  refine ⟨fun s it => ⟨fun hit => ?_, fun hl => ?_⟩, fun γ it hl => ?_, hk⟩
  · cases hs : st.states[s]? with
    | none => simp [hs] at hit
    | some I =>
      simp only [hs, Option.getD_some] at hit
      exact hinv.sound s I it hs hit
  · have := LALRItem.mem hcl hl
    rwa [items_skelOf] at this
  · obtain ⟨s, hpath, hmem⟩ := hl.in_state hcl
    rw [items_skelOf] at hmem
    refine ⟨s, hpath, fun s' hp' => hp'.det hpath, ?_, hmem⟩
    cases hs : st.states[s]? with
    | none => simp [hs] at hmem
    | some I => exact (List.getElem?_eq_some_iff.mp hs).1

/-- Two name orders give the same automaton up to the numbering of the states: a viable prefix
reaches, under either order, a state with the same item set. -/
theorem construct_order_irrelevant (ht : TermsBelow G nT) {ord' : List Sym}
    (hord : OrdCovers G ord) (hord' : OrdCovers G ord') {st st' : CState}
    (h : construct G nT ord = some st) (h' : construct G nT ord' = some st')
    {γ : List Sym} {s s' : Nat} (hp : Path (skelOf st) 0 γ s) (hp' : Path (skelOf st') 0 γ s')
    (it : Item) (hit : LR1Item G γ it) :
    it ∈ st.states[s]?.getD [] ∧ it ∈ st'.states[s']?.getD [] := by
  obtain ⟨s1, hp1, hu1, _, hm1⟩ := (construct_correct ht hord h).2.1 γ it hit
  obtain ⟨s2, hp2, hu2, _, hm2⟩ := (construct_correct ht hord' h').2.1 γ it hit
  rw [hu1 s hp, hu2 s' hp']
  exact ⟨hm1, hm2⟩

end

/-! ## Non-vacuity: the model on the three grammars of `C04_verdict.lean`

`ord` is the name order of the real run (`EOF`, `ERROR`, `S'`, token and rule names sorted); the
model's output is literally the output of the real `ConstructLALR` recorded there (`cert`, `tr`),
and it passes the checks of `lr.conflict_check`. -/

def constructEx_ordAmb : List Sym := [.t 2, .t 0, .t 1, .n 0, .t 3, .n 1]
def constructEx_ordNotLalr : List Sym :=
  [.t 0, .t 1, .n 0, .t 2, .t 3, .t 4, .t 5, .t 6, .n 1, .n 2, .n 3]
def constructEx_ordPrec : List Sym := [.t 0, .t 1, .n 0, .t 2, .t 3, .t 4, .n 1]

/-- The canonical form in which the harness compares: items in `SortItems` order, transitions of
a state in name order. -/
def canon (ord : List Sym) (st : CState) : List (List Item) × List (List (Sym × Nat)) :=
  (st.states.map sortItems,
   st.trans.map fun row => ord.filterMap fun X => (lookupSym X row).map fun t => (X, t))

theorem constructEx_amb : (construct VerdictEx.Amb.G 4 constructEx_ordAmb).map (canon constructEx_ordAmb) =
    some (VerdictEx.Amb.cert.toList, VerdictEx.Amb.tr.toList) := by decide +kernel

theorem constructEx_notLalr :
    (construct VerdictEx.NotLalr.G 7 constructEx_ordNotLalr).map (canon constructEx_ordNotLalr) =
    some (VerdictEx.NotLalr.cert.toList, VerdictEx.NotLalr.tr.toList) := by decide +kernel

theorem constructEx_prec :
    (construct VerdictEx.PrecOk.G 5 constructEx_ordPrec).map (canon constructEx_ordPrec) =
    some (VerdictEx.PrecOk.cert.toList, VerdictEx.PrecOk.tr.toList) := by decide +kernel

/-- The model's output passes the checks of `lr.conflict_check` and yields the verdict of the real
run: refused (ambiguous), refused (LR(1) but not LALR(1)), accepted (precedence). -/
theorem constructEx_checks :
    (construct VerdictEx.Amb.G 4 constructEx_ordAmb).map (fun st =>
      (conflictCheckB VerdictEx.Amb.G 4 2 st.transTab st.cert,
       verdictB VerdictEx.Amb.G 4 VerdictEx.Amb.info st.transTab st.cert)) = some (true, true) ∧
    (construct VerdictEx.NotLalr.G 7 constructEx_ordNotLalr).map (fun st =>
      (conflictCheckB VerdictEx.NotLalr.G 7 4 st.transTab st.cert,
       verdictB VerdictEx.NotLalr.G 7 VerdictEx.NotLalr.info st.transTab st.cert)) = some (true, true) ∧
    (construct VerdictEx.PrecOk.G 5 constructEx_ordPrec).map (fun st =>
      (conflictCheckB VerdictEx.PrecOk.G 5 2 st.transTab st.cert,
       verdictB VerdictEx.PrecOk.G 5 VerdictEx.PrecOk.info st.transTab st.cert)) = some (true, false) := by
  refine ⟨?_, ?_, ?_⟩ <;> decide +kernel

/-- The hypotheses of the theorems above hold on the refused ambiguous grammar `s = s s | A`. -/
example : TermsBelow VerdictEx.Amb.G 4 ∧ OrdCovers VerdictEx.Amb.G constructEx_ordAmb :=
  ⟨termsBelowB_iff.mp (by decide), ordCoversB_sound (by decide)⟩

/-- … so the state the model builds for the prefix `s s` (state 3) holds the LALR(1) item
`[s → s s ·, A]` by definition (`construct_sound`), the other half of the conflict. -/
example : ∃ st, construct VerdictEx.Amb.G 4 constructEx_ordAmb = some st ∧
    LALRItem VerdictEx.Amb.G (skelOf st) 3 ⟨1, 2, 2⟩ := by
  obtain ⟨st, hst⟩ := construct_terminates (G := VerdictEx.Amb.G) (nT := 4)
    (termsBelowB_iff.mp (by decide)) ⟨_, rfl⟩ (by decide) constructEx_ordAmb
  refine ⟨st, hst, ?_⟩
  have hc := constructEx_amb
  rw [hst] at hc
  simp only [Option.map_some, Option.some.injEq, canon, Prod.mk.injEq] at hc
  have h3 : (st.states.map sortItems)[3]? = some (VerdictEx.Amb.cert.toList[3]'(by decide)) := by
    rw [hc.1]; rfl
  rw [List.getElem?_map] at h3
  cases hs : st.states[3]? with
  | none => simp [hs] at h3
  | some I =>
    simp only [hs, Option.map_some, Option.some.injEq] at h3
    refine construct_sound (termsBelowB_iff.mp (by decide)) hst 3 I _ hs ?_
    have : (⟨1, 2, 2⟩ : Item) ∈ sortItems I := by rw [h3]; decide
    exact mem_sortItems.mp this

end Lox.Props.C04
