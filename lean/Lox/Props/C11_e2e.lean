import Lox.Lex.GenSpecProofs
import Lox.Props.C11
/-! Property theorems for C11 (lexing reaches EOF and accounts for every character), END TO END on
the model of the generator for WHOLE specifications: for EVERY lexer specification `s` – any number
of files, `@mode` blocks, token / `@frag` / `@external` / `@macro` rules with any written actions –
that the front end accepts (`genModes s = some modes`: names unique, `@push_mode` / `@emit` name
existing modes / tokens, action lists legal, no cross-file conflict) and whose rules are written
over code points with non-empty classes and match no empty string (`LSpec.ok`, decidable), the
generated lexer `modes` – `NFACons`, `ModeBuilder.Build`, `mode_table`, `table.go` for every mode,
modes sorted by name, push-mode parameters = mode indices, accept parameters = terminal numbers –
run by `PushRune` / `simplelexer.ReadToken` reaches EOF on every input, never panics, and every byte
is in exactly one emitted / discarded / error / pending segment.

These are the theorems of `Lox/Props/C11.lean` with their hypothesis `WFModes modes` discharged by
`Lox.Lex.GenSpec.genModes_wfModes` (built on `C10.generator_wfMode`), and `NoAccum modes` by
`genModes_noAccum`. Non-greedy operators are allowed.

Model (read this): `Lox/Lex/GenSpecModel.lean` (`LSpec`, `genModes`), on top of
`Lox/Lex/EmitModel.lean` (`genMode`); premises `LSpec.ok`, `LSpec.noAccum` in
`Lox/Lex/GenSpecProofs.lean`. Runtime model: `Lox/Lex/Model.lean`, ghost log `Lox/Lex/Runtime.lean`.

Known findings kept visible: K3 (a rule matching the empty string: `LSpec.ok` fails, the lexer
hangs – `k3_spec`), K5 (text accumulated by an action-less `@frag` pending at EOF is reported by
nothing – the `pending` segment kind of `generator_conservation`, empty when `LSpec.noAccum`;
`k5_spec`). -/
namespace Lox.Props.C11
open Lox.Lex Lox.Lex.Rt Lox.Lex.Gen Lox.Lex.GenSpec

/-- **The generated lexer of every `ok` specification is well formed** (`WFModes`: what
`lex.wfmodes` checks on emitted tables). -/
theorem generator_wfModes (s : LSpec) (modes : Array Mode) (hgen : genModes s = some modes)
    (hok : s.ok = true) : WFModes modes :=
  genModes_wfModes hgen hok

/-- **No Go panic** in `PushRune` of a generated lexer, for any rune, from any in-range state. -/
theorem generator_no_oob (s : LSpec) (modes : Array Mode) (hgen : genModes s = some modes)
    (hok : s.ok = true) {sm : SM} (hin : InRange modes sm) (r : Int) :
    (pushRune modes sm r).1 ≠ .oob ∧ ModesOK modes (pushRune modes sm r).2 ∧
    ((pushRune modes sm r).1 ≠ .error → InRange modes (pushRune modes sm r).2) :=
  no_oob (genModes_wfModes hgen hok) hin r

/-- **`generator_progress`.** One `ReadToken` call of a generated lexer, started between two
tokens, returns – it neither loops nor panics – after at most `2 · remaining runes + 1` `PushRune`
calls, and returns a token or an ERROR token having advanced by at least one rune, or EOF at the
end of the input. -/
theorem generator_progress (s : LSpec) (modes : Array Mode) (hgen : genModes s = some modes)
    (hok : s.ok = true) (inp : Input) (hv : ValidInput inp) (fuel : Nat) (l : Lx)
    (hin : InRange modes l.sm) (h0 : l.sm.state = 0) (hidx : l.idx ≤ inp.size)
    (hfuel : 2 * (inp.size - l.idx) + 1 ≤ fuel) :
    ∃ t l', readToken modes inp fuel none l = some (some t, l') ∧
      InRange modes l'.sm ∧ l'.sm.state = 0 ∧ l'.idx ≤ inp.size ∧
      match t with
      | .tok _ _ _ => l.idx < l'.idx
      | .eof _ => l'.idx = inp.size
      | .err _ _ => l.idx < l'.idx :=
  progress (genModes_wfModes hgen hok) inp hv fuel l hin h0 hidx hfuel

/-- **`generator_lexAll_terminates`.** Reading tokens with a generated lexer reaches EOF on every
input: the status is `"ok"`, never `"timeout"` (the real lexer would not return) and never
`"panic"`, and the tokens are non-EOF tokens followed by one EOF. -/
theorem generator_lexAll_terminates (s : LSpec) (modes : Array Mode)
    (hgen : genModes s = some modes) (hok : s.ok = true) (inp : Input) (fuel n : Nat)
    (hfuel : 2 * inp.size < fuel) (hn : inp.size < n) :
    ∃ ts p, lexAll modes inp fuel n {} [] = (ts ++ [.eof p], "ok") ∧ ∀ t ∈ ts, ∀ q, t ≠ .eof q :=
  lexAll_terminates (genModes_wfModes hgen hok) inp fuel n hfuel hn

/-- **`generator_conservation`.** On every valid input the run of a generated lexer reaches EOF and
the logged segments – text of an emitted token, text dropped by `@discard`, stretch of an ERROR
token, text pending at EOF (K5) – are contiguous and in order from byte 0 to the byte length of
the input; the tokens returned are exactly the reports of the segments, in order. -/
theorem generator_conservation (s : LSpec) (modes : Array Mode) (hgen : genModes s = some modes)
    (hok : s.ok = true) (inp : Input) (hv : ValidInput inp) (fuel n : Nat)
    (hfuel : 2 * inp.size < fuel) (hn : inp.size < n) :
    ∃ toks log, lexAllG modes inp fuel n {} [] [] = (toks, "ok", log) ∧
      lexAll modes inp fuel n {} [] = (toks, "ok") ∧
      Contig (segsOf log) 0 (totalBytes inp) ∧
      (segsOf log).filterMap Seg.report = toks :=
  conservation (genModes_wfModes hgen hok) inp hv fuel n hfuel hn

/-- … so every byte offset of the input lies in exactly one segment. -/
theorem generator_each_byte_once (s : LSpec) (modes : Array Mode) (hgen : genModes s = some modes)
    (hok : s.ok = true) (inp : Input) (hv : ValidInput inp) (fuel n : Nat)
    (hfuel : 2 * inp.size < fuel) (hn : inp.size < n) (x : Nat) (hx : x < totalBytes inp) :
    ((segsOf (lexAllG modes inp fuel n {} [] []).2.2).filter
      fun sg => decide (sg.start ≤ x ∧ x < sg.stop)).length = 1 := by
  obtain ⟨toks, log, e, _, hc, _⟩ := generator_conservation s modes hgen hok inp hv fuel n hfuel hn
  rw [e]
  exact segments_each_byte_once inp _ hc x hx

/-- **`generator_noAccum`.** If every `@frag` of the specification carries `@emit` or `@discard`
(`LSpec.noAccum`) no row of the generated tables carries an accumulate pair. -/
theorem generator_noAccum (s : LSpec) (modes : Array Mode) (hgen : genModes s = some modes)
    (hok : s.ok = true) (hna : s.noAccum = true) : NoAccum modes :=
  genModes_noAccum hgen hok hna

/-- **Complement of K5 for all specifications**: without action-less fragments every `pending`
segment of every run is empty – no text is dropped unreported; with `generator_conservation` every
byte is then in the text of a token, in text dropped by `@discard`, or in the stretch of an ERROR
token. -/
theorem generator_no_pending_text (s : LSpec) (modes : Array Mode)
    (hgen : genModes s = some modes) (hok : s.ok = true) (hna : s.noAccum = true)
    (inp : Input) (fuel n : Nat) :
    ∀ sg ∈ segsOf (lexAllG modes inp fuel n {} [] []).2.2, sg.kind = .pending → sg.start = sg.stop :=
  no_pending_text (genModes_wfModes hgen hok) (genModes_noAccum hgen hok hna) inp fuel n

/-- **The hypothesis `genModes s = some modes` holds for every specification the front end
accepts**: `genModes` is `none` only for the errors it models (names: `namesOK`; a rule without
pairs: undefined `@push_mode` / `@emit` name, illegal action list; a cross-file conflict), never
because a step of `Build` / `EmitLexer` panics or the model runs out of fuel, provided classes are
written `lo ≤ hi` (`C02.generator_total` for every mode). -/
theorem generator_total (s : LSpec) (hn : namesOK s = true)
    (hp : ∀ r ∈ allRules s, (r.pairs s).isSome = true)
    (hc : ∀ n ∈ modeNames s,
      conflictFree ((modeRules s n).map (·.file)) ((modeRules s n).map (·.body)) = true)
    (hcls : ∀ r ∈ allRules s, r.body.clsOK = true) :
    ∃ modes, genModes s = some modes :=
  genModes_total s hn hp hc hcls

/-! ## Non-vacuity -/

/-- `A = 'a'`, `@frag '"' @push_mode(S)`, `@mode S { STR = '"' @pop_mode   @frag [b-z] }`,
`@frag ' '+ @discard` (the specification of `C11.exModes`). -/
def exSpec : LSpec := [[
  .rule (.token "A" (.lit [97]) []),
  .rule (.frag (.lit [34]) [.pushMode "S"]),
  .mode "S" [.token "STR" (.lit [34]) [.popMode], .frag (.cls [(98, 122)]) []],
  .rule (.frag (.plus false (.lit [32])) [.discard])]]

/-- What the model of the generator emits for it. -/
def exSpecModes : Array Mode := #[
  #[4, 16, 21, 28, 11, 0, 3, 32, 32, 3, 34, 34, 2, 97, 97, 1, 4, 0, 0, 3, 2, 6, 0, 0, 1, 1, 5, 0,
    7, 0, 1, 32, 32, 3, 4, 0],
  #[3, 12, 19, 8, 0, 2, 34, 34, 1, 98, 122, 2, 6, 0, 0, 2, 0, 3, 3, 4, 0, 0, 5, 0]]

theorem exSpec_genModes : genModes exSpec = some exSpecModes := by decide +kernel

/-- The hypotheses of the theorems above hold on it (also those of `generator_total`). -/
example : exSpec.ok = true := by decide +kernel

example : namesOK exSpec = true ∧ (∀ r ∈ allRules exSpec, (r.pairs exSpec).isSome = true) ∧
    (∀ n ∈ modeNames exSpec, conflictFree ((modeRules exSpec n).map (·.file))
      ((modeRules exSpec n).map (·.body)) = true) ∧
    (∀ r ∈ allRules exSpec, r.body.clsOK = true) := by
  refine ⟨by decide +kernel, ?_, by decide +kernel, ?_⟩
  · have : (allRules exSpec).all (fun r => (r.pairs exSpec).isSome) = true := by decide +kernel
    exact fun r hr => List.all_eq_true.1 this r hr
  · have : (allRules exSpec).all (fun r => r.body.clsOK) = true := by decide +kernel
    exact fun r hr => List.all_eq_true.1 this r hr

/-- The model's arrays and the arrays lox writes for this specification (`C11.exModes`) are the
same automata: equal after renumbering the states breadth first (`canonMode`). -/
example : exSpecModes.toList.map (fun m => canonMode m.toList) =
    exModes.toList.map (fun m => canonMode m.toList) ∧
    (exModes.toList.map fun m => (canonMode m.toList).isSome) = [true, true] := by decide +kernel

/-- The run on `a "bc"`: `A`, `STR` with text `"bc"`, EOF. -/
example : lexAll exSpecModes #[(97, 1), (32, 1), (34, 1), (98, 1), (99, 1), (34, 1)] 20 20 {} []
    = ([.tok 2 0 1, .tok 3 2 6, .eof 6], "ok") := by decide +kernel

/-- `A = 'a'`, `@frag ' '+ @discard`, `@frag '<' @push_mode(M) @discard`,
`@mode M { B = 'b'  @frag '>' @discard @pop_mode }`, in two files with an `@external` and a parser
rule in between: `LSpec.ok` and `LSpec.noAccum` hold together. -/
def exNoAccumSpec : LSpec := [
  [.rule (.token "A" (.lit [97]) []), .rule (.frag (.plus false (.lit [32])) [.discard]),
   .rule (.external ["X"]), .other (some "start")],
  [.rule (.frag (.lit [60]) [.pushMode "M", .discard]),
   .mode "M" [.token "B" (.lit [98]) [], .frag (.lit [62]) [.discard, .popMode]]]]

example : (genModes exNoAccumSpec).isSome = true ∧ exNoAccumSpec.ok = true ∧
    exNoAccumSpec.noAccum = true := by decide +kernel

/-! ## Known findings, at the level of specifications -/

/-- K3: `A = 'a'*`. -/
def k3Spec : LSpec := [[.rule (.token "A" (.star false (.lit [97])) [])]]

/-- K3: the premise `LSpec.ok` fails (the rule matches the empty string), the generator emits the
table `C11.k3Tok` all the same, and on `aab` the generated lexer never reaches EOF
(`C11.k3_token_never_eof`). -/
theorem k3_spec : k3Spec.ok = false ∧ genModes k3Spec = some k3Tok ∧
    ∀ fuel n, 3 ≤ fuel → (lexAll k3Tok #[(97, 1), (97, 1), (98, 1)] fuel n {} []).2 = "timeout" :=
  ⟨by decide +kernel, by decide +kernel, fun fuel n hf => k3_token_never_eof fuel n hf⟩

/-- K5: `B = 'b'`, `@frag 'x'`. -/
def k5Spec : LSpec := [[.rule (.token "B" (.lit [98]) []), .rule (.frag (.lit [120]) [])]]

/-- K5: `LSpec.ok` holds, `LSpec.noAccum` does not, and on `bxx` the generated lexer returns EOF at
offset 1: bytes 1–2 are a non-empty `pending` segment reported by nothing. -/
theorem k5_spec : k5Spec.ok = true ∧ k5Spec.noAccum = false ∧
    ∃ modes, genModes k5Spec = some modes ∧
      lexAll modes #[(98, 1), (120, 1), (120, 1)] 10 10 {} [] = ([.tok 2 0 1, .eof 1], "ok") ∧
      segsOf (lexAllG modes #[(98, 1), (120, 1), (120, 1)] 10 10 {} [] []).2.2
        = [⟨.tok 2, 0, 1⟩, ⟨.pending, 1, 3⟩] := by
  refine ⟨by decide +kernel, by decide +kernel,
    #[#[3, 12, 17, 8, 0, 2, 98, 98, 1, 120, 120, 2, 4, 0, 0, 3, 2, 4, 0, 0, 5, 0]],
    by decide +kernel, by decide +kernel, by decide +kernel⟩

end Lox.Props.C11
