import Lox.LR.RuntimeProofsRecover
import Lox.LR.RuntimeProofsErrors
import Lox.LR.RuntimeProofsTerm
import Lox.LR.RuntimeProofsCheck
import Lox.LR.RuntimeProofsCover
import Lox.LR.RuntimeSoundPanic
import Lox.LR.RuntimeSoundTerm
import Lox.LR.RuntimeSoundFirst
import Lox.LR.RuntimeSoundExample
/-! # C09 Syntax errors: terminate, never accept silently, blame the right token

"For every accepted grammar and every finite token sequence, including lexer ERROR tokens, parse()
terminates without panicking. Reading @error as a terminal that only the parser itself can supply:
if the sequence is not a sentence, parse() either returns false or delivers at least one Error to
an @error action, and the first Error delivered carries the first token at which the input stops
being a prefix of any sentence. When parse() returns true, the symbols it consumed (input tokens in
order, possibly with stretches replaced by @error) form a sentence."

All theorems are about the executable model `Lox.LR.parse` (`Lox/LR/Model.lean`, transcribing
`parserTemplate` in `internal/codegen/emit_parser.go`, including the `_recovering` flag of fix F12).

* Sections (a)–(d) and "consumed symbols": structural facts about `_recover` and the main loop for
  ARBITRARY tables, inputs and fuel; where a table-level hypothesis is needed (`NoShiftEOF`,
  `AcceptOnlyEOF`, a ranking of the simulation graph) it is decidable, comes with a checker proved
  sound, and is shown to hold on tables emitted by the real generator.
* Section "On validated tables": the grammar half, for tables that pass the validator
  (`checkSafe`/`check`, `termB`, `recoveryOKB`): `accepted_edit_is_sentence`, `error_delivered`,
  `no_silent_accept`, `parse_no_panic`, `parse_terminates`/`parse_total`,
  `first_error_token_partial`, `sentence_never_recovers`. They combine the runtime facts with the
  LR theory of `Lox/LR/{Abstract,Sound,Complete,CheckSound,Refine,Terminate,TermSound}.lean`
  (proofs in `Lox/LR/RuntimeSound*.lean`).
What remains open is listed at the end of the file.

Vocabulary (`Lox/LR/RuntimeDefs.lean`): `remaining inp s` = tokens the lexer has not delivered yet
+ 1 if the queued lookahead is a real token + 1 if the lookahead is a real token (real = neither
EOF nor ERROR); `parseG` = `parse` with a ghost counter of the `_recover()` calls that returned
`true`; `Delivered log` = some action call in the log has an `Error` argument. -/
namespace Lox.Props.C09
open Lox.LR Lox.LR.Rt

/-! ## (a) What a successful `_recover()` returns -/

/-- **recover_result.** If `_recover()` returns `true` then: the lookahead is ERROR; `_lasym` is an
`Error` carrying the token that was the lookahead when the error was detected (a pending lexer
`Error` is passed on unchanged, otherwise it is `_makeError()` = that token plus the keys of the
action row of the state on top); `_recovering` is set; the stack is a suffix of the old stack
whose top state has an action on ERROR (shift or reduce) from which the inner simulation reaches
a state that shifts ERROR and has an action on the queued lookahead; the log is untouched; the
queued lookahead `_qla` is the lookahead of a state `s1` obtained by reading on from a state
`s0` whose lookahead is not ERROR. (`s1 = s0` unless tokens were dropped by the outer loop; see
`qla_real` and the example after it for why `_qla ≠ ERROR` needs a hypothesis.) -/
theorem recover_result {T : Tables} {inp : Array Nat} {fuel : Nat} {s s' : PState}
    (h : recover T inp fuel s = .ok s') :
    s'.la = tERROR ∧
    (∃ i ty ex, s'.lasym = .err i ty ex ∧ symTokIdx s.lasym = some i ∧
      (s.lasym = .err i ty ex ∨ (s.lasym = .tok i ty ∧ ∃ st, topState s.stack = some st ∧
        rowKeys T.actions st = some ex))) ∧
    s'.recovering = true ∧
    s'.stack <:+ s.stack ∧
    s'.log = s.log ∧
    (∃ top v, topState s'.stack = some top ∧ find T.actions top tERROR = .hit v ∧
      simulate T s'.qla fuel top = .found) ∧
    (∃ s0 s1, Reads T inp s s0 ∧ s0.la ≠ tERROR ∧ Reads T inp s0 s1 ∧
      s'.qla = s1.la ∧ s'.qlasym = s1.lasym ∧ s'.pos = s1.pos ∧ s'.reads = s1.reads) :=
  Rt.recover_result h

/-- When the lexer delivers no ERROR token (and none is queued), the lookahead queued by a
successful `_recover()` is a real token or EOF, never ERROR. -/
theorem qla_real {T : Tables} {inp : Array Nat} {fuel : Nat} {s s' : PState}
    (hinp : ∀ i : Nat, inp[i]? ≠ some 1) (hq : s.qla ≠ tERROR)
    (h : recover T inp fuel s = .ok s') : s'.qla ≠ tERROR :=
  recover_qla_real hinp hq h

/-- Hand-made tables (state 0 shifts ERROR to 1, state 1 shifts ERROR to 2). -/
def Tq : Tables :=
  { rules := #[], termCounts := #[], actions := #[2, 5, 2, 1, 1, 2, 1, 2], gotos := #[] }

/-- The hypothesis of `qla_real` is needed: on input `X <lexer ERROR>` the outer loop of `_recover`
drops `X`, reads the lexer ERROR token and finds a recovery point for it: the queued lookahead
is ERROR (with the lexer's `Error` as its value). -/
example : (match readToken Tq #[5, 1] initState with
    | .ok s1 => (match recover Tq #[5, 1] 10 s1 with
      | .ok s' => some (s'.qla, s'.qlasym.isErr)
      | _ => none)
    | _ => none) = some (tERROR, true) := by
  decide

/-! ## (b) Progress of recovery -/

/-- **recover_progress.** A successful `_recover()` never increases the remaining input nor moves
the lexer backwards, and when `_recovering` was set on entry (no real token shifted since the
previous recovery) it strictly decreases the remaining input: the offending token is dropped. -/
theorem recover_progress {T : Tables} {inp : Array Nat} {fuel : Nat} {s s' : PState}
    (h : recover T inp fuel s = .ok s') :
    remaining inp s' ≤ remaining inp s ∧ s.pos ≤ s'.pos ∧
    (s.recovering = true → remaining inp s' < remaining inp s) :=
  Rt.recover_progress h

/-- The remaining input never increases along a run (shift, reduce or recovery). -/
theorem remaining_monotone {T : Tables} {inp : Array Nat} {wb : Bool} {fuel : Nat} {a b : PState}
    (h : Reach T inp wb fuel a b) : remaining inp b ≤ remaining inp a :=
  h.remaining

/-- **Between two consecutive successful recoveries** – `s1` is the state the first one returned
(so `_recovering` is set), `s2` the state the next one is entered from – either a real
(non-ERROR) token was shifted in between, or the remaining input strictly decreased. -/
theorem progress_between_recoveries {T : Tables} {inp : Array Nat} {wb : Bool} {fuel : Nat}
    {s1 s2 s3 : PState} (h1 : s1.recovering = true) (hr : Reach T inp wb fuel s1 s2)
    (h : recover T inp fuel s2 = .ok s3) :
    (∃ c c', Reach T inp wb fuel s1 c ∧ step T inp wb fuel c = .cont c' ∧
      Reach T inp wb fuel c' s2 ∧ RealShift T c) ∨
    remaining inp s3 < remaining inp s1 :=
  recover_progress_between h1 hr h

/-- The ghost-instrumented `parseG` is `parse` plus a counter. -/
theorem ghost_erases (T : Tables) (inp : Array Nat) (wb : Bool) (fuel : Nat) :
    ((parseG T inp wb fuel).1, (parseG T inp wb fuel).2.1) = parse T inp wb fuel :=
  parseG_erase T inp wb fuel

/-- **recoveries_bounded.** If EOF is never shifted (true of LR tables; decidable, see
`noShiftEOFB`), then along any run of `parse` – whatever the fuel, i.e. however long the run –
`_recover()` returns `true` at most `2 * |input| + 1` times. This is the termination argument
for the recovery part of `parse` (fix F12; on the pinned tree without `_recovering` it is false:
D13). The number of iterations between two recoveries is the reduce-chain bound of the LR theory. -/
theorem recoveries_bounded {T : Tables} (hT : NoShiftEOF T) (inp : Array Nat) (wb : Bool)
    (fuel : Nat) : (parseG T inp wb fuel).2.2 ≤ 2 * inp.size + 1 :=
  parseG_bound hT inp wb fuel

/-- The checker for `NoShiftEOF` is sound. -/
theorem noShiftEOF_of_check {T : Tables} (h : noShiftEOFB T = true) : NoShiftEOF T :=
  noShiftEOFB_sound h

/-- Non-vacuity: the tables the real generator emits for the example grammar never shift EOF. -/
example : NoShiftEOF Example.T := noShiftEOFB_sound (by decide +kernel)

/-- Hand-made tables that shift EOF: 0 —ERROR→ 1 —EOF→ 2 —ERROR→ 1. -/
def Tloop : Tables :=
  { rules := #[], termCounts := #[], actions := #[3, 6, 9, 2, 1, 1, 2, 0, 2, 2, 1, 1], gotos := #[] }

/-- The hypothesis of `recoveries_bounded` is needed: on tables that shift EOF the empty input
already recovers without bound (7 times within 20 iterations, 14 within 40, … – the count grows
with the fuel). -/
example : (parseG Tloop #[] false 20).2.2 = 7 := by
  decide +kernel

/-! ## (c) `_recover()` itself terminates -/

/-- **recover_terminates.** `_recover()` does not run out of fuel when the fuel covers the rest of
the input (+3) and the inner simulation loop terminates within the same fuel. (The stack search is
structurally bounded by the stack.) -/
theorem recover_terminates {T : Tables} {inp : Array Nat} {fuel : Nat} {s : PState}
    (hsim : ∀ la st, simulate T la fuel st ≠ .timeout) (hfuel : inp.size - s.pos + 3 ≤ fuel) :
    recover T inp fuel s ≠ .timeout :=
  Rt.recover_terminates hsim hfuel

/-- Closed form: the inner simulation follows `st ↦ goto(st, lhs(reduce(st, ERROR)))` without
popping; if a ranking of that graph (checked by `simRankOK`, a per-table computation) is bounded
by `B`, then `_recover()` never runs out of fuel once `fuel ≥ max (B + 1) (rest of input + 3)`. -/
theorem recover_terminates_of_rank {T : Tables} {inp : Array Nat} {fuel : Nat} {s : PState}
    (rank : Int → Nat) (B : Nat) (hB : ∀ st, rank st ≤ B)
    (hOK : simRankOK T rank T.actions.size = true)
    (hfuel1 : B + 1 ≤ fuel) (hfuel2 : inp.size - s.pos + 3 ≤ fuel) :
    recover T inp fuel s ≠ .timeout :=
  Rt.recover_terminates_of_rank rank B hB hOK hfuel1 hfuel2

/-- Non-vacuity: on the generated example tables the states 4, 9, 10, 11 reduce on ERROR and the
(missing) goto sends the simulation to state 0, which shifts ERROR: rank 1 for every state but 0. -/
theorem example_rank_ok :
    simRankOK Example.T (fun st => if st = 0 then 0 else 1) Example.T.actions.size = true := by
  decide +kernel

example {inp : Array Nat} {s : PState} {fuel : Nat} (h : inp.size - s.pos + 3 ≤ fuel) :
    recover Example.T inp fuel s ≠ .timeout :=
  recover_terminates_of_rank (fun st => if st = 0 then 0 else 1) 1
    (fun st => by split <;> omega) example_rank_ok (by omega) h

/-! ## (d) No silent accept; errors are delivered -/

/-- **no_recovery_is_plain_run.** If the ghost counter is 0, `_recover()` never returned `true`:
the run is a sequence of plain shift/reduce iterations up to its last iteration (this is the
interface to the LR theory: a plain run is a run of the abstract LR machine). -/
theorem no_recovery_is_plain_run {T : Tables} {inp : Array Nat} {wb : Bool} {fuel : Nat}
    {s1 : PState} (h1 : readToken T inp initState = .ok s1)
    (h0 : (parseG T inp wb fuel).2.2 = 0) :
    ∃ sl, PlainReach T inp wb fuel s1 sl ∧
      (((parseG T inp wb fuel).1 = .timeout ∧ (parseG T inp wb fuel).2.1 = sl) ∨
       step T inp wb fuel sl = .done (parseG T inp wb fuel).1 (parseG T inp wb fuel).2.1) := by
  unfold parseG at h0 ⊢
  simp only [h1] at h0 ⊢
  exact runLoopG_zero fuel s1 h0

/-- **no_silent_accept_partial.** If `_recover()` never returned `true` during the run, then every
`Error` value in the final state – lookaheads, stack, every argument of every action call in the
log – wraps a lexer ERROR token of the input (`inp[i] = ERROR` for its token index `i`): the
parser supplied no `@error` of its own.

Full statement (DESIGN §7 C09 `no_silent_accept`): `Valid → parse w = (true, no recovery) →
Der [S] w`. Missing here: the link from a plain run to a derivation, which is C01 soundness of the
LR theory applied through `no_recovery_is_plain_run`. -/
theorem no_silent_accept_partial {T : Tables} {inp : Array Nat} {wb : Bool} {fuel : Nat}
    (h0 : (parseG T inp wb fuel).2.2 = 0) :
    ErrsInv (lexErrAt inp) (parseG T inp wb fuel).2.1 :=
  parseG_zero_ErrsInv h0

/-- … in particular, when the lexer delivered no ERROR token, no `Error` value occurs anywhere in
the log (nor on the stack, nor as a lookahead). -/
theorem no_error_values {T : Tables} {inp : Array Nat} {wb : Bool} {fuel : Nat}
    (hinp : ∀ i : Nat, inp[i]? ≠ some 1) (h0 : (parseG T inp wb fuel).2.2 = 0) :
    ErrsInv (fun _ => false) (parseG T inp wb fuel).2.1 := by
  have hm : ∀ i, lexErrAt inp i = true → (fun _ : Nat => false) i = true := by
    intro i hi
    simp only [lexErrAt, beq_iff_eq] at hi
    exact absurd hi (hinp i)
  obtain ⟨a1, a2, a3, a4⟩ := no_silent_accept_partial h0
  refine ⟨errsIn_mono hm _ a1, fun hq => errsIn_mono hm _ (a2 hq),
    fun e he => errsIn_mono hm _ (a3 e he), fun ev hev => ?_⟩
  have := a4 ev hev
  cases ev with
  | act p kids => exact errsInL_mono hm _ this
  | bounds p v b e => exact errsIn_mono hm _ this

/-- Lexer ERROR tokens are a different matter: where the grammar expects `@error` the parser
shifts a lexer ERROR token directly, without calling `_recover()`; its `Error` reaches the action
(so an Error IS delivered) although the recovery counter stays 0. Input `<lexer ERROR> ;` on the
example tables. -/
example : (parseG Example.T #[1, 5] true 20).2.2 = 0 ∧
    (parseG Example.T #[1, 5] true 20).2.1.log.reverse.head? =
      some (.act 3 [.err 0 1 [2, 0, 1], .tok 1 5]) := by
  refine ⟨by decide +kernel, rfl⟩

/-- **error_delivered_partial.** `parse` accepted and `_recover()` returned `true` at least once.
If `accept` is only entered on the EOF lookahead (table-level, decidable: `acceptOnlyEOFB`) and no
`Error` value is left on the accepting stack, then some action was called with an `Error`
argument: an Error was delivered to the action of a production with an `@error` term.

EXTRA hypothesis w.r.t. the full statement (DESIGN §7 C09 `error_delivered`): `hstk`, a fact about
the accepting state of THIS run. On validated tables it follows from the LR stack invariant (the
accepting stack is `[S-node, bottom]`: the accept state is entered only by `goto(0, S)` and state 0
has no incoming edge); that invariant is the LR theory's (`Lox/LR/Refine.lean` currently covers
runs without recovery only). What is proved unconditionally is `error_tracked` below. -/
theorem error_delivered_partial {T : Tables} {inp : Array Nat} {wb : Bool} {fuel : Nat}
    (hacc : (parseG T inp wb fuel).1 = .accept) (hrec : 0 < (parseG T inp wb fuel).2.2)
    (hT : AcceptOnlyEOF T)
    (hstk : ∀ e ∈ (parseG T inp wb fuel).2.1.stack, e.sym.isErr = false) :
    Delivered (parseG T inp wb fuel).2.1.log :=
  parseG_error_delivered hacc hrec hT hstk

/-- **error_tracked** (no hypothesis on the tables). If `parse` accepts after at least one
successful recovery then, in the accepting state, the injected `Error` is still the (ERROR)
lookahead, or an `Error` sits on the stack, or an `Error` was delivered to an action. An injected
`Error` leaves the lookahead only by being shifted and leaves the stack only as an argument of an
action call or through a later successful `_recover()`, which injects a fresh one. -/
theorem error_tracked {T : Tables} {inp : Array Nat} {wb : Bool} {fuel : Nat}
    (hacc : (parseG T inp wb fuel).1 = .accept) (hrec : 0 < (parseG T inp wb fuel).2.2) :
    Pending (parseG T inp wb fuel).2.1 ∨ ErrOnStack (parseG T inp wb fuel).2.1 ∨
      Delivered (parseG T inp wb fuel).2.1.log :=
  parseG_ErrTrack hacc hrec

/-- The checker for `AcceptOnlyEOF` is sound. -/
theorem acceptOnlyEOF_of_check {T : Tables} (h : acceptOnlyEOFB T = true) : AcceptOnlyEOF T :=
  acceptOnlyEOFB_sound h

/-- Non-vacuity of `error_delivered_partial`: `a c ;` on the generated example tables. `c` is
unexpected after `a`; `_recover()` pops `a`, drops `c`, injects ERROR in state 0 with `;` queued;
`stmt → @error ;` is reduced with the `Error` (token 1 = `c`, expected `B` or `;`) as first
argument; the run accepts with exactly one recovery and the stack `[S-node, bottom]`. -/
example : (parseG Example.T #[2, 4, 5] true 20).1 = .accept ∧
    (parseG Example.T #[2, 4, 5] true 20).2.2 = 1 ∧
    AcceptOnlyEOF Example.T ∧
    (parseG Example.T #[2, 4, 5] true 20).2.1.stack.map (·.sym) =
      [.node 1 [.node 4 [.node 7 [.node 3 [.err 1 4 [3, 5], .tok 2 5]]]], .nil] := by
  refine ⟨by decide +kernel, by decide +kernel, acceptOnlyEOFB_sound (by decide +kernel), rfl⟩

/-- A run that fails (`a c c`: EOF reached inside `_recover()`, no recovery succeeded). -/
example : (parseG Example.T #[2, 4, 4] true 20).1 = .reject := by
  decide +kernel

/-! ## The consumed symbols are the input with stretches replaced by `@error` (any tables) -/

/-- **Coverage invariant** (`Cov`, `Lox/LR/RuntimeDefs.lean`). If EOF is never shifted, then in
every state at the top of the loop of `parse` the consumed symbols `stackLeaves s.stack` (the
`Token`/`Error` leaves of the stack values, bottom to top) followed by the pending lookaheads
satisfy:
* `tok`: every leaf carries a token of the input at its index (`TokOK`: `inp[i]`, or EOF at `|inp|`);
* `chain`: along the sequence token indices never decrease, a `Token` is strictly before its
  successor, and two consecutive `Token`s are ADJACENT in the input (`LinkR`) – so an input token
  can only be missing next to an `Error`: it belongs to the stretch that `Error` replaces;
* `head`: if the first symbol is a `Token` it is token 0;
* `pinv.pos`: the lexer stands just after the last lookahead read. -/
theorem consumed_is_edit {T : Tables} (hT : NoShiftEOF T) {inp : Array Nat} {wb : Bool} {fuel : Nat}
    {s : PState} (h : ParseReach T inp wb fuel s) : Cov inp s :=
  parseReach_Cov hT h

/-- Reading the invariant when no `Error` was consumed: in a state whose lookahead is the EOF token
at `|inp|` (nothing queued), the consumed symbols are exactly `tok 0 inp[0], …, tok (n-1) inp[n-1]`. -/
theorem consumed_eq_input {inp : Array Nat} {s : PState} (hs : Cov inp s)
    (hq : s.qla = -1) (hla : s.lasym.isErr = false) (hidx : lidx s.lasym = inp.size)
    (hne : ∀ x ∈ stackLeaves s.stack, x.isErr = false) :
    (stackLeaves s.stack).length = inp.size ∧
    ∀ (i : Nat) (h : i < inp.size), (stackLeaves s.stack)[i]? = some (.tok i inp[i]) :=
  hs.consumed_eq_input hq hla hidx hne

/-! ## On validated tables (`checkSafe`, a fortiori `check`): the grammar half -/

section Validated
variable {G : Grammar} {nTerms nRules : Nat} {T : Tables} {cert : Array (List Item)}

/-- `check` implies what `checkSafe` establishes. -/
theorem safeOK_of_check (h : check G nTerms nRules T cert = .ok ()) : SafeOK G nTerms nRules T cert :=
  (checkB_spec (check_ok_iff.mp h)).toSafeOK

/-- **accepted_edit_is_sentence.** "When parse() returns true, the symbols it consumed (input tokens
in order, possibly with stretches replaced by @error) form a sentence." On validated tables,
reading ERROR as the ordinary terminal 1 of `G`: the accepting stack is `[⟨_, v⟩, bottom]`, the
lookahead is EOF, the leaves of `v` read as terminals (`wordOf v`, `Error ↦ 1`) derive from the
start symbol with `v` as derivation tree, and these leaves are the consumed symbols of the
coverage invariant `Cov` (input tokens in order with stretches replaced by `Error`s; see
`consumed_is_edit`). The LR stack invariant is preserved by `_recover` because it only cuts the
stack back to a suffix. -/
theorem accepted_edit_is_sentence (h : checkSafe G nTerms nRules T cert = .ok ()) {inp : Array Nat}
    {wb : Bool} {fuel : Nat} (hacc : (parse T inp wb fuel).1 = .accept) :
    (parse T inp wb fuel).2.la = tEOF ∧
    ∃ st0 v b bot, (parse T inp wb fuel).2.stack = [{ state := st0, sym := v, bounds := b }, bot] ∧
      bot.sym = .nil ∧ stackLeaves (parse T inp wb fuel).2.stack = leaves v ∧
      Der G [.n (startSym G)] (wordOf v) [v.toTree] ∧ Cov inp (parse T inp wb fuel).2 :=
  accepted_sentence (checkSafeB_spec (checkSafe_ok_iff.mp h)) hacc

/-- **error_delivered.** On validated tables: if `parse` accepts and `_recover()` returned `true`
at least once, then some action was called with an `Error` argument, i.e. an Error was delivered
to the action of a production with an `@error` term. (`error_delivered_partial` without its
run-level hypothesis.) -/
theorem error_delivered (h : checkSafe G nTerms nRules T cert = .ok ()) {inp : Array Nat}
    {wb : Bool} {fuel : Nat} (hacc : (parseG T inp wb fuel).1 = .accept)
    (hrec : 0 < (parseG T inp wb fuel).2.2) : Delivered (parseG T inp wb fuel).2.1.log :=
  Rt.error_delivered (checkSafeB_spec (checkSafe_ok_iff.mp h)) hacc hrec

/-- **no_silent_accept.** On validated tables: if `parse` accepts, `_recover()` never returned
`true`, and the input holds neither ERROR (1) nor EOF (0) tokens, then the input is a sentence
(derivation tree = the value on top of the accepting stack). Contrapositive: on a non-sentence,
`parse` returns false, or recovers (and then delivers an Error, `error_delivered`). -/
theorem no_silent_accept (h : checkSafe G nTerms nRules T cert = .ok ()) {inp : Array Nat}
    {wb : Bool} {fuel : Nat} (hinp1 : ∀ i : Nat, inp[i]? ≠ some 1) (hinp0 : ∀ i : Nat, inp[i]? ≠ some 0)
    (hacc : (parseG T inp wb fuel).1 = .accept) (h0 : (parseG T inp wb fuel).2.2 = 0) :
    ∃ st0 v b bot, (parse T inp wb fuel).2.stack = [{ state := st0, sym := v, bounds := b }, bot] ∧
      Der G [.n (startSym G)] inp.toList [v.toTree] :=
  Rt.no_silent_accept (checkSafeB_spec (checkSafe_ok_iff.mp h)) hinp1 hinp0 hacc h0

/-- **parse_no_panic.** On validated tables `parse` never panics – for every input, lexer ERROR
tokens included, and however often it recovers: the stack is never empty, every `_Find`, `_rules`,
`_termCounts` index is in range (main loop, `_makeError`, stack search and reduce simulation of
`_recover`), the reduce branch never pops beyond the stack, and the `_lasym` type assertions hold. -/
theorem parse_no_panic (h : checkSafe G nTerms nRules T cert = .ok ()) (inp : Array Nat) (wb : Bool)
    (fuel : Nat) : ∀ w, (parse T inp wb fuel).1 ≠ .panic w :=
  Rt.parse_no_panic (checkSafeB_spec (checkSafe_ok_iff.mp h)) inp wb fuel

/-- **parse_terminates.** "For every accepted grammar and every finite token sequence, including
lexer ERROR tokens, parse() terminates": on tables that pass `checkSafe` (a fortiori `check`), the
reduce-chain check `termB` and the recovery check `recoveryOKB` (the reduce simulation inside
`_recover` cannot loop), there is, for every input, a fuel from which the model of `parse` never
returns `timeout`. (Successful recoveries are bounded by `2·|inp|+1` through the potential of
`recoveries_bounded` – this needs the `_recovering` flag of fix F12, without which D13 loops –,
each plain segment between them is a run of the abstract LR machine, which terminates by
`Abs.term_of_inv`, and `_recover()` itself terminates by `recover_terminates`.) All three checks
are run on every emitted table (`lr.validate`/`lr.validate_safe`, `lr.recovery_ok`). -/
theorem parse_terminates (h : checkSafe G nTerms nRules T cert = .ok ())
    (ht : termB G T cert = true) (hr : recoveryOKB T cert.size = true) (inp : Array Nat) (wb : Bool) :
    ∃ N, ∀ fuel, N ≤ fuel → (parse T inp wb fuel).1 ≠ .timeout :=
  parse_terminates_checked (checkSafeB_spec (checkSafe_ok_iff.mp h)) ht hr inp wb

/-- `parse` decides: with enough fuel the outcome is `accept` or `reject`. -/
theorem parse_total (h : checkSafe G nTerms nRules T cert = .ok ())
    (ht : termB G T cert = true) (hr : recoveryOKB T cert.size = true) (inp : Array Nat) (wb : Bool) :
    ∃ N, ∀ fuel, N ≤ fuel →
      (parse T inp wb fuel).1 = .accept ∨ (parse T inp wb fuel).1 = .reject := by
  obtain ⟨N, hN⟩ := parse_terminates h ht hr inp wb
  refine ⟨N, fun fuel hf => ?_⟩
  have h1 := hN fuel hf
  have h2 := parse_no_panic h inp wb fuel
  cases ho : (parse T inp wb fuel).1 with
  | accept => exact .inl rfl
  | reject => exact .inr rfl
  | panic w => exact absurd ho (h2 w)
  | timeout => exact absurd ho h1

/-- **first_error_token_partial.** "…the first Error delivered carries the first token at which the
input stops being a prefix of any sentence." Let the run be plain (shift/reduce only) up to `s` and
let the iteration from `s` be the first successful `_recover()`. Then (runtime, any tables) the
`Error` it injects carries the lookahead token of `s`, the first configuration without an action
(index `j`), and every earlier `Error` value wraps a lexer ERROR token; and (tables that pass
`check`) no sentence returns the same tokens as the input at the positions `0..j`: at token `j`
the input has stopped being a prefix of any sentence (`j = |inp|` is the EOF lookahead: the input
is then not a sentence, though it may be a proper prefix of one).

NOT proved (hence `_partial`): that every shorter prefix `inp[0..j)` IS a prefix of some sentence
(the correct-prefix property proper). It needs every item of the certificate to be justified by a
derivation and every rule to be productive; `check` does not establish either. -/
theorem first_error_token_partial (h : check G nTerms nRules T cert = .ok ())
    {inp : Array Nat} {wb : Bool} {fuel : Nat} {s1 s s' : PState}
    (h1 : readToken T inp initState = .ok s1) (hreach : PlainReach T inp wb fuel s1 s)
    (hrec : isRecoverStep T s = true) (hstep : step T inp wb fuel s = .cont s') :
    (∃ i ty ex, s'.lasym = .err i ty ex ∧ s'.la = tERROR ∧ symTokIdx s.lasym = some i ∧
      lidx s.lasym = i) ∧
    ErrsInv (lexErrAt inp) s ∧
    ∀ (w : List Nat) (t : Tree), Der G [.n (startSym G)] w [t] →
      ¬ ∀ i, i ≤ lidx s.lasym → inp[i]? = w.toArray[i]? := by
  obtain ⟨⟨i, ty, ex, hsym, hla, hidx⟩, herr⟩ := first_error_runtime h1 hreach hrec hstep
  refine ⟨⟨i, ty, ex, hsym, hla, hidx, ?_⟩, herr, fun w t hd => ?_⟩
  · cases hl : s.lasym <;> simp_all [symTokIdx, lidx]
  · exact first_error_not_prefix (check_sound h).1 (check_sound h).2.2 (safeOK_of_check h)
      h1 hreach hrec hd

/-- On a sentence `_recover()` is never called (tables that pass `check`; also for grammars with
`@error` productions). -/
theorem sentence_never_recovers (h : check G nTerms nRules T cert = .ok ()) {w : List Nat}
    {t : Tree} (hd : Der G [.n (startSym G)] w [t]) {wb : Bool} {fuel : Nat} {s : PState}
    (hr : ParseReach T w.toArray wb fuel s) : isRecoverStep T s = false := by
  obtain ⟨n, hrun⟩ := Abs.complete_run (check_sound h).1 (check_sound h).2.2 hd
  exact sentence_run_plain (safeOK_of_check h) hrun hr

end Validated

/-- Non-vacuity: the generated example tables pass `checkSafe` with the LR(0) cores as
certificate; `a c ;` is accepted after one recovery; the consumed symbols `Error(c) ;` derive from
the start symbol through `stmt → @error ;`. -/
example : checkSafe Example.G 6 6 Example.T Example.cert = .ok () ∧
    (parse Example.T #[2, 4, 5] true 20).1 = .accept ∧
    (parse Example.T #[2, 4, 5] true 20).2.stack.head?.map (fun e => e.sym) =
      some (.node 1 [.node 4 [.node 7 [.node 3 [.err 1 4 [3, 5], .tok 2 5]]]]) ∧
    wordOf (.node 1 [.node 4 [.node 7 [.node 3 [.err 1 4 [3, 5], .tok 2 5]]]]) = [1, 5] := by
  refine ⟨Example.checkSafe_ok, by decide +kernel, rfl, ?_⟩
  simp [wordOf, leaves, leavesL, leafNat, leafTy, tERROR]

/-- Non-vacuity of `first_error_token_partial`: the example tables pass the full `check` with their
LALR(1) item sets, and on `a c ;` the run is plain for one iteration (shift `a`), then state 1 has
no action on `c` (token 1): `_recover()` injects `Error{Token: c, Expected: [B, SEMI]}`. -/
example : check Example.G 6 6 Example.T Example.certL = .ok () ∧
    ∃ s1 s s', readToken Example.T #[2, 4, 5] initState = .ok s1 ∧
      PlainReach Example.T #[2, 4, 5] true 20 s1 s ∧ isRecoverStep Example.T s = true ∧
      step Example.T #[2, 4, 5] true 20 s = .cont s' ∧ lidx s.lasym = 1 ∧
      s'.lasym = .err 1 4 [3, 5] := by
  refine ⟨Example.check_ok, _, _, _, rfl, .step ?_ rfl (.refl _), ?_, rfl, rfl, rfl⟩
  · decide +kernel
  · decide +kernel

/-- Non-vacuity of `parse_terminates`: the generated example tables pass all three checks. -/
example : checkSafe Example.G 6 6 Example.T Example.cert = .ok () ∧
    termB Example.G Example.T Example.cert = true ∧
    recoveryOKB Example.T Example.cert.size = true :=
  ⟨Example.checkSafe_ok, Example.termB_ok, Example.recoveryOK⟩

/-! ## What remains for the full C09 statement

* `first_error_token`: proved up to the correct-prefix property proper (every shorter prefix is a
  prefix of a sentence), see `first_error_token_partial`. -/

end Lox.Props.C09
