import Lox.LR.RuntimeProofsRecover
import Lox.LR.RuntimeProofsErrors
import Lox.LR.RuntimeProofsTerm
import Lox.LR.RuntimeProofsCheck
import Lox.LR.RuntimeExample
/-! # C09 Syntax errors: terminate, never accept silently, blame the right token

"For every accepted grammar and every finite token sequence, including lexer ERROR tokens, parse()
terminates without panicking. Reading @error as a terminal that only the parser itself can supply:
if the sequence is not a sentence, parse() either returns false or delivers at least one Error to
an @error action, and the first Error delivered carries the first token at which the input stops
being a prefix of any sentence. When parse() returns true, the symbols it consumed (input tokens in
order, possibly with stretches replaced by @error) form a sentence."

This file holds the RUNTIME half of C09: structural facts about `_recover` and the main loop of
the executable model `Lox.LR.parse` (`Lox/LR/Model.lean`, transcribing `parserTemplate` in
`internal/codegen/emit_parser.go`, including the `_recovering` flag of fix F12). Everything is
proved for ARBITRARY tables, inputs and fuel; where a table-level hypothesis is needed
(`NoShiftEOF`, `AcceptOnlyEOF`, a ranking of the simulation graph) it is decidable, comes with a
checker proved sound, and is shown to hold on tables emitted by the real generator. The grammar
half (sentences, viable prefixes, the reduce-chain bound) belongs to the LR theory
(`Lox/LR/{Abstract,Sound,Complete,Refine}.lean`) and is NOT claimed here. What remains open for the
full statement is listed at the end of the file.

Vocabulary (`Lox/LR/RuntimeDefs.lean`): `remaining inp s` = tokens the lexer has not delivered yet
+ 1 if the queued lookahead is a real token + 1 if the lookahead is a real token (real = neither
EOF nor ERROR); `parseG` = `parse` with a ghost counter of the `_recover()` calls that returned
`true`; `Delivered log` = some action call in the log has an `Error` argument. -/
namespace Lox.Props.C09
open Lox.LR Lox.LR.Rt

/-! ## (a) What a successful `_recover()` returns -/

/-- **recover_result.** If `_recover()` returns `true` then: the lookahead is ERROR; `_lasym` is an
`Error` carrying the token that was the lookahead when the error was detected (a pending lexer
`Error` is passed on unchanged, otherwise it is `_makeError()` = that token plus the keys of the
action row of the state on top); `_recovering` is set; the stack is a suffix of the old stack
whose top state has an action on ERROR (shift or reduce) from which the inner simulation reaches
a state that shifts ERROR and has an action on the queued lookahead; the log is untouched; the
queued lookahead `_qla` is the lookahead of a state `s1` obtained by reading on from a state
`s0` whose lookahead is not ERROR. (`s1 = s0` unless tokens were dropped by the outer loop; see
`qla_real` and the example after it for why `_qla ≠ ERROR` needs a hypothesis.) -/
theorem recover_result {T : Tables} {inp : Array Nat} {fuel : Nat} {s s' : PState}
    (h : recover T inp fuel s = .ok s') :
    s'.la = tERROR ∧
    (∃ i ty ex, s'.lasym = .err i ty ex ∧ symTokIdx s.lasym = some i ∧
      (s.lasym = .err i ty ex ∨ (s.lasym = .tok i ty ∧ ∃ st, topState s.stack = some st ∧
        rowKeys T.actions st = some ex))) ∧
    s'.recovering = true ∧
    s'.stack <:+ s.stack ∧
    s'.log = s.log ∧
    (∃ top v, topState s'.stack = some top ∧ find T.actions top tERROR = .hit v ∧
      simulate T s'.qla fuel top = .found) ∧
    (∃ s0 s1, Reads T inp s s0 ∧ s0.la ≠ tERROR ∧ Reads T inp s0 s1 ∧
      s'.qla = s1.la ∧ s'.qlasym = s1.lasym ∧ s'.pos = s1.pos ∧ s'.reads = s1.reads) :=
  Rt.recover_result h

/-- When the lexer delivers no ERROR token (and none is queued), the lookahead queued by a
successful `_recover()` is a real token or EOF, never ERROR. -/
theorem qla_real {T : Tables} {inp : Array Nat} {fuel : Nat} {s s' : PState}
    (hinp : ∀ i : Nat, inp[i]? ≠ some 1) (hq : s.qla ≠ tERROR)
    (h : recover T inp fuel s = .ok s') : s'.qla ≠ tERROR :=
  recover_qla_real hinp hq h

/-- Hand-made tables (state 0 shifts ERROR to 1, state 1 shifts ERROR to 2). -/
def Tq : Tables :=
  { rules := #[], termCounts := #[], actions := #[2, 5, 2, 1, 1, 2, 1, 2], gotos := #[] }

/-- The hypothesis of `qla_real` is needed: on input `X <lexer ERROR>` the outer loop of `_recover`
drops `X`, reads the lexer ERROR token and finds a recovery point for it: the queued lookahead
is ERROR (with the lexer's `Error` as its value). -/
example : (match readToken Tq #[5, 1] initState with
    | .ok s1 => (match recover Tq #[5, 1] 10 s1 with
      | .ok s' => some (s'.qla, s'.qlasym.isErr)
      | _ => none)
    | _ => none) = some (tERROR, true) := by
  decide

/-! ## (b) Progress of recovery -/

/-- **recover_progress.** A successful `_recover()` never increases the remaining input nor moves
the lexer backwards, and when `_recovering` was set on entry (no real token shifted since the
previous recovery) it strictly decreases the remaining input: the offending token is dropped. -/
theorem recover_progress {T : Tables} {inp : Array Nat} {fuel : Nat} {s s' : PState}
    (h : recover T inp fuel s = .ok s') :
    remaining inp s' ≤ remaining inp s ∧ s.pos ≤ s'.pos ∧
    (s.recovering = true → remaining inp s' < remaining inp s) :=
  Rt.recover_progress h

/-- The remaining input never increases along a run (shift, reduce or recovery). -/
theorem remaining_monotone {T : Tables} {inp : Array Nat} {wb : Bool} {fuel : Nat} {a b : PState}
    (h : Reach T inp wb fuel a b) : remaining inp b ≤ remaining inp a :=
  h.remaining

/-- **Between two consecutive successful recoveries** – `s1` is the state the first one returned
(so `_recovering` is set), `s2` the state the next one is entered from – either a real
(non-ERROR) token was shifted in between, or the remaining input strictly decreased. -/
theorem progress_between_recoveries {T : Tables} {inp : Array Nat} {wb : Bool} {fuel : Nat}
    {s1 s2 s3 : PState} (h1 : s1.recovering = true) (hr : Reach T inp wb fuel s1 s2)
    (h : recover T inp fuel s2 = .ok s3) :
    (∃ c c', Reach T inp wb fuel s1 c ∧ step T inp wb fuel c = .cont c' ∧
      Reach T inp wb fuel c' s2 ∧ RealShift T c) ∨
    remaining inp s3 < remaining inp s1 :=
  recover_progress_between h1 hr h

/-- The ghost-instrumented `parseG` is `parse` plus a counter. -/
theorem ghost_erases (T : Tables) (inp : Array Nat) (wb : Bool) (fuel : Nat) :
    ((parseG T inp wb fuel).1, (parseG T inp wb fuel).2.1) = parse T inp wb fuel :=
  parseG_erase T inp wb fuel

/-- **recoveries_bounded.** If EOF is never shifted (true of LR tables; decidable, see
`noShiftEOFB`), then along any run of `parse` – whatever the fuel, i.e. however long the run –
`_recover()` returns `true` at most `2 * |input| + 1` times. This is the termination argument
for the recovery part of `parse` (fix F12; on the pinned tree without `_recovering` it is false:
D13). The number of iterations between two recoveries is the reduce-chain bound of the LR theory. -/
theorem recoveries_bounded {T : Tables} (hT : NoShiftEOF T) (inp : Array Nat) (wb : Bool)
    (fuel : Nat) : (parseG T inp wb fuel).2.2 ≤ 2 * inp.size + 1 :=
  parseG_bound hT inp wb fuel

/-- The checker for `NoShiftEOF` is sound. -/
theorem noShiftEOF_of_check {T : Tables} (h : noShiftEOFB T = true) : NoShiftEOF T :=
  noShiftEOFB_sound h

/-- Non-vacuity: the tables the real generator emits for the example grammar never shift EOF. -/
example : NoShiftEOF Example.T := noShiftEOFB_sound (by decide)

/-- Hand-made tables that shift EOF: 0 —ERROR→ 1 —EOF→ 2 —ERROR→ 1. -/
def Tloop : Tables :=
  { rules := #[], termCounts := #[], actions := #[3, 6, 9, 2, 1, 1, 2, 0, 2, 2, 1, 1], gotos := #[] }

/-- The hypothesis of `recoveries_bounded` is needed: on tables that shift EOF the empty input
already recovers without bound (7 times within 20 iterations, 14 within 40, …). -/
example : (parseG Tloop #[] false 20).2.2 = 7 ∧ (parseG Tloop #[] false 40).2.2 = 14 ∧
    (parseG Tloop #[] false 40).1 = .timeout := by
  decide

/-! ## (c) `_recover()` itself terminates -/

/-- **recover_terminates.** `_recover()` does not run out of fuel when the fuel covers the rest of
the input (+3) and the inner simulation loop terminates within the same fuel. (The stack search is
structurally bounded by the stack.) -/
theorem recover_terminates {T : Tables} {inp : Array Nat} {fuel : Nat} {s : PState}
    (hsim : ∀ la st, simulate T la fuel st ≠ .timeout) (hfuel : inp.size - s.pos + 3 ≤ fuel) :
    recover T inp fuel s ≠ .timeout :=
  Rt.recover_terminates hsim hfuel

/-- Closed form: the inner simulation follows `st ↦ goto(st, lhs(reduce(st, ERROR)))` without
popping; if a ranking of that graph (checked by `simRankOK`, a per-table computation) is bounded
by `B`, then `_recover()` never runs out of fuel once `fuel ≥ max (B + 1) (rest of input + 3)`. -/
theorem recover_terminates_of_rank {T : Tables} {inp : Array Nat} {fuel : Nat} {s : PState}
    (rank : Int → Nat) (B : Nat) (hB : ∀ st, rank st ≤ B)
    (hOK : simRankOK T rank T.actions.size = true)
    (hfuel1 : B + 1 ≤ fuel) (hfuel2 : inp.size - s.pos + 3 ≤ fuel) :
    recover T inp fuel s ≠ .timeout :=
  Rt.recover_terminates_of_rank rank B hB hOK hfuel1 hfuel2

/-- Non-vacuity: on the generated example tables the states 4, 9, 10, 11 reduce on ERROR and the
(missing) goto sends the simulation to state 0, which shifts ERROR: rank 1 for every state but 0. -/
example : simRankOK Example.T (fun st => if st = 0 then 0 else 1) Example.T.actions.size = true := by
  decide

example {inp : Array Nat} {s : PState} {fuel : Nat} (h : inp.size - s.pos + 3 ≤ fuel) :
    recover Example.T inp fuel s ≠ .timeout :=
  recover_terminates_of_rank (fun st => if st = 0 then 0 else 1) 1
    (fun st => by split <;> omega) (by decide) (by omega) h

/-! ## (d) No silent accept; errors are delivered -/

/-- **no_recovery_is_plain_run.** If the ghost counter is 0, `_recover()` never returned `true`:
the run is a sequence of plain shift/reduce iterations up to its last iteration (this is the
interface to the LR theory: a plain run is a run of the abstract LR machine). -/
theorem no_recovery_is_plain_run {T : Tables} {inp : Array Nat} {wb : Bool} {fuel : Nat}
    {s1 : PState} (h1 : readToken T inp initState = .ok s1)
    (h0 : (parseG T inp wb fuel).2.2 = 0) :
    ∃ sl, PlainReach T inp wb fuel s1 sl ∧
      (((parseG T inp wb fuel).1 = .timeout ∧ (parseG T inp wb fuel).2.1 = sl) ∨
       step T inp wb fuel sl = .done (parseG T inp wb fuel).1 (parseG T inp wb fuel).2.1) := by
  unfold parseG at h0 ⊢
  simp only [h1] at h0 ⊢
  exact runLoopG_zero fuel s1 h0

/-- **no_silent_accept_partial.** If `_recover()` never returned `true` during the run, then every
`Error` value in the final state – lookaheads, stack, every argument of every action call in the
log – wraps a lexer ERROR token of the input (`inp[i] = ERROR` for its token index `i`): the
parser supplied no `@error` of its own.

Full statement (DESIGN §7 C09 `no_silent_accept`): `Valid → parse w = (true, no recovery) →
Der [S] w`. Missing here: the link from a plain run to a derivation, which is C01 soundness of the
LR theory applied through `no_recovery_is_plain_run`. -/
theorem no_silent_accept_partial {T : Tables} {inp : Array Nat} {wb : Bool} {fuel : Nat}
    (h0 : (parseG T inp wb fuel).2.2 = 0) :
    ErrsInv (lexErrAt inp) (parseG T inp wb fuel).2.1 :=
  parseG_zero_ErrsInv h0

/-- … in particular, when the lexer delivered no ERROR token, no `Error` value occurs anywhere in
the log (nor on the stack, nor as a lookahead). -/
theorem no_error_values {T : Tables} {inp : Array Nat} {wb : Bool} {fuel : Nat}
    (hinp : ∀ i : Nat, inp[i]? ≠ some 1) (h0 : (parseG T inp wb fuel).2.2 = 0) :
    ErrsInv (fun _ => false) (parseG T inp wb fuel).2.1 := by
  have hm : ∀ i, lexErrAt inp i = true → (fun _ : Nat => false) i = true := by
    intro i hi
    simp only [lexErrAt, beq_iff_eq] at hi
    exact absurd hi (hinp i)
  obtain ⟨a1, a2, a3, a4⟩ := no_silent_accept_partial h0
  refine ⟨errsIn_mono hm _ a1, fun hq => errsIn_mono hm _ (a2 hq),
    fun e he => errsIn_mono hm _ (a3 e he), fun ev hev => ?_⟩
  have := a4 ev hev
  cases ev with
  | act p kids => exact errsInL_mono hm _ this
  | bounds p v b e => exact errsIn_mono hm _ this

/-- Lexer ERROR tokens are a different matter: where the grammar expects `@error` the parser
shifts a lexer ERROR token directly, without calling `_recover()`; its `Error` reaches the action
(so an Error IS delivered) although the recovery counter stays 0. Input `<lexer ERROR> ;` on the
example tables. -/
example : (parseG Example.T #[1, 5] true 40).1 = .accept ∧ (parseG Example.T #[1, 5] true 40).2.2 = 0 ∧
    (parseG Example.T #[1, 5] true 40).2.1.log.reverse.head? =
      some (.act 3 [.err 0 1 [2, 0, 1], .tok 1 5]) := by
  refine ⟨by decide, by decide, rfl⟩

/-- **error_delivered_partial.** `parse` accepted and `_recover()` returned `true` at least once.
If `accept` is only entered on the EOF lookahead (table-level, decidable: `acceptOnlyEOFB`) and no
`Error` value is left on the accepting stack, then some action was called with an `Error`
argument: an Error was delivered to the action of a production with an `@error` term.

EXTRA hypothesis w.r.t. the full statement (DESIGN §7 C09 `error_delivered`): `hstk`, a fact about
the accepting state of THIS run. On validated tables it follows from the LR stack invariant (the
accepting stack is `[S-node, bottom]`: the accept state is entered only by `goto(0, S)` and state 0
has no incoming edge); that invariant is the LR theory's (`Lox/LR/Refine.lean` currently covers
runs without recovery only). What is proved unconditionally is `error_tracked` below. -/
theorem error_delivered_partial {T : Tables} {inp : Array Nat} {wb : Bool} {fuel : Nat}
    (hacc : (parseG T inp wb fuel).1 = .accept) (hrec : 0 < (parseG T inp wb fuel).2.2)
    (hT : AcceptOnlyEOF T)
    (hstk : ∀ e ∈ (parseG T inp wb fuel).2.1.stack, e.sym.isErr = false) :
    Delivered (parseG T inp wb fuel).2.1.log :=
  parseG_error_delivered hacc hrec hT hstk

/-- **error_tracked** (no hypothesis on the tables). If `parse` accepts after at least one
successful recovery then, in the accepting state, the injected `Error` is still the (ERROR)
lookahead, or an `Error` sits on the stack, or an `Error` was delivered to an action. An injected
`Error` leaves the lookahead only by being shifted and leaves the stack only as an argument of an
action call or through a later successful `_recover()`, which injects a fresh one. -/
theorem error_tracked {T : Tables} {inp : Array Nat} {wb : Bool} {fuel : Nat}
    (hacc : (parseG T inp wb fuel).1 = .accept) (hrec : 0 < (parseG T inp wb fuel).2.2) :
    Pending (parseG T inp wb fuel).2.1 ∨ ErrOnStack (parseG T inp wb fuel).2.1 ∨
      Delivered (parseG T inp wb fuel).2.1.log := by
  unfold parseG at hacc hrec ⊢
  cases h : readToken T inp initState with
  | error w => simp only [h] at hacc; cases hacc
  | ok s1 =>
    simp only [h] at hacc hrec ⊢
    exact runLoopG_ErrTrack fuel s1 hacc (.inr hrec)

/-- The checker for `AcceptOnlyEOF` is sound. -/
theorem acceptOnlyEOF_of_check {T : Tables} (h : acceptOnlyEOFB T = true) : AcceptOnlyEOF T :=
  acceptOnlyEOFB_sound h

/-- Non-vacuity of `error_delivered_partial`: `a c ;` on the generated example tables. `c` is
unexpected after `a`; `_recover()` pops `a`, drops `c`, injects ERROR in state 0 with `;` queued;
`stmt → @error ;` is reduced with the `Error` (token 1 = `c`, expected `B` or `;`) as first
argument; the run accepts with exactly one recovery and the stack `[S-node, bottom]`. -/
example : (parseG Example.T #[2, 4, 5] true 40).1 = .accept ∧
    (parseG Example.T #[2, 4, 5] true 40).2.2 = 1 ∧
    AcceptOnlyEOF Example.T ∧
    (∀ e ∈ (parseG Example.T #[2, 4, 5] true 40).2.1.stack, e.sym.isErr = false) ∧
    (parseG Example.T #[2, 4, 5] true 40).2.1.log.reverse.head? =
      some (.act 3 [.err 1 4 [3, 5], .tok 2 5]) := by
  refine ⟨by decide, by decide, acceptOnlyEOFB_sound (by decide), by decide, rfl⟩

/-- A run with two recoveries (`a c c c ; b ;`) and a run that fails (`a c c`: EOF reached inside
`_recover()`, no recovery succeeded). -/
example : (parseG Example.T #[2, 4, 4, 4, 5, 3, 5] true 60).1 = .accept ∧
    (parseG Example.T #[2, 4, 4, 4, 5, 3, 5] true 60).2.2 = 2 ∧
    (parseG Example.T #[2, 4, 4] true 60).1 = .reject ∧
    (parseG Example.T #[2, 4, 4] true 60).2.2 = 0 := by
  decide

/-! ## What remains for the full C09 statement

* `parse_terminates`: `recoveries_bounded` + `recover_terminates` bound the recovery part; the
  number of iterations between two shifts (reduce chains) needs the LR theory's bound.
* `no_silent_accept` / `accepted_edit_is_sentence`: need the LR soundness theorem applied to the
  plain segments between recoveries (`no_recovery_is_plain_run` is the hook for the first one).
* `error_delivered`: `hstk` of `error_delivered_partial` from the LR stack invariant.
* `first_error_token`: the first `Error` carries the lookahead of the first configuration without
  an action (`recover_result`, second component); that this is the first non-viable token is the
  correct-prefix property of the LR theory.
* No panic: every `Peek/Pop/_Find` index in range under `Valid` (LR theory). -/

end Lox.Props.C09
