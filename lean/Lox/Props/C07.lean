import Lox.Lex.RuntimeProofs
/-! # C07 – Mode stack; every action takes effect

"After a rule carrying @push_mode(M) matches, lexing continues in M; after @pop_mode, in the mode
that was current before the matching push; @emit(T) on a fragment emits T with the accumulated
text, @discard drops it, and an action-less fragment's text is kept and becomes the beginning of
the text of the next rule that emits or discards. Every action written on a rule takes effect when
that rule matches, whatever order the actions are written in."

Three layers, all for **every** input / table / action list:

1. written actions → stored pairs (`Lox/Lex/Actions.lean`: `tokenRulePairs`, `fragRulePairs`, the
   model of `TokenRule/FragRule.RunPass(GenerateGrammar)`; after the fix of D8 the terminal action
   is stored after the mode actions);
2. stored pairs → `PushRune`'s action loop (`runActions` of `Lox/Lex/Model.lean`) against the
   abstract mode stack `applyModeActs` / `applyW`;
3. whole runs of the driver (`lexAllG`, the ghost-instrumented `lexAll`): `mode_stack_discipline`,
   `accum_prefix`.

`SM.reset` (after an ERROR token) resets mode and state but **not** the mode stack – modelled as
is (`absStep`, `reset_keeps_stack`). -/
namespace Lox.Props.C07
open Lox.Lex Lox.Lex.Rt

/-! ## The action loop applies every mode action in order -/

/-- **`runActions` on a well-formed action section** `pre ++ [t]` (mode actions, then the one
terminal pair) stored at `i`: the result is the terminal result and the state machine has
`(mode, stack) = applyModeActs pre (mode, stack)` – every push/pop applied, in order. A pop on the
empty stack (`applyModeActs = none`) is exactly the `_lexerError` result; the state machine then
keeps what had been applied so far (`applyModeActsT`). -/
theorem runActions_mode_stack (modes : Array Mode) (m : Mode) (r : Int) (pre : List Pair) (t : Pair)
    (i : Int) (fuel : Nat) (sm : SM) (mo : Nat)
    (hdec : readPairs m (pre ++ [t]).length i = some (pre ++ [t]))
    (hpre : ∀ p ∈ pre, (p.1 = 1 ∧ p.2.toNat < modes.size) ∨ p.1 = 2)
    (ht : t.1 = 3 ∨ t.1 = 4 ∨ t.1 = 5) (hmo : sm.mode = some mo)
    (hfuel : (pre ++ [t]).length < fuel) :
    runActions modes m r fuel i (i + 2 * ((pre ++ [t]).length : Int)) sm =
      some (match applyModeActs pre (mo, sm.modeStack) with
        | some ms => terminalEffect t { sm with mode := some ms.1, modeStack := ms.2 }
        | none =>
          (.error, { sm with mode := some (applyModeActsT pre (mo, sm.modeStack)).1,
                             modeStack := (applyModeActsT pre (mo, sm.modeStack)).2 })) := by
  rw [runActions_eq modes m r (pre ++ [t]) i fuel sm hdec hfuel,
    execPairs_wf modes.size r pre t sm mo hpre ht hmo]
  rfl

/-- `@pop_mode` on the empty stack is the `_lexerError` result, and only that. -/
theorem pop_empty_error (modes : Array Mode) (m : Mode) (r : Int) (pre : List Pair) (t : Pair)
    (i : Int) (fuel : Nat) (sm : SM) (mo : Nat)
    (hdec : readPairs m (pre ++ [t]).length i = some (pre ++ [t]))
    (hpre : ∀ p ∈ pre, (p.1 = 1 ∧ p.2.toNat < modes.size) ∨ p.1 = 2)
    (ht : t.1 = 3 ∨ t.1 = 4 ∨ t.1 = 5) (hmo : sm.mode = some mo)
    (hfuel : (pre ++ [t]).length < fuel) :
    applyModeActs pre (mo, sm.modeStack) = none ↔
      ∃ sm', runActions modes m r fuel i (i + 2 * ((pre ++ [t]).length : Int)) sm
        = some (.error, sm') := by
  rw [runActions_mode_stack modes m r pre t i fuel sm mo hdec hpre ht hmo hfuel]
  cases h : applyModeActs pre (mo, sm.modeStack) with
  | none => simp
  | some ms =>
    simp only [Option.some.injEq, reduceCtorEq, false_iff, not_exists]
    intro sm' he
    obtain ⟨hres, _⟩ := terminalEffect_cases t { sm with mode := some ms.1, modeStack := ms.2 }
    rw [he] at hres
    simp at hres

/-! ## Every written action takes effect, whatever the order -/

/-- **`all_effective`, fragment rules.** For every written action list `ws` accepted for a
`@frag` rule, executing the emitted pairs (wherever they are stored in a table) performs every
mode action of `ws` in written order (`applyW`) and then exactly the one terminal action of `ws`
(`writtenTerminal`: the written `@emit(T)`/`@discard`, accumulate if there is none) – independent
of where the terminal action was written. A written `@pop_mode` meeting an empty stack gives
`_lexerError`. -/
theorem all_effective_frag (ws : List WAction) (ps : List Pair) (h : fragRulePairs ws = some ps)
    (modes : Array Mode) (m : Mode) (r : Int) (i : Int) (fuel : Nat) (sm : SM) (mo : Nat)
    (hdec : readPairs m ps.length i = some ps)
    (hn : ∀ k, WAction.pushMode k ∈ ws → k < modes.size) (hmo : sm.mode = some mo)
    (hfuel : ps.length < fuel) :
    runActions modes m r fuel i (i + 2 * (ps.length : Int)) sm =
      some (match applyW ws (mo, sm.modeStack) with
        | some ms =>
          terminalEffect (writtenTerminal accumPair ws) { sm with mode := some ms.1, modeStack := ms.2 }
        | none =>
          (.error, { sm with mode := some (applyModeActsT (modePairs ws) (mo, sm.modeStack)).1,
                             modeStack := (applyModeActsT (modePairs ws) (mo, sm.modeStack)).2 })) := by
  have hps := fragRulePairs_eq h
  subst hps
  rw [runActions_eq modes m r _ i fuel sm hdec hfuel,
    execPairs_written modes.size r ws accumPair sm mo (by decide) hn hmo]
  rfl

/-- **`all_effective`, token rules**: the written mode actions in written order, then accept of
the rule's own terminal. -/
theorem all_effective_token (terminal : Nat) (ws : List WAction) (ps : List Pair)
    (h : tokenRulePairs terminal ws = some ps)
    (modes : Array Mode) (m : Mode) (r : Int) (i : Int) (fuel : Nat) (sm : SM) (mo : Nat)
    (hdec : readPairs m ps.length i = some ps)
    (hn : ∀ k, WAction.pushMode k ∈ ws → k < modes.size) (hmo : sm.mode = some mo)
    (hfuel : ps.length < fuel) :
    runActions modes m r fuel i (i + 2 * (ps.length : Int)) sm =
      some (match applyW ws (mo, sm.modeStack) with
        | some ms =>
          (.accept, { sm with mode := some ms.1, modeStack := ms.2, token := terminal, state := 0 })
        | none =>
          (.error, { sm with mode := some (applyModeActsT (modePairs ws) (mo, sm.modeStack)).1,
                             modeStack := (applyModeActsT (modePairs ws) (mo, sm.modeStack)).2 })) := by
  obtain ⟨hps, hterm⟩ := tokenRulePairs_eq h
  subst hps
  rw [runActions_eq modes m r _ i fuel sm hdec hfuel,
    execPairs_written modes.size r ws ((3 : Int), (terminal : Int)) sm mo (Or.inl rfl) hn hmo, hterm]
  cases applyW ws (mo, sm.modeStack) with
  | none => rfl
  | some ms => simp [terminalEffect]

/-- The terminal action that takes effect is the written one: `@emit(T)` emits `T` … -/
theorem frag_emit_effect (ws : List WAction) (ps : List Pair) (h : fragRulePairs ws = some ps)
    (T : Nat) (hT : WAction.emit T ∈ ws) (sm : SM) :
    terminalEffect (writtenTerminal accumPair ws) sm
      = (.accept, { sm with token := (T : Int), state := 0 }) := by
  rw [writtenTerminal_of_mem h hT rfl]; rfl

/-- … `@discard` discards … -/
theorem frag_discard_effect (ws : List WAction) (ps : List Pair) (h : fragRulePairs ws = some ps)
    (hD : WAction.discard ∈ ws) (sm : SM) :
    terminalEffect (writtenTerminal accumPair ws) sm = (.discard, { sm with state := 0 }) := by
  rw [writtenTerminal_of_mem h hD rfl]; rfl

/-- … and an action-less fragment (only mode actions, or none) accumulates: the driver is told
to try again with the same rune and keeps the token start (`accum_prefix`). -/
theorem frag_accum_effect (ws : List WAction) (hN : ∀ w ∈ ws, w.isTerminal = false) (sm : SM) :
    terminalEffect (writtenTerminal accumPair ws) sm = (.tryAgain, { sm with state := 0 }) := by
  rw [writtenTerminal_none hN]; rfl

/-- **Whatever order the actions are written in**: wherever the terminal action stands among the
mode actions, the stored pairs are the same (mode actions in written order, terminal last). -/
theorem terminal_position_irrelevant (ms1 ms2 : List WAction) (t : WAction)
    (h1 : ∀ w ∈ ms1, w.isTerminal = false) (h2 : ∀ w ∈ ms2, w.isTerminal = false)
    (ht : t.isTerminal = true) :
    fragRulePairs (ms1 ++ t :: ms2) = some ((ms1 ++ ms2).map WAction.pair ++ [t.pair]) ∧
    fragRulePairs (ms1 ++ t :: ms2) = fragRulePairs (ms1 ++ ms2 ++ [t]) := by
  have e1 := fragRulePairs_terminal_anywhere ms1 ms2 t h1 h2 ht
  have e2 := fragRulePairs_terminal_anywhere (ms1 ++ ms2) [] t
    (by intro w hw; rcases List.mem_append.1 hw with h | h; exact h1 w h; exact h2 w h)
    (by simp) ht
  simp only [List.append_nil] at e2
  exact ⟨e1, by rw [e1, e2]⟩

/-- `@push_mode(M)`: lexing continues in `M`, the old mode is saved. -/
theorem push_mode_enters (M mo : Nat) (st : List Nat) :
    applyW [.pushMode M] (mo, st) = some (M, mo :: st) := rfl

/-- `@pop_mode`: the mode on top of the saved modes becomes current. -/
theorem pop_mode_returns (M mo : Nat) (st : List Nat) :
    applyW [.popMode] (M, mo :: st) = some (mo, st) := rfl

/-- **After `@pop_mode`, in the mode that was current before the matching push**: whatever the
rules matched in between did (`mid`, the concatenation of their action pairs), as long as it left
the saved modes as the push left them (pushes and pops in `mid` match), the pop restores the mode
and the stack that were current before the push. -/
theorem matching_pop_restores (M : Nat) (p : Int) (mid : List Pair) (mo : Nat) (st : List Nat)
    (M' : Nat) (hmid : applyModeActs mid (M, mo :: st) = some (M', mo :: st)) :
    applyModeActs (((1 : Int), (M : Int)) :: mid ++ [((2 : Int), p)]) (mo, st) = some (mo, st) :=
  applyModeActs_bracket (M : Int) p mid mo st M' (by simpa using hmid)

/-- The mode used by the next `PushRune` is the current mode of the state machine: the row
consulted is the row of `sm.state` in `modes[sm.mode]` (`nil` = mode 0). -/
theorem next_step_in_current_mode {modes : Array Mode} (hwf : WFModes modes) {sm : SM}
    (hin : InRange modes sm) (r : Int) :
    ∃ m row, modes[sm.mode.getD 0]? = some m ∧ decodeRow m sm.state = some row ∧
      pushRune modes sm r = stepRow modes.size row { sm with mode := some (sm.mode.getD 0) } r := by
  obtain ⟨_, hst0, m, hm, hlt⟩ := hin
  obtain ⟨_, hrows⟩ := hwf.2 _ m hm
  obtain ⟨row, hrow, rwf⟩ := hrows _ hlt
  have hcast : ((sm.state.toNat : Nat) : Int) = sm.state := by omega
  rw [hcast] at hrow
  exact ⟨m, row, hm, hrow, pushRune_eq_stepRow modes sm r m row hm hrow rwf.sorted.1
    (fun t ht => (rwf.sorted.2 t ht).2)⟩

/-! ## Whole runs -/

/-- **`mode_stack_discipline`.** Over any run of `lexAll` on a well-formed table (any input, any
fuel – also a run cut short), replaying the ghost log on the abstract mode stack – each row that
fired applies its push/pop pairs in order, an ERROR return resets the mode to mode 0 and leaves
the stack alone – agrees with the state machine: at every row that fired the abstract current
mode is the mode of that row, and after each token the state machine's `(mode, modeStack)` equals
the abstract stack. -/
theorem mode_stack_discipline {modes : Array Mode} (hwf : WFModes modes) (inp : Input)
    (fuel n : Nat) :
    AbsAgrees modes (lexAllG modes inp fuel n {} [] []).2.2 (0, []) :=
  lexAllG_abs hwf inp fuel (0, []) n {} [] [] (inRange_init hwf) (by simp [AbsAgrees]) rfl

/-- `AbsAgrees` spelled out at one return: the abstract stack obtained by folding the push/pop
actions of the rows that fired up to the return of token `t` is the `(mode, stack)` recorded
there. -/
theorem mode_stack_after_token {modes : Array Mode} (hwf : WFModes modes) (inp : Input)
    (fuel n : Nat) (pre post : List Ev) (t : Tok) (mo : Nat) (st : List Nat)
    (hlog : (lexAllG modes inp fuel n {} [] []).2.2 = pre ++ .ret t mo st :: post) :
    absRun modes (pre ++ [.ret t mo st]) (0, []) = (mo, st) := by
  have h := mode_stack_discipline hwf inp fuel n
  rw [hlog] at h
  exact absAgrees_at_ret modes pre post t mo st (0, []) h

/-- … and at one row that fired: it is a row of the abstract current mode. -/
theorem mode_of_fired_row {modes : Array Mode} (hwf : WFModes modes) (inp : Input)
    (fuel n : Nat) (pre post : List Ev) (mode : Nat) (state : Int) (res : Res) (a b : Nat)
    (hlog : (lexAllG modes inp fuel n {} [] []).2.2 = pre ++ .fire mode state res a b :: post) :
    (absRun modes pre (0, [])).1 = mode := by
  have h := mode_stack_discipline hwf inp fuel n
  rw [hlog] at h
  exact absAgrees_at_fire modes pre post mode state res a b (0, []) h

/-- `Reset()` (called after an ERROR token) resets mode and state but keeps the mode stack. -/
theorem reset_keeps_stack (sm : SM) :
    sm.reset.modeStack = sm.modeStack ∧ sm.reset.mode = none ∧ sm.reset.state = 0 := ⟨rfl, rfl, rfl⟩

/-- **`accum_prefix`.** When `PushRune` answers `_lexerTryAgain` (an action-less fragment matched)
at offset `l.offset` with token start `s`, the token start is unchanged, and the first segment
closed afterwards – the text of the next rule that emits (`tok`) or discards (`discarded`), or the
stretch of an ERROR token, or the text pending at EOF (known finding K5) – starts at `s` and ends
at or after `l.offset`: the fragment's text `[s, l.offset)` is a prefix of it. -/
theorem accum_prefix (modes : Array Mode) (inp : Input) (n : Nat) (start : Option Nat) (l : Lx)
    (g : List Ev) (sm' : SM) (t : Tok) (l' : Lx) (g' : List Ev)
    (hpr : pushRune modes l.sm (l.char inp) = (.tryAgain, sm'))
    (h : readTokenG modes inp (n + 1) start l g = some (some t, l', g')) :
    readToken modes inp (n + 1) start l
      = readToken modes inp n (some (start.getD l.offset)) { l with sm := sm' } ∧
    ∃ seg rest, segsOf g' = segsOf g ++ seg :: rest ∧ seg.start = start.getD l.offset ∧
      l.offset ≤ seg.stop := by
  refine ⟨readToken_tryAgain modes inp n start l sm' hpr, ?_⟩
  rw [readTokenG_tryAgain modes inp n start l sm' g hpr] at h
  obtain ⟨seg, rest, e1, e2, e3⟩ :=
    readTokenG_first_seg modes inp n _ _ _ _ h (by simp)
  exact ⟨seg, rest, by simpa using e1, e2, e3⟩

/-- **`@emit(T)` on a fragment emits `T` with the accumulated text**: when `PushRune` answers
accept, the token returned has the type the state machine recorded and the text from the token
start – which accumulating fragments left unchanged – to the current offset. -/
theorem emit_with_accumulated_text (modes : Array Mode) (inp : Input) (n : Nat) (s : Nat) (l : Lx)
    (sm' : SM) (hpr : pushRune modes l.sm (l.char inp) = (.accept, sm')) :
    readToken modes inp (n + 1) (some s) l
      = some (some (.tok sm'.token s l.offset), { l with sm := sm' }) :=
  readToken_accept modes inp n (some s) l sm' hpr

/-- **`@discard` drops it**: the text from the token start to the current offset is dropped and
the next token starts afresh at the current offset (`start = none`). -/
theorem discard_drops_text (modes : Array Mode) (inp : Input) (n : Nat) (start : Option Nat)
    (l : Lx) (g : List Ev) (sm' : SM)
    (hpr : pushRune modes l.sm (l.char inp) = (.discard, sm')) :
    readToken modes inp (n + 1) start l = readToken modes inp n none { l with sm := sm' } ∧
    readTokenG modes inp (n + 1) start l g
      = readTokenG modes inp n none { l with sm := sm' }
          (g ++ [fireEv start l .discard] ++ [.seg ⟨.discarded, start.getD l.offset, l.offset⟩]) :=
  ⟨readToken_discard modes inp n start l sm' hpr, readTokenG_discard modes inp n start l sm' g hpr⟩

/-- The text of `[s, o)` is a prefix of the text of `[s, e)` when `o ≤ e`. -/
theorem text_prefix {α : Type} (bytes : List α) (s o e : Nat) (h : o ≤ e) :
    ((bytes.drop s).take (o - s)) <+: ((bytes.drop s).take (e - s)) :=
  List.take_prefix_take_left (by omega)

/-! ## Non-vacuity -/

/-- The two-mode table of `Lox.Props.C11.exModes` (`@frag '"' @push_mode(S)`,
`STR = '"' @pop_mode` in mode `S`). -/
def exModes : Array Mode := #[
  #[4, 16, 24, 31, 11, 0, 3, 32, 32, 1, 34, 34, 2, 97, 97, 3, 7, 0, 1, 32, 32, 1, 4, 0, 6, 0, 0, 1,
    1, 5, 0, 4, 0, 0, 3, 2],
  #[3, 12, 17, 8, 0, 2, 34, 34, 2, 98, 122, 1, 4, 0, 0, 5, 0, 6, 0, 0, 2, 0, 3, 3]]

example : WFModes exModes := by decide

/-- Hypotheses of `all_effective_frag` on a real row: `@frag '"' @push_mode(S)` is stored at
index 27 of mode 0 as `(1,1) (5,0)`. -/
example : fragRulePairs [.pushMode 1] = some [(1, 1), (5, 0)] ∧
    readPairs exModes[0]! 2 27 = some [(1, 1), (5, 0)] := by decide

/-- `STR = '"' @pop_mode` is stored at index 20 of mode 1 as `(2,0) (3,3)`. -/
example : tokenRulePairs 3 [.popMode] = some [(2, 0), (3, 3)] ∧
    readPairs exModes[1]! 2 20 = some [(2, 0), (3, 3)] := by decide

/-- The hypothesis of `accum_prefix` on a real step: in mode 1, after `b` (state 1), any rune
makes the action-less fragment `[b-z]` answer try-again. -/
example : pushRune exModes { state := 1, mode := some 1, modeStack := [0] } 99
    = (.tryAgain, { state := 0, mode := some 1, modeStack := [0] }) := by decide

/-- The hypothesis of `matching_pop_restores`: between the push and the pop, fragments without
mode actions fired. -/
example : applyModeActs [(5, 0), (5, 0)] (1, 0 :: []) = some (1, 0 :: []) := by decide

/-- A written order with the terminal action first is accepted and stored with it last. -/
example : fragRulePairs [.discard, .popMode, .pushMode 2] = some [(2, 0), (1, 2), (4, 0)] := by decide

/-- The run of `exModes` on `a "b" "` : `A`, then `STR` with text `"b"` lexed in mode 1 and back
in mode 0, then a fragment pushes mode 1 and EOF is returned there with the `"` pending. -/
example : (lexAllG exModes #[(97, 1), (32, 1), (34, 1), (98, 1), (34, 1), (32, 1), (34, 1)] 20 20 {} [] []).2.2.filterMap
      (fun e => match e with | .ret t mo st => some (t, mo, st) | _ => none)
    = [(.tok 2 0 1, 0, []), (.tok 3 2 5, 0, []), (.eof 6, 1, [0])] := by decide

end Lox.Props.C07
