import Lox.Lex.GenSpecProofs
import Lox.Props.C19
/-! Property theorems for C19 (token constants: same numbers in all tables), END TO END for the
LEXER tables on the model of the generator for whole specifications: every accept action
`3, param` stored anywhere in `_lexerModes` carries the number that the `const` block of
`base.gen.go` gives to the token the winning rule emits – its own token for a token rule
(`TokenRule.RunPass`: `Terminal: r.Terminal.Index`), the token named by the written `@emit(T)` for
a fragment (`ActionEmit.GetAction`: `a.Terminal.Index`; `mode_table` writes
`uint32(action.Terminal)`). The numbers are those of `Lox/Dec/Terminals.lean` (`terminals`:
EOF = 0, ERROR = 1, then tokens and `@external` names in declaration order over all files;
`constBlock`, `constOf`), about which `Lox/Props/C19.lean` proves: one constant per terminal,
dense `0 … n-1`, injective.

Model: `Lox/Lex/GenSpecModel.lean` (`genModes`, `tokenNumber`, `GRule.pairs`). Helper lemmas:
`Lox/Lex/GenSpecProofs.lean`. -/
namespace Lox.Props.C19
open Lox.Lex Lox.Lex.Rt Lox.Lex.GenSpec
open Lox.Dec.Terminals

/-- **What a token rule stores**: `NAME = expr actions` (accepted: `r.pairs s = some ps`) stores, as
its last pair, accept of the number the const block gives to `NAME`. -/
theorem generator_token_rule_number (s : LSpec) (r : GRule) (name : String) (ps : List Pair)
    (hname : r.name = some name) (h : r.pairs s = some ps) :
    ∃ k : Nat, ps.getLast? = some ((3 : Int), (k : Int)) ∧ name ∈ specNames (toTermSpec s) ∧
      constOf (terminals (toTermSpec s)) name = some k ∧
      (name, k) ∈ constBlock (terminals (toTermSpec s)) := by
  obtain ⟨ws, _, hsh⟩ := pairs_shape h
  rcases hsh with ⟨n, t, hn, ht, _, hps⟩ | ⟨hnone, _, _⟩
  · rw [hname] at hn
    cases hn
    obtain ⟨h1, h2⟩ := tokenNumber_some ht
    exact ⟨t, by rw [hps]; simp, h1, h2, mem_constBlock.mpr (constOf_eq_some h2)⟩
  · rw [hname] at hnone; cases hnone

/-- **`generator_accept_numbers`.** `modes` is the lexer the generator emits for `s`. Every accept
pair `p` found in the row of any state `q` of any mode `mi` is the last pair of the row; the row
holds the pairs of a rule `r` of that mode; and `p = (3, k)` where `k` is the number of the token
`name` that `r` emits – `r`'s own token if `r` is a token rule, the token of its written
`@emit(name)` if `r` is a fragment:
* `name` is a declared token or `@external` name, `constOf (terminals …) name = some k`, the line
  `name int = k` is the only line of the const block with that name or that number;
* `2 ≤ k < number of terminals`: never EOF (0) or ERROR (1), always a constant of the block. -/
theorem generator_accept_numbers (s : LSpec) (modes : Array Mode) (hgen : genModes s = some modes)
    (hok : s.ok = true) (mi : Nat) (m : Mode) (hm : modes[mi]? = some m) (q : Nat)
    (hq : q < Rt.nStates m) (row : Rt.Row) (hrow : Rt.decodeRow m (q : Int) = some row) (p : Pair)
    (hp : p ∈ row.pairs) (h3 : p.1 = 3) :
    ∃ (name : String) (k : Nat), p = ((3 : Int), (k : Int)) ∧ row.pairs.getLast? = some p ∧
      name ∈ specNames (toTermSpec s) ∧
      constOf (terminals (toTermSpec s)) name = some k ∧
      (∀ j, (name, j) ∈ constBlock (terminals (toTermSpec s)) ↔ j = k) ∧
      (∀ other, (other, k) ∈ constBlock (terminals (toTermSpec s)) → other = name) ∧
      2 ≤ k ∧ k < (terminals (toTermSpec s)).length ∧
      ∃ mname r, (modeNames s)[mi]? = some mname ∧ r ∈ modeRules s mname ∧
        r.pairs s = some row.pairs ∧
        (r.name = some name ∨ (r.name = none ∧ LAct.emit name ∈ r.acts)) := by
  obtain ⟨hnames, hsz, hall⟩ := genModes_some hgen
  have hmi : mi < modes.size := by
    rcases Nat.lt_or_ge mi modes.size with h1 | h1
    · exact h1
    · rw [Array.getElem?_eq_none h1] at hm; cases hm
  obtain ⟨mname, rs, pss, m', hM⟩ := hall mi hmi
  have : m' = m := by
    have := hM.get; rw [hm] at this; exact (Option.some.inj this).symm
  subst this
  obtain ⟨row', hrow', hp'⟩ := hM.rows_rule hok q hq
  rw [hrow] at hrow'
  cases hrow'
  rcases hp' with h0 | ⟨r, hr, hrp⟩
  · rw [h0] at hp; cases hp
  · obtain ⟨name, k, e1, e2, e3, e4⟩ := pairs_accept hrp hp h3
    obtain ⟨hmem, hconst⟩ := tokenNumber_some e3
    obtain ⟨_, hnodup, hvalid⟩ := accepted_unique (toTermSpec s) (namesOK_createNames hnames)
    have hterm : name ∈ terminals (toTermSpec s) := by simp [terminals, hmem]
    obtain ⟨k', hk', hlt, honly⟩ := (one_per_terminal _ hnodup).1 name hterm
    rw [hconst] at hk'
    cases hk'
    have hget := constOf_eq_some hconst
    refine ⟨name, k, e1, e2, hmem, hconst, honly, ?_, ?_, hlt, mname, r, hM.name_eq, ?_, hrp, e4⟩
    · intro other ho
      exact number_determines_name _ ho ((honly k).2 rfl)
    · obtain ⟨hne1, hne2⟩ := valid_ne_reserved (hvalid name hmem)
      rcases Nat.lt_or_ge k 2 with hk2 | hk2
      · exfalso
        have : k = 0 ∨ k = 1 := by omega
        rcases this with rfl | rfl
        · simp only [terminals, List.getElem?_cons_zero, Option.some.injEq] at hget
          exact hne1 hget.symm
        · simp only [terminals, List.getElem?_cons_succ, List.getElem?_cons_zero,
            Option.some.injEq] at hget
          exact hne2 hget.symm
      · exact hk2
    · rw [← hM.rules_eq]; exact hr

/-- The same number in the lexer tables and in the const block, for two rules emitting one token:
a fragment with `@emit(T)` and the token rule `T` store the same accept pair. -/
theorem generator_emit_same_number (s : LSpec) (r f : GRule) (T : String) (ps fs : List Pair)
    (hr : r.name = some T) (hf : f.name = none) (hT : LAct.emit T ∈ f.acts)
    (h1 : r.pairs s = some ps) (h2 : f.pairs s = some fs) :
    fs.getLast? = ps.getLast? := by
  obtain ⟨k, hk, _, hc, _⟩ := generator_token_rule_number s r T ps hr h1
  obtain ⟨ws, hw, hsh⟩ := pairs_shape h2
  rcases hsh with ⟨n, t, hn, _, _, _⟩ | ⟨_, hfrag, hps⟩
  · rw [hf] at hn; cases hn
  · obtain ⟨hlen, hget⟩ := map_eq_map_some (allSome_eq_some hw)
    obtain ⟨i, hi, hai⟩ := List.getElem_of_mem hT
    have hres := hget i hi (by omega)
    rw [hai] at hres
    simp only [resolveAct, Option.map_eq_some_iff] at hres
    obtain ⟨k', hk', hwi⟩ := hres
    have hk'' := (tokenNumber_some hk').2
    rw [hc] at hk''
    cases hk''
    have hmem : WAction.emit k ∈ ws := by rw [hwi]; exact List.getElem_mem _
    rw [hk, hps, writtenTerminal_of_mem hfrag hmem rfl]
    simp [WAction.pair]

/-! ## Non-vacuity -/

/-- Two files; `$default` and a mode; a fragment that emits an `@external` token and one that
emits a token declared later. `A` is terminal 2, `STR` 3, `X` 4, `B` 5. -/
def exSpec : LSpec := [
  [.rule (.token "A" (.lit [97]) []),
   .mode "S" [.token "STR" (.lit [34]) [.popMode], .frag (.lit [120]) [.emit "X"]],
   .rule (.external ["X"])],
  [.rule (.frag (.lit [34]) [.emit "B", .pushMode "S"]), .rule (.token "B" (.lit [98]) []),
   .other (some "start")]]

/-- The generator accepts it, `LSpec.ok` holds, and the numbers are as said. -/
example : (genModes exSpec).isSome = true ∧ exSpec.ok = true ∧
    constBlock (terminals (toTermSpec exSpec)) =
      [("EOF", 0), ("ERROR", 1), ("A", 2), ("STR", 3), ("X", 4), ("B", 5)] := by decide +kernel

/-- The stored pairs of its rules: `@frag '"' @emit(B) @push_mode(S)` stores push of mode 1 (`S`),
then accept 5 (`B`, declared after the fragment); `@frag 'x' @emit(X)` accept 4. -/
example :
    (modeRules exSpec "$default").map (GRule.pairs exSpec) =
      [some [(3, 2)], some [(1, 1), (3, 5)], some [(3, 5)]] ∧
    (modeRules exSpec "S").map (GRule.pairs exSpec) = [some [(2, 0), (3, 3)], some [(3, 4)]] := by
  decide +kernel

/-- What the model of the generator emits for it. -/
def exSpecModes : Array Mode := #[
  #[4, 16, 21, 28, 11, 0, 3, 34, 34, 2, 97, 97, 1, 98, 98, 3, 4, 0, 0, 3, 2, 6, 0, 0, 1, 1, 3, 5,
    4, 0, 0, 3, 5],
  #[3, 12, 19, 8, 0, 2, 34, 34, 1, 120, 120, 2, 6, 0, 0, 2, 0, 3, 3, 4, 0, 0, 3, 4]]

theorem exSpec_genModes : genModes exSpec = some exSpecModes := by decide +kernel

/-- The hypotheses of `generator_accept_numbers` on an instance: state 2 of `$default` (after `"`)
stores push of mode 1 and accept 5; `(3, 5)` is an accept pair of that row. Its conclusion then says
`5` is the constant of `B`, the token the fragment emits. -/
example : exSpecModes[0]? = some exSpecModes[0] ∧ 2 < Rt.nStates exSpecModes[0] ∧
    Rt.decodeRow exSpecModes[0] ((2 : Nat) : Int) = some ⟨0, [], [(1, 1), (3, 5)]⟩ ∧
    ((3 : Int), (5 : Int)) ∈ [((1 : Int), (1 : Int)), (3, 5)] := by decide +kernel

/-- `generator_accept_numbers` used on that instance: the name is determined by the number. -/
example : ∃ name, constOf (terminals (toTermSpec exSpec)) name = some 5 ∧
    (∃ r ∈ modeRules exSpec "$default", r.name = some name ∨
      (r.name = none ∧ LAct.emit name ∈ r.acts)) := by
  obtain ⟨name, k, hp, _, _, hc, _, _, _, _, mname, r, hmn, hr, _, hrn⟩ :=
    generator_accept_numbers exSpec exSpecModes exSpec_genModes (by decide +kernel) 0
      exSpecModes[0] (by decide) 2 (by decide +kernel) ⟨0, [], [(1, 1), (3, 5)]⟩
      (by decide +kernel) (3, 5) (by decide) rfl
  have hk : k = 5 := by
    have := congrArg Prod.snd hp
    simp only at this
    omega
  subst hk
  have hm : mname = "$default" := by
    have h0 : (modeNames exSpec)[0]? = some "$default" := by decide +kernel
    rw [h0] at hmn
    exact (Option.some.inj hmn).symm
  subst hm
  exact ⟨name, hc, r, hr, hrn⟩

end Lox.Props.C19
