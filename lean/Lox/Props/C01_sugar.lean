import Lox.Props.C01
import Lox.LR.DesugarProofs
/-! # C01, sugar part — helper rules generate exactly the documented languages

Specification (read these): `Lox.LR.SDer` (Lox/LR/SugarSpec.lean) – the documented reading of
`x?`, `x*`, `x*!`, `x+`, `@list(x,s)`, `@list(x,s)?` directly on sugar grammars, without helper rules;
`Lox.LR.Der` – derivations of the plain grammar. Model: `Lox.LR.desugar` (Lox/LR/Desugar.lean) – the
grammar the front end builds, with the real numbering; tied to `internal/ast` by the `desugar`
correspondence family (harness/drv/ops_desugar.go).

Hypothesis `SG.wf`: there is a start rule, all references are defined, and token names, rule
names and `ERROR` are pairwise different. The front end enforces all of it (undefined / redefined
names are errors; `ERROR` and `EOF` are reserved for tokens and – since the repair of defect D23 –
for parser rules). The last part is necessary: a parser rule called `ERROR` shares the helper
`ERROR?` (`ERROR*`, …) with `@error?`, and then the statement fails (`names_needed` below; the
witness is corpus/C01/D23_error_rule_name.json and part of the `desugar` family). -/
namespace Lox.Props.C01
open Lox.LR Lox.LR.Abs

export Lox.LR (SDer)

theorem startSym_desugar (SG : SGrammar) : startSym (desugar SG).1 = 1 := by
  simp [startSym, desugar, SGrammar.prodList]

/-- **The desugared grammar generates exactly the documented language**: a token string is derived
from the start rule under the documented reading of the sugar iff it has a derivation tree in the
grammar the front end hands to the LALR construction. -/
theorem sugar_lang {SG : SGrammar} (hw : SG.wf = true) (w : List Nat) :
    SDer SG [.atom (.rule 0)] w ↔
      ∃ t, Der (desugar SG).1 [.n (startSym (desugar SG).1)] w [t] := by
  have hW := (SGrammar.wf_iff SG).1 hw
  rw [startSym_desugar]
  constructor
  · intro h
    obtain ⟨trees, hd⟩ := SGrammar.sder_to_der hW h
      (fun t ht k hk => by simp at ht; subst ht; simp [STerm.key] at hk)
    have hl := hd.length_eq
    match trees, hl with
    | [t], _ => exact ⟨t, hd⟩
  · rintro ⟨t, hd⟩
    have h := SGrammar.seqLang_one.1 (SGrammar.der_to_seqLang hW hd)
    have hpos : 0 < SG.rules.length := List.length_pos_iff.2 hW.ne
    simp only [SGrammar.SymLang, SGrammar.nontermTerm_user hpos] at h
    obtain ⟨t', e, hs⟩ := h
    cases e
    exact hs

/-- The same for every term sequence whose sugar terms occur in the grammar (e.g. any production
body): what it derives under the documented reading is what its desugared form derives. -/
theorem sugar_lang_seq {SG : SGrammar} (hw : SG.wf = true) {ts : List STerm}
    (hts : ∀ t ∈ ts, t ∈ SG.allTerms) (w : List Nat) :
    SDer SG ts w ↔ ∃ trees, Der (desugar SG).1 (ts.map SG.symOf) w trees := by
  have hW := (SGrammar.wf_iff SG).1 hw
  constructor
  · intro h
    exact SGrammar.sder_to_der hW h (fun t ht k hk => SGrammar.key_mem hW (hts t ht) hk)
  · rintro ⟨trees, hd⟩
    exact SGrammar.seqLang_terms hW hts (SGrammar.der_to_seqLang hW hd)

variable {nTerms nRules : Nat} {T : Tables} {cert : Array (List Item)}

/-- **Composition with the validator theorem**: when `lr.validate` answered `ok` for the tables
emitted for the desugared grammar, the table-driven machine accepts exactly the token strings of
the DOCUMENTED language of the sugar grammar. -/
theorem sugar_tables_exact {SG : SGrammar} (hw : SG.wf = true)
    (hc : check (desugar SG).1 nTerms nRules T cert = .ok ()) {w : List Nat} (hw0 : eof ∉ w) :
    (∃ fuel t lg, run (desugar SG).1 (autoOf T cert) fuel (init w) = .acc t lg) ↔
      SDer SG [.atom (.rule 0)] w := by
  rw [sugar_lang hw]
  constructor
  · rintro ⟨fuel, t, lg, h⟩
    exact ⟨t, (tables_exact hc hw0 t).1 ⟨fuel, lg, h⟩⟩
  · rintro ⟨t, h⟩
    obtain ⟨fuel, lg, h'⟩ := (tables_exact hc hw0 t).2 h
    exact ⟨fuel, t, lg, h'⟩

/-! ### Non-vacuity -/

/-- `s = TA* e @list(e, TA)? ;  e = TB | TB TB?` -/
def exSG : SGrammar :=
  ⟨["TA", "TB"],
   [⟨"s", [⟨[.star (.tok 0), .atom (.rule 1), .listOpt (.rule 1) (.tok 0)]⟩]⟩,
    ⟨"e", [⟨[.atom (.tok 1)]⟩, ⟨[.atom (.tok 1), .opt (.tok 1)]⟩]⟩]⟩

example : exSG.wf = true := by decide

/-- The numbering: rules `S' s e TA* TA+ @list(e,TA)? @list(e,TA) TB?`; `TA*` creates `TA+` right
after itself, `@list(..)?` creates `@list(..)`, the user productions come first. -/
example : (desugar exSG).1.prods =
    #[⟨0, [.n 1]⟩, ⟨1, [.n 3, .n 2, .n 5]⟩, ⟨2, [.t 3]⟩, ⟨2, [.t 3, .n 7]⟩,
      ⟨3, [.n 4]⟩, ⟨3, []⟩, ⟨4, [.n 4, .t 2]⟩, ⟨4, [.t 2]⟩,
      ⟨5, [.n 6]⟩, ⟨5, []⟩, ⟨6, [.n 6, .t 2, .n 2]⟩, ⟨6, [.n 2]⟩, ⟨7, [.t 3]⟩, ⟨7, []⟩] := by decide

example : (desugar exSG).2.1 = #[11, 0, 0, 0, 9, 10, 2, 1, 7, 12, 6, 5, 7, 8] := by decide

example : (desugar exSG).2.2 =
    #["S'", "s", "e", "TA*", "TA+", "@list(e,TA)?", "@list(e,TA)", "TB?"] := by decide

/-- `TA TA TB TB TA TB` is in the documented language: `TA*` takes the two `TA`, `e = TB`, and the
optional list is `e TA e` with `e = TB` twice. -/
theorem ex_member : SDer exSG [.atom (.rule 0)] [2, 2, 3, 3, 2, 3] := by
  have hTB : SDer exSG [.atom (.tok 1)] [3] := .tok 1
  have hTA : SDer exSG [.atom (.tok 0)] [2] := .tok 0
  have he : SDer exSG [.atom (.rule 1)] [3] :=
    .rule (A := 1) (r := ⟨"e", _⟩) (p := ⟨[.atom (.tok 1)]⟩) rfl (by simp) hTB
  have hstar : SDer exSG [.star (.tok 0)] [2, 2] :=
    SDer.star (x := .tok 0) [[2], [2]] (by simp; exact hTA)
  have hlist : SDer exSG [.list (.rule 1) (.tok 0)] [3, 2, 3] :=
    SDer.list (x := .rule 1) (s := .tok 0) [3] [([2], [3])] he (by simp; exact hTA) (by simp; exact he)
  have hopt : SDer exSG [.listOpt (.rule 1) (.tok 0)] [3, 2, 3] := .listOptSome hlist
  exact .rule (A := 0) (r := ⟨"s", _⟩) (p := ⟨[.star (.tok 0), .atom (.rule 1), .listOpt (.rule 1) (.tok 0)]⟩)
    rfl (by simp) (.cons hstar (.cons he hopt))

/-- … hence it has a derivation tree in the desugared grammar (and, for validated tables, the
generated parser accepts it). -/
example : ∃ t, Der (desugar exSG).1 [.n 1] [2, 2, 3, 3, 2, 3] [t] := by
  have := (sugar_lang (SG := exSG) (by decide) _).1 ex_member
  rwa [startSym_desugar] at this

/-- **The name hypothesis is necessary** (defect D23 before its repair). In
`r0 = TB ERROR? | TA @error? ; ERROR = TA` the helper `ERROR?` is created for the RULE `ERROR` and
then found again, by name, for `@error?`: the desugared grammar derives `TA TA`, the documented
reading does not. -/
def badSG : SGrammar :=
  ⟨["TA", "TB"],
   [⟨"r0", [⟨[.atom (.tok 1), .opt (.rule 1)]⟩, ⟨[.atom (.tok 0), .opt .err]⟩]⟩,
    ⟨"ERROR", [⟨[.atom (.tok 0)]⟩]⟩]⟩

theorem names_needed :
    badSG.wf = false ∧
    (∃ t, Der (desugar badSG).1 [.n (startSym (desugar badSG).1)] [2, 2] [t]) ∧
    ¬ SDer badSG [.atom (.rule 0)] [2, 2] := by
  refine ⟨by decide, ?_, ?_⟩
  · rw [startSym_desugar]
    have h3 : Der (desugar badSG).1 [.n 2] [2] [.node 3 [.leaf 2]] :=
      Der.single (q := 3) (pr := ⟨2, [.t 2]⟩) (by decide) (Der.term Der.nil)
    have h4 := Der.single (q := 4) (pr := ⟨3, [.n 2]⟩) (by decide) h3
    exact ⟨_, Der.single (q := 2) (pr := ⟨1, [.t 2, .n 3]⟩) (by decide) (Der.term h4)⟩
  · intro h
    obtain ⟨r, p, hr, hp, hd⟩ := h.rule_inv
    simp only [badSG, List.getElem?_cons_zero, Option.some.injEq] at hr
    subst hr
    simp only [List.mem_cons, List.not_mem_nil, or_false] at hp
    rcases hp with rfl | rfl
    · obtain ⟨w1, w2, e, h1, _⟩ := hd.cons_inv
      rw [h1.tok_inv] at e
      simp at e
    · obtain ⟨w1, w2, e, h1, h2⟩ := hd.cons_inv
      rw [h1.tok_inv] at e
      simp at e
      subst e
      rcases h2.opt_inv with e | h3
      · simp at e
      · have := h3.err_inv
        simp at this

end Lox.Props.C01
