import Lox.Lex.BisimProofs
import Lox.Lex.TableProofs
import Lox.Props.C02
/-! Property theorems for C10 (emitted tables faithful), lexer part: the emitted `_lexerModeN`
arrays, read back by the documented row format (`Lox.Lex.rowAt`), are safe to index, have sorted
and disjoint range rows, drive `PushRune` exactly as the decoded automaton, and (given a
successful `bisim` run) accept / reject / label every string as the rules do. -/
namespace Lox.Props.C10
open Lox.Lex

/-- `rowAt` reads the row of state `q` with the addressing of `PushRune`: offset `i = tbl[q]`,
`tbl[i] = len = 2 + 3·gotoN + 2·actions`, `tbl[i+1] = flags`, `tbl[i+2] = gotoN`, then the
triples, then the pairs, all inside the array. -/
theorem decode_layout {tbl : Mode} {q : Nat} {row : Row} (h : rowAt tbl q = some row) :
    ∃ i g a : Nat, tbl[q]? = some (i : Int) ∧ tbl[i]? = some ((2 + 3 * g + 2 * a : Nat) : Int) ∧
      tbl[i + 1]? = some row.flags ∧ tbl[i + 2]? = some (g : Int) ∧
      i + 3 + 3 * g + 2 * a ≤ tbl.size ∧
      row.trs = triplesAt tbl (i + 3) g ∧ row.acts = pairsAt tbl (i + 3 + 3 * g) a := by
  obtain ⟨i, g, a, L⟩ := rowAt_layout h
  exact ⟨i, g, a, L.off, L.count, L.flags, L.gotoN, L.fit, L.trs, L.acts⟩

/-- In a well-formed table every state has a row; its ranges are sorted by `lo`, pairwise
disjoint, non-empty, inside `0..0x10FFFF`, and every target is a state. -/
theorem rows_sorted_disjoint {tbl : Mode} (h : wfTable tbl = true) {q : Nat}
    (hq : q < nStates tbl) :
    ∃ row, rowAt tbl q = some row ∧
      List.Pairwise (fun a b : Triple => a.2.1 < b.1) row.trs ∧
      ∀ t ∈ row.trs, 0 ≤ t.1 ∧ t.1 ≤ t.2.1 ∧ t.2.1 ≤ maxRune ∧ 0 ≤ t.2.2 ∧ t.2.2 < nStates tbl := by
  obtain ⟨row, hrow, hok⟩ := wfTable_row h hq
  obtain ⟨_, hp, hall⟩ := rowOK_spec hok
  exact ⟨row, hrow, hp, hall⟩

/-- Transitions of a well-formed table stay inside the table and exist only on `0..0x10FFFF`
(never on `-1`, end of input). -/
theorem step_in_range {tbl : Mode} (h : wfTable tbl = true) {q : Nat} (hq : q < nStates tbl)
    {c : Int} {q' : Nat} (hstep : tableStep tbl q c = some q') :
    q' < nStates tbl ∧ 0 ≤ c ∧ c ≤ maxRune := by
  obtain ⟨h1, h2, h3, _⟩ := tableStep_spec h hq hstep
  exact ⟨h1, h2, h3⟩

/-- **No index out of range.** With all mode tables well formed (`wfModes`) and the state
machine pointing into them (`SMok`; true of the initial state machine, see `smok_init`),
`PushRune` on any rune reads only inside the arrays (the model's `.oob` = a Go index panic does not
happen) and leaves the state machine pointing into the tables: directly after any result other
than `_lexerError`, and after `Reset()` in any case. -/
theorem decode_wf (modes : Array Mode) (sm : SM) (c : Int) (hwf : wfModes modes = true)
    (hsm : SMok modes sm) :
    (pushRune modes sm c).1 ≠ .oob ∧
    ((pushRune modes sm c).1 ≠ .error → SMok modes (pushRune modes sm c).2) ∧
    SMok modes (pushRune modes sm c).2.reset :=
  pushRune_no_oob modes sm c hwf hsm

/-- The initial state machine points into well-formed tables. -/
theorem smok_init (modes : Array Mode) (hwf : wfModes modes = true) : SMok modes {} := by
  obtain ⟨hsz, hall⟩ := wfModes_spec hwf
  obtain ⟨m0, hm0⟩ := exists_getElem? (modes := modes) (i := 0) (by omega)
  exact ⟨(by intro x hx; cases hx), m0, hm0, 0, rfl, wfTable_nStates (hall 0 m0 hm0).1⟩

/-- `PushRune` over the raw array is the decoded automaton (see `C02.pushRune_consume`). -/
theorem pushRune_decoded (modes : Array Mode) (sm : SM) (m : Mode) (q : Nat) (c : Int)
    (hwf : wfTable m = true) (hmode : modes[sm.mode.getD 0]? = some m)
    (hstate : sm.state = (q : Int)) (hq : q < nStates m) :
    pushRune modes sm c =
      match tableStep m q c with
      | some q' => (.consume, { sm with mode := some (sm.mode.getD 0), state := (q' : Int) })
      | none => runPairs modes c (rowPairs m q) { sm with mode := some (sm.mode.getD 0) } :=
  pushRune_step modes sm m q c hwf hmode hstate hq

/-- **Faithfulness.** A table that passes `bisim` against the rules of its mode is well formed
and, decoded by the row format, agrees with the rules on every string. -/
theorem table_faithful {rules : List Rule} {tbl : Mode} (h : bisim rules tbl = .ok ()) :
    wfTable tbl = true ∧ ∀ s : List Int, tableRun tbl s = specRun rules s :=
  ⟨(Lox.Props.C02.bisim_checked h).1, Lox.Props.C02.bisim_sound h⟩

/-! ### Non-vacuity -/

example : wfModes #[Lox.Props.C02.exTbl] = true := by decide

/-- A two-mode lexer with a push and a pop (hand-made): hypotheses of `decode_wf`. -/
example : wfModes #[#[2, 10, 7, 0, 1, 97, 97, 1, 1, 1, 4, 0, 0, 3, 2],
                    #[2, 8, 5, 0, 1, 98, 98, 1, 6, 0, 0, 2, 0, 3, 3]] = true := by decide

end Lox.Props.C10
