import Lox.Dec.ResolveProofs
/-!
# C04 – decision logic of conflict reporting

Property (verbatim): "lox refuses a grammar with 'grammar has conflicts' if and only if its LALR(1)
automaton has a state and lookahead with more than one action left after the documented precedence
rule is applied; it never silently picks an action and never rejects an LALR(1) grammar. Precedence
qualifiers settle only shift/reduce conflicts among productions of one rule that all carry explicit
qualifiers; they never hide reduce/reduce conflicts or conflicts spanning rules. For accepted
grammars the emitted action and goto tables are the LALR(1) tables."

This file holds the part that is about `resolveConflicts` (`/repo/internal/parsergen/lr1/construct.go`),
proved for **all** production tables `info` and **all** action cells / tables; the model is
`Lox.Dec.resolveOne` / `Lox.Dec.hasConflicts` (`Lox/Dec/Resolve.lean`), tied to the Go code by the
correspondence family `resolve`. That the cells are the LALR(1) cells is the other half of C04
(validator + certificate) and is not stated here.
-/
namespace Lox.Props.C04
open Lox.Dec

/-- **resolved ⇔ one-rule S/R pair with explicit precedences** (both directions): the precedence
rule settles exactly the cells described by `SRPairOfOneRule`. -/
theorem resolved_iff (info : Nat → ProdInfo) (acts : List Action) :
    (resolveOne info acts).2 = true ↔ SRPairOfOneRule info acts := by
  constructor
  · intro h
    by_cases hsr : ∃ t ps rp, acts = [.shift t ps, .reduce rp] ∨ acts = [.reduce rp, .shift t ps]
    · obtain ⟨t, ps, rp, hacts⟩ := hsr
      have hsome : (decideSR info ps rp).isSome = true := by
        rcases hacts with rfl | rfl
        · rw [resolveOne_sr] at h
          cases hd : decideSR info ps rp with
          | none => rw [hd] at h; exact absurd h (by simp)
          | some k => rfl
        · rw [resolveOne_rs] at h
          cases hd : decideSR info ps rp with
          | none => rw [hd] at h; exact absurd h (by simp)
          | some k => rfl
      exact ⟨t, ps, rp, hacts, (decideSR_isSome_iff info ps rp).1 hsome⟩
    · rw [resolveOne_other info acts] at h
      · exact absurd h (by simp)
      · intro t ps rp
        exact ⟨fun e => hsr ⟨t, ps, rp, Or.inl e⟩, fun e => hsr ⟨t, ps, rp, Or.inr e⟩⟩
  · rintro ⟨t, ps, rp, hacts, hcond⟩
    have hsome := (decideSR_isSome_iff info ps rp).2 hcond
    obtain ⟨k, hk⟩ := Option.isSome_iff_exists.1 hsome
    rcases hacts with rfl | rfl
    · rw [resolveOne_sr, hk]
    · rw [resolveOne_rs, hk]

/-- **resolve_only_sr.** An action is removed from a cell only if the cell is exactly one shift and
one reduce, every contributing shift production and the reduced production belong to one rule, all
contributing shift productions share one precedence, and that precedence and the precedence of the
reduced production are explicit (`> 0`). -/
theorem resolve_only_sr (info : Nat → ProdInfo) (acts : List Action)
    (h : (resolveOne info acts).1 ≠ acts) : SRPairOfOneRule info acts := by
  apply (resolved_iff info acts).1
  cases hb : (resolveOne info acts).2 with
  | true => rfl
  | false => exact absurd (unresolved_unchanged info acts hb) h

/-- The hypothesis of `resolve_only_sr` is satisfiable: `expr '+' expr . , '*'` with
`+ @left(1)` (production 0) and `* @left(2)` (production 1, three contributing items). -/
example :
    let info : Nat → ProdInfo := fun p => if p = 0 then ⟨0, 1, false⟩ else ⟨0, 2, false⟩
    (resolveOne info [.shift 7 [1, 1, 1], .reduce 0]).1 ≠ [.shift 7 [1, 1, 1], .reduce 0] := by
  decide

/-- **resolve_never_rr.** A cell that is not a two-element shift/reduce cell – in particular any
cell whose length is not 2, any cell without a shift (two reduces; reduce and accept), any cell
containing an accept, any cell without a reduce – is never changed and never counts as resolved. -/
theorem resolve_never_rr (info : Nat → ProdInfo) (acts : List Action)
    (h : acts.length ≠ 2 ∨ (∀ a ∈ acts, ∀ t ps, a ≠ .shift t ps) ∨ Action.accept ∈ acts ∨
      (∀ a ∈ acts, ∀ p, a ≠ .reduce p)) :
    resolveOne info acts = (acts, false) := by
  apply resolveOne_other
  intro t ps rp
  constructor <;> rintro rfl
  · rcases h with h | h | h | h
    · exact h rfl
    · exact h (.shift t ps) (by simp) t ps rfl
    · simp at h
    · exact h (.reduce rp) (by simp) rp rfl
  · rcases h with h | h | h | h
    · exact h rfl
    · exact h (.shift t ps) (by simp) t ps rfl
    · simp at h
    · exact h (.reduce rp) (by simp) rp rfl

/-- Non-vacuity of `resolve_never_rr`: a reduce/reduce cell, a reduce/accept cell and a three-action
cell, all with qualified productions of one rule, stay as they are. -/
example :
    let info : Nat → ProdInfo := fun p => ⟨0, p + 1, false⟩
    resolveOne info [.reduce 0, .reduce 1] = ([.reduce 0, .reduce 1], false) ∧
      resolveOne info [.reduce 0, .accept] = ([.reduce 0, .accept], false) ∧
      resolveOne info [.shift 1 [0], .reduce 1, .reduce 2] = ([.shift 1 [0], .reduce 1, .reduce 2], false) := by
  decide

/-- Neither do qualifiers hide a conflict that spans rules, or one with an unqualified production
among the participants, or one whose contributing productions carry different precedences:
everything outside `SRPairOfOneRule` is left unchanged and unresolved. -/
theorem resolve_never_other (info : Nat → ProdInfo) (acts : List Action)
    (h : ¬ SRPairOfOneRule info acts) : resolveOne info acts = (acts, false) := by
  have hb : (resolveOne info acts).2 = false := by
    cases hb : (resolveOne info acts).2 with
    | false => rfl
    | true => exact absurd ((resolved_iff info acts).1 hb) h
  exact Prod.ext (unresolved_unchanged info acts hb) hb

/-- … and such a cell makes `resolveConflicts` set `HasConflicts`, unless it holds a single action. -/
theorem unresolvable_is_conflict (info : Nat → ProdInfo) (table : List (List Action))
    (acts : List Action) (hmem : acts ∈ table) (hlen : acts.length ≠ 1)
    (h : ¬ SRPairOfOneRule info acts) : hasConflicts info table = true := by
  unfold hasConflicts
  rw [List.any_eq_true]
  refine ⟨acts, hmem, ?_⟩
  rw [resolve_never_other info acts h]
  simp [hlen]

/-- Non-vacuity of `unresolvable_is_conflict`: a reduce/reduce cell with qualified productions of
one rule. -/
example :
    let info : Nat → ProdInfo := fun _ => ⟨0, 1, false⟩
    hasConflicts info [[.reduce 0], [.reduce 0, .reduce 1]] = true ∧
      ¬ SRPairOfOneRule info [.reduce 0, .reduce 1] := by
  refine ⟨by decide, ?_⟩
  rintro ⟨t, ps, rp, h | h, -⟩ <;> simp at h

/-- **resolve_keeps_one.** When a cell is resolved, exactly one of its two actions remains, and it
is one of the original two. -/
theorem resolve_keeps_one (info : Nat → ProdInfo) (acts : List Action)
    (h : (resolveOne info acts).2 = true) :
    ∃ a b, acts = [a, b] ∧
      ((resolveOne info acts).1 = [a] ∨ (resolveOne info acts).1 = [b]) := by
  obtain ⟨t, ps, rp, hacts, -⟩ := (resolved_iff info acts).1 h
  rcases hacts with rfl | rfl
  · refine ⟨_, _, rfl, ?_⟩
    rw [resolveOne_sr] at h ⊢
    cases hd : decideSR info ps rp with
    | none => rw [hd] at h; exact absurd h (by simp)
    | some k => cases k <;> simp [keepOf]
  · refine ⟨_, _, rfl, ?_⟩
    rw [resolveOne_rs] at h ⊢
    cases hd : decideSR info ps rp with
    | none => rw [hd] at h; exact absurd h (by simp)
    | some k => cases k <;> simp [keepOf]

/-- Non-vacuity of `resolve_keeps_one` (and of `resolved_iff`): reduce listed first. -/
example :
    let info : Nat → ProdInfo := fun p => if p = 0 then ⟨0, 1, false⟩ else ⟨0, 2, true⟩
    resolveOne info [.reduce 1, .shift 3 [0, 0]] = ([.reduce 1], true) := by
  decide

/-- Length of a cell after `resolveOne`: 1 if resolved, unchanged otherwise. -/
theorem resolveOne_length (info : Nat → ProdInfo) (acts : List Action) :
    (resolveOne info acts).1.length = if (resolveOne info acts).2 then 1 else acts.length := by
  cases hb : (resolveOne info acts).2 with
  | false => simp [unresolved_unchanged info acts hb]
  | true =>
    obtain ⟨a, b, -, h | h⟩ := resolve_keeps_one info acts hb <;> simp [h]

/-- **conflict_iff**, unconditional form: `HasConflicts` is set exactly when some cell does not
end up with exactly one action after the precedence rule. -/
theorem conflict_iff_ne_one (info : Nat → ProdInfo) (table : List (List Action)) :
    hasConflicts info table = true ↔ ∃ cell ∈ table, (resolveOne info cell).1.length ≠ 1 := by
  unfold hasConflicts
  rw [List.any_eq_true]
  constructor
  · rintro ⟨cell, hmem, h⟩
    refine ⟨cell, hmem, ?_⟩
    rw [resolveOne_length]
    simp only [Bool.and_eq_true, bne_iff_ne, ne_eq, Bool.not_eq_eq_eq_not,
      Bool.not_true] at h
    simp [h.2, h.1]
  · rintro ⟨cell, hmem, h⟩
    refine ⟨cell, hmem, ?_⟩
    rw [resolveOne_length] at h
    cases hb : (resolveOne info cell).2 with
    | true => simp [hb] at h
    | false => simpa [hb] using h

/-- **conflict_iff.** The verdict is exactly "some cell keeps more than one action after the
precedence rule". Cells are non-empty: `createActions` only creates a cell when it adds an action,
and `resolveConflicts` asserts it (`assert.True(!actions.Empty())`; `Lox.Dec.checkTable` models the
assertion as a panic). Without that hypothesis use `conflict_iff_ne_one`. -/
theorem conflict_iff (info : Nat → ProdInfo) (table : List (List Action))
    (hne : ∀ cell ∈ table, cell ≠ []) :
    hasConflicts info table = true ↔ ∃ cell ∈ table, 1 < (resolveOne info cell).1.length := by
  rw [conflict_iff_ne_one]
  constructor
  · rintro ⟨cell, hmem, h⟩
    refine ⟨cell, hmem, ?_⟩
    have hpos : 0 < (resolveOne info cell).1.length := by
      rw [resolveOne_length]
      split
      · exact Nat.one_pos
      · exact List.length_pos_iff.2 (hne cell hmem)
    omega
  · rintro ⟨cell, hmem, h⟩
    exact ⟨cell, hmem, by omega⟩

/-- Non-vacuity of `conflict_iff`: a table without empty cells on which both sides are true. -/
example :
    let info : Nat → ProdInfo := fun p => if p = 0 then ⟨0, 1, false⟩ else ⟨1, 1, false⟩
    let table : List (List Action) := [[.shift 1 [0]], [.shift 2 [0, 0], .reduce 1]]
    (∀ cell ∈ table, cell ≠ []) ∧ hasConflicts info table = true := by
  decide

/-- Accepted tables are deterministic: without conflicts every cell holds exactly one action after
`resolveConflicts` (`resolveTable` maps `resolveCell` over the cells), and that action was in the
cell before (nothing is invented). -/
theorem accepted_table_deterministic (info : Nat → ProdInfo) (table : List (List Action))
    (h : hasConflicts info table = false) :
    ∀ cell ∈ table, ∃ a, (resolveCell info cell).1 = [a] ∧ a ∈ cell := by
  intro cell hmem
  have hnot : ¬ ∃ cell ∈ table, (resolveOne info cell).1.length ≠ 1 := by
    rw [← conflict_iff_ne_one, h]; simp
  have hlen : (resolveOne info cell).1.length = 1 := by
    by_cases hl : (resolveOne info cell).1.length = 1
    · exact hl
    · exact absurd ⟨cell, hmem, hl⟩ hnot
  unfold resolveCell
  by_cases h1 : cell.length = 1
  · obtain ⟨a, rfl⟩ := List.length_eq_one_iff.1 h1
    exact ⟨a, by simp, by simp⟩
  · have hb : (cell.length == 1) = false := by simpa using h1
    simp only [hb, Bool.false_eq_true, if_false]
    obtain ⟨a, ha⟩ := List.length_eq_one_iff.1 hlen
    refine ⟨a, ha, ?_⟩
    cases hr : (resolveOne info cell).2 with
    | false =>
      rw [unresolved_unchanged info cell hr] at ha
      rw [ha] at h1; simp at h1
    | true =>
      obtain ⟨x, y, rfl, hxy | hxy⟩ := resolve_keeps_one info _ hr
      · rw [hxy] at ha; simp at ha; simp [ha]
      · rw [hxy] at ha; simp at ha; simp [ha]

/-- Non-vacuity of `accepted_table_deterministic`: a conflict-free table with a resolved cell. -/
example :
    let info : Nat → ProdInfo := fun p => if p = 0 then ⟨0, 1, false⟩ else ⟨0, 2, false⟩
    hasConflicts info [[.accept], [.shift 7 [1, 1], .reduce 0], [.reduce 1, .shift 7 [0, 0]]] = false := by
  decide

end Lox.Props.C04
