import Lox.Lex.GenTotalProofs
import Lox.Lex.SpecProofs
/-! Property theorems for C02, generator part: the lexer generator's OWN algorithms compute the
rule-level specification (longest viable match, earliest rule wins).

Executable models (read these): `Lox/Lex/GenNFA.lean` (`Rx`, `th`/`thompson` = the `NFACons`
methods, `modeNFA` = first step of `ModeBuilder.Build`), `Lox/Lex/GenDFA.lean` (`normalizeNFA` =
`normalizeInputs`, `eclose` = `eClosure`, `subset` = `NFAToDFA` before `optimize`, `pickAction`),
`Lox/Lex/GenOpt.lean` (`optimize`, `splitStart`, `mergeTransitions`, `buildDFA`).
Specification: `Lox.Lex.Matches`, `Lox.Lex.viable`, `Lox.Lex.label` (`Regex.lean`, `Spec.lean`).
Tie to the Go code: family `lexmodel` (harness/drv/ops_lexmodel.go) compares every stage of the
model with the real `NFACons` / `normalizeInputs` / `NFAToDFA` / `optimize` / `splitStartState` /
`mergeTransitions`. Helper lemmas: `Lox/Lex/Gen*Proofs.lean`, `GenNFASound.lean`,
`GenNFAViable.lean`. -/
namespace Lox.Props.C02
open Lox.Lex Lox.Lex.Gen

/-! ### Thompson construction (`NFACons`) -/

/-- **`thompson_correct`.** For every written expression `r` and every word `w`: the fragment
`NFACons` builds for `r` has a path from its entry `B` to its exit `E` reading `w` iff `w` is in
the language of `r` (both directions, all expressions: literals, classes, concatenation,
n-ary alternation, `?`, `*`, `+`, `*?`, `+?`, with lox's auxiliary ε states). -/
theorem thompson_correct (r : Rx) (w : List Int) : (thompson r).Accepts w ↔ Matches r.toRe w :=
  th_correct r 0 w

/-- The same at any state of the mode's state factory (rules are built one after the other). -/
theorem thompson_correct_at (r : Rx) (n : Nat) (w : List Int) :
    Path (th r n).edges (th r n).b w (th r n).e ↔ Matches r.toRe w := th_correct r n w

/-- Every `Re` is the reading of an `NFACons`-shaped expression … -/
theorem ofRe_toRe : ∀ r : Re, (ofRe r).toRe = r
  | .eps => rfl
  | .cls _ => rfl
  | .seq r s => by simp [ofRe, Rx.toRe, ofRe_toRe r, ofRe_toRe s]
  | .alt r s => by simp [ofRe, Rx.toRe, Alts.toRe, ofRe_toRe r, ofRe_toRe s]
  | .star _ r => by simp [ofRe, Rx.toRe, ofRe_toRe r]

/-- … so the construction is correct for ALL regular expressions of `Lox/Lex/Regex.lean`. -/
theorem thompson_correct_re (r : Re) (w : List Int) :
    (thompson (ofRe r)).Accepts w ↔ Matches r w := by
  rw [thompson_correct, ofRe_toRe]

/-- **`modeNFA_label`.** In the NFA of a mode (start state with an ε edge to every rule) the set
of rules accepting `w` is exactly the set of rules whose expression matches `w`. -/
theorem modeNFA_label (rules : List Rx) (i : Nat) (w : List Int) :
    (modeNFA rules).AcceptsRule i w ↔ ∃ r, rules[i]? = some r ∧ Matches r.toRe w :=
  Lox.Lex.Gen.modeNFA_label rules i w

/-- The mode NFA has no dead state: some state is reachable by `w` iff `w` is a prefix of a word
some rule matches (given at least one rule and non-empty classes). -/
theorem modeNFA_viable (rules : List Rx) (hne : rules ≠ []) (hok : ∀ r ∈ rules, r.clsOK = true)
    (w : List Int) :
    (∃ q, Path (modeNFA rules).edges (modeNFA rules).start w q) ↔ Viable rules w :=
  Lox.Lex.Gen.modeNFA_viable rules hne hok w

/-! ### `normalizeInputs`, `eClosure`, subset construction, `pickAction` -/

/-- `normalizeInputs` never panics on ranges written `lo ≤ hi`, changes no run of the NFA, and
afterwards two labels that share a code point are equal (bridge to C15's `normalize_*`). -/
theorem normalizeInputs_correct (m : NFA) (hv : ValidLabels m.edges) :
    ∃ m', normalizeNFA m = some m' ∧ m'.start = m.start ∧ m'.acc = m.acc ∧ PD m'.edges ∧
      ∀ p w q, Path m'.edges p w q ↔ Path m.edges p w q := by
  obtain ⟨m', h1, h2, h3, _, _, h4, _, h5⟩ := normalizeNFA_spec m hv
  exact ⟨m', h1, h2, h3, h4, h5⟩

/-- `eClosure` returns exactly the states reachable by ε edges, sorted by ID (its fuel in the
model is never exhausted). -/
theorem eclose_correct (E : List Edge) (S : List Nat) :
    (∀ q, q ∈ eclose E S ↔ ∃ p ∈ S, Path E p [] q) ∧ (eclose E S).Pairwise (· < ·) :=
  ⟨mem_eclose E S, eclose_sorted E S⟩

/-- **`subset_correct`.** For an NFA with pairwise equal-or-disjoint labels, the DFA of the subset
construction, run on any `w` from state 0, reaches the state whose NFA-state list is exactly (and
in increasing order, without repetition) the set of NFA states reachable by `w`; it is not empty;
the run is undefined iff the NFA cannot read `w`. -/
theorem subset_correct (m : NFA) (hPD : PD m.edges) (fuel : Nat) (d : DFA)
    (h : subset m fuel = some d) (w : List Int) :
    (∀ j, d.run 0 w = some j → ∃ s, d.states[j]? = some s ∧
      (∀ q, q ∈ s.nfa ↔ Path m.edges m.start w q) ∧ s.nfa.Pairwise (· < ·) ∧ s.nfa ≠ []) ∧
    (d.run 0 w = none → ∀ q, ¬ Path m.edges m.start w q) :=
  Lox.Lex.Gen.subset_correct m hPD fuel d h w

/-- `pickAction`: the least rule index among the accepting NFA states of the DFA state — the
earliest source position wins; `none` iff there is no accepting NFA state. -/
theorem pickAction_least (m : NFA) (S : List Nat) :
    (pickAction m S = none ↔ ∀ i, ¬ ∃ q ∈ S, (q, i) ∈ m.acc) ∧
    (∀ i, pickAction m S = some i ↔
      (∃ q ∈ S, (q, i) ∈ m.acc) ∧ ∀ j, (∃ q ∈ S, (q, j) ∈ m.acc) → i ≤ j) := by
  obtain ⟨h1, h2⟩ := pickAction_spec m S
  refine ⟨?_, ?_⟩
  · rw [h1]; exact forall_congr' fun i => by rw [mem_actionSet]
  · intro i
    rw [h2 i, mem_actionSet]
    exact and_congr_right fun _ => forall_congr' fun j => by rw [mem_actionSet]

/-- **`subset_label`.** Mode NFA → `normalizeInputs` → subset construction: after any word the DFA
is in a state iff the word is viable, and `pickAction` on that state gives the earliest rule
matching the word. -/
theorem subset_label (rules : List Rx) (hne : rules ≠ []) (hok : ∀ r ∈ rules, r.clsOK = true) :
    ∃ m', normalizeNFA (modeNFA rules) = some m' ∧
      ∀ fuel d, subset m' fuel = some d → ∀ w,
        ((d.run 0 w).isSome ↔ Viable rules w) ∧
        ∀ j, d.run 0 w = some j → ∃ s, d.states[j]? = some s ∧
          (∀ q, q ∈ s.nfa ↔ Path (modeNFA rules).edges (modeNFA rules).start w q) ∧
          IsWinner rules w (pickAction m' s.nfa) :=
  Lox.Lex.Gen.subset_label rules hne hok

/-! ### The link to `Lox.Lex.label` / `Lox.Lex.viable` -/

/-- `Viable` on written expressions is `viable` on their `Re`. -/
theorem gen_viable (xs : List Rx) (rules : List Rule) (h : rules.map (·.1) = xs.map Rx.toRe)
    (w : List Int) : Viable xs w ↔ viable rules w := by
  constructor
  · rintro ⟨x, hx, t, hm⟩
    have : x.toRe ∈ rules.map (·.1) := by rw [h]; exact List.mem_map.2 ⟨x, hx, rfl⟩
    obtain ⟨r, hr, hre⟩ := List.mem_map.1 this
    exact ⟨r, hr, t, by rw [hre]; exact hm⟩
  · rintro ⟨r, hr, t, hm⟩
    have : r.1 ∈ xs.map Rx.toRe := by rw [← h]; exact List.mem_map.2 ⟨r, hr, rfl⟩
    obtain ⟨x, hx, hxe⟩ := List.mem_map.1 this
    exact ⟨x, hx, t, by rw [hxe]; exact hm⟩

/-- The action pairs stored on a DFA state whose `pickAction` winner is rule `i` (`Data`). -/
def winnerPairs (rules : List Rule) : Option Nat → List Pair
  | none => []
  | some i => (rules[i]?.map (·.2)).getD []

/-- The winner `pickAction` returns is the rule whose action pairs `label` returns. -/
theorem gen_label (xs : List Rx) (rules : List Rule) (h : rules.map (·.1) = xs.map Rx.toRe)
    (w : List Int) (o : Option Nat) (hw : IsWinner xs w o) :
    label rules w = winnerPairs rules o := by
  have hlen : rules.length = xs.length := by
    have := congrArg List.length h; simpa using this
  have hget : ∀ i (hi : i < rules.length), ∃ x, xs[i]? = some x ∧ x.toRe = rules[i].1 := by
    intro i hi
    have h1 : (rules.map (·.1))[i]? = (xs.map Rx.toRe)[i]? := by rw [h]
    simp only [List.getElem?_map, List.getElem?_eq_getElem hi, Option.map_some] at h1
    cases hx : xs[i]? with
    | none => rw [hx] at h1; cases h1
    | some x =>
      rw [hx] at h1
      simp only [Option.map_some, Option.some.injEq] at h1
      exact ⟨x, rfl, h1.symm⟩
  cases o with
  | none =>
    apply label_of_none
    intro r hr hm
    obtain ⟨i, hi⟩ := List.mem_iff_getElem?.1 hr
    obtain ⟨hi', rfl⟩ := List.getElem?_eq_some_iff.1 hi
    obtain ⟨x, hx, hxe⟩ := hget i hi'
    exact hw x (List.mem_of_getElem? hx) (by rw [hxe]; exact hm)
  | some i =>
    obtain ⟨⟨x, hx, hm⟩, hleast⟩ := hw
    have hi : i < rules.length := by
      rw [hlen]
      exact (List.getElem?_eq_some_iff.1 hx).1
    obtain ⟨x', hx', hxe⟩ := hget i hi
    rw [hx] at hx'; cases hx'
    simp only [winnerPairs, List.getElem?_eq_getElem hi, Option.map_some, Option.getD_some]
    apply label_of_least rules w i hi (by rw [← hxe]; exact hm)
    intro j hj hmj
    obtain ⟨xj, hxj, hxje⟩ := hget j (by omega)
    exact hleast j xj hj hxj (by rw [hxje]; exact hmj)

/-! ### The whole of `ModeBuilder.Build` -/

/-- **`build_correct`.** If the model of `Build` returns the automaton `F` for the rules `xs`
(their `Re`s and action pairs being `rules`), then no transition of `F` leads into state 0, the
run of `F` on `w` is defined iff `w` is `viable`, and the action pairs of the rule `pickAction`
selects on the state reached are `label rules w`: longest viable match, earliest rule wins. -/
theorem build_correct (xs : List Rx) (rules : List Rule) (h : rules.map (·.1) = xs.map Rx.toRe)
    (hne : xs ≠ []) (hok : ∀ r ∈ xs, r.clsOK = true)
    (F : DFA) (hF : buildDFA (modeNFA xs) = some (.ok F)) :
    NoEdgeIntoStart F ∧ ∀ w,
      ((F.run 0 w).isSome ↔ viable rules w) ∧
      ∀ j, F.run 0 w = some j → ∃ st, F.states[j]? = some st ∧
        label rules w = winnerPairs rules (pickAction (modeNFA xs) st.nfa) := by
  obtain ⟨_, hno, hrun⟩ := buildDFA_correct xs hne hok F hF
  refine ⟨hno, fun w => ?_⟩
  obtain ⟨h1, h2⟩ := hrun w
  refine ⟨h1.trans (gen_viable xs rules h w), ?_⟩
  intro j hj
  obtain ⟨st, hst, hwin⟩ := h2 j hj
  exact ⟨st, hst, gen_label xs rules h w _ hwin⟩

/-- The model of `Build` always returns an automaton (classes written `lo ≤ hi`): no panic of
`rang3.Normalize` or `GetStateGroup`, no loop runs out of the model's fuel. -/
theorem build_total (xs : List Rx) (hok : ∀ r ∈ xs, r.clsOK = true) :
    ∃ F, buildDFA (modeNFA xs) = some (.ok F) := buildDFA_total xs hok

/-- **`build_spec`** = `build_total` + `build_correct`, without any hypothesis about the run of
the model: for every non-empty list of rules with non-empty classes, `Build` returns an automaton
that has no transition into state 0, is defined on exactly the viable words, and labels every
word with `label`. -/
theorem build_spec (xs : List Rx) (rules : List Rule) (h : rules.map (·.1) = xs.map Rx.toRe)
    (hne : xs ≠ []) (hok : ∀ r ∈ xs, r.clsOK = true) :
    ∃ F, buildDFA (modeNFA xs) = some (.ok F) ∧ NoEdgeIntoStart F ∧ ∀ w,
      ((F.run 0 w).isSome ↔ viable rules w) ∧
      ∀ j, F.run 0 w = some j → ∃ st, F.states[j]? = some st ∧
        label rules w = winnerPairs rules (pickAction (modeNFA xs) st.nfa) := by
  obtain ⟨F, hF⟩ := buildDFA_total xs hok
  obtain ⟨h1, h2⟩ := build_correct xs rules h hne hok F hF
  exact ⟨F, hF, h1, h2⟩

/-! ### Non-vacuity: the hypotheses hold on concrete modes -/

/-- `'if'` and `[a-z]+`. -/
def exKw : List Rx := [.lit [105, 102], .plus false (.cls [(97, 122)])]

example : exKw ≠ [] ∧ (∀ r ∈ exKw, r.clsOK = true) := by decide

-- `NFACons` allocates `[a-z]+` after `'if'`: term states 3…6, then B = 7, E = 8, start = 9
example : modeNFA exKw =
    { n := 10, start := 9,
      edges := [⟨0, some ⟨105, 105⟩, 1⟩, ⟨1, some ⟨102, 102⟩, 2⟩, ⟨5, some ⟨97, 122⟩, 6⟩,
        ⟨3, none, 5⟩, ⟨6, none, 4⟩, ⟨7, none, 3⟩, ⟨4, none, 3⟩, ⟨4, none, 8⟩,
        ⟨9, none, 0⟩, ⟨9, none, 7⟩],
      acc := [(2, 0), (8, 1)], ng := [] } := by decide

-- the model of `Build` ends normally on it; after "if" both rules accept and rule 0 wins
example : ∃ F, buildDFA (modeNFA exKw) = some (.ok F) ∧
    (F.run 0 [105, 102]).map (fun j => pickAction (modeNFA exKw) (F.states.getD j default).nfa) =
      some (some 0) ∧
    (F.run 0 [105, 103]).map (fun j => pickAction (modeNFA exKw) (F.states.getD j default).nfa) =
      some (some 1) ∧
    F.run 0 [105, 48] = none := by
  refine ⟨_, rfl, ?_, ?_, ?_⟩ <;> decide

end Lox.Props.C02
