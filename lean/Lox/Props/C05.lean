import Lox.Dec.ResolveProofs
import Lox.Dec.OpPrecProofs
/-!
# C05 – `@left(n)` / `@right(n)` grouping

Property (verbatim): "For an expression rule whose binary-operator alternatives carry @left(n) or
@right(n), the generated parser groups every operator sequence the way a precedence-climbing parser
would: a higher n binds tighter, operators sharing a level and declared @left group left-to-right,
and those declared @right group right-to-left. Atoms, parenthesised sub-expressions and unqualified
alternatives are unaffected."

Two layers, both for **all** inputs:

* `op_machine_climb`: a shift-reduce parser for `E → E op E | atom` whose S/R decisions follow the
  documented relation builds, for every operand/operator sequence, the tree of precedence
  climbing (`Lox.Dec.OpPrec`).
* `resolve_documented_partial`: the decision `resolveConflicts` really takes
  (`Lox.Dec.resolveOne`, model of `/repo/internal/parsergen/lr1/construct.go`) is the documented
  one for different levels and for `@left`; for `@right` only under the extra hypothesis that the
  shift has a single contributing item, which `createActions`/`AddShift` never produce for an
  expression grammar (one item per lookahead) – **known finding K1**. `k1_calc_cell` is the
  kernel-checked negation on the cell of `examples/calc`, and `op_machine_k1` says what the
  generated parser does instead: it groups as if every operator were `@left`.
-/
namespace Lox.Props.C05
open Lox.Dec Lox.Dec.OpPrec

/-! ## The documented decision (`Lox.Dec.documented`) -/

/-
Full statement (FALSE on the pinned code, see `k1_calc_cell`):

  theorem resolve_documented (info) (t p0 rest rp)
      (hres : (resolveOne info [.shift t (p0 :: rest), .reduce rp]).2 = true) :
      (resolveOne info [.shift t (p0 :: rest), .reduce rp]).1 =
        keepOf (.shift t (p0 :: rest)) (.reduce rp)
          (documented (info p0).prec (info rp).prec (info rp).rightAssoc)
-/

/-- **resolve_documented_partial.** Whenever `resolveConflict` resolves a shift/reduce cell (in
either order), the action it keeps is the documented one – the associativity being that of the
production on the stack, `rp` –

* whenever the two precedences differ,
* when they are equal and `rp` is `@left`,
* when they are equal and `rp` is `@right` **only under the extra hypothesis `hK1`**: the shift has
  exactly one contributing item and it belongs to `rp` itself (`shift.Prods = [reduce.Prods[0]]`,
  the condition written in the `switch` of `resolveConflicts`).

`hK1` is the only extra hypothesis; it is vacuous in the first two cases. -/
theorem resolve_documented_partial (info : Nat → ProdInfo) (t p0 : Nat) (rest : List Nat) (rp : Nat)
    (acts : List Action)
    (hacts : acts = [.shift t (p0 :: rest), .reduce rp] ∨ acts = [.reduce rp, .shift t (p0 :: rest)])
    (hres : (resolveOne info acts).2 = true)
    (hK1 : (info p0).prec = (info rp).prec → (info rp).rightAssoc = true → p0 :: rest = [rp]) :
    (resolveOne info acts).1 =
      keepOf (.shift t (p0 :: rest)) (.reduce rp)
        (documented (info p0).prec (info rp).prec (info rp).rightAssoc) := by
  have key : ∀ k, decideSR info (p0 :: rest) rp = some k →
      k = documented (info p0).prec (info rp).prec (info rp).rightAssoc := by
    intro k hk
    simp only [decideSR] at hk
    split at hk
    · split at hk
      · unfold documented
        split at hk
        · rename_i h; simp only [h, if_true]; exact (Option.some.inj hk).symm
        · rename_i h
          simp only [h, if_false]
          split at hk
          · rename_i h'; simp only [h', if_true]; exact (Option.some.inj hk).symm
          · rename_i h'
            simp only [h', if_false]
            have heq : (info p0).prec = (info rp).prec := by omega
            cases hr : (info rp).rightAssoc with
            | false =>
              split at hk
              · rename_i hc
                simp only [Bool.and_eq_true, beq_iff_eq] at hc
                rw [hc.1.2, hr] at hc
                exact absurd hc.2 (by simp)
              · simpa using (Option.some.inj hk).symm
            | true =>
              have hsingle := hK1 heq hr
              simp only [List.cons.injEq] at hsingle
              obtain ⟨rfl, rfl⟩ := hsingle
              simp [hr] at hk
              simpa using hk.symm
      · exact absurd hk (by simp)
    · exact absurd hk (by simp)
  rcases hacts with rfl | rfl
  · rw [resolveOne_sr] at hres ⊢
    cases hd : decideSR info (p0 :: rest) rp with
    | none => rw [hd] at hres; exact absurd hres (by simp)
    | some k => simp only [key k hd]
  · rw [resolveOne_rs] at hres ⊢
    cases hd : decideSR info (p0 :: rest) rp with
    | none => rw [hd] at hres; exact absurd hres (by simp)
    | some k => simp only [key k hd]

/-- The same with the associativity read where `resolveConflicts` reads it, on the *shifted*
production `shift.Prods[0]`: under `hK1` both productions coincide, and `@left` on either one makes
the code reduce. The documented rule (and precedence climbing) means the production on the stack;
the two readings differ only on levels that mix `@left` and `@right`, where the code always
reduces. -/
theorem resolve_documented_shiftassoc_partial (info : Nat → ProdInfo) (t p0 : Nat) (rest : List Nat)
    (rp : Nat) (acts : List Action)
    (hacts : acts = [.shift t (p0 :: rest), .reduce rp] ∨ acts = [.reduce rp, .shift t (p0 :: rest)])
    (hres : (resolveOne info acts).2 = true)
    (hK1 : (info p0).prec = (info rp).prec → (info p0).rightAssoc = true → p0 :: rest = [rp]) :
    (resolveOne info acts).1 =
      keepOf (.shift t (p0 :: rest)) (.reduce rp)
        (documented (info p0).prec (info rp).prec (info p0).rightAssoc) := by
  by_cases heq : (info p0).prec = (info rp).prec
  · cases hr : (info p0).rightAssoc with
    | true =>
      have hsingle := hK1 heq hr
      simp only [List.cons.injEq] at hsingle
      obtain ⟨rfl, rfl⟩ := hsingle
      have := resolve_documented_partial info t p0 [] p0 acts hacts hres (fun _ _ => rfl)
      rw [hr] at this
      exact this
    | false =>
      -- the code reduces whenever the shifted production is not `@right`
      have key : ∀ k, decideSR info (p0 :: rest) rp = some k → k = Keep.reduce := by
        intro k hk
        simp only [decideSR, heq, Nat.lt_irrefl, if_false, hr, Bool.and_false, Bool.false_eq_true] at hk
        split at hk
        · split at hk
          · exact (Option.some.inj hk).symm
          · exact absurd hk (by simp)
        · exact absurd hk (by simp)
      have hdoc : documented (info p0).prec (info rp).prec false = Keep.reduce := by
        simp [documented, heq]
      rw [hdoc]
      rcases hacts with rfl | rfl
      · rw [resolveOne_sr] at hres ⊢
        cases hd : decideSR info (p0 :: rest) rp with
        | none => rw [hd] at hres; exact absurd hres (by simp)
        | some k => simp only [key k hd]
      · rw [resolveOne_rs] at hres ⊢
        cases hd : decideSR info (p0 :: rest) rp with
        | none => rw [hd] at hres; exact absurd hres (by simp)
        | some k => simp only [key k hd]
  · have h1 := resolve_documented_partial info t p0 rest rp acts hacts hres (fun h => absurd h heq)
    rw [h1]
    have : ∀ b, documented (info p0).prec (info rp).prec b = documented (info p0).prec (info rp).prec true := by
      intro b
      unfold documented
      split
      · rfl
      · split
        · rfl
        · omega
    rw [this (info rp).rightAssoc, this (info p0).rightAssoc]

/-- The hypotheses of `resolve_documented_partial` are satisfiable with `hK1` doing real work: one
`@right(3)` production, a single contributing item; the documented answer (shift) comes out. -/
example :
    let info : Nat → ProdInfo := fun _ => ⟨1, 3, true⟩
    (resolveOne info [.shift 13 [8], .reduce 8]).2 = true ∧
      ((info 8).prec = (info 8).prec → (info 8).rightAssoc = true → [8] = [8]) ∧
      (resolveOne info [.shift 13 [8], .reduce 8]).1 = [.shift 13 [8]] := by
  decide

/-- **K1, negation of the full statement on the real cell.** In the table lox builds for
`examples/calc`, state 22 (`expr = expr '^' expr .`) on `'^'` holds, before resolution,
`shift I13` with **eight** contributing items of production 8 (one per lookahead) and
`reduce 8` (dumped from the real `createActions` by the correspondence family `resolve`, see its
`meta.json`). The documented decision for `@right(3)` against itself is *shift*; `resolveConflict`
keeps the *reduce*, so `2 ^ 3 ^ 2` is grouped `(2 ^ 3) ^ 2`. -/
theorem k1_calc_cell :
    let cell := [Action.shift 13 [8, 8, 8, 8, 8, 8, 8, 8], Action.reduce 8]
    (resolveOne calcInfo cell).2 = true ∧
      documented (calcInfo 8).prec (calcInfo 8).prec (calcInfo 8).rightAssoc = Keep.shift ∧
      (resolveOne calcInfo cell).1 = [Action.reduce 8] ∧
      (resolveOne calcInfo cell).1 ≠
        keepOf (.shift 13 [8, 8, 8, 8, 8, 8, 8, 8]) (.reduce 8)
          (documented (calcInfo 8).prec (calcInfo 8).prec (calcInfo 8).rightAssoc) := by
  decide

/-- Already two contributing items defeat `@right`. -/
example :
    let info : Nat → ProdInfo := fun _ => ⟨0, 3, true⟩
    resolveOne info [.shift 1 [0, 0], .reduce 0] = ([.reduce 0], true) := by
  decide

/-! ## The model with K1 switched off (`Lox.Dec.resolveOneDoc`) -/

/-- Repairing K1 cannot change any conflict verdict: the documented resolver resolves exactly the
cells the pinned one resolves (so C04's verdict theorems do not depend on K1). -/
theorem doc_same_verdict (info : Nat → ProdInfo) (acts : List Action) :
    (resolveOneDoc info acts).2 = (resolveOne info acts).2 := by
  have key : ∀ ps rp, (decideSRDoc info ps rp).isSome = (decideSR info ps rp).isSome := by
    intro ps rp
    cases ps with
    | nil => simp [decideSRDoc, decideSR]
    | cons p0 rest => cases h : decideSR info (p0 :: rest) rp <;> simp [decideSRDoc, h]
  unfold resolveOneDoc resolveOne
  split
  · rename_i t ps rp
    have := key ps rp
    cases h1 : decideSRDoc info ps rp <;> cases h2 : decideSR info ps rp <;> simp_all
  · rename_i rp t ps
    have := key ps rp
    cases h1 : decideSRDoc info ps rp <;> cases h2 : decideSR info ps rp <;> simp_all
  · rfl

/-- Under the K1 hypothesis the pinned resolver *is* the documented one on S/R cells. -/
theorem resolve_eq_doc_partial (info : Nat → ProdInfo) (t p0 : Nat) (rest : List Nat) (rp : Nat)
    (acts : List Action)
    (hacts : acts = [.shift t (p0 :: rest), .reduce rp] ∨ acts = [.reduce rp, .shift t (p0 :: rest)])
    (hK1 : (info p0).prec = (info rp).prec → (info rp).rightAssoc = true → p0 :: rest = [rp]) :
    resolveOne info acts = resolveOneDoc info acts := by
  cases hres : (resolveOne info acts).2 with
  | false =>
    have hres' : (resolveOneDoc info acts).2 = false := by rw [doc_same_verdict, hres]
    have h1 := unresolved_unchanged info acts hres
    have h2 : (resolveOneDoc info acts).1 = acts := by
      rcases hacts with rfl | rfl <;>
      · simp only [resolveOneDoc] at hres' ⊢
        split <;> simp_all
    exact Prod.ext (h1.trans h2.symm) (hres.trans hres'.symm)
  | true =>
    have hres' : (resolveOneDoc info acts).2 = true := by rw [doc_same_verdict, hres]
    have h1 := resolve_documented_partial info t p0 rest rp acts hacts hres hK1
    have hd : decideSRDoc info (p0 :: rest) rp =
        some (documented (info p0).prec (info rp).prec (info rp).rightAssoc) := by
      have : (decideSR info (p0 :: rest) rp).isSome = true := by
        rcases hacts with rfl | rfl
        · rw [resolveOne_sr] at hres
          cases hd : decideSR info (p0 :: rest) rp with
          | none => rw [hd] at hres; exact absurd hres (by simp)
          | some k => rfl
        · rw [resolveOne_rs] at hres
          cases hd : decideSR info (p0 :: rest) rp with
          | none => rw [hd] at hres; exact absurd hres (by simp)
          | some k => rfl
      obtain ⟨k, hk⟩ := Option.isSome_iff_exists.1 this
      simp [decideSRDoc, hk]
    have h2 : (resolveOneDoc info acts).1 = keepOf (.shift t (p0 :: rest)) (.reduce rp)
        (documented (info p0).prec (info rp).prec (info rp).rightAssoc) := by
      rcases hacts with rfl | rfl <;> simp only [resolveOneDoc, hd]
    exact Prod.ext (h1.trans h2.symm) (hres.trans hres'.symm)

/-- The hypotheses of `resolve_documented_shiftassoc_partial` and `resolve_eq_doc_partial` are
satisfiable as well (same cell), and a cell of different levels needs no `hK1` at all. -/
example :
    let info : Nat → ProdInfo := fun p => ⟨1, p, true⟩
    (resolveOne info [.reduce 2, .shift 13 [3, 3, 3]]).2 = true ∧
      ((info 3).prec = (info 2).prec → (info 2).rightAssoc = true → [3, 3, 3] = [2]) ∧
      resolveOne info [.reduce 2, .shift 13 [3, 3, 3]] = resolveOneDoc info [.reduce 2, .shift 13 [3, 3, 3]] := by
  decide

/-! ## What the cells of an expression rule decide -/

/-- **Known finding K1, general form.** A cell "`b` incoming, `a` on the stack" of an expression
rule (both productions in one rule, both qualified) whose shift has two or more contributing items
of `b` – which is what `createActions` produces, one item per lookahead – is resolved to *reduce*
iff `prec b ≤ prec a`, whatever the associativities are. -/
theorem k1_decision (info : Nat → ProdInfo) (t a b n : Nat)
    (hrule : (info b).rule = (info a).rule) (ha : 0 < (info a).prec) (hb : 0 < (info b).prec) :
    srDecision info [.shift t (List.replicate (n + 2) b), .reduce a] =
      some (decide ((info b).prec ≤ (info a).prec)) := by
  have hall : (List.replicate (n + 1) b).all
      (fun q => (info q).rule == (info b).rule && (info q).prec == (info b).prec) = true := by
    rw [List.all_eq_true]
    intro q hq
    rw [List.eq_of_mem_replicate hq]
    simp
  have hd : decideSR info (List.replicate (n + 2) b) a =
      some (if (info b).prec ≤ (info a).prec then Keep.reduce else Keep.shift) := by
    rw [show n + 2 = (n + 1) + 1 from rfl, List.replicate_succ,
      decideSR_of info b (List.replicate (n + 1) b) a hall hrule hb ha]
    have hne : (List.replicate (n + 1) b).isEmpty = false := by simp [List.replicate_succ]
    simp only [hne, Bool.false_and, Bool.false_eq_true, if_false]
    by_cases h1 : (info b).prec < (info a).prec
    · simp [h1, Nat.le_of_lt h1]
    · by_cases h2 : (info a).prec < (info b).prec
      · simp [h1, h2, Nat.not_le_of_lt h2]
      · simp [h1, h2, show (info b).prec ≤ (info a).prec by omega]
  unfold srDecision
  rw [resolveOne_sr, hd]
  by_cases h : (info b).prec ≤ (info a).prec <;> simp [h, keepOf]

/-- For comparison, the cell with a single contributing item: *shift* on equal precedence happens
only for a `@right` production against **itself**; two different `@right` operators of one level
are still grouped to the left (second facet of K1's site). -/
theorem single_item_decision (info : Nat → ProdInfo) (t a b : Nat)
    (hrule : (info b).rule = (info a).rule) (ha : 0 < (info a).prec) (hb : 0 < (info b).prec) :
    srDecision info [.shift t [b], .reduce a] =
      some (decide ((info b).prec < (info a).prec ∨
        ((info b).prec = (info a).prec ∧ ¬ (b = a ∧ (info b).rightAssoc = true)))) := by
  have hd : decideSR info [b] a =
      some (if (info b).prec < (info a).prec then Keep.reduce
        else if (info a).prec < (info b).prec then Keep.shift
        else if (b == a && (info b).rightAssoc) = true then Keep.shift else Keep.reduce) := by
    rw [decideSR_of info b [] a (by simp) hrule hb ha]
    simp
  unfold srDecision
  rw [resolveOne_sr, hd]
  by_cases h1 : (info b).prec < (info a).prec
  · simp [h1, keepOf]
  · by_cases h2 : (info a).prec < (info b).prec
    · have : ¬ (info b).prec = (info a).prec := by omega
      simp [h1, h2, keepOf, this]
    · have heq : (info b).prec = (info a).prec := by omega
      by_cases hba : b = a
      · subst hba
        cases hr : (info b).rightAssoc <;> simp [keepOf]
      · simp [hba, keepOf, heq]

/-- Non-vacuity of `k1_decision` / `single_item_decision` (`@right(3)` against itself). -/
example :
    let info : Nat → ProdInfo := fun _ => ⟨2, 3, true⟩
    (info 8).rule = (info 8).rule ∧ 0 < (info 8).prec ∧
      srDecision info [.shift 13 (List.replicate (6 + 2) 8), .reduce 8] = some true ∧
      srDecision info [.shift 13 [8], .reduce 8] = some false := by
  decide

/-! ## The operator-precedence theorem -/

/-- **op_machine_climb.** If every shift/reduce decision of the parser follows the documented
relation – with `a` the operator on the stack and `b` the incoming one: reduce iff `a`'s level is
higher, or the levels are equal and `a` is `@left` – then for **every** operand/operator sequence
the shift-reduce parser builds exactly the tree precedence climbing builds for the operator table:
higher `n` binds tighter, `@left` levels group left-to-right, `@right` levels right-to-left. On a
level mixing both, the associativity of the operator on the stack decides (this is what
precedence climbing does). Proof: `Lox.Dec.OpPrec.run_eq_unwind`, induction on the input with the
stack invariant `Inv` (precedences on the operator stack strictly increase, or stay equal only
across right-associative operators). -/
theorem op_machine_climb {Op Atom : Type} (table : Op → Nat × Bool) (dec : Op → Op → Bool)
    (hdec : DocumentedDecision table dec) (a0 : Atom) (ws : List (Op × Atom)) :
    opParse dec a0 ws = climb table a0 ws :=
  opParse_eq_climb table dec hdec a0 ws

/-- `docDec` satisfies `DocumentedDecision`: the hypothesis of `op_machine_climb` is satisfiable for
every table. -/
theorem docDec_documented {Op : Type} (table : Op → Nat × Bool) :
    DocumentedDecision table (docDec table) := by
  intro a b
  simp [docDec]

/-- `docDec` is `documented` read as "reduce?": shift precedence = level of the incoming operator,
reduce precedence and associativity = those of the operator on the stack. -/
theorem docDec_eq_documented {Op : Type} (table : Op → Nat × Bool) (a b : Op) :
    docDec table a b = (documented (table b).1 (table a).1 (table a).2 == Keep.reduce) := by
  unfold docDec documented
  by_cases h1 : (table b).1 < (table a).1
  · simp [h1]
  · by_cases h2 : (table a).1 < (table b).1
    · have e : ((table a).1 == (table b).1) = false := by
        have : ¬ (table a).1 = (table b).1 := by omega
        simpa using this
      have k : (Keep.shift == Keep.reduce) = false := by decide
      simp [h1, h2, e, k]
    · have e : (table a).1 = (table b).1 := by omega
      have k : (Keep.shift == Keep.reduce) = false := by decide
      cases hr : (table a).2 <;> simp [e, k]

/-- Non-vacuity and a sanity check of both parsers on the calc table
(0 `+`, 1 `-` level 1 left; 2 `*`, 3 `/` level 2 left; 5 `^` level 3 right):
`1 + 2 * 3 ^ 4 ^ 5 - 6` is `(1 + (2 * (3 ^ (4 ^ 5)))) - 6`. -/
example :
    let table : Nat → Nat × Bool := fun o => if o ≤ 1 then (1, false) else if o ≤ 4 then (2, false) else (3, true)
    let ws : List (Nat × Nat) := [(0, 2), (2, 3), (5, 4), (5, 5), (1, 6)]
    opParse (docDec table) 1 ws = climb table 1 ws ∧
      climb table 1 ws =
        .node 1 (.node 0 (.leaf 1) (.node 2 (.leaf 2) (.node 5 (.leaf 3) (.node 5 (.leaf 4) (.leaf 5))))) (.leaf 6) := by
  decide

/-- **op_machine_k1 (what lox's parsers really do).** Let the S/R cell for "`a` on the stack, `b`
incoming" be what `createActions` builds for an expression rule – the shift carries
`items a b + 2 ≥ 2` contributing items of `b`'s production – and let the parser follow
`resolveOne` on it. Then for every operand/operator sequence it builds the precedence-climbing
tree of the table **with every operator forced `@left`**: levels are respected, `@right` is
ignored. -/
theorem op_machine_k1 {Op Atom : Type} (table : Op → Nat × Bool) (prodOf : Op → Nat)
    (info : Nat → ProdInfo) (rule : Nat)
    (hinfo : ∀ o, info (prodOf o) = ⟨rule, (table o).1, (table o).2⟩)
    (hpos : ∀ o, 0 < (table o).1)
    (target items : Op → Op → Nat) (dec : Op → Op → Bool)
    (hdec : ∀ a b, srDecision info
      [.shift (target a b) (List.replicate (items a b + 2) (prodOf b)), .reduce (prodOf a)] =
        some (dec a b))
    (a0 : Atom) (ws : List (Op × Atom)) :
    opParse dec a0 ws = climb (forceLeft table) a0 ws := by
  apply op_machine_climb
  intro a b
  have h := hdec a b
  rw [k1_decision info _ _ _ _ (by simp [hinfo]) (by simp [hinfo, hpos]) (by simp [hinfo, hpos])] at h
  have h' := Option.some.inj h
  rw [← h']
  simp only [hinfo, forceLeft, decide_eq_true_eq, and_true]
  omega

/-- The hypotheses of `op_machine_k1` are satisfiable: the calc table (operators 0 … 5, operator `o`
is production `o`, eight contributing items per shift). -/
example (a0 : Nat) (ws : List (Nat × Nat)) :
    let table : Nat → Nat × Bool := fun o => if o ≤ 1 then (1, false) else if o ≤ 4 then (2, false) else (3, true)
    let dec : Nat → Nat → Bool := fun a b => decide ((table b).1 ≤ (table a).1)
    opParse dec a0 ws = climb (forceLeft table) a0 ws := by
  intro table dec
  let info : Nat → ProdInfo := fun p => ⟨2, (table p).1, (table p).2⟩
  have hpos : ∀ o, 0 < (table o).1 := by
    intro o
    simp only [table]
    repeat' split
    all_goals decide
  refine op_machine_k1 table id info 2 (fun _ => rfl) hpos (fun _ _ => 13) (fun _ _ => 6) dec ?_ a0 ws
  intro a b
  exact k1_decision info 13 a b 6 rfl (hpos a) (hpos b)

/-- Non-vacuity of `op_machine_k1` and the visible consequence: with the calc table the machine
driven by the real decisions groups `2 ^ 3 ^ 2` to the left, precedence climbing to the right. -/
example :
    let table : Nat → Nat × Bool := fun o => if o ≤ 1 then (1, false) else if o ≤ 4 then (2, false) else (3, true)
    let info : Nat → ProdInfo := fun p => ⟨2, (table p).1, (table p).2⟩
    let dec : Nat → Nat → Bool := fun a b =>
      srDecision info [.shift 13 (List.replicate 8 b), .reduce a] == some true
    opParse dec 2 [(5, 3), (5, 2)] = .node 5 (.node 5 (.leaf 2) (.leaf 3)) (.leaf 2) ∧
      climb table 2 [(5, 3), (5, 2)] = .node 5 (.leaf 2) (.node 5 (.leaf 3) (.leaf 2)) ∧
      climb (forceLeft table) 2 [(5, 3), (5, 2)] = .node 5 (.node 5 (.leaf 2) (.leaf 3)) (.leaf 2) := by
  decide

end Lox.Props.C05
