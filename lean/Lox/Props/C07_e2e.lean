import Lox.Lex.GenSpecMunch
import Lox.Props.C07
import Lox.Props.C11_e2e
/-! Property theorems for C07 (mode stack; every action takes effect), END TO END on the model of
the generator for WHOLE specifications: for EVERY lexer specification `s` the front end accepts
(`genModes s = some modes`) whose rules are written over code points with non-empty classes and
match no empty string (`LSpec.ok`, decidable), in the generated lexer `modes`

* every row that fires holds the action pairs of a rule `r` of the current mode, and `PushRune`
  then applies every mode action WRITTEN on `r`, in written order, with the modes the names denote,
  and ends with exactly one of accept / discard / accumulate: `r`'s own token for a token rule, the
  written `@emit(T)` / `@discard` of a fragment wherever it is written, accumulate for an
  action-less fragment (`generator_all_actions_effective`);
* over any input the `(mode, modeStack)` pair of the state machine is the abstract stack obtained
  by folding the push / pop actions WRITTEN on the rules whose rows fired (`applyWritten`), an ERROR
  return resetting the mode to `$default` and leaving the stack alone (`generator_mode_stack`);
* `$default` is mode 0 (`default_mode_first`);
* (greedy rules) in the table of every mode the row reached from state 0 by a word `w` is the row
  of the EARLIEST rule of that mode that matches `w` (`generator_matched_rule`, the per-mode
  `C02.generator_bisim` for every mode of `s`);
* (greedy rules, every mode has a rule) over any input, at EVERY row that fires the runes consumed
  since the previous firing are the LONGEST viable prefix of the rest of the input under the rules
  of the abstract current mode, the row is that of the EARLIEST rule `r0` matching them, and the
  abstract stack moves by the actions written on `r0` (`generator_run_matched`: maximal munch,
  rule priority and mode stack for whole runs, in terms of `Matches` and the written specification
  only).

Compositions of `Lox/Props/C07.lean` / `C11.lean` (per table, hypothesis `WFModes`) and
`C02.generator_bisim` with `Lox.Lex.GenSpec.genModes_wfModes`. Model: `Lox/Lex/GenSpecModel.lean`
(`LSpec`, `genModes`, `modeIndex`, `GRule.pairs`); `applyWritten`, `FiredRule`, `specRules` in
`Lox/Lex/GenSpecRun.lean`; `runesBetween`, `boundaryRun`, `EarliestMatch`, the run invariant
(`MunchLog`, `lexAllG_munch`) in `Lox/Lex/GenSpecMunch.lean`. Tie of `genModes` to the Go code:
family `lexgenspec` (harness/drv/ops_lexgenspec.go, op `lex.genmodes`). -/
namespace Lox.Props.C07
open Lox.Lex Lox.Lex.Rt Lox.Lex.Gen Lox.Lex.GenSpec

/-- **`$default` is `_lexerModes[0]`** – the mode `PushRune` starts in (`l.mode == nil`) and
`Reset()` returns to – for every specification whose `@mode` names are identifiers
(`ID = [A-Za-z] [A-Za-z0-9_]*`): `$` sorts before every letter. -/
theorem default_mode_first (s : LSpec) (h : ∀ d ∈ specModes 0 s, startsWithLetter d.1 = true) :
    (modeNames s)[0]? = some defaultName ∧ modeIndex s defaultName = some 0 :=
  modeNames_default_first s h

/-- **The order of `_lexerModes`**: `slices.Sort(modeNames)` is modelled by its result – for an
accepted specification any increasing list holding exactly the mode names is `modeNames s`. -/
theorem mode_order_unique (s : LSpec) (hn : namesOK s = true) (l : List String)
    (hs : l.Pairwise (· < ·)) (hmem : ∀ x, x ∈ l ↔ x ∈ (modeDecls s).map (·.1)) :
    l = modeNames s := by
  simp only [namesOK, Bool.and_eq_true, decide_eq_true_eq] at hn
  exact sortNames_unique hn.2 hs hmem

/-- The abstract stack over written actions is the abstract stack over the resolved actions
(`Rt.applyW` of `C07.all_effective_*`) whenever no `@pop_mode` finds the stack empty. -/
theorem applyWritten_eq_applyW (s : LSpec) (as : List LAct) (ws : List WAction)
    (h : resolveActs s as = some ws) (ms ms' : MS) (ha : applyW ws ms = some ms') :
    applyWritten s as ms = ms' := by
  rw [← applyWT_resolved h]; exact applyW_eq_T ha

/-- **Whatever order the actions are written in**: moving the terminal action (`@emit` /
`@discard`) of a fragment to any other place among the mode actions changes neither the abstract
stack nor the stored pairs. -/
theorem written_order_irrelevant (s : LSpec) (as1 as2 : List LAct) (t : LAct)
    (ht : LAct.isTerminal t = true) (ms : MS) :
    applyWritten s (as1 ++ t :: as2) ms = applyWritten s (as1 ++ as2 ++ [t]) ms ∧
    applyWritten s (as1 ++ t :: as2) ms = applyWritten s (as1 ++ as2) ms := by
  have h1 : writtenModeActs (as1 ++ t :: as2) = writtenModeActs (as1 ++ as2) := by
    simp [writtenModeActs, List.filter_append, ht]
  have h2 : writtenModeActs (as1 ++ as2 ++ [t]) = writtenModeActs (as1 ++ as2) := by
    simp [writtenModeActs, List.filter_append, ht]
  constructor
  · rw [applyWritten_modeActs, h1, applyWritten_modeActs s (as1 ++ as2 ++ [t]), h2]
  · rw [applyWritten_modeActs, h1, ← applyWritten_modeActs]

/-- **`generator_all_actions_effective`.** One `PushRune(c)` call of a generated lexer, from any
in-range state machine `sm`, reads the row of `sm.state` in the current mode and
* if the row has a transition on `c` (and is not a non-greedy accepting row): consumes, nothing else;
* otherwise, if the row stores no pairs: EOF (state 0, end of input) or `_lexerError`, modes
  untouched;
* otherwise the row stores the pairs of a rule `r` of the current mode (`FiredRule`), with written
  actions `r.acts` resolving to `ws`, and the call applies EVERY mode action written on `r` in
  written order (`applyW ws`; as names: `applyWritten s r.acts`) and then ends with exactly one
  terminal effect `terminalEffect t` – accept / discard / accumulate (`C07.frag_emit_effect`, …) –
  where `t` is accept of `r`'s own terminal number if `r` is a token rule, and for a fragment its
  written `@emit(T)` / `@discard` wherever it stands, else accumulate (`writtenTerminal`). A written
  `@pop_mode` meeting an empty stack gives `_lexerError` with the actions before it applied. -/
theorem generator_all_actions_effective (s : LSpec) (modes : Array Mode)
    (hgen : genModes s = some modes) (hok : s.ok = true) {sm : SM} (hin : InRange modes sm)
    (c : Int) :
    ∃ m row, modes[sm.mode.getD 0]? = some m ∧ decodeRow m sm.state = some row ∧
      (∀ st, (if row.flags % 2 = 0 then Rt.lookup row.triples c else none) = some st →
        pushRune modes sm c =
          (.consume, { sm with mode := some (sm.mode.getD 0), state := st })) ∧
      ((if row.flags % 2 = 0 then Rt.lookup row.triples c else none) = none →
        (row.pairs = [] ∧
          pushRune modes sm c =
            if sm.state = 0 ∧ c = -1 then (.eof, { sm with mode := some (sm.mode.getD 0) })
            else (.error, { sm with mode := some (sm.mode.getD 0) })) ∨
        ∃ r ws t, FiredRule s modes (sm.mode.getD 0) sm.state r ∧
          resolveActs s r.acts = some ws ∧
          ((∃ n k, r.name = some n ∧ tokenNumber s n = some k ∧ t = ((3 : Int), (k : Int))) ∨
            (r.name = none ∧ t = writtenTerminal accumPair ws)) ∧
          (∀ ms', applyW ws (sm.mode.getD 0, sm.modeStack) = some ms' →
            applyWritten s r.acts (sm.mode.getD 0, sm.modeStack) = ms') ∧
          pushRune modes sm c =
            match applyW ws (sm.mode.getD 0, sm.modeStack) with
            | some ms => terminalEffect t { sm with mode := some ms.1, modeStack := ms.2 }
            | none =>
              (.error,
                { sm with
                  mode := some (applyWritten s r.acts (sm.mode.getD 0, sm.modeStack)).1,
                  modeStack := (applyWritten s r.acts (sm.mode.getD 0, sm.modeStack)).2 })) := by
  have hwf := genModes_wfModes hgen hok
  obtain ⟨m, row, hm, hrow, heq⟩ := Lox.Props.C11.pushRune_char hwf hin c
  refine ⟨m, row, hm, hrow, ?_, ?_⟩
  · intro st hst
    rw [heq, hst]
  · intro hnone
    rw [hnone] at heq
    simp only at heq
    obtain ⟨_, hst0, m', hm', hlt⟩ := hin
    rw [hm] at hm'
    cases hm'
    have hrp : Rt.rowPairs modes (sm.mode.getD 0) sm.state = row.pairs := by
      simp only [Rt.rowPairs, hm, hrow]
    rcases genModes_firedRule hgen hok hst0 hm hlt with h0 | ⟨r, hr⟩
    · left
      rw [hrp] at h0
      refine ⟨h0, ?_⟩
      rw [heq, h0]
      rfl
    · right
      obtain ⟨mname, hmn, hrm, hrpairs⟩ := hr
      rw [hrp] at hrpairs
      obtain ⟨ws, hw, hsh⟩ := pairs_shape hrpairs
      have hsz := (genModes_some hgen).2.1
      have hpush : ∀ k, WAction.pushMode k ∈ ws → k < modes.size := by
        rw [hsz]; exact resolveActs_push hw
      have hT : ∀ ms, applyModeActsT (modePairs ws) ms = applyWritten s r.acts ms := by
        intro ms; rw [applyModeActsT_modePairs, applyWT_resolved hw]
      have hA : ∀ ms', applyW ws (sm.mode.getD 0, sm.modeStack) = some ms' →
          applyWritten s r.acts (sm.mode.getD 0, sm.modeStack) = ms' :=
        fun ms' ha => applyWritten_eq_applyW s r.acts ws hw _ ms' ha
      rcases hsh with ⟨n, k, hn, hk, htok, hps⟩ | ⟨hnone', hfrag, hps⟩
      · refine ⟨r, ws, ((3 : Int), (k : Int)), ⟨mname, hmn, hrm, by rw [hrp]; exact hrpairs⟩, hw,
          .inl ⟨n, k, hn, hk, rfl⟩, hA, ?_⟩
        obtain ⟨e1, e2⟩ := tokenRulePairs_eq htok
        rw [heq, e1, execPairs_written modes.size c ws ((3 : Int), (k : Int))
          { sm with mode := some (sm.mode.getD 0) } (sm.mode.getD 0) (.inl rfl) hpush rfl, e2]
        cases applyW ws (sm.mode.getD 0, sm.modeStack) with
        | none => simp only [hT]
        | some ms => rfl
      · refine ⟨r, ws, writtenTerminal accumPair ws, ⟨mname, hmn, hrm, by rw [hrp]; exact hrpairs⟩,
          hw, .inr ⟨hnone', rfl⟩, hA, ?_⟩
        rw [heq, hps, execPairs_written modes.size c ws accumPair
          { sm with mode := some (sm.mode.getD 0) } (sm.mode.getD 0) (by decide) hpush rfl]
        cases applyW ws (sm.mode.getD 0, sm.modeStack) with
        | none => simp only [hT]
        | some ms => rfl

/-- **`generator_mode_stack`.** Over any run of a generated lexer (any input, any fuel – also a
run cut short) replay the ghost log on the abstract mode stack from `($default, [])`. Then
* the replay agrees with the state machine (`C07.mode_stack_discipline`): at every row that fired
  the abstract current mode is the mode of that row, and after each token the state machine's
  `(mode, modeStack)` is the abstract stack;
* every step of the replay at a row that fired is the fold of the actions WRITTEN on a rule `r` of
  the abstract current mode whose pairs that row stores (`applyWritten s r.acts`: pushes and pops
  in written order, modes by name, `@emit` / `@discard` skipped wherever they stand) – or the row
  stores nothing (ERROR / EOF) and the abstract stack does not move.
(The remaining steps of `absRun` are returns: an ERROR return resets the mode to mode 0 and keeps
the stack, `C07.reset_keeps_stack`.) -/
theorem generator_mode_stack (s : LSpec) (modes : Array Mode) (hgen : genModes s = some modes)
    (hok : s.ok = true) (inp : Input) (fuel n : Nat) :
    AbsAgrees modes (lexAllG modes inp fuel n {} [] []).2.2 (0, []) ∧
    ∀ pre post mode state res a b,
      (lexAllG modes inp fuel n {} [] []).2.2 = pre ++ .fire mode state res a b :: post →
      (absRun modes pre (0, [])).1 = mode ∧
      ((Rt.rowPairs modes mode state = [] ∧
          absRun modes (pre ++ [.fire mode state res a b]) (0, []) = absRun modes pre (0, [])) ∨
        ∃ r, FiredRule s modes mode state r ∧
          absRun modes (pre ++ [.fire mode state res a b]) (0, []) =
            applyWritten s r.acts (absRun modes pre (0, []))) := by
  have hwf := genModes_wfModes hgen hok
  have hag := mode_stack_discipline hwf inp fuel n
  refine ⟨hag, ?_⟩
  intro pre post mode state res a b hlog
  have hfires := lexAllG_fires hwf inp fuel n {} [] [] (inRange_init hwf)
    (by intro _ _ _ _ _ hm; cases hm)
  rw [hlog] at hfires hag
  obtain ⟨h0, m, hm, hlt⟩ := hfires mode state res a b (by simp)
  have hmode := absAgrees_at_fire modes pre post mode state res a b (0, []) hag
  refine ⟨hmode, ?_⟩
  have hstep : absRun modes (pre ++ [.fire mode state res a b]) (0, []) =
      applyModeActsT (Rt.rowPairs modes mode state) (absRun modes pre (0, [])) := by
    rw [absRun_append]
    simp only [absRun, absStep, hmode]
  rcases genModes_firedRule hgen hok h0 hm hlt with hnil | ⟨r, hr⟩
  · left
    refine ⟨hnil, ?_⟩
    rw [hstep, hnil]
    rfl
  · right
    refine ⟨r, hr, ?_⟩
    obtain ⟨_, _, _, hp⟩ := hr
    rw [hstep, pairs_applyWritten hp]

/-- **`generator_matched_rule`** (greedy rules). In the table of every mode `mname` (index `mi`)
that has a rule: the row reached from state 0 by a word `w` – the runes consumed since the state
machine was last in state 0 – stores the pairs of the EARLIEST rule of that mode that matches `w`
exactly (`label (specRules s mname) w`; `[]` if none does), a word is consumable iff it is a prefix
of a match of some rule of the mode (`viable`), and state 0 stores nothing and is entered by no
transition (`startClean`). So the rule whose written actions `generator_mode_stack` folds is the
earliest rule matching the longest viable prefix (`C02.generator_munch`). -/
theorem generator_matched_rule (s : LSpec) (modes : Array Mode) (hgen : genModes s = some modes)
    (hok : s.ok = true) (hgreedy : s.greedy = true) (mi : Nat) (mname : String) (m : Mode)
    (hname : (modeNames s)[mi]? = some mname) (hm : modes[mi]? = some m)
    (hne : modeRules s mname ≠ []) :
    wfTable m = true ∧ startClean m = true ∧
    (∀ w, (tableRunFrom m 0 w).isSome ↔ viable (specRules s mname) w) ∧
    ∀ w q, tableRunFrom m 0 w = some q →
      Lox.Lex.rowPairs m q = label (specRules s mname) w ∧
      Rt.rowPairs modes mi (q : Int) = label (specRules s mname) w := by
  obtain ⟨_, _, hall⟩ := genModes_some hgen
  have hmi : mi < modes.size := by
    rcases Nat.lt_or_ge mi modes.size with h1 | h1
    · exact h1
    · rw [Array.getElem?_eq_none h1] at hm; cases hm
  obtain ⟨name, rs, pss, m', hM⟩ := hall mi hmi
  have : m' = m := by
    have := hM.get; rw [hm] at this; exact (Option.some.inj this).symm
  subst this
  have : name = mname := by
    have := hM.name_eq; rw [hname] at this; exact (Option.some.inj this).symm
  subst this
  have hne' : rs ≠ [] := by rw [hM.rules_eq]; exact hne
  obtain ⟨hwf, hsc, hS, hrun⟩ := hM.bisim hok hgreedy hne'
  refine ⟨hwf, hsc, ?_, ?_⟩
  · intro w
    have h1 := hrun w
    unfold tableRun specRun at h1
    by_cases hv : viable (specRules s name) w
    · simp only [hv, ↓reduceIte] at h1
      cases hr : tableRunFrom m' 0 w with
      | none => rw [hr] at h1; cases h1
      | some q => simp [hv]
    · simp only [hv, ↓reduceIte] at h1
      cases hr : tableRunFrom m' 0 w with
      | none => simp [hv]
      | some q => rw [hr] at h1; cases h1
  · intro w q hq
    have h1 : Lox.Lex.rowPairs m' q = label (specRules s name) w :=
      hS.lab w _ (by simp only [tableRun, hq, Option.map_some])
    refine ⟨h1, ?_⟩
    rw [hM.rowPairs_eq hok q (tableRunFrom_lt hwf w 0 q (wfTable_nStates hwf) hq), h1]

/-- **`generator_run_matched`: the mode stack is folded over the rules MATCHED, over any input**
(greedy rules, every mode has a rule). In the ghost log of any run of a generated lexer (any input,
any fuel, also a run cut short), at EVERY row that fires – `boundaryRun 0 pre` being the byte offset
where the previous row fired, or where the last ERROR stretch ended, or 0 – there are rune indices
`i ≤ j` at byte offsets `boundaryRun 0 pre` and `b` (the offset of the event) such that, with
`w = runesBetween inp i j` the runes consumed in between and `mname` the mode whose row fired (the
abstract current mode, `generator_mode_stack`):
* `w` is viable under the rules of `mname` and no longer stretch `[i, k)` of the input is: `w` is
  the LONGEST viable prefix of the rest of the input (maximal munch);
* if `r0` is the EARLIEST rule of `mname` matching `w` (`EarliestMatch`), the row that fired stores
  the pairs of `r0` (`FiredRule`) and the abstract mode stack moves by the actions WRITTEN on `r0`,
  in written order (`applyWritten s r0.acts`);
* if no rule of `mname` matches `w`, the row stores nothing (the call returns ERROR, or EOF at the
  end of the input with `w = []`) and the abstract stack does not move. -/
theorem generator_run_matched (s : LSpec) (modes : Array Mode) (hgen : genModes s = some modes)
    (hok : s.ok = true) (hgreedy : s.greedy = true) (hne : s.modesNonempty = true)
    (inp : Input) (fuel n : Nat) :
    ∀ pre post mode state res a b,
      (lexAllG modes inp fuel n {} [] []).2.2 = pre ++ .fire mode state res a b :: post →
      ∃ mname i j, (modeNames s)[mode]? = some mname ∧ i ≤ j ∧ j ≤ inp.size ∧
        offsetOf inp i = boundaryRun 0 pre ∧ offsetOf inp j = b ∧
        viable (specRules s mname) (runesBetween inp i j) ∧
        (∀ k, j < k → k ≤ inp.size → ¬ viable (specRules s mname) (runesBetween inp i k)) ∧
        (∀ r0, EarliestMatch (modeRules s mname) (runesBetween inp i j) r0 →
          FiredRule s modes mode state r0 ∧
          absRun modes (pre ++ [.fire mode state res a b]) (0, []) =
            applyWritten s r0.acts (absRun modes pre (0, []))) ∧
        ((∀ r ∈ modeRules s mname, ¬ Matches r.body.toRe (runesBetween inp i j)) →
          Rt.rowPairs modes mode state = [] ∧
          absRun modes (pre ++ [.fire mode state res a b]) (0, []) =
            absRun modes pre (0, [])) := by
  intro pre post mode state res a b hlog
  have hwf := genModes_wfModes hgen hok
  have hmunch := lexAllG_munch hwf (genModes_tablesWF hgen hok) inp fuel n {} [] []
    (munchInv_init hwf inp)
  have hag := mode_stack_discipline hwf inp fuel n
  rw [hlog] at hmunch hag
  obtain ⟨mname, i, j, hname, hij, hj, hbd, hoff, hv, hlong, hlab⟩ :=
    fire_matched hgen hok hgreedy hne (munchLog_at_fire hmunch)
  have hstep := absRun_at_fire modes pre post mode state res a b (0, []) hag
  refine ⟨mname, i, j, hname, hij, hj, hbd, hoff, hv, hlong, ?_, ?_⟩
  · intro r0 hr0
    have hmem : r0 ∈ modeRules s mname := by
      obtain ⟨pre', post', he, _, _⟩ := hr0
      rw [he]; simp
    obtain ⟨ps, hps⟩ := genModes_rule_pairs hgen hname hmem
    have hl : label (specRules s mname) (runesBetween inp i j) = ps := by
      have := label_earliest (fun r => (r.pairs s).getD []) hr0
      simp only [hps, Option.getD_some] at this
      exact this
    rw [hl] at hlab
    refine ⟨⟨mname, hname, hmem, by rw [hlab]; exact hps⟩, ?_⟩
    rw [hstep, hlab, pairs_applyWritten hps]
  · intro hnone
    have hl : label (specRules s mname) (runesBetween inp i j) = [] := by
      apply label_of_none
      intro r hr
      obtain ⟨g, hg, rfl⟩ := List.mem_map.1 hr
      exact hnone g hg
    rw [hl] at hlab
    refine ⟨hlab, ?_⟩
    rw [hstep, hlab]
    rfl

/-! ## Non-vacuity: the two-mode specification `C11.exSpec`
`A = 'a'`, `@frag '"' @push_mode(S)`, `@mode S { STR = '"' @pop_mode   @frag [b-z] }`,
`@frag ' '+ @discard`; `genModes exSpec = some exSpecModes` (`C11.exSpec_genModes`). -/

open Lox.Props.C11 (exSpec exSpecModes exSpec_genModes)

/-- The hypotheses of the theorems above hold on it. -/
example : exSpec.ok = true ∧ exSpec.greedy = true ∧ exSpec.modesNonempty = true ∧
    (∀ d ∈ specModes 0 exSpec, startsWithLetter d.1 = true) := by
  refine ⟨by decide +kernel, by decide +kernel, by decide +kernel, by decide +kernel⟩

example : InRange exSpecModes ({} : SM) :=
  inRange_init (Lox.Props.C11.generator_wfModes exSpec exSpecModes exSpec_genModes (by decide +kernel))

/-- The mode names in the order of `_lexerModes`, and the written actions of the two rules with mode
actions folded on the abstract stack. -/
example : modeNames exSpec = ["$default", "S"] ∧
    applyWritten exSpec [.pushMode "S"] (0, []) = (1, [0]) ∧
    applyWritten exSpec [.popMode] (1, [0]) = (0, []) ∧
    applyWritten exSpec [.popMode, .pushMode "S"] (0, []) = (0, []) := by decide +kernel

/-- `EarliestMatch` on an instance: in mode `S` the word `"` is matched by `STR` (first rule). -/
example : EarliestMatch (modeRules exSpec "S") [34] ⟨0, some "STR", .lit [34], [.popMode]⟩ :=
  ⟨[], [⟨0, none, .cls [(98, 122)], []⟩], rfl, Matches.cls (by decide),
    fun _ h => by cases h⟩

/-- The run on `a "b" "` : `A`, then `STR` with text `"b"` lexed in mode `S` and back in
`$default`, then the fragment pushes `S` again and EOF is returned there with the `"` pending; the
rows that fired, with their offsets. -/
example :
    (lexAllG exSpecModes #[(97, 1), (32, 1), (34, 1), (98, 1), (34, 1), (32, 1), (34, 1)] 20 20 {} []
        []).2.2.filterMap
      (fun e => match e with | .ret t mo st => some (t, mo, st) | _ => none)
    = [(.tok 2 0 1, 0, []), (.tok 3 2 5, 0, []), (.eof 6, 1, [0])] ∧
    (lexAllG exSpecModes #[(97, 1), (32, 1), (34, 1), (98, 1), (34, 1), (32, 1), (34, 1)] 20 20 {} []
        []).2.2.filterMap
      (fun e => match e with | .fire mo st _ _ off => some (mo, st, off) | _ => none)
    = [(0, 1, 1), (0, 3, 2), (0, 2, 3), (1, 2, 4), (1, 1, 5), (0, 3, 6), (0, 2, 7), (1, 0, 7)] := by
  decide +kernel

/-- The hypotheses of `mode_order_unique` and of `generator_matched_rule` (mode `S`, index 1). -/
example : namesOK exSpec = true ∧ ["$default", "S"].Pairwise (· < ·) ∧
    (modeNames exSpec)[1]? = some "S" ∧ exSpecModes[1]? = some exSpecModes[1] ∧
    (modeRules exSpec "S").length = 2 := by
  refine ⟨by decide +kernel, by decide +kernel, by decide +kernel, by decide, by decide +kernel⟩

/-- `generator_matched_rule` used on the instance: in mode `S`, after `"` the table is in a state
storing the pairs of `STR = '"' @pop_mode` – pop, accept 3 – without running the table. -/
example : ∀ q, tableRunFrom exSpecModes[1] 0 [34] = some q →
    Lox.Lex.rowPairs exSpecModes[1] q = label (specRules exSpec "S") [34] := by
  intro q hq
  have hne : modeRules exSpec "S" ≠ [] := by
    intro h
    have : (modeRules exSpec "S").length = 2 := by decide +kernel
    rw [h] at this; cases this
  exact ((generator_matched_rule exSpec exSpecModes exSpec_genModes (by decide +kernel)
    (by decide +kernel) 1 "S" exSpecModes[1] (by decide +kernel) (by decide) hne).2.2.2 [34] q hq).1

end Lox.Props.C07
