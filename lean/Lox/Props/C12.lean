import Lox.Dec.FrontText
import Lox.Props.C01
import Lox.Props.C06
import Lox.Props.C10
import Lox.Props.C11
import Lox.Props.C15
/-! # C12 "The generator never crashes" — the provable half

"For any bytes supplied as .lox files together with any Go package, lox terminates and either
writes all generated files and exits 0, or prints at least one diagnostic and exits non-zero. It
never panics, hangs, or exits 0 with missing or partial output."

Level *other*: go/packages, the Jet template engine, gofmt and the OS are not modelled, so the
universal statement is not a theorem. What is proved here, for ALL inputs, is that the panic sites
that grammar TEXT can steer are unreachable: the text → value helpers of the front end
(`Lox/Dec/FrontText.lean`, transcribing `internal/parser/parser.go`) never hit a panic arm or an
index out of range on anything the front end's own lexer lets through. The remaining sites are
listed, regenerated from source on every run and matched with `expect/panic_sites.json`
(`bin/check C12`); those covered by theorems of other properties are restated at the end so that
C12's evidence lists them. -/
namespace Lox.Props.C12
open Lox.Dec.FrontText

/-! ## hex digits -/

theorem hexVal_lt {d : Nat} (h : isHex d = true) : hexVal d < 16 := by
  simp only [isHex, Bool.or_eq_true, Bool.and_eq_true, decide_eq_true_eq] at h
  unfold hexVal
  split
  · omega
  · split <;> omega

theorem isHex_ne_backslash {d : Nat} (h : isHex d = true) : d ≠ 92 := by
  simp only [isHex, Bool.or_eq_true, Bool.and_eq_true, decide_eq_true_eq] at h
  omega

theorem parseHexAcc_total : ∀ (ds : List Nat) (v k : Nat), v < 16 ^ k → k + ds.length ≤ 8 →
    (∀ d ∈ ds, isHex d = true) →
    ∃ v', parseHexAcc v ds = some v' ∧ v' < 16 ^ (k + ds.length) := by
  intro ds
  induction ds with
  | nil => intro v k hv _ _; exact ⟨v, rfl, by simpa using hv⟩
  | cons d ds ih =>
    intro v k hv hk hh
    have hd : isHex d = true := hh d (by simp)
    have hx := hexVal_lt hd
    have h1 : v * 16 + hexVal d < 16 ^ (k + 1) := by
      rw [Nat.pow_succ]
      have : (v + 1) * 16 ≤ 16 ^ k * 16 := Nat.mul_le_mul_right 16 hv
      omega
    have h2 : 16 ^ (k + 1) ≤ 4294967296 := by
      have : (16 : Nat) ^ (k + 1) ≤ 16 ^ 8 := Nat.pow_le_pow_right (by decide) (by simp at hk; omega)
      simpa using this
    have h3 : v * 16 + hexVal d < 4294967296 := Nat.lt_of_lt_of_le h1 h2
    obtain ⟨v', hv', hb⟩ := ih (v * 16 + hexVal d) (k + 1) h1 (by simp at hk ⊢; omega)
      (fun x hx => hh x (by simp [hx]))
    refine ⟨v', ?_, ?_⟩
    · simp only [parseHexAcc, hd, h3, if_true]
      exact hv'
    · have : k + 1 + ds.length = k + (d :: ds).length := by simp; omega
      rw [← this]; exact hb

/-- **hexToRune_total.** On 1–8 hex digits `strconv.ParseUint(s, 16, 32)` succeeds (the value is
below 16^8 = 2^32), so `hexToRune` does not reach `panic(err)`. -/
theorem hexToRune_total (ds : List Nat) (h1 : 1 ≤ ds.length) (h8 : ds.length ≤ 8)
    (hh : ∀ d ∈ ds, isHex d = true) :
    ∃ v, parseHex32 ds = some v ∧ v < 4294967296 ∧ hexToRune ds = .ok (toRune v) := by
  obtain ⟨v, hv, hb⟩ := parseHexAcc_total ds 0 0 (by decide) (by omega) hh
  have hle : 16 ^ (0 + ds.length) ≤ 4294967296 := by
    have : (16 : Nat) ^ (0 + ds.length) ≤ 16 ^ 8 := Nat.pow_le_pow_right (by decide) (by omega)
    simpa using this
  have hp : parseHex32 ds = some v := by
    cases ds with
    | nil => simp at h1
    | cons d t => simpa [parseHex32] using hv
  exact ⟨v, hp, Nat.lt_of_lt_of_le hb hle, by simp [hexToRune, hp]⟩

/-- The bounds are needed: 9 digits overflow 32 bits, the empty string and a non-digit are syntax
errors — each of them is `panic(err)` in `hexToRune`. -/
example : hexToRune [49, 48, 48, 48, 48, 48, 48, 48, 48] = .panic "strconv.ParseUint" ∧
    hexToRune [] = .panic "strconv.ParseUint" ∧ hexToRune [52, 39] = .panic "strconv.ParseUint" := by
  decide

example : hexToRune [70, 102, 70, 70, 70, 70, 70, 70] = .ok (-1) ∧ hexToRune [52, 49] = .ok 65 := by
  decide

/-! ## unescape -/

theorem len_succ {l : List Nat} {n : Nat} (h : l.length = n + 1) :
    ∃ a t, l = a :: t ∧ t.length = n := by
  cases l with
  | nil => simp at h
  | cons a t => exact ⟨a, t, rfl, by simpa using h⟩

theorem simpleEsc_cases {c : Nat} (h : (simpleEsc c).isSome = true) :
    c = 110 ∨ c = 114 ∨ c = 116 ∨ c = 39 ∨ c = 92 ∨ c = 45 := by
  unfold simpleEsc at h
  repeat' split at h
  all_goals first | omega | simp at h

theorem hexToRune_ok2 {d1 d2 : Nat} (h1 : isHex d1 = true) (h2 : isHex d2 = true) :
    ∃ r, hexToRune [d1, d2] = .ok r := by
  obtain ⟨v, _, _, h⟩ := hexToRune_total [d1, d2] (by simp) (by simp)
    (by intro d hd; simp only [List.mem_cons, List.not_mem_nil, or_false] at hd
        rcases hd with rfl | rfl <;> assumption)
  exact ⟨_, h⟩

theorem hexToRune_ok4 {d1 d2 d3 d4 : Nat} (h1 : isHex d1 = true) (h2 : isHex d2 = true)
    (h3 : isHex d3 = true) (h4 : isHex d4 = true) : ∃ r, hexToRune [d1, d2, d3, d4] = .ok r := by
  obtain ⟨v, _, _, h⟩ := hexToRune_total [d1, d2, d3, d4] (by simp) (by simp)
    (by intro d hd; simp only [List.mem_cons, List.not_mem_nil, or_false] at hd
        rcases hd with rfl | rfl | rfl | rfl <;> assumption)
  exact ⟨_, h⟩

theorem hexToRune_ok8 {d1 d2 d3 d4 d5 d6 d7 d8 : Nat} (h1 : isHex d1 = true) (h2 : isHex d2 = true)
    (h3 : isHex d3 = true) (h4 : isHex d4 = true) (h5 : isHex d5 = true) (h6 : isHex d6 = true)
    (h7 : isHex d7 = true) (h8 : isHex d8 = true) :
    ∃ r, hexToRune [d1, d2, d3, d4, d5, d6, d7, d8] = .ok r := by
  obtain ⟨v, _, _, h⟩ := hexToRune_total [d1, d2, d3, d4, d5, d6, d7, d8] (by simp) (by simp)
    (by intro d hd; simp only [List.mem_cons, List.not_mem_nil, or_false] at hd
        rcases hd with rfl | rfl | rfl | rfl | rfl | rfl | rfl | rfl <;> assumption)
  exact ⟨_, h⟩

/-- **unescape_total.** On every byte string made of the units the `Literal` / `ClassChar` lexer
modes accept, `unescape` returns a value, the same for every capacity of the slice: `lit[i+1]` and
the slices `lit[i+2:i+4]`, `[i+2:i+6]`, `[i+2:i+10]` stay below `len(lit)`, `hexToRune` gets hex
digits, and the `default: panic("unreachable")` arm is not taken. -/
theorem unescape_total {l : List Nat} (h : WellEscaped l) : ∃ v, ∀ cap, unescapeC cap l = .ok v := by
  induction h with
  | nil => exact ⟨[], fun cap => by simp [unescapeC]⟩
  | plain b rest hb _ ih =>
    obtain ⟨v, hv⟩ := ih
    exact ⟨b :: v, fun cap => by rw [unescapeC.eq_def]; simp [hb, hv cap, Res.map]⟩
  | simple c rest hs _ ih =>
    obtain ⟨v, hv⟩ := ih
    obtain ⟨x, hx⟩ := Option.isSome_iff_exists.mp hs
    exact ⟨x :: v, fun cap => by rw [unescapeC.eq_def]; simp [hx, hv cap, Res.map]⟩
  | hex2 ds rest hl hh _ ih =>
    obtain ⟨v, hv⟩ := ih
    obtain ⟨d1, t1, rfl, hl1⟩ := len_succ hl
    obtain ⟨d2, t2, rfl, hl2⟩ := len_succ hl1
    have := List.eq_nil_of_length_eq_zero hl2; subst this
    obtain ⟨r, hr⟩ := hexToRune_ok2 (hh d1 (by simp)) (hh d2 (by simp))
    exact ⟨toByte r :: v, fun cap => by rw [unescapeC.eq_def]; simp [simpleEsc, hr, hv cap, Res.map, Res.bind]⟩
  | hex4 ds rest hl hh _ ih =>
    obtain ⟨v, hv⟩ := ih
    obtain ⟨d1, t1, rfl, hl1⟩ := len_succ hl
    obtain ⟨d2, t2, rfl, hl2⟩ := len_succ hl1
    obtain ⟨d3, t3, rfl, hl3⟩ := len_succ hl2
    obtain ⟨d4, t4, rfl, hl4⟩ := len_succ hl3
    have := List.eq_nil_of_length_eq_zero hl4; subst this
    obtain ⟨r, hr⟩ := hexToRune_ok4 (hh d1 (by simp)) (hh d2 (by simp)) (hh d3 (by simp)) (hh d4 (by simp))
    exact ⟨encodeRune r ++ v, fun cap => by rw [unescapeC.eq_def]; simp [simpleEsc, hr, hv cap, Res.map, Res.bind]⟩
  | hex8 ds rest hl hh _ ih =>
    obtain ⟨v, hv⟩ := ih
    obtain ⟨d1, t1, rfl, hl1⟩ := len_succ hl
    obtain ⟨d2, t2, rfl, hl2⟩ := len_succ hl1
    obtain ⟨d3, t3, rfl, hl3⟩ := len_succ hl2
    obtain ⟨d4, t4, rfl, hl4⟩ := len_succ hl3
    obtain ⟨d5, t5, rfl, hl5⟩ := len_succ hl4
    obtain ⟨d6, t6, rfl, hl6⟩ := len_succ hl5
    obtain ⟨d7, t7, rfl, hl7⟩ := len_succ hl6
    obtain ⟨d8, t8, rfl, hl8⟩ := len_succ hl7
    have := List.eq_nil_of_length_eq_zero hl8; subst this
    obtain ⟨r, hr⟩ := hexToRune_ok8 (hh d1 (by simp)) (hh d2 (by simp)) (hh d3 (by simp))
      (hh d4 (by simp)) (hh d5 (by simp)) (hh d6 (by simp)) (hh d7 (by simp)) (hh d8 (by simp))
    exact ⟨encodeRune r ++ v, fun cap => by rw [unescapeC.eq_def]; simp [simpleEsc, hr, hv cap, Res.map, Res.bind]⟩

/-- The `Literal` mode's language is well escaped. -/
theorem litBody_wellEscaped {l : List Nat} (h : LitBody l) : WellEscaped l := by
  induction h with
  | nil => exact .nil
  | plain b rest hb _ _ ih => exact .plain b rest hb ih
  | simple c rest hc _ ih =>
    refine .simple c rest ?_ ih
    rcases hc with rfl | rfl | rfl | rfl | rfl <;> decide
  | hex2 ds rest hl hh _ ih => exact .hex2 ds rest hl hh ih
  | hex4 ds rest hl hh _ ih => exact .hex4 ds rest hl hh ih
  | hex8 ds rest hl hh _ ih => exact .hex8 ds rest hl hh ih

theorem plain_wellEscaped : ∀ {bs : List Nat}, (∀ b ∈ bs, b ≠ 92) → WellEscaped bs
  | [], _ => .nil
  | b :: t, h => .plain b t (h b (by simp)) (plain_wellEscaped fun x hx => h x (by simp [hx]))

/-- One `CLASS_CHAR` token of the `ClassChar` mode is well escaped. -/
theorem classChar_wellEscaped {l : List Nat} (h : ClassChar l) : WellEscaped l := by
  cases h with
  | simple c hc =>
    refine .simple c [] ?_ .nil
    rcases hc with rfl | rfl | rfl | rfl | rfl <;> decide
  | hex2 ds hl hh => simpa using WellEscaped.hex2 ds [] hl hh .nil
  | hex4 ds hl hh => simpa using WellEscaped.hex4 ds [] hl hh .nil
  | hex8 ds hl hh => simpa using WellEscaped.hex8 ds [] hl hh .nil
  | other bs _ hb => exact plain_wellEscaped fun b hm => (hb b hm).1

/-- `unescape` on a literal body (the use in `fixLiteral`). -/
theorem unescape_total_literal {l : List Nat} (h : LitBody l) : ∃ v, ∀ cap, unescapeC cap l = .ok v :=
  unescape_total (litBody_wellEscaped h)

/-- `unescape` on a class character (the use in `on_char_class`). -/
theorem unescape_total_classChar {l : List Nat} (h : ClassChar l) : ∃ v, ∀ cap, unescapeC cap l = .ok v :=
  unescape_total (classChar_wellEscaped h)

/-- With a capacity beyond the length a truncated escape does not panic in Go: it reads the bytes
behind the token (here the closing quote is not a hex digit, `panic(err)`; a hex digit is taken). -/
example : unescapeC [] [92, 120, 52] = .panic "slice bounds out of range" ∧
    unescapeC [39] [92, 120, 52] = .panic "strconv.ParseUint" ∧
    unescapeC [49] [92, 120, 52] = .ok [65] := by decide

/-- Non-vacuity: `a\n\x41é` is a literal body; the value is `a`, newline, `A`, `é`. -/
example : LitBody [97, 92, 110, 92, 120, 52, 49, 92, 117, 48, 48, 101, 57] ∧
    unescape [97, 92, 110, 92, 120, 52, 49, 92, 117, 48, 48, 101, 57] = .ok [97, 10, 65, 195, 169] := by
  refine ⟨?_, by decide⟩
  refine .plain 97 _ (by decide) (by decide) (.simple 110 _ (by decide) ?_)
  refine .hex2 [52, 49] _ rfl (by decide) ?_
  exact .hex4 [48, 48, 101, 57] [] rfl (by decide) .nil

/-- What the hypothesis excludes, each a Go panic: a backslash at the end (`lit[i+1]`), a short
`\x` (`lit[i+2:i+4]`), a non-hex digit (`panic(err)`), an unknown escape (`panic("unreachable")`). -/
example : unescape [92] = .panic "index out of range" ∧
    unescape [92, 120, 52] = .panic "slice bounds out of range" ∧
    unescape [92, 120, 52, 113] = .panic "strconv.ParseUint" ∧
    unescape [92, 113] = .panic "unreachable" := by decide

/-- D24 (repaired upstream): before the repair the `ClassChar` fallback `~[\n-]` let a lone
backslash through as a CLASS_CHAR; it is not in the language any more, and `unescape` panics on it. -/
example : ¬ ClassChar classCharPinnedWitness ∧ unescape classCharPinnedWitness = .panic "index out of range" := by
  refine ⟨?_, by decide⟩
  intro h
  cases h with
  | other bs _ hb => exact (hb 92 (by simp [classCharPinnedWitness])).1 rfl

/-! ## fixLiteral -/

/-- **fixLiteral_total.** A `LITERAL` token is a quote, a literal body and a quote (length ≥ 2):
`lit[1:len(lit)-1]` is in range and is exactly the body, on which `unescape` is total (for every
capacity of the token's slice). -/
theorem fixLiteral_total {body : List Nat} (h : LitBody body) :
    (∀ cap, fixLiteralC cap (39 :: body ++ [39]) = unescapeC (39 :: cap) body) ∧
    ∃ v, ∀ cap, fixLiteralC cap (39 :: body ++ [39]) = .ok v := by
  have h1 : ∀ cap, fixLiteralC cap (39 :: body ++ [39]) = unescapeC (39 :: cap) body := by
    intro cap
    have hlen : ¬ (39 :: body ++ [39]).length < 2 := by simp
    have hd : (39 :: body ++ [39]).drop ((39 :: body ++ [39]).length - 1) = [39] := by
      have : (39 :: body ++ [39]).length - 1 = (39 :: body).length := by simp
      rw [this, show (39 :: body ++ [39]) = (39 :: body) ++ [39] by simp, List.drop_left]
    have hm : ((39 :: body ++ [39]).drop 1).dropLast = body := by simp
    unfold fixLiteralC
    rw [if_neg hlen, hd, hm]
    rfl
  obtain ⟨v, hv⟩ := unescape_total_literal h
  exact ⟨h1, v, fun cap => by rw [h1 cap]; exact hv _⟩

/-- Shorter token texts are the `slice bounds out of range` panic (the lexer never produces them). -/
example : fixLiteral [39] = .panic "slice bounds out of range" ∧ fixLiteral [] = .panic "slice bounds out of range" ∧
    fixLiteral [39, 39] = .ok [] := by decide

/-! ## checkEscapes -/

theorem checkEscapes_plain (cap : List Nat) : ∀ (l : List Nat) (pos : Nat), (∀ x ∈ l, x ≠ 92) →
    checkEscapesC cap pos l = .ok [] := by
  intro l
  induction l with
  | nil => intro pos _; simp [checkEscapesC]
  | cons a t ih =>
    intro pos h
    cases t with
    | nil => simp [checkEscapesC]
    | cons c r =>
      have ha : a ≠ 92 := h a (by simp)
      simp only [checkEscapesC, ha, ne_eq, not_false_eq_true, if_true]
      exact ih (pos + 1) (fun x hx => h x (by simp [hx]))

theorem checkEscapes_skip (cap : List Nat) : ∀ (ds tail : List Nat) (pos : Nat), (∀ x ∈ ds, x ≠ 92) →
    checkEscapesC cap pos (ds ++ tail) = checkEscapesC cap (pos + ds.length) tail := by
  intro ds
  induction ds with
  | nil => intro tail pos _; simp
  | cons d t ih =>
    intro tail pos h
    have hd : d ≠ 92 := h d (by simp)
    generalize hL : t ++ tail = L
    cases L with
    | nil =>
      have ht : t = [] := (List.append_eq_nil_iff.mp hL).1
      have htl : tail = [] := (List.append_eq_nil_iff.mp hL).2
      subst ht; subst htl
      simp [checkEscapesC]
    | cons c r =>
      have : (d :: t) ++ tail = d :: c :: r := by simp [hL]
      rw [this]
      simp only [checkEscapesC, hd, ne_eq, not_false_eq_true, if_true]
      rw [← hL, ih tail (pos + 1) (fun x hx => h x (by simp [hx]))]
      congr 1
      simp; omega

theorem checkEscapes_wellEscaped (cap : List Nat) {l : List Nat} (h : WellEscaped l) :
    ∀ (pos : Nat) (suf : List Nat), (∀ x ∈ suf, x ≠ 92) →
      ∃ v, checkEscapesC cap pos (l ++ suf) = .ok v := by
  induction h with
  | nil => intro pos suf hs; exact ⟨[], by simpa using checkEscapes_plain cap suf pos hs⟩
  | plain b rest hb _ ih =>
    intro pos suf hs
    obtain ⟨v, hv⟩ := ih (pos + 1) suf hs
    refine ⟨v, ?_⟩
    have := checkEscapes_skip cap [b] (rest ++ suf) pos (by simpa using hb)
    rw [show (b :: rest) ++ suf = [b] ++ (rest ++ suf) by simp, this]
    simpa using hv
  | simple c rest hc _ ih =>
    intro pos suf hs
    obtain ⟨v, hv⟩ := ih (pos + 2) suf hs
    refine ⟨v, ?_⟩
    have h117 : c ≠ 117 := by rcases simpleEsc_cases hc with h | h | h | h | h | h <;> omega
    have h85 : c ≠ 85 := by rcases simpleEsc_cases hc with h | h | h | h | h | h <;> omega
    simpa [checkEscapesC, h117, h85] using hv
  | hex2 ds rest hl hh _ ih =>
    intro pos suf hs
    obtain ⟨v, hv⟩ := ih (pos + 2 + 2) suf hs
    refine ⟨v, ?_⟩
    have hsk := checkEscapes_skip cap ds (rest ++ suf) (pos + 2) (fun x hx => isHex_ne_backslash (hh x hx))
    rw [hl] at hsk
    simpa [checkEscapesC, List.append_assoc, hsk] using hv
  | hex4 ds rest hl hh _ ih =>
    intro pos suf hs
    obtain ⟨v, hv⟩ := ih (pos + 2 + 4) suf hs
    have hsk := checkEscapes_skip cap ds (rest ++ suf) (pos + 2) (fun x hx => isHex_ne_backslash (hh x hx))
    rw [hl] at hsk
    obtain ⟨w, _, _, hw⟩ := hexToRune_total ds (by omega) (by omega) hh
    have htake : (ds ++ (rest ++ (suf ++ cap))).take 4 = ds := by
      rw [← hl]; exact List.take_left
    have hlen : ¬ (ds.length + (rest.length + (suf.length + cap.length)) < 4) := by omega
    refine ⟨if validRune (toRune w) then v else pos :: v, ?_⟩
    simp [checkEscapesC, hlen, htake, hw, Res.bind, hsk, hv, Res.map]
  | hex8 ds rest hl hh _ ih =>
    intro pos suf hs
    obtain ⟨v, hv⟩ := ih (pos + 2 + 8) suf hs
    have hsk := checkEscapes_skip cap ds (rest ++ suf) (pos + 2) (fun x hx => isHex_ne_backslash (hh x hx))
    rw [hl] at hsk
    obtain ⟨w, _, _, hw⟩ := hexToRune_total ds (by omega) (by omega) hh
    have htake : (ds ++ (rest ++ (suf ++ cap))).take 8 = ds := by
      rw [← hl]; exact List.take_left
    have hlen : ¬ (ds.length + (rest.length + (suf.length + cap.length)) < 8) := by omega
    refine ⟨if validRune (toRune w) then v else pos :: v, ?_⟩
    simp [checkEscapesC, hlen, htake, hw, Res.bind, hsk, hv, Res.map]

/-- **checkEscapes_total.** `checkEscapes` runs over the whole token text: on a `LITERAL` (quote,
body, quote) and on a `CLASS_CHAR` the slice `lit[i+2:i+2+n]` stays inside the token and
`hexToRune` gets hex digits, so it returns (a possibly empty list of diagnostics) instead of
panicking, whatever lies behind the token in the buffer. -/
theorem checkEscapes_total (cap : List Nat) :
    (∀ body, LitBody body → ∃ v, checkEscapesC cap 0 (39 :: body ++ [39]) = .ok v) ∧
    (∀ tok, ClassChar tok → ∃ v, checkEscapesC cap 0 tok = .ok v) := by
  constructor
  · intro body hb
    have hw : WellEscaped (39 :: body) := .plain 39 body (by decide) (litBody_wellEscaped hb)
    simpa using checkEscapes_wellEscaped cap hw 0 [39] (by simp)
  · intro tok ht
    simpa using checkEscapes_wellEscaped cap (classChar_wellEscaped ht) 0 [] (by simp)

/-- `'\uD800'` gets the diagnostic at offset 1 (D14's repair), `'é'` none; a truncated `\u`
would be the slice panic. -/
example : checkEscapes 0 [39, 92, 117, 68, 56, 48, 48, 39] = .ok [1] ∧
    checkEscapes 0 [39, 92, 117, 48, 48, 101, 57, 39] = .ok [] ∧
    checkEscapes 0 [92, 117, 48, 48] = .panic "slice bounds out of range" := by decide

/-! ## precedence numbers -/

theorem qualifU_never_panics (ds : List Nat) (m : String) : qualifU ds ≠ .panic m := by
  unfold qualifU
  cases atoi ds with
  | none => simp
  | some v => by_cases h : v = 0 <;> simp [h]

theorem qualifU_total (ds : List Nat) : qualifU ds = .diag ∨ ∃ n, 0 < n ∧ qualifU ds = .prec n := by
  unfold qualifU
  cases atoi ds with
  | none => exact .inl rfl
  | some v =>
    by_cases h : v = 0
    · exact .inl (by simp [h])
    · exact .inr ⟨v, Nat.pos_of_ne_zero h, by simp [h]⟩

/-- **qualif_total (1).** The conversion never panics, on any bytes. -/
theorem qualif_never_panics (ds : List Nat) (m : String) : qualif ds ≠ .panic m := by
  unfold qualif
  split
  · exact qualifU_never_panics _ m
  · simp
  · exact qualifU_never_panics _ m

/-- **qualif_total.** For every token text (in particular every digit string, `NUM = [0-9]+`) the
result is the diagnostic or a POSITIVE number. -/
theorem qualif_total (ds : List Nat) : qualif ds = .diag ∨ ∃ n, 0 < n ∧ qualif ds = .prec n := by
  unfold qualif
  split
  · exact qualifU_total _
  · exact .inl rfl
  · exact qualifU_total _

/-- The decimal value of a digit string, as a left fold. -/
def decVal (acc : Nat) (ds : List Nat) : Nat := ds.foldl (fun a d => a * 10 + (d - 48)) acc

theorem decVal_ge (ds : List Nat) : ∀ acc, acc ≤ decVal acc ds := by
  induction ds with
  | nil => intro acc; exact Nat.le_refl _
  | cons d t ih =>
    intro acc
    have := ih (acc * 10 + (d - 48))
    simp only [decVal, List.foldl_cons] at this ⊢
    omega

theorem atoiAcc_eq : ∀ (ds : List Nat) (acc : Nat), (∀ d ∈ ds, isDigit d = true) →
    atoiAcc acc ds = if decVal acc ds < 9223372036854775808 ∨ ds = [] then some (decVal acc ds) else none := by
  intro ds
  induction ds with
  | nil => intro acc _; simp [atoiAcc, decVal]
  | cons d t ih =>
    intro acc h
    have hd : isDigit d = true := h d (by simp)
    have ht := ih (acc * 10 + (d - 48)) (fun x hx => h x (by simp [hx]))
    have hge := decVal_ge t (acc * 10 + (d - 48))
    simp only [atoiAcc, hd, if_true]
    have hdv : decVal acc (d :: t) = decVal (acc * 10 + (d - 48)) t := by simp [decVal]
    rw [hdv]
    by_cases hlt : acc * 10 + (d - 48) < 9223372036854775808
    · simp only [hlt, if_true, ht]
      cases t with
      | nil => simp [decVal, hlt]
      | cons x r => simp
    · have : ¬ decVal (acc * 10 + (d - 48)) t < 9223372036854775808 := by omega
      simp [hlt, this]

/-- What the conversion computes on `NUM = [0-9]+`: the decimal value when it is positive and fits
an `int` (< 2^63), the diagnostic otherwise (`0`, `000`, 2^63 and above). -/
theorem qualif_value (ds : List Nat) (hne : ds ≠ []) (hd : ∀ d ∈ ds, isDigit d = true) :
    qualif ds = if 0 < decVal 0 ds ∧ decVal 0 ds < 9223372036854775808 then .prec (decVal 0 ds) else .diag := by
  have ha : atoi ds = if decVal 0 ds < 9223372036854775808 then some (decVal 0 ds) else none := by
    cases ds with
    | nil => exact absurd rfl hne
    | cons d t => simpa [atoi] using atoiAcc_eq (d :: t) 0 hd
  have hq : qualif ds = qualifU ds := by
    cases ds with
    | nil => rfl
    | cons d t =>
      have hdd : isDigit d = true := hd d (by simp)
      simp only [isDigit, Bool.and_eq_true, decide_eq_true_eq] at hdd
      unfold qualif
      split
      · rename_i heq; simp at heq; omega
      · rename_i heq; simp at heq; omega
      · rfl
  rw [hq]
  unfold qualifU
  rw [ha]
  by_cases h1 : decVal 0 ds < 9223372036854775808
  · by_cases h2 : decVal 0 ds = 0
    · simp [h2]
    · have : 0 < decVal 0 ds := Nat.pos_of_ne_zero h2
      simp [h1, h2, this]
  · simp [h1]

/-- D11, as pinned and as repaired: `@left(0)` and `@left(99999999999999999999)`. -/
example :
    qualifPinned [48] = .panic "precedence must be positive" ∧ qualif [48] = .diag ∧
    qualifPinned [57, 57, 57, 57, 57, 57, 57, 57, 57, 57, 57, 57, 57, 57, 57, 57, 57, 57, 57, 57] = .panic "strconv.Atoi" ∧
    qualif [57, 57, 57, 57, 57, 57, 57, 57, 57, 57, 57, 57, 57, 57, 57, 57, 57, 57, 57, 57] = .diag ∧
    qualif [52, 50] = .prec 42 ∧ qualif [43, 49] = .prec 1 ∧ qualif [45, 49] = .diag := by decide

/-! ## `rang3.Subtract`: the `default: panic("unreachable")` arm -/

/-- The five `case` conditions of the `switch` in `Subtract` (range.go) are a complete case split
for any two ranges, so the `default` arm is dead code (no invariant is needed). -/
theorem subtract_cases_exhaustive (aB aE bB bE : Int) :
    aB > bE ∨ (aB ≥ bB ∧ aE ≤ bE) ∨ (aB < bB ∧ aE > bE) ∨ (aB < bB ∧ aE ≤ bE) ∨ (aB ≥ bB ∧ aE > bE) := by
  omega

/-! ## No-panic theorems of other properties that C12's site list refers to -/

/-- `rang3.Normalize` never reaches `panic("not reached")` (ranges with `b ≤ e`). -/
theorem normalize_total : type_of% @Lox.Props.C15.normalize_total := @Lox.Props.C15.normalize_total

/-- `table.AddRow` panics exactly when the indices are not increasing. -/
theorem build_total : type_of% @Lox.Props.C10.build_total := @Lox.Props.C10.build_total

/-- The generated `PushRune` never indexes a well-formed mode table out of range. -/
theorem no_oob : type_of% @Lox.Props.C11.no_oob := @Lox.Props.C11.no_oob

/-- The generated `parse()` never panics on validated tables. -/
theorem parse_no_panic : type_of% @Lox.Props.C01.parse_no_panic := @Lox.Props.C01.parse_no_panic

/-- `AssignActions` reaches none of its asserts / index / type-assertion panics on well-formed input. -/
theorem assign_no_panic : type_of% @Lox.Props.C06.assign_no_panic := @Lox.Props.C06.assign_no_panic

end Lox.Props.C12
