import Lox.Dec.AnalyzeProofs
import Lox.Dec.AnalyzeFaults
import Lox.Dec.AnalyzeDecide
/-! # C17 — ill-formed specifications are rejected at the right place, well-formed ones never

`analyze` (`Lox/Dec/Analyze.lean`) models `ParseLox` up to `Context.Analyze(spec, AllPasses)` of
`/repo/internal`: the list of diagnostics in the order they are printed, with the early exits of the
passes. `WellFormed` is the property's notion of a well-formed specification, written from its text.

Scope notes.
* `single_fault` injects by ADDING one faulty declaration at an arbitrary place (29 injectors, see
  `Injection`). Variants that MODIFY an existing declaration (emptying the literal of a token the
  parser uses, turning an existing rule into a second `@start`, closing a cycle through macros that
  tokens use), name faults placed inside a mode block, and several faults at once are covered by
  `analyze_nil_iff` (some diagnostic) and `diag_in_decl` (inside the blamed declaration) and are
  exercised against the real front end by the harness family `analyze`.
* "Conflicting lexer actions" (rules of two files that accept the same text in one mode) is raised
  while the automaton of the mode is built; it is not a property of the declarations' shape and is
  outside `analyze` (see the header of `Lox/Dec/Analyze.lean`). -/
namespace Lox.Props.C17
open Lox.Dec.Analyze

/-- The front end accepts a specification exactly when it is well formed: an ill-formed
specification gets at least one diagnostic, a well-formed one gets none. -/
theorem analyze_nil_iff (s : Spec) : analyze s = [] ↔ WellFormed s :=
  analyze_nil_iff_wellFormed s

/-- `WellFormed` is decidable: `wellFormedB`, written clause by clause after the predicate (a bounded
walk search for macro cycles, no passes), decides it. The driver prints it next to the model's
diagnostics, so every harness case also compares it with what the generator intended. -/
theorem wellFormedB_decides (s : Spec) : wellFormedB s = true ↔ WellFormed s :=
  Lox.Dec.Analyze.wellFormedB_iff s

/-- Hence acceptance by the front end is the decision procedure's verdict. -/
theorem analyze_nil_iff_wellFormedB (s : Spec) : analyze s = [] ↔ wellFormedB s = true :=
  (analyze_nil_iff s).trans (wellFormedB_decides s).symm

/-- Every diagnostic that blames a declaration lies inside that declaration: there is a declaration
of the specification with the blamed identifier whose first line is not after, and whose last line
is not before, the diagnostic's line. (The only diagnostic that blames no declaration is
"@start rule undefined", which the Go code prints without position.) -/
theorem diag_in_decl (s : Spec) (d : Diag) (hd : d ∈ analyze s) (i : DeclId) (hi : d.decl = some i) :
    ∃ D ∈ s.decls, D.id = i ∧ D.lo ≤ d.line ∧ d.line ≤ D.hi := by
  obtain ⟨D, hD, hid, hl⟩ := analyze_inDecls hd i hi
  exact ⟨D, hD, hid, listMin_le hl, le_listMax hl⟩

/-- A small specification with a macro, a mode, actions, an alias and a cardinality. -/
def sample : Spec := ⟨[⟨[
  .rule (.macro 1 2 "DIGIT" [[.leaf .one (.cls ⟨2, false, [⟨48, 57⟩], 0⟩)]]),
  .rule (.token 2 3 "NUM" [[.leaf .plus (.ref 3 "DIGIT")]] []),
  .rule (.token 3 4 "PLUS" [[.leaf .one (.lit 4 "+" 0)]] [.pushMode 5 "Str"]),
  .mode 4 6 "Str" [.frag 5 7 [[.leaf .one (.dot 7)]] [.discard 7, .popMode 8]],
  .prule ⟨6, 10, true, "s", [⟨10, [⟨.name 10 "NUM", none⟩, ⟨.alias 11 "+" 0, some .opt⟩], none⟩]⟩]⟩]⟩

/-- `analyze_nil_iff` is not vacuous: the sample is accepted, hence well formed. -/
example : WellFormed sample := (analyze_nil_iff sample).1 (by decide)

/-- … and it has ill-formed neighbours: the same specification with the class reversed is rejected
at the macro, on its line. -/
example :
    analyze ⟨[⟨[.rule (.macro 1 2 "DIGIT" [[.leaf .one (.cls ⟨2, false, [⟨57, 48⟩], 0⟩)]])]⟩]⟩ =
      [⟨.reversedRange, 2, "", some 1⟩] := by decide

/-- `diag_in_decl` is not vacuous: a diagnostic on a continuation line of a declaration. -/
example : (⟨.undefinedMode, 5, "Nope", some 3⟩ : Diag) ∈
    analyze ⟨[⟨[.rule (.token 3 4 "PLUS" [[.leaf .one (.lit 4 "+" 0)]] [.pushMode 5 "Nope"])]⟩]⟩ := by decide


/-- Every single-fault variant is rejected with the expected diagnostic, which blames the injected
declaration and sits on the expected line of it. `Injection s s' k i l` (`Lox/Dec/AnalyzeFaults.lean`)
lists the injectors: `s'` is the well-formed `s` plus one declaration carrying one fault, placed
between any two statements of any file, in a new file or (lexer rules) inside any mode block. -/
theorem single_fault (s s' : Spec) (w : WellFormed s) (k : Kind) (i : Option DeclId) (l : Line)
    (inj : Injection s s' k i l) : ∃ d ∈ analyze s', d.kind = k ∧ d.decl = i ∧ d.line = l := by
  cases inj with
  | badName st E₁ h hsyn ev rest hev d ds hv =>
    exact ⟨d, fault_names h w hsyn hev (by rw [regEv_invalid hv]; exact List.mem_cons_self), rfl, rfl, rfl⟩
  | dupName st E₁ h hsyn ev rest hev hv hdup =>
    refine ⟨⟨.redefined, ev.line, ev.name, some ev.id⟩, fault_names h w hsyn hev (by
      rw [regEv_redefined hv (by simpa [Ev.entry, Function.comp_def] using hdup)]; exact List.mem_cons_self), rfl, rfl, rfl⟩
  | secondStart st E₁ h hsyn ev rest hev hv hnew hs hfirst =>
    refine ⟨⟨.startRedefined, ev.line, ev.name, some ev.id⟩, fault_names h w hsyn hev (by
      rw [regEv_startRedefined hv (by simpa [Ev.entry, Function.comp_def] using hnew) hs (by
        obtain ⟨e, he, hes⟩ := hfirst
        simp only [Env.hasStart, List.any_eq_true]
        exact ⟨e.entry, List.mem_map.2 ⟨e, he, rfl⟩, hes⟩)]
      exact List.mem_cons_self), rfl, rfl, rfl⟩
  | emptyLiteral r c ln b h =>
    exact ⟨⟨.emptyLiteral, l, "", some r.id⟩, c.placed.ins.fault_check_lex w c.fresh (by simp) c.syn
      (LexRule.check_of_leaf h (by simp [Leaf.check])), rfl, rfl, rfl⟩
  | reversedRange r c lf hl cl hc it hi hrev =>
    refine ⟨⟨.reversedRange, cl.line, "", some r.id⟩, c.placed.ins.fault_check_lex w c.fresh (by simp) c.syn
      (LexRule.check_of_leaf hl ?_), rfl, rfl, rfl⟩
    have hmem : (⟨.reversedRange, cl.line, "", some r.id⟩ : Diag) ∈ cl.check r.id := by
      simp only [CharClass.check, reversedItems, List.mem_map, List.mem_filter]
      exact ⟨it, ⟨hi, by simpa using hrev⟩, trivial⟩
    cases lf <;> simp [Leaf.classes] at hc
    · subst hc; exact hmem
    · rcases hc with rfl | rfl
      · simp only [Leaf.check, List.mem_append]; exact Or.inl hmem
      · simp only [Leaf.check, List.mem_append]; exact Or.inr hmem
  | undefinedRef r c ln n h hu =>
    exact ⟨⟨.undefined, l, n, some r.id⟩, c.placed.ins.fault_check_lex w c.fresh (by simp) c.syn
      (LexRule.check_of_leaf h (by simp [Leaf.check, hu])), rfl, rfl, rfl⟩
  | refNotMacro r c ln n h e hu hk =>
    refine ⟨⟨.notMacro, l, n, some r.id⟩, c.placed.ins.fault_check_lex w c.fresh (by simp) c.syn
      (LexRule.check_of_leaf h ?_), rfl, rfl, rfl⟩
    cases e <;> simp [Leaf.check, hu, Ent.isMacro] at hk ⊢
  | undefinedMode r c ln m h hu =>
    exact ⟨⟨.undefinedMode, l, m, some r.id⟩, c.placed.ins.fault_check_lex w c.fresh (by simp) c.syn
      (LexRule.check_of_action h (by simp [Action.check, hu])), rfl, rfl, rfl⟩
  | emitUndefined r c ln n h hu =>
    exact ⟨⟨.undefined, l, n, some r.id⟩, c.placed.ins.fault_check_lex w c.fresh (by simp) c.syn
      (LexRule.check_of_action h (by simp [Action.check, hu])), rfl, rfl, rfl⟩
  | emitNonToken r c ln n h e hu hk =>
    refine ⟨⟨.notToken, l, n, some r.id⟩, c.placed.ins.fault_check_lex w c.fresh (by simp) c.syn
      (LexRule.check_of_action h ?_), rfl, rfl, rfl⟩
    cases e <;> simp [Action.check, hu, Ent.isToken, Ent.isExt] at hk ⊢
  | badEscapeLex r h ln t b hl =>
    refine ⟨⟨.badEscape, l, "", some r.id⟩, h.ins.fault_syntax w (Or.inl ⟨r, by simp, ?_⟩), rfl, rfl, rfl⟩
    exact LexRule.syntax_of_leaf hl (by simp [Leaf.syntaxDiags, rep, List.replicate_succ])
  | tokenDiscard id l n e acts c h1 h2 =>
    refine ⟨⟨.tokenDiscard, l, "", some id⟩, c.placed.ins.fault_generate_lex w c.fresh c.noAlias c.syn c.checked ?_, rfl, rfl, rfl⟩
    simp only [LexRule.generate, List.mem_append]
    exact Or.inr (tokenDiscard_mem id l acts h1 h2)
  | tokenEmit id l n e acts c h1 h2 =>
    refine ⟨⟨.tokenEmit, l, "", some id⟩, c.placed.ins.fault_generate_lex w c.fresh c.noAlias c.syn c.checked ?_, rfl, rfl, rfl⟩
    simp only [LexRule.generate, List.mem_append]
    exact Or.inr (tokenEmit_mem id l acts h1 h2)
  | fragTwoDiscard id l e acts c h1 h2 =>
    refine ⟨⟨.fragTwoDiscard, l, "", some id⟩, c.placed.ins.fault_generate_lex w c.fresh c.noAlias c.syn c.checked ?_, rfl, rfl, rfl⟩
    simp only [LexRule.generate, List.mem_append]
    exact Or.inr (fragTwoDiscard_mem id l acts false (by simpa [b2n] using h1) h2)
  | fragTwoEmit id l e acts c h1 h2 =>
    refine ⟨⟨.fragTwoEmit, l, "", some id⟩, c.placed.ins.fault_generate_lex w c.fresh c.noAlias c.syn c.checked ?_, rfl, rfl, rfl⟩
    simp only [LexRule.generate, List.mem_append]
    exact Or.inr (fragTwoEmit_mem id l acts false (by simpa [b2n] using h1) h2)
  | fragBoth id l e acts c h1 h2 =>
    refine ⟨⟨.fragDiscardAndEmit, l, "", some id⟩, c.placed.ins.fault_generate_lex w c.fresh c.noAlias c.syn c.checked ?_, rfl, rfl, rfl⟩
    simp only [LexRule.generate, List.mem_append]
    exact Or.inr (fragBoth_mem id l acts false false (by simpa [b2n] using h1) (by simpa [b2n] using h2))
  | macroCycle id l n e c hsh hn =>
    refine ⟨⟨.macroCycle, l, "", some id⟩, c.placed.ins.fault_generate_lex w c.fresh c.noAlias c.syn c.checked
      (selfCycle_mem ?_ hsh hn), rfl, rfl, rfl⟩
    obtain ⟨_, c1, _, _⟩ := wf_clean w
    have c1' := c.placed.ins.clean1 c1 c.fresh (by simp)
    exact lookup_of_mem c1'.nodup (declared_of_macro_rule (c.placed.ins.mem_lex.2 (Or.inr (by simp))))
  | parserUndefined r c ln n h hu =>
    obtain ⟨p, hp, t, ht, hx⟩ := mem_ratoms h
    exact ⟨⟨.undefined, l, n, some r.id⟩, c.placed.ins.fault_check_par w c.fresh c.notStart c.syn
      (PRule.check_of_term hp ht (PAtom.check_of_atom hx (by simp [PAtom.checkSelf, PAtom.check, hu]))), rfl, rfl, rfl⟩
  | parserNotRuleOrToken r c ln n h e hu hk =>
    obtain ⟨p, hp, t, ht, hx⟩ := mem_ratoms h
    refine ⟨⟨.notRuleOrToken, l, n, some r.id⟩, c.placed.ins.fault_check_par w c.fresh c.notStart c.syn
      (PRule.check_of_term hp ht (PAtom.check_of_atom hx ?_)), rfl, rfl, rfl⟩
    cases e <;> simp [PAtom.checkSelf, PAtom.check, hu, Ent.isToken, Ent.isRule, Ent.isExt] at hk ⊢
  | unknownAlias r c ln t b h ht hu =>
    obtain ⟨p, hp, tm, htm, hx⟩ := mem_ratoms h
    have hte : t.isEmpty = false := by
      cases hh : t.isEmpty
      · rfl
      · exact absurd (String.isEmpty_iff.1 hh) ht
    exact ⟨⟨.unknownLiteral, l, t, some r.id⟩, c.placed.ins.fault_check_par w c.fresh c.notStart c.syn
      (PRule.check_of_term hp htm (PAtom.check_of_atom hx (by simp [PAtom.checkSelf, PAtom.check, hte, hu]))), rfl, rfl, rfl⟩
  | ambiguousAlias r c ln t b h ht hu =>
    obtain ⟨p, hp, tm, htm, hx⟩ := mem_ratoms h
    have hte : t.isEmpty = false := by
      cases hh : t.isEmpty
      · rfl
      · exact absurd (String.isEmpty_iff.1 hh) ht
    refine ⟨⟨.ambiguousLiteral, l, t, some r.id⟩, c.placed.ins.fault_check_par w c.fresh c.notStart c.syn
      (PRule.check_of_term hp htm (PAtom.check_of_atom hx ?_)), rfl, rfl, rfl⟩
    obtain ⟨k, hk⟩ : ∃ k, s'.declared.aliasCount t = k + 2 := ⟨s'.declared.aliasCount t - 2, by omega⟩
    simp [PAtom.checkSelf, PAtom.check, hte, hk]
  | listEntryNotSimple r c ln e sp h hk =>
    obtain ⟨p, hp, t, ht, hx⟩ := mem_ratoms h
    exact ⟨⟨.listEntryNotSimple, e.line, "", some r.id⟩, c.placed.ins.fault_check_par w c.fresh c.notStart c.syn
      (PRule.check_of_term hp ht (PAtom.check_of_atom hx (by simp [PAtom.checkSelf, hk]))), rfl, rfl, rfl⟩
  | listSepNotSimple r c ln e sp h hk hk' =>
    obtain ⟨p, hp, t, ht, hx⟩ := mem_ratoms h
    exact ⟨⟨.listSepNotSimple, e.line, "", some r.id⟩, c.placed.ins.fault_check_par w c.fresh c.notStart c.syn
      (PRule.check_of_term hp ht (PAtom.check_of_atom hx (by simp [PAtom.checkSelf, hk, hk']))), rfl, rfl, rfl⟩
  | emptyAlias r h ln b ha =>
    obtain ⟨p, hp, t, ht, hx⟩ := mem_ratoms ha
    refine ⟨⟨.emptyLiteral, l, "", some r.id⟩, h.ins.fault_syntax w (Or.inr ⟨r, by simp [Stmt.prules], ?_⟩), rfl, rfl, rfl⟩
    apply PRule.syntax_of_term hp ht
    simp only [PTerm.syntaxDiags, List.mem_append]
    exact Or.inl (PAtom.syntax_of_atom hx (by simp [PAtom.syntaxSelf, PAtom.syntaxDiags]))
  | badEscapePar r h ln t b ha =>
    obtain ⟨p, hp, tm, htm, hx⟩ := mem_ratoms ha
    refine ⟨⟨.badEscape, l, "", some r.id⟩, h.ins.fault_syntax w (Or.inr ⟨r, by simp [Stmt.prules], ?_⟩), rfl, rfl, rfl⟩
    apply PRule.syntax_of_term hp htm
    simp only [PTerm.syntaxDiags, List.mem_append]
    exact Or.inl (PAtom.syntax_of_atom hx (by simp [PAtom.syntaxSelf, PAtom.syntaxDiags, rep, List.replicate_succ]))
  | badPrecedence r h p hp q hq hb =>
    refine ⟨⟨.badPrecedence, q.line, "", some r.id⟩, h.ins.fault_syntax w (Or.inr ⟨r, by simp [Stmt.prules], ?_⟩), rfl, rfl, rfl⟩
    simp only [List.mem_flatMap, Prod.syntaxDiags, List.mem_append]
    exact ⟨p, hp, Or.inr (by simp [hq, Qual.syntaxDiags, hb])⟩
  | noStart r c hnone hck =>
    exact ⟨⟨.startUndefined, 0, "", none⟩, fault_noStart c.placed w hnone c.fresh c.notStart c.syn hck, rfl, rfl, rfl⟩
  | listCard r h t ht hb =>
    obtain ⟨p, hp, ht⟩ := mem_terms.1 ht
    refine ⟨⟨.listCard, t.atom.line, "", some r.id⟩, h.ins.fault_syntax w (Or.inr ⟨r, by simp [Stmt.prules], ?_⟩), rfl, rfl, rfl⟩
    apply PRule.syntax_of_term hp ht
    simp [PTerm.syntaxDiags, hb]

/-- … and that diagnostic lies inside the span of the injected declaration. -/
theorem single_fault_in_decl (s s' : Spec) (w : WellFormed s) (k : Kind) (i : DeclId) (l : Line)
    (inj : Injection s s' k (some i) l) :
    ∃ d ∈ analyze s', d.kind = k ∧ d.line = l ∧ ∃ D ∈ s'.decls, D.id = i ∧ D.lo ≤ d.line ∧ d.line ≤ D.hi := by
  obtain ⟨d, hd, hk, hi, hl⟩ := single_fault s s' w k (some i) l inj
  exact ⟨d, hd, hk, hl, diag_in_decl s' d hd i hi⟩


/-- `single_fault` is not vacuous: a fragment with an empty literal put into a new file after the
sample's file is an injection, … -/
def sampleUnit : Lox.Dec.Analyze.Unit := ⟨[
  .rule (.macro 1 2 "DIGIT" [[.leaf .one (.cls ⟨2, false, [⟨48, 57⟩], 0⟩)]]),
  .rule (.token 2 3 "NUM" [[.leaf .plus (.ref 3 "DIGIT")]] []),
  .rule (.token 3 4 "PLUS" [[.leaf .one (.lit 4 "+" 0)]] [.pushMode 5 "Str"]),
  .mode 4 6 "Str" [.frag 5 7 [[.leaf .one (.dot 7)]] [.discard 7, .popMode 8]],
  .prule ⟨6, 10, true, "s", [⟨10, [⟨.name 10 "NUM", none⟩, ⟨.alias 11 "+" 0, some .opt⟩], none⟩]⟩]⟩

def badFrag : LexRule := .frag 7 1001 [[.leaf .one (.lit 1001 "x" 0), .leaf .star (.lit 1002 "" 0)]] [.discard 1003]

example : Injection ⟨[sampleUnit]⟩ ⟨[sampleUnit, ⟨[.rule badFrag]⟩]⟩ .emptyLiteral (some 7) 1002 :=
  .emptyLiteral badFrag
    { placed := Or.inl (AddedStmt.newUnit [sampleUnit] [])
      fresh := ⟨by simp [badFrag, LexRule.events], by simp [badFrag, LexRule.events], by simp [badFrag, LexRule.events],
        by simp [badFrag, LexRule.events]⟩
      syn := by decide }
    1002 0 (by decide)

/-- A name fault: a macro named like the token `NUM`, put between the mode block and the parser rule
of the sample's file (the registrations before that place include `NUM`). -/
def dupMacro : Stmt := .rule (.macro 8 9 "NUM" [[.leaf .one (.lit 9 "n" 0)]])

example : Injection ⟨[sampleUnit]⟩
    ⟨[⟨sampleUnit.stmts.take 4 ++ dupMacro :: sampleUnit.stmts.drop 4⟩]⟩ .redefined (some 8) 9 :=
  .dupName dupMacro _ (AddedStmtAt.inUnit [] [] (sampleUnit.stmts.take 4) (sampleUnit.stmts.drop 4))
    ⟨by decide, by simp [dupMacro, Stmt.prules]⟩ ⟨8, 9, "NUM", .macro 8 9 [[.leaf .one (.lit 9 "n" 0)]], .lexical⟩ [] rfl
    (by decide) (by decide)

/-- A fault of the last pass: a token with `@discard`, inside the mode block. -/
def discardedToken : LexRule := .token 9 8 "WS" [[.leaf .plus (.lit 8 " " 0)]] [.discard 8]

example : Injection ⟨[sampleUnit]⟩
    ⟨[⟨sampleUnit.stmts.take 3 ++
        .mode 4 6 "Str" ([.frag 5 7 [[.leaf .one (.dot 7)]] [.discard 7, .popMode 8]] ++ discardedToken :: []) ::
        sampleUnit.stmts.drop 4⟩]⟩ .tokenDiscard (some 9) 8 :=
  .tokenDiscard 9 8 "WS" _ _
    { placed := Or.inr (AddedInMode.mk [] [] (sampleUnit.stmts.take 3) (sampleUnit.stmts.drop 4) 4 6 "Str"
        [.frag 5 7 [[.leaf .one (.dot 7)]] [.discard 7, .popMode 8]] [])
      fresh := ⟨by decide, by decide, by decide, by decide⟩
      syn := by decide
      noAlias := by
        intro ev hev t
        simp only [LexRule.events, List.mem_singleton] at hev
        subst hev; rfl
      checked := by decide }
    (by decide) (by decide)

/-- … and the model indeed answers with that diagnostic only. -/
example : analyze ⟨[sampleUnit, ⟨[.rule badFrag]⟩]⟩ = [⟨.emptyLiteral, 1002, "", some 7⟩] := by decide

end Lox.Props.C17
