import Lox.Dec.AnalyzeProofs
/-! # C17 — ill-formed specifications are rejected at the right place, well-formed ones never

`analyze` (`Lox/Dec/Analyze.lean`) models `ParseLox` up to `Context.Analyze(spec, AllPasses)` of
`/repo/internal`: the list of diagnostics in the order they are printed, with the early exits of the
passes. `WellFormed` is the property's notion of a well-formed specification, written from its text. -/
namespace Lox.Props.C17
open Lox.Dec.Analyze

/-- The front end accepts a specification exactly when it is well formed: an ill-formed
specification gets at least one diagnostic, a well-formed one gets none. -/
theorem analyze_nil_iff (s : Spec) : analyze s = [] ↔ WellFormed s :=
  analyze_nil_iff_wellFormed s

/-- Every diagnostic that blames a declaration lies inside that declaration: there is a declaration
of the specification with the blamed identifier whose first line is not after, and whose last line
is not before, the diagnostic's line. (The only diagnostic that blames no declaration is
"@start rule undefined", which the Go code prints without position.) -/
theorem diag_in_decl (s : Spec) (d : Diag) (hd : d ∈ analyze s) (i : DeclId) (hi : d.decl = some i) :
    ∃ D ∈ s.decls, D.id = i ∧ D.lo ≤ d.line ∧ d.line ≤ D.hi := by
  obtain ⟨D, hD, hid, hl⟩ := analyze_inDecls hd i hi
  exact ⟨D, hD, hid, listMin_le hl, le_listMax hl⟩

/-- A small specification with a macro, a mode, actions, an alias and a cardinality. -/
def sample : Spec := ⟨[⟨[
  .rule (.macro 1 2 "DIGIT" [[.leaf .one (.cls ⟨2, false, [⟨48, 57⟩], 0⟩)]]),
  .rule (.token 2 3 "NUM" [[.leaf .plus (.ref 3 "DIGIT")]] []),
  .rule (.token 3 4 "PLUS" [[.leaf .one (.lit 4 "+" 0)]] [.pushMode 5 "Str"]),
  .mode 4 6 "Str" [.frag 5 7 [[.leaf .one (.dot 7)]] [.discard 7, .popMode 8]],
  .prule ⟨6, 10, true, "s", [⟨10, [⟨.name 10 "NUM", none⟩, ⟨.alias 11 "+" 0, some .opt⟩], none⟩]⟩]⟩]⟩

/-- `analyze_nil_iff` is not vacuous: the sample is accepted, hence well formed. -/
example : WellFormed sample := (analyze_nil_iff sample).1 (by decide)

/-- … and it has ill-formed neighbours: the same specification with the class reversed is rejected
at the macro, on its line. -/
example :
    analyze ⟨[⟨[.rule (.macro 1 2 "DIGIT" [[.leaf .one (.cls ⟨2, false, [⟨57, 48⟩], 0⟩)]])]⟩]⟩ =
      [⟨.reversedRange, 2, "", some 1⟩] := by decide

/-- `diag_in_decl` is not vacuous: a diagnostic on a continuation line of a declaration. -/
example : (⟨.undefinedMode, 5, "Nope", some 3⟩ : Diag) ∈
    analyze ⟨[⟨[.rule (.token 3 4 "PLUS" [[.leaf .one (.lit 4 "+" 0)]] [.pushMode 5 "Nope"])]⟩]⟩ := by decide

end Lox.Props.C17
