import Lox.Lex.RuntimeProofs
/-! # C11 – Lexing reaches EOF and accounts for every character

"For every accepted specification and every input, repeatedly reading tokens reaches EOF after
finitely many steps. Every character before EOF is accounted for exactly once and in order: in the
text of an emitted token, in text dropped by a @discard rule, or in the stretch reported by an
ERROR token. No input makes the lexer loop forever or silently swallow text."

The theorems are about the executable model `Lox/Lex/Model.lean` of the generated
`_LexerStateMachine.PushRune` / `Reset` (`internal/codegen/emit_lexer.go`) and of the reference
driver `simplelexer.ReadToken` / `consume` (loxlex v0.5.0), for **all** inputs and **all** tables
satisfying the decidable predicate `WFModes` (`Lox/Lex/Runtime.lean`; checker `wfModes`, run on every
emitted table by the `lex.wfmodes` op). Two conjuncts of `WFModes` are forced by the proofs:

* *state 0 is not accepting* – fails for a rule matching the empty string: known finding K3
  (`k3_*` below: the model hangs / emits empty tokens forever);
* *no transition leads to state 0* – guaranteed by `mode.splitStartState` (fix of D6).

Accumulated text pending at EOF (known finding K5) is dropped by the driver; the conservation
theorem makes it a segment kind of its own (`SegKind.pending`) – the only unreported one. -/
namespace Lox.Props.C11
open Lox.Lex Lox.Lex.Rt

/-- The checker decides the hypothesis of all theorems below. -/
theorem wfModes_sound (modes : Array Mode) : wfModes modes = true ↔ WFModes modes :=
  wfModes_iff modes

/-- **No Go panic.** On a well-formed table, from a state machine whose state, mode and saved
modes are in range, `PushRune` never indexes out of range for any rune; current and saved modes
stay in range, and so does the state unless `_lexerError` is returned (an error from a
`@pop_mode` on the empty stack after earlier mode actions of the same rule leaves the old state
with a new mode; `ReadToken` calls `Reset()` right away, see `inRange_after_reset`). -/
theorem no_oob {modes : Array Mode} (hwf : WFModes modes) {sm : SM} (hin : InRange modes sm)
    (r : Int) :
    (pushRune modes sm r).1 ≠ .oob ∧ ModesOK modes (pushRune modes sm r).2 ∧
    ((pushRune modes sm r).1 ≠ .error → InRange modes (pushRune modes sm r).2) :=
  pushRune_no_oob hwf hin r

theorem inRange_after_reset {modes : Array Mode} (hwf : WFModes modes) {sm : SM}
    (hok : ModesOK modes sm) : InRange modes sm.reset :=
  inRange_reset hwf hok

/-- The binary search of `PushRune` is a linear lookup on sorted disjoint rows. -/
theorem bsearch_is_lookup (m : Mode) (r base gotoN : Int) (ts : List Triple)
    (hdec : readTriples m gotoN.toNat base = some ts) (h0 : 0 ≤ gotoN)
    (hs : ts.Pairwise (fun a b => a.hi < b.lo)) (hle : ∀ t ∈ ts, t.lo ≤ t.hi) :
    bsearch m r base (gotoN.toNat + 1) 0 gotoN = some (lookup ts r) :=
  bsearch_linear m r base gotoN ts hdec h0 hs hle

/-- **`PushRune` characterised**: on a well-formed table the call consumes iff the row is not a
non-greedy accepting one (flag 0) and some triple of the row contains `r` (then the new state is
that triple's target); otherwise the row's action pairs are executed left to right
(`execPairs`). -/
theorem pushRune_char {modes : Array Mode} (hwf : WFModes modes) {sm : SM}
    (hin : InRange modes sm) (r : Int) :
    ∃ m row, modes[sm.mode.getD 0]? = some m ∧ decodeRow m sm.state = some row ∧
      pushRune modes sm r =
        match (if row.flags % 2 = 0 then lookup row.triples r else none) with
        | some st => (.consume, { sm with mode := some (sm.mode.getD 0), state := st })
        | none => execPairs modes.size r row.pairs { sm with mode := some (sm.mode.getD 0) } := by
  obtain ⟨_, hst0, m, hm, hlt⟩ := hin
  obtain ⟨_, hrows⟩ := hwf.2 _ m hm
  obtain ⟨row, hrow, rwf⟩ := hrows _ hlt
  have hcast : ((sm.state.toNat : Nat) : Int) = sm.state := by omega
  rw [hcast] at hrow
  refine ⟨m, row, hm, hrow, ?_⟩
  rw [pushRune_eq_stepRow modes sm r m row hm hrow rwf.sorted.1
    (fun t ht => (rwf.sorted.2 t ht).2)]
  rfl

/-- **Progress of one `ReadToken` call** (explicit bound: `2 · remaining runes + 1` `PushRune`
calls). On a well-formed table, from the start state of an in-range state machine, the call
returns – it neither loops (`none`) nor panics (`some (none, _)`) – and
* (a) returns a token, possibly after discards, having advanced by at least one rune, or
* (b) returns EOF, and then the driver is at the end of the input, or
* (c) returns an ERROR token, having advanced by at least one rune.
Afterwards the state machine is again at a start state and in range. -/
theorem progress {modes : Array Mode} (hwf : WFModes modes) (inp : Input) (hv : ValidInput inp)
    (fuel : Nat) (l : Lx) (hin : InRange modes l.sm) (h0 : l.sm.state = 0)
    (hidx : l.idx ≤ inp.size) (hfuel : 2 * (inp.size - l.idx) + 1 ≤ fuel) :
    ∃ t l', readToken modes inp fuel none l = some (some t, l') ∧
      InRange modes l'.sm ∧ l'.sm.state = 0 ∧ l'.idx ≤ inp.size ∧
      match t with
      | .tok _ _ _ => l.idx < l'.idx
      | .eof _ => l'.idx = inp.size
      | .err _ _ => l.idx < l'.idx := by
  obtain ⟨t, l', e, i1, i2, i3, i4, i5, i6⟩ :=
    readToken_progress hwf inp fuel none l hin (by simp only [h0, if_true]; omega)
  refine ⟨t, l', e, i1, i2, i4 hidx, ?_⟩
  cases t with
  | tok ty a b => exact i6 (by simp) h0
  | err a c => exact i6 (by simp) h0
  | eof p =>
    simp only
    have hc := i5 p rfl
    have hle := i4 hidx
    by_cases hlt : l'.idx < inp.size
    · exfalso
      unfold Lx.char at hc
      rw [Array.getElem?_eq_getElem hlt] at hc
      have := hv inp[l'.idx] (by simp)
      simp only at hc
      omega
    · omega

/-- **`lexAll` terminates at EOF**: with per-call fuel `> 2 · inp.size` and more than `inp.size`
calls allowed, the status is `"ok"` – never `"timeout"` (the real lexer would not return) and
never `"panic"` – and the token list is a list of non-EOF tokens followed by one EOF token. -/
theorem lexAll_terminates {modes : Array Mode} (hwf : WFModes modes) (inp : Input)
    (fuel n : Nat) (hfuel : 2 * inp.size < fuel) (hn : inp.size < n) :
    ∃ ts p, lexAll modes inp fuel n {} [] = (ts ++ [.eof p], "ok") ∧ ∀ t ∈ ts, ∀ q, t ≠ .eof q := by
  obtain ⟨ts, p, e, h⟩ :=
    lexAll_progress hwf inp fuel hfuel n {} [] (inRange_init hwf) rfl (Nat.zero_le _) (by simpa using hn)
  exact ⟨ts, p, by simpa using e, h⟩

/-- Whatever the fuel, a run on a well-formed table never ends in a Go panic. -/
theorem lexAll_never_panics {modes : Array Mode} (hwf : WFModes modes) (inp : Input)
    (fuel n : Nat) : (lexAll modes inp fuel n {} []).2 ≠ "panic" :=
  lexAll_no_panic hwf inp fuel n {} [] (inRange_init hwf)

/-- The driver op `lex.run f` calls `lexAll … f f`: any `f > 2 · inp.size` is enough. -/
theorem lexAll_terminates_drv {modes : Array Mode} (hwf : WFModes modes) (inp : Input)
    (f : Nat) (hf : 2 * inp.size < f) : (lexAll modes inp f f {} []).2 = "ok" := by
  obtain ⟨ts, p, e, _⟩ := lexAll_terminates hwf inp f f hf (by omega)
  rw [e]

/-! ## Non-vacuity: a real two-mode table
`A = 'a'`, `@frag '"' @push_mode(S)`, `@mode S { STR = '"' @pop_mode   @frag [b-z] }`,
`@frag ' '+ @discard` – the `_lexerMode0/1` arrays emitted by lox for this spec. -/

def exModes : Array Mode := #[
  #[4, 16, 24, 31, 11, 0, 3, 32, 32, 1, 34, 34, 2, 97, 97, 3, 7, 0, 1, 32, 32, 1, 4, 0, 6, 0, 0, 1,
    1, 5, 0, 4, 0, 0, 3, 2],
  #[3, 12, 17, 8, 0, 2, 34, 34, 2, 98, 122, 1, 4, 0, 0, 5, 0, 6, 0, 0, 2, 0, 3, 3]]

example : wfModes exModes = true := by decide
example : WFModes exModes := by decide
example : InRange exModes ({} : SM) := inRange_init (by decide)

/-- The hypotheses of `bsearch_is_lookup` on the row of state 0 of mode 0. -/
example : readTriples exModes[0]! 3 7 = some [(32, 32, 1), (34, 34, 2), (97, 97, 3)] ∧
    sortedFrom (-1) [(32, 32, 1), (34, 34, 2), (97, 97, 3)] = true := by decide

/-- `a "bc"` lexes to `A`, `STR` (text `"bc"`, the two fragments accumulated), EOF. -/
example : lexAll exModes #[(97, 1), (32, 1), (34, 1), (98, 1), (99, 1), (34, 1)] 20 20 {} []
    = ([.tok 2 0 1, .tok 3 2 6, .eof 6], "ok") := by decide

/-! ## Conservation: every byte is in exactly one segment -/

/-- **Erasure**: the ghost-instrumented driver computes what the plain driver computes. -/
theorem ghost_erase (modes : Array Mode) (inp : Input) (fuel n : Nat) (l : Lx) (acc : List Tok)
    (g : List Ev) :
    ((lexAllG modes inp fuel n l acc g).1, (lexAllG modes inp fuel n l acc g).2.1)
      = lexAll modes inp fuel n l acc ∧
    (readTokenG modes inp fuel none l g).map (fun x => (x.1, x.2.1))
      = readToken modes inp fuel none l :=
  ⟨lexAllG_erase modes inp fuel n l acc g, readTokenG_erase modes inp fuel none l g⟩

/-- **Conservation for any table** (no well-formedness needed): whenever a run on a valid input
reaches EOF, the logged segments – text of an emitted token (`tok`), text dropped by `@discard`
(`discarded`), stretch of an ERROR token (`error`), text still pending when EOF was returned
(`pending`) – are contiguous and in order, start at byte 0 and end at the byte length of the
input; the tokens handed to the caller are exactly the reports of the segments, in order: a `tok`
segment is the token with that text, an `error` segment the ERROR token positioned at its start,
the `pending` segment only yields the EOF token positioned at its start, and a `discarded` one
yields nothing. So `pending` is the only kind whose text is reported by nothing although no
`@discard` rule dropped it (known finding K5). -/
theorem conservation_any_table (modes : Array Mode) (inp : Input) (hv : ValidInput inp)
    (fuel n : Nat) (toks : List Tok) (log : List Ev)
    (h : lexAllG modes inp fuel n {} [] [] = (toks, "ok", log)) :
    Contig (segsOf log) 0 (totalBytes inp) ∧ (segsOf log).filterMap Seg.report = toks :=
  lexAllG_conservation modes inp hv fuel n toks log h

/-- **Conservation (C11).** On a well-formed table, for every valid input and enough fuel, the
run reaches EOF (`"ok"`), its tokens are those of `lexAll`, and the segments partition the input
as in `conservation_any_table`. -/
theorem conservation {modes : Array Mode} (hwf : WFModes modes) (inp : Input) (hv : ValidInput inp)
    (fuel n : Nat) (hfuel : 2 * inp.size < fuel) (hn : inp.size < n) :
    ∃ toks log, lexAllG modes inp fuel n {} [] [] = (toks, "ok", log) ∧
      lexAll modes inp fuel n {} [] = (toks, "ok") ∧
      Contig (segsOf log) 0 (totalBytes inp) ∧
      (segsOf log).filterMap Seg.report = toks := by
  obtain ⟨ts, p, e, _⟩ := lexAll_terminates hwf inp fuel n hfuel hn
  have he := lexAllG_erase modes inp fuel n {} [] []
  rw [e] at he
  generalize hr : lexAllG modes inp fuel n {} [] [] = r at he
  obtain ⟨toks, status, log⟩ := r
  simp only [Prod.mk.injEq] at he
  obtain ⟨h1, h2⟩ := he
  subst h1 h2
  obtain ⟨c1, c2⟩ := lexAllG_conservation modes inp hv fuel n _ log hr
  exact ⟨_, log, rfl, e, c1, c2⟩

/-- Contiguous segments read as text: concatenating the stretches gives back the input bytes. -/
theorem segments_concat {α : Type} (bytes : List α) (inp : Input) (segs : List Seg)
    (hlen : bytes.length = totalBytes inp) (h : Contig segs 0 (totalBytes inp)) :
    (segs.map fun s => (bytes.drop s.start).take (s.stop - s.start)).flatten = bytes := by
  rw [contig_concat bytes h]
  simp [← hlen]

/-- … and every byte offset of the input lies in exactly one segment. -/
theorem segments_each_byte_once (inp : Input) (segs : List Seg)
    (h : Contig segs 0 (totalBytes inp)) (x : Nat) (hx : x < totalBytes inp) :
    (segs.filter fun s => decide (s.start ≤ x ∧ x < s.stop)).length = 1 :=
  contig_unique h x (Nat.zero_le _) hx

/-- **The stretch of an ERROR token**: the driver resumes just after the first `'\n'` at or after
the offending rune (index `l.idx`), or at the end of the input if there is none – what the
`for l.char != '\n' && l.char != -1 { consume }; consume` loop of `ReadToken` does. The `error`
segment logged by `readTokenG` runs from the token start to the byte offset of that position. -/
theorem error_stretch (inp : Input) (hv : ValidInput inp) (l : Lx) (hidx : l.idx ≤ inp.size) :
    ∃ k, l.idx ≤ k ∧ k ≤ inp.size ∧
      (∀ j, l.idx ≤ j → j < k → ∃ p, inp[j]? = some p ∧ p.1 ≠ 10) ∧
      (k = inp.size ∨ ∃ p, inp[k]? = some p ∧ p.1 = 10) ∧
      (afterError inp l).idx = min (k + 1) inp.size :=
  afterError_spec inp hv l hidx

/-- When `PushRune` answers `_lexerError`, `readToken` returns the ERROR token positioned at the
token start and carrying the offending rune, and continues from `afterError`. -/
theorem readToken_on_error (modes : Array Mode) (inp : Input) (n : Nat) (start : Option Nat)
    (l : Lx) (sm' : SM) (h : pushRune modes l.sm (l.char inp) = (.error, sm')) :
    readToken modes inp (n + 1) start l
      = some (some (.err (start.getD l.offset) (l.char inp)), afterError inp { l with sm := sm' }) :=
  readToken_error modes inp n start l sm' h

/-- **Complement of K5**: if no row carries an accumulate pair (the specification has no
action-less `@frag`), every `pending` segment of every run is empty – nothing is dropped
unreported. -/
theorem no_pending_text {modes : Array Mode} (hwf : WFModes modes) (hna : NoAccum modes)
    (inp : Input) (fuel n : Nat) :
    ∀ s ∈ segsOf (lexAllG modes inp fuel n {} [] []).2.2, s.kind = .pending → s.start = s.stop :=
  lexAllG_pending hwf hna inp fuel n {} [] [] (inRange_init hwf) (by simp)

theorem noAccum_sound (modes : Array Mode) : noAccum modes = true ↔ NoAccum modes :=
  noAccum_iff modes

/-- Non-vacuity of `conservation` / `no_pending_text`: the run of `exModes` on `a "bc"`. -/
example : segsOf (lexAllG exModes #[(97, 1), (32, 1), (34, 1), (98, 1), (99, 1), (34, 1)] 20 20 {} [] []).2.2
    = [⟨.tok 2, 0, 1⟩, ⟨.discarded, 1, 2⟩, ⟨.tok 3, 2, 6⟩, ⟨.pending, 6, 6⟩] := by decide

example : ValidInput #[(97, 1), (32, 1), (34, 1), (98, 1), (99, 1), (34, 1)] := by
  intro p hp; simp at hp; rcases hp with h | h | h | h | h | h <;> subst h <;> decide

/-- A two-mode table without accumulate pairs (`A = 'a'`, `@frag ' '+ @discard`,
`@frag '<' @push_mode(M) @discard`, `@mode M { B = 'b'  @frag '>' @discard @pop_mode }`): the
hypotheses of `no_pending_text` hold together. -/
def exNoAccum : Array Mode := #[
  #[4, 16, 23, 31, 11, 0, 3, 32, 32, 2, 60, 60, 1, 97, 97, 3, 6, 0, 0, 1, 1, 4, 0, 7, 0, 1, 32, 32,
    2, 4, 0, 4, 0, 0, 3, 2],
  #[3, 12, 19, 8, 0, 2, 62, 62, 1, 98, 98, 2, 6, 0, 0, 2, 0, 4, 0, 4, 0, 0, 3, 3]]

example : WFModes exNoAccum ∧ NoAccum exNoAccum :=
  ⟨by decide, (noAccum_iff _).1 (by decide)⟩

/-! ## Negative witnesses (known findings) -/

/-- K3, token rule: `A = 'a'*` (table emitted by lox). State 0 is accepting. -/
def k3Tok : Array Mode := #[#[2, 2, 7, 0, 1, 97, 97, 1, 3, 2]]

/-- K3, action-less fragment: `B = 'b'`, `@frag 'x'*`. -/
def k3Frag : Array Mode :=
  #[#[3, 14, 22, 10, 0, 2, 98, 98, 2, 120, 120, 1, 5, 0, 7, 0, 1, 120, 120, 1, 5, 0, 4, 0, 0, 3, 2]]

/-- K5: `B = 'b'`, `@frag 'x'`. -/
def k5 : Array Mode :=
  #[#[3, 12, 17, 8, 0, 2, 98, 98, 2, 120, 120, 1, 4, 0, 0, 5, 0, 4, 0, 0, 3, 2]]

example : wfModes k3Tok = false := by decide
example : wfModes k3Frag = false := by decide
example : wfModes k5 = true ∧ noAccum k5 = false := by decide

/-- K3 (token rule), input `aab`: after `A "aa"` the lexer returns the empty token `A ""` at `b`
forever – `lexAll` never reaches EOF, for **every** fuel (≥ 3 per call) and every number of calls. -/
theorem k3_token_never_eof (fuel n : Nat) (hf : 3 ≤ fuel) :
    (lexAll k3Tok #[(97, 1), (97, 1), (98, 1)] fuel n {} []).2 = "timeout" := by
  obtain ⟨f, rfl⟩ : ∃ f, fuel = f + 3 := ⟨fuel - 3, by omega⟩
  -- the state after the first token: a fixed point of `readToken`
  have hfix : ∀ (k : Nat) (acc : List Tok),
      (lexAll k3Tok #[(97, 1), (97, 1), (98, 1)] (f + 3) k
        { sm := { token := 2, state := 0, mode := some 0, modeStack := [] }, idx := 2, offset := 2 }
        acc).2 = "timeout" := by
    intro k
    induction k with
    | zero => intro acc; rfl
    | succ k ih =>
      intro acc
      unfold lexAll
      rw [readToken_accept k3Tok _ (f + 2) none _
        { token := 2, state := 0, mode := some 0, modeStack := [] } (by decide)]
      exact ih _
  cases n with
  | zero => rfl
  | succ n =>
    unfold lexAll
    rw [readToken_consume k3Tok _ (f + 2) none _
        { token := 0, state := 1, mode := some 0, modeStack := [] } (by decide),
      readToken_consume k3Tok _ (f + 1) _ _
        { token := 0, state := 1, mode := some 0, modeStack := [] } (by decide),
      readToken_accept k3Tok _ f _ _
        { token := 2, state := 0, mode := some 0, modeStack := [] } (by decide)]
    exact hfix n _

/-- K3 (action-less fragment matching ε), input `ab`: the first `ReadToken` call answers
`_lexerTryAgain` forever – it does not return for any fuel. -/
theorem k3_frag_hangs (fuel n : Nat) :
    (lexAll k3Frag #[(97, 1), (98, 1)] fuel n {} []).2 = "timeout" := by
  have hloop : ∀ (k : Nat) (start : Option Nat) (sm : SM), sm.state = 0 → sm.modeStack = [] →
      sm.mode.getD 0 = 0 →
      readToken k3Frag #[(97, 1), (98, 1)] k start { sm := sm, idx := 0, offset := 0 } = none := by
    intro k
    induction k with
    | zero => intro _ _ _ _ _; rfl
    | succ k ih =>
      intro start sm h0 h1 h2
      have hp : pushRune k3Frag sm 97 = (.tryAgain, { sm with mode := some 0 }) := by
        obtain ⟨tok, st, mo, stk⟩ := sm
        simp only at h0 h1 h2
        subst h0 h1
        cases mo with
        | none => rfl
        | some m => simp only [Option.getD_some] at h2; subst h2; rfl
      rw [readToken_tryAgain k3Frag _ k start _ _ hp]
      exact ih _ _ h0 h1 rfl
  cases n with
  | zero => rfl
  | succ n =>
    unfold lexAll
    rw [hloop fuel none {} rfl rfl rfl]

/-- The same two runs at the fuel used by the driver op (`lex.run 1000`). -/
example : (lexAll k3Tok #[(97, 1), (97, 1), (98, 1)] 1000 1000 {} []).2 = "timeout" :=
  k3_token_never_eof 1000 1000 (by decide)
example : (lexAll k3Frag #[(97, 1), (98, 1)] 1000 1000 {} []).2 = "timeout" :=
  k3_frag_hangs 1000 1000

/-- K5, input `bxx`: the two `x` are accumulated, then EOF is returned at position 1; no token
covers bytes 1–2 and no error is reported. In the ghost log they form a non-empty `pending`
segment. -/
example : lexAll k5 #[(98, 1), (120, 1), (120, 1)] 10 10 {} [] = ([.tok 2 0 1, .eof 1], "ok") := by
  decide
example : segsOf (lexAllG k5 #[(98, 1), (120, 1), (120, 1)] 10 10 {} [] []).2.2
    = [⟨.tok 2, 0, 1⟩, ⟨.pending, 1, 3⟩] := by decide

end Lox.Props.C11
