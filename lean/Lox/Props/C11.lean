import Lox.Lex.RuntimeProofs
/-! # C11 – Lexing reaches EOF and accounts for every character

"For every accepted specification and every input, repeatedly reading tokens reaches EOF after
finitely many steps. Every character before EOF is accounted for exactly once and in order: in the
text of an emitted token, in text dropped by a @discard rule, or in the stretch reported by an
ERROR token. No input makes the lexer loop forever or silently swallow text."

The theorems are about the executable model `Lox/Lex/Model.lean` of the generated
`_LexerStateMachine.PushRune` / `Reset` (`internal/codegen/emit_lexer.go`) and of the reference
driver `simplelexer.ReadToken` / `consume` (loxlex v0.5.0), for **all** inputs and **all** tables
satisfying the decidable predicate `WFModes` (`Lox/Lex/Runtime.lean`; checker `wfModes`, run on every
emitted table by the `lex.wfmodes` op). Two conjuncts of `WFModes` are forced by the proofs:

* *state 0 is not accepting* – fails for a rule matching the empty string: known finding K3
  (`k3_*` below: the model hangs / emits empty tokens forever);
* *no transition leads to state 0* – guaranteed by `mode.splitStartState` (fix of D6).

Accumulated text pending at EOF (known finding K5) is dropped by the driver; the conservation
theorem makes it a segment kind of its own (`SegKind.pending`) – the only unreported one. -/
namespace Lox.Props.C11
open Lox.Lex Lox.Lex.Rt

/-- The checker decides the hypothesis of all theorems below. -/
theorem wfModes_sound (modes : Array Mode) : wfModes modes = true ↔ WFModes modes :=
  wfModes_iff modes

/-- **No Go panic.** On a well-formed table, from a state machine whose state, mode and saved
modes are in range, `PushRune` never indexes out of range for any rune; current and saved modes
stay in range, and so does the state unless `_lexerError` is returned (an error from a
`@pop_mode` on the empty stack after earlier mode actions of the same rule leaves the old state
with a new mode; `ReadToken` calls `Reset()` right away, see `inRange_after_reset`). -/
theorem no_oob {modes : Array Mode} (hwf : WFModes modes) {sm : SM} (hin : InRange modes sm)
    (r : Int) :
    (pushRune modes sm r).1 ≠ .oob ∧ ModesOK modes (pushRune modes sm r).2 ∧
    ((pushRune modes sm r).1 ≠ .error → InRange modes (pushRune modes sm r).2) :=
  pushRune_no_oob hwf hin r

theorem inRange_after_reset {modes : Array Mode} (hwf : WFModes modes) {sm : SM}
    (hok : ModesOK modes sm) : InRange modes sm.reset :=
  inRange_reset hwf hok

/-- The binary search of `PushRune` is a linear lookup on sorted disjoint rows. -/
theorem bsearch_is_lookup (m : Mode) (r base gotoN : Int) (ts : List Triple)
    (hdec : readTriples m gotoN.toNat base = some ts) (h0 : 0 ≤ gotoN)
    (hs : ts.Pairwise (fun a b => a.hi < b.lo)) (hle : ∀ t ∈ ts, t.lo ≤ t.hi) :
    bsearch m r base (gotoN.toNat + 1) 0 gotoN = some (lookup ts r) :=
  bsearch_linear m r base gotoN ts hdec h0 hs hle

/-- **`PushRune` characterised**: on a well-formed table the call consumes iff the row is not a
non-greedy accepting one (flag 0) and some triple of the row contains `r` (then the new state is
that triple's target); otherwise the row's action pairs are executed left to right
(`execPairs`). -/
theorem pushRune_char {modes : Array Mode} (hwf : WFModes modes) {sm : SM}
    (hin : InRange modes sm) (r : Int) :
    ∃ m row, modes[sm.mode.getD 0]? = some m ∧ decodeRow m sm.state = some row ∧
      pushRune modes sm r =
        match (if row.flags % 2 = 0 then lookup row.triples r else none) with
        | some st => (.consume, { sm with mode := some (sm.mode.getD 0), state := st })
        | none => execPairs modes.size r row.pairs { sm with mode := some (sm.mode.getD 0) } := by
  obtain ⟨_, hst0, m, hm, hlt⟩ := hin
  obtain ⟨_, hrows⟩ := hwf.2 _ m hm
  obtain ⟨row, hrow, rwf⟩ := hrows _ hlt
  have hcast : ((sm.state.toNat : Nat) : Int) = sm.state := by omega
  rw [hcast] at hrow
  refine ⟨m, row, hm, hrow, ?_⟩
  rw [pushRune_eq_stepRow modes sm r m row hm hrow rwf.sorted.1
    (fun t ht => (rwf.sorted.2 t ht).2)]
  rfl

/-- **Progress of one `ReadToken` call** (explicit bound: `2 · remaining runes + 1` `PushRune`
calls). On a well-formed table, from the start state of an in-range state machine, the call
returns – it neither loops (`none`) nor panics (`some (none, _)`) – and
* (a) returns a token, possibly after discards, having advanced by at least one rune, or
* (b) returns EOF, and then the driver is at the end of the input, or
* (c) returns an ERROR token, having advanced by at least one rune.
Afterwards the state machine is again at a start state and in range. -/
theorem progress {modes : Array Mode} (hwf : WFModes modes) (inp : Input) (hv : ValidInput inp)
    (fuel : Nat) (l : Lx) (hin : InRange modes l.sm) (h0 : l.sm.state = 0)
    (hidx : l.idx ≤ inp.size) (hfuel : 2 * (inp.size - l.idx) + 1 ≤ fuel) :
    ∃ t l', readToken modes inp fuel none l = some (some t, l') ∧
      InRange modes l'.sm ∧ l'.sm.state = 0 ∧ l'.idx ≤ inp.size ∧
      match t with
      | .tok _ _ _ => l.idx < l'.idx
      | .eof _ => l'.idx = inp.size
      | .err _ _ => l.idx < l'.idx := by
  obtain ⟨t, l', e, i1, i2, i3, i4, i5, i6⟩ :=
    readToken_progress hwf inp fuel none l hin (by simp only [h0, if_true]; omega)
  refine ⟨t, l', e, i1, i2, i4 hidx, ?_⟩
  cases t with
  | tok ty a b => exact i6 (by simp) h0
  | err a c => exact i6 (by simp) h0
  | eof p =>
    simp only
    have hc := i5 p rfl
    have hle := i4 hidx
    by_cases hlt : l'.idx < inp.size
    · exfalso
      unfold Lx.char at hc
      rw [Array.getElem?_eq_getElem hlt] at hc
      have := hv inp[l'.idx] (by simp)
      simp only at hc
      omega
    · omega

/-- **`lexAll` terminates at EOF**: with per-call fuel `> 2 · inp.size` and more than `inp.size`
calls allowed, the status is `"ok"` – never `"timeout"` (the real lexer would not return) and
never `"panic"` – and the token list is a list of non-EOF tokens followed by one EOF token. -/
theorem lexAll_terminates {modes : Array Mode} (hwf : WFModes modes) (inp : Input)
    (fuel n : Nat) (hfuel : 2 * inp.size < fuel) (hn : inp.size < n) :
    ∃ ts p, lexAll modes inp fuel n {} [] = (ts ++ [.eof p], "ok") ∧ ∀ t ∈ ts, ∀ q, t ≠ .eof q := by
  obtain ⟨ts, p, e, h⟩ :=
    lexAll_progress hwf inp fuel hfuel n {} [] (inRange_init hwf) rfl (Nat.zero_le _) (by simpa using hn)
  exact ⟨ts, p, by simpa using e, h⟩

/-- The driver op `lex.run f` calls `lexAll … f f`: any `f > 2 · inp.size` is enough. -/
theorem lexAll_terminates_drv {modes : Array Mode} (hwf : WFModes modes) (inp : Input)
    (f : Nat) (hf : 2 * inp.size < f) : (lexAll modes inp f f {} []).2 = "ok" := by
  obtain ⟨ts, p, e, _⟩ := lexAll_terminates hwf inp f f hf (by omega)
  rw [e]

/-! ## Non-vacuity: a real two-mode table
`A = 'a'`, `@frag '"' @push_mode(S)`, `@mode S { STR = '"' @pop_mode   @frag [b-z] }`,
`@frag ' '+ @discard` – the `_lexerMode0/1` arrays emitted by lox for this spec. -/

def exModes : Array Mode := #[
  #[4, 16, 24, 31, 11, 0, 3, 32, 32, 1, 34, 34, 2, 97, 97, 3, 7, 0, 1, 32, 32, 1, 4, 0, 6, 0, 0, 1,
    1, 5, 0, 4, 0, 0, 3, 2],
  #[3, 12, 17, 8, 0, 2, 34, 34, 2, 98, 122, 1, 4, 0, 0, 5, 0, 6, 0, 0, 2, 0, 3, 3]]

example : wfModes exModes = true := by decide
example : WFModes exModes := by decide
example : InRange exModes ({} : SM) := inRange_init (by decide)

/-- `a "bc"` lexes to `A`, `STR` (text `"bc"`, the two fragments accumulated), EOF. -/
example : lexAll exModes #[(97, 1), (32, 1), (34, 1), (98, 1), (99, 1), (34, 1)] 20 20 {} []
    = ([.tok 2 0 1, .tok 3 2 6, .eof 6], "ok") := by decide

end Lox.Props.C11
