import Lox.Dec.Order
/-! C13 "Output is deterministic and independent of earlier runs" — the order-independence
arguments the Go code relies on (level *other*: that the Go code depends on map iteration order
only through the sites listed in `expect/map_ranges.json` is a checked static premise, not a
theorem). A map iteration is an arbitrary permutation of the entries. -/
namespace Lox.Props.C13
open Lox.Dec.Order Lox.Rang3

/-! ### sort_perm -/

/-- Sorting by a unique key erases the input order: for every linear order on keys and every two
functions that return a sorted permutation (Go's unstable `slices.SortFunc`, `sort.Slice`,
`sort.Strings`, …), two permutations of a key-distinct list sort to the same list. -/
theorem sort_perm {α κ : Type} {le : κ → κ → Bool} (hle : IsLinearLe le) {key : α → κ}
    {sort₁ sort₂ : List α → List α} (hs₁ : IsSortBy le key sort₁) (hs₂ : IsSortBy le key sort₂)
    {l₁ l₂ : List α} (hp : l₁.Perm l₂) (hd : KeysDistinct key l₁) : sort₁ l₁ = sort₂ l₂ :=
  sort_perm_any hle hs₁ hs₂ hp hd

/-- String keys: terminal names (`lr1/action.go`), term names (`SortTerms`, `next.go`,
`transition_map.go`), mode names (`ast/spec.go`), import paths (`codegen/imports.go`). -/
theorem sort_perm_string {α : Type} (key : α → String) {l₁ l₂ : List α} (hp : l₁.Perm l₂)
    (hd : KeysDistinct key l₁) : sortBy leString key l₁ = sortBy leString key l₂ :=
  sort_perm leString_linear (sortBy_isSort leString_linear key) (sortBy_isSort leString_linear key)
    hp hd

/-- Nat keys: mode index (`emit_lexer.go`, `parse_lox.go`), state id (`nfa.go`, `dfa.go`,
`nfa_to_dfa.go`), pending item-set index (`construct.go`). -/
theorem sort_perm_nat {α : Type} (key : α → Nat) {l₁ l₂ : List α} (hp : l₁.Perm l₂)
    (hd : KeysDistinct key l₁) : sortBy leNat key l₁ = sortBy leNat key l₂ :=
  sort_perm leNat_linear (sortBy_isSort leNat_linear key) (sortBy_isSort leNat_linear key) hp hd

/-- `rang3.Compare` (`slices.SortFunc(inputs, rang3.Compare)` in `emit_lexer.go`): the key is the
range itself, so distinctness is `Nodup`. -/
theorem sort_perm_range {l₁ l₂ : List Range} (hp : l₁.Perm l₂) (hd : l₁.Nodup) :
    sortBy Range.le id l₁ = sortBy Range.le id l₂ :=
  sort_perm leRange_linear (sortBy_isSort leRange_linear id) (sortBy_isSort leRange_linear id) hp
    (List.nodup_iff_pairwise_ne.mp hd)

/-- Two different algorithms (insertion sort, merge sort) on two permutations: same result. -/
theorem sort_perm_two_algorithms {α κ : Type} {le : κ → κ → Bool} (hle : IsLinearLe le)
    (key : α → κ) {l₁ l₂ : List α} (hp : l₁.Perm l₂) (hd : KeysDistinct key l₁) :
    sortBy le key l₁ = mergeSortBy le key l₂ :=
  sort_perm hle (sortBy_isSort hle key) (mergeSortBy_isSort hle key) hp hd

/-- Non-vacuity: two different permutations with distinct keys, and the common result. -/
example :
    let l₁ := [("b", 1), ("a", 2), ("c", 3)]
    let l₂ := [("c", 3), ("b", 1), ("a", 2)]
    l₁ ≠ l₂ ∧ l₁.Perm l₂ ∧ KeysDistinct (·.1) l₁ ∧
      sortBy leString (·.1) l₁ = [("a", 2), ("b", 1), ("c", 3)] := by
  refine ⟨by decide, by decide, ?_, by decide⟩
  simp [KeysDistinct]

example :
    let l₁ : List Range := [⟨5, 9⟩, ⟨1, 3⟩, ⟨1, 2⟩]
    let l₂ : List Range := [⟨1, 2⟩, ⟨5, 9⟩, ⟨1, 3⟩]
    l₁.Perm l₂ ∧ l₁.Nodup ∧ sortBy Range.le id l₁ = [⟨1, 2⟩, ⟨1, 3⟩, ⟨5, 9⟩] := by decide

/-- Distinctness is needed: with equal keys the order of the input shows through. -/
example : sortBy leNat (·.1) [(1, "x"), (1, "y")] ≠ sortBy leNat (·.1) [(1, "y"), (1, "x")] := by
  decide

/-! ### fold_set_perm -/

/-- Insert-only loop: the resulting set depends only on the set of elements visited, in every
set representation (`SetRep`: insert adds exactly its argument). -/
theorem fold_set_perm {α σ : Type} (R : SetRep α σ) (s : σ) {l₁ l₂ : List α}
    (h : ∀ x, x ∈ l₁ ↔ x ∈ l₂) (y : α) :
    R.mem y (R.addAll s l₁) ↔ R.mem y (R.addAll s l₂) := by
  rw [R.mem_addAll, R.mem_addAll, h y]

/-- … in particular for a permutation (one map iteration vs. another). -/
theorem fold_set_perm' {α σ : Type} (R : SetRep α σ) (s : σ) {l₁ l₂ : List α}
    (h : l₁.Perm l₂) (y : α) : R.mem y (R.addAll s l₁) ↔ R.mem y (R.addAll s l₂) :=
  fold_set_perm R s (fun _ => h.mem_iff) y

/-- Loop bodies that insert `f x` only for some `x` (`if … { set.Add(…) }`). -/
theorem fold_set_perm_filterMap {α β σ : Type} (R : SetRep β σ) (s : σ) (f : α → Option β)
    {l₁ l₂ : List α} (h : ∀ x, x ∈ l₁ ↔ x ∈ l₂) (y : β) :
    R.mem y (R.addAll s (l₁.filterMap f)) ↔ R.mem y (R.addAll s (l₂.filterMap f)) := by
  apply fold_set_perm
  intro b
  simp only [List.mem_filterMap, h]

/-- Canonical representation: the sorted duplicate-free list built by `heapPush` is the *same
list* (see also `heap_perm`). -/
theorem fold_set_perm_canonical (l₁ l₂ : List Range) (h : ∀ x, x ∈ l₁ ↔ x ∈ l₂) :
    heapSet.addAll [] l₁ = heapSet.addAll [] l₂ := by
  rw [← heapOf_eq_addAll, ← heapOf_eq_addAll]
  exact StrictSorted.ext (strictSorted_heapOf l₁) (strictSorted_heapOf l₂)
    (fun x => by rw [mem_heapOf, mem_heapOf, h])

/-- `m2[k] = v` for every entry `(k, v)` of a map (keys are distinct): the resulting map is the
same function for every iteration order. -/
theorem fold_map_perm {κ ν : Type} [DecidableEq κ] (m : κ → Option ν) {l₁ l₂ : List (κ × ν)}
    (hp : l₁.Perm l₂) (hn : (l₁.map (·.1)).Nodup) :
    l₁.foldl mapSet m = l₂.foldl mapSet m := by
  have hn₂ : (l₂.map (·.1)).Nodup := (hp.map _).nodup_iff.mp hn
  funext k
  apply Option.ext
  intro v
  rw [mapSet_foldl m l₁ hn, mapSet_foldl m l₂ hn₂, hp.mem_iff, (hp.map (·.1)).mem_iff]

example :
    let l₁ := [3, 1, 2, 1]
    let l₂ := [1, 2, 3, 3, 2]
    (∀ x, x ∈ l₁ ↔ x ∈ l₂) ∧ listSet.addAll [] l₁ = [2, 1, 3] ∧ listSet.addAll [] l₂ = [3, 2, 1] := by
  refine ⟨?_, by decide, by decide⟩
  intro x; simp only [List.mem_cons, List.not_mem_nil, or_false]; omega

example :
    let l₁ := [("a", 1), ("b", 2)]
    l₁.Perm l₁.reverse ∧ (l₁.map (·.1)).Nodup := by decide

/-! ### heap_perm -/

/-- The range heap (`rang3.rangeHeap`: `Push` ignores a range already present, `Pop` returns the
`Compare`-minimum) pops a sequence that is a function of the *set* of pushed ranges. -/
theorem heap_perm (l₁ l₂ : List Range) (h : ∀ x, x ∈ l₁ ↔ x ∈ l₂) : heapOf l₁ = heapOf l₂ :=
  StrictSorted.ext (strictSorted_heapOf l₁) (strictSorted_heapOf l₂)
    (fun x => by rw [mem_heapOf, mem_heapOf, h])

/-- What the pop sequence is: strictly increasing, with exactly the pushed ranges. -/
theorem heap_pop_sequence (l : List Range) :
    (heapOf l).Pairwise (fun a b => a.lt b = true) ∧ ∀ x, x ∈ heapOf l ↔ x ∈ l :=
  ⟨strictSorted_heapOf l, mem_heapOf l⟩

/-- Hence `Normalize`'s callback log does not depend on the order in which the transitions'
ranges were collected from a map. -/
theorem normalize_perm (l₁ l₂ : List Range) (hp : l₁.Perm l₂) : normalize l₁ = normalize l₂ := by
  have hf : normalizeFuel l₁ = normalizeFuel l₂ := by
    simp only [normalizeFuel, hp.length_eq, (hp.map Range.len).sum_nat]
  simp only [normalize, heap_perm l₁ l₂ (fun _ => hp.mem_iff), hf]

example :
    let l₁ : List Range := [⟨5, 9⟩, ⟨1, 3⟩, ⟨5, 9⟩, ⟨1, 2⟩]
    let l₂ : List Range := [⟨1, 2⟩, ⟨1, 3⟩, ⟨5, 9⟩]
    heapOf l₁ = [⟨1, 2⟩, ⟨1, 3⟩, ⟨5, 9⟩] ∧ heapOf l₂ = heapOf l₁ := by decide

/-! ### pick_source_ignores_generated -/

/-- `PreParseGo` never picks a generated file: its choice is a non-directory `.go` entry of the
listing whose name is none of `base.gen.go`, `lexer.gen.go`, `parser.gen.go`. -/
theorem pick_source_not_generated (es : List DirEntry) (n : String) (h : pickSource es = some n) :
    n ∉ generatedNames ∧ ∃ e ∈ es, e.name = n ∧ e.isDir = false ∧ hasGoExt n = true := by
  rw [pickSource_eq] at h
  match hl : (es.filter isUserGo).getLast? with
  | none => simp [hl] at h
  | some e =>
    simp only [hl, Option.map_some, Option.some.injEq] at h
    have hm : e ∈ es.filter isUserGo := List.mem_of_getLast? hl
    rw [List.mem_filter] at hm
    have hg := isUserGo_not_generated hm.2
    have hu := hm.2
    simp only [isUserGo, Bool.and_eq_true, Bool.not_eq_true'] at hu
    subst h
    refine ⟨?_, e, hm.1, rfl, hu.1.1.1.1, hu.1.1.1.2⟩
    simpa [isGenerated] using hg

/-- The choice is a function of the non-generated entries only: two listings that agree after
removing the generated files give the same answer. -/
theorem pick_source_ignores_generated (es₁ es₂ : List DirEntry)
    (h : es₁.filter (fun e => !isGenerated e) = es₂.filter (fun e => !isGenerated e)) :
    pickSource es₁ = pickSource es₂ := by
  rw [pickSource_eq, pickSource_eq, ← filter_isUserGo_filter es₁, ← filter_isUserGo_filter es₂, h]

/-- Adding or removing a generated file anywhere in the listing changes nothing. -/
theorem pick_source_insert (l₁ l₂ : List DirEntry) (g : DirEntry) (hg : isGenerated g = true) :
    pickSource (l₁ ++ g :: l₂) = pickSource (l₁ ++ l₂) := by
  apply pick_source_ignores_generated
  simp [List.filter_append, hg]

/-- … in particular at the place where `os.ReadDir` (sorted by file name) shows it after the
first run has written it. -/
theorem pick_source_after_run (es : List DirEntry) (g : DirEntry) (hg : isGenerated g = true) :
    pickSource (insertByName g es) = pickSource es := by
  obtain ⟨l₁, l₂, h₁, h₂⟩ := insertByName_split g es
  rw [h₂, h₁]
  exact pick_source_insert l₁ l₂ g hg

/-- A listing before and after a run (all three generated files appear, a directory named like
a Go file is skipped). -/
example :
    let before : List DirEntry := [⟨"a.go", false⟩, ⟨"b.txt", false⟩, ⟨"z.go", true⟩]
    let after := insertByName ⟨"parser.gen.go", false⟩
      (insertByName ⟨"lexer.gen.go", false⟩ (insertByName ⟨"base.gen.go", false⟩ before))
    after.map (·.name) = ["a.go", "b.txt", "base.gen.go", "lexer.gen.go", "parser.gen.go", "z.go"] ∧
      pickSource before = some "a.go" ∧ pickSource after = some "a.go" := by decide

/-- The loop as it was on the pinned tree did depend on an earlier run (D12): once
`base.gen.go` exists it is the file that gets pre-parsed. -/
example :
    pickSourcePinned [⟨"a.go", false⟩] = some "a.go" ∧
    pickSourcePinned [⟨"a.go", false⟩, ⟨"base.gen.go", false⟩] = some "base.gen.go" := by decide

/-! ### imports_alias_deterministic -/

/-- `imports.WriteTo`: the emitted lines (and so the text) do not depend on the iteration order
of the `imports` map, whatever sorting algorithm `sort.Strings` is. -/
theorem imports_alias_deterministic {sort : List String → List String}
    (hs : IsSortBy leString id sort) {m₁ m₂ : ImportMap} (hp : m₁.Perm m₂)
    (hn : (m₁.map (·.1)).Nodup) (q : String → String) :
    writeLines sort m₁ = writeLines sort m₂ ∧
      renderImports q (writeLines sort m₁) = renderImports q (writeLines sort m₂) := by
  have hl : writeLines sort m₁ = writeLines sort m₂ := by
    unfold writeLines
    have hsort : sort (m₁.map (·.1)) = sort (m₂.map (·.1)) :=
      sort_perm leString_linear hs hs (hp.map _) (List.nodup_iff_pairwise_ne.mp hn)
    rw [hsort]
    apply List.map_congr_left
    intro p _
    rw [lookup_perm hp hn p]
  exact ⟨hl, by rw [hl]⟩

/-- `imports.Import`: the alias returned depends only on the content of the map (lookup and
size), and the updated maps are again permutations of each other with distinct paths. -/
theorem import_alias_perm {m₁ m₂ : ImportMap} (hp : m₁.Perm m₂) (hn : (m₁.map (·.1)).Nodup)
    (path : String) :
    (importPath m₁ path).1 = (importPath m₂ path).1 ∧
    (importPath m₁ path).2.Perm (importPath m₂ path).2 ∧
    ((importPath m₁ path).2.map (·.1)).Nodup := by
  unfold importPath
  rw [← lookup_perm hp hn path]
  cases hl : m₁.lookup path with
  | some a => exact ⟨rfl, hp, hn⟩
  | none =>
    simp only [hp.length_eq]
    refine ⟨trivial, hp.cons _, ?_⟩
    rw [List.map_cons, List.nodup_cons]
    exact ⟨lookup_eq_none hl, hn⟩

/-- A whole sequence of `Import` calls followed by `WriteTo`: the aliases handed out and the
text are functions of the call sequence alone. -/
theorem imports_run_deterministic {sort : List String → List String}
    (hs : IsSortBy leString id sort) (paths : List String) {m₁ m₂ : ImportMap} (hp : m₁.Perm m₂)
    (hn : (m₁.map (·.1)).Nodup) :
    (importAll m₁ paths).1 = (importAll m₂ paths).1 ∧
    writeLines sort (importAll m₁ paths).2 = writeLines sort (importAll m₂ paths).2 := by
  induction paths generalizing m₁ m₂ with
  | nil => exact ⟨rfl, (imports_alias_deterministic hs hp hn id).1⟩
  | cons p ps ih =>
    obtain ⟨h₁, h₂, h₃⟩ := import_alias_perm hp hn p
    obtain ⟨i₁, i₂⟩ := ih h₂ h₃
    simp only [importAll]
    exact ⟨by rw [h₁, i₁], i₂⟩

/-- Aliases in first-use order, lines sorted by path; two iteration orders of the same map. -/
example :
    let r := importAll [] ["fmt", "a/b", "fmt", "os"]
    r.1 = ["_i0", "_i1", "_i0", "_i2"] ∧
    r.2.Perm r.2.reverse ∧ (r.2.map (·.1)).Nodup ∧
    writeLines (sortBy leString id) r.2 = [("_i1", "a/b"), ("_i0", "fmt"), ("_i2", "os")] ∧
    writeLines (sortBy leString id) r.2.reverse = [("_i1", "a/b"), ("_i0", "fmt"), ("_i2", "os")] := by
  decide

end Lox.Props.C13
