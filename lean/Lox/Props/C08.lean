import Lox.Lex.BisimNGProofs
import Lox.Lex.NGShapeProofs
import Lox.Lex.MunchNGProofs
/-! Property theorems for C08 (non-greedy repetitions stop at the first complete match), validator
part.

Specification (`Lox/Lex/BisimNG.lean`): a rule containing `*?`/`+?` (`Re.hasNG`) matches the
SHORTEST words of its language (`RuleMatches true r s`: `Matches r s` and no proper prefix of `s`
matches `r`); other rules keep their language; `viableNG`, `labelNG`, `specRunNG` as in C02 over
these languages. The table side is unchanged: `tableStep` ignores the transitions of a row whose
non-greedy flag is set, exactly as `PushRune` does (`C02.pushRune_consume`). -/
namespace Lox.Props.C08
open Lox.Lex

/-- **Soundness of the non-greedy validator.** If `bisimNG rules tbl` answers `ok` then on every
string the table (flagged rows stop) dies exactly when no rule can still reach a match – a shortest
match for non-greedy rules – and otherwise carries the action pairs of the earliest rule matching
the string (for a non-greedy rule: matching it with no proper prefix matching). In particular a
token of a non-greedy rule ends at its first complete match, and greedy rules of the same mode keep
their longest-match behaviour (their language is `Matches`, `ruleMatches_greedy`). -/
theorem bisimNG_sound {rules : List Rule} {tbl : Mode} (h : bisimNG rules tbl = .ok ()) :
    ∀ s : List Int, tableRun tbl s = specRunNG rules s := by
  obtain ⟨R, hC⟩ := bisimNG_ok h
  exact closedNG_sound hC

/-- A greedy rule's language is unchanged. -/
theorem ruleMatches_greedy (r : Re) (s : List Int) (h : r.hasNG = false) :
    RuleMatches r.hasNG r s ↔ Matches r s := by
  simp [RuleMatches, h]

/-- A non-greedy rule matches `s` iff `s` is a match and no proper prefix of `s` is. -/
theorem ruleMatches_ng (r : Re) (s : List Int) (h : r.hasNG = true) :
    RuleMatches r.hasNG r s ↔
      Matches r s ∧ ∀ u v, s = u ++ v → v ≠ [] → ¬ Matches r u := by
  simp [RuleMatches, h, NoProperPrefix]

/-- Once a non-greedy rule has matched `s`, no extension of `s` is a match of that rule. -/
theorem ng_stops (r : Re) (s t : List Int) (h : r.hasNG = true) (hm : RuleMatches r.hasNG r s)
    (ht : t ≠ []) : ¬ RuleMatches r.hasNG r (s ++ t) := by
  intro hm'
  exact hm'.2 h s t rfl ht hm.1

/-- Without non-greedy rules the specification is that of C02. -/
theorem specRunNG_greedy (rules : List Rule) (hg : ∀ r ∈ rules, r.1.hasNG = false)
    (s : List Int) : specRunNG rules s = specRun rules s := by
  have hv : viableNG rules s ↔ viable rules s := by
    unfold viableNG viable
    constructor
    · rintro ⟨r, hr, t, hm⟩; exact ⟨r, hr, t, hm.1⟩
    · rintro ⟨r, hr, t, hm⟩; exact ⟨r, hr, t, hm, by simp [hg r hr]⟩
  have hl : ∀ rs : List Rule, (∀ r ∈ rs, r.1.hasNG = false) → labelNG rs s = label rs s := by
    intro rs
    induction rs with
    | nil => intro _; rfl
    | cons r rs ih =>
      intro h
      have h1 : RuleMatches r.1.hasNG r.1 s ↔ Matches r.1 s := ruleMatches_greedy _ _ (h r (by simp))
      simp only [labelNG, label, ih (fun r hr => h r (by simp [hr]))]
      by_cases hm : Matches r.1 s
      · simp [hm, h1.mpr hm]
      · have : ¬ RuleMatches r.1.hasNG r.1 s := fun h => hm (h1.mp h)
        simp [hm, this]
  unfold specRunNG specRun
  by_cases hvi : viable rules s
  · simp [hvi, hv.mpr hvi, hl rules hg]
  · have : ¬ viableNG rules s := fun h => hvi (hv.mp h)
    simp [hvi, this]

/-! ### Maximal munch with non-greedy rules -/

/-- Table level: the table consumes the longest prefix that is still viable – where a non-greedy
rule stops being viable as soon as it has matched – and the state reached is labelled by the
earliest rule matching that prefix. -/
theorem munch_table {rules : List Rule} {tbl : Mode} (h : bisimNG rules tbl = .ok ())
    (s : List Int) :
    viableNG rules (s.take (scanLen tbl 0 s)) ∧
    (∀ j, scanLen tbl 0 s < j → j ≤ s.length → ¬ viableNG rules (s.take j)) ∧
    ∃ q', tableRunFrom tbl 0 (s.take (scanLen tbl 0 s)) = some q' ∧
      rowPairs tbl q' = labelNG rules (s.take (scanLen tbl 0 s)) := by
  obtain ⟨R, hC⟩ := bisimNG_ok h
  exact munch_table_gen (tableSpec_of_closedNG hC) s

/-- Driver level (`C02.munch` for modes with non-greedy rules): one `ReadToken` call consumes
exactly the longest `viableNG` prefix `p` of the remaining input and then executes the action pairs
`labelNG rules p`. -/
theorem munch (modes : Array Mode) (inp : Input) (m : Mode) (rules : List Rule) (l : Lx)
    (h : bisimNG rules m = .ok ()) (hmode : modes[l.sm.mode.getD 0]? = some m)
    (hstate : l.sm.state = 0) (start : Option Nat) (n : Nat) :
    viableNG rules ((l.rest inp).take (scanLen m 0 (l.rest inp))) ∧
    (∀ j, scanLen m 0 (l.rest inp) < j → j ≤ (l.rest inp).length →
      ¬ viableNG rules ((l.rest inp).take j)) ∧
    ∃ q', tableRunFrom m 0 ((l.rest inp).take (scanLen m 0 (l.rest inp))) = some q' ∧
      (startClean m = true → (l.rest inp).take (scanLen m 0 (l.rest inp)) ≠ [] → q' ≠ 0) ∧
      readToken modes inp (scanLen m 0 (l.rest inp) + (n + 1)) start l =
        tokBody modes inp n (start.getD l.offset) (l.advance inp (scanLen m 0 (l.rest inp)))
          (runPairs modes ((l.advance inp (scanLen m 0 (l.rest inp))).char inp)
            (labelNG rules ((l.rest inp).take (scanLen m 0 (l.rest inp))))
            { l.sm with mode := some (l.sm.mode.getD 0), state := (q' : Int) }) := by
  obtain ⟨R, hC⟩ := bisimNG_ok h
  exact munch_driver_gen modes inp m l (tableSpec_of_closedNG hC) hmode hstate start n

/-- A plain token rule (pairs `[(3, t)]`, e.g. a non-greedy string or comment token) wins: the
token returned is `t` and its text is exactly that prefix. -/
theorem munch_token (modes : Array Mode) (inp : Input) (m : Mode) (rules : List Rule) (l : Lx)
    (h : bisimNG rules m = .ok ()) (hmode : modes[l.sm.mode.getD 0]? = some m)
    (hstate : l.sm.state = 0) (start : Option Nat) (n : Nat) (t : Int)
    (hlab : labelNG rules ((l.rest inp).take (scanLen m 0 (l.rest inp))) = [(3, t)]) :
    readToken modes inp (scanLen m 0 (l.rest inp) + (n + 1)) start l =
      some (some (.tok t (start.getD l.offset) (l.advance inp (scanLen m 0 (l.rest inp))).offset),
        { l.advance inp (scanLen m 0 (l.rest inp)) with
          sm := { l.sm with token := t, mode := some (l.sm.mode.getD 0), state := 0 } }) := by
  obtain ⟨R, hC⟩ := bisimNG_ok h
  exact munch_token_gen modes inp m l (tableSpec_of_closedNG hC) hmode hstate start n t hlab

/-! ### The stated shape: literal prefix, one-code-point body, non-empty literal terminator -/

/-- Bodies "matching one character per repetition": a class (also `.`) … -/
theorem singleChar_cls (cs : Cls) : SingleChar (.cls cs) (fun c => inCls cs c = true) :=
  Lox.Lex.singleChar_cls cs

/-- … or an alternation of such expressions. -/
theorem singleChar_alt {a b : Re} {P Q : Int → Prop} (ha : SingleChar a P) (hb : SingleChar b Q) :
    SingleChar (.alt a b) (fun c => P c ∨ Q c) := Lox.Lex.singleChar_alt ha hb

/-- **`ng_shape`, `*?`.** The rule `'p' b*? 't'` (`ngStarRule p b t`, `t` a literal; the theorem
is only interesting for `t ≠ []`) under the shortest-match semantics matches exactly the texts
`p ++ x ++ t` where `x` consists of body code points and the first occurrence of `t` in the text
after the prefix (`x ++ t`) is the final one: the token ends at the first occurrence of the
terminator after the prefix, even when the body can match the terminator's code points. -/
theorem ng_shape_star {b : Re} {P : Int → Prop} (hb : SingleChar b P) (p t s : List Int) :
    RuleMatches (ngStarRule p b t).hasNG (ngStarRule p b t) s ↔
      ∃ x, s = p ++ x ++ t ∧ (∀ c ∈ x, P c) ∧
        ∀ i, i < x.length → ¬ t <+: (x ++ t).drop i :=
  Lox.Lex.ng_shape_star hb p t s

/-- **`ng_shape`, `+?`.** At least one repetition: an occurrence of the terminator right after the
prefix does not end the token. -/
theorem ng_shape_plus {b : Re} {P : Int → Prop} (hb : SingleChar b P) (p t s : List Int) :
    RuleMatches (ngPlusRule p b t).hasNG (ngPlusRule p b t) s ↔
      ∃ x, x ≠ [] ∧ s = p ++ x ++ t ∧ (∀ c ∈ x, P c) ∧
        ∀ i, 1 ≤ i → i < x.length → ¬ t <+: (x ++ t).drop i :=
  Lox.Lex.ng_shape_plus hb p t s

/-! ### Non-vacuity: the table emitted by lox for
`@frag '/*' [\u0000-\U0010FFFF]*? '*/' @discard`, `T2 = [a-z]+` -/

def exTbl : Mode := #[6, 15, 23, 29, 43, 55, 8, 0, 2, 47, 47, 2, 97, 122, 1, 7, 0, 1, 97, 122, 1, 3,
  2, 5, 0, 1, 42, 42, 4, 13, 1, 3, 0, 41, 4, 42, 42, 5, 43, 1114111, 4, 4, 0, 11, 0, 3, 0, 41, 4,
  42, 42, 5, 43, 1114111, 4, 17, 0, 5, 0, 41, 4, 42, 42, 5, 43, 46, 4, 47, 47, 3, 48, 1114111, 4]

def exRules : List Rule := [
  (.seq (Re.lit [47, 42]) (.seq (.star true (.cls [(0, 1114111)])) (Re.lit [42, 47])), [(4, 0)]),
  (Re.plus (.cls [(97, 122)]), [(3, 2)])]

deriving instance DecidableEq for Except

theorem ex_bisimNG : bisimNG exRules exTbl = .ok () := by decide +kernel

/-- `/**/*/`: the table stops after the first `*/` (dead on any longer prefix), although the body
class contains `*` and `/`. -/
example : tableRun exTbl [47, 42, 42, 47] = some [(4, 0)] ∧
    tableRun exTbl [47, 42, 42, 47, 42] = none := by decide +kernel

/-- The first rule of the instance has the stated shape. -/
example : exRules[0].1 = ngStarRule [47, 42] (.cls [(0, 1114111)]) [42, 47] := rfl

/-- `/*a*/` is a (shortest) match of the comment rule, `/*a*/*/` is not. -/
example : RuleMatches exRules[0].1.hasNG exRules[0].1 [47, 42, 97, 42, 47] ∧
    ¬ RuleMatches exRules[0].1.hasNG exRules[0].1 [47, 42, 97, 42, 47, 42, 47] := by
  constructor
  · refine (ng_shape_star (singleChar_cls _) [47, 42] [42, 47] _).mpr ⟨[97], rfl, by decide, ?_⟩
    intro i hi
    have : i = 0 := by simp at hi; omega
    subst this; decide
  · intro h
    exact ng_stops _ [47, 42, 97, 42, 47] [42, 47] (by decide)
      ((ng_shape_star (singleChar_cls _) [47, 42] [42, 47] _).mpr ⟨[97], rfl, by decide, by
        intro i hi
        have : i = 0 := by simp at hi; omega
        subst this; decide⟩) (by decide) h

end Lox.Props.C08
