import Lox.Dec.TerminalsProofs
/-! C19 "Token constants: one per terminal, EOF = 0, ERROR = 1, same numbers in all tables".

`terminals s` is `Grammar.Terminals` (names) after the `CreateNames` traversal, `constBlock` the
`const ( NAME int = i … )` block of `base.gen.go`, `tokenToString` its `_TokenToString`.
Every table of the generator refers to a terminal through `Terminal.Index`, which `AddTerminal`
sets to the slice position; that all emitters use that field is the Go-side tie. -/
namespace Lox.Props.C19
open Lox.Dec.Terminals

/-- EOF is the first terminal and its constant is 0, for every spec. -/
theorem eof_zero (s : Spec) :
    (terminals s)[0]? = some "EOF" ∧ constOf (terminals s) "EOF" = some 0 ∧
      (constBlock (terminals s))[0]? = some ("EOF", 0) := by
  refine ⟨rfl, rfl, ?_⟩
  simp [constBlock, terminals]

/-- ERROR is the second terminal and its constant is 1, for every spec. -/
theorem error_one (s : Spec) :
    (terminals s)[1]? = some "ERROR" ∧ constOf (terminals s) "ERROR" = some 1 ∧
      (constBlock (terminals s))[1]? = some ("ERROR", 1) := by
  refine ⟨rfl, rfl, ?_⟩
  simp [constBlock, terminals]

/-- The `i`-th line of the const block names the `i`-th terminal and gives it the number `i`;
the numbers used are exactly `0 … n-1`, each once, in order. -/
theorem dense (ts : List String) :
    (constBlock ts).length = ts.length ∧
    (∀ i (h : i < ts.length), (constBlock ts)[i]? = some (ts[i], i)) ∧
    (constBlock ts).map (·.2) = List.range ts.length ∧
    (constBlock ts).map (·.1) = ts := by
  refine ⟨by simp [constBlock], fun i h => by simp [constBlock, h], ?_, ?_⟩
  · simp only [constBlock]
    apply List.ext_getElem <;> simp
  · simp only [constBlock]
    apply List.ext_getElem <;> simp

/-- `dense` for the terminals of a spec: there are at least the two built-in constants. -/
theorem dense_spec (s : Spec) :
    2 ≤ (terminals s).length ∧
    (constBlock (terminals s)).map (·.2) = List.range (terminals s).length :=
  ⟨by simp [terminals], (dense _).2.2.1⟩

/-- Two names never share a number (no uniqueness hypothesis needed): a constant determines its
terminal. -/
theorem number_determines_name (ts : List String) {a b : String} {k : Nat}
    (ha : (a, k) ∈ constBlock ts) (hb : (b, k) ∈ constBlock ts) : a = b := by
  have := (mem_constBlock.mp ha).symm.trans (mem_constBlock.mp hb)
  exact Option.some.inj this

/-- Given unique names (the front-end check, see `accepted_unique`): every declared terminal has
exactly one constant (`constOf` is total on declared terminals, and it is the only line of the
block with that name), and the map name ↦ number is injective. -/
theorem one_per_terminal (ts : List String) (hu : ts.Nodup) :
    (∀ n ∈ ts, ∃ k, constOf ts n = some k ∧ k < ts.length ∧
        ∀ j, (n, j) ∈ constBlock ts ↔ j = k) ∧
    (∀ a b k, constOf ts a = some k → constOf ts b = some k → a = b) := by
  constructor
  · intro n hn
    have hs := constOf_isSome hn
    match hc : constOf ts n with
    | none => simp [hc] at hs
    | some k =>
      have hk := constOf_eq_some hc
      refine ⟨k, rfl, (List.getElem?_eq_some_iff.mp hk).1, fun j => ⟨fun hj => ?_, ?_⟩⟩
      · exact getElem?_inj_of_nodup hu (mem_constBlock.mp hj) hk
      · rintro rfl; exact mem_constBlock.mpr hk
  · intro a b k ha hb
    exact Option.some.inj ((constOf_eq_some ha).symm.trans (constOf_eq_some hb))

/-- Hypothesis of `one_per_terminal` is satisfiable on a spec with a mode, an external and two
files; and the resulting numbers. -/
example :
    let s : Spec := [[.token "A", .mode "m" [.token "B", .external ["C", "D"]], .other (some "r")],
      [.token "E"]]
    (terminals s).Nodup ∧
      constBlock (terminals s) =
        [("EOF", 0), ("ERROR", 1), ("A", 2), ("B", 3), ("C", 4), ("D", 5), ("E", 6)] := by
  decide

/-- The hypothesis matters: with a repeated name the const block has two lines for it. -/
example : constBlock (terminals [[.token "A", .token "A"]]) =
    [("EOF", 0), ("ERROR", 1), ("A", 2), ("A", 3)] := by decide

/-- A terminal declared earlier in traversal order has a smaller number, and every declared
terminal comes after EOF and ERROR. -/
theorem order (s : Spec) (hu : (terminals s).Nodup) {l₁ l₂ : List String} {a b : String}
    (hs : specNames s = l₁ ++ a :: l₂) (hb : b ∈ l₂) :
    ∃ i j, constOf (terminals s) a = some i ∧ constOf (terminals s) b = some j ∧ 1 < i ∧ i < j := by
  obtain ⟨m, hm, rfl⟩ := List.getElem_of_mem hb
  have hlen : (terminals s).length = 2 + (l₁.length + (1 + l₂.length)) := by
    simp only [terminals, hs, List.length_cons, List.length_append]; omega
  have ha : (terminals s)[2 + l₁.length]? = some a := by
    have : 2 + l₁.length = l₁.length + 1 + 1 := by omega
    rw [this]
    simp only [terminals, hs, List.getElem?_cons_succ]
    rw [List.getElem?_append_right (by omega)]
    simp
  have hb' : (terminals s)[2 + l₁.length + 1 + m]? = some l₂[m] := by
    have : 2 + l₁.length + 1 + m = (l₁.length + 1 + m) + 1 + 1 := by omega
    rw [this]
    simp only [terminals, hs, List.getElem?_cons_succ]
    rw [List.getElem?_append_right (by omega)]
    have : l₁.length + 1 + m - l₁.length = m + 1 := by omega
    rw [this, List.getElem?_cons_succ, List.getElem?_eq_getElem hm]
  exact ⟨_, _, constOf_of_getElem? hu ha, constOf_of_getElem? hu hb', by omega, by omega⟩

/-- `order` is not vacuous. -/
example :
    let s : Spec := [[.token "A", .mode "m" [.token "B"]], [.external ["C"]]]
    (terminals s).Nodup ∧ specNames s = ["A"] ++ "B" :: ["C"] ∧ "C" ∈ ["C"] := by decide

/-- `_TokenToString` answers with the alias-or-name of the `t`-th terminal inside `0 … n-1` and
with `"???"` outside. -/
theorem to_string_cases (ts : List (String × Option String)) (t : Nat) :
    (∀ h : t < ts.length, tokenToString ts t = display ts[t]) ∧
    (ts.length ≤ t → tokenToString ts t = "???") := by
  constructor
  · intro h; simp [tokenToString, h]
  · intro h; simp [tokenToString, h]

/-- `"???"` exactly outside `0 … n-1`, provided no terminal is itself printed as `???`
(names never are, see `accepted_display`; an alias could be: the literal `'???'`). -/
theorem to_string_total (ts : List (String × Option String))
    (hq : ∀ p ∈ ts, display p ≠ "???") (t : Nat) :
    tokenToString ts t = "???" ↔ ts.length ≤ t := by
  constructor
  · intro h
    by_cases hl : t < ts.length
    · rw [(to_string_cases ts t).1 hl] at h
      exact absurd h (hq _ (List.getElem_mem hl))
    · omega
  · exact (to_string_cases ts t).2

/-- Hypothesis of `to_string_total` is satisfiable (with an alias present). -/
example : ∀ p ∈ [("EOF", none), ("ERROR", none), ("ADD", some "+")], display p ≠ "???" := by decide

/-- Without it the statement fails: a terminal whose alias is the literal `???`. -/
example : tokenToString [("EOF", none), ("ERROR", none), ("Q", some "???")] 2 = "???" := by decide

/-- The front-end check: if pass `CreateNames` reports no error then the grammar's terminal list
is `terminals s`, its names are pairwise distinct, and every declared name passed
`validateTokenName`. -/
theorem accepted_unique (s : Spec) (hok : (createNames s).err = false) :
    (createNames s).terms = terminals s ∧ (terminals s).Nodup ∧
      ∀ n ∈ specNames s, validTokenName n = true := by
  have h := runSpec_spec Ctx.init s
  obtain ⟨-, ht, hv⟩ := h.2 hok
  have hi := (h.1 inv_init).1
  refine ⟨ht, ?_, hv⟩
  rw [← show (createNames s).terms = terminals s from ht]
  exact hi

/-- `accepted_unique` is not vacuous (and a redefinition is rejected). -/
example :
    (createNames [[.token "A", .mode "m" [.token "B_1", .external ["C"]]], [.token "D"]]).err = false ∧
    (createNames [[.token "A", .mode "A" [.token "B"]]]).err = true ∧
    (createNames [[.token "A"], [.external ["A"]]]).err = true ∧
    (createNames [[.token "EOF"]]).err = true := by decide

/-- For an accepted spec `_TokenToString` (the generator passes no alias) is `"???"` exactly
outside the constants. -/
theorem accepted_display (s : Spec) (hok : (createNames s).err = false) (t : Nat) :
    tokenToString ((terminals s).map (fun n => (n, none))) t = "???" ↔ (terminals s).length ≤ t := by
  have h := to_string_total ((terminals s).map (fun n => (n, none))) ?_ t
  · simpa using h
  · intro p hp
    obtain ⟨n, hn, rfl⟩ := List.mem_map.mp hp
    simp only [display]
    simp only [terminals, List.mem_cons] at hn
    rcases hn with rfl | rfl | hn
    · decide
    · decide
    · exact valid_ne_qqq ((accepted_unique s hok).2.2 n hn)

/-- All of C19 for an accepted spec, without side hypotheses. -/
theorem accepted_constants (s : Spec) (hok : (createNames s).err = false) :
    constOf (terminals s) "EOF" = some 0 ∧ constOf (terminals s) "ERROR" = some 1 ∧
    (∀ n ∈ terminals s, ∃ k, constOf (terminals s) n = some k ∧ k < (terminals s).length) ∧
    (∀ a b k, constOf (terminals s) a = some k → constOf (terminals s) b = some k → a = b) ∧
    (constBlock (terminals s)).map (·.2) = List.range (terminals s).length := by
  have hu := (accepted_unique s hok).2.1
  have h1 := one_per_terminal _ hu
  refine ⟨rfl, rfl, fun n hn => ?_, h1.2, (dense _).2.2.1⟩
  obtain ⟨k, hk, hlt, -⟩ := h1.1 n hn
  exact ⟨k, hk, hlt⟩

end Lox.Props.C19
