import Lox.LR.LALRExact
import Lox.LR.Example
/-!
# C04 – the emitted item sets and tables are the LALR(1) ones

Property (verbatim, the part treated here): "lox refuses a grammar … if and only if its LALR(1)
automaton has a state and lookahead with more than one action left …; it … never rejects an LALR(1)
grammar … For accepted grammars the emitted action and goto tables are the LALR(1) tables."

**Definition** (`Lox/LR/LALR.lean`, nothing algorithmic): `LR1Item G γ it` – the LR(1) item `it` is
valid for the viable prefix `γ` (start / goto / closure with the semantic `First`); `LR0Item` – the
same without lookaheads; `LALRSet G γ` – the union of the LR(1) items valid for the viable prefixes
with the same LR(0) item set as `γ`; `LALRItem G A s` – the union over the `γ` that lead from state
0 to `s` along the edges of the skeleton `A`; `Cand` – the parsing actions an item set calls for.

**How states are identified.** The automaton skeleton is `autoOf T cert`: its edges are read off the
emitted arrays (`trans`: shift entries of `_actions`, entries of `_goto`, looked up with the
generated `_Find`). `justify` checks `KernelsDistinct` (distinct states have distinct LR(0)
kernels, as `ItemSet.LR0Key` guarantees in the generator). With that, `states_are_lr0_states` shows
that the skeleton IS the LR(0) automaton: every viable prefix reaches exactly one state, two viable
prefixes reach the same state iff the same LR(0) items are valid for them, and the cores of that
state are those LR(0) items. Hence `LALRItem` (by state) and `LALRSet` (by viable prefix, no
automaton mentioned) coincide (`items_are_lalr_sets`).

**Validators.** `check` (`Lox/LR/Check.lean`): nothing is missing (⊇). `justify`
(`Lox/LR/Justify.lean`): nothing is invented (⊆): every item has a ranked derivation inside the
certificate, every table entry is called for by an item (a reduce on `a` by the completed item with
lookahead `a`), kernels are distinct. `productiveB`: every nonterminal derives a token string
(needed only for the automaton-free form: for an unproductive `β` the textbook LR(0) closure of
`[A → α·Bβ]` adds `B`'s productions while no LR(1) item `[B → ·δ, b]` exists since FIRST(βa) = ∅).
All three are run on every emitted table (`lr.validate`, `lr.justify`).
-/
namespace Lox.Props.C04
open Lox.LR

section
variable {G : Grammar} {nTerms nRules : Nat} {T : Tables} {cert : Array (List Item)}

/-- The FIRST of the definition is over sentential forms (`α ⇒* bδ`, Aho/Sethi/Ullman §4.4; this
is what `first.go` computes, also for grammars with rules that derive nothing). In a productive
grammar it coincides with the reading over token strings (`FirstDer`: `α` derives a token string
starting with `b`, or the empty token string and `b = a`) on every suffix of a right-hand side –
the only arguments FIRST is applied to in the closure rule. -/
theorem first_iff_der_first (hp : productiveB G nRules = true) {p : Nat} {pr : Prod}
    (hpr : G.prods[p]? = some pr) (k a b : Nat) :
    First G (pr.rhs.drop k) a b ↔ FirstDer G (pr.rhs.drop k) a b :=
  first_iff_firstDer (productiveB_sound hp)
    (fun B hB => ((productiveB_sound hp) p pr hpr).2 B (List.mem_of_mem_drop hB)) a b

/-- **items_exact.** On tables that pass `check` and `justify`, the item set the generator computed
for state `s` is exactly the LALR(1) item set of `s`. -/
theorem items_exact (hc : check G nTerms nRules T cert = .ok ())
    (hj : justify G nTerms nRules T cert = .ok ()) (s : Nat) (it : Item) :
    it ∈ itemsOf cert s ↔ LALRItem G (autoOf T cert) s it :=
  ⟨justify_sound hj s it, LALRItem.mem (closed_of_checkOK (checkB_spec (check_ok_iff.mp hc)))⟩

/-- **states_are_lr0_states.** The skeleton read off the tables is the LR(0) automaton: (1) every
viable prefix (= some LR(0) item is valid for it) leads from state 0 to a state; (2) the cores of
the state reached along `γ` are exactly the LR(0) items valid for `γ`; (3) two viable prefixes reach
the same state iff the same LR(0) items are valid for them. -/
theorem states_are_lr0_states (hc : check G nTerms nRules T cert = .ok ())
    (hj : justify G nTerms nRules T cert = .ok ()) (hp : productiveB G nRules = true) :
    (∀ γ p d, LR0Item G γ p d → ∃ s, Path (autoOf T cert) 0 γ s) ∧
    (∀ γ s, Path (autoOf T cert) 0 γ s → ∀ p d,
      HasCore (itemsOf cert s) p d ↔ LR0Item G γ p d) ∧
    (∀ γ γ' s s', Path (autoOf T cert) 0 γ s → Path (autoOf T cert) 0 γ' s' →
      (s = s' ↔ SameLR0 G γ γ')) := by
  have hck := checkB_spec (check_ok_iff.mp hc)
  have hcl := closed_of_checkOK hck
  have hs := safe_of_checkOK hck
  have hjo := justify_spec hj
  have hpr := productiveB_sound hp
  refine ⟨fun γ p d h => ?_, fun γ s hpath p d => cores_eq_lr0 hcl hs hjo.justd hpr hpath p d,
    fun γ γ' s s' hpath hpath' => ⟨fun e p d => ?_, fun hsame => ?_⟩⟩
  · obtain ⟨s, hpath, _⟩ := h.in_state hcl hpr
    exact ⟨s, hpath⟩
  · subst e
    rw [← cores_eq_lr0 hcl hs hjo.justd hpr hpath, ← cores_eq_lr0 hcl hs hjo.justd hpr hpath']
  · exact same_state hcl hs hjo.justd hjo.edges hjo.kernels (fun s it h => mem_itemsOf h) hpr hpath'
      hpath hsame

/-- **items_are_lalr_sets** (automaton-free form of `items_exact`). The item set of the state
reached along the viable prefix `γ` is the textbook LALR(1) item set of `γ`: the LR(1) items valid
for some viable prefix with the same LR(0) item set as `γ`. -/
theorem items_are_lalr_sets (hc : check G nTerms nRules T cert = .ok ())
    (hj : justify G nTerms nRules T cert = .ok ()) (hp : productiveB G nRules = true)
    {γ : List Sym} {s : Nat} (hpath : Path (autoOf T cert) 0 γ s) (it : Item) :
    it ∈ itemsOf cert s ↔ LALRSet G γ it := by
  have hck := checkB_spec (check_ok_iff.mp hc)
  have hjo := justify_spec hj
  exact items_eq_lalrSet (closed_of_checkOK hck) (safe_of_checkOK hck) hjo.justd hjo.edges
    hjo.kernels (fun s it h => mem_itemsOf h) (productiveB_sound hp) hpath it

/-- The target of an edge is the state of the extended viable prefix: its item set is the LALR(1)
item set of `γ X` (so the shift targets in `_actions` and the entries of `_goto` are the LALR(1)
successor states). -/
theorem successor_is_lalr_set (hc : check G nTerms nRules T cert = .ok ())
    (hj : justify G nTerms nRules T cert = .ok ()) (hp : productiveB G nRules = true)
    {γ : List Sym} {s s' : Nat} {X : Sym} (hpath : Path (autoOf T cert) 0 γ s)
    (htr : trans (autoOf T cert) s X = some s') (it : Item) :
    it ∈ itemsOf cert s' ↔ LALRSet G (γ ++ [X]) it :=
  items_are_lalr_sets hc hj hp (.snoc hpath htr) it

/-- **tables_are_lalr** (action table). The entry of the emitted `_actions` table at `(s, a)` (as
`_Find` reads it) is `act` iff the LALR(1) item set of `s` calls for `act` on `a`: shift to the
`a`-successor iff some LALR(1) item of `s` has `a` after the dot, reduce `p` iff
`[p, |rhs p|, a]` is an LALR(1) item of `s`, accept iff `[S' → S·, EOF]` is and `a = EOF`. In
particular there is an entry iff the LALR(1) set calls for an action, and reduce entries sit only
on genuine LALR(1) lookaheads. -/
theorem tables_are_lalr (hc : check G nTerms nRules T cert = .ok ())
    (hj : justify G nTerms nRules T cert = .ok ()) (s a : Nat) (act : Act) :
    (autoOf T cert).action s a = some act ↔
      Cand G (autoOf T cert) (LALRItem G (autoOf T cert)) s a act := by
  have hck := checkB_spec (check_ok_iff.mp hc)
  constructor
  · intro h
    exact ((justify_spec hj).actions s a act h).mono (justify_sound hj)
  · intro h
    exact action_of_cand (valid_of_checkOK hck)
      (h.mono fun s it hit => LALRItem.mem (closed_of_checkOK hck) hit)

/-- … hence the action is the UNIQUE one the LALR(1) item set determines. -/
theorem lalr_action_unique (hc : check G nTerms nRules T cert = .ok ())
    (hj : justify G nTerms nRules T cert = .ok ()) {s a : Nat} {x y : Act}
    (hx : Cand G (autoOf T cert) (LALRItem G (autoOf T cert)) s a x)
    (hy : Cand G (autoOf T cert) (LALRItem G (autoOf T cert)) s a y) : x = y := by
  have h1 := (tables_are_lalr hc hj s a x).mpr hx
  have h2 := (tables_are_lalr hc hj s a y).mpr hy
  rw [h1] at h2
  exact Option.some.inj h2

/-- … and a missing entry (the parser reports a syntax error) means no LALR(1) action. -/
theorem no_entry_iff (hc : check G nTerms nRules T cert = .ok ())
    (hj : justify G nTerms nRules T cert = .ok ()) (s a : Nat) :
    (autoOf T cert).action s a = none ↔
      ∀ act, ¬ Cand G (autoOf T cert) (LALRItem G (autoOf T cert)) s a act := by
  constructor
  · intro h act hcand
    rw [(tables_are_lalr hc hj s a act).mpr hcand] at h
    cases h
  · intro h
    cases hact : (autoOf T cert).action s a with
    | none => rfl
    | some act => exact absurd ((tables_are_lalr hc hj s a act).mp hact) (h act)

/-- **tables_are_lalr** (goto table). The emitted `_goto` table has an entry at `(s, B)` iff some
LALR(1) item of `s` has the rule `B` after the dot (its value is the LALR(1) successor state:
`successor_is_lalr_set`). -/
theorem goto_is_lalr (hc : check G nTerms nRules T cert = .ok ())
    (hj : justify G nTerms nRules T cert = .ok ()) (s B : Nat) :
    (∃ s', (autoOf T cert).goto s B = some s') ↔
      ∃ it pr, LALRItem G (autoOf T cert) s it ∧ G.prods[it.p]? = some pr ∧
        pr.rhs[it.d]? = some (.n B) := by
  have hck := checkB_spec (check_ok_iff.mp hc)
  constructor
  · rintro ⟨s', h⟩
    obtain ⟨it, hmem, pr, hp, hX⟩ := (justify_spec hj).gotos s B s' h
    exact ⟨it, pr, justify_sound hj s it hmem, hp, hX⟩
  · rintro ⟨it, pr, hit, hp, hX⟩
    have hmem := LALRItem.mem (closed_of_checkOK hck) hit
    obtain ⟨s', hgo, _⟩ := (valid_of_checkOK hck).goto s it pr B hmem hp hX
    exact ⟨s', hgo⟩

end

/-- **no_invented_conflict**, general form (no hypothesis on the action table, so it also speaks
about grammars lox refuses): for ANY automaton skeleton `A` with item sets that are closed
(`Closed`: start item, goto along the edges, closure w.r.t. the semantic FIRST) and justified
(`Justd`), a (state, terminal) cell has two different candidate actions in the generator's item
sets iff it has in the LALR(1) item sets. -/
theorem no_invented_conflict_of {G : Grammar} {A : Auto} (hc : Closed G A)
    (hj : ∀ s it, it ∈ A.items s → Justd G A s it) (s a : Nat) :
    Conflict G A (fun s it => it ∈ A.items s) s a ↔ Conflict G A (LALRItem G A) s a := by
  constructor
  · rintro ⟨x, y, hx, hy, hne⟩
    exact ⟨x, y, hx.mono fun s it h => (hj s it h).lalr, hy.mono fun s it h => (hj s it h).lalr, hne⟩
  · rintro ⟨x, y, hx, hy, hne⟩
    exact ⟨x, y, hx.mono fun s it h => LALRItem.mem hc h, hy.mono fun s it h => LALRItem.mem hc h,
      hne⟩

section
variable {G : Grammar} {nTerms nRules : Nat} {T : Tables} {cert : Array (List Item)}

/-- **no_invented_conflict** on emitted tables. -/
theorem no_invented_conflict (hc : check G nTerms nRules T cert = .ok ())
    (hj : justify G nTerms nRules T cert = .ok ()) (s a : Nat) :
    Conflict G (autoOf T cert) (fun s it => it ∈ itemsOf cert s) s a ↔
      Conflict G (autoOf T cert) (LALRItem G (autoOf T cert)) s a :=
  no_invented_conflict_of (closed_of_checkOK (checkB_spec (check_ok_iff.mp hc)))
    (justify_spec hj).justd s a

/-- **accepted_is_lalr1.** Tables that pass `check` and `justify` belong to an LALR(1) grammar: no
(state, terminal) cell of the LALR(1) automaton has two different actions. (`check` fails on every
table with an unresolved or precedence-resolved conflict, so this is the "accepted ⇒ LALR(1)"
direction; the converse direction for refused grammars is `no_invented_conflict_of` applied to the
item sets and transitions of `ConstructLALR`.) -/
theorem accepted_is_lalr1 (hc : check G nTerms nRules T cert = .ok ())
    (hj : justify G nTerms nRules T cert = .ok ()) (s a : Nat) :
    ¬ Conflict G (autoOf T cert) (LALRItem G (autoOf T cert)) s a := by
  rintro ⟨x, y, hx, hy, hne⟩
  exact hne (lalr_action_unique hc hj hx hy)

end

/-! ## Non-vacuity: the tables lox emits for `S = A S | B` (`Lox/LR/Example.lean`) -/

theorem example_justify : justify Example.G 4 2 Example.T Example.cert = .ok () :=
  justify_ok_iff.mpr (by decide +kernel)

theorem example_productive : productiveB Example.G 2 = true := by decide

/-- The hypotheses of all theorems above hold on the example; e.g. state 1 (after `A`) holds
`[S → A·S, EOF]` and its closure, and these are LALR(1) items of state 1. -/
example : check Example.G 4 2 Example.T Example.cert = .ok () ∧
    justify Example.G 4 2 Example.T Example.cert = .ok () ∧ productiveB Example.G 2 = true ∧
    LALRItem Example.G (autoOf Example.T Example.cert) 1 ⟨2, 0, 0⟩ :=
  ⟨Example.check_ok, example_justify, example_productive,
    (items_exact Example.check_ok example_justify 1 ⟨2, 0, 0⟩).mp (by decide)⟩

/-- The viable prefix `A A` reaches state 1, so the item set of state 1 is `LALRSet G [A, A]`. -/
example : ∀ it, it ∈ itemsOf Example.cert 1 ↔ LALRSet Example.G [.t 2, .t 2] it :=
  items_are_lalr_sets Example.check_ok example_justify example_productive
    (.snoc (γ := [.t 2]) (s' := 1) (.snoc (γ := []) (s' := 0) (.nil 0) (by decide)) (by decide))

/-- The entry of the example's action table at (state 2, EOF) is `reduce 2` (`S → B ·`), and this
is what the LALR(1) item set of state 2 calls for. -/
example : Cand Example.G (autoOf Example.T Example.cert)
    (LALRItem Example.G (autoOf Example.T Example.cert)) 2 0 (.reduce 2) :=
  (tables_are_lalr Example.check_ok example_justify 2 0 (.reduce 2)).mp (by decide)

/-- An invented lookahead is rejected: with the extra item `[S → B·, A]` in state 2 (and the rest
unchanged) `justify` fails. -/
example : justifyB Example.G 4 2 Example.T
    #[[⟨0,0,0⟩, ⟨1,0,0⟩, ⟨2,0,0⟩], [⟨1,0,0⟩, ⟨1,1,0⟩, ⟨2,0,0⟩], [⟨2,1,0⟩, ⟨2,1,2⟩], [⟨0,1,0⟩],
      [⟨1,2,0⟩]] = false := by
  decide +kernel

/-- Non-vacuity of `no_invented_conflict_of` on a grammar lox REFUSES (`S = S S | a`, ambiguous):
the definition itself has a conflict – on lookahead `a`, the LALR(1) item set of the state reached
along `S S` calls both for shifting `a` and for reducing `S → S S`. Skeleton: the four LR(0)
states with their edges (0 –S→ 1, 0 –a→ 2, 1 –S→ 3, 1 –a→ 2, 3 –S→ 3, 3 –a→ 2). -/
def Gamb : Grammar := ⟨#[⟨0, [.n 1]⟩, ⟨1, [.n 1, .n 1]⟩, ⟨1, [.t 2]⟩]⟩

def Aamb : Auto where
  action s a := if a = 2 ∧ (s = 0 ∨ s = 1 ∨ s = 3) then some (.shift 2) else none
  goto s B := if B = 1 then (if s = 0 then some 1 else if s = 1 ∨ s = 3 then some 3 else none)
    else none
  items _ := []

example : Conflict Gamb Aamb (LALRItem Gamb Aamb) 3 2 := by
  -- items valid for the prefix `S S`
  have i0 : LR1Item Gamb [] ⟨0, 0, 0⟩ := .start
  have fa : First Gamb [] 0 0 := .inr ⟨.refl _, rfl⟩
  have i1 : LR1Item Gamb [] ⟨1, 0, 0⟩ :=
    .closure (pr := ⟨0, [.n 1]⟩) (qr := ⟨1, [.n 1, .n 1]⟩) i0 rfl rfl rfl rfl fa
  -- `[S → ·S S, a]` by closure from `[S → ·S S, EOF]`: a ∈ FIRST(S EOF)
  have f2 : First Gamb [.n 1] 0 2 := by
    refine .inl ⟨[], ?_⟩
    exact Derives.prod (G := Gamb) (q := 2) (qr := ⟨1, [.t 2]⟩) rfl
  have i2 : LR1Item Gamb [] ⟨1, 0, 2⟩ :=
    .closure (pr := ⟨1, [.n 1, .n 1]⟩) (qr := ⟨1, [.n 1, .n 1]⟩) i1 rfl rfl rfl rfl f2
  have j1 : LR1Item Gamb ([] ++ [.n 1]) ⟨1, 1, 2⟩ := .goto (pr := ⟨1, [.n 1, .n 1]⟩) i2 rfl rfl
  have j2 : LR1Item Gamb ([] ++ [.n 1] ++ [.n 1]) ⟨1, 2, 2⟩ :=
    .goto (pr := ⟨1, [.n 1, .n 1]⟩) j1 rfl rfl
  -- `[S → ·a, a]` in the same state, by closure from `[S → S·S, a]`
  have f3 : First Gamb [] 2 2 := .inr ⟨.refl _, rfl⟩
  have k1 : LR1Item Gamb ([] ++ [.n 1]) ⟨1, 0, 2⟩ :=
    .closure (pr := ⟨1, [.n 1, .n 1]⟩) (qr := ⟨1, [.n 1, .n 1]⟩) j1 rfl rfl rfl rfl f3
  have k2 : LR1Item Gamb ([] ++ [.n 1] ++ [.n 1]) ⟨1, 1, 2⟩ :=
    .goto (pr := ⟨1, [.n 1, .n 1]⟩) k1 rfl rfl
  have k3 : LR1Item Gamb ([] ++ [.n 1] ++ [.n 1]) ⟨2, 0, 2⟩ :=
    .closure (pr := ⟨1, [.n 1, .n 1]⟩) (qr := ⟨1, [.t 2]⟩) k2 rfl rfl rfl rfl f3
  have path : Path Aamb 0 ([] ++ [.n 1] ++ [.n 1]) 3 :=
    .snoc (s' := 1) (.snoc (s' := 0) (.nil 0) (by decide)) (by decide)
  refine ⟨.shift 2, .reduce 1, ?_, ?_, by decide⟩
  · exact .shift (p := 2) (d := 0) (b := 2) (pr := ⟨1, [.t 2]⟩) ⟨_, path, k3⟩ rfl rfl (by decide)
  · exact .reduce (p := 1) (pr := ⟨1, [.n 1, .n 1]⟩) ⟨_, path, j2⟩ rfl (by decide)

end Lox.Props.C04
