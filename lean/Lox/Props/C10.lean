import Lox.Table.Proofs
/-! Property theorems for C10 (emitted tables are faithful), table-codec part.

Model: `Lox/Table/Model.lean` (`internal/codegen/table.go`: `newTable`, `AddRow`, `Array`, `rowKey`;
row layouts of `emit_parser.go` and `emit_lexer.go`); `Lox.LR.find` is the generated `_Find`
(`Lox/LR/Model.lean`). Helper lemmas: `Lox/Table/Proofs.lean`. All theorems hold for every list of
rows (no size bounds); arrays are mathematical integers, i.e. offsets are assumed to fit `int32`
/ `uint32` (emitted tables are far shorter than 2^31). For `table[uint32]` the hole marker `-1` is
emitted as `4294967295` (`castU32`), which `PushRune` can equally never use as an offset. -/
namespace Lox.Props.C10
open Lox.Table Lox.LR

/-- The row indices strictly increase (what the generator guarantees: state indices in order). -/
def Increasing (rows : List (Nat × List Int)) : Prop := (rows.map (·.1)).Pairwise (· < ·)

/-- `build` (= `newTable`, `AddRow`…, `Array`) panics ("index must be monotonically increasing")
exactly when the indices do not strictly increase. -/
theorem build_total (rows : List (Nat × List Int)) : build rows ≠ none ↔ Increasing rows := by
  unfold build Increasing
  have h := @addRows_isSome rows {}
  constructor
  · intro hb
    have : (addRows {} rows).isSome := by
      cases ha : addRows {} rows with
      | none => rw [ha] at hb; exact absurd rfl hb
      | some t => rfl
    exact (h.1 this).2
  · intro hp
    have : (addRows {} rows).isSome := h.2 ⟨by intro i _; show (-1 : Int) < (i : Int); omega, hp⟩
    cases ha : addRows {} rows with
    | none => rw [ha] at this; cases this
    | some t => simp

/-- A successful build had strictly increasing indices (so every index names one row). -/
theorem build_increasing {rows a} (hb : build rows = some a) : Increasing rows :=
  (build_total rows).1 (by rw [hb]; exact fun h => nomatch h)

/-- Round trip: whatever rows are added, the `_Find`/`_makeError`/`PushRune` addressing
(`off := a[i]; count := a[off]; a[off+1 .. off+1+count)`) reads each of them back, shared or not,
and never leaves the array. -/
theorem roundtrip {rows a} (hb : build rows = some a) :
    ∀ i row, (i, row) ∈ rows → rowAt a i = some row := by
  obtain ⟨t, hinv, rfl, _⟩ := build_inv hb
  intro i row hm
  exact rowAt_array hinv hm

/-- `_Find` on the emitted array returns the value of the FIRST pair of the row with that key
(no distinctness assumption), misses when there is none, and never indexes out of range. -/
theorem find_first_match {rows a} (hb : build rows = some a) {i : Nat} {ps : List (Int × Int)}
    (hm : (i, flattenPairs ps) ∈ rows) (k : Int) :
    find a.toArray i k = (match firstMatch ps k with | some v => Look.hit v | none => Look.miss) := by
  obtain ⟨t, hinv, rfl, _⟩ := build_inv hb
  obtain ⟨off, hget, hdrop⟩ := view_of_inv hinv hm
  rw [find_of_view k hget hdrop]
  cases firstMatch ps k <;> rfl

/-- First-match semantics spelled out. -/
theorem find_hit_iff_first {rows a} (hb : build rows = some a) {i : Nat} {ps : List (Int × Int)}
    (hm : (i, flattenPairs ps) ∈ rows) (k v : Int) :
    find a.toArray i k = .hit v ↔
      ∃ pre post, ps = pre ++ (k, v) :: post ∧ k ∉ pre.map (·.1) := by
  rw [find_first_match hb hm, ← firstMatch_spec]
  cases firstMatch ps k <;> simp

/-- With pairwise distinct keys (parser rows: one entry per terminal / non-terminal) `_Find` is
exactly membership of the pair in the row. -/
theorem find_correct {rows a} (hb : build rows = some a) {i : Nat} {ps : List (Int × Int)}
    (hm : (i, flattenPairs ps) ∈ rows) (hd : (ps.map (·.1)).Pairwise (· ≠ ·)) (k v : Int) :
    find a.toArray i k = .hit v ↔ (k, v) ∈ ps := by
  rw [find_first_match hb hm]
  constructor
  · intro h
    cases hf : firstMatch ps k with
    | none => rw [hf] at h; cases h
    | some w => rw [hf] at h; cases h; exact firstMatch_mem hf
  · intro h
    rw [firstMatch_of_mem hd h]

/-- `_Find` reports "not found" exactly when the key does not occur in the row. -/
theorem find_miss {rows a} (hb : build rows = some a) {i : Nat} {ps : List (Int × Int)}
    (hm : (i, flattenPairs ps) ∈ rows) (k : Int) :
    find a.toArray i k = .miss ↔ k ∉ ps.map (·.1) := by
  rw [find_first_match hb hm, ← firstMatch_none]
  cases firstMatch ps k <;> simp

/-- `_Find` never indexes out of range on an index that was added. -/
theorem find_never_oob {rows a} (hb : build rows = some a) {i : Nat} {ps : List (Int × Int)}
    (hm : (i, flattenPairs ps) ∈ rows) (k : Int) : find a.toArray i k ≠ .oob := by
  rw [find_first_match hb hm]
  cases firstMatch ps k <;> simp

/-- Holes: an index below `maxIndex+1` that was never added reads `-1` in the offset vector, so
`_Find` (and every other reader) indexes out of range there (a Go panic, never a wrong row). -/
theorem holes {rows a} (hb : build rows = some a) {i : Nat} (hi : i < numSlots rows)
    (hn : i ∉ rows.map (·.1)) :
    a[i]? = some (-1) ∧ rowAt a i = none ∧ ∀ k, find a.toArray i k = .oob := by
  obtain ⟨t, hinv, rfl, hslots⟩ := build_inv hb
  have hnone : lookupIdx t.index i = none := by
    cases hl : lookupIdx t.index i with
    | none => rfl
    | some off =>
      obtain ⟨row, hr⟩ := hinv.idxOnly i off hl
      exact absurd (List.mem_map.2 ⟨(i, row), hr, rfl⟩) hn
  have hget : (array t)[i]? = some (-1) := by
    rw [array_get_idx t i (by omega), hnone]
  refine ⟨hget, ?_, ?_⟩
  · unfold rowAt
    rw [hget]
    simp
  · intro k
    unfold find
    rw [geti_toArray, hget]
    simp only
    rw [geti_neg _ _ (by omega)]

/-- Rows are shared only when identical (and identical rows are always shared): two added indices
get the same offset iff their rows are equal. On the Go side the dedup map is keyed by `rowKey`,
which is injective (`rowKey_injective`). -/
theorem shared_only_if_equal {rows a} (hb : build rows = some a) {i j : Nat} {r1 r2 : List Int}
    (h1 : (i, r1) ∈ rows) (h2 : (j, r2) ∈ rows) : a[i]? = a[j]? ↔ r1 = r2 := by
  obtain ⟨t, hinv, rfl, _⟩ := build_inv hb
  obtain ⟨o1, hl1, hs1, hg1⟩ := hinv.offset h1
  obtain ⟨o2, hl2, hs2, hg2⟩ := hinv.offset h2
  rw [hg1, hg2]
  constructor
  · intro h
    simp only [Option.some.injEq] at h
    have : o1 = o2 := by omega
    subst this
    exact storedAt_inj hs1 hs2
  · intro h
    subst h
    have e1 := hinv.shared _ _ h1
    have e2 := hinv.shared _ _ h2
    rw [hl1] at e1
    rw [hl2, e1] at e2
    cases e2
    rfl

/-- Every index stays inside its table: each entry of the offset vector is `-1` or the offset of
a count cell that lies behind the offset vector, and the whole row `count` announces lies inside
the array. -/
theorem indices_in_range {rows a} (hb : build rows = some a) {i : Nat} (hi : i < numSlots rows) :
    a[i]? = some (-1) ∨
      ∃ off count : Nat, a[i]? = some (off : Int) ∧ numSlots rows ≤ off ∧
        a[off]? = some (count : Int) ∧ off + 1 + count ≤ a.length := by
  obtain ⟨t, hinv, rfl, hslots⟩ := build_inv hb
  cases hl : lookupIdx t.index i with
  | none =>
    left
    rw [array_get_idx t i (by omega), hl]
  | some off =>
    right
    obtain ⟨row, hr⟩ := hinv.idxOnly i off hl
    obtain ⟨off', hget, hdrop⟩ := view_of_inv hinv hr
    obtain ⟨o, hlo, _, hgo⟩ := hinv.offset hr
    have hoff : off' = o + (t.maxIndex + 1).toNat := by
      rw [hgo] at hget
      simp only [Option.some.injEq] at hget
      omega
    refine ⟨off', row.length, hget, by omega, (drop_cons_get hdrop).1, ?_⟩
    have := congrArg List.length hdrop
    simp at this
    omega

/-- The offset vector has `maxIndex + 1` entries and the array contains it. -/
theorem offsets_present {rows a} (hb : build rows = some a) : numSlots rows ≤ a.length := by
  obtain ⟨t, _, rfl, hslots⟩ := build_inv hb
  rw [array_length]
  omega

/-- The Go dedup key (`rowKey`: concatenated `binary.AppendVarint(int64(x))`) determines the row:
distinct rows never collide in `rowMap`. Holds for all integers, in particular the whole `int64`
range (`zigzag_eq_go` ties `zigzag` to the `uint64` arithmetic there). -/
theorem rowKey_injective (xs ys : List Int) (h : rowKeyBytes xs = rowKeyBytes ys) : xs = ys :=
  rowKeyBytes_inj xs ys h

/-- Lexer row codec: `PushRune`'s reading of a row inverts the layout `mode_table` writes. -/
theorem lexRow_roundtrip (flags : Int) (triples : List (Int × Int × Int)) (pairs : List (Int × Int)) :
    decodeLexRow (encodeLexRow flags triples pairs) = some (flags, triples, pairs) := by
  unfold encodeLexRow decodeLexRow
  have h : ¬ ((triples.length : Int) < 0) := by omega
  simp only [h, if_false, Int.toNat_natCast, takeTriples_flatten, toPairs_flatten]

/-- The layout is unambiguous: a row decodes to at most one `(flags, triples, pairs)`. -/
theorem lexRow_unique (row : List Int) (flags : Int) (triples : List (Int × Int × Int))
    (pairs : List (Int × Int)) (h : decodeLexRow row = some (flags, triples, pairs)) :
    row = encodeLexRow flags triples pairs := by
  unfold decodeLexRow at h
  split at h
  · rename_i f n rest
    split at h
    · cases h
    · rename_i hn
      split at h
      · cases h
      · rename_i ts rest' ht
        split at h
        · cases h
        · rename_i ps hp
          simp only [Option.some.injEq, Prod.mk.injEq] at h
          obtain ⟨rfl, rfl, rfl⟩ := h
          obtain ⟨hlen, hrest⟩ := takeTriples_sound _ _ _ _ ht
          have hps := toPairs_sound rest'.length rest' _ (Nat.le_refl _) hp
          unfold encodeLexRow
          rw [hrest, hps]
          have : (ts.length : Int) = n := by omega
          rw [this]
  · cases h

/-- End to end for lexer mode tables: the row `PushRune` finds for state `i` in the emitted array
decodes to exactly what was encoded for that state. -/
theorem lexRow_in_table {rows a} (hb : build rows = some a) {i : Nat} {flags : Int}
    {triples : List (Int × Int × Int)} {pairs : List (Int × Int)}
    (hm : (i, encodeLexRow flags triples pairs) ∈ rows) :
    (rowAt a i).bind decodeLexRow = some (flags, triples, pairs) := by
  rw [roundtrip hb i _ hm]
  exact lexRow_roundtrip flags triples pairs

/-- Range rows are sorted and disjoint: a list of non-empty, pairwise disjoint ranges `(b, e, _)`
that is ordered by `rang3.Compare` (by `b`, then `e` – what `slices.SortFunc(inputs,
rang3.Compare)` in `mode_table` produces) has every range strictly before the next ones, which is
what the binary search of `PushRune` needs. -/
theorem rangeRow_sorted_disjoint (ts : List (Int × Int × Int))
    (hne : ∀ t ∈ ts, t.1 ≤ t.2.1)
    (hdisj : ts.Pairwise (fun x y => x.2.1 < y.1 ∨ y.2.1 < x.1))
    (hsort : ts.Pairwise (fun x y => x.1 < y.1 ∨ (x.1 = y.1 ∧ x.2.1 ≤ y.2.1))) :
    ts.Pairwise (fun x y => x.2.1 < y.1) := by
  induction ts with
  | nil => exact List.Pairwise.nil
  | cons t ts ih =>
    rw [List.pairwise_cons] at hdisj hsort ⊢
    refine ⟨?_, ih (fun u hu => hne u (List.mem_cons_of_mem _ hu)) hdisj.2 hsort.2⟩
    intro u hu
    have h1 := hdisj.1 u hu
    have h2 := hsort.1 u hu
    have h3 := hne u (List.mem_cons_of_mem _ hu)
    omega

/-! ### The hypotheses are satisfiable (non-vacuity) -/

/-- Sharing, a hole and an empty row in one table. -/
example : build [(0, [1, 20, 2, -3]), (2, [1, 20, 2, -3]), (3, []), (5, [7, 7])]
    = some [6, -1, 6, 11, -1, 12, 4, 1, 20, 2, -3, 0, 2, 7, 7] := by decide

example : Increasing [(0, [1, 20, 2, -3]), (2, [1, 20, 2, -3]), (3, []), (5, [7, 7])] := by
  unfold Increasing; decide

example : (2, flattenPairs [(1, 20), (2, -3)]) ∈
    [(0, [1, 20, 2, -3]), (2, [1, 20, 2, -3]), (3, ([] : List Int)), (5, [7, 7])] := by decide

example : ([(1, 20), (2, -3)].map (·.1) : List Int).Pairwise (· ≠ ·) := by decide

example : find #[6, -1, 6, 11, -1, 12, 4, 1, 20, 2, -3, 0, 2, 7, 7] 2 2 = .hit (-3) := by decide
example : find #[6, -1, 6, 11, -1, 12, 4, 1, 20, 2, -3, 0, 2, 7, 7] 1 2 = .oob := by decide

/-- Non-monotone indices: the panic. -/
example : build [(1, [0]), (1, [0])] = none := by decide

/-- A duplicate key: `_Find` returns the first value. -/
example : find #[1, 4, 5, 10, 5, 11] 0 5 = .hit 10 := by decide

example : rowKeyBytes [-1, 300, 2147483647, -2147483648, 4294967295]
    = [1, 216, 4, 254, 255, 255, 255, 15, 255, 255, 255, 255, 15, 254, 255, 255, 255, 31] := by decide

example : decodeLexRow (encodeLexRow 1 [(97, 122, 4), (48, 57, 2)] [(3, 7), (2, 0)])
    = some (1, [(97, 122, 4), (48, 57, 2)], [(3, 7), (2, 0)]) := by decide

example : decodeLexRow [0, 2, 97, 122, 4] = none := by decide

end Lox.Props.C10
