import Lox.Dec.Interleave
/-! C18 "Generated parsers and lexers are safe to run concurrently" — the logical half:
instances that keep their own state and only read shared immutable tables cannot influence each
other, whatever the interleaving. Outside the model (and named as such in DESIGN §7 C18): the Go
memory model, and the premise that generated code never writes its package-level tables
(checked by the fact extractor, `expect/shared_state.json`). -/
namespace Lox.Props.C18
open Lox.Dec.Interleave

variable {n : Nat} {T : Type} {S In Out : Fin n → Type}

/-- For every schedule, the trace of component `i` inside the interleaved run is the trace of
component `i` running alone on the subsequence of its own events, and so is its final state. -/
theorem interleave_independent (step : Step n T S In Out) (tb : T) (g : Global S)
    (sch : List (Tagged In)) (i : Fin n) :
    proj i (run step tb g sch).2 = (runSolo step tb i (g i) (proj i sch)).2 ∧
    (run step tb g sch).1 i = (runSolo step tb i (g i) (proj i sch)).1 :=
  run_proj step tb i g sch

/-- Any two interleavings of the same per-component event sequences give the same
per-component traces and the same final global state. -/
theorem interleave_perm (step : Step n T S In Out) (tb : T) (g : Global S)
    (sch₁ sch₂ : List (Tagged In)) (h : ∀ i, proj i sch₁ = proj i sch₂) :
    (∀ i, proj i (run step tb g sch₁).2 = proj i (run step tb g sch₂).2) ∧
    (run step tb g sch₁).1 = (run step tb g sch₂).1 := by
  refine ⟨fun i => ?_, funext fun i => ?_⟩
  · rw [(run_proj step tb i g sch₁).1, (run_proj step tb i g sch₂).1, h i]
  · rw [(run_proj step tb i g sch₁).2, (run_proj step tb i g sch₂).2, h i]

/-- In particular a component is unaffected by what the *other* components are fed. -/
theorem others_irrelevant (step : Step n T S In Out) (tb : T) (g : Global S)
    (sch₁ sch₂ : List (Tagged In)) (i : Fin n) (h : proj i sch₁ = proj i sch₂) :
    proj i (run step tb g sch₁).2 = proj i (run step tb g sch₂).2 ∧
    (run step tb g sch₁).1 i = (run step tb g sch₂).1 i := by
  rw [(run_proj step tb i g sch₁).1, (run_proj step tb i g sch₂).1,
    (run_proj step tb i g sch₁).2, (run_proj step tb i g sch₂).2, h]
  exact ⟨rfl, rfl⟩

/-! ### Non-vacuity: a "lexer" with a `Nat` state and a "parser" with a stack, over a shared table -/

/-- Component 0 counts (state `Nat`), component 1 keeps a stack (state `List Nat`). -/
def exS : Fin 2 → Type
  | 0 => Nat
  | 1 => List Nat

def exStep0 (tb s x : Nat) : Nat × Nat := (s + x + tb, s + x + tb)
def exStep1 (tb : Nat) (s : List Nat) (x : Nat) : List Nat × Nat := (x :: s, s.length + tb)

def exStep : Step 2 Nat exS (fun _ => Nat) (fun _ => Nat)
  | 0 => exStep0
  | 1 => exStep1

def exInit : Global exS
  | 0 => (0 : Nat)
  | 1 => ([] : List Nat)

def exSch₁ : List (Tagged (n := 2) (fun _ => Nat)) := [⟨0, 1⟩, ⟨1, 7⟩, ⟨0, 2⟩, ⟨1, 8⟩, ⟨0, 3⟩]
def exSch₂ : List (Tagged (n := 2) (fun _ => Nat)) := [⟨1, 7⟩, ⟨1, 8⟩, ⟨0, 1⟩, ⟨0, 2⟩, ⟨0, 3⟩]

/-- The hypothesis of `interleave_perm` holds for two genuinely different schedules. -/
example : exSch₁ ≠ exSch₂ ∧ ∀ i, proj i exSch₁ = proj i exSch₂ := by decide

/-- … and the traces are what the solo runs give (table value 10). -/
example :
    proj 0 (run exStep 10 exInit exSch₁).2 = [11, 23, 36] ∧
    proj 1 (run exStep 10 exInit exSch₁).2 = [10, 11] ∧
    proj 0 (run exStep 10 exInit exSch₂).2 = [11, 23, 36] ∧
    (runSolo exStep 10 0 (0 : Nat) [1, 2, 3]).2 = [11, 23, 36] := by decide

/-! ### The contrapositive: with a shared *mutable* cell the statement fails -/

/-- Two components drawing tickets from one shared counter: component 0's trace inside the
interleaved run differs from its solo trace on its own events, and two interleavings of the same
per-component sequences give component 0 different traces. -/
example :
    let sch₁ : List (Tagged (n := 2) (fun _ => Unit)) := [⟨1, ()⟩, ⟨0, ()⟩]
    let sch₂ : List (Tagged (n := 2) (fun _ => Unit)) := [⟨0, ()⟩, ⟨1, ()⟩]
    (∀ i, proj i sch₁ = proj i sch₂) ∧
    proj 0 (runM ticketStep 0 (fun _ => ()) sch₁) = [1] ∧
    runSoloM ticketStep 0 0 () (proj 0 sch₁) = [0] ∧
    proj 0 (runM ticketStep 0 (fun _ => ()) sch₁) ≠ proj 0 (runM ticketStep 0 (fun _ => ()) sch₂) := by
  decide

end Lox.Props.C18
