import Lox.LR.Model
import Lox.LR.RuntimeExample
import Lox.Lex.Model
import Lox.Dec.Interleave
import Lox.Props.C18
/-! C18, instantiated with the REAL runtime models.

`Lox.Props.C18.interleave_independent` is stated for abstract step functions. Here the components
are instances of the executable models of the generated code:

* a parser instance = one `Lox.LR.PState` (the receiver `lox`: `_stack`, `_la`, `_lasym`, `_qla`,
  `_qlasym`, `_recovering`, plus the position of its own lexer) stepping with
  `Lox.LR.step T inp withBounds fuel` (one iteration of the `for` loop of `parse`,
  `internal/codegen/emit_parser.go`, including `_recover`, `_onBounds`);
* a lexer instance = one `Lox.Lex.Lx` (`simplelexer.Lexer` around a `_LexerStateMachine`:
  `token`, `state`, `mode`, `modeStack`) stepping with `Lox.Lex.readToken modes inp fuel none`
  (one `ReadToken()` call, `internal/codegen/emit_lexer.go` `PushRune`).

What all instances share is a `Program`: the tables of every package linked into the binary
(`_rules/_termCounts/_actions/_goto` per parser package, `_lexerModes` per lexer package), which no
step can change — the models are pure functions of their own state and of the tables; that the Go
code is like that is the premise extracted by the harness (`expect/shared_state.json`).

Result (`concurrent_eq_sequential`): in ANY interleaving of the steps of N instances (same or
different packages, with or without error recovery / `_onBounds`), what instance `i` computes —
read off its own trace — is exactly `Lox.LR.runLoop` / `Lox.Lex.lexAll` of its solo model, i.e. the
value the sequential run gives (`parser_full`: and that is `Lox.LR.parse`). -/
namespace Lox.Props.C18
open Lox.Dec.Interleave

/-- The immutable data shared by every goroutine: the tables of the linked packages. -/
structure Program where
  parserTables : Nat → Lox.LR.Tables
  lexerModes : Nat → Array Lox.Lex.Mode

/-- What an instance is created with: its package and its own input (the parameters of
`parse(lex)` / `simplelexer.New(cfg)`); `fuel` bounds the inner loops of the models. -/
inductive Inst where
  | parser (pkg : Nat) (inp : Array Nat) (withBounds : Bool) (fuel : Nat)
  | lexer (pkg : Nat) (inp : Lox.Lex.Input) (fuel : Nat)

/-- The instance's own mutable state. -/
abbrev St : Inst → Type
  | .parser .. => Lox.LR.PState
  | .lexer .. => Lox.Lex.Lx

/-- What one step lets the caller observe: the loop iteration's verdict / the token returned
(`none` = `ReadToken` does not return within the fuel, `some none` = Go panic). -/
abbrev Ob : Inst → Type
  | .parser .. => Lox.LR.StepR
  | .lexer .. => Option (Option Lox.Lex.Tok)

/-- One scheduling unit of an instance: one iteration of `parse`'s loop, or one `ReadToken()`. -/
def stepInst (P : Program) : (d : Inst) → St d → Unit → St d × Ob d
  | .parser k inp wb fuel, s, _ =>
    match Lox.LR.step (P.parserTables k) inp wb fuel s with
    | .cont s' => (s', .cont s')
    | .done o s' => (s', .done o s')
  | .lexer k inp fuel, l, _ =>
    match Lox.Lex.readToken (P.lexerModes k) inp fuel none l with
    | none => (l, none)
    | some (t, l') => (l', some t)

/-- The `Step` of `Lox.Dec.Interleave` for a family of `n` instances. -/
def theStep {n : Nat} (insts : Fin n → Inst) :
    Step n Program (fun i => St (insts i)) (fun _ => Unit) (fun i => Ob (insts i)) :=
  fun i P s x => stepInst P (insts i) s x

/-- An instance run alone for `m` steps: final state and trace. -/
def soloInst (P : Program) (d : Inst) : Nat → St d → St d × List (Ob d)
  | 0, s => (s, [])
  | m + 1, s =>
    let r := stepInst P d s ()
    let rest := soloInst P d m r.1
    (rest.1, r.2 :: rest.2)

private theorem runSolo_eq_soloInst {n : Nat} (insts : Fin n → Inst) (P : Program) (i : Fin n)
    (s : St (insts i)) (evs : List Unit) :
    runSolo (theStep insts) P i s evs = soloInst P (insts i) evs.length s := by
  induction evs generalizing s with
  | nil => rfl
  | cons x xs ih =>
    simp only [runSolo, List.length_cons, soloInst, theStep]
    rw [← ih]

/-- The schedule-independence theorem with the real models plugged in: the trace and the final
state of instance `i` inside any interleaved run are those of `i` stepping alone as many times as
the schedule let it. -/
theorem runtime_interleave_independent {n : Nat} (insts : Fin n → Inst) (P : Program)
    (g : Global (fun i => St (insts i))) (sch : List (Tagged (n := n) (fun _ => Unit))) (i : Fin n) :
    proj i (run (theStep insts) P g sch).2 = (soloInst P (insts i) (proj i sch).length (g i)).2 ∧
    (run (theStep insts) P g sch).1 i = (soloInst P (insts i) (proj i sch).length (g i)).1 := by
  have h := interleave_independent (theStep insts) P g sch i
  rw [runSolo_eq_soloInst] at h
  exact h

/-! ### Reading the result off a trace -/

/-- What `parse` returns, from the verdicts of its loop iterations (first `done`; none within the
steps taken = still running, reported as `timeout` with the state reached). -/
def parseOfTrace : List Lox.LR.StepR → Lox.LR.PState → Lox.LR.Outcome × Lox.LR.PState
  | [], s => (.timeout, s)
  | .done o s' :: _, _ => (o, s')
  | .cont _ :: rest, s => parseOfTrace rest s

/-- The token stream of a lexer, from what its `ReadToken` calls returned (up to EOF). -/
def lexOfTrace : List (Option (Option Lox.Lex.Tok)) → List Lox.Lex.Tok → List Lox.Lex.Tok × String
  | [], acc => (acc.reverse, "timeout")
  | none :: _, acc => (acc.reverse, "timeout")
  | some none :: _, acc => (acc.reverse, "panic")
  | some (some t) :: rest, acc =>
    match t with
    | .eof _ => ((t :: acc).reverse, "ok")
    | _ => lexOfTrace rest (t :: acc)

inductive Result where
  | parse (r : Lox.LR.Outcome × Lox.LR.PState)
  | lex (r : List Lox.Lex.Tok × String)

/-- The observable result of an instance, computed from ITS OWN trace and final state. -/
def view : (d : Inst) → List (Ob d) → St d → Result
  | .parser .., tr, s => .parse (parseOfTrace tr s)
  | .lexer .., tr, _ => .lex (lexOfTrace tr [])

/-- The sequential semantics: the models' own drivers. -/
def expected (P : Program) : (d : Inst) → St d → Nat → Result
  | .parser k inp wb fuel, s, m => .parse (Lox.LR.runLoop (P.parserTables k) inp wb fuel m s)
  | .lexer k inp fuel, l, m => .lex (Lox.Lex.lexAll (P.lexerModes k) inp fuel m l [])

private theorem runLoop_eq_parseOfTrace (P : Program) (k : Nat) (inp : Array Nat) (wb : Bool) (fuel m : Nat)
    (s : Lox.LR.PState) :
    Lox.LR.runLoop (P.parserTables k) inp wb fuel m s =
      parseOfTrace (soloInst P (.parser k inp wb fuel) m s).2 (soloInst P (.parser k inp wb fuel) m s).1 := by
  induction m generalizing s with
  | zero => rfl
  | succ m ih =>
    simp only [Lox.LR.runLoop, soloInst, stepInst]
    cases h : Lox.LR.step (P.parserTables k) inp wb fuel s with
    | cont s' => simp only [parseOfTrace]; exact ih s'
    | done o s' => simp only [parseOfTrace]

private theorem lexAll_eq_lexOfTrace (P : Program) (k : Nat) (inp : Lox.Lex.Input) (fuel m : Nat)
    (l : Lox.Lex.Lx) (acc : List Lox.Lex.Tok) :
    Lox.Lex.lexAll (P.lexerModes k) inp fuel m l acc =
      lexOfTrace (soloInst P (.lexer k inp fuel) m l).2 acc := by
  induction m generalizing l acc with
  | zero => rfl
  | succ m ih =>
    simp only [Lox.Lex.lexAll, soloInst, stepInst]
    cases h : Lox.Lex.readToken (P.lexerModes k) inp fuel none l with
    | none => simp only [lexOfTrace]
    | some r =>
      obtain ⟨t, l'⟩ := r
      cases t with
      | none => simp only [lexOfTrace]
      | some t =>
        cases t with
        | eof p => simp only [lexOfTrace]
        | tok ty a b => simp only [lexOfTrace]; exact ih l' _
        | err a c => simp only [lexOfTrace]; exact ih l' _

private theorem view_solo (P : Program) (d : Inst) (s : St d) (m : Nat) :
    view d (soloInst P d m s).2 (soloInst P d m s).1 = expected P d s m := by
  cases d with
  | parser k inp wb fuel => simp only [view, expected, runLoop_eq_parseOfTrace]
  | lexer k inp fuel => simp only [view, expected, lexAll_eq_lexOfTrace]

/-- **Concurrent = sequential, for the real models.** Whatever the interleaving of the steps of
`n` parser/lexer instances over the shared immutable tables, the result of instance `i` — read off
its own part of the interleaved trace — is the result of the sequential drivers `runLoop` /
`lexAll` of the models on `i`'s own input and initial state, for as many steps as `i` was given. -/
theorem concurrent_eq_sequential {n : Nat} (insts : Fin n → Inst) (P : Program)
    (g : Global (fun i => St (insts i))) (sch : List (Tagged (n := n) (fun _ => Unit))) (i : Fin n) :
    view (insts i) (proj i (run (theStep insts) P g sch).2) ((run (theStep insts) P g sch).1 i) =
      expected P (insts i) (g i) (proj i sch).length := by
  obtain ⟨h1, h2⟩ := runtime_interleave_independent insts P g sch i
  rw [h1, h2]
  exact view_solo P (insts i) (g i) _

/-- Two interleavings that give every instance the same number of steps give every instance the
same result. -/
theorem concurrent_schedules_agree {n : Nat} (insts : Fin n → Inst) (P : Program)
    (g : Global (fun i => St (insts i))) (sch₁ sch₂ : List (Tagged (n := n) (fun _ => Unit)))
    (i : Fin n) (h : (proj i sch₁).length = (proj i sch₂).length) :
    view (insts i) (proj i (run (theStep insts) P g sch₁).2) ((run (theStep insts) P g sch₁).1 i) =
    view (insts i) (proj i (run (theStep insts) P g sch₂).2) ((run (theStep insts) P g sch₂).1 i) := by
  rw [concurrent_eq_sequential, concurrent_eq_sequential, h]

/-- For a parser instance that starts where `parse` starts (bottom entry pushed, first token read)
and is given `fuel` iterations, the sequential value is `Lox.LR.parse` itself. -/
theorem parser_full (P : Program) (k : Nat) (inp : Array Nat) (wb : Bool) (fuel : Nat)
    (s1 : Lox.LR.PState)
    (h : Lox.LR.readToken (P.parserTables k) inp { stack := [{ state := 0, sym := .nil }] } = .ok s1) :
    expected P (.parser k inp wb fuel) s1 fuel = .parse (Lox.LR.parse (P.parserTables k) inp wb fuel) := by
  simp only [expected, Lox.LR.parse, h]

/-! ### Non-vacuity: two parsers of one generated grammar (one of them recovering from a syntax
error) and a lexer, under two different interleavings -/

/-- The tables of `Lox/LR/RuntimeExample.lean` (real generator output, grammar with `@error`) as
package 0; a one-rule lexer `A = 'a'` (token 2) as lexer package 0. -/
def rtProgram : Program where
  parserTables := fun _ => Lox.LR.Rt.Example.T
  lexerModes := fun _ => #[#[2, 8, 5, 0, 1, 97, 97, 1, 4, 0, 0, 3, 2]]

/-- `a b ;` (a sentence), `a a ;` (syntax error, recovered through `stmt = @error SEMI`), and the
bytes `aa`. -/
def rtInsts : Fin 3 → Inst
  | 0 => .parser 0 #[2, 3, 5] true 50
  | 1 => .parser 0 #[2, 2, 5] false 50
  | 2 => .lexer 0 #[(97, 1), (97, 1)] 50

def rtStart (inp : Array Nat) : Lox.LR.PState :=
  match Lox.LR.readToken Lox.LR.Rt.Example.T inp { stack := [{ state := 0, sym := .nil }] } with
  | .ok s => s
  | .error _ => { stack := [] }

def rtInit : Global (fun i => St (rtInsts i))
  | 0 => rtStart #[2, 3, 5]
  | 1 => rtStart #[2, 2, 5]
  | 2 => ({} : Lox.Lex.Lx)

def rtOutcome : Result → Option Lox.LR.Outcome
  | .parse r => some r.1
  | .lex _ => none

def rtTokens : Result → Option (List Lox.Lex.Tok × String)
  | .lex r => some r
  | .parse _ => none

/-- round-robin, and "all of 2, then all of 1, then all of 0": 12, 14 and 3 steps each -/
def rtSchA : List (Tagged (n := 3) (fun _ => Unit)) :=
  (List.replicate 3 [⟨0, ()⟩, ⟨1, ()⟩, ⟨2, ()⟩]).flatten ++
  (List.replicate 9 [⟨1, ()⟩, ⟨0, ()⟩]).flatten ++ [⟨1, ()⟩, ⟨1, ()⟩]

def rtSchB : List (Tagged (n := 3) (fun _ => Unit)) :=
  List.replicate 3 ⟨2, ()⟩ ++ List.replicate 14 ⟨1, ()⟩ ++ List.replicate 12 ⟨0, ()⟩

/-- The hypothesis of `parser_full` is satisfiable. -/
example : ∃ s1, Lox.LR.readToken (rtProgram.parserTables 0) #[2, 2, 5]
    { stack := [{ state := 0, sym := .nil }] } = .ok s1 := ⟨_, rfl⟩

/-- Under both interleavings: the first parser accepts, the second accepts after recovery (its
log is not empty and it read all three tokens plus EOF), the lexer yields `A A EOF`. -/
example :
    rtSchA ≠ rtSchB ∧
    (∀ sch ∈ [rtSchA, rtSchB],
      rtOutcome (view (rtInsts 0) (proj 0 (run (theStep rtInsts) rtProgram rtInit sch).2)
        ((run (theStep rtInsts) rtProgram rtInit sch).1 0)) = some .accept ∧
      rtOutcome (view (rtInsts 1) (proj 1 (run (theStep rtInsts) rtProgram rtInit sch).2)
        ((run (theStep rtInsts) rtProgram rtInit sch).1 1)) = some .accept ∧
      rtTokens (view (rtInsts 2) (proj 2 (run (theStep rtInsts) rtProgram rtInit sch).2)
        ((run (theStep rtInsts) rtProgram rtInit sch).1 2)) =
        some ([.tok 2 0 1, .tok 2 1 2, .eof 2], "ok")) := by
  decide

end Lox.Props.C18
