import Lox.Props.C01_sugar
import Lox.LR.SugarValues
/-! # C03, sugar part — the synthesised actions of helper rules deliver the documented values

`Lox.LR.interp kinds rules v` (Lox/LR/Sugar.lean) is the model of what the `_act` branches of
emit_parser.go compute for the structural value tree `v` (tied to really generated parsers by the
`lr.parse` correspondence). Specification (read these, Lox/LR/SugarValues.lean): `RepChain` /
`ListChain` – "`v` is a left-recursive helper tree over the element subtrees `es`" –, `Shape` (all
helper kinds) and `docValue`:
`x?` → the child's value or the zero value; `x*`, `x+` → the list of ALL element values in input
order (empty list for none); `@list(x,sep)`, `@list(x,sep)?` → the element values WITHOUT the
separators (empty list for the absent optional list); `x*!` / `x+!` → the elements except those whose
`Discard()` is true, in order. -/
namespace Lox.Props.C03
open Lox.LR

variable {kinds : Array Nat} (rules : Array Int)

/-- `x+` (and the body of `x*`): the list of all element values in input order. -/
theorem plus_values {v : Val} {es : List Val} (h : RepChain kinds .plusOne .plusMore v es) :
    interp kinds rules v = .list (es.map (interp kinds rules)) :=
  plus_value rules h

/-- `x+!` (the body of `x*!`): the elements whose `Discard()` is false, in input order. -/
theorem plusF_values {v : Val} {es : List Val} (h : RepChain kinds .plusFOne .plusFMore v es) :
    interp kinds rules v = .list ((es.map (interp kinds rules)).filter fun x => !x.discard) :=
  plusF_value rules h

/-- `@list(x, sep)`: the element values without the separators, in input order. -/
theorem list_values {v e0 : Val} {ps : List (Val × Val)} (h : ListChain kinds v e0 ps) :
    interp kinds rules v = .list ((e0 :: ps.map (·.2)).map (interp kinds rules)) :=
  list_value rules h

/-- All helper kinds at once: a tree of shape `hk` over the elements `es` evaluates to the
documented value of the element values. -/
theorem shape_values {hk : HK} {v : Val} {es : List Val} (h : Shape kinds hk v es) :
    interp kinds rules v = docValue hk (es.map (interp kinds rules)) :=
  shape_value rules h

/-- **Sugar values.** In the desugared grammar of a well-formed sugar grammar, EVERY value tree
`v` whose derivation tree is rooted at the i-th helper rule (of kind `k.kind`, element `k.x`) is
built over element subtrees `es`, each derived from the element symbol, listed in input order, and
the synthesised actions compute the documented value of the element values. -/
theorem sugar_values {SG : SGrammar} (hw : SG.wf = true) {i : Nat} {k : HKey}
    (hi : SG.helpers[i]? = some k) {v : Val} {w : List Nat}
    (hd : Der (desugar SG).1 [.n (SG.nUser + 1 + i)] w [v.toTree]) :
    ∃ es : List Val,
      (∀ e ∈ es, ∃ w', Der (desugar SG).1 [SGrammar.symOfAtom k.x] w' [e.toTree]) ∧
      (k.kind ≠ .list → k.kind ≠ .listOpt → w = (es.map fun e => e.toTree.yield).flatten) ∧
      interp (desugar SG).2.1 rules v = docValue k.kind (es.map (interp (desugar SG).2.1 rules)) := by
  obtain ⟨es, hs, hel, hy⟩ := SGrammar.helper_shape ((SGrammar.wf_iff SG).1 hw) hi hd
  exact ⟨es, hel, hy, shape_value rules hs⟩

/-- The same, addressed by a sugar term `t` that occurs in the grammar: the value delivered to the
user action for `t` is the documented one. -/
theorem term_values {SG : SGrammar} (hw : SG.wf = true) {t : STerm} {k : HKey}
    (ht : t ∈ SG.allTerms) (hk : t.key = some k) {v : Val} {w : List Nat}
    (hd : Der (desugar SG).1 [.n (SG.ruleIdx k)] w [v.toTree]) :
    ∃ es : List Val,
      (∀ e ∈ es, ∃ w', Der (desugar SG).1 [SGrammar.symOfAtom k.x] w' [e.toTree]) ∧
      (k.kind ≠ .list → k.kind ≠ .listOpt → w = (es.map fun e => e.toTree.yield).flatten) ∧
      interp (desugar SG).2.1 rules v = docValue k.kind (es.map (interp (desugar SG).2.1 rules)) := by
  have hW := (SGrammar.wf_iff SG).1 hw
  obtain ⟨i, hi, e⟩ := SGrammar.ruleIdx_of_mem hW (SGrammar.key_mem hW ht hk)
  rw [e] at hd
  exact sugar_values rules hw hi hd

/-- `@list(x, sep)` in full: first element, then (separator, element) pairs; the separators are
derived from `sep`, appear in the input between the elements, and are absent from the value. -/
theorem list_sugar_values {SG : SGrammar} {i : Nat} {k : HKey} (hi : SG.helpers[i]? = some k)
    (hk : k.kind = .list) {v : Val} {w : List Nat}
    (hd : Der (desugar SG).1 [.n (SG.nUser + 1 + i)] w [v.toTree]) :
    ∃ (e0 : Val) (ps : List (Val × Val)),
      (∀ e ∈ e0 :: ps.map (·.2), ∃ w', Der (desugar SG).1 [SGrammar.symOfAtom k.x] w' [e.toTree]) ∧
      (∀ s ∈ ps.map (·.1), ∃ w', Der (desugar SG).1 [SGrammar.symOfAtom k.sep] w' [s.toTree]) ∧
      w = e0.toTree.yield ++ (ps.map fun p => p.1.toTree.yield ++ p.2.toTree.yield).flatten ∧
      interp (desugar SG).2.1 rules v =
        .list ((e0 :: ps.map (·.2)).map (interp (desugar SG).2.1 rules)) := by
  obtain ⟨e0, ps, hc, hel, hse, hy⟩ := SGrammar.list_tree hi hk _ v w (Nat.le_refl _) hd
  exact ⟨e0, ps, hel, hse, hy, list_value rules hc⟩

/-! ### Non-vacuity: `s = e*! ;  e = TA | TA TB` on the input `TA  TA TB  TA` -/

def exF : SGrammar :=
  ⟨["TA", "TB"],
   [⟨"s", [⟨[.starF (.rule 1)]⟩]⟩,
    ⟨"e", [⟨[.atom (.tok 0)]⟩, ⟨[.atom (.tok 0), .atom (.tok 1)]⟩]⟩]⟩

example : exF.wf = true := by decide

/-- Rules `S' s e e*! e+!`; productions 4,5 = `e*!`, 6,7 = `e+!`. -/
example : (desugar exF).1.prods =
    #[⟨0, [.n 1]⟩, ⟨1, [.n 3]⟩, ⟨2, [.t 2]⟩, ⟨2, [.t 2, .t 3]⟩,
      ⟨3, [.n 4]⟩, ⟨3, []⟩, ⟨4, [.n 4, .n 2]⟩, ⟨4, [.n 2]⟩] := by decide

example : (desugar exF).2.1 = #[11, 0, 0, 0, 9, 10, 4, 3] := by decide

/-- `_rules` of the desugared grammar (rule of every production), the `rules` argument of `interp`. -/
def rulesOf (G : Grammar) : Array Int := (G.prods.toList.map fun p => (p.lhs : Int)).toArray

/-- The value tree the parser builds for `TA  TA TB  TA` below the helper `e*!`. -/
def exV : Val :=
  .node 4 [.node 6 [.node 6 [.node 7 [.node 2 [.tok 0 2]], .node 3 [.tok 1 2, .tok 2 3]],
                    .node 2 [.tok 3 2]]]

/-- It is a derivation tree of the helper rule `e*!` (rule 3 = `nUser + 1 + 0`) … -/
theorem exV_der : Der (desugar exF).1 [.n (exF.nUser + 1 + 0)] [2, 2, 3, 2] [exV.toTree] := by
  have e1 : Der (desugar exF).1 [.n 2] [2] [.node 2 [.leaf 2]] :=
    Der.single (q := 2) (pr := ⟨2, [.t 2]⟩) (by decide) (Der.term Der.nil)
  have e2 : Der (desugar exF).1 [.n 2] [2, 3] [.node 3 [.leaf 2, .leaf 3]] :=
    Der.single (q := 3) (pr := ⟨2, [.t 2, .t 3]⟩) (by decide) (Der.term (Der.term Der.nil))
  have c1 := Der.single (q := 7) (pr := ⟨4, [.n 2]⟩) (by decide) e1
  have c2 := Der.single (q := 6) (pr := ⟨4, [.n 4, .n 2]⟩) (by decide) (c1.append e2)
  have c3 := Der.single (q := 6) (pr := ⟨4, [.n 4, .n 2]⟩) (by decide) (c2.append e1)
  exact Der.single (q := 4) (pr := ⟨3, [.n 4]⟩) (by decide) c3

/-- … so `sugar_values` applies to it (helper 0 of `exF` is `e*!`) … -/
example : ∃ es : List Val,
    (∀ e ∈ es, ∃ w', Der (desugar exF).1 [.n 2] w' [e.toTree]) ∧
    [2, 2, 3, 2] = (es.map fun e => e.toTree.yield).flatten ∧
    interp (desugar exF).2.1 (rulesOf (desugar exF).1) exV =
      .list ((es.map (interp (desugar exF).2.1 (rulesOf (desugar exF).1))).filter fun x => !x.discard) := by
  obtain ⟨es, h1, h2, h3⟩ := sugar_values (rulesOf (desugar exF).1) (SG := exF) (by decide)
    (i := 0) (k := ⟨.starF, .rule 1, .rule 1⟩) (by decide) exV_der
  exact ⟨es, h1, h2 (by decide) (by decide), h3⟩

/-- … and the value is the list of the elements that are not discarded (the harness' `Discard()`:
nodes with an odd number of children), here only the middle `e = TA TB`. -/
example : interp (desugar exF).2.1 (rulesOf (desugar exF).1) exV =
    .list [.node 2 [.tok 1 2, .tok 2 3]] := by
  have hk : (desugar exF).2.1 = #[11, 0, 0, 0, 9, 10, 4, 3] := by decide
  have hr : rulesOf (desugar exF).1 = #[0, 1, 2, 2, 3, 3, 4, 4] := by decide
  rw [hk, hr]
  simp [exV, interp_node, interp_tok, kindAt, Kind.ofCode, combine, SVal.elems, SVal.discard]

end Lox.Props.C03
