import Lox.LR.PrefixSound
import Lox.LR.RuntimeSoundExample
/-! # C09 – the correct-prefix property: "blame the right token"

"… the first Error delivered carries the first token at which the input stops being a prefix of
any sentence."

`Lox/Props/C09.lean` proves `first_error_token_partial`: the first `Error` carries the lookahead
`j` of the first configuration without an action, and no sentence agrees with the input on the
positions `0..j`. This file adds the missing half – the correct-prefix (viable-prefix) property:
everything consumed before that point IS a prefix of a sentence – and states the full
`first_error_token`.

Hypotheses (all three are validators run on every emitted table, each proved sound):
`check` (`Lox.LR.check_sound`), `justify` (`Lox.LR.justify_sound`: every item of the certificate
has a derivation by the rules that define the LALR(1) item sets – this is what makes the item in
the top state a witness of viability), `productiveB` (`Lox.LR.productiveB_sound`: every
nonterminal derives a token string – without it a parser may consume tokens that lead nowhere,
e.g. `S = a U | b; U = U c` accepts the `a` of the input `a …` although no sentence starts with
`a`; see the example at the end).

An LALR(1) (as opposed to canonical LR(1)) parser may perform REDUCTIONS under a lookahead that
cannot follow, so the statement is: the offending token is never shifted – it is still the
lookahead when the error is reported – and the tokens consumed before it form a viable prefix. -/
namespace Lox.Props.C09
open Lox.LR Lox.LR.Rt

section
variable {G : Grammar} {nTerms nRules : Nat} {T : Tables} {cert : Array (List Item)}

/-- **Viable prefixes extend to sentences** (grammar level, no automaton): in a productive grammar,
if some LR(0) item is valid for the viable prefix `γ` and `γ` derives the token string `u`, then
`u` is a prefix of a sentence. -/
theorem viable_prefix_extends (hp : productiveB G nRules = true)
    (h0 : ∃ S', G.prods[0]? = some ⟨S', [.n (startSym G)]⟩) {γ : List Sym} {p d : Nat}
    (h : LR0Item G γ p d) {u : List Nat} {tsu : List Tree} (hu : Der G γ u tsu) :
    ∃ v t, Der G [.n (startSym G)] (u ++ v) [t] :=
  h.extends (productiveB_sound hp) h0 hu

/-- **Correct-prefix property of the abstract LR machine** (`Abs.step`, the loop of the generated
`parse` without recovery): in every configuration `c` reached from `init w` – in particular in the
configuration in which the machine fails – the input splits as `w = u ++ c.input` where the
consumed part `u` is a prefix of a sentence. The lookahead `Abs.la c.input` is the first token
not yet shifted; when `Abs.step` fails on `c` the offending token is exactly this lookahead and
it has not been shifted. -/
theorem abs_correct_prefix (hc : check G nTerms nRules T cert = .ok ())
    (hj : justify G nTerms nRules T cert = .ok ()) (hp : productiveB G nRules = true)
    {w : List Nat} {c : Abs.Config} (h : Abs.Reaches G (autoOf T cert) (Abs.init w) c) :
    ∃ u, w = u ++ c.input ∧ ∃ v t, Der G [.n (startSym G)] (u ++ v) [t] := by
  have hck := checkB_spec (check_ok_iff.mp hc)
  have hjo := justify_spec hj
  exact Abs.correct_prefix (closed_of_checkOK hck) (safe_of_checkOK hck) hjo.justd hjo.edges
    (productiveB_sound hp) h

/-- **Immediate error detection of the abstract LR machine** (both halves). The machine fails in
`c`, reached from `init w`. Then `w = u ++ c.input` where (1) the consumed tokens `u` ARE a prefix
of a sentence, and (2) `u` followed by the offending token – the lookahead of `c`, which was never
shifted – is NOT a prefix of any sentence followed by EOF (for the EOF lookahead: `u` is not a
sentence). -/
theorem abs_error_detection (hc : check G nTerms nRules T cert = .ok ())
    (hj : justify G nTerms nRules T cert = .ok ()) (hp : productiveB G nRules = true)
    {w : List Nat} {c : Abs.Config} (h : Abs.Reaches G (autoOf T cert) (Abs.init w) c)
    (hfail : Abs.step G (autoOf T cert) c = .fail) :
    ∃ u, w = u ++ c.input ∧ (∃ v t, Der G [.n (startSym G)] (u ++ v) [t]) ∧
      ∀ w' t, Der G [.n (startSym G)] w' [t] → ¬ (u ++ [Abs.la c.input]) <+: (w' ++ [eof]) := by
  obtain ⟨u, hu, hvia⟩ := abs_correct_prefix hc hj hp h
  obtain ⟨u', hu', hneg⟩ :=
    Abs.error_not_prefix (check_sound hc).1 (check_sound hc).2.2 (check_sound hc).2.1 h hfail
  have : u' = u := List.append_cancel_right (hu'.symm.trans hu)
  subst this
  exact ⟨u', hu, hvia, hneg⟩

/-- **Consumed symbols are a viable prefix** – concrete `parse`, EVERY state at the top of its loop,
also after recoveries: the symbols consumed so far (`stackLeaves`: the `Token`/`Error` leaves of
the stack values bottom to top, i.e. input tokens in order with stretches replaced by `Error`s –
`consumed_is_edit` in `C09.lean`), read as terminals with `Error ↦ ERROR = 1`, are a prefix of a
sentence of `G` (where ERROR is an ordinary terminal). -/
theorem consumed_symbols_viable (hc : check G nTerms nRules T cert = .ok ())
    (hj : justify G nTerms nRules T cert = .ok ()) (hp : productiveB G nRules = true)
    {inp : Array Nat} {wb : Bool} {fuel : Nat} {s : PState} (h : ParseReach T inp wb fuel s) :
    ∃ v t, Der G [.n (startSym G)] ((stackLeaves s.stack).map leafNat ++ v) [t] :=
  Rt.consumed_viable (checkB_spec (check_ok_iff.mp hc)) (justify_spec hj) (productiveB_sound hp) h

/-- **Correct-prefix property of `parse`.** The input holds no lexer ERROR token and the run is
plain (no `_recover()` yet) up to `s`, whose lookahead is token number `j = lidx s.lasym` (`j = |inp|`
for the EOF lookahead). Then exactly the tokens `inp[0..j)` have been consumed, and they are a prefix
of a sentence. -/
theorem plain_prefix_viable (hc : check G nTerms nRules T cert = .ok ())
    (hj : justify G nTerms nRules T cert = .ok ()) (hp : productiveB G nRules = true)
    {inp : Array Nat} {wb : Bool} {fuel : Nat} {s1 s : PState}
    (hinp1 : ∀ i : Nat, inp[i]? ≠ some 1) (h1 : readToken T inp initState = .ok s1)
    (hreach : PlainReach T inp wb fuel s1 s) :
    (stackLeaves s.stack).map leafNat = inp.toList.take (lidx s.lasym) ∧
    ∃ v t, Der G [.n (startSym G)] (inp.toList.take (lidx s.lasym) ++ v) [t] := by
  have hck := checkB_spec (check_ok_iff.mp hc)
  have e := plain_consumed hck.toSafeOK hinp1 h1 hreach
  refine ⟨e, ?_⟩
  rw [← e]
  exact consumed_symbols_viable hc hj hp ⟨s1, h1, hreach.reach⟩

/-- **first_error_token** (full statement; upgrades `first_error_token_partial`). "The first Error
delivered carries the first token at which the input stops being a prefix of any sentence."
The input holds no lexer ERROR token; the run is plain up to `s` and the iteration from `s` is the
first successful `_recover()`. With `j` the index of the lookahead token of `s`:
1. the `Error` injected carries token `j` (the offending token; it was never shifted: it is still
   the lookahead of `s`, and exactly `inp[0..j)` has been consumed);
2. `inp[0..j)` IS a prefix of a sentence;
3. no sentence agrees with the input on the positions `0..j` (`inp[0..j]` is NOT a prefix of any
   sentence; for `j = |inp|` – the EOF lookahead – this says the input is not a sentence). -/
theorem first_error_token (hc : check G nTerms nRules T cert = .ok ())
    (hj : justify G nTerms nRules T cert = .ok ()) (hp : productiveB G nRules = true)
    {inp : Array Nat} {wb : Bool} {fuel : Nat} {s1 s s' : PState}
    (hinp1 : ∀ i : Nat, inp[i]? ≠ some 1)
    (h1 : readToken T inp initState = .ok s1) (hreach : PlainReach T inp wb fuel s1 s)
    (hrec : isRecoverStep T s = true) (hstep : step T inp wb fuel s = .cont s') :
    (∃ i ty ex, s'.lasym = .err i ty ex ∧ s'.la = tERROR ∧ s.lasym = .tok i ty ∧
      lidx s.lasym = i ∧ (stackLeaves s.stack).map leafNat = inp.toList.take i) ∧
    (∃ v t, Der G [.n (startSym G)] (inp.toList.take (lidx s.lasym) ++ v) [t]) ∧
    (∀ (w : List Nat) (t : Tree), Der G [.n (startSym G)] w [t] →
      ¬ ∀ i, i ≤ lidx s.lasym → inp[i]? = w.toArray[i]?) := by
  have hck := checkB_spec (check_ok_iff.mp hc)
  obtain ⟨⟨i, ty, ex, hsym, hla, hidx⟩, herr⟩ := first_error_runtime h1 hreach hrec hstep
  obtain ⟨hcons, hvia⟩ := plain_prefix_viable hc hj hp hinp1 h1 hreach
  -- the lookahead of `s` is a `Token` (no lexer ERROR in the input)
  have hp' := (parseReach_SInv hck.toSafeOK ⟨s1, h1, hreach.reach⟩).cov.pinv
  have hm : ∀ i, lexErrAt inp i = true → (fun _ : Nat => false) i = true := by
    intro i hi
    simp only [lexErrAt, beq_iff_eq] at hi
    exact absurd hi (hinp1 i)
  have hnerr : s.lasym.isErr = false :=
    isErr_false_of_errsIn hp'.laok.1 (errsIn_mono hm _ herr.1)
  have hshape : ∃ ty', s.lasym = .tok i ty' := by
    have hleaf := hp'.laok.1
    cases hl : s.lasym with
    | nil => rw [hl] at hleaf; cases hleaf
    | node => rw [hl] at hleaf; cases hleaf
    | err => rw [hl] at hnerr; cases hnerr
    | tok i' ty' =>
      rw [hl] at hidx
      simp only [symTokIdx, Option.some.injEq] at hidx
      exact ⟨ty', by rw [hidx]⟩
  obtain ⟨ty', hl⟩ := hshape
  -- `_makeError` copies the token
  have hty : ty' = ty := by
    cases step_cont hstep with
    | recover _ _ hr =>
      obtain ⟨-, ⟨i2, ty2, ex2, hsym2, -, hcase⟩, -⟩ := recover_result hr
      rw [hsym] at hsym2
      cases hsym2
      rcases hcase with h | ⟨h, -⟩
      · rw [hl] at h; cases h
      · rw [hl] at h; cases h; rfl
    | shift htop hf => rw [isRecoverStep_hit htop hf] at hrec; cases hrec
    | reduce htop hf => rw [isRecoverStep_hit htop hf] at hrec; cases hrec
  subst hty
  have hlidx : lidx s.lasym = i := by rw [hl]; rfl
  refine ⟨⟨i, ty', ex, hsym, hla, hl, hlidx, by rw [← hlidx]; exact hcons⟩, hvia, fun w t hd => ?_⟩
  exact first_error_not_prefix (check_sound hc).1 (check_sound hc).2.2 hck.toSafeOK h1 hreach hrec hd

end

/-! ## Non-vacuity: the tables lox emits for `S = stmt*; stmt = A B? SEMI | @error SEMI` -/

theorem example_justify : justify Example.G 6 6 Example.T Example.certL = .ok () :=
  justify_ok_iff.mpr (by decide +kernel)

theorem example_productive : productiveB Example.G 6 = true := by decide +kernel

/-- The hypotheses of `first_error_token` hold on `a c ;` (tokens 2 4 5): plain for one iteration
(shift `a`), then state 1 has no action on `c`; the consumed prefix `[a]` is a prefix of the
sentence `a ;`. -/
example : check Example.G 6 6 Example.T Example.certL = .ok () ∧
    justify Example.G 6 6 Example.T Example.certL = .ok () ∧ productiveB Example.G 6 = true ∧
    (∀ i : Nat, (#[2, 4, 5] : Array Nat)[i]? ≠ some 1) ∧
    ∃ s1 s s', readToken Example.T #[2, 4, 5] initState = .ok s1 ∧
      PlainReach Example.T #[2, 4, 5] true 20 s1 s ∧ isRecoverStep Example.T s = true ∧
      step Example.T #[2, 4, 5] true 20 s = .cont s' ∧ lidx s.lasym = 1 := by
  refine ⟨Example.check_ok, example_justify, example_productive, ?_,
    _, _, _, rfl, .step ?_ rfl (.refl _), ?_, rfl, rfl⟩
  · intro i
    match i with
    | 0 | 1 | 2 => simp
    | i + 3 => simp
  · decide +kernel
  · decide +kernel

/-- Non-vacuity of `abs_error_detection`: on `a c ;` the abstract machine shifts `a` and fails in
the next configuration, with `c ;` unread. -/
example : ∃ c, Abs.Reaches Example.G (autoOf Example.T Example.certL) (Abs.init [2, 4, 5]) c ∧
    Abs.step Example.G (autoOf Example.T Example.certL) c = .fail ∧ c.input = [4, 5] := by
  exact ⟨_, .step (c' := ⟨[⟨1, .leaf 2⟩, ⟨0, .leaf 0⟩], [4, 5], []⟩) (by rfl) (.refl _), by rfl, rfl⟩

/-- `productiveB` is needed. `S = a U | b; U = U c` (terminals a=2 b=3 c=4; `U` derives nothing):
the LR(0) item `S → a·U` is valid for the viable prefix `a`, so an LR parser shifts `a` – but no
sentence starts with `a` (the only sentence is `b`). -/
def Gunprod : Grammar := ⟨#[⟨0, [.n 1]⟩, ⟨1, [.t 2, .n 2]⟩, ⟨1, [.t 3]⟩, ⟨2, [.n 2, .t 4]⟩]⟩

example : productiveB Gunprod 3 = false ∧ LR0Item Gunprod [.t 2] 1 1 := by
  refine ⟨by decide, ?_⟩
  have i0 : LR0Item Gunprod [] 0 0 := .start
  have i1 : LR0Item Gunprod [] 1 0 :=
    .closure (pr := ⟨0, [.n 1]⟩) (qr := ⟨1, [.t 2, .n 2]⟩) i0 rfl rfl rfl rfl
  exact .goto (γ := []) (pr := ⟨1, [.t 2, .n 2]⟩) i1 rfl rfl

end Lox.Props.C09
