import Lox.LR.RuntimeProofsErase
import Lox.LR.RuntimeProofsBounds
import Lox.LR.RuntimeExample
/-! # C16 `_onBounds`

"If the parser type defines _onBounds, it is called exactly once, right after the action, for every
reduction of a user-written production whose derived token span is non-empty, with the action's
result and the first and last input token of that span; calls made for generated list and optional
nodes carry the first and last token of the elements gathered so far. It is never called for a
reduction that derives nothing, and its presence changes nothing else about the parse."

All theorems are about the executable model `Lox.LR.parse` (`Lox/LR/Model.lean`, transcribing
`parserTemplate` in `internal/codegen/emit_parser.go`; `withBounds = true` is the `emit_bounds`
variant of the template) for ARBITRARY tables, inputs and fuel: no validity assumption.

Vocabulary (`Lox/LR/RuntimeDefs.lean`): `yieldIdx v` = indices of the input tokens at the leaves
of the value `v` (the derived token span; an `Error` leaf counts with its `Error.Token`);
`eraseB` drops every `_Bounds` field and every `.bounds` event; the model logs `.act p kids` for
EVERY production, user-written or generated helper, so the statements about `.act` events cover
both (for a helper node `yieldIdx (node p kids)` is "the elements gathered so far"). -/
namespace Lox.Props.C16
open Lox.LR Lox.LR.Rt

/-! ## C16-1 "its presence changes nothing else about the parse" -/

/-- The lookahead invariant holds at the top of every iteration of `parse`, so the type
assertions `p._lasym.(Token)` / `p._lasym.(Error)` of the `emit_bounds` shift branch never fail. -/
theorem laOK_reachable {T : Tables} {inp : Array Nat} {wb : Bool} {fuel : Nat} {s : PState}
    (h : ParseReach T inp wb fuel s) : LaOK s := by
  obtain ⟨s1, h1, hr⟩ := h
  exact hr.inv (fun _ _ hp hs => step_LaOK hp hs) (init_LaOK h1)

/-- One iteration with `_onBounds` from `s` and one without from the erased state agree up to
erasure: same continue/stop, same outcome, erased states equal. -/
theorem erasure_step (T : Tables) (inp : Array Nat) (fuel : Nat) (s : PState) (h : LaOK s) :
    (step T inp true fuel s).mapS eraseB = (step T inp false fuel (eraseB s)).mapS eraseB :=
  (step_eraseB T inp false true fuel s h.1).symm

/-- Whole runs: same outcome, same sequence of action calls, same number of `ReadToken` calls,
same lexer position, and final states equal once `_Bounds` fields and `_onBounds` calls are
dropped (in particular same stack states and values, same lookahead, same `_recovering`). -/
theorem erasure (T : Tables) (inp : Array Nat) (fuel : Nat) :
    (parse T inp true fuel).1 = (parse T inp false fuel).1 ∧
    actEvents (parse T inp true fuel).2.log = (parse T inp false fuel).2.log ∧
    (parse T inp true fuel).2.reads = (parse T inp false fuel).2.reads ∧
    (parse T inp true fuel).2.pos = (parse T inp false fuel).2.pos ∧
    eraseB (parse T inp true fuel).2 = eraseB (parse T inp false fuel).2 := by
  obtain ⟨h1, h2⟩ := parse_eraseB T inp fuel
  have hr : (eraseB (parse T inp true fuel).2).reads = (eraseB (parse T inp false fuel).2).reads :=
    congrArg _ h2
  have hp : (eraseB (parse T inp true fuel).2).pos = (eraseB (parse T inp false fuel).2).pos :=
    congrArg _ h2
  have hl : (eraseB (parse T inp true fuel).2).log = (eraseB (parse T inp false fuel).2).log :=
    congrArg _ h2
  refine ⟨h1, ?_, hr, hp, h2⟩
  change actEvents _ = actEvents _ at hl
  rw [hl, actEvents_eq_self (parse_NoBoundsEv T inp fuel)]

/-- Stack states and values agree entry by entry. -/
theorem erasure_stack (T : Tables) (inp : Array Nat) (fuel : Nat) :
    (parse T inp true fuel).2.stack.map (fun e => (e.state, e.sym)) =
      (parse T inp false fuel).2.stack.map (fun e => (e.state, e.sym)) := by
  have h := congrArg (fun s => s.stack.map (fun e => (e.state, e.sym))) (parse_eraseB T inp fuel).2
  simpa [eraseB, List.map_map, Function.comp_def, Entry.eraseB] using h

/-- Without `_onBounds` the log has no `_onBounds` call (sanity of the model). -/
theorem no_calls_without (T : Tables) (inp : Array Nat) (fuel : Nat) :
    ∀ ev ∈ (parse T inp false fuel).2.log, ev.isBounds = false :=
  parse_NoBoundsEv T inp fuel

/-! ## C16-2 `bounds_inv` -/

/-- The span of a node is the concatenation of the spans of its children. -/
theorem yield_node (p : Nat) (kids : List Val) :
    yieldIdx (.node p kids) = kids.flatMap yieldIdx := yieldIdx_node p kids

/-- In every state at the top of the loop of `parse` (with `_onBounds`), every stack entry except
the bottom one has `Empty` set iff its span is empty, and otherwise `Begin`/`End` are the first
and last token of its span. -/
theorem bounds_inv {T : Tables} {inp : Array Nat} {fuel : Nat} {s : PState}
    (h : ParseReach T inp true fuel s) : ∀ e ∈ s.stack.dropLast,
      (e.bounds.empty = true ↔ yieldIdx e.sym = []) ∧
      (e.bounds.empty = false → (yieldIdx e.sym).head? = some e.bounds.b ∧
        (yieldIdx e.sym).getLast? = some e.bounds.e) :=
  (parseReach_BInv h).1

/-- The same in the state `parse` returns with, whatever the outcome. -/
theorem bounds_inv_final (T : Tables) (inp : Array Nat) (fuel : Nat) :
    ∀ e ∈ (parse T inp true fuel).2.stack.dropLast,
      (e.bounds.empty = true ↔ yieldIdx e.sym = []) ∧
      (e.bounds.empty = false → (yieldIdx e.sym).head? = some e.bounds.b ∧
        (yieldIdx e.sym).getLast? = some e.bounds.e) :=
  (parse_BInv T inp fuel).1

/-! ## C16-3 `on_bounds_calls` -/

/-- The chronological log of a run with `_onBounds`. (a) Every action call `.act p kids` is
IMMEDIATELY followed by the call `_onBounds(node p kids, b, e)` when the span of the reduction is
non-empty, `b`/`e` being its first/last token; when the span is empty the next event, if any, is
not an `_onBounds` call. (b) Every `_onBounds` call is such a follower: directly preceded by the
action call of the same reduction, carrying its result and the first/last token of its span.
Hence exactly one call per reduction with a non-empty span, none otherwise. -/
theorem on_bounds_calls (T : Tables) (inp : Array Nat) (fuel : Nat) :
    (∀ (pre post : List Event) (p : Nat) (kids : List Val),
      (parse T inp true fuel).2.log.reverse = pre ++ .act p kids :: post →
        (yieldIdx (.node p kids) ≠ [] → ∃ b e post', post = .bounds p (.node p kids) b e :: post' ∧
          (yieldIdx (.node p kids)).head? = some b ∧ (yieldIdx (.node p kids)).getLast? = some e) ∧
        (yieldIdx (.node p kids) = [] → ∀ ev, post.head? = some ev → ev.isBounds = false)) ∧
    (∀ (pre post : List Event) (p : Nat) (v : Val) (b e : Nat),
      (parse T inp true fuel).2.log.reverse = pre ++ .bounds p v b e :: post →
        ∃ pre' kids, pre = pre' ++ [.act p kids] ∧ v = .node p kids ∧
          (yieldIdx v).head? = some b ∧ (yieldIdx v).getLast? = some e) :=
  ⟨(parse_BInv T inp fuel).2.act_follow, (parse_BInv T inp fuel).2.bounds_pred⟩

/-- The same discipline holds for the log of every intermediate state. -/
theorem on_bounds_calls_reachable {T : Tables} {inp : Array Nat} {fuel : Nat} {s : PState}
    (h : ParseReach T inp true fuel s) : LogWF s.log.reverse := (parseReach_BInv h).2

/-! ## Non-vacuity: runs of a really generated parser (`Lox/LR/RuntimeExample.lean`) -/

open Lox.LR.Rt.Example in
/-- `a b ;` is accepted; every reduction has a non-empty span and gets its call: `B? → B` with
(1,1), `stmt` with (0,2), the helper nodes `stmt+`, `stmt*` and `S` with (0,2). -/
example : (parse T #[2, 3, 5] true 40).1 = .accept ∧
    ((parse T #[2, 3, 5] true 40).2.log.reverse.take 4 =
      [.act 8 [.tok 1 3], .bounds 8 (.node 8 [.tok 1 3]) 1 1,
       .act 2 [.tok 0 2, .node 8 [.tok 1 3], .tok 2 5],
       .bounds 2 (.node 2 [.tok 0 2, .node 8 [.tok 1 3], .tok 2 5]) 0 2]) := by
  constructor <;> rfl

open Lox.LR.Rt.Example in
/-- The empty input is accepted with two reductions deriving nothing: no `_onBounds` call. -/
example : (parse T #[] true 40).1 = .accept ∧
    (parse T #[] true 40).2.log.reverse = [.act 5 [], .act 1 [.node 5 []]] := by
  constructor <;> rfl

open Lox.LR.Rt.Example in
/-- `a ;`: the empty optional `B? → ε` (production 9) gets no call, the enclosing `stmt` does,
with the tokens 0 and 1 (the empty child in the middle is skipped). -/
example : (parse T #[2, 5] true 40).2.log.reverse.take 3 =
    [.act 9 [], .act 2 [.tok 0 2, .node 9 [], .tok 1 5],
     .bounds 2 (.node 2 [.tok 0 2, .node 9 [], .tok 1 5]) 0 1] := by
  rfl

end Lox.Props.C16
