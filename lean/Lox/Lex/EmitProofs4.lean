import Lox.Lex.EmitProofs3
/-! The emitted array of a well-formed DFA over code points is a well-formed table (`wfTable`)
and its decoded automaton (`tableStep`, `tableRunFrom`, `rowPairs`) is the DFA with the action
pairs of its states. -/
namespace Lox.Lex.Gen
open Lox.Rang3 (Range cmp)
open Lox.Lex (Triple lookup sortedFrom tableStep tableRunFrom rowPairs wfTable rowOK)

/-- Every transition label lies inside `0..0x10FFFF` (code points). -/
def DFA.Runes (F : DFA) : Prop := ∀ s t, t ∈ F.trans s → 0 ≤ t.1.b ∧ t.1.e ≤ Lox.Lex.maxRune

/-- No state is non-greedy accepting (`stateFlags = 0` everywhere). -/
def DFA.Greedy (F : DFA) : Prop := ∀ st ∈ F.states, (st.accept && st.ng) = false

theorem transOK_of_wf {F : DFA} (hwf : F.WF) (hr : F.Runes) {s : Nat} {st : DState}
    (h : F.states[s]? = some st) : TransOK st.trans F.states.length := by
  have ht := DFA.trans_of_get h
  constructor
  · intro x hx y hy c h1 h2 h3 h4
    exact hwf.det s x y c (by rw [ht]; exact hx) (by rw [ht]; exact hy) h1 h2 h3 h4
  · intro t htm; exact hwf.valid s t (by rw [ht]; exact htm)
  · intro t htm; exact (hr s t (by rw [ht]; exact htm)).1
  · intro t htm; exact (hr s t (by rw [ht]; exact htm)).2
  · intro t htm; exact hwf.tgt s t (by rw [ht]; exact htm)

theorem rowOK_state {st : DState} {n : Nat} (h : TransOK st.trans n) (ps : List Pair) :
    rowOK n ⟨stateFlags st, stateTriples st, ps⟩ = true := by
  simp only [rowOK, Bool.and_eq_true, List.all_eq_true, decide_eq_true_eq]
  refine ⟨h.sorted, ?_⟩
  intro x hx
  obtain ⟨t, ht, rfl⟩ := h.mem_triples.1 hx
  have := h.hi t ht
  have := h.tgt t ht
  simp only
  omega

/-- **The emitted array is a well-formed table.** -/
theorem emit_wfTable {F : DFA} {acts : Nat → List Pair} {tbl : Mode}
    (h : emitMode F acts = some tbl) (hn : 0 < F.states.length) (hwf : F.WF) (hr : F.Runes) :
    wfTable tbl = true := by
  obtain ⟨h1, h2, h3⟩ := emit_rows h hn
  simp only [wfTable, Bool.and_eq_true, decide_eq_true_eq, List.all_eq_true, List.mem_range]
  rw [h1]
  refine ⟨⟨hn, h2⟩, ?_⟩
  intro q hq
  have hst : F.states[q]? = some F.states[q] := List.getElem?_eq_getElem hq
  rw [h3 q _ hst]
  exact rowOK_state (transOK_of_wf hwf hr hst) _

/-- **One step of the decoded table is one step of the DFA** (unless the state carries the
non-greedy-accepting flag, which switches its transitions off). -/
theorem emit_tableStep {F : DFA} {acts : Nat → List Pair} {tbl : Mode}
    (h : emitMode F acts = some tbl) (hn : 0 < F.states.length) (hwf : F.WF) (hr : F.Runes)
    {s : Nat} {st : DState} (hst : F.states[s]? = some st) (c : Int) :
    tableStep tbl s c = if stateFlags st % 2 = 0 then F.step s c else none := by
  obtain ⟨_, _, h3⟩ := emit_rows h hn
  have hok := transOK_of_wf hwf hr hst
  simp only [tableStep, h3 s st hst]
  split
  · rw [stateTriples_eq, hok.lookup_eq c]
    simp only [DFA.step, hst, DState.next, Option.map_map]
    show _ = (List.find? _ st.trans).map _
    cases List.find? (fun t => decide (t.1.b ≤ c ∧ c ≤ t.1.e)) st.trans <;> simp
  · rfl

theorem stateFlags_greedy {F : DFA} (hg : F.Greedy) {s : Nat} {st : DState}
    (hst : F.states[s]? = some st) : stateFlags st = 0 := by
  unfold stateFlags
  rw [hg st (List.mem_of_getElem? hst)]
  rfl

/-- **The decoded table runs like the DFA** from every state, on every word. -/
theorem emit_run {F : DFA} {acts : Nat → List Pair} {tbl : Mode}
    (h : emitMode F acts = some tbl) (hn : 0 < F.states.length) (hwf : F.WF) (hr : F.Runes)
    (hg : F.Greedy) : ∀ (w : List Int) (s : Nat), s < F.states.length →
      tableRunFrom tbl s w = F.run s w := by
  intro w
  induction w with
  | nil => intro s _; rfl
  | cons c w ih =>
    intro s hs
    have hst : F.states[s]? = some F.states[s] := List.getElem?_eq_getElem hs
    simp only [tableRunFrom, DFA.run]
    rw [emit_tableStep h hn hwf hr hst c, stateFlags_greedy hg hst]
    simp only [Int.zero_emod, ↓reduceIte]
    cases hstep : F.step s c with
    | none => rfl
    | some t =>
      obtain ⟨a, ha, _⟩ := (DFA.step_some_iff hwf s c t).1 hstep
      exact ih t (hwf.tgt s _ ha)

/-- The action pairs stored on a state are the pairs given to `emitMode`. -/
theorem emit_rowPairs {F : DFA} {acts : Nat → List Pair} {tbl : Mode}
    (h : emitMode F acts = some tbl) (hn : 0 < F.states.length) {s : Nat}
    (hs : s < F.states.length) : rowPairs tbl s = acts s := by
  obtain ⟨_, _, h3⟩ := emit_rows h hn
  simp only [rowPairs, h3 s _ (List.getElem?_eq_getElem hs)]

end Lox.Lex.Gen
