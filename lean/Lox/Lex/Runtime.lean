import Lox.Lex.Model
import Lox.Lex.Actions
/-! Definitions for the runtime theorems about the lexer state machine model (`Lox/Lex/Model.lean`):

* a *decoded-row view* of a `_lexerModeN` array (`Row`, `decodeRow`) and the abstract step
  function over decoded rows (`lookup`, `execPairs`, `stepRow`);
* the decidable well-formedness predicate `wfModes` / `WFModes` under which the theorems of
  C11 / C07 are proved;
* the abstract mode stack (`applyModeActs`, `applyModeActsT`, `applyW`);
* the ghost-instrumented driver `readTokenG` / `lexAllG` which, in addition to what
  `readToken` / `lexAll` do, writes an event log (`Ev`): which table rows fired, the *segments* of
  the input (emitted / discarded / error stretch / pending at EOF) and what each `ReadToken` call
  returned.

Core Lean only (this module is linked into the driver for the `lex.wfmodes` op).
Nothing here changes `Model.lean`; the lemmas are in `Lox/Lex/RuntimeProofs.lean`. -/
namespace Lox.Lex.Rt

/-! ## Decoded rows -/

/-- A transition `(rangeBegin, rangeEnd, gotoState)`. -/
abbrev Triple := Int × Int × Int

def Triple.lo (t : Triple) : Int := t.1
def Triple.hi (t : Triple) : Int := t.2.1
def Triple.target (t : Triple) : Int := t.2.2

/-- A decoded table row: `stateFlags`, the `gotoCount` transitions and the action pairs
(`internal/codegen/emit_lexer.go`, comment in `PushRune`). -/
structure Row where
  flags : Int
  triples : List Triple
  pairs : List Pair
  deriving DecidableEq, Repr, Inhabited

/-- `n` triples starting at index `k`. -/
def readTriples (m : Mode) : Nat → Int → Option (List Triple)
  | 0, _ => some []
  | n + 1, k =>
    match geti m k, geti m (k + 1), geti m (k + 2), readTriples m n (k + 3) with
    | some lo, some hi, some st, some rest => some ((lo, hi, st) :: rest)
    | _, _, _, _ => none

/-- `n` action pairs starting at index `k`. -/
def readPairs (m : Mode) : Nat → Int → Option (List Pair)
  | 0, _ => some []
  | n + 1, k =>
    match geti m k, geti m (k + 1), readPairs m n (k + 2) with
    | some a, some b, some rest => some ((a, b) :: rest)
    | _, _, _ => none

/-- The row of state `s`: `i = mode[s]`, `count = mode[i]`, `flags = mode[i+1]`,
`gotoN = mode[i+2]`, then `gotoN` triples, then `(count - 2 - 3·gotoN) / 2` pairs. `none` when any of
these reads is outside the array or the lengths do not add up (odd action section, negative
`gotoN`, row shorter than its transitions). -/
def decodeRow (m : Mode) (s : Int) : Option Row :=
  match geti m s with
  | none => none
  | some i =>
    match geti m i, geti m (i + 1), geti m (i + 2) with
    | some count, some flags, some gotoN =>
      if 0 ≤ gotoN ∧ 2 + 3 * gotoN ≤ count ∧ (count - 2 - 3 * gotoN) % 2 = 0 then
        match readTriples m gotoN.toNat (i + 3),
              readPairs m ((count - 2 - 3 * gotoN) / 2).toNat (i + 3 + gotoN * 3) with
        | some ts, some ps => some ⟨flags, ts, ps⟩
        | _, _ => none
      else none
    | _, _, _ => none

/-- Number of states of a mode. `table.Array` (`internal/codegen/table.go`) writes one offset per
state followed by the rows, and the row of state 0 is the first row, so `mode[0]` – the offset of
the first row – is the number of states. (Any `n` for which the rows of the states `< n` are
well-formed and closed under transitions would do for the theorems; this is the one that emitted
tables have.) -/
def nStates (m : Mode) : Nat :=
  match m[0]? with
  | some n => n.toNat
  | none => 0

/-! ## Abstract step over decoded rows -/

/-- Linear lookup: the target of the first triple containing `r`. -/
def lookup : List Triple → Int → Option Int
  | [], _ => none
  | (lo, hi, st) :: rest, r => if lo ≤ r ∧ r ≤ hi then some st else lookup rest r

/-- The action loop of `PushRune` over a decoded pair list. -/
def execPairs (nModes : Nat) (r : Int) : List Pair → SM → Res × SM
  | [], sm => if sm.state = 0 ∧ r = -1 then (.eof, sm) else (.error, sm)
  | (ty, p) :: rest, sm =>
    if ty = 1 then
      if p.toNat < nModes then
        execPairs nModes r rest
          { sm with modeStack := sm.mode.getD 0 :: sm.modeStack, mode := some p.toNat }
      else (.oob, sm)
    else if ty = 2 then
      match sm.modeStack with
      | [] => (.error, sm)
      | top :: st => execPairs nModes r rest { sm with mode := some top, modeStack := st }
    else if ty = 3 then (.accept, { sm with token := p, state := 0 })
    else if ty = 4 then (.discard, { sm with state := 0 })
    else if ty = 5 then (.tryAgain, { sm with state := 0 })
    else execPairs nModes r rest sm

/-- `PushRune` on a decoded row (the `l.mode == nil` normalisation already done). -/
def stepRow (nModes : Nat) (row : Row) (sm : SM) (r : Int) : Res × SM :=
  match (if row.flags % 2 = 0 then lookup row.triples r else none) with
  | some st => (.consume, { sm with state := st })
  | none => execPairs nModes r row.pairs sm

/-! ## Well-formedness -/

/-- Adjacent check: every `lo` is above the previous `hi` (initially `prev`), and `lo ≤ hi`. -/
def sortedFrom : Int → List Triple → Bool
  | _, [] => true
  | prev, (lo, hi, _) :: rest => decide (prev < lo) && decide (lo ≤ hi) && sortedFrom hi rest

def isModeAct (nModes : Nat) (p : Pair) : Bool :=
  (decide (p.1 = 1) && decide (p.2.toNat < nModes)) || decide (p.1 = 2)

def isTermAct (p : Pair) : Bool := decide (p.1 = 3) || decide (p.1 = 4) || decide (p.1 = 5)

/-- The action section is empty, or mode actions (push with a valid mode index / pop) followed by
exactly one terminal pair (accept / discard / accumulate) in last position. -/
def wfPairs (nModes : Nat) (ps : List Pair) : Bool :=
  ps.isEmpty || (ps.dropLast.all (isModeAct nModes) && ps.getLast?.any isTermAct)

/-- Well-formedness of the row of state `s` in a mode with `n` states. -/
def wfRow (nModes n s : Nat) (row : Row) : Bool :=
  sortedFrom (-1) row.triples
  && row.triples.all (fun t => decide (0 < t.target) && decide (t.target < (n : Int)))
  && wfPairs nModes row.pairs
  && (s != 0 || row.pairs.isEmpty)

def wfState (nModes : Nat) (m : Mode) (s : Nat) : Bool :=
  match decodeRow m s with
  | some row => wfRow nModes (nStates m) s row
  | none => false

def wfMode (nModes : Nat) (m : Mode) : Bool :=
  decide (0 < nStates m) && (List.range (nStates m)).all (wfState nModes m)

/-- The checker run on every emitted table (`lex.wfmodes`). -/
def wfModes (modes : Array Mode) : Bool :=
  decide (0 < modes.size) && modes.toList.all (wfMode modes.size)

/-- Rows sorted and disjoint, no range contains a negative number (so end of input `-1` never
takes a transition). -/
def SortedTriples (ts : List Triple) : Prop :=
  ts.Pairwise (fun a b => a.hi < b.lo) ∧ ∀ t ∈ ts, 0 ≤ t.lo ∧ t.lo ≤ t.hi

/-- Specification of `wfPairs`. -/
def PairsWF (nModes : Nat) (ps : List Pair) : Prop :=
  ps = [] ∨ ∃ pre t, ps = pre ++ [t] ∧
    (∀ p ∈ pre, (p.1 = 1 ∧ p.2.toNat < nModes) ∨ p.1 = 2) ∧ (t.1 = 3 ∨ t.1 = 4 ∨ t.1 = 5)

/-- Specification of `wfRow`:
* `sorted` – ranges sorted, disjoint, non-negative;
* `targets` – every target is a state of the mode and **not the start state**
  (`mode.splitStartState`);
* `pairs` – the last pair is the only terminal one, pushed mode indices in range;
* `start` – **state 0 is not accepting** (no rule matches the empty string; its failure is
  known finding K3). -/
structure RowWF (nModes n s : Nat) (row : Row) : Prop where
  sorted : SortedTriples row.triples
  targets : ∀ t ∈ row.triples, 0 < t.target ∧ t.target < (n : Int)
  pairs : PairsWF nModes row.pairs
  start : s = 0 → row.pairs = []

/-- Well-formed `_lexerModes`: at least one mode; every mode has at least one state; every state
below `nStates` has a decodable, well-formed row. -/
def WFModes (modes : Array Mode) : Prop :=
  0 < modes.size ∧
  ∀ (mi : Nat) (m : Mode), modes[mi]? = some m →
    0 < nStates m ∧
    ∀ s, s < nStates m → ∃ row, decodeRow m (s : Int) = some row ∧ RowWF modes.size (nStates m) s row

/-- Current mode and every saved mode exist. -/
def ModesOK (modes : Array Mode) (sm : SM) : Prop :=
  sm.mode.getD 0 < modes.size ∧ ∀ x ∈ sm.modeStack, x < modes.size

/-- `ModesOK` and the state is a state of the current mode. -/
def InRange (modes : Array Mode) (sm : SM) : Prop :=
  ModesOK modes sm ∧ 0 ≤ sm.state ∧
  ∃ m, modes[sm.mode.getD 0]? = some m ∧ sm.state.toNat < nStates m

/-- What `bytes.Reader.ReadRune` delivers: runes are never negative (in particular never the
end-of-input marker `-1`). -/
def ValidInput (inp : Input) : Prop := ∀ p ∈ inp.toList, 0 ≤ p.1

/-! ## Abstract mode stack (C07) -/

/-- Abstract `(current mode, saved modes)`. -/
abbrev MS := Nat × List Nat

/-- Apply the push/pop pairs of a list in order; other pairs are skipped. `none` = a pop on an
empty stack. -/
def applyModeActs : List Pair → MS → Option MS
  | [], ms => some ms
  | (ty, p) :: rest, (mode, stack) =>
    if ty = 1 then applyModeActs rest (p.toNat, mode :: stack)
    else if ty = 2 then
      match stack with
      | [] => none
      | top :: st => applyModeActs rest (top, st)
    else applyModeActs rest (mode, stack)

/-- Total variant: stops at the first pop on an empty stack and returns what had been reached
(this is what `PushRune` leaves behind when it returns `_lexerError` there). -/
def applyModeActsT : List Pair → MS → MS
  | [], ms => ms
  | (ty, p) :: rest, (mode, stack) =>
    if ty = 1 then applyModeActsT rest (p.toNat, mode :: stack)
    else if ty = 2 then
      match stack with
      | [] => (mode, stack)
      | top :: st => applyModeActsT rest (top, st)
    else applyModeActsT rest (mode, stack)

/-- The written mode actions of a rule applied in written order; `@emit`/`@discard` do not touch
the mode stack. -/
def applyW : List WAction → MS → Option MS
  | [], ms => some ms
  | .pushMode m :: rest, (mode, stack) => applyW rest (m, mode :: stack)
  | .popMode :: rest, (_, stack) =>
    match stack with
    | [] => none
    | top :: st => applyW rest (top, st)
  | _ :: rest, ms => applyW rest ms

/-- The terminal effect a written action list asks for: the written `@emit(T)` / `@discard`, else
`dflt` (accept of the rule's own terminal for a token rule, accumulate for a fragment). -/
def writtenTerminal (dflt : Pair) (ws : List WAction) : Pair :=
  match ws.find? WAction.isTerminal with
  | some w => w.pair
  | none => dflt

/-- Result code and state-machine update of a terminal pair. -/
def terminalEffect (t : Pair) (sm : SM) : Res × SM :=
  if t.1 = 3 then (.accept, { sm with token := t.2, state := 0 })
  else if t.1 = 4 then (.discard, { sm with state := 0 })
  else (.tryAgain, { sm with state := 0 })

/-! ## Ghost-instrumented driver (C11, C07) -/

inductive SegKind where
  | tok (ty : Int)        -- text of an emitted token of type `ty`
  | discarded             -- text dropped by a `@discard` rule
  | error (char : Int)    -- the stretch reported (by its start) by an ERROR token
  | pending               -- text pending when EOF was returned: reported by nothing (K5)
  deriving DecidableEq, Repr, Inhabited

/-- A stretch `[start, stop)` of byte offsets of the input. -/
structure Seg where
  kind : SegKind
  start : Nat
  stop : Nat
  deriving DecidableEq, Repr, Inhabited

/-- Ghost events. -/
inductive Ev where
  /-- A `PushRune` call found no transition and ran the action section of row `(mode, state)`;
  `start` is the token start and `off` the byte offset at that moment. -/
  | fire (mode : Nat) (state : Int) (res : Res) (start off : Nat)
  /-- A segment was closed. -/
  | seg (s : Seg)
  /-- `ReadToken` returned `t`; `(mode, stack)` of the state machine at that moment (after
  `Reset()` for an ERROR token; the Go `nil` mode is mode 0). -/
  | ret (t : Tok) (mode : Nat) (stack : List Nat)
  deriving DecidableEq, Repr, Inhabited

def Ev.seg? : Ev → Option Seg
  | .seg s => some s
  | _ => none

def segsOf (log : List Ev) : List Seg := log.filterMap Ev.seg?

/-- What the caller of `ReadToken` gets to see of a segment. -/
def Seg.report (s : Seg) : Option Tok :=
  match s.kind with
  | .tok ty => some (.tok ty s.start s.stop)
  | .error c => some (.err s.start c)
  | .pending => some (.eof s.start)
  | .discarded => none

/-- `readToken` with the ghost log `g` threaded through. Erasing the log gives `readToken`
(`readTokenG_erase`). -/
def readTokenG (modes : Array Mode) (inp : Input) :
    Nat → Option Nat → Lx → List Ev → Option (Option Tok × Lx × List Ev)
  | 0, _, _, _ => none
  | n + 1, start, l, g =>
    let start := start.getD l.offset
    let (res, sm) := pushRune modes l.sm (l.char inp)
    let l1 := { l with sm := sm }
    let g1 := g ++ [Ev.fire (l.sm.mode.getD 0) l.sm.state res start l.offset]
    match res with
    | .consume => readTokenG modes inp n (some start) (l1.consume inp) g
    | .accept =>
      let t := Tok.tok sm.token start l.offset
      some (some t, l1,
        g1 ++ [.seg ⟨.tok sm.token, start, l.offset⟩, .ret t (sm.mode.getD 0) sm.modeStack])
    | .discard => readTokenG modes inp n none l1 (g1 ++ [.seg ⟨.discarded, start, l.offset⟩])
    | .tryAgain => readTokenG modes inp n (some start) l1 g1
    | .eof =>
      let t := Tok.eof start
      some (some t, l1, g1 ++ [.seg ⟨.pending, start, l.offset⟩, .ret t (sm.mode.getD 0) sm.modeStack])
    | .oob => some (none, l1, g1)
    | .error =>
      let c := l1.char inp
      let l2 := (skipLine inp (inp.size + 1) l1).consume inp
      let l3 := { l2 with sm := l2.sm.reset }
      let t := Tok.err start c
      some (some t, l3,
        g1 ++ [.seg ⟨.error c, start, l2.offset⟩, .ret t (l3.sm.mode.getD 0) l3.sm.modeStack])

/-- `lexAll` with the ghost log. -/
def lexAllG (modes : Array Mode) (inp : Input) (fuel : Nat) :
    Nat → Lx → List Tok → List Ev → List Tok × String × List Ev
  | 0, _, acc, g => (acc.reverse, "timeout", g)
  | n + 1, l, acc, g =>
    match readTokenG modes inp fuel none l g with
    | none => (acc.reverse, "timeout", g)
    | some (none, _, g') => (acc.reverse, "panic", g')
    | some (some t, l', g') =>
      match t with
      | .eof _ => ((t :: acc).reverse, "ok", g')
      | _ => lexAllG modes inp fuel n l' (t :: acc) g'

/-- Byte offset of rune number `k`: the widths of the first `k` runes added up. -/
def offsetOf (inp : Input) (k : Nat) : Nat := ((inp.toList.take k).map (·.2)).sum

/-- Length of the input in bytes. -/
def totalBytes (inp : Input) : Nat := offsetOf inp inp.size

/-- The segments are contiguous and in order from `a` to `b`. -/
def Contig : List Seg → Nat → Nat → Prop
  | [], a, b => a = b
  | s :: rest, a, b => s.start = a ∧ s.start ≤ s.stop ∧ Contig rest s.stop b

/-- The action pairs of row `(mode, state)` (`[]` if there is no such row). -/
def rowPairs (modes : Array Mode) (mode : Nat) (state : Int) : List Pair :=
  match modes[mode]? with
  | some m =>
    match decodeRow m state with
    | some row => row.pairs
    | none => []
  | none => []

/-- One ghost event replayed on the abstract mode stack: a row that fired (the row of state
`state` *in the abstract current mode*) applies its push/pop pairs in order; an ERROR return resets
the mode to mode 0 and leaves the stack alone (`Reset()` does not clear `modeStack`). -/
def absStep (modes : Array Mode) : Ev → MS → MS
  | .fire _ state _ _ _, ms => applyModeActsT (rowPairs modes ms.1 state) ms
  | .ret (.err _ _) _ _, ms => (0, ms.2)
  | _, ms => ms

def absRun (modes : Array Mode) : List Ev → MS → MS
  | [], ms => ms
  | ev :: rest, ms => absRun modes rest (absStep modes ev ms)

/-- Walking the log with the abstract mode stack: at every `fire` the abstract current mode is the
mode whose row fired, and at every `ret` the state machine's `(mode, modeStack)` is the abstract
one. -/
def AbsAgrees (modes : Array Mode) : List Ev → MS → Prop
  | [], _ => True
  | ev :: rest, ms =>
    (match ev with
      | .fire mode _ _ _ _ => ms.1 = mode
      | .ret _ mo st => absStep modes ev ms = (mo, st)
      | _ => True) ∧
    AbsAgrees modes rest (absStep modes ev ms)

/-- The state of the driver after an ERROR token: skip to the next newline, step over it,
`Reset()`. -/
def afterError (inp : Input) (l : Lx) : Lx :=
  let l2 := (skipLine inp (inp.size + 1) l).consume inp
  { l2 with sm := l2.sm.reset }

/-- The driver's byte offset is the offset of its current rune. -/
def Sync (inp : Input) (l : Lx) : Prop := l.offset = offsetOf inp l.idx

/-- The mode-action pairs of a written action list, in written order. -/
def modePairs (ws : List WAction) : List Pair :=
  (ws.filter (fun w => !w.isTerminal)).map WAction.pair

/-- No row carries an accumulate pair (the specification has no action-less `@frag`). -/
def noAccum (modes : Array Mode) : Bool :=
  modes.toList.all fun m =>
    (List.range (nStates m)).all fun s =>
      match decodeRow m s with
      | some row => row.pairs.all fun p => decide (p.1 ≠ 5)
      | none => true

/-- Specification of `noAccum`. -/
def NoAccum (modes : Array Mode) : Prop :=
  ∀ (mi : Nat) (m : Mode), modes[mi]? = some m → ∀ s, s < nStates m →
    ∀ row, decodeRow m (s : Int) = some row → ∀ p ∈ row.pairs, p.1 ≠ 5


/-- The `@emit` test of `fragRulePairs`, named. -/
def isEmit : WAction → Bool
  | .emit _ => true
  | _ => false

/-- The `fire` event written by a `PushRune` call that did not consume. -/
def fireEv (start : Option Nat) (l : Lx) (res : Res) : Ev :=
  .fire (l.sm.mode.getD 0) l.sm.state res (start.getD l.offset) l.offset

end Lox.Lex.Rt
