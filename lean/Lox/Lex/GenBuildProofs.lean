import Lox.Lex.GenOptProofs
import Lox.Rang3.Proofs.Flatten
/-! The remaining steps of `ModeBuilder.Build` (`splitStartState`, `mergeTransitions`) change
nothing observable, and the composition `buildDFA` computes the rule-level specification. -/
namespace Lox.Lex.Gen
open Lox.Rang3

/-! ### The subset construction yields a well-formed DFA -/

theorem subset_wf (m : NFA) (hPD : PD m.edges) (hv : ValidLabels m.edges) (fuel : Nat) (d : DFA)
    (h : subset m fuel = some d) : d.WF ∧ AccOK m d := by
  simp only [subset, Option.map_eq_some_iff] at h
  obtain ⟨seen, hseen, rfl⟩ := h
  have hex := explored_of_reachLoop m.edges m.start fuel seen hseen
  have htr : ∀ s x, x ∈ (DFA.mk (seen.map (mkDState m seen))).trans s →
      ∃ S a, seen[s]? = some S ∧ a ∈ inputs m.edges S ∧
        x = (a, seen.idxOf (eclose m.edges (moveSet m.edges S a))) := by
    intro s x hx
    cases hS : seen[s]? with
    | none =>
      rw [DFA.trans_of_none (by simp [List.getElem?_map, hS])] at hx
      simp at hx
    | some S =>
      rw [DFA.trans_of_get (st := mkDState m seen S) (by simp [List.getElem?_map, hS])] at hx
      simp only [mkDState, List.mem_map] at hx
      obtain ⟨a, ha, rfl⟩ := hx
      exact ⟨S, a, rfl, ha, rfl⟩
  refine ⟨⟨?_, ?_, ?_⟩, ?_⟩
  · intro s x hx
    obtain ⟨S, a, hS, ha, rfl⟩ := htr s x hx
    simp only [List.length_map]
    exact List.idxOf_lt_length_of_mem
      (hex.succ S (List.mem_of_getElem? hS) _ (List.mem_map.2 ⟨a, ha, rfl⟩))
  · intro s x y c hx hy h1 h2 h3 h4
    obtain ⟨S, a, hS, ha, rfl⟩ := htr s x hx
    obtain ⟨S', b, hS', hb, rfl⟩ := htr s y hy
    rw [hS] at hS'; cases hS'
    obtain ⟨e1, he1, _, hl1⟩ := (mem_inputs m.edges S a).1 ha
    obtain ⟨e2, he2, _, hl2⟩ := (mem_inputs m.edges S b).1 hb
    have := hPD e1 he1 e2 he2 a b c hl1 hl2 h1 h2 h3 h4
    subst this; rfl
  · intro s x hx
    obtain ⟨S, a, _, ha, rfl⟩ := htr s x hx
    obtain ⟨e1, he1, _, hl1⟩ := (mem_inputs m.edges S a).1 ha
    exact hv a ((mem_labels _ a).2 ⟨e1, he1, hl1⟩)
  · intro s st hst
    simp only [List.getElem?_map, Option.map_eq_some_iff] at hst
    obtain ⟨S, _, rfl⟩ := hst
    rfl

/-! ### `splitStartState` -/

/-- No transition leads into state 0 (the generated state machine reads "state 0" as "no input
consumed since the last token"). -/
def NoEdgeIntoStart (d : DFA) : Prop := ∀ s t, t ∈ d.trans s → t.2 ≠ 0

/-- What a state shows to `pickAction` and to the code generator. -/
def DFA.view (d : DFA) (s : Nat) : Option (List Nat × Bool × Bool) :=
  d.states[s]?.map fun st => (st.nfa, st.accept, st.ng)

theorem find_map_snd (l : List (Range × Nat)) (f : Nat → Nat) (c : Int) :
    ((l.map fun t => (t.1, f t.2)).find? fun t => decide (t.1.b ≤ c ∧ c ≤ t.1.e)).map (·.2) =
      ((l.find? fun t => decide (t.1.b ≤ c ∧ c ≤ t.1.e)).map (·.2)).map f := by
  induction l with
  | nil => rfl
  | cons x l ih =>
    simp only [List.map_cons, List.find?_cons]
    cases hd : decide (x.1.b ≤ c ∧ c ≤ x.1.e) with
    | true => rfl
    | false => exact ih

theorem split_states (d : DFA) (start : DState) (h0 : d.states[0]? = some start) (j : Nat) :
    ((d.states ++ [start]).map (redirect d.states.length))[j]? =
      if j ≤ d.states.length then
        (d.states[if j = d.states.length then 0 else j]?).map (redirect d.states.length)
      else none := by
  simp only [List.getElem?_map]
  rcases Nat.lt_trichotomy j d.states.length with hlt | heq | hgt
  · rw [List.getElem?_append_left hlt]
    simp [Nat.le_of_lt hlt, Nat.ne_of_lt hlt]
  · subst heq
    rw [List.getElem?_append_right (Nat.le_refl _)]
    simp [h0]
  · rw [List.getElem?_eq_none (by simp; omega)]
    simp [Nat.not_le_of_gt hgt]

/-- **`splitStart_correct`**: after `splitStartState` no transition leads into state 0, and the
automaton is unchanged up to the map `g` that sends the copy back to the start state: runs
correspond, and corresponding states show the same NFA states and flags. -/
theorem splitStart_correct (d : DFA) (hwf : d.WF) :
    NoEdgeIntoStart (splitStart d) ∧ (splitStart d).WF ∧
    ∃ g : Nat → Nat, g 0 = 0 ∧
      (∀ j, (splitStart d).view j = none ∨ (splitStart d).view j = d.view (g j)) ∧
      ∀ w, ((splitStart d).run 0 w).map g = d.run 0 w := by
  have hunchanged : (∀ s t, t ∈ d.trans s → t.2 ≠ 0) → NoEdgeIntoStart d ∧ d.WF ∧
      ∃ g : Nat → Nat, g 0 = 0 ∧ (∀ j, d.view j = none ∨ d.view j = d.view (g j)) ∧
        ∀ w, (d.run 0 w).map g = d.run 0 w :=
    fun h => ⟨h, hwf, id, rfl, fun j => Or.inr rfl, fun w => by simp⟩
  unfold splitStart
  cases h0 : d.states[0]? with
  | none =>
    simp only
    apply hunchanged
    intro s t ht
    have hlen : d.states.length = 0 := by
      rcases Nat.eq_zero_or_pos d.states.length with h | h
      · exact h
      · rw [List.getElem?_eq_getElem h] at h0; cases h0
    have := hwf.tgt s t ht
    omega
  | some start =>
    simp only
    split
    · generalize hk : d.states.length = k
      let r : Nat → Nat := fun t => if t = 0 then k else t
      let g : Nat → Nat := fun j => if j = k then 0 else j
      have hkpos : 0 < k := by
        rcases Nat.eq_zero_or_pos k with h | h
        · rw [← hk] at h
          rw [List.getElem?_eq_none (by omega)] at h0; cases h0
        · exact h
      have hg0 : g 0 = 0 := by simp only [g]; split <;> omega
      have hgr : ∀ t, t < k → g (r t) = t := by
        intro t ht
        simp only [g, r]
        by_cases h0 : t = 0
        · simp [h0]
        · simp [h0]; omega
      have hget : ∀ j, (DFA.mk ((d.states ++ [start]).map (redirect k))).states[j]? =
          if j ≤ k then (d.states[g j]?).map (redirect k) else none := by
        intro j
        have := split_states d start h0 j
        rw [hk] at this
        exact this
      have htrans : ∀ j, j ≤ k → (DFA.mk ((d.states ++ [start]).map (redirect k))).trans j =
          (d.trans (g j)).map fun t => (t.1, r t.2) := by
        intro j hj
        unfold DFA.trans
        rw [hget j, if_pos hj]
        cases d.states[g j]? with
        | none => simp
        | some st => simp [redirect, r]
      have hnone : ∀ j, k < j → (DFA.mk ((d.states ++ [start]).map (redirect k))).trans j = [] := by
        intro j hj
        unfold DFA.trans
        rw [hget j, if_neg (by omega)]
        rfl
      have hmem : ∀ j x, x ∈ (DFA.mk ((d.states ++ [start]).map (redirect k))).trans j →
          j ≤ k ∧ ∃ y ∈ d.trans (g j), x = (y.1, r y.2) := by
        intro j x hx
        rcases Nat.lt_or_ge k j with hlt | hge
        · rw [hnone j hlt] at hx; simp at hx
        · rw [htrans j hge] at hx
          obtain ⟨y, hy, rfl⟩ := List.mem_map.1 hx
          exact ⟨hge, y, hy, rfl⟩
      refine ⟨?_, ⟨?_, ?_, ?_⟩, g, hg0, ?_, ?_⟩
      · intro j x hx
        obtain ⟨_, y, _, rfl⟩ := hmem j x hx
        simp only [r]
        split <;> omega
      · intro j x hx
        obtain ⟨_, y, hy, rfl⟩ := hmem j x hx
        have := hwf.tgt _ _ hy
        simp only [List.length_map, List.length_append, List.length_cons, List.length_nil, r]
        split <;> omega
      · intro j x y c hx hy h1 h2 h3 h4
        obtain ⟨_, x', hx', rfl⟩ := hmem j x hx
        obtain ⟨_, y', hy', rfl⟩ := hmem j y hy
        have := hwf.det _ x' y' c hx' hy' h1 h2 h3 h4
        subst this; rfl
      · intro j x hx
        obtain ⟨_, y, hy, rfl⟩ := hmem j x hx
        exact hwf.valid _ y hy
      · intro j
        unfold DFA.view
        rw [hget j]
        split
        · right
          cases d.states[g j]? with
          | none => rfl
          | some st => rfl
        · left; rfl
      · have hstep : ∀ j c, j ≤ k →
            (DFA.mk ((d.states ++ [start]).map (redirect k))).step j c = (d.step (g j) c).map r := by
          intro j c hj
          rw [DFA.step_eq, DFA.step_eq, htrans j hj, find_map_snd]
        have hrun : ∀ w j, j ≤ k →
            ((DFA.mk ((d.states ++ [start]).map (redirect k))).run j w).map g = d.run (g j) w := by
          intro w
          induction w with
          | nil => intro j _; simp [DFA.run]
          | cons c w ih =>
            intro j hj
            simp only [DFA.run, hstep j c hj]
            cases hs : d.step (g j) c with
            | none => simp
            | some t =>
              obtain ⟨a, ha, _⟩ := (DFA.step_some_iff hwf _ c t).1 hs
              have ht : t < k := by have := hwf.tgt _ _ ha; simp only at this; omega
              simp only [Option.map_some, Option.bind_eq_bind, Option.bind_some]
              rw [ih (r t) (by simp only [r]; split <;> omega), hgr t ht]
        intro w
        have := hrun w 0 (Nat.zero_le _)
        rw [hg0] at this
        exact this
    · rename_i hany
      apply hunchanged
      intro s t ht h0'
      apply hany
      cases hs : d.states[s]? with
      | none => rw [DFA.trans_of_none hs] at ht; simp at ht
      | some st =>
        rw [DFA.trans_of_get hs] at ht
        simp only [List.any_eq_true, decide_eq_true_eq]
        exact ⟨st, List.mem_of_getElem? hs, t, ht, h0'⟩


theorem splitStart_length (d : DFA) : d.states.length ≤ (splitStart d).states.length := by
  unfold splitStart
  cases d.states[0]? with
  | none => exact Nat.le_refl _
  | some st =>
    simp only
    split
    · simp
    · exact Nat.le_refl _

/-! ### `mergeTransitions` -/

/-- The labels `mergeTransitions` leaves for target `q`. -/
def mergedLabels (st : DState) (q : Nat) : List Range :=
  if ((st.trans.filter fun t => t.2 = q).map (·.1)).length > 1
  then flatten ((st.trans.filter fun t => t.2 = q).map (·.1))
  else (st.trans.filter fun t => t.2 = q).map (·.1)

theorem mem_mergeState (st : DState) (r : Range) (q : Nat) :
    (r, q) ∈ (mergeState st).trans ↔ (∃ a, (a, q) ∈ st.trans) ∧ r ∈ mergedLabels st q := by
  simp only [mergeState, List.mem_flatMap, mem_dedup, List.mem_map]
  constructor
  · rintro ⟨q', ⟨x, hx, rfl⟩, r', hr', heq⟩
    simp only [Prod.mk.injEq] at heq
    obtain ⟨rfl, rfl⟩ := heq
    exact ⟨⟨x.1, hx⟩, hr'⟩
  · rintro ⟨⟨a, ha⟩, hr⟩
    exact ⟨q, ⟨(a, q), ha, rfl⟩, r, hr, rfl⟩

theorem mergedLabels_den (st : DState) (hv : ∀ t ∈ st.trans, t.1.b ≤ t.1.e) (q : Nat) (c : Int) :
    Den (mergedLabels st q) c ↔ ∃ a, (a, q) ∈ st.trans ∧ a.b ≤ c ∧ c ≤ a.e := by
  have hval : ∀ r ∈ (st.trans.filter fun t => t.2 = q).map (·.1), Valid r := by
    intro r hr
    obtain ⟨t, ht, rfl⟩ := List.mem_map.1 hr
    exact hv t (List.mem_filter.1 ht).1
  have hden : Den ((st.trans.filter fun t => t.2 = q).map (·.1)) c ↔
      ∃ a, (a, q) ∈ st.trans ∧ a.b ≤ c ∧ c ≤ a.e := by
    constructor
    · rintro ⟨r, hr, hc⟩
      obtain ⟨t, ht, rfl⟩ := List.mem_map.1 hr
      have := List.mem_filter.1 ht
      simp only [decide_eq_true_eq] at this
      obtain ⟨a, q'⟩ := t
      simp only at this
      obtain ⟨h1, rfl⟩ := this
      exact ⟨a, h1, hc⟩
    · rintro ⟨a, ha, hc⟩
      exact ⟨a, List.mem_map.2 ⟨(a, q), List.mem_filter.2 ⟨ha, by simp⟩, rfl⟩, hc⟩
  unfold mergedLabels
  split
  · rw [flatten_den' _ hval c]; exact hden
  · exact hden

theorem mergedLabels_unique (st : DState) (hv : ∀ t ∈ st.trans, t.1.b ≤ t.1.e) (q : Nat)
    (r r' : Range) (hr : r ∈ mergedLabels st q) (hr' : r' ∈ mergedLabels st q) (c : Int)
    (h1 : r.b ≤ c ∧ c ≤ r.e) (h2 : r'.b ≤ c ∧ c ≤ r'.e) : r = r' ∧ r.b ≤ r.e := by
  have hval : ∀ r ∈ (st.trans.filter fun t => t.2 = q).map (·.1), Valid r := by
    intro r hr
    obtain ⟨t, ht, rfl⟩ := List.mem_map.1 hr
    exact hv t (List.mem_filter.1 ht).1
  unfold mergedLabels at hr hr'
  split at hr
  · rename_i hlen
    rw [if_pos hlen] at hr'
    obtain ⟨hv', hp⟩ := flatten_flat' _ hval
    have hp' : (flatten ((st.trans.filter fun t => t.2 = q).map (·.1))).Pairwise
        (fun p q => p.e < q.b) := hp.imp (fun h => by omega)
    exact ⟨disjoint_eq_of_common hp' hv' hr hr' h1 h2, hv' r hr⟩
  · rename_i hlen
    rw [if_neg hlen] at hr'
    refine ⟨?_, hval r hr⟩
    generalize (st.trans.filter fun t => t.2 = q).map (·.1) = l at *
    match l, hr, hr', hlen with
    | [x], hr, hr', _ =>
      simp only [List.mem_singleton] at hr hr'
      rw [hr, hr']
    | [], hr, _, _ => simp at hr
    | _ :: _ :: _, _, _, hlen => simp at hlen

theorem mergeTransitions_trans (d : DFA) (s : Nat) :
    (mergeTransitions d).trans s = ((d.states[s]?.map mergeState).map (·.trans)).getD [] := by
  simp [DFA.trans, mergeTransitions, List.getElem?_map]

/-- **`mergeTransitions` changes no step**: the merged automaton is well formed, has the same
states, and moves exactly as before on every code point. -/
theorem mergeTransitions_correct (d : DFA) (hwf : d.WF) :
    (mergeTransitions d).WF ∧ (∀ j, (mergeTransitions d).view j = d.view j) ∧
    (∀ s c, (mergeTransitions d).step s c = d.step s c) ∧
    (NoEdgeIntoStart d → NoEdgeIntoStart (mergeTransitions d)) := by
  have hentry : ∀ s x, x ∈ (mergeTransitions d).trans s → ∃ st, d.states[s]? = some st ∧
      (∃ a, (a, x.2) ∈ st.trans) ∧ x.1 ∈ mergedLabels st x.2 := by
    intro s x hx
    rw [mergeTransitions_trans] at hx
    cases hs : d.states[s]? with
    | none => simp [hs] at hx
    | some st =>
      simp only [hs, Option.map_some, Option.getD_some] at hx
      exact ⟨st, rfl, (mem_mergeState st x.1 x.2).1 hx⟩
  have hvalid : ∀ (s : Nat) (st : DState), d.states[s]? = some st →
      ∀ t ∈ st.trans, t.1.b ≤ t.1.e := by
    intro s st hs t ht
    exact hwf.valid s t (by rw [DFA.trans_of_get hs]; exact ht)
  have hwf' : (mergeTransitions d).WF := by
    constructor
    · intro s x hx
      obtain ⟨st, hs, ⟨a, ha⟩, _⟩ := hentry s x hx
      have := hwf.tgt s (a, x.2) (by rw [DFA.trans_of_get hs]; exact ha)
      simpa [mergeTransitions] using this
    · intro s x y c hx hy h1 h2 h3 h4
      obtain ⟨st, hs, _, hxl⟩ := hentry s x hx
      obtain ⟨st', hs', _, hyl⟩ := hentry s y hy
      rw [hs] at hs'; cases hs'
      have hv := hvalid s st hs
      obtain ⟨a, ha, ha1, ha2⟩ := (mergedLabels_den st hv x.2 c).1 ⟨x.1, hxl, h1, h2⟩
      obtain ⟨b, hb, hb1, hb2⟩ := (mergedLabels_den st hv y.2 c).1 ⟨y.1, hyl, h3, h4⟩
      have := hwf.det s (a, x.2) (b, y.2) c (by rw [DFA.trans_of_get hs]; exact ha)
        (by rw [DFA.trans_of_get hs]; exact hb) ha1 ha2 hb1 hb2
      simp only [Prod.mk.injEq] at this
      have hq : x.2 = y.2 := this.2
      rw [← hq] at hyl
      exact Prod.ext (mergedLabels_unique st hv x.2 x.1 y.1 hxl hyl c ⟨h1, h2⟩ ⟨h3, h4⟩).1 hq
    · intro s x hx
      obtain ⟨st, hs, ⟨a, ha⟩, hxl⟩ := hentry s x hx
      have hv := hvalid s st hs
      -- a label of the merged list is a valid range
      unfold mergedLabels at hxl
      have hval : ∀ r ∈ (st.trans.filter fun t => t.2 = x.2).map (·.1), Valid r := by
        intro r hr
        obtain ⟨t, ht, rfl⟩ := List.mem_map.1 hr
        exact hv t (List.mem_filter.1 ht).1
      split at hxl
      · exact (flatten_flat' _ hval).1 _ hxl
      · exact hval _ hxl
  refine ⟨hwf', ?_, ?_, ?_⟩
  · intro j
    simp only [DFA.view, mergeTransitions, List.getElem?_map]
    cases d.states[j]? with
    | none => rfl
    | some st => rfl
  · intro s c
    apply Option.ext
    intro t
    rw [DFA.step_some_iff hwf' s c t, DFA.step_some_iff hwf s c t]
    cases hs : d.states[s]? with
    | none =>
      rw [DFA.trans_of_none hs, mergeTransitions_trans, hs]
      simp
    | some st =>
      have hv := hvalid s st hs
      rw [DFA.trans_of_get hs, mergeTransitions_trans, hs]
      simp only [Option.map_some, Option.getD_some]
      constructor
      · rintro ⟨r, hr, hc⟩
        obtain ⟨_, hrl⟩ := (mem_mergeState st r t).1 hr
        exact (mergedLabels_den st hv t c).1 ⟨r, hrl, hc⟩
      · rintro ⟨a, ha, hc⟩
        obtain ⟨r, hr, hrc⟩ := (mergedLabels_den st hv t c).2 ⟨a, ha, hc⟩
        exact ⟨r, (mem_mergeState st r t).2 ⟨⟨a, ha⟩, hr⟩, hrc⟩
  · intro hno s x hx
    obtain ⟨st, hs, ⟨a, ha⟩, _⟩ := hentry s x hx
    exact hno s (a, x.2) (by rw [DFA.trans_of_get hs]; exact ha)

theorem run_congr {d d' : DFA} (h : ∀ s c, d'.step s c = d.step s c) :
    ∀ (w : List Int) (s : Nat), d'.run s w = d.run s w := by
  intro w
  induction w with
  | nil => intro s; rfl
  | cons c w ih =>
    intro s
    simp only [DFA.run, h s c]
    cases d.step s c with
    | none => rfl
    | some t => exact ih t


/-! ### The whole of `Build` -/

theorem pickAction_acc (m m' : NFA) (h : m'.acc = m.acc) (S : List Nat) :
    pickAction m' S = pickAction m S := by
  simp only [pickAction, actionSet, h]

theorem view_some_of_lt {d : DFA} {j : Nat} (h : j < d.states.length) :
    d.view j = some (d.states[j].nfa, d.states[j].accept, d.states[j].ng) := by
  simp [DFA.view, List.getElem?_eq_getElem h]

/-- **`ModeBuilder.Build` computes the specification.** If the model of `Build` (Thompson
construction, `normalizeInputs`, subset construction, `optimize`, `splitStartState`,
`mergeTransitions`) returns the automaton `F` for a mode with at least one rule and non-empty
classes, then: no transition of `F` leads into state 0; after any word `w` the run of `F` is
defined iff `w` is a prefix of a word some rule matches; and `pickAction` on the state reached
selects the earliest rule that matches `w` (none if no rule does). -/
theorem buildDFA_correct (rules : List Rx) (hne : rules ≠ []) (hok : ∀ r ∈ rules, r.clsOK = true)
    (F : DFA) (h : buildDFA (modeNFA rules) = some (.ok F)) :
    F.WF ∧ NoEdgeIntoStart F ∧ ∀ w,
      ((F.run 0 w).isSome ↔ Viable rules w) ∧
      ∀ j, F.run 0 w = some j → ∃ st, F.states[j]? = some st ∧
        IsWinner rules w (pickAction (modeNFA rules) st.nfa) := by
  obtain ⟨m', hm', hsub⟩ := subset_label rules hne hok
  obtain ⟨m'', hm'', _, hacc', _, _, hpd, hval, _⟩ :=
    normalizeNFA_spec (modeNFA rules) (modeNFA_validLabels rules hok)
  rw [hm'] at hm''; cases hm''
  simp only [buildDFA, hm', Option.bind_some, Option.map_eq_some_iff] at h
  obtain ⟨d, hd, hres⟩ := h
  obtain ⟨hdwf, hdacc⟩ := subset_wf m' hpd hval _ d hd
  cases hopt : optimize m' d with
  | panic msg => rw [hopt] at hres; cases hres
  | fuel => rw [hopt] at hres; cases hres
  | ok d' =>
    rw [hopt] at hres
    simp only [OptRes.ok.injEq] at hres
    subst hres
    obtain ⟨hd'wf, _, hpos, f, hf0, hf⟩ := optimize_correct m' d hdwf hdacc d' hopt
    obtain ⟨hno, hswf, g, hg0, hgview, hgrun⟩ := splitStart_correct d' hd'wf
    obtain ⟨hFwf, hFview, hFstep, hFno⟩ := mergeTransitions_correct (splitStart d') hswf
    have hFrun : ∀ w, (mergeTransitions (splitStart d')).run 0 w = (splitStart d').run 0 w :=
      fun w => run_congr hFstep w 0
    refine ⟨hFwf, hFno hno, ?_⟩
    intro w
    obtain ⟨hviable, hlabel⟩ := hsub _ d hd w
    have hchain : ((mergeTransitions (splitStart d')).run 0 w).map g = (d.run 0 w).map f := by
      rw [hFrun w, hgrun w, (hf w).1]
    refine ⟨?_, ?_⟩
    · rw [← hviable]
      cases h1 : (mergeTransitions (splitStart d')).run 0 w with
      | none => rw [h1] at hchain; cases h2 : d.run 0 w with
        | none => simp
        | some i => rw [h2] at hchain; cases hchain
      | some j => rw [h1] at hchain; cases h2 : d.run 0 w with
        | none => rw [h2] at hchain; cases hchain
        | some i => simp
    · intro j hj
      rw [hj] at hchain
      cases h2 : d.run 0 w with
      | none => rw [h2] at hchain; cases hchain
      | some i =>
        rw [h2] at hchain
        simp only [Option.map_some, Option.some.injEq] at hchain
        obtain ⟨s, hs1, _, hs3⟩ := hlabel i h2
        -- the state reached in `F`
        have hd0 : 0 < d.states.length := by
          rcases Nat.eq_zero_or_pos d.states.length with h | h
          · rw [List.getElem?_eq_none (by omega)] at hs1; cases hs1
          · exact h
        have hn0 : 0 < (mergeTransitions (splitStart d')).states.length := by
          have h1 := hpos hd0
          have h2 := splitStart_length d'
          simp only [mergeTransitions, List.length_map]
          omega
        have hjlt := run_lt hFwf w 0 j hn0 hj
        have hview : (mergeTransitions (splitStart d')).view j = d'.view (g j) := by
          rcases hgview j with hnone | hsome
          · rw [← hFview j, view_some_of_lt hjlt] at hnone; cases hnone
          · rw [hFview j]; exact hsome
        refine ⟨_, List.getElem?_eq_getElem hjlt, ?_⟩
        rw [← pickAction_acc _ m' hacc']
        have hobs := ((hf w).2 i h2).2
        rw [← hchain] at hobs
        have hnfa : ∀ q, q ∈ (mergeTransitions (splitStart d')).states[j].nfa ∧ m'.isAcc q = true ↔
            q ∈ s.nfa ∧ m'.isAcc q = true := by
          intro q
          have h1 : q ∈ accNFA m' d' (g j) ↔
              q ∈ (mergeTransitions (splitStart d')).states[j].nfa ∧ m'.isAcc q = true := by
            rw [mem_accNFA]
            rw [view_some_of_lt hjlt] at hview
            simp only [DFA.view] at hview
            cases hst : d'.states[g j]? with
            | none => rw [hst] at hview; cases hview
            | some st' =>
              rw [hst] at hview
              simp only [Option.map_some, Option.some.injEq, Prod.mk.injEq] at hview
              simp only [Option.some.injEq, exists_eq_left', hview.1]
          have h3 : q ∈ accNFA m' d i ↔ q ∈ s.nfa ∧ m'.isAcc q = true := by
            rw [mem_accNFA]
            simp only [hs1, Option.some.injEq, exists_eq_left']
          rw [← h1, hobs q, h3]
        rw [pickAction_congr m' _ _ hnfa]
        exact hs3

end Lox.Lex.Gen
