/-! Regular expressions of lexer rules, their denotation, and Antimirov partial derivatives.
Core Lean only (linked into the driver).

A rule body of a lox lexer (`internal/ast/lexer_expr.go` … `lexer_term_*.go`, macros inlined by
`LexerTermRef.NFACons`) is a regular expression over Unicode code points:

* a literal `'abc'` is the sequence of its one-point classes,
* a character class is a list of inclusive ranges (`CharClassExpr.GetRanges`),
* `LexerFactor` = sequence, `LexerExpr` = alternation, `LexerTermCard` = `? * + *? +?`.

`x?` is `alt x eps`, `x+` is `seq x (star x)`. The Boolean on `star` records the written `*?`/`+?`
(non-greedy); it does not change the language (`Matches` ignores it). -/
namespace Lox.Lex

/-- A character class: inclusive code-point ranges. -/
abbrev Cls := List (Int × Int)

def inCls (cs : Cls) (c : Int) : Bool := cs.any fun r => r.1 ≤ c && c ≤ r.2

inductive Re where
  | eps
  | cls (cs : Cls)
  | seq (r s : Re)
  | alt (r s : Re)
  | star (ng : Bool) (r : Re)
  deriving DecidableEq, Repr, Hashable, Inhabited

namespace Re
/-- `x?` -/
def opt (r : Re) : Re := .alt r .eps
/-- `x+` (`ng = true`: `x+?`) -/
def plus (r : Re) (ng : Bool := false) : Re := .seq r (.star ng r)
/-- A literal: one singleton class per code point (`LexerTermLiteral.NFACons`). -/
def lit : List Int → Re
  | [] => .eps
  | [c] => .cls [(c, c)]
  | c :: cs => .seq (.cls [(c, c)]) (lit cs)
end Re

/-- `Matches r w`: the word `w` (code points) belongs to the language of `r`. THE specification
of what a rule matches. -/
inductive Matches : Re → List Int → Prop where
  | eps : Matches .eps []
  | cls {cs c} : inCls cs c = true → Matches (.cls cs) [c]
  | seq {r s u v} : Matches r u → Matches s v → Matches (.seq r s) (u ++ v)
  | altl {r s u} : Matches r u → Matches (.alt r s) u
  | altr {r s u} : Matches s u → Matches (.alt r s) u
  | star_nil {ng r} : Matches (.star ng r) []
  | star_cons {ng r c u v} : Matches r (c :: u) → Matches (.star ng r) v →
      Matches (.star ng r) (c :: u ++ v)

def nullable : Re → Bool
  | .eps => true
  | .cls _ => false
  | .seq r s => nullable r && nullable s
  | .alt r s => nullable r || nullable s
  | .star _ _ => true

/-- `seq` smart constructor used when appending a continuation: `eps · s = s`. -/
def mkSeq (r s : Re) : Re := match r with
  | .eps => s
  | r => .seq r s

/-- Antimirov partial derivatives of `r` by the code point `c` (a finite set of terms). -/
def pd (c : Int) : Re → List Re
  | .eps => []
  | .cls cs => if inCls cs c then [.eps] else []
  | .seq r s => (pd c r).map (mkSeq · s) ++ (if nullable r then pd c s else [])
  | .alt r s => pd c r ++ pd c s
  | .star ng r => (pd c r).map (mkSeq · (.star ng r))

/-! ### Term sets (lists used as sets, kept duplicate free and ordered) -/

def cmpCls : Cls → Cls → Ordering
  | [], [] => .eq
  | [], _ :: _ => .lt
  | _ :: _, [] => .gt
  | a :: as, b :: bs =>
    match compare a.1 b.1 with
    | .eq => match compare a.2 b.2 with
      | .eq => cmpCls as bs
      | o => o
    | o => o

/-- Some total order on terms (only used to keep term sets in a canonical order). -/
def Re.cmp : Re → Re → Ordering
  | .eps, .eps => .eq
  | .eps, _ => .lt
  | _, .eps => .gt
  | .cls a, .cls b => cmpCls a b
  | .cls _, _ => .lt
  | _, .cls _ => .gt
  | .seq a b, .seq c d => match Re.cmp a c with
    | .eq => Re.cmp b d
    | o => o
  | .seq _ _, _ => .lt
  | _, .seq _ _ => .gt
  | .alt a b, .alt c d => match Re.cmp a c with
    | .eq => Re.cmp b d
    | o => o
  | .alt _ _, _ => .lt
  | _, .alt _ _ => .gt
  | .star m a, .star n b => match compare m n with
    | .eq => Re.cmp a b
    | o => o

/-- Ordered insertion without duplicates. Only `x ∈ insTerm a l ↔ x = a ∨ x ∈ l` matters for
the proofs; the order only makes equal sets equal lists more often. -/
def insTerm (a : Re) : List Re → List Re
  | [] => [a]
  | b :: l =>
    if a = b then b :: l
    else if Re.cmp a b == .lt then a :: b :: l
    else b :: insTerm a l

def canon (l : List Re) : List Re := l.foldr insTerm []

/-- Derivative of a term set. -/
def pdSet (c : Int) (ts : List Re) : List Re := canon (ts.flatMap (pd c))

/-- Derivative of a term set by a word. -/
def pdSetW (w : List Int) (ts : List Re) : List Re := w.foldl (fun ts c => pdSet c ts) ts

/-- Partial derivatives of `r` by a word. -/
def pdw (w : List Int) (r : Re) : List Re := pdSetW w [r]

/-- Derivative of a rule vector (one term set per rule). -/
def pdVec (c : Int) (v : List (List Re)) : List (List Re) := v.map (pdSet c)

def pdVecW (w : List Int) (v : List (List Re)) : List (List Re) := w.foldl (fun v c => pdVec c v) v

/-- No rule can continue. -/
def vecDead (v : List (List Re)) : Bool := v.all List.isEmpty

/-! ### Classes inspected by `pd` and non-emptiness -/

/-- The classes whose membership test decides `pd c r` (the "first" classes of `r`). -/
def firstCls : Re → List Cls
  | .eps => []
  | .cls cs => [cs]
  | .seq r s => firstCls r ++ (if nullable r then firstCls s else [])
  | .alt r s => firstCls r ++ firstCls s
  | .star _ r => firstCls r

/-- The class contains at least one code point. -/
def clsNonEmpty (cs : Cls) : Bool := cs.any fun r => r.1 ≤ r.2

/-- Every class occurring in `r` is non-empty (then `r` matches some word). -/
def Re.clsOK : Re → Bool
  | .eps => true
  | .cls cs => clsNonEmpty cs
  | .seq r s => r.clsOK && s.clsOK
  | .alt r s => r.clsOK && s.clsOK
  | .star _ r => r.clsOK

end Lox.Lex
