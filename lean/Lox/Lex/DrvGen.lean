import Lox.Drv.Common
import Lox.Lex.GenOpt
/-! Driver ops of the generator model (family `lexmodel`, harness/drv/ops_lexmodel.go).

Rules are written in the "rich" prefix code that keeps what `NFACons` looks at:
`10 n c1…cn` literal, `1 n lo hi …` class, `2 x y` factor, `3 x A` expression with
`A = 11 x | 12 x A`, `7 x` `?`, `4 x` `*`, `5 x` `*?`, `8 x` `+`, `9 x` `+?`. Several rules are
separated by `;`.

`lex.rxre <rule>`            prefix code (of `lex.bisim`) of `Rx.toRe`
`lex.thompson <rules>`       `modeNFA`: `n start | src dst b e … | q i … | ng …` (ε: `b = e = -1`)
`lex.normalize <rules>`      the same after `normalizeNFA`
`lex.subset <rules>`         `subset (normalizeNFA (modeNFA rules))`, canonical dump
`lex.optimize <rules>`       … after `optimize`
`lex.build <rules>`          … after `splitStart`, `mergeTransitions`; winner = `pickAction`
`lex.runs <rules> | w / w …` per word `d`, `-` or the winning rule of the state reached in `lex.build`

DFA dump: `count | acc ng winner : nfa ids : b e t … | …`, states renumbered breadth first from
state 0 over transitions sorted by lower bound. -/
namespace Lox.Lex.Gen
open Lox.Drv Lox.Rang3

mutual
def parseRx : Nat → List Int → Option (Rx × List Int)
  | 0, _ => none
  | _ + 1, [] => none
  | n + 1, code :: rest =>
    if code = 10 then
      match rest with
      | [] => none
      | k :: rest =>
        let k := k.toNat
        if rest.length < k then none else some (.lit (rest.take k), rest.drop k)
    else if code = 1 then
      match rest with
      | [] => none
      | k :: rest =>
        let k := k.toNat
        if rest.length < 2 * k then none
        else
          let rs := rest.take (2 * k)
          some (.cls ((List.range k).map fun j => (rs.getD (2 * j) 0, rs.getD (2 * j + 1) 0)),
                rest.drop (2 * k))
    else if code = 2 then
      match parseRx n rest with
      | none => none
      | some (a, rest) =>
        match parseRx n rest with
        | none => none
        | some (b, rest) => some (.seq a b, rest)
    else if code = 3 then
      match parseRx n rest with
      | none => none
      | some (a, rest) =>
        match parseAlts n rest with
        | none => none
        | some (b, rest) => some (.alt a b, rest)
    else if code = 7 ∨ code = 4 ∨ code = 5 ∨ code = 8 ∨ code = 9 then
      match parseRx n rest with
      | none => none
      | some (a, rest) =>
        some (if code = 7 then .opt a else if code = 4 then .star false a
              else if code = 5 then .star true a else if code = 8 then .plus false a
              else .plus true a, rest)
    else none
def parseAlts : Nat → List Int → Option (Alts × List Int)
  | 0, _ => none
  | _ + 1, [] => none
  | n + 1, code :: rest =>
    if code = 11 then
      match parseRx n rest with
      | none => none
      | some (a, rest) => some (.last a, rest)
    else if code = 12 then
      match parseRx n rest with
      | none => none
      | some (a, rest) =>
        match parseAlts n rest with
        | none => none
        | some (b, rest) => some (.more a b, rest)
    else none
end

def parseRule (s : String) : Option Rx := do
  let xs ← parseInts s
  match parseRx (xs.length + 1) xs with
  | some (r, []) => some r
  | _ => none

def parseRules (s : String) : Option (List Rx) :=
  ((s.splitOn ";").filter fun t => !t.trimAscii.toString.isEmpty).mapM parseRule

/-- Prefix code of a `Re` (inverse of `Lox.Lex.parseRe`). -/
def reCode : Re → List Int
  | .eps => [0]
  | .cls cs => 1 :: (cs.length : Int) :: cs.flatMap fun r => [r.1, r.2]
  | .seq a b => 2 :: (reCode a ++ reCode b)
  | .alt a b => 3 :: (reCode a ++ reCode b)
  | .star ng a => (if ng then 5 else 4) :: reCode a

def edgeKey (e : Edge) : List Int :=
  match e.lbl with
  | none => [e.src, e.dst, -1, -1]
  | some r => [e.src, e.dst, r.b, r.e]

def lexLt : List Int → List Int → Bool
  | [], [] => false
  | [], _ :: _ => true
  | _ :: _, [] => false
  | a :: as, b :: bs => if a < b then true else if a > b then false else lexLt as bs

def insKey (k : List Int) : List (List Int) → List (List Int)
  | [] => [k]
  | x :: xs => if lexLt k x then k :: x :: xs else x :: insKey k xs

def sortKeys (l : List (List Int)) : List (List Int) := l.foldr insKey []

def dumpNFA (m : NFA) : String :=
  let es := sortKeys (m.edges.map edgeKey)
  let acc := sortKeys (m.acc.map fun a => [(a.1 : Int), (a.2 : Int)])
  toString m.n ++ " " ++ toString m.start ++ " |" ++
    String.join (es.map fun k => " " ++ showInts k) ++ " |" ++
    String.join (acc.map fun k => " " ++ showInts k) ++ " |" ++
    String.join ((sortNat m.ng).map fun q => " " ++ toString q)

def insTrans (t : Range × Nat) : List (Range × Nat) → List (Range × Nat)
  | [] => [t]
  | x :: xs =>
    if t.1.b < x.1.b ∨ (t.1.b = x.1.b ∧ t.1.e < x.1.e) then t :: x :: xs else x :: insTrans t xs

def sortTrans (l : List (Range × Nat)) : List (Range × Nat) := l.foldr insTrans []

/-- Breadth-first order from state 0 over sorted transitions. -/
def bfsOrder (d : DFA) : Nat → List Nat → List Nat → List Nat
  | 0, _, seen => seen
  | _ + 1, [], seen => seen
  | f + 1, q :: queue, seen =>
    let tg := (sortTrans (d.trans q)).map (·.2)
    let r := tg.foldl (fun (acc : List Nat × List Nat) t =>
      if acc.2.contains t then acc else (acc.1 ++ [t], acc.2 ++ [t])) (queue, seen)
    bfsOrder d f r.1 r.2

def dumpDFA (m : NFA) (d : DFA) : String :=
  if d.states.isEmpty then "0 |" else
  let order := bfsOrder d (d.states.length + 1) [0] [0]
  let newId (q : Nat) : Nat := order.idxOf q
  toString d.states.length ++
    String.join (order.map fun q =>
      let s := d.states.getD q default
      let w : Int := match pickAction m s.nfa with | some i => i | none => -1
      " | " ++ (if s.accept then "1" else "0") ++ " " ++ (if s.ng then "1" else "0") ++ " " ++
        toString w ++ " :" ++ String.join ((sortNat s.nfa).map fun x => " " ++ toString x) ++ " :" ++
        String.join ((sortTrans s.trans).map fun t =>
          " " ++ toString t.1.b ++ " " ++ toString t.1.e ++ " " ++ toString (newId t.2)))

def showOpt (m : NFA) : OptRes → String
  | .ok d => dumpDFA m d
  | .panic msg => "panic " ++ msg
  | .fuel => "out-of-fuel"

def stage (rules : List Rx) (k : NFA → DFA → String) : String :=
  match normalizeNFA (modeNFA rules) with
  | none => "panic rang3.Normalize"
  | some m =>
    match subset m (subsetFuel m) with
    | none => "out-of-fuel"
    | some d => k m d

def handleGen (op payload : String) : Option String :=
  match op with
  | "lex.rxre" => do
    let r ← parseRule payload
    some (showInts (reCode r.toRe))
  | "lex.thompson" => do
    let rules ← parseRules payload
    some (dumpNFA (modeNFA rules))
  | "lex.normalize" => do
    let rules ← parseRules payload
    match normalizeNFA (modeNFA rules) with
    | none => some "panic rang3.Normalize"
    | some m => some (dumpNFA m)
  | "lex.subset" => do
    let rules ← parseRules payload
    some (stage rules fun m d => dumpDFA m d)
  | "lex.optimize" => do
    let rules ← parseRules payload
    some (stage rules fun m d => showOpt m (optimize m d))
  | "lex.build" => do
    let rules ← parseRules payload
    some (stage rules fun m d =>
      match optimize m d with
      | .ok d' => dumpDFA m (mergeTransitions (splitStart d'))
      | r => showOpt m r)
  | "lex.runs" => do
    match payload.splitOn "|" with
    | [rules, ws] =>
      let rules ← parseRules rules
      let ws ← (ws.splitOn "/").mapM parseInts
      some (stage rules fun m d =>
        match optimize m d with
        | .ok d' =>
          let f := mergeTransitions (splitStart d')
          " ".intercalate (ws.map fun w =>
            match f.run 0 w with
            | none => "d"
            | some q =>
              match pickAction m ((f.states.getD q default).nfa) with
              | some i => toString i
              | none => "-")
        | r => showOpt m r)
    | _ => none
  | _ => none

end Lox.Lex.Gen
