import Lox.Lex.GenDFAProofs
import Lox.Rang3.Proofs.Normalize
/-! `normalizeInputs` (model: `normalizeEdges`, `Lox/Lex/GenDFA.lean`) changes no run of the NFA
and leaves labels that are pairwise equal or disjoint. Bridge to the proved facts about
`rang3.Normalize` (`Lox/Rang3/Proofs/Normalize.lean`, `Lox.Props.C15`). -/
namespace Lox.Lex.Gen
open Lox.Rang3

/-- Two edge lists with the same ε edges and, per pair of states, the same code points. -/
structure StepEq (E E' : List Edge) : Prop where
  eps : ∀ p q, (⟨p, none, q⟩ : Edge) ∈ E' ↔ (⟨p, none, q⟩ : Edge) ∈ E
  chr : ∀ p q (c : Int), (∃ rg, (⟨p, some rg, q⟩ : Edge) ∈ E' ∧ rg.b ≤ c ∧ c ≤ rg.e) ↔
    (∃ rg, (⟨p, some rg, q⟩ : Edge) ∈ E ∧ rg.b ≤ c ∧ c ≤ rg.e)

theorem StepEq.refl (E : List Edge) : StepEq E E := ⟨fun _ _ => Iff.rfl, fun _ _ _ => Iff.rfl⟩

theorem StepEq.trans {E1 E2 E3 : List Edge} (h12 : StepEq E1 E2) (h23 : StepEq E2 E3) :
    StepEq E1 E3 :=
  ⟨fun p q => (h23.eps p q).trans (h12.eps p q), fun p q c => (h23.chr p q c).trans (h12.chr p q c)⟩

theorem StepEq.pathN {E E' : List Edge} (h : StepEq E E') {k p w q} :
    PathN E' k p w q ↔ PathN E k p w q := by
  constructor
  · intro hp
    induction hp with
    | nil p => exact .nil p
    | eps he _ ih => exact .eps ((h.eps _ _).1 he) ih
    | chr he h1 h2 _ ih =>
      obtain ⟨rg, hrg, hb, he'⟩ := (h.chr _ _ _).1 ⟨_, he, h1, h2⟩
      exact .chr hrg hb he' ih
  · intro hp
    induction hp with
    | nil p => exact .nil p
    | eps he _ ih => exact .eps ((h.eps _ _).2 he) ih
    | chr he h1 h2 _ ih =>
      obtain ⟨rg, hrg, hb, he'⟩ := (h.chr _ _ _).2 ⟨_, he, h1, h2⟩
      exact .chr hrg hb he' ih

theorem StepEq.path {E E' : List Edge} (h : StepEq E E') {p w q} :
    Path E' p w q ↔ Path E p w q :=
  ⟨fun ⟨k, hk⟩ => ⟨k, h.pathN.1 hk⟩, fun ⟨k, hk⟩ => ⟨k, h.pathN.2 hk⟩⟩

theorem mem_relabelEdges (E : List Edge) (cb : NormCb) (ed' : Edge) :
    ed' ∈ relabelEdges E cb ↔ ∃ ed ∈ E, ed' ∈ relabelEdge cb ed := by
  simp [relabelEdges, List.mem_flatMap]

theorem mem_relabelEdge (cb : NormCb) (ed ed' : Edge) :
    ed' ∈ relabelEdge cb ed ↔
      (ed.lbl ≠ some cb.o ∧ ed' = ed) ∨
      (ed.lbl = some cb.o ∧ ed'.src = ed.src ∧ ed'.dst = ed.dst ∧
        (ed'.lbl = some cb.a ∨ ed'.lbl = some cb.b ∨ ed'.lbl = some cb.c)) := by
  obtain ⟨s, l, d⟩ := ed
  obtain ⟨s', l', d'⟩ := ed'
  unfold relabelEdge
  by_cases h : l = some cb.o
  · simp only [h, if_true, List.mem_cons, Edge.mk.injEq, ne_eq, not_true_eq_false, false_and,
      true_and, false_or]
    by_cases hc : cb.c = cb.b
    · simp only [hc, not_true_eq_false, if_false, List.not_mem_nil, or_false]
      constructor
      · rintro (⟨rfl, rfl, rfl⟩ | ⟨rfl, rfl, rfl⟩)
        · exact ⟨rfl, rfl, Or.inl rfl⟩
        · exact ⟨rfl, rfl, Or.inr (Or.inl rfl)⟩
      · rintro ⟨rfl, rfl, h | h | h⟩
        · exact Or.inl ⟨rfl, h, rfl⟩
        · exact Or.inr ⟨rfl, h, rfl⟩
        · exact Or.inr ⟨rfl, h, rfl⟩
    · simp only [hc, not_false_eq_true, if_true, List.mem_cons, Edge.mk.injEq,
        List.not_mem_nil, or_false]
      constructor
      · rintro (⟨rfl, rfl, rfl⟩ | ⟨rfl, rfl, rfl⟩ | ⟨rfl, rfl, rfl⟩)
        · exact ⟨rfl, rfl, Or.inl rfl⟩
        · exact ⟨rfl, rfl, Or.inr (Or.inl rfl)⟩
        · exact ⟨rfl, rfl, Or.inr (Or.inr rfl)⟩
      · rintro ⟨rfl, rfl, h | h | h⟩
        · exact Or.inl ⟨rfl, h, rfl⟩
        · exact Or.inr (Or.inl ⟨rfl, h, rfl⟩)
        · exact Or.inr (Or.inr ⟨rfl, h, rfl⟩)
  · simp only [h, if_false, List.mem_singleton, Edge.mk.injEq, ne_eq, not_false_eq_true, true_and,
      false_and, or_false]

/-- One callback of `normalizeInputs` changes no step of the NFA. -/
theorem stepEq_relabelEdges (E : List Edge) (s : List Range) (cb : NormCb) (h : GoodCb s cb) :
    StepEq E (relabelEdges E cb) := by
  have ha := h.a; have hb := h.b; have hc := h.c
  unfold Inside at ha hb hc
  constructor
  · intro p q
    rw [mem_relabelEdges]
    constructor
    · rintro ⟨ed, hed, hm⟩
      rcases (mem_relabelEdge cb ed _).1 hm with ⟨_, rfl⟩ | ⟨_, _, _, h1 | h1 | h1⟩
      · exact hed
      all_goals (simp at h1)
    · intro hed
      exact ⟨_, hed, (mem_relabelEdge cb _ _).2 (Or.inl ⟨by simp, rfl⟩)⟩
  · intro p q c
    constructor
    · rintro ⟨rg, hm, h1, h2⟩
      rw [mem_relabelEdges] at hm
      obtain ⟨ed, hed, hm⟩ := hm
      rcases (mem_relabelEdge cb ed _).1 hm with ⟨_, rfl⟩ | ⟨ho, hs, hd, hl⟩
      · exact ⟨rg, hed, h1, h2⟩
      · obtain ⟨s0, l0, d0⟩ := ed
        simp only at ho hs hd
        subst ho hs hd
        refine ⟨cb.o, hed, ?_⟩
        simp only [Option.some.injEq] at hl
        rcases hl with rfl | rfl | rfl <;> omega
    · rintro ⟨rg, hed, h1, h2⟩
      by_cases ho : rg = cb.o
      · subst ho
        have mk : ∀ x : Range, (x = cb.a ∨ x = cb.b ∨ x = cb.c) →
            (⟨p, some x, q⟩ : Edge) ∈ relabelEdges E cb := by
          intro x hx
          rw [mem_relabelEdges]
          refine ⟨_, hed, (mem_relabelEdge cb _ _).2 (Or.inr ⟨rfl, rfl, rfl, ?_⟩)⟩
          simpa using hx
        rcases h.cover c h1 h2 with hk | hk | hk
        · exact ⟨cb.a, mk _ (Or.inl rfl), hk⟩
        · exact ⟨cb.b, mk _ (Or.inr (Or.inl rfl)), hk⟩
        · exact ⟨cb.c, mk _ (Or.inr (Or.inr rfl)), hk⟩
      · refine ⟨rg, ?_, h1, h2⟩
        rw [mem_relabelEdges]
        exact ⟨_, hed, (mem_relabelEdge cb _ _).2 (Or.inl ⟨by simpa using ho, rfl⟩)⟩

theorem mem_labels (E : List Edge) (r : Range) : r ∈ labels E ↔ ∃ ed ∈ E, ed.lbl = some r := by
  simp [labels, List.mem_filterMap]

theorem labels_relabelEdges (E : List Edge) (s : List Range) (cb : NormCb)
    (hs : ∀ r ∈ labels E, r ∈ s) : ∀ r ∈ labels (relabelEdges E cb), r ∈ applyNormCb s cb := by
  intro r hr
  obtain ⟨ed', hm, hl⟩ := (mem_labels _ r).1 hr
  rw [mem_relabelEdges] at hm
  obtain ⟨ed, hed, hm⟩ := hm
  rw [mem_applyNormCb]
  rcases (mem_relabelEdge cb ed ed').1 hm with ⟨hne, rfl⟩ | ⟨_, _, _, h1 | h1 | h1⟩
  · refine Or.inr (Or.inr (Or.inr ⟨hs r ((mem_labels E r).2 ⟨_, hed, hl⟩), ?_⟩))
    rintro rfl; exact hne hl
  · rw [hl] at h1; cases h1; exact Or.inr (Or.inr (Or.inl rfl))
  · rw [hl] at h1; cases h1; exact Or.inr (Or.inl rfl)
  · rw [hl] at h1; cases h1; exact Or.inl rfl

theorem fold_relabelEdges (log : List NormCb) : ∀ (E : List Edge) (s : List Range),
    CbsOk s log → (∀ r ∈ labels E, r ∈ s) →
    StepEq E (log.foldl relabelEdges E) ∧
      ∀ r ∈ labels (log.foldl relabelEdges E), r ∈ log.foldl applyNormCb s := by
  induction log with
  | nil => intro E s _ hs; exact ⟨StepEq.refl E, hs⟩
  | cons cb log ih =>
    intro E s hok hs
    obtain ⟨h1, h2⟩ := ih (relabelEdges E cb) (applyNormCb s cb) hok.2
      (labels_relabelEdges E s cb hs)
    exact ⟨(stepEq_relabelEdges E s cb hok.1).trans h1, h2⟩

/-- Every range label of the NFA is written `lo ≤ hi`. -/
def ValidLabels (E : List Edge) : Prop := ∀ r ∈ labels E, Valid r

/-- **`normalizeInputs` is total, changes no run, and makes labels pairwise equal or disjoint.** -/
theorem normalizeEdges_spec (E : List Edge) (hv : ValidLabels E) :
    ∃ E', normalizeEdges E = some E' ∧ StepEq E E' ∧ PD E' ∧ ValidLabels E' := by
  obtain ⟨L, h', done', hL, hlen, hinv, hcbs⟩ := normalize_spec (labels E) hv
  obtain ⟨hval, hdis⟩ := ninv_final hinv hlen
  obtain ⟨hstep, hlab⟩ := fold_relabelEdges L E (heapOf (labels E)) hcbs
    (fun r hr => (mem_heapOf _ r).2 hr)
  refine ⟨L.foldl relabelEdges E, by simp [normalizeEdges, hL], hstep, ?_, ?_⟩
  · intro e1 he1 e2 he2 a b c ha hb h1 h2 h3 h4
    exact disjoint_eq_of_common hdis hval (hlab a ((mem_labels _ a).2 ⟨e1, he1, ha⟩))
      (hlab b ((mem_labels _ b).2 ⟨e2, he2, hb⟩)) ⟨h1, h2⟩ ⟨h3, h4⟩
  · intro r hr
    exact hval r (hlab r hr)

theorem normalizeNFA_spec (m : NFA) (hv : ValidLabels m.edges) :
    ∃ m', normalizeNFA m = some m' ∧ m'.start = m.start ∧ m'.acc = m.acc ∧ m'.ng = m.ng ∧
      m'.n = m.n ∧ PD m'.edges ∧ ValidLabels m'.edges ∧
      ∀ p w q, Path m'.edges p w q ↔ Path m.edges p w q := by
  obtain ⟨E', hE, hstep, hpd, hval⟩ := normalizeEdges_spec m.edges hv
  exact ⟨{ m with edges := E' }, by simp [normalizeNFA, hE], rfl, rfl, rfl, rfl, hpd, hval,
    fun p w q => hstep.path⟩

end Lox.Lex.Gen
