import Lox.Lex.GenSpecProofs
/-! Run-level lemmas for generated lexers (`genModes`, `Lox/Lex/GenSpecModel.lean`): the abstract
mode stack folded over the actions WRITTEN on a rule (`applyWritten`, by mode NAME → index), the rows
that fire in a run are rows of states of the current mode (`FiresInRange`), and what one `PushRune`
call does on the row of a rule. Used by `Lox/Props/C07_e2e.lean`. -/
namespace Lox.Lex.GenSpec
open Lox.Lex Lox.Lex.Rt Lox.Lex.Gen

/-! ### The abstract mode stack over written actions -/

/-- Total variant of `Rt.applyW`: the resolved written mode actions applied in written order,
stopping at the first `@pop_mode` that finds the stack empty (what `PushRune` leaves behind when it
returns `_lexerError` there). -/
def applyWT : List WAction → MS → MS
  | [], ms => ms
  | .pushMode m :: rest, (mode, stack) => applyWT rest (m, mode :: stack)
  | .popMode :: rest, (mode, stack) =>
    match stack with
    | [] => (mode, stack)
    | top :: st => applyWT rest (top, st)
  | _ :: rest, ms => applyWT rest ms

/-- **The abstract mode stack folded over the actions as WRITTEN** (modes by name): `@push_mode(M)`
saves the current mode and enters the mode called `M` (`modeIndex`: its place among the sorted mode
names), `@pop_mode` returns to the mode saved last (and stops the rule's actions if there is none),
`@emit` / `@discard` do not touch the modes – wherever they are written. -/
def applyWritten (s : LSpec) : List LAct → MS → MS
  | [], ms => ms
  | .pushMode n :: rest, (mode, stack) =>
    applyWritten s rest ((modeIndex s n).getD 0, mode :: stack)
  | .popMode :: rest, (mode, stack) =>
    match stack with
    | [] => (mode, stack)
    | top :: st => applyWritten s rest (top, st)
  | _ :: rest, ms => applyWritten s rest ms

theorem applyModeActsT_modePairs (ws : List WAction) (ms : MS) :
    applyModeActsT (modePairs ws) ms = applyWT ws ms := by
  induction ws generalizing ms with
  | nil => rfl
  | cons w rest ih =>
    obtain ⟨mode, stack⟩ := ms
    cases w with
    | pushMode k =>
      rw [modePairs_cons_mode _ _ rfl]
      simp only [WAction.pair, applyModeActsT, applyWT, if_true, Int.toNat_natCast]
      exact ih _
    | popMode =>
      rw [modePairs_cons_mode _ _ rfl]
      simp only [WAction.pair, applyModeActsT, applyWT]
      cases stack with
      | nil => simp
      | cons top st => simp; exact ih _
    | emit t => rw [modePairs_cons_terminal _ _ rfl]; simp only [applyWT]; exact ih _
    | discard => rw [modePairs_cons_terminal _ _ rfl]; simp only [applyWT]; exact ih _

theorem applyW_eq_T {ws : List WAction} {ms ms' : MS} (h : applyW ws ms = some ms') :
    applyWT ws ms = ms' := by
  rw [← applyModeActs_modePairs] at h
  rw [← applyModeActsT_modePairs]
  exact applyModeActs_eq_T h

theorem resolveActs_cons {s : LSpec} {a : LAct} {as : List LAct} {ws : List WAction}
    (h : resolveActs s (a :: as) = some ws) :
    ∃ w ws', resolveAct s a = some w ∧ resolveActs s as = some ws' ∧ ws = w :: ws' := by
  unfold resolveActs at h ⊢
  simp only [List.map_cons] at h
  cases hw : resolveAct s a with
  | none => rw [hw] at h; simp [allSome] at h
  | some w =>
    rw [hw] at h
    simp only [allSome, Option.map_eq_some_iff] at h
    obtain ⟨ws', h1, h2⟩ := h
    exact ⟨w, ws', rfl, h1, h2.symm⟩

/-- The resolved actions do to the abstract stack what the written actions do. -/
theorem applyWT_resolved {s : LSpec} : ∀ {as : List LAct} {ws : List WAction},
    resolveActs s as = some ws → ∀ ms, applyWT ws ms = applyWritten s as ms
  | [], ws, h, ms => by
    simp only [resolveActs, List.map_nil, allSome, Option.some.injEq] at h
    subst h; rfl
  | a :: as, ws, h, ms => by
    obtain ⟨w, ws', hw, hws', rfl⟩ := resolveActs_cons h
    obtain ⟨mode, stack⟩ := ms
    have ih := applyWT_resolved hws'
    cases a with
    | pushMode n =>
      simp only [resolveAct, Option.map_eq_some_iff] at hw
      obtain ⟨k, hk, rfl⟩ := hw
      simp only [applyWT, applyWritten, hk, Option.getD_some]
      exact ih _
    | popMode =>
      simp only [resolveAct, Option.some.injEq] at hw
      subst hw
      simp only [applyWT, applyWritten]
      cases stack with
      | nil => rfl
      | cons top st => exact ih _
    | emit n =>
      simp only [resolveAct, Option.map_eq_some_iff] at hw
      obtain ⟨k, _, rfl⟩ := hw
      simp only [applyWT, applyWritten]
      exact ih _
    | discard =>
      simp only [resolveAct, Option.some.injEq] at hw
      subst hw
      simp only [applyWT, applyWritten]
      exact ih _

/-- The stored pairs of a rule do to the abstract stack what its written actions do. -/
theorem pairs_applyWritten {s : LSpec} {r : GRule} {ps : List Pair} (h : r.pairs s = some ps)
    (ms : MS) : applyModeActsT ps ms = applyWritten s r.acts ms := by
  obtain ⟨ws, hw, hsh⟩ := pairs_shape h
  rcases hsh with ⟨_, _, _, _, _, hps⟩ | ⟨_, _, hps⟩
  · rw [hps, applyModeActsT_append_terminal _ _ _ (.inl rfl), applyModeActsT_modePairs,
      applyWT_resolved hw]
  · rw [hps, applyModeActsT_append_terminal _ _ _
      (writtenTerminal_type accumPair ws (by decide)), applyModeActsT_modePairs,
      applyWT_resolved hw]

/-! ### The rows that fire in a run are rows of states -/

/-- Every `fire` event of the log names a state of an existing mode. -/
def FiresInRange (modes : Array Mode) (g : List Ev) : Prop :=
  ∀ mode state res a b, Ev.fire mode state res a b ∈ g →
    0 ≤ state ∧ ∃ m, modes[mode]? = some m ∧ state.toNat < Rt.nStates m

theorem firesInRange_append_fire {modes : Array Mode} {g : List Ev} {l : Lx} (start : Option Nat)
    (res : Res) (hg : FiresInRange modes g) (hin : InRange modes l.sm) (extra : List Ev)
    (hextra : ∀ mode state res a b, Ev.fire mode state res a b ∉ extra) :
    FiresInRange modes (g ++ [fireEv start l res] ++ extra) := by
  intro mode state res' a b hm
  simp only [List.mem_append, List.mem_singleton] at hm
  rcases hm with (hm | hm) | hm
  · exact hg _ _ _ _ _ hm
  · simp only [fireEv, Ev.fire.injEq] at hm
    obtain ⟨rfl, rfl, _, _, _⟩ := hm
    exact ⟨hin.2.1, hin.2.2⟩
  · exact absurd hm (hextra _ _ _ _ _)

theorem readTokenG_fires {modes : Array Mode} (hwf : WFModes modes) (inp : Input) (n : Nat)
    (start : Option Nat) (l : Lx) (g : List Ev) (out : Option Tok × Lx × List Ev)
    (h : readTokenG modes inp n start l g = some out) (hin : InRange modes l.sm)
    (hg : FiresInRange modes g) : FiresInRange modes out.2.2 := by
  revert hin hg
  refine readTokenG_induct modes inp
    (fun _ l g out => InRange modes l.sm → FiresInRange modes g → FiresInRange modes out.2.2)
    ?_ ?_ ?_ ?_ ?_ ?_ ?_ n start l g out h
  · intro start l g sm' out hpr ih hin hg
    have hok := pushRune_stepOK hwf hin (l.char inp)
    rw [hpr] at hok
    exact ih (by rw [consume_sm]; exact hok.inRange (by simp)) hg
  · intro start l g sm' hpr hin hg
    rw [List.append_assoc]
    have := firesInRange_append_fire start .accept hg hin
      [.seg ⟨.tok sm'.token, start.getD l.offset, l.offset⟩,
       .ret (.tok sm'.token (start.getD l.offset) l.offset) (sm'.mode.getD 0) sm'.modeStack]
      (by intro _ _ _ _ _ hm; simp at hm)
    simpa using this
  · intro start l g sm' out hpr ih hin hg
    have hok := pushRune_stepOK hwf hin (l.char inp)
    rw [hpr] at hok
    exact ih (hok.inRange (by simp))
      (firesInRange_append_fire start .discard hg hin _ (by intro _ _ _ _ _ hm; simp at hm))
  · intro start l g sm' out hpr ih hin hg
    have hok := pushRune_stepOK hwf hin (l.char inp)
    rw [hpr] at hok
    refine ih (hok.inRange (by simp)) ?_
    have := firesInRange_append_fire start .tryAgain hg hin [] (by intro _ _ _ _ _ hm; simp at hm)
    simpa using this
  · intro start l g sm' hpr hin hg
    rw [List.append_assoc]
    have := firesInRange_append_fire start .eof hg hin
      [.seg ⟨.pending, start.getD l.offset, l.offset⟩,
       .ret (.eof (start.getD l.offset)) (sm'.mode.getD 0) sm'.modeStack]
      (by intro _ _ _ _ _ hm; simp at hm)
    simpa using this
  · intro start l g sm' hpr hin hg
    have := firesInRange_append_fire start .oob hg hin [] (by intro _ _ _ _ _ hm; simp at hm)
    simpa using this
  · intro start l g sm' hpr hin hg
    rw [List.append_assoc]
    have := firesInRange_append_fire start .error hg hin
      [.seg ⟨.error (l.char inp), start.getD l.offset,
          (afterError inp { l with sm := sm' }).offset⟩,
       .ret (.err (start.getD l.offset) (l.char inp))
         ((afterError inp { l with sm := sm' }).sm.mode.getD 0)
         (afterError inp { l with sm := sm' }).sm.modeStack]
      (by intro _ _ _ _ _ hm; simp at hm)
    simpa using this

theorem lexAllG_fires {modes : Array Mode} (hwf : WFModes modes) (inp : Input) (fuel : Nat) :
    ∀ n l acc g, InRange modes l.sm → FiresInRange modes g →
      FiresInRange modes (lexAllG modes inp fuel n l acc g).2.2 := by
  intro n
  induction n with
  | zero => intro l acc g _ hg; exact hg
  | succ n ih =>
    intro l acc g hin hg
    unfold lexAllG
    cases hr : readTokenG modes inp fuel none l g with
    | none => exact hg
    | some x =>
      have hf := readTokenG_fires hwf inp fuel none l g x hr hin hg
      obtain ⟨a1, a2⟩ := readTokenG_inRange hwf inp fuel none l g x hr hin
      obtain ⟨ot, l', g'⟩ := x
      cases ot with
      | none => exact absurd rfl a1
      | some t =>
        cases t with
        | eof p => exact hf
        | tok ty a b => exact ih _ _ _ a2 hf
        | err a c => exact ih _ _ _ a2 hf

/-! ### The row that fired is the row of a rule -/

/-- Row `(mode, state)` of the generated lexer stores the pairs of rule `r` of the mode with index
`mode`. -/
def FiredRule (s : LSpec) (modes : Array Mode) (mode : Nat) (state : Int) (r : GRule) : Prop :=
  ∃ mname, (modeNames s)[mode]? = some mname ∧ r ∈ modeRules s mname ∧
    r.pairs s = some (Rt.rowPairs modes mode state)

theorem genModes_firedRule {s : LSpec} {modes : Array Mode} (hgen : genModes s = some modes)
    (hok : s.ok = true) {mode : Nat} {state : Int} {m : Mode} (h0 : 0 ≤ state)
    (hm : modes[mode]? = some m) (hlt : state.toNat < Rt.nStates m) :
    Rt.rowPairs modes mode state = [] ∨ ∃ r, FiredRule s modes mode state r := by
  obtain ⟨_, _, hall⟩ := genModes_some hgen
  have hmi : mode < modes.size := by
    rcases Nat.lt_or_ge mode modes.size with h1 | h1
    · exact h1
    · rw [Array.getElem?_eq_none h1] at hm; cases hm
  obtain ⟨mname, rs, pss, m', hM⟩ := hall mode hmi
  have : m' = m := by
    have := hM.get; rw [hm] at this; exact (Option.some.inj this).symm
  subst this
  obtain ⟨row, hrow, hp⟩ := hM.rows_rule hok _ hlt
  have hcast : ((state.toNat : Nat) : Int) = state := by omega
  rw [hcast] at hrow
  have hrp : Rt.rowPairs modes mode state = row.pairs := by simp only [Rt.rowPairs, hm, hrow]
  rw [hrp]
  rcases hp with hp | ⟨r, hr, hrp'⟩
  · exact .inl hp
  · right
    refine ⟨r, mname, hM.name_eq, ?_, ?_⟩
    · rw [← hM.rules_eq]; exact hr
    · rw [hrp]; exact hrp'

/-! ### `$default` is mode 0 -/

/-- `ID = [A-Za-z] [A-Za-z0-9_]*` (`internal/parser/parser.lox`): the name of a `@mode` block starts
with a letter. -/
def startsWithLetter (n : String) : Bool :=
  match n.toList with
  | c :: _ => c.isAlpha
  | [] => false

/-- `$` sorts before every letter: `"$default"` is smaller than every identifier. -/
theorem default_lt_ident {n : String} (h : startsWithLetter n = true) : defaultName < n := by
  show defaultName.toList < n.toList
  unfold startsWithLetter at h
  cases hn : n.toList with
  | nil => rw [hn] at h; cases h
  | cons c cs =>
    rw [hn] at h
    simp only at h
    have hd : defaultName.toList = '$' :: ['d', 'e', 'f', 'a', 'u', 'l', 't'] := by decide
    rw [hd, List.cons_lt_cons_iff]
    left
    simp only [Char.isAlpha, Char.isUpper, Char.isLower, Bool.or_eq_true, Bool.and_eq_true,
      decide_eq_true_eq] at h
    show ('$' : Char).val < c.val
    have : ('$' : Char).val = 36 := by decide
    rw [this]
    rcases h with h | h <;> exact Nat.lt_of_lt_of_le (by decide) h.1

theorem insertName_min {n : String} {l : List String} (h : ∀ x ∈ l, n < x) :
    insertName n l = n :: l := by
  cases l with
  | nil => rfl
  | cons x xs => simp [insertName, h x (by simp)]

theorem modeNames_default_first (s : LSpec)
    (h : ∀ d ∈ specModes 0 s, startsWithLetter d.1 = true) :
    (modeNames s)[0]? = some defaultName ∧ modeIndex s defaultName = some 0 := by
  have hmn : modeNames s = defaultName :: sortNames ((specModes 0 s).map (·.1)) := by
    show insertName defaultName (sortNames ((specModes 0 s).map (·.1))) = _
    apply insertName_min
    intro x hx
    rw [mem_sortNames] at hx
    obtain ⟨d, hd, rfl⟩ := List.mem_map.1 hx
    exact default_lt_ident (h d hd)
  refine ⟨by rw [hmn]; rfl, ?_⟩
  unfold modeIndex
  rw [if_pos (default_mem_modeNames s), hmn]
  simp

/-! ### The rule list of a mode at specification level; maximal munch per mode -/

/-- The rules of the mode called `mname` as the rule-level specification of one mode
(`Lox/Lex/Spec.lean`: `viable`, `label`) sees them: the regular expression a body denotes and the
action pairs of the rule, in the order of `AddRule`. -/
def specRules (s : LSpec) (mname : String) : List Rule :=
  (modeRules s mname).map fun r => (r.body.toRe, (r.pairs s).getD [])

theorem ModeOf.ruleList_eq {s : LSpec} {modes : Array Mode} {i : Nat} {name : String}
    {rs : List GRule} {pss : List (List Pair)} {m : Mode} (h : ModeOf s modes i name rs pss m) :
    modeRuleList rs pss = specRules s name := by
  obtain ⟨hlen, hget⟩ := map_eq_map_some h.pairs
  unfold modeRuleList specRules
  rw [← h.rules_eq]
  apply List.ext_getElem
  · simp [hlen]
  · intro j h1 h2
    simp only [List.length_zip, List.length_map] at h1
    simp only [List.getElem_zip, List.getElem_map, hget j (by omega) (by omega), Option.getD_some]

/-- **Every mode of a generated lexer computes the rule-level specification of its mode**
(`C02.generator_bisim` for the mode `mname` of the specification; greedy rules): the table is a
well-formed table, state 0 means "nothing consumed", and on every word `w` the automaton decoded
from the table dies iff `w` is no prefix of a match of any rule of the mode, and otherwise stops in
a state storing the pairs of the EARLIEST rule of the mode matching `w` exactly. -/
theorem ModeOf.bisim {s : LSpec} {modes : Array Mode} {i : Nat} {name : String}
    {rs : List GRule} {pss : List (List Pair)} {m : Mode} (h : ModeOf s modes i name rs pss m)
    (hok : s.ok = true) (hgreedy : s.greedy = true) (hne : rs ≠ []) :
    wfTable m = true ∧ startClean m = true ∧
      TableSpec m (viable (specRules s name)) (label (specRules s name)) ∧
      ∀ w : List Int, tableRun m w = specRun (specRules s name) w := by
  have hR := h.rulesOK hok
  have hne' : modeXs rs ≠ [] := by simpa using hne
  have hg : ∀ r ∈ modeXs rs, r.greedy = true := by
    intro x hx
    obtain ⟨r, hr, rfl⟩ := List.mem_map.1 hx
    have hr' : r ∈ allRules s := by rw [h.rules_eq] at hr; exact modeRules_sub s name r hr
    exact List.all_eq_true.1 hgreedy r hr'
  obtain ⟨tbl, ht, hwf, hrun⟩ :=
    Lox.Props.C02.generator_bisim (modeXs rs) (modeRuleList rs pss) hR.map hne' hR.cls hR.runes hg
  obtain ⟨tbl', ht', hS⟩ :=
    Lox.Props.C02.generator_tableSpec (modeXs rs) (modeRuleList rs pss) hR.map hne' hR.cls
      hR.runes hg
  have hsc := Lox.Props.C02.generator_startClean (modeXs rs) (modeRuleList rs pss) hR.map hne'
    hR.cls hR.runes hg hR.nonempty m h.gen
  rw [h.gen] at ht ht'
  cases ht
  cases ht'
  rw [← h.ruleList_eq]
  exact ⟨hwf, hsc, hS, hrun⟩

/-! ### The two readers of the framework on a generated table -/

theorem wfTable_empty : wfTable #[1, 2, 0, 0] = true := by decide

/-- Every generated table is a well-formed table (`Lox.Lex.wfTable`, the premise of the
table-automaton lemmas of `Lox/Lex/TableProofs.lean`), and the two row decoders of the framework
(`Lox.Lex.rowAt`, `Rt.decodeRow`) read the same row for every state. -/
theorem ModeOf.readers {s : LSpec} {modes : Array Mode} {i : Nat} {name : String}
    {rs : List GRule} {pss : List (List Pair)} {m : Mode} (h : ModeOf s modes i name rs pss m)
    (hok : s.ok = true) :
    wfTable m = true ∧ Rt.nStates m = Lox.Lex.nStates m ∧
    ∀ q, q < Lox.Lex.nStates m → ∃ fl ts ps, Lox.Lex.rowAt m q = some ⟨fl, ts, ps⟩ ∧
      Rt.decodeRow m (q : Int) = some ⟨fl, ts, ps⟩ := by
  by_cases hne : rs = []
  · have hg := h.gen
    have hp : pss = [] := by
      have := (map_eq_map_some h.pairs).1
      rw [hne] at this
      exact List.length_eq_zero_iff.1 this.symm
    rw [hne, hp] at hg
    simp only [List.map_nil, List.zip_nil_right] at hg
    rw [genMode_nil] at hg
    cases hg
    refine ⟨wfTable_empty, rt_nStates_eq _, ?_⟩
    intro q hq
    have h1 : Lox.Lex.nStates #[1, 2, 0, 0] = 1 := by decide
    rw [h1] at hq
    have : q = 0 := by omega
    subst this
    exact ⟨0, [], [], by decide, by decide⟩
  · have hR := h.rulesOK hok
    have hne' : modeXs rs ≠ [] := by simpa using hne
    obtain ⟨F, hF⟩ := buildDFA_total (modeXs rs) hR.cls
    have hg := h.gen
    simp only [genMode, hF] at hg
    obtain ⟨hwf, hpos, _, hr, _⟩ := buildDFA_shape (modeXs rs) hne' hR.cls F hF
    obtain ⟨hn, _, hrows⟩ := emit_rows hg hpos
    refine ⟨emit_wfTable hg hpos hwf (hr hR.runes), rt_nStates_eq _, ?_⟩
    intro q hq
    rw [hn] at hq
    have hst : F.states[q]? = some F.states[q] := List.getElem?_eq_getElem hq
    exact ⟨_, _, _, hrows q _ hst, emit_decodeRow hg hst⟩

theorem tableRunFrom_lt {tbl : Mode} (hwf : wfTable tbl = true) :
    ∀ (w : List Int) (q q' : Nat), q < Lox.Lex.nStates tbl → tableRunFrom tbl q w = some q' →
      q' < Lox.Lex.nStates tbl := by
  intro w
  induction w with
  | nil => intro q q' hq h; simp only [tableRunFrom, Option.some.injEq] at h; omega
  | cons c w ih =>
    intro q q' hq h
    simp only [tableRunFrom] at h
    cases hs : tableStep tbl q c with
    | none => rw [hs] at h; cases h
    | some q1 =>
      rw [hs] at h
      exact ih q1 q' (tableStep_spec hwf hq hs).1 h

/-- The pairs of a state under both readers. -/
theorem ModeOf.rowPairs_eq {s : LSpec} {modes : Array Mode} {i : Nat} {name : String}
    {rs : List GRule} {pss : List (List Pair)} {m : Mode} (h : ModeOf s modes i name rs pss m)
    (hok : s.ok = true) (q : Nat) (hq : q < Lox.Lex.nStates m) :
    Rt.rowPairs modes i (q : Int) = Lox.Lex.rowPairs m q := by
  obtain ⟨_, _, hrows⟩ := h.readers hok
  obtain ⟨fl, ts, ps, h1, h2⟩ := hrows q hq
  simp only [Rt.rowPairs, h.get, h2, Lox.Lex.rowPairs, h1]

/-! ### Written order: the place of the terminal action does not matter -/

/-- The written mode actions of a rule (`@push_mode`, `@pop_mode`) in written order. -/
def writtenModeActs (as : List LAct) : List LAct := as.filter fun a => !a.isTerminal

theorem applyWritten_modeActs (s : LSpec) (as : List LAct) (ms : MS) :
    applyWritten s as ms = applyWritten s (writtenModeActs as) ms := by
  induction as generalizing ms with
  | nil => rfl
  | cons a rest ih =>
    obtain ⟨mode, stack⟩ := ms
    cases a with
    | pushMode n =>
      simp only [writtenModeActs, LAct.isTerminal, List.filter_cons, Bool.not_false, if_true,
        applyWritten]
      exact ih _
    | popMode =>
      simp only [writtenModeActs, LAct.isTerminal, List.filter_cons, Bool.not_false, if_true,
        applyWritten]
      cases stack with
      | nil => rfl
      | cons top st => exact ih _
    | emit n =>
      simp only [writtenModeActs, LAct.isTerminal, List.filter_cons, Bool.not_true,
        Bool.false_eq_true, if_false, applyWritten]
      exact ih _
    | discard =>
      simp only [writtenModeActs, LAct.isTerminal, List.filter_cons, Bool.not_true,
        Bool.false_eq_true, if_false, applyWritten]
      exact ih _

end Lox.Lex.GenSpec
