import Lox.Lex.Regex
import Lox.Rang3.Model
/-! Model of the lexer generator's own NFA construction (core Lean only, executable).

* `internal/lexergen/nfa/nfa.go`: `State` (ID from one `StateFactory` per mode, transitions labelled
  `Epsilon` or a `rang3.Range`, `Accept`, `NonGreedy`, `Data`).
* `internal/ast/lexer_expr.go`, `lexer_factor.go`, `lexer_term_card.go`, `lexer_term_literal.go`,
  `lexer_term_char_class.go`, `lexer_term_ref.go`, `macro_rule.go`: the `NFACons` methods (Thompson
  construction with lox's own auxiliary ε states).
* `internal/lexergen/mode/mode.go` `ModeBuilder.Build`, first step: a start state with an ε edge to
  the entry of every rule.

The regular expressions of `Lox/Lex/Regex.lean` (`Re`) are binary and forget the written shape:
`'a'` and `[a]`, `x x*` and `x+`, `a|b|c` and `a|(b|c)` are the same `Re` but different NFAs. The
syntax `Rx` below keeps exactly what `NFACons` looks at; `Rx.toRe` is the documented reading. -/
namespace Lox.Lex.Gen
open Lox.Rang3 (Range)

mutual
/-- A lexer expression as `NFACons` sees it (macros inlined: `LexerTermRef.NFACons` calls the
macro's `NFACons`; a parenthesised group is its expression). -/
inductive Rx where
  /-- `LexerTermLiteral`: the decoded code points. `[]` is the single-state fragment (`B = E`) that
  `NFACons` builds for an empty literal (rejected by the Check pass) and `MacroRule.NFACons` builds
  when it reports a macro cycle. -/
  | lit (cps : List Int)
  /-- `LexerTermCharClass` with `Expr.GetRanges() = cs`. -/
  | cls (cs : Cls)
  /-- `LexerFactor` with at least two terms (`seq t₀ (seq t₁ …)`; the shape is associative). -/
  | seq (r s : Rx)
  /-- `LexerExpr` with at least two factors: the first one and the others. -/
  | alt (r : Rx) (rest : Alts)
  /-- `LexerTermCard` with `ZeroOrOne`. -/
  | opt (r : Rx)
  /-- `ZeroOrMore` / `ZeroOrMoreNG`. -/
  | star (ng : Bool) (r : Rx)
  /-- `OneOrMore` / `OneOrMoreNG`. -/
  | plus (ng : Bool) (r : Rx)
/-- The factors of a `LexerExpr` after the first. -/
inductive Alts where
  | last (r : Rx)
  | more (r : Rx) (rest : Alts)
end

mutual
/-- The regular expression a written expression denotes (the reading used by every other Lex
file: `astExprCode` / `exprCode` of the harness produce the prefix code of this `Re`). -/
def Rx.toRe : Rx → Re
  | .lit cps => Re.lit cps
  | .cls cs => .cls cs
  | .seq r s => .seq r.toRe s.toRe
  | .alt r rest => .alt r.toRe rest.toRe
  | .opt r => Re.opt r.toRe
  | .star ng r => .star ng r.toRe
  | .plus ng r => Re.plus r.toRe ng
def Alts.toRe : Alts → Re
  | .last r => r.toRe
  | .more r rest => .alt r.toRe rest.toRe
end

mutual
/-- Every class of the expression contains a code point and every range is written `lo ≤ hi`
(`GetRanges` only returns such ranges). -/
def Rx.clsOK : Rx → Bool
  | .lit _ => true
  | .cls cs => !cs.isEmpty && cs.all fun r => r.1 ≤ r.2
  | .seq r s => r.clsOK && s.clsOK
  | .alt r rest => r.clsOK && rest.clsOK
  | .opt r => r.clsOK
  | .star _ r => r.clsOK
  | .plus _ r => r.clsOK
def Alts.clsOK : Alts → Bool
  | .last r => r.clsOK
  | .more r rest => r.clsOK && rest.clsOK
end

/-- One `AddTransition(to, input)` call: `lbl = none` is `nfa.Epsilon`. -/
structure Edge where
  src : Nat
  lbl : Option Range
  dst : Nat
  deriving DecidableEq, Repr, Inhabited

/-- An `NFAComposite{B, E}` together with what building it did to the mode's state factory and
states: `next` is the factory's `nextID` afterwards, `edges` the `AddTransition` calls in order,
`ng` the states whose `NonGreedy` flag was set. -/
structure Frag where
  b : Nat
  e : Nat
  next : Nat
  edges : List Edge
  ng : List Nat
  deriving Repr, Inhabited

/-- `LexerTermLiteral.NFACons`: `p -c₁-> p+1 -c₂-> p+2 …` (no ε edges). -/
def litEdges : List Int → Nat → List Edge
  | [], _ => []
  | c :: cs, p => ⟨p, some ⟨c, c⟩, p + 1⟩ :: litEdges cs (p + 1)

/-- `LexerTermCharClass.NFACons`: per range two fresh states `p -r-> p+1`, then `B -ε-> p` and
`p+1 -ε-> E`. -/
def clsEdges : Cls → Nat → Nat → Nat → List Edge
  | [], _, _, _ => []
  | r :: cs, b, e, p =>
    ⟨p, some ⟨r.1, r.2⟩, p + 1⟩ :: ⟨b, none, p⟩ :: ⟨p + 1, none, e⟩ :: clsEdges cs b e (p + 2)

mutual
/-- `NFACons`, with the state factory's counter threaded through: `th r n` is the fragment built
when the next free state ID is `n`. State IDs are allocated in the order of the Go code. -/
def th : Rx → Nat → Frag
  | .lit cps, n => ⟨n, n + cps.length, n + cps.length + 1, litEdges cps n, []⟩
  | .cls cs, n => ⟨n, n + 1, n + 2 + 2 * cs.length, clsEdges cs n (n + 1) (n + 2), []⟩
  | .seq r s, n =>
    let f := th r n
    let g := th s f.next
    ⟨f.b, g.e, g.next, f.edges ++ g.edges ++ [⟨f.e, none, g.b⟩], f.ng ++ g.ng⟩
  | .alt r rest, n =>
    -- B = n, E = n + 1 are allocated first, then the factors in order
    let f := th r (n + 2)
    let g := thAlts rest n (n + 1) f.next
    ⟨n, n + 1, g.next, f.edges ++ [⟨n, none, f.b⟩, ⟨f.e, none, n + 1⟩] ++ g.edges, f.ng ++ g.ng⟩
  | .opt r, n =>
    let f := th r n
    let b := f.next
    let e := f.next + 1
    ⟨b, e, f.next + 2, f.edges ++ [⟨b, none, e⟩, ⟨b, none, f.b⟩, ⟨f.e, none, e⟩], f.ng⟩
  | .star ng r, n =>
    let f := th r n
    let b := f.next
    let e := f.next + 1
    ⟨b, e, f.next + 2,
      f.edges ++ [⟨b, none, e⟩, ⟨b, none, f.b⟩, ⟨f.e, none, f.b⟩, ⟨f.e, none, e⟩],
      f.ng ++ (if ng then [e] else [])⟩
  | .plus ng r, n =>
    let f := th r n
    let b := f.next
    let e := f.next + 1
    ⟨b, e, f.next + 2,
      f.edges ++ [⟨b, none, f.b⟩, ⟨f.e, none, f.b⟩, ⟨f.e, none, e⟩],
      f.ng ++ (if ng then [e] else [])⟩
/-- The loop of `LexerExpr.NFACons` over the remaining factors: each is built, then
`B -ε-> Fb` and `Fe -ε-> E`. Only `next`, `edges`, `ng` of the result are meaningful
(`b`, `e` repeat the enclosing `B`, `E`). -/
def thAlts : Alts → Nat → Nat → Nat → Frag
  | .last r, b, e, n =>
    let f := th r n
    ⟨b, e, f.next, f.edges ++ [⟨b, none, f.b⟩, ⟨f.e, none, e⟩], f.ng⟩
  | .more r rest, b, e, n =>
    let f := th r n
    let g := thAlts rest b e f.next
    ⟨b, e, g.next, f.edges ++ [⟨b, none, f.b⟩, ⟨f.e, none, e⟩] ++ g.edges, f.ng ++ g.ng⟩
end

/-- The Thompson fragment of a rule body built by a fresh state factory. -/
def thompson (r : Rx) : Frag := th r 0

/-- The NFA of one mode as `ModeBuilder.Build` sees it before `normalizeInputs`. -/
structure NFA where
  /-- number of states (`StateFactory.nextID`) -/
  n : Nat
  start : Nat
  edges : List Edge
  /-- `(q, i)`: state `q` has `Accept = true` and carries the actions of rule `i` (`Data`). Rules
  are numbered in the order of `AddRule`, which within one file is the order of source positions
  that `pickAction` compares. -/
  acc : List (Nat × Nat)
  ng : List Nat
  deriving Repr, Inhabited, DecidableEq

/-- The rules of a mode built one after the other with the mode's factory
(`TokenRule`/`FragRule.RunPass(GenerateGrammar)`: `NFACons`, `E.Accept = true`, `E.Data = actions`,
`AddRule`). Returns the fragments in rule order. -/
def ruleFrags : List Rx → Nat → List Frag
  | [], _ => []
  | r :: rs, n => let f := th r n; f :: ruleFrags rs f.next

def fragsNext : List Frag → Nat → Nat
  | [], n => n
  | f :: fs, _ => fragsNext fs f.next

/-- `ModeBuilder.Build` up to the call of `normalizeInputs`: `start := NewState()` (so the start
state has the LARGEST id) and one ε edge per rule, in rule order. -/
def modeNFA (rules : List Rx) : NFA :=
  let fs := ruleFrags rules 0
  let start := fragsNext fs 0
  { n := start + 1
    start := start
    edges := fs.flatMap (·.edges) ++ fs.map (fun f => ⟨start, none, f.b⟩)
    acc := fs.zipIdx.map fun p => (p.1.e, p.2)
    ng := fs.flatMap (·.ng) }

/-! ### Runs -/

/-- `PathN E k p w q`: in the edge list `E` there is a path of exactly `k` edges from `p` to `q`
reading the word `w` (ε edges read nothing, a range edge reads one code point inside the range). -/
inductive PathN (E : List Edge) : Nat → Nat → List Int → Nat → Prop where
  | nil (p : Nat) : PathN E 0 p [] p
  | eps {k p q r : Nat} {w : List Int} : (⟨p, none, q⟩ : Edge) ∈ E → PathN E k q w r →
      PathN E (k + 1) p w r
  | chr {k p q r : Nat} {rg : Range} {c : Int} {w : List Int} : (⟨p, some rg, q⟩ : Edge) ∈ E →
      rg.b ≤ c → c ≤ rg.e → PathN E k q w r → PathN E (k + 1) p (c :: w) r

/-- Some path from `p` to `q` reads `w`. -/
def Path (E : List Edge) (p : Nat) (w : List Int) (q : Nat) : Prop := ∃ k, PathN E k p w q

/-- The fragment accepts `w` from its entry to its exit. -/
def Frag.Accepts (f : Frag) (w : List Int) : Prop := Path f.edges f.b w f.e

/-- Rule `i` accepts `w` in the mode NFA: some path from the start state reads `w` and ends in an
accepting state carrying rule `i`. -/
def NFA.AcceptsRule (m : NFA) (i : Nat) (w : List Int) : Prop :=
  ∃ q, Path m.edges m.start w q ∧ (q, i) ∈ m.acc

/-- `Re → Rx`: every regular expression has an `NFACons`-shaped NFA (used to state
`thompson_correct` for all `Re`). `eps` is the single-state fragment. -/
def ofRe : Re → Rx
  | .eps => .lit []
  | .cls cs => .cls cs
  | .seq r s => .seq (ofRe r) (ofRe s)
  | .alt r s => .alt (ofRe r) (.last (ofRe s))
  | .star ng r => .star ng (ofRe r)

end Lox.Lex.Gen
