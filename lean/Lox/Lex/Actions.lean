/-! Model of how written rule actions become the action pairs stored on an accepting state
(`internal/ast/lexer_token_rule.go`, `internal/ast/lexer_frag_rule.go` GenerateGrammar pass,
`internal/codegen/emit_lexer.go` mode_table). Core Lean only. -/
namespace Lox.Lex

/-- An action as written on a rule. Modes are identified by their index in `_lexerModes`
(sorted mode names, `$default` first — `internal/ast/spec.go`). -/
inductive WAction where
  | pushMode (mode : Nat)
  | popMode
  | emit (terminal : Nat)
  | discard
  deriving DecidableEq, Repr, Inhabited

/-- An emitted `(actionType, actionParam)` pair. -/
abbrev Pair := Int × Int

def WAction.pair : WAction → Pair
  | .pushMode m => (1, m)
  | .popMode => (2, 0)
  | .emit t => (3, t)
  | .discard => (4, 0)

def accumPair : Pair := (5, 0)

def WAction.isTerminal : WAction → Bool
  | .emit _ => true
  | .discard => true
  | _ => false

/-- Token rule `NAME = expr actions`: `@discard`/`@emit` are rejected; the written mode actions
in order, then the implicit accept of the rule's own terminal. -/
def tokenRulePairs (terminal : Nat) (ws : List WAction) : Option (List Pair) :=
  if ws.any WAction.isTerminal then none
  else some (ws.map WAction.pair ++ [((3 : Int), (terminal : Int))])

/-- Fragment rule `@frag expr actions`: at most one `@discard`, at most one `@emit`, not both;
mode actions keep their written order and come first, the terminal action (or the implicit
accumulate) comes last. -/
def fragRulePairs (ws : List WAction) : Option (List Pair) :=
  let nd := (ws.filter (· == .discard)).length
  let ne := (ws.filter (fun w => match w with | .emit _ => true | _ => false)).length
  if nd > 1 ∨ ne > 1 ∨ (nd ≥ 1 ∧ ne ≥ 1) then none
  else
    let modeActs := (ws.filter (fun w => !w.isTerminal)).map WAction.pair
    let termActs := (ws.filter WAction.isTerminal).map WAction.pair
    some (modeActs ++ (if termActs.isEmpty then [accumPair] else termActs))

end Lox.Lex
