/-! Executable model of the generated lexer state machine (`internal/codegen/emit_lexer.go`,
`lexerTemplate`: `PushRune`, `Reset`, `Token`) over the emitted `_lexerModeN` arrays, and of the
reference driver `github.com/dcaiafa/loxlex/simplelexer` (`ReadToken`, `consume`). Core Lean only.

Row format (after the per-state offset vector): `len, flags, gotoN, gotoN × (lo, hi, state),
(actionType, actionParam)*`. Action types: 1 push mode, 2 pop mode, 3 accept(token), 4 discard,
5 accumulate. Go panics (index out of range) are explicit results. -/
namespace Lox.Lex

/-- `PushRune` results (`_lexerConsume … _lexerError`). -/
inductive Res where
  | consume | accept | discard | tryAgain | eof | error
  | oob   -- Go would panic with an index out of range
  deriving DecidableEq, Repr, Inhabited

/-- `_LexerStateMachine`. `mode = none` is the Go `nil` mode (→ mode 0 on the next `PushRune`).
Modes are identified by their index in `_lexerModes`. -/
structure SM where
  token : Int := 0
  state : Int := 0
  mode : Option Nat := none
  modeStack : List Nat := []   -- top first
  deriving DecidableEq, Repr, Inhabited

abbrev Mode := Array Int       -- one `_lexerModeN`, values of `uint32` as integers

def geti (a : Array Int) (i : Int) : Option Int := if i < 0 then none else a[i.toNat]?

/-- The binary search over the `gotoN` triples starting at `base`; `fuel ≥ gotoN` iterations. -/
def bsearch (m : Mode) (r : Int) (base : Int) : Nat → Int → Int → Option (Option Int)
  | 0, _, _ => some none
  | n + 1, b, e =>
    if b < e then
      let j := b + (e - b) / 2
      let k := base + j * 3
      match geti m k, geti m (k + 1) with
      | some lo, some hi =>
        if r ≥ lo ∧ r ≤ hi then
          match geti m (k + 2) with
          | some st => some (some st)
          | none => none
        else if r < lo then bsearch m r base n b j
        else bsearch m r base n (j + 1) e
      | _, _ => none
    else some none

/-- The action interpreter `for ; i < end; i += 2 { switch mode[i] … }` over the row of the
mode that was current on entry. -/
def runActions (modes : Array Mode) (m : Mode) (r : Int) : Nat → Int → Int → SM → Option (Res × SM)
  | 0, _, _, _ => none
  | n + 1, i, stop, sm =>
    if i < stop then
      match geti m i with
      | none => some (.oob, sm)
      | some ty =>
        if ty = 1 then
          match geti m (i + 1) with
          | none => some (.oob, sm)
          | some mi =>
            -- modeStack.Push(mode); l.mode = _lexerModes[modeIndex]
            if mi.toNat < modes.size then
              runActions modes m r n (i + 2) stop
                { sm with modeStack := sm.mode.getD 0 :: sm.modeStack, mode := some mi.toNat }
            else some (.oob, sm)
        else if ty = 2 then
          match sm.modeStack with
          | [] => some (.error, sm)
          | top :: rest => runActions modes m r n (i + 2) stop { sm with mode := some top, modeStack := rest }
        else if ty = 3 then
          match geti m (i + 1) with
          | none => some (.oob, sm)
          | some tk => some (.accept, { sm with token := tk, state := 0 })
        else if ty = 4 then some (.discard, { sm with state := 0 })
        else if ty = 5 then some (.tryAgain, { sm with state := 0 })
        else runActions modes m r n (i + 2) stop sm
    else if sm.state = 0 ∧ r = -1 then some (.eof, sm) else some (.error, sm)

/-- `PushRune(r)`; `r = -1` is end of input. -/
def pushRune (modes : Array Mode) (sm : SM) (r : Int) : Res × SM :=
  let mi := sm.mode.getD 0
  let sm := { sm with mode := some mi }
  match modes[mi]? with
  | none => (.oob, sm)
  | some m =>
    match geti m sm.state with
    | none => (.oob, sm)
    | some i =>
      match geti m i, geti m (i + 1), geti m (i + 2) with
      | some count, some flags, some gotoN =>
        let stop := i + 1 + count
        let base := i + 3
        let found : Option (Option Int) :=
          if flags % 2 = 0 then bsearch m r base (gotoN.toNat + 1) 0 gotoN else some none
        match found with
        | none => (.oob, sm)
        | some (some st) => (.consume, { sm with state := st })
        | some none =>
          let a := base + gotoN * 3
          match runActions modes m r (count.toNat + 1) a stop sm with
          | some x => x
          | none => (.oob, sm)
      | _, _, _ => (.oob, sm)

/-- `Reset()`: note that the mode stack is left alone. -/
def SM.reset (sm : SM) : SM := { sm with mode := none, state := 0 }

/-- A decoded input: runes with their byte widths, as `bytes.Reader.ReadRune` returns them
(invalid bytes arrive as U+FFFD of width 1). -/
abbrev Input := Array (Int × Nat)

/-- `simplelexer.Lexer` (the fields that matter). -/
structure Lx where
  sm : SM := {}
  idx : Nat := 0       -- index of the current rune `l.char` in the input (= size at end)
  offset : Nat := 0    -- byte offset of the current rune
  deriving DecidableEq, Repr, Inhabited

def Lx.char (inp : Input) (l : Lx) : Int := match inp[l.idx]? with
  | some (r, _) => r
  | none => -1

/-- `consume()`. -/
def Lx.consume (inp : Input) (l : Lx) : Lx := match inp[l.idx]? with
  | some (_, w) => { l with idx := l.idx + 1, offset := l.offset + w }
  | none => l

inductive Tok where
  | tok (ty : Int) (start stop : Nat)     -- Type, Str = input[start:stop]
  | err (start : Nat) (char : Int)        -- ERROR token: Pos = start of the attempt, offending rune
  | eof (pos : Nat)
  deriving DecidableEq, Repr, Inhabited

/-- `for l.char != '\n' && l.char != -1 { l.consume() }` -/
def skipLine (inp : Input) : Nat → Lx → Lx
  | 0, l => l
  | n + 1, l => if l.char inp ≠ 10 ∧ l.char inp ≠ -1 then skipLine inp n (l.consume inp) else l

/-- `ReadToken()`; `start = none` is the Go `-1`. `none` result = out of fuel (the real lexer would
not return), `some (none, _)` = Go panic. -/
def readToken (modes : Array Mode) (inp : Input) : Nat → Option Nat → Lx → Option (Option Tok × Lx)
  | 0, _, _ => none
  | n + 1, start, l =>
    let start := start.getD l.offset
    let (res, sm) := pushRune modes l.sm (l.char inp)
    let l := { l with sm := sm }
    match res with
    | .consume => readToken modes inp n (some start) (l.consume inp)
    | .accept => some (some (.tok sm.token start l.offset), l)
    | .discard => readToken modes inp n none l
    | .tryAgain => readToken modes inp n (some start) l
    | .eof => some (some (.eof start), l)
    | .oob => some (none, l)
    | .error =>
      let c := l.char inp
      let l := skipLine inp (inp.size + 1) l
      let l := l.consume inp
      some (some (.err start c), { l with sm := l.sm.reset })

/-- Read tokens until EOF. -/
def lexAll (modes : Array Mode) (inp : Input) (fuel : Nat) : Nat → Lx → List Tok → List Tok × String
  | 0, _, acc => (acc.reverse, "timeout")
  | n + 1, l, acc =>
    match readToken modes inp fuel none l with
    | none => (acc.reverse, "timeout")
    | some (none, _) => (acc.reverse, "panic")
    | some (some t, l') =>
      match t with
      | .eof _ => ((t :: acc).reverse, "ok")
      | _ => lexAll modes inp fuel n l' (t :: acc)

end Lox.Lex
