import Lox.Lex.GenNFA
import Lox.Lex.RegexProofs
/-! Correctness of the Thompson construction of `Lox/Lex/GenNFA.lean` (`NFACons`). -/
namespace Lox.Lex.Gen
open Lox.Rang3 (Range)

/-- Closes arithmetic side goals about the fields of explicit edges. -/
macro "edge_arith" : tactic =>
  `(tactic| ((try simp only [true_and, and_true, true_or, or_true, ne_eq]) <;> (try omega)))

/-! ### Paths -/

theorem PathN.mono {E E' : List Edge} (h : ∀ ed ∈ E, ed ∈ E') {k p w q} (hp : PathN E k p w q) :
    PathN E' k p w q := by
  induction hp with
  | nil p => exact .nil p
  | eps he _ ih => exact .eps (h _ he) ih
  | chr he h1 h2 _ ih => exact .chr (h _ he) h1 h2 ih

theorem Path.mono {E E' : List Edge} (h : ∀ ed ∈ E, ed ∈ E') {p w q} (hp : Path E p w q) :
    Path E' p w q := let ⟨k, hk⟩ := hp; ⟨k, hk.mono h⟩

theorem PathN.trans {E : List Edge} {k1 p u m} (h1 : PathN E k1 p u m) :
    ∀ {k2 v q}, PathN E k2 m v q → PathN E (k1 + k2) p (u ++ v) q := by
  induction h1 with
  | nil p => intro k2 v q h2; simpa using h2
  | @eps k _ _ _ _ he _ ih =>
    intro k2 v q h2
    have := PathN.eps he (ih h2)
    rw [show k + 1 + k2 = k + k2 + 1 by omega]; exact this
  | @chr k _ _ _ _ _ _ he h1 h2' _ ih =>
    intro k2 v q h2
    have := PathN.chr he h1 h2' (ih h2)
    rw [show k + 1 + k2 = k + k2 + 1 by omega]; exact this

theorem Path.refl (E : List Edge) (p : Nat) : Path E p [] p := ⟨0, .nil p⟩

theorem Path.trans {E : List Edge} {p u m v q} (h1 : Path E p u m) (h2 : Path E m v q) :
    Path E p (u ++ v) q :=
  let ⟨_, a⟩ := h1; let ⟨_, b⟩ := h2; ⟨_, a.trans b⟩

theorem Path.eps {E : List Edge} {p q r w} (he : (⟨p, none, q⟩ : Edge) ∈ E) (h : Path E q w r) :
    Path E p w r := let ⟨k, hk⟩ := h; ⟨k + 1, .eps he hk⟩

theorem Path.chr {E : List Edge} {p q r w} {rg : Range} {c : Int}
    (he : (⟨p, some rg, q⟩ : Edge) ∈ E) (h1 : rg.b ≤ c) (h2 : c ≤ rg.e) (h : Path E q w r) :
    Path E p (c :: w) r := let ⟨k, hk⟩ := h; ⟨k + 1, .chr he h1 h2 hk⟩

theorem Path.eps_edge {E : List Edge} {p q} (he : (⟨p, none, q⟩ : Edge) ∈ E) : Path E p [] q :=
  Path.eps he (Path.refl E q)

/-- A path that reads `u ++ v` passes through a state after reading `u`. -/
theorem PathN.split {E : List Edge} {k p w q} (h : PathN E k p w q) :
    ∀ u v, w = u ++ v → ∃ m k1 k2, k1 + k2 = k ∧ PathN E k1 p u m ∧ PathN E k2 m v q := by
  induction h with
  | nil p =>
    intro u v huv
    have : u = [] ∧ v = [] := by simpa using huv.symm
    obtain ⟨rfl, rfl⟩ := this
    exact ⟨p, 0, 0, rfl, .nil p, .nil p⟩
  | @eps k p q r w he hp ih =>
    intro u v huv
    obtain ⟨m, k1, k2, hk, h1, h2⟩ := ih u v huv
    exact ⟨m, k1 + 1, k2, by omega, .eps he h1, h2⟩
  | @chr k p q r rg c w he hb he' hp ih =>
    intro u v huv
    cases u with
    | nil =>
      simp only [List.nil_append] at huv
      exact ⟨p, 0, k + 1, by omega, .nil p, huv ▸ .chr he hb he' hp⟩
    | cons c' u' =>
      simp only [List.cons_append, List.cons.injEq] at huv
      obtain ⟨rfl, huv⟩ := huv
      obtain ⟨m, k1, k2, hk, h1, h2⟩ := ih u' v huv
      exact ⟨m, k1 + 1, k2, by omega, .chr he hb he' h1, h2⟩

theorem Path.split {E : List Edge} {p u v q} (h : Path E p (u ++ v) q) :
    ∃ m, Path E p u m ∧ Path E m v q := by
  obtain ⟨k, hk⟩ := h
  obtain ⟨m, k1, k2, _, h1, h2⟩ := hk.split u v rfl
  exact ⟨m, ⟨k1, h1⟩, ⟨k2, h2⟩⟩

/-- First step of a path between two different states. -/
theorem PathN.first {E : List Edge} {k p w q} (h : PathN E k p w q) (hne : p ≠ q) :
    ∃ k', k = k' + 1 ∧
      ((∃ p', (⟨p, none, p'⟩ : Edge) ∈ E ∧ PathN E k' p' w q) ∨
       (∃ p' rg c w', (⟨p, some rg, p'⟩ : Edge) ∈ E ∧ rg.b ≤ c ∧ c ≤ rg.e ∧ w = c :: w' ∧
          PathN E k' p' w' q)) := by
  cases h with
  | nil => exact absurd rfl hne
  | eps he hp => exact ⟨_, rfl, Or.inl ⟨_, he, hp⟩⟩
  | chr he h1 h2 hp => exact ⟨_, rfl, Or.inr ⟨_, _, _, _, he, h1, h2, rfl, hp⟩⟩

/-- A state without outgoing edges only reaches itself, reading nothing. -/
theorem PathN.stuck {E : List Edge} {k p w q} (h : PathN E k p w q)
    (hno : ∀ ed ∈ E, ed.src ≠ p) : q = p ∧ w = [] ∧ k = 0 := by
  cases h with
  | nil => exact ⟨rfl, rfl, rfl⟩
  | eps he _ => exact absurd rfl (hno _ he)
  | chr he _ _ _ => exact absurd rfl (hno _ he)

/-! ### Regular-expression facts -/

theorem matches_lit : ∀ (cps w : List Int), Matches (Re.lit cps) w ↔ w = cps := by
  intro cps
  induction cps with
  | nil =>
    intro w
    constructor
    · intro h; cases h; rfl
    · rintro rfl; exact .eps
  | cons c cs ih =>
    intro w
    cases cs with
    | nil =>
      constructor
      · intro h
        cases h with
        | cls hc =>
          simp only [inCls, List.any_cons, List.any_nil, Bool.or_false, Bool.and_eq_true,
            decide_eq_true_eq] at hc
          have : c = _ := Int.le_antisymm hc.1 hc.2
          subst this; rfl
      · rintro rfl
        exact .cls (by simp [inCls])
    | cons c' cs' =>
      constructor
      · intro h
        cases h with
        | seq h1 h2 =>
          cases h1 with
          | cls hc =>
            simp only [inCls, List.any_cons, List.any_nil, Bool.or_false, Bool.and_eq_true,
              decide_eq_true_eq] at hc
            have : c = _ := Int.le_antisymm hc.1 hc.2
            subst this
            rw [(ih _).1 h2]; rfl
      · rintro rfl
        exact .seq (u := [c]) (.cls (by simp [inCls])) ((ih _).2 rfl)

theorem matches_star_append {ng : Bool} {r : Re} {u v : List Int} (h1 : Matches r u)
    (h2 : Matches (.star ng r) v) : Matches (.star ng r) (u ++ v) := by
  cases u with
  | nil => simpa using h2
  | cons c u => exact .star_cons h1 h2

theorem matches_star_one {ng : Bool} {r : Re} {u : List Int} (h1 : Matches r u) :
    Matches (.star ng r) u := by
  simpa using matches_star_append (ng := ng) h1 .star_nil

/-- Induction principle for words of `r*`. -/
theorem matches_star_ind {ng : Bool} {r : Re} {P : List Int → Prop} (hnil : P [])
    (hcons : ∀ u v, Matches r u → P v → P (u ++ v)) :
    ∀ {w}, Matches (.star ng r) w → P w := by
  intro w h
  generalize hx : Re.star ng r = x at h
  induction h with
  | eps => cases hx
  | cls _ => cases hx
  | seq _ _ _ _ => cases hx
  | altl _ _ => cases hx
  | altr _ _ => cases hx
  | star_nil => exact hnil
  | star_cons h1 _ _ ih2 =>
    cases hx
    exact hcons _ _ h1 (ih2 rfl)

/-! ### Well-formedness of fragments -/

/-- All states of the fragment built at counter `n` lie in `[n, next)`, and no edge of the fragment
leaves its exit state. -/
structure FragWF (f : Frag) (n : Nat) : Prop where
  hb : n ≤ f.b ∧ f.b < f.next
  he : n ≤ f.e ∧ f.e < f.next
  edges : ∀ ed ∈ f.edges, n ≤ ed.src ∧ ed.src < f.next ∧ n ≤ ed.dst ∧ ed.dst < f.next ∧ ed.src ≠ f.e

/-- The factors after the first: states in `[n, next)`, edges inside that interval except the
`B -ε->` and `-ε-> E` edges. -/
structure AltsWF (g : Frag) (b e n : Nat) : Prop where
  hn : n < g.next
  edges : ∀ ed ∈ g.edges, ((n ≤ ed.src ∧ ed.src < g.next) ∨ ed.src = b) ∧
    ((n ≤ ed.dst ∧ ed.dst < g.next) ∨ ed.dst = e)

theorem litEdges_wf : ∀ (cps : List Int) (p : Nat), ∀ ed ∈ litEdges cps p,
    p ≤ ed.src ∧ ed.src < p + cps.length ∧ ed.dst = ed.src + 1 := by
  intro cps
  induction cps with
  | nil => intro p ed h; simp [litEdges] at h
  | cons c cs ih =>
    intro p ed h
    simp only [litEdges, List.mem_cons] at h
    rcases h with rfl | h
    · simp
    · have := ih (p + 1) ed h
      simp only [List.length_cons]
      omega

theorem clsEdges_wf : ∀ (cs : Cls) (b e p : Nat), ∀ ed ∈ clsEdges cs b e p,
    (ed.src = b ∧ p ≤ ed.dst ∧ ed.dst < p + 2 * cs.length) ∨
    (p ≤ ed.src ∧ ed.src < p + 2 * cs.length ∧
      (ed.dst = e ∨ (p ≤ ed.dst ∧ ed.dst < p + 2 * cs.length))) := by
  intro cs
  induction cs with
  | nil => intro b e p ed h; simp [clsEdges] at h
  | cons r cs ih =>
    intro b e p ed h
    simp only [clsEdges, List.mem_cons] at h
    simp only [List.length_cons]
    rcases h with rfl | rfl | rfl | h
    · right; edge_arith
    · left; edge_arith
    · right; edge_arith
    · rcases ih b e (p + 2) ed h with h | h
      · left; omega
      · right; omega

mutual
theorem th_wf : ∀ (r : Rx) (n : Nat), FragWF (th r n) n
  | .lit cps, n => by
    refine ⟨by simp only [th]; omega, by simp only [th]; omega, ?_⟩
    intro ed h
    have := litEdges_wf cps n ed h
    simp only [th] at *
    omega
  | .cls cs, n => by
    refine ⟨by simp only [th]; omega, by simp only [th]; omega, ?_⟩
    intro ed h
    have := clsEdges_wf cs n (n + 1) (n + 2) ed h
    simp only [th] at *
    omega
  | .seq r s, n => by
    have hf := th_wf r n
    have hg := th_wf s (th r n).next
    refine ⟨?_, ?_, ?_⟩
    · simp only [th]; have := hf.hb; have := hg.hb; omega
    · simp only [th]; have := hf.hb; have := hg.he; omega
    · intro ed h
      simp only [th, List.mem_append, List.mem_singleton] at h ⊢
      have := hf.hb; have := hf.he; have := hg.hb; have := hg.he
      rcases h with (h | h) | rfl
      · have := hf.edges ed h; omega
      · have := hg.edges ed h; omega
      · simp only; omega
  | .alt r rest, n => by
    have hf := th_wf r (n + 2)
    have hg := thAlts_wf rest n (n + 1) (th r (n + 2)).next
    have := hf.hb; have := hf.he; have := hg.hn
    refine ⟨?_, ?_, ?_⟩
    · simp only [th]; omega
    · simp only [th]; omega
    · intro ed h
      simp only [th, List.mem_append, List.mem_cons, List.not_mem_nil, or_false] at h ⊢
      rcases h with (h | rfl | rfl) | h
      · have := hf.edges ed h; omega
      · simp only; omega
      · simp only; omega
      · have := hg.edges ed h; omega
  | .opt r, n => by
    have hf := th_wf r n
    have := hf.hb; have := hf.he
    refine ⟨by simp only [th]; omega, by simp only [th]; omega, ?_⟩
    intro ed h
    simp only [th, List.mem_append, List.mem_cons, List.not_mem_nil, or_false] at h ⊢
    rcases h with h | rfl | rfl | rfl
    · have := hf.edges ed h; omega
    all_goals (simp only; omega)
  | .star ng r, n => by
    have hf := th_wf r n
    have := hf.hb; have := hf.he
    refine ⟨by simp only [th]; omega, by simp only [th]; omega, ?_⟩
    intro ed h
    simp only [th, List.mem_append, List.mem_cons, List.not_mem_nil, or_false] at h ⊢
    rcases h with h | rfl | rfl | rfl | rfl
    · have := hf.edges ed h; omega
    all_goals (simp only; omega)
  | .plus ng r, n => by
    have hf := th_wf r n
    have := hf.hb; have := hf.he
    refine ⟨by simp only [th]; omega, by simp only [th]; omega, ?_⟩
    intro ed h
    simp only [th, List.mem_append, List.mem_cons, List.not_mem_nil, or_false] at h ⊢
    rcases h with h | rfl | rfl | rfl
    · have := hf.edges ed h; omega
    all_goals (simp only; omega)
theorem thAlts_wf : ∀ (a : Alts) (b e n : Nat), AltsWF (thAlts a b e n) b e n
  | .last r, b, e, n => by
    have hf := th_wf r n
    have := hf.hb; have := hf.he
    refine ⟨by simp only [thAlts]; omega, ?_⟩
    intro ed h
    simp only [thAlts, List.mem_append, List.mem_cons, List.not_mem_nil, or_false] at h ⊢
    rcases h with h | rfl | rfl
    · have := hf.edges ed h; omega
    · exact ⟨Or.inr rfl, Or.inl ⟨by simp only; omega, by simp only; omega⟩⟩
    · exact ⟨Or.inl ⟨by simp only; omega, by simp only; omega⟩, Or.inr rfl⟩
  | .more r rest, b, e, n => by
    have hf := th_wf r n
    have hg := thAlts_wf rest b e (th r n).next
    have := hf.hb; have := hf.he; have := hg.hn
    refine ⟨by simp only [thAlts]; omega, ?_⟩
    intro ed h
    simp only [thAlts, List.mem_append, List.mem_cons, List.not_mem_nil, or_false] at h ⊢
    rcases h with (h | rfl | rfl) | h
    · have := hf.edges ed h; omega
    · exact ⟨Or.inr rfl, Or.inl ⟨by simp only; omega, by simp only; omega⟩⟩
    · exact ⟨Or.inl ⟨by simp only; omega, by simp only; omega⟩, Or.inr rfl⟩
    · have := hg.edges ed h; omega
end


/-! ### Completeness: every word of the expression labels a path from entry to exit -/

theorem litEdges_path (E : List Edge) : ∀ (cps : List Int) (p : Nat),
    (∀ ed ∈ litEdges cps p, ed ∈ E) → Path E p cps (p + cps.length) := by
  intro cps
  induction cps with
  | nil => intro p _; exact Path.refl E p
  | cons c cs ih =>
    intro p h
    have h1 : (⟨p, some ⟨c, c⟩, p + 1⟩ : Edge) ∈ E := h _ (by simp [litEdges])
    have h2 := ih (p + 1) (fun ed hed => h ed (by simp [litEdges, hed]))
    have := Path.chr h1 (Int.le_refl c) (Int.le_refl c) h2
    rw [show p + (c :: cs).length = p + 1 + cs.length by simp only [List.length_cons]; omega]
    exact this

theorem mem_clsEdges : ∀ (cs : Cls) (b e p : Nat) (r : Int × Int), r ∈ cs →
    ∃ p', (⟨p', some ⟨r.1, r.2⟩, p' + 1⟩ : Edge) ∈ clsEdges cs b e p ∧
      (⟨b, none, p'⟩ : Edge) ∈ clsEdges cs b e p ∧ (⟨p' + 1, none, e⟩ : Edge) ∈ clsEdges cs b e p := by
  intro cs
  induction cs with
  | nil => intro b e p r h; simp at h
  | cons r0 cs ih =>
    intro b e p r h
    rcases List.mem_cons.mp h with rfl | h
    · exact ⟨p, by simp [clsEdges], by simp [clsEdges], by simp [clsEdges]⟩
    · obtain ⟨p', h1, h2, h3⟩ := ih b e (p + 2) r h
      exact ⟨p', by simp [clsEdges, h1], by simp [clsEdges, h2], by simp [clsEdges, h3]⟩

theorem inCls_iff (cs : Cls) (c : Int) : inCls cs c = true ↔ ∃ r ∈ cs, r.1 ≤ c ∧ c ≤ r.2 := by
  simp [inCls]

mutual
theorem th_complete : ∀ (r : Rx) (n : Nat) (E : List Edge),
    (∀ ed ∈ (th r n).edges, ed ∈ E) → ∀ w, Matches r.toRe w → Path E (th r n).b w (th r n).e
  | .lit cps, n, E, hE, w, hm => by
    have : w = cps := (matches_lit cps w).1 hm
    subst this
    exact litEdges_path E w n hE
  | .cls cs, n, E, hE, w, hm => by
    simp only [Rx.toRe] at hm
    cases hm with
    | cls hc =>
      obtain ⟨r, hr, h1, h2⟩ := (inCls_iff cs _).1 hc
      obtain ⟨p', e1, e2, e3⟩ := mem_clsEdges cs n (n + 1) (n + 2) r hr
      exact Path.eps (hE _ e2) (Path.chr (hE _ e1) h1 h2 (Path.eps_edge (hE _ e3)))
  | .seq r s, n, E, hE, w, hm => by
    simp only [Rx.toRe] at hm
    cases hm with
    | seq h1 h2 =>
      have p1 := th_complete r n E (fun ed h => hE ed (by simp [th, h])) _ h1
      have p2 := th_complete s (th r n).next E (fun ed h => hE ed (by simp [th, h])) _ h2
      have hg : (⟨(th r n).e, none, (th s (th r n).next).b⟩ : Edge) ∈ E := hE _ (by simp [th])
      exact Path.trans p1 (Path.eps hg p2)
  | .alt r rest, n, E, hE, w, hm => by
    simp only [Rx.toRe] at hm
    cases hm with
    | altl h1 =>
      have p1 := th_complete r (n + 2) E (fun ed h => hE ed (by simp [th, h])) _ h1
      have g1 : (⟨n, none, (th r (n + 2)).b⟩ : Edge) ∈ E := hE _ (by simp [th])
      have g2 : (⟨(th r (n + 2)).e, none, n + 1⟩ : Edge) ∈ E := hE _ (by simp [th])
      have := Path.eps g1 (Path.trans p1 (Path.eps_edge g2))
      simpa [th] using this
    | altr h2 =>
      obtain ⟨p, q, g1, pp, g2⟩ := thAlts_complete rest n (n + 1) (th r (n + 2)).next E
        (fun ed h => hE ed (by simp [th, h])) _ h2
      have := Path.eps g1 (Path.trans pp (Path.eps_edge g2))
      simpa [th] using this
  | .opt r, n, E, hE, w, hm => by
    simp only [Rx.toRe, Re.opt] at hm
    cases hm with
    | altl h1 =>
      have p1 := th_complete r n E (fun ed h => hE ed (by simp [th, h])) _ h1
      have g1 : (⟨(th r n).next, none, (th r n).b⟩ : Edge) ∈ E := hE _ (by simp [th])
      have g2 : (⟨(th r n).e, none, (th r n).next + 1⟩ : Edge) ∈ E := hE _ (by simp [th])
      have := Path.eps g1 (Path.trans p1 (Path.eps_edge g2))
      simpa [th] using this
    | altr h2 =>
      cases h2
      have g : (⟨(th r n).next, none, (th r n).next + 1⟩ : Edge) ∈ E := hE _ (by simp [th])
      exact Path.eps_edge g
  | .star ng r, n, E, hE, w, hm => by
    simp only [Rx.toRe] at hm
    have g0 : (⟨(th r n).next, none, (th r n).next + 1⟩ : Edge) ∈ E := hE _ (by simp [th])
    have g1 : (⟨(th r n).next, none, (th r n).b⟩ : Edge) ∈ E := hE _ (by simp [th])
    have g2 : (⟨(th r n).e, none, (th r n).b⟩ : Edge) ∈ E := hE _ (by simp [th])
    have g3 : (⟨(th r n).e, none, (th r n).next + 1⟩ : Edge) ∈ E := hE _ (by simp [th])
    have key : w = [] ∨ Path E (th r n).b w (th r n).e := by
      refine matches_star_ind (P := fun w => w = [] ∨ Path E (th r n).b w (th r n).e)
        (Or.inl rfl) ?_ hm
      intro u v hu hv
      have pu := th_complete r n E (fun ed h => hE ed (by simp [th, h])) _ hu
      rcases hv with rfl | pv
      · right; simpa using pu
      · right; exact Path.trans pu (Path.eps g2 pv)
    rcases key with rfl | pw
    · exact Path.eps_edge g0
    · have := Path.eps g1 (Path.trans pw (Path.eps_edge g3))
      simpa [th] using this
  | .plus ng r, n, E, hE, w, hm => by
    simp only [Rx.toRe, Re.plus] at hm
    have g1 : (⟨(th r n).next, none, (th r n).b⟩ : Edge) ∈ E := hE _ (by simp [th])
    have g2 : (⟨(th r n).e, none, (th r n).b⟩ : Edge) ∈ E := hE _ (by simp [th])
    have g3 : (⟨(th r n).e, none, (th r n).next + 1⟩ : Edge) ∈ E := hE _ (by simp [th])
    cases hm with
    | @seq _ _ u0 v0 h1 h2 =>
      have p1 := th_complete r n E (fun ed h => hE ed (by simp [th, h])) _ h1
      have key : v0 = [] ∨ Path E (th r n).b v0 (th r n).e := by
        refine matches_star_ind (P := fun w => w = [] ∨ Path E (th r n).b w (th r n).e)
          (Or.inl rfl) ?_ h2
        intro u v hu hv
        have pu := th_complete r n E (fun ed h => hE ed (by simp [th, h])) _ hu
        rcases hv with rfl | pv
        · right; simpa using pu
        · right; exact Path.trans pu (Path.eps g2 pv)
      have pw : Path E (th r n).b (u0 ++ v0) (th r n).e := by
        rcases key with rfl | pv
        · simpa using p1
        · exact Path.trans p1 (Path.eps g2 pv)
      have := Path.eps g1 (Path.trans pw (Path.eps_edge g3))
      simpa [th] using this
theorem thAlts_complete : ∀ (a : Alts) (b e n : Nat) (E : List Edge),
    (∀ ed ∈ (thAlts a b e n).edges, ed ∈ E) → ∀ w, Matches a.toRe w →
    ∃ p q, (⟨b, none, p⟩ : Edge) ∈ E ∧ Path E p w q ∧ (⟨q, none, e⟩ : Edge) ∈ E
  | .last r, b, e, n, E, hE, w, hm => by
    simp only [Alts.toRe] at hm
    have p1 := th_complete r n E (fun ed h => hE ed (by simp [thAlts, h])) _ hm
    exact ⟨_, _, hE _ (by simp [thAlts]), p1, hE _ (by simp [thAlts])⟩
  | .more r rest, b, e, n, E, hE, w, hm => by
    simp only [Alts.toRe] at hm
    cases hm with
    | altl h1 =>
      have p1 := th_complete r n E (fun ed h => hE ed (by simp [thAlts, h])) _ h1
      exact ⟨_, _, hE _ (by simp [thAlts]), p1, hE _ (by simp [thAlts])⟩
    | altr h2 =>
      exact thAlts_complete rest b e (th r n).next E (fun ed h => hE ed (by simp [thAlts, h])) _ h2
end

end Lox.Lex.Gen
