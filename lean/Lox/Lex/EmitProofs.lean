import Lox.Lex.EmitModel
import Lox.Lex.TableProofs
import Lox.Lex.GenOptProofs
/-! Lemmas about the row `mode_table` writes for one DFA state (`Lox/Lex/EmitModel.lean`):
the sorted keys, the triples, and the linear lookup over them (= `DState.next`). -/
namespace Lox.Lex.Gen
open Lox.Rang3 (Range cmp)
open Lox.Lex (Triple lookup sortedFrom)

/-! ### `rang3.Compare` -/

theorem cmp_lt_iff (a b : Range) : cmp a b < 0 ↔ a.b < b.b ∨ (a.b = b.b ∧ a.e < b.e) := by
  unfold cmp
  split
  · simp; omega
  · split
    · simp; omega
    · split
      · simp; omega
      · split <;> simp <;> omega

theorem cmp_eq_zero_iff (a b : Range) : cmp a b = 0 ↔ a = b := by
  unfold cmp
  obtain ⟨ab, ae⟩ := a
  obtain ⟨bb, be⟩ := b
  simp only [Range.mk.injEq]
  split
  · simp; omega
  · split
    · simp; omega
    · split
      · simp; omega
      · split
        · simp; omega
        · simp; omega

/-! ### `insRangeKey`, `sortedKeys` -/

theorem mem_insRangeKey {r x : Range} {l : List Range} : x ∈ insRangeKey r l ↔ x = r ∨ x ∈ l := by
  induction l with
  | nil => simp [insRangeKey]
  | cons y l ih =>
    simp only [insRangeKey]
    split
    · simp
    · split
      · rename_i _ h0
        have := (cmp_eq_zero_iff r y).1 h0
        subst this
        simp
      · simp only [List.mem_cons, ih]
        constructor
        · rintro (h | h | h)
          · exact Or.inr (Or.inl h)
          · exact Or.inl h
          · exact Or.inr (Or.inr h)
        · rintro (h | h | h)
          · exact Or.inr (Or.inl h)
          · exact Or.inl h
          · exact Or.inr (Or.inr h)

theorem insRangeKey_sorted {r : Range} {l : List Range} (h : l.Pairwise fun a b => cmp a b < 0) :
    (insRangeKey r l).Pairwise fun a b => cmp a b < 0 := by
  induction l with
  | nil => simp [insRangeKey]
  | cons y l ih =>
    rw [List.pairwise_cons] at h
    simp only [insRangeKey]
    split
    · rename_i hlt
      rw [List.pairwise_cons]
      refine ⟨?_, List.pairwise_cons.2 h⟩
      intro z hz
      rcases List.mem_cons.1 hz with rfl | hz
      · exact hlt
      · have := h.1 z hz
        rw [cmp_lt_iff] at *
        omega
    · split
      · exact List.pairwise_cons.2 h
      · rename_i h1 h2
        rw [List.pairwise_cons]
        refine ⟨?_, ih h.2⟩
        intro z hz
        rcases mem_insRangeKey.1 hz with rfl | hz
        · have h3 : ¬ (z = y) := fun e => h2 ((cmp_eq_zero_iff _ _).2 e)
          rw [cmp_lt_iff] at *
          obtain ⟨zb, ze⟩ := z
          obtain ⟨yb, ye⟩ := y
          simp only [Range.mk.injEq] at h3
          simp only at *
          omega
        · exact h.1 z hz

theorem mem_sortedKeys {ts : List (Range × Nat)} {k : Range} :
    k ∈ sortedKeys ts ↔ ∃ t ∈ ts, t.1 = k := by
  unfold sortedKeys
  induction ts with
  | nil => simp
  | cons t ts ih =>
    simp only [List.map_cons, List.foldr_cons, mem_insRangeKey, ih, List.mem_cons, exists_eq_or_imp]
    constructor
    · rintro (h | h)
      · exact Or.inl h.symm
      · exact Or.inr h
    · rintro (h | h)
      · exact Or.inl h.symm
      · exact Or.inr h

theorem sortedKeys_sorted (ts : List (Range × Nat)) :
    (sortedKeys ts).Pairwise fun a b => cmp a b < 0 := by
  unfold sortedKeys
  induction ts with
  | nil => simp
  | cons t ts ih => exact insRangeKey_sorted ih

/-- Two lists strictly increasing for `rang3.Compare` with the same elements are equal. -/
theorem sorted_unique : ∀ (l1 l2 : List Range), (l1.Pairwise fun a b => cmp a b < 0) →
    (l2.Pairwise fun a b => cmp a b < 0) → (∀ k, k ∈ l1 ↔ k ∈ l2) → l1 = l2 := by
  intro l1
  induction l1 with
  | nil =>
    intro l2 _ _ h
    cases l2 with
    | nil => rfl
    | cons y l2 => exact absurd ((h y).2 (by simp)) (by simp)
  | cons x l1 ih =>
    intro l2 h1 h2 h
    cases l2 with
    | nil => exact absurd ((h x).1 (by simp)) (by simp)
    | cons y l2 =>
      rw [List.pairwise_cons] at h1 h2
      have hirr : ∀ a : Range, ¬ cmp a a < 0 := by
        intro a ha; rw [cmp_lt_iff] at ha; omega
      have hasym : ∀ a b : Range, cmp a b < 0 → ¬ cmp b a < 0 := by
        intro a b h3 h4; rw [cmp_lt_iff] at h3 h4; omega
      have hxy : x = y := by
        rcases List.mem_cons.1 ((h x).1 (by simp)) with e | hx
        · exact e
        · rcases List.mem_cons.1 ((h y).2 (by simp)) with e | hy
          · exact e.symm
          · exact absurd (h1.1 y hy) (hasym _ _ (h2.1 x hx))
      subst hxy
      congr 1
      apply ih l2 h1.2 h2.2
      intro k
      constructor
      · intro hk
        rcases List.mem_cons.1 ((h k).1 (List.mem_cons_of_mem _ hk)) with e | hk2
        · subst e; exact absurd (h1.1 k hk) (hirr k)
        · exact hk2
      · intro hk
        rcases List.mem_cons.1 ((h k).2 (List.mem_cons_of_mem _ hk)) with e | hk2
        · subst e; exact absurd (h2.1 k hk) (hirr k)
        · exact hk2

/-- `slices.SortFunc(inputs, rang3.Compare)` is not modelled algorithm for algorithm (pdqsort): ANY
list that has the keys of the map, each once, and is ordered by `Compare` is `sortedKeys`. -/
theorem sortedKeys_unique (ts : List (Range × Nat)) (l : List Range)
    (hmem : ∀ k, k ∈ l ↔ ∃ t ∈ ts, t.1 = k) (hnodup : l.Nodup)
    (hsorted : l.Pairwise fun a b => cmp a b ≤ 0) : l = sortedKeys ts := by
  apply sorted_unique l _ _ (sortedKeys_sorted ts) (fun k => by rw [hmem, mem_sortedKeys])
  have := List.Pairwise.and hsorted hnodup
  refine this.imp ?_
  intro a b hab
  rcases Int.lt_or_eq_of_le hab.1 with h | h
  · exact h
  · exact absurd ((cmp_eq_zero_iff a b).1 h) hab.2

/-! ### The transition list of one state as a map -/

/-- What `DFA.WF` and the bounds on code points say about the transitions of one state. -/
structure TransOK (ts : List (Range × Nat)) (n : Nat) : Prop where
  det : ∀ x ∈ ts, ∀ y ∈ ts, ∀ c : Int, x.1.b ≤ c → c ≤ x.1.e → y.1.b ≤ c → c ≤ y.1.e → x = y
  valid : ∀ t ∈ ts, t.1.b ≤ t.1.e
  lo : ∀ t ∈ ts, 0 ≤ t.1.b
  hi : ∀ t ∈ ts, t.1.e ≤ Lox.Lex.maxRune
  tgt : ∀ t ∈ ts, t.2 < n

theorem TransOK.target_eq {ts : List (Range × Nat)} {n : Nat} (h : TransOK ts n)
    {t : Range × Nat} (ht : t ∈ ts) : target ts t.1 = t.2 := by
  unfold target
  cases hf : ts.find? (fun x => decide (x.1 = t.1)) with
  | none =>
    have := List.find?_eq_none.1 hf t ht
    simp at this
  | some x =>
    have hx := List.mem_of_find?_eq_some hf
    have hk := List.find?_some hf
    simp only [decide_eq_true_eq] at hk
    have hv := h.valid t ht
    have : x = t := h.det x hx t ht t.1.b (by rw [hk]; omega) (by rw [hk]; exact hv) (by omega) hv
    simp [this]

theorem castU32_id {x : Int} (h0 : 0 ≤ x) (h1 : x ≤ Lox.Lex.maxRune) : Lox.Table.castU32 x = x := by
  unfold Lox.Table.castU32
  unfold Lox.Lex.maxRune at h1
  omega

/-- The triple written for a key. -/
def keyTriple (ts : List (Range × Nat)) (k : Range) : Triple :=
  (Lox.Table.castU32 k.b, Lox.Table.castU32 k.e, (target ts k : Int))

theorem stateTriples_eq (s : DState) : stateTriples s = (sortedKeys s.trans).map (keyTriple s.trans) :=
  rfl

theorem TransOK.keyTriple_eq {ts : List (Range × Nat)} {n : Nat} (h : TransOK ts n)
    {t : Range × Nat} (ht : t ∈ ts) : keyTriple ts t.1 = (t.1.b, t.1.e, (t.2 : Int)) := by
  unfold keyTriple
  have hv := h.valid t ht
  have hl := h.lo t ht
  have hh := h.hi t ht
  rw [h.target_eq ht, castU32_id hl (by omega), castU32_id (by omega) hh]

/-- Every triple of the row is the triple of a transition. -/
theorem TransOK.mem_triples {ts : List (Range × Nat)} {n : Nat} (h : TransOK ts n) {x : Triple} :
    x ∈ (sortedKeys ts).map (keyTriple ts) ↔ ∃ t ∈ ts, x = (t.1.b, t.1.e, (t.2 : Int)) := by
  simp only [List.mem_map, mem_sortedKeys]
  constructor
  · rintro ⟨k, ⟨t, ht, rfl⟩, rfl⟩
    exact ⟨t, ht, h.keyTriple_eq ht⟩
  · rintro ⟨t, ht, rfl⟩
    exact ⟨t.1, ⟨t, ht, rfl⟩, h.keyTriple_eq ht⟩

/-- Two different keys of a deterministic state are disjoint ranges. -/
theorem TransOK.disjoint {ts : List (Range × Nat)} {n : Nat} (h : TransOK ts n)
    {x y : Range × Nat} (hx : x ∈ ts) (hy : y ∈ ts) (hne : x.1 ≠ y.1) :
    x.1.e < y.1.b ∨ y.1.e < x.1.b := by
  have hvx := h.valid x hx
  have hvy := h.valid y hy
  rcases Int.lt_or_le x.1.e y.1.b with h1 | h1
  · exact Or.inl h1
  · rcases Int.lt_or_le y.1.e x.1.b with h2 | h2
    · exact Or.inr h2
    · exfalso
      apply hne
      rcases Int.le_total x.1.b y.1.b with h3 | h3
      · exact congrArg (·.1) (h.det x hx y hy y.1.b h3 h1 (by omega) hvy)
      · exact congrArg (·.1) (h.det x hx y hy x.1.b (by omega) hvx h3 h2)

theorem sortedFrom_keys {ts : List (Range × Nat)} {n : Nat} (h : TransOK ts n) :
    ∀ (ks : List Range) (p : Int), (∀ k ∈ ks, ∃ t ∈ ts, t.1 = k) →
      (ks.Pairwise fun a b => cmp a b < 0) → (∀ k ∈ ks, p < k.b) →
      sortedFrom p (ks.map (keyTriple ts)) = true := by
  intro ks
  induction ks with
  | nil => intro p _ _ _; rfl
  | cons k ks ih =>
    intro p hmem hs hp
    obtain ⟨t, ht, hk⟩ := hmem k (by simp)
    subst hk
    rw [List.pairwise_cons] at hs
    rw [List.map_cons, h.keyTriple_eq ht]
    simp only [sortedFrom, Bool.and_eq_true, decide_eq_true_eq]
    refine ⟨⟨hp _ (by simp), h.valid t ht⟩, ?_⟩
    apply ih _ (fun k hk => hmem k (List.mem_cons_of_mem _ hk)) hs.2
    intro k' hk'
    obtain ⟨t', ht', hk2⟩ := hmem k' (List.mem_cons_of_mem _ hk')
    subst hk2
    have hc := hs.1 _ hk'
    have hne : t.1 ≠ t'.1 := by
      intro e
      have := (cmp_eq_zero_iff t.1 t'.1).2 e
      omega
    rw [cmp_lt_iff] at hc
    have hd := h.disjoint ht ht' hne
    have hv' := h.valid t' ht'
    omega

/-- The row of a state is sorted, disjoint and non-negative. -/
theorem TransOK.sorted {ts : List (Range × Nat)} {n : Nat} (h : TransOK ts n) :
    sortedFrom (-1) ((sortedKeys ts).map (keyTriple ts)) = true := by
  apply sortedFrom_keys h _ _ (fun k hk => mem_sortedKeys.1 hk) (sortedKeys_sorted ts)
  intro k hk
  obtain ⟨t, ht, rfl⟩ := mem_sortedKeys.1 hk
  have := h.lo t ht
  omega

/-- The linear lookup over the row is the transition function of the state. -/
theorem TransOK.lookup_eq {ts : List (Range × Nat)} {n : Nat} (h : TransOK ts n) (c : Int) :
    lookup ((sortedKeys ts).map (keyTriple ts)) c =
      ((ts.find? fun t => decide (t.1.b ≤ c ∧ c ≤ t.1.e)).map (·.2)).map fun q => (q : Int) := by
  have hp := (Lox.Lex.sortedFrom_spec _ _ h.sorted).2
  cases hf : ts.find? (fun t => decide (t.1.b ≤ c ∧ c ≤ t.1.e)) with
  | none =>
    simp only [Option.map_none]
    apply Lox.Lex.lookup_eq_none
    intro x hx hc
    obtain ⟨t, ht, rfl⟩ := h.mem_triples.1 hx
    have := List.find?_eq_none.1 hf t ht
    simp only [Lox.Lex.Triple.has] at hc
    simp only [decide_eq_true_eq] at this
    exact this hc
  | some t =>
    have ht := List.mem_of_find?_eq_some hf
    have hc := List.find?_some hf
    simp only [decide_eq_true_eq] at hc
    simp only [Option.map_some]
    have hx : (t.1.b, t.1.e, (t.2 : Int)) ∈ (sortedKeys ts).map (keyTriple ts) :=
      h.mem_triples.2 ⟨t, ht, rfl⟩
    exact Lox.Lex.lookup_eq_some hp hx hc

end Lox.Lex.Gen
