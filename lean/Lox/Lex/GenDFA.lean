import Lox.Lex.GenNFA
/-! Model of the lexer generator's NFA → DFA pipeline up to (not including) `optimize`
(core Lean only, executable).

* `internal/lexergen/mode/mode.go` `normalizeInputs`: the labels of all range edges are made
  pairwise equal-or-disjoint with `rang3.Normalize` (modelled and proved in `Lox/Rang3`).
* `internal/lexergen/dfa/nfa_to_dfa.go` `eClosure`, `getInputs`, `NFAToDFA`: subset construction;
  a DFA state is the sorted list of the IDs of its NFA states (`State.sig`).
* `internal/lexergen/mode/mode.go` `pickAction`: among the accepting NFA states of a DFA state the
  actions with the least source position win.

Both `eClosure` and `NFAToDFA` are the same worklist algorithm (a stack of elements still to be
expanded, a set of elements already created, an element is pushed when it is created):
`reachLoop` below. -/
namespace Lox.Lex.Gen
open Lox.Rang3 (Range NormCb normalize)

/-! ### `normalizeInputs` -/

/-- The keys of `graph` in `normalizeInputs`: all range labels of the NFA. -/
def labels (E : List Edge) : List Range := E.filterMap (·.lbl)

/-- The callback inside `normalizeInputs`, for all states that have a transition on `o` at once:
each edge labelled `o` is replaced by edges labelled `a`, `b` and (if different from `b`) `c`. -/
def relabelEdge (cb : NormCb) (ed : Edge) : List Edge :=
  if ed.lbl = some cb.o then
    { ed with lbl := some cb.a } :: { ed with lbl := some cb.b } ::
      (if cb.c ≠ cb.b then [{ ed with lbl := some cb.c }] else [])
  else [ed]

def relabelEdges (E : List Edge) (cb : NormCb) : List Edge := E.flatMap (relabelEdge cb)

/-- `normalizeInputs(start)`: `none` is the `panic("not reached")` of `rang3.Normalize`
(impossible for ranges with `b ≤ e`: `Lox.Props.C15.normalize_total`). -/
def normalizeEdges (E : List Edge) : Option (List Edge) :=
  (normalize (labels E)).map fun log => log.foldl relabelEdges E

def normalizeNFA (m : NFA) : Option NFA :=
  (normalizeEdges m.edges).map fun E => { m with edges := E }

/-! ### The worklist loop -/

/-- Elements of `ts` not yet in the created set `cl` are appended to it and pushed on the stack. -/
def pushNew {α} [DecidableEq α] (ts : List α) (st cl : List α) : List α × List α :=
  ts.foldl (fun acc t => if t ∈ acc.2 then acc else (t :: acc.1, acc.2 ++ [t])) (st, cl)

/-- Pop an element, push its not yet created successors; `none`: out of fuel. The result lists
the created elements in order of creation. -/
def reachLoop {α} [DecidableEq α] (succ : α → List α) : Nat → List α → List α → Option (List α)
  | 0, _, _ => none
  | _ + 1, [], cl => some cl
  | f + 1, s :: st, cl =>
    let r := pushNew (succ s) st cl
    reachLoop succ f r.1 r.2

/-! ### `eClosure` -/

def epsSucc (E : List Edge) (s : Nat) : List Nat :=
  E.filterMap fun ed => if ed.src = s ∧ ed.lbl = none then some ed.dst else none

/-- Sorted insertion without duplicates (`sort.Slice` by ID over the keys of the `closure` map). -/
def insNat (a : Nat) : List Nat → List Nat
  | [] => [a]
  | b :: l => if a < b then a :: b :: l else if a = b then b :: l else b :: insNat a l

def sortNat (l : List Nat) : List Nat := l.foldr insNat []

/-- Enough fuel for `eClosure`: every iteration pops an element, and an element is pushed only
when an ε edge leads to a state not yet in the closure (proved: `eclose_fuel`). -/
def ecloseFuel (E : List Edge) (S : List Nat) : Nat := S.length + E.length + 1

/-- `eClosure(nfaStates)`: the NFA states of the new DFA state, sorted by ID. -/
def eclose (E : List Edge) (S : List Nat) : List Nat :=
  let r := pushNew S [] []
  match reachLoop (epsSucc E) (ecloseFuel E r.2) r.1 r.2 with
  | some cl => sortNat cl
  | none => []  -- never happens (`eclose_fuel`)

/-! ### `NFAToDFA` -/

def dedup {α} [DecidableEq α] (l : List α) : List α :=
  l.foldl (fun acc x => if x ∈ acc then acc else acc ++ [x]) []

/-- `getInputs(from.NFAStates)`: the distinct range labels on edges leaving the states of `S`. -/
def inputs (E : List Edge) (S : List Nat) : List Range :=
  dedup (S.flatMap fun p => E.filterMap fun ed => if ed.src = p then ed.lbl else none)

/-- The `subset` built in `NFAToDFA` for one input. -/
def moveSet (E : List Edge) (S : List Nat) (a : Range) : List Nat :=
  dedup (S.flatMap fun p => E.filterMap fun ed =>
    if ed.src = p ∧ ed.lbl = some a then some ed.dst else none)

/-- The DFA states created from `S`, one per input, in input order. -/
def dfaSucc (E : List Edge) (S : List Nat) : List (List Nat) :=
  (inputs E S).map fun a => eclose E (moveSet E S a)

/-- A DFA state (`dfa.State`): `nfa` = `NFAStates`, `trans` = `Transitions` (a map keyed by the
input range, targets are state IDs = indices into `DFA.states`). -/
structure DState where
  nfa : List Nat
  trans : List (Range × Nat)
  accept : Bool
  ng : Bool
  deriving Repr, Inhabited, DecidableEq

structure DFA where
  states : List DState
  deriving Repr, Inhabited, DecidableEq

def NFA.isAcc (m : NFA) (q : Nat) : Bool := m.acc.any fun a => a.1 == q

/-- The DFA state for the NFA-state set `S`, once all sets are known (`seen`). -/
def mkDState (m : NFA) (seen : List (List Nat)) (S : List Nat) : DState :=
  { nfa := S
    trans := (inputs m.edges S).map fun a => (a, seen.idxOf (eclose m.edges (moveSet m.edges S a)))
    accept := S.any m.isAcc
    ng := S.any fun q => m.ng.contains q }

/-- `NFAToDFA` without the final `optimize`. States are numbered in order of creation (the Go code
renumbers them in `transitiveClosure` by a depth-first walk whose order depends on an unstable
sort; the harness compares up to renaming). `none`: out of fuel. -/
def subset (m : NFA) (fuel : Nat) : Option DFA :=
  let s0 := eclose m.edges [m.start]
  (reachLoop (dfaSucc m.edges) fuel [s0] [s0]).map fun seen =>
    { states := seen.map (mkDState m seen) }

/-- Default fuel: one iteration per DFA state; there are at most `2^n` of them. -/
def subsetFuel (m : NFA) : Nat := 2 ^ m.n + 1

/-! ### Running a DFA -/

def DState.next (s : DState) (c : Int) : Option Nat :=
  (s.trans.find? fun t => decide (t.1.b ≤ c ∧ c ≤ t.1.e)).map (·.2)

def DFA.step (d : DFA) (i : Nat) (c : Int) : Option Nat :=
  d.states[i]? >>= fun s => s.next c

def DFA.run (d : DFA) : Nat → List Int → Option Nat
  | i, [] => some i
  | i, c :: w => d.step i c >>= fun j => d.run j w

/-! ### `pickAction` -/

/-- The rule indices carried by the accepting NFA states of a DFA state, in the order of
`state.NFAStates` (`actionSet`). -/
def actionSet (m : NFA) (nfaStates : List Nat) : List Nat :=
  nfaStates.flatMap fun q => m.acc.filterMap fun a => if a.1 = q then some a.2 else none

/-- `pickAction` for rules of one file: the winner starts as `actionSet[0]` and is replaced by
every later candidate with a smaller position (= rule index). `none`: no accepting NFA state
(`Data = nil`). Rules from different files in one state are an error of the specification
("Conflicting lexer actions") and not modelled. -/
def pickAction (m : NFA) (nfaStates : List Nat) : Option Nat :=
  match actionSet m nfaStates with
  | [] => none
  | a :: rest => some (rest.foldl (fun w i => if i < w then i else w) a)

end Lox.Lex.Gen
