import Lox.Lex.GenDFA
import Lox.Lex.GenNFAProofs
/-! Correctness of the worklist loop, of `eClosure` and of the subset construction
(`Lox/Lex/GenDFA.lean`). -/
namespace Lox.Lex.Gen
open Lox.Rang3 (Range)

/-! ### `pushNew` and `reachLoop` -/

theorem pushNew_spec {α} [DecidableEq α] (ts : List α) : ∀ (st cl : List α),
    (∀ x, x ∈ (pushNew ts st cl).2 ↔ x ∈ cl ∨ x ∈ ts) ∧
    (∀ x, x ∈ (pushNew ts st cl).1 ↔ x ∈ st ∨ (x ∈ ts ∧ x ∉ cl)) ∧
    (∃ ext, (pushNew ts st cl).2 = cl ++ ext) ∧
    (pushNew ts st cl).1.length + cl.length = (pushNew ts st cl).2.length + st.length := by
  induction ts with
  | nil => intro st cl; simp [pushNew]; omega
  | cons t ts ih =>
    intro st cl
    by_cases ht : t ∈ cl
    · have e : pushNew (t :: ts) st cl = pushNew ts st cl := by simp [pushNew, ht]
      rw [e]
      obtain ⟨h1, h2, h3, h4⟩ := ih st cl
      refine ⟨fun x => ?_, fun x => ?_, h3, h4⟩
      · rw [h1]; simp only [List.mem_cons]; grind
      · rw [h2]; simp only [List.mem_cons]; grind
    · have e : pushNew (t :: ts) st cl = pushNew ts (t :: st) (cl ++ [t]) := by simp [pushNew, ht]
      rw [e]
      obtain ⟨h1, h2, ⟨ext, h3⟩, h4⟩ := ih (t :: st) (cl ++ [t])
      refine ⟨fun x => ?_, fun x => ?_, ⟨t :: ext, by rw [h3]; simp⟩, ?_⟩
      · rw [h1]; simp only [List.mem_append, List.mem_cons, List.not_mem_nil,
          or_false]; grind
      · rw [h2]; simp only [List.mem_append, List.mem_cons, List.not_mem_nil,
          or_false]; grind
      · simp only [List.length_append, List.length_cons, List.length_nil] at h4 ⊢; omega

/-- What the worklist loop returns: an extension of the created set that is closed under `succ`,
and nothing that an invariant `P` of `succ` excludes. -/
theorem reachLoop_spec {α} [DecidableEq α] (succ : α → List α) : ∀ (fuel : Nat) (st cl R : List α),
    reachLoop succ fuel st cl = some R → (∀ x ∈ st, x ∈ cl) →
    (∀ x ∈ cl, x ∈ st ∨ ∀ t ∈ succ x, t ∈ cl) →
    (∃ ext, R = cl ++ ext) ∧ (∀ x ∈ R, ∀ t ∈ succ x, t ∈ R) ∧
    (∀ P : α → Prop, (∀ x ∈ cl, P x) → (∀ x, P x → ∀ t ∈ succ x, P t) → ∀ x ∈ R, P x) := by
  intro fuel
  induction fuel with
  | zero => intro st cl R h; simp [reachLoop] at h
  | succ f ih =>
    intro st cl R h hst hinv
    cases st with
    | nil =>
      simp only [reachLoop, Option.some.injEq] at h
      subst h
      refine ⟨⟨[], by simp⟩, ?_, fun P hP _ => hP⟩
      intro x hx
      rcases hinv x hx with h | h
      · simp at h
      · exact h
    | cons s st =>
      simp only [reachLoop] at h
      obtain ⟨h1, h2, ⟨ext, h3⟩, _⟩ := pushNew_spec (succ s) st cl
      have hs : s ∈ cl := hst s (by simp)
      obtain ⟨⟨ext', hR⟩, hclosed, hP⟩ := ih _ _ R h
        (by
          intro x hx
          rw [h1]
          rcases (h2 x).1 hx with hx | ⟨hx, _⟩
          · exact Or.inl (hst x (by simp [hx]))
          · exact Or.inr hx)
        (by
          intro x hx
          rcases (h1 x).1 hx with hxc | hxs
          · rcases hinv x hxc with hxst | hcl
            · rcases List.mem_cons.mp hxst with rfl | hxst
              · exact Or.inr fun t ht => (h1 t).2 (Or.inr ht)
              · exact Or.inl ((h2 x).2 (Or.inl hxst))
            · exact Or.inr fun t ht => (h1 t).2 (Or.inl (hcl t ht))
          · by_cases hxc : x ∈ cl
            · rcases hinv x hxc with hxst | hcl
              · rcases List.mem_cons.mp hxst with rfl | hxst
                · exact Or.inr fun t ht => (h1 t).2 (Or.inr ht)
                · exact Or.inl ((h2 x).2 (Or.inl hxst))
              · exact Or.inr fun t ht => (h1 t).2 (Or.inl (hcl t ht))
            · exact Or.inl ((h2 x).2 (Or.inr ⟨hxs, hxc⟩)))
      refine ⟨⟨ext ++ ext', by rw [hR, h3]; simp⟩, hclosed, ?_⟩
      intro P hPcl hPs
      apply hP P _ hPs
      intro x hx
      rcases (h1 x).1 hx with hxc | hxs
      · exact hPcl x hxc
      · exact hPs s (hPcl s hs) x hxs

theorem filter_length_lt {α} (l : List α) (p q : α → Bool) (hqp : ∀ x, q x = true → p x = true)
    (t : α) (ht : t ∈ l) (hpt : p t = true) (hqt : q t = false) :
    (l.filter q).length < (l.filter p).length := by
  induction l with
  | nil => simp at ht
  | cons a l ih =>
    have hle : (l.filter q).length ≤ (l.filter p).length := by
      clear ih ht
      induction l with
      | nil => simp
      | cons b l ih2 =>
        simp only [List.filter_cons]
        by_cases hq : q b = true
        · simp [hq, hqp b hq]; exact ih2
        · simp only [hq]
          by_cases hp : p b = true
          · simp [hp]; omega
          · simpa [hp] using ih2
    rcases List.mem_cons.mp ht with rfl | ht
    · simp only [List.filter_cons, hpt, hqt]
      simp; omega
    · have := ih ht
      simp only [List.filter_cons]
      by_cases hq : q a = true
      · simp [hq, hqp a hq]; exact this
      · simp only [hq]
        by_cases hp : p a = true
        · simp [hp]; omega
        · simpa [hp] using this

theorem pushNew_measure {α} [DecidableEq α] (U : List α) (ts : List α) : ∀ (st cl : List α),
    (∀ t ∈ ts, t ∈ U) →
    (pushNew ts st cl).1.length + (U.filter fun x => decide (x ∉ (pushNew ts st cl).2)).length ≤
      st.length + (U.filter fun x => decide (x ∉ cl)).length := by
  induction ts with
  | nil => intro st cl _; simp only [pushNew, List.foldl_nil]; exact Nat.le_refl _
  | cons t ts ih =>
    intro st cl hU
    by_cases ht : t ∈ cl
    · have e : pushNew (t :: ts) st cl = pushNew ts st cl := by simp [pushNew, ht]
      rw [e]; exact ih st cl (fun x hx => hU x (by simp [hx]))
    · have e : pushNew (t :: ts) st cl = pushNew ts (t :: st) (cl ++ [t]) := by simp [pushNew, ht]
      rw [e]
      have h1 := ih (t :: st) (cl ++ [t]) (fun x hx => hU x (by simp [hx]))
      have h2 := filter_length_lt U (fun x => decide (x ∉ cl)) (fun x => decide (x ∉ cl ++ [t]))
        (by intro x hx; simp only [decide_eq_true_eq, List.mem_append, not_or] at hx ⊢; exact hx.1)
        t (hU t (by simp)) (by simpa using ht) (by simp)
      simp only [List.length_cons] at h1
      omega

/-- With a finite universe for the successors the loop ends before the fuel does. -/
theorem reachLoop_total {α} [DecidableEq α] (succ : α → List α) (U : List α)
    (hU : ∀ x, ∀ t ∈ succ x, t ∈ U) : ∀ (fuel : Nat) (st cl : List α),
    st.length + (U.filter fun x => decide (x ∉ cl)).length < fuel →
    ∃ R, reachLoop succ fuel st cl = some R := by
  intro fuel
  induction fuel with
  | zero => intro st cl h; omega
  | succ f ih =>
    intro st cl h
    cases st with
    | nil => exact ⟨cl, rfl⟩
    | cons s st =>
      simp only [reachLoop]
      apply ih
      have := pushNew_measure U (succ s) st cl (hU s)
      simp only [List.length_cons] at h
      omega

/-! ### `eClosure` -/

theorem mem_insNat (a x : Nat) (l : List Nat) : x ∈ insNat a l ↔ x = a ∨ x ∈ l := by
  induction l with
  | nil => simp [insNat]
  | cons b l ih =>
    simp only [insNat]
    split
    · simp
    · split
      · rename_i h; subst h; simp
      · simp only [List.mem_cons, ih]; grind

theorem mem_sortNat (x : Nat) (l : List Nat) : x ∈ sortNat l ↔ x ∈ l := by
  induction l with
  | nil => simp [sortNat]
  | cons a l ih =>
    have : sortNat (a :: l) = insNat a (sortNat l) := rfl
    rw [this, mem_insNat, ih]; simp

theorem insNat_sorted (a : Nat) (l : List Nat) (h : l.Pairwise (· < ·)) :
    (insNat a l).Pairwise (· < ·) := by
  induction l with
  | nil => simp [insNat]
  | cons b l ih =>
    rw [List.pairwise_cons] at h
    simp only [insNat]
    split
    · rename_i hab
      rw [List.pairwise_cons]
      refine ⟨?_, List.pairwise_cons.2 h⟩
      intro x hx
      rcases List.mem_cons.mp hx with rfl | hx
      · exact hab
      · exact Nat.lt_trans hab (h.1 x hx)
    · split
      · exact List.pairwise_cons.2 h
      · rename_i h1 h2
        rw [List.pairwise_cons]
        refine ⟨?_, ih h.2⟩
        intro x hx
        rcases (mem_insNat a x l).1 hx with rfl | hx
        · omega
        · exact h.1 x hx

/-- `eClosure` lists the NFA states in strictly increasing order of their IDs. -/
theorem sortNat_sorted (l : List Nat) : (sortNat l).Pairwise (· < ·) := by
  induction l with
  | nil => simp [sortNat]
  | cons a l ih => exact insNat_sorted a _ ih

theorem mem_epsSucc (E : List Edge) (s t : Nat) : t ∈ epsSucc E s ↔ (⟨s, none, t⟩ : Edge) ∈ E := by
  simp only [epsSucc, List.mem_filterMap]
  constructor
  · rintro ⟨ed, hed, h⟩
    split at h
    · rename_i hc
      cases h
      obtain ⟨src, lbl, dst⟩ := ed
      simp only at hc
      obtain ⟨rfl, rfl⟩ := hc
      exact hed
    · cases h
  · intro h
    exact ⟨_, h, by simp⟩

theorem pathN_eps_closed {E : List Edge} {R : List Nat}
    (hcl : ∀ x ∈ R, ∀ t ∈ epsSucc E x, t ∈ R) {k p w q} (h : PathN E k p w q) :
    w = [] → p ∈ R → q ∈ R := by
  induction h with
  | nil p => intro _ hp; exact hp
  | eps he _ ih => intro hw hp; exact ih hw (hcl _ hp _ ((mem_epsSucc E _ _).2 he))
  | chr _ _ _ _ _ => intro hw; cases hw

/-- The fuel of `eclose` is never exhausted. -/
theorem eclose_fuel (E : List Edge) (S : List Nat) :
    ∃ R, reachLoop (epsSucc E) (ecloseFuel E (pushNew S [] []).2) (pushNew S [] []).1
      (pushNew S [] []).2 = some R := by
  apply reachLoop_total (epsSucc E) (E.map (·.dst))
  · intro x t ht
    exact List.mem_map.2 ⟨_, (mem_epsSucc E x t).1 ht, rfl⟩
  · obtain ⟨_, _, _, h4⟩ := pushNew_spec S ([] : List Nat) []
    have := List.length_filter_le (fun x => decide (x ∉ (pushNew S [] []).2)) (E.map (·.dst))
    simp only [List.length_map, List.length_nil] at this h4
    simp only [ecloseFuel]
    omega

/-- **`eClosure` is the ε-closure**: the states reachable from `S` by ε edges. -/
theorem mem_eclose (E : List Edge) (S : List Nat) (q : Nat) :
    q ∈ eclose E S ↔ ∃ p ∈ S, Path E p [] q := by
  obtain ⟨R, hR⟩ := eclose_fuel E S
  obtain ⟨h1, h2, _, _⟩ := pushNew_spec S ([] : List Nat) []
  have hmem : ∀ x, x ∈ (pushNew S [] []).2 ↔ x ∈ S := by intro x; rw [h1]; simp
  have hmem1 : ∀ x, x ∈ (pushNew S [] []).1 ↔ x ∈ S := by intro x; rw [h2]; simp
  obtain ⟨⟨ext, hext⟩, hclosed, hP⟩ := reachLoop_spec (epsSucc E) _ _ _ R hR
    (fun x hx => (hmem x).2 ((hmem1 x).1 hx)) (fun x hx => Or.inl ((hmem1 x).2 ((hmem x).1 hx)))
  have he : eclose E S = sortNat R := by simp only [eclose, hR]
  rw [he, mem_sortNat]
  constructor
  · intro hq
    refine hP (fun x => ∃ p ∈ S, Path E p [] x) ?_ ?_ q hq
    · intro x hx; exact ⟨x, (hmem x).1 hx, Path.refl E x⟩
    · rintro x ⟨p, hp, hpath⟩ t ht
      exact ⟨p, hp, by simpa using hpath.trans (Path.eps_edge ((mem_epsSucc E x t).1 ht))⟩
  · rintro ⟨p, hp, k, hk⟩
    have hpR : p ∈ R := by rw [hext]; exact List.mem_append_left _ ((hmem p).2 hp)
    exact pathN_eps_closed hclosed hk rfl hpR

theorem eclose_sorted (E : List Edge) (S : List Nat) : (eclose E S).Pairwise (· < ·) := by
  simp only [eclose]
  split
  · exact sortNat_sorted _
  · simp


/-! ### Subset construction -/

theorem mem_dedup_aux {α} [DecidableEq α] (l : List α) : ∀ (acc : List α) (x : α),
    x ∈ l.foldl (fun acc x => if x ∈ acc then acc else acc ++ [x]) acc ↔ x ∈ acc ∨ x ∈ l := by
  induction l with
  | nil => intro acc x; simp
  | cons a l ih =>
    intro acc x
    simp only [List.foldl_cons, ih, List.mem_cons]
    split
    · rename_i h; constructor
      · rintro (h1 | h1)
        · exact Or.inl h1
        · exact Or.inr (Or.inr h1)
      · rintro (h1 | rfl | h1)
        · exact Or.inl h1
        · exact Or.inl h
        · exact Or.inr h1
    · simp only [List.mem_append, List.mem_singleton]; grind

theorem mem_dedup {α} [DecidableEq α] (l : List α) (x : α) : x ∈ dedup l ↔ x ∈ l := by
  simp [dedup, mem_dedup_aux]

theorem mem_inputs (E : List Edge) (S : List Nat) (a : Range) :
    a ∈ inputs E S ↔ ∃ ed ∈ E, ed.src ∈ S ∧ ed.lbl = some a := by
  simp only [inputs, mem_dedup, List.mem_flatMap, List.mem_filterMap]
  constructor
  · rintro ⟨p, hp, ed, hed, h⟩
    split at h
    · rename_i hs; exact ⟨ed, hed, hs ▸ hp, h⟩
    · cases h
  · rintro ⟨ed, hed, hs, hl⟩
    exact ⟨ed.src, hs, ed, hed, by simp [hl]⟩

theorem mem_moveSet (E : List Edge) (S : List Nat) (a : Range) (q : Nat) :
    q ∈ moveSet E S a ↔ ∃ p ∈ S, (⟨p, some a, q⟩ : Edge) ∈ E := by
  simp only [moveSet, mem_dedup, List.mem_flatMap, List.mem_filterMap]
  constructor
  · rintro ⟨p, hp, ed, hed, h⟩
    split at h
    · rename_i hc
      cases h
      obtain ⟨src, lbl, dst⟩ := ed
      simp only at hc
      obtain ⟨rfl, rfl⟩ := hc
      exact ⟨_, hp, hed⟩
    · cases h
  · rintro ⟨p, hp, hed⟩
    exact ⟨p, hp, _, hed, by simp⟩

/-- After `normalizeInputs`: two labels that share a code point are the same label. -/
def PD (E : List Edge) : Prop :=
  ∀ e1 ∈ E, ∀ e2 ∈ E, ∀ (a b : Range) (c : Int), e1.lbl = some a → e2.lbl = some b →
    a.b ≤ c → c ≤ a.e → b.b ≤ c → c ≤ b.e → a = b

/-- The NFA run lifted to sets: `q` is reachable from some state of `S` reading `w`. -/
def Reach (E : List Edge) (S : List Nat) (w : List Int) (q : Nat) : Prop := ∃ p ∈ S, Path E p w q

def EpsClosed (E : List Edge) (S : List Nat) : Prop := ∀ p ∈ S, ∀ q, Path E p [] q → q ∈ S

theorem eclose_epsClosed (E : List Edge) (S : List Nat) : EpsClosed E (eclose E S) := by
  intro p hp q hq
  obtain ⟨p0, hp0, h0⟩ := (mem_eclose E S p).1 hp
  exact (mem_eclose E S q).2 ⟨p0, hp0, by simpa using h0.trans hq⟩

theorem pathN_cons_inv {E : List Edge} {k p w q} (h : PathN E k p w q) :
    ∀ c w', w = c :: w' → ∃ p' rg q', Path E p [] p' ∧ (⟨p', some rg, q'⟩ : Edge) ∈ E ∧
      rg.b ≤ c ∧ c ≤ rg.e ∧ Path E q' w' q := by
  induction h with
  | nil p => intro c w' h; cases h
  | eps he _ ih =>
    intro c w' hw
    obtain ⟨p', rg, q', h1, h2, h3, h4, h5⟩ := ih c w' hw
    exact ⟨p', rg, q', Path.eps he h1, h2, h3, h4, h5⟩
  | @chr k p q0 r rg c0 w0 he h1 h2 hp _ =>
    intro c w' hw
    cases hw
    exact ⟨p, rg, q0, Path.refl E p, he, h1, h2, ⟨k, hp⟩⟩

theorem reach_nil {E : List Edge} {S : List Nat} (hS : EpsClosed E S) (q : Nat) :
    Reach E S [] q ↔ q ∈ S :=
  ⟨fun ⟨p, hp, h⟩ => hS p hp q h, fun h => ⟨q, h, Path.refl E q⟩⟩

/-- One step of the subset construction is one step of the lifted NFA run. -/
theorem reach_step {E : List Edge} (hPD : PD E) {S : List Nat} (hS : EpsClosed E S) (a : Range)
    (ha : a ∈ inputs E S) (c : Int) (h1 : a.b ≤ c) (h2 : c ≤ a.e) (w : List Int) (q : Nat) :
    Reach E S (c :: w) q ↔ Reach E (eclose E (moveSet E S a)) w q := by
  constructor
  · rintro ⟨p, hp, k, hk⟩
    obtain ⟨p', rg, q', hp', hed, hb, he, hq'⟩ := pathN_cons_inv hk c w rfl
    obtain ⟨ed2, hed2, _, hl2⟩ := (mem_inputs E S a).1 ha
    have : rg = a := hPD _ hed _ hed2 rg a c rfl hl2 hb he h1 h2
    subst this
    have hp'S : p' ∈ S := hS p hp p' hp'
    exact ⟨q', (mem_eclose E _ q').2 ⟨q', (mem_moveSet E S rg q').2 ⟨p', hp'S, hed⟩, Path.refl E q'⟩,
      hq'⟩
  · rintro ⟨p0, hp0, hpath⟩
    obtain ⟨q', hq', h0⟩ := (mem_eclose E _ p0).1 hp0
    obtain ⟨p, hp, hed⟩ := (mem_moveSet E S a q').1 hq'
    exact ⟨p, hp, Path.chr hed h1 h2 (by simpa using h0.trans hpath)⟩

theorem reach_dead {E : List Edge} {S : List Nat} (hS : EpsClosed E S) (c : Int)
    (hno : ∀ a ∈ inputs E S, ¬ (a.b ≤ c ∧ c ≤ a.e)) (w : List Int) (q : Nat) :
    ¬ Reach E S (c :: w) q := by
  rintro ⟨p, hp, k, hk⟩
  obtain ⟨p', rg, q', hp', hed, hb, he, _⟩ := pathN_cons_inv hk c w rfl
  exact hno rg ((mem_inputs E S rg).2 ⟨_, hed, hS p hp p' hp', rfl⟩) ⟨hb, he⟩

theorem next_mkDState (m : NFA) (seen : List (List Nat)) (S : List Nat) (c : Int) :
    (mkDState m seen S).next c =
      ((inputs m.edges S).find? fun a => decide (a.b ≤ c ∧ c ≤ a.e)).map
        fun a => seen.idxOf (eclose m.edges (moveSet m.edges S a)) := by
  simp only [DState.next, mkDState, List.find?_map, Option.map_map]
  rfl

/-- The invariant of a finished exploration: the start set is first, every set is ε-closed, and
the successors of every set are present. -/
structure Explored (E : List Edge) (start : Nat) (seen : List (List Nat)) : Prop where
  first : seen[0]? = some (eclose E [start])
  closed : ∀ S ∈ seen, EpsClosed E S
  nonempty : ∀ S ∈ seen, S ≠ []
  succ : ∀ S ∈ seen, ∀ T ∈ dfaSucc E S, T ∈ seen

theorem explored_of_reachLoop (E : List Edge) (start fuel : Nat) (seen : List (List Nat))
    (h : reachLoop (dfaSucc E) fuel [eclose E [start]] [eclose E [start]] = some seen) :
    Explored E start seen := by
  obtain ⟨⟨ext, hext⟩, hsucc, hP⟩ := reachLoop_spec (dfaSucc E) fuel _ _ seen h
    (fun x hx => hx) (fun x hx => Or.inl hx)
  have hboth : ∀ S ∈ seen, EpsClosed E S ∧ S ≠ [] := by
    refine hP (fun S => EpsClosed E S ∧ S ≠ []) ?_ ?_
    · intro x hx
      simp only [List.mem_singleton] at hx
      subst hx
      refine ⟨eclose_epsClosed E _, ?_⟩
      have : start ∈ eclose E [start] := (mem_eclose E _ _).2 ⟨start, by simp, Path.refl E start⟩
      intro h; rw [h] at this; simp at this
    · intro x _ t ht
      simp only [dfaSucc, List.mem_map] at ht
      obtain ⟨a, ha, rfl⟩ := ht
      refine ⟨eclose_epsClosed E _, ?_⟩
      obtain ⟨ed, hed, hs, hl⟩ := (mem_inputs E x a).1 ha
      have hm : ed.dst ∈ moveSet E x a := by
        refine (mem_moveSet E x a ed.dst).2 ⟨ed.src, hs, ?_⟩
        obtain ⟨s0, l0, d0⟩ := ed
        simp only at hl; subst hl; exact hed
      have : ed.dst ∈ eclose E (moveSet E x a) :=
        (mem_eclose E _ _).2 ⟨_, hm, Path.refl E _⟩
      intro h; rw [h] at this; simp at this
  exact ⟨by rw [hext]; simp, fun S hS => (hboth S hS).1, fun S hS => (hboth S hS).2, hsucc⟩

/-- **The subset construction is correct**: from the DFA state of the set `S`, the run on `w`
ends in the state of exactly the NFA states reachable from `S` by `w`; it is undefined iff there
are none. -/
theorem run_explored (m : NFA) (hPD : PD m.edges) (seen : List (List Nat))
    (hex : Explored m.edges m.start seen) :
    ∀ (w : List Int) (i : Nat) (S : List Nat), seen[i]? = some S →
      (∀ j, (DFA.mk (seen.map (mkDState m seen))).run i w = some j →
        ∃ T, seen[j]? = some T ∧ ∀ q, q ∈ T ↔ Reach m.edges S w q) ∧
      ((DFA.mk (seen.map (mkDState m seen))).run i w = none → ∀ q, ¬ Reach m.edges S w q) := by
  intro w
  induction w with
  | nil =>
    intro i S hS
    have hcl := hex.closed S (List.mem_of_getElem? hS)
    refine ⟨?_, by simp [DFA.run]⟩
    intro j hj
    simp only [DFA.run, Option.some.injEq] at hj
    subst hj
    exact ⟨S, hS, fun q => (reach_nil hcl q).symm⟩
  | cons c w ih =>
    intro i S hS
    have hSm := List.mem_of_getElem? hS
    have hcl := hex.closed S hSm
    have hstep : (DFA.mk (seen.map (mkDState m seen))).step i c =
        ((inputs m.edges S).find? fun a => decide (a.b ≤ c ∧ c ≤ a.e)).map
          fun a => seen.idxOf (eclose m.edges (moveSet m.edges S a)) := by
      simp only [DFA.step, List.getElem?_map, hS, Option.map_some, Option.bind_eq_bind,
        Option.bind_some, next_mkDState]
    cases hf : (inputs m.edges S).find? fun a => decide (a.b ≤ c ∧ c ≤ a.e) with
    | none =>
      have hno : ∀ a ∈ inputs m.edges S, ¬ (a.b ≤ c ∧ c ≤ a.e) := by
        intro a ha
        have := List.find?_eq_none.1 hf a ha
        simpa using this
      have hrun : (DFA.mk (seen.map (mkDState m seen))).run i (c :: w) = none := by
        simp only [DFA.run, hstep, hf, Option.map_none, Option.bind_eq_bind, Option.bind_none]
      refine ⟨fun j hj => (by rw [hrun] at hj; cases hj), fun _ q => reach_dead hcl c hno w q⟩
    | some a =>
      have ha : a ∈ inputs m.edges S := List.mem_of_find?_eq_some hf
      have hc : a.b ≤ c ∧ c ≤ a.e := by simpa using List.find?_some hf
      have hT : eclose m.edges (moveSet m.edges S a) ∈ seen :=
        hex.succ S hSm _ (List.mem_map.2 ⟨a, ha, rfl⟩)
      have hidx := List.idxOf_lt_length_of_mem hT
      have hget : seen[seen.idxOf (eclose m.edges (moveSet m.edges S a))]? =
          some (eclose m.edges (moveSet m.edges S a)) := by
        rw [List.getElem?_eq_getElem hidx, List.getElem_idxOf hidx]
      have hrun : (DFA.mk (seen.map (mkDState m seen))).run i (c :: w) =
          (DFA.mk (seen.map (mkDState m seen))).run
            (seen.idxOf (eclose m.edges (moveSet m.edges S a))) w := by
        simp only [DFA.run, hstep, hf, Option.map_some, Option.bind_eq_bind, Option.bind_some]
      obtain ⟨ih1, ih2⟩ := ih _ _ hget
      rw [hrun]
      refine ⟨?_, ?_⟩
      · intro j hj
        obtain ⟨T, hT1, hT2⟩ := ih1 j hj
        exact ⟨T, hT1, fun q => (hT2 q).trans (reach_step hPD hcl a ha c hc.1 hc.2 w q).symm⟩
      · intro hn q hq
        exact ih2 hn q ((reach_step hPD hcl a ha c hc.1 hc.2 w q).1 hq)

/-- **`subset_correct`**: for an NFA whose labels are pairwise equal or disjoint (what
`normalizeInputs` establishes), the DFA of `NFAToDFA` (before `optimize`) run on `w` from state 0
reaches the state whose NFA states are exactly those the NFA can be in after `w`; the run is
undefined iff the NFA cannot read `w`. -/
theorem subset_correct (m : NFA) (hPD : PD m.edges) (fuel : Nat) (d : DFA)
    (h : subset m fuel = some d) (w : List Int) :
    (∀ j, d.run 0 w = some j → ∃ s, d.states[j]? = some s ∧
      (∀ q, q ∈ s.nfa ↔ Path m.edges m.start w q) ∧ s.nfa.Pairwise (· < ·) ∧ s.nfa ≠ []) ∧
    (d.run 0 w = none → ∀ q, ¬ Path m.edges m.start w q) := by
  simp only [subset, Option.map_eq_some_iff] at h
  obtain ⟨seen, hseen, rfl⟩ := h
  have hex := explored_of_reachLoop m.edges m.start fuel seen hseen
  obtain ⟨h1, h2⟩ := run_explored m hPD seen hex w 0 _ hex.first
  have hstart : ∀ q, Reach m.edges (eclose m.edges [m.start]) w q ↔ Path m.edges m.start w q := by
    intro q
    constructor
    · rintro ⟨p, hp, hpath⟩
      obtain ⟨p0, hp0, h0⟩ := (mem_eclose m.edges _ p).1 hp
      simp only [List.mem_singleton] at hp0
      subst hp0
      simpa using h0.trans hpath
    · intro hpath
      exact ⟨m.start, (mem_eclose m.edges _ _).2 ⟨_, by simp, Path.refl _ _⟩, hpath⟩
  have hsorted : ∀ T ∈ seen, T.Pairwise (· < ·) := by
    obtain ⟨_, _, hP⟩ := reachLoop_spec (dfaSucc m.edges) fuel _ _ seen hseen
      (fun x hx => hx) (fun x hx => Or.inl hx)
    refine hP (fun T => T.Pairwise (· < ·)) ?_ ?_
    · intro x hx
      simp only [List.mem_singleton] at hx
      subst hx; exact eclose_sorted _ _
    · intro x _ t ht
      simp only [dfaSucc, List.mem_map] at ht
      obtain ⟨a, _, rfl⟩ := ht
      exact eclose_sorted _ _
  refine ⟨?_, fun hn q hq => h2 hn q ((hstart q).2 hq)⟩
  intro j hj
  obtain ⟨T, hT1, hT2⟩ := h1 j hj
  refine ⟨mkDState m seen T, by simp [List.getElem?_map, hT1], ?_, ?_, ?_⟩
  · intro q; simp only [mkDState]; exact (hT2 q).trans (hstart q)
  · simp only [mkDState]; exact hsorted T (List.mem_of_getElem? hT1)
  · simp only [mkDState]; exact hex.nonempty T (List.mem_of_getElem? hT1)

end Lox.Lex.Gen
