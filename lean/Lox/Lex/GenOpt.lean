import Lox.Lex.GenDFA
import Lox.Rang3.Model
/-! Model of `internal/lexergen/dfa/optimize.go` (`optimize`, `subPartition`) and of the last steps
of `mode.ModeBuilder.Build` (`splitStartState`, `mergeTransitions`, `pickAction` per state).
Core Lean only, executable. -/
namespace Lox.Lex.Gen
open Lox.Rang3 (Range flatten)

/-- `partitions`: group index ↦ the states of the group in insertion order (`groupToState` is a
map of insertion-ordered sets; `stateToGroup` is the inverse). -/
abbrev Groups := List (List Nat)

/-- `GetStateGroup(s)`. A state without a group answers `gs.length` (the Go code panics in
`assert.True(ok)`; `optimize` below checks `covers` first and reports that panic). -/
def groupIdx (gs : Groups) (s : Nat) : Nat := gs.findIdx fun g => decide (s ∈ g)

def DFA.trans (d : DFA) (s : Nat) : List (Range × Nat) := (d.states[s]?.map (·.trans)).getD []

/-- `transitionGroup(s, input)`; `none` is the `-1` of a missing transition. -/
def tgroup (d : DFA) (gs : Groups) (s : Nat) (a : Range) : Option Nat :=
  ((d.trans s).find? fun t => t.1 = a).map fun t => groupIdx gs t.2

/-- `acceptingNFAStates(s)`. -/
def accNFA (m : NFA) (d : DFA) (s : Nat) : List Nat :=
  ((d.states[s]?.map (·.nfa)).getD []).filter m.isAcc

def DFA.accept (d : DFA) (s : Nat) : Bool := (d.states[s]?.map (·.accept)).getD false

def sameSet (a b : List Nat) : Bool := a.all (b.contains ·) && b.all (a.contains ·)

/-- The test in `subPartition` that puts `s` into `move` (relative to the first state of its group). -/
def differs (m : NFA) (d : DFA) (gs : Groups) (ins : List Range) (first s : Nat) : Bool :=
  ins.any (fun a => tgroup d gs first a != tgroup d gs s a) ||
    (d.accept first && !sameSet (accNFA m d first) (accNFA m d s))

/-- `subPartition(p, group)`. -/
def subPartition (m : NFA) (d : DFA) (gs : Groups) (gi : Nat) : Groups :=
  match gs[gi]? with
  | none => gs
  | some [] => gs
  | some (first :: rest) =>
    let ins := (first :: rest).flatMap fun s => (d.trans s).map (·.1)
    let move := rest.filter fun s => differs m d gs ins first s
    if move.isEmpty then gs
    else gs.set gi (first :: rest.filter fun s => !differs m d gs ins first s) ++ [move]

/-- One pass of the `for i := 0; i < pcount; i++` loop. -/
def refinePass (m : NFA) (d : DFA) (gs : Groups) : Groups :=
  (List.range gs.length).foldl (subPartition m d) gs

/-- `for pcount != p.Count()`: passes until one of them creates no group. `none`: out of fuel. -/
def refineLoop (m : NFA) (d : DFA) : Nat → Groups → Option Groups
  | 0, _ => none
  | f + 1, gs =>
    let gs' := refinePass m d gs
    if gs'.length = gs.length then some gs' else refineLoop m d f gs'

/-- `stablemap.Map.Put`. -/
def putTrans (l : List (Range × Nat)) (a : Range) (t : Nat) : List (Range × Nat) :=
  if l.any (fun p => p.1 = a) then l.map fun p => if p.1 = a then (a, t) else p else l ++ [(a, t)]

/-- The swap `newStates[0], newStates[startGroup] = newStates[startGroup], newStates[0]` as a map
on indices (an involution). -/
def swap0 (sg i : Nat) : Nat := if i = 0 then sg else if i = sg then 0 else i

/-- The merged state of group `g` (before the swap; targets are group indices). -/
def groupState (d : DFA) (gs : Groups) (g : Nat) : DState :=
  let members := gs.getD g []
  { nfa := members.flatMap fun s => (d.states[s]?.map (·.nfa)).getD []
    accept := members.any fun s => d.accept s
    ng := members.any fun s => (d.states[s]?.map (·.ng)).getD false
    trans :=
      -- `for _, s := range d.States { … fromState.AddTransition(toState, input) }`
      ((List.range d.states.length).filter fun s => groupIdx gs s = g).foldl
        (fun l s => (d.trans s).foldl (fun l t => putTrans l t.1 (groupIdx gs t.2)) l) [] }

/-- The DFA of the groups, group of state 0 first. -/
def quotient (d : DFA) (gs : Groups) : DFA :=
  let sg := groupIdx gs 0
  { states := (List.range gs.length).map fun i =>
      let st := groupState d gs (swap0 sg i)
      { st with trans := st.trans.map fun t => (t.1, swap0 sg t.2) } }

inductive OptRes where
  | ok (d : DFA)
  | panic (msg : String)
  | fuel
  deriving Repr, DecidableEq

/-- Every state and every transition target has a group (otherwise `GetStateGroup` panics). -/
def covers (d : DFA) (gs : Groups) : Bool :=
  (List.range d.states.length).all fun s =>
    groupIdx gs s < gs.length && (d.trans s).all fun t => groupIdx gs t.2 < gs.length

/-- `optimize(d)`. -/
def optimize (m : NFA) (d : DFA) : OptRes :=
  let ids := List.range d.states.length
  let nonacc := ids.filter fun s => !d.accept s
  let acc := ids.filter fun s => d.accept s
  -- `p.Count() < 2`
  if nonacc.isEmpty || acc.isEmpty then .ok d
  else
    match refineLoop m d (d.states.length + 1) [nonacc, acc] with
    | none => .fuel
    | some gs => if covers d gs then .ok (quotient d gs) else .panic "GetStateGroup"

/-- Transitions into state 0 are redirected to state `k`. -/
def redirect (k : Nat) (s : DState) : DState :=
  { s with trans := s.trans.map fun t => (t.1, if t.2 = 0 then k else t.2) }

/-- `splitStartState(d)`: if some transition leads to the start state, a copy of the start state
(same `Accept`, `NonGreedy`, `NFAStates`, same transitions) is appended and every transition into
state 0 — of every state, the copy included — is redirected to the copy. -/
def splitStart (d : DFA) : DFA :=
  match d.states[0]? with
  | none => d
  | some start =>
    if d.states.any (fun s => s.trans.any fun t => t.2 = 0) then
      { states := (d.states ++ [start]).map (redirect d.states.length) }
    else d

/-- `mergeTransitions` for one state: for every target with more than one input, the inputs are
replaced by `rang3.Flatten` of them (the effect of the `onChange` callbacks:
`Lox.Props.C15.merge_sound`). Targets keep the order of their first transition. -/
def mergeState (s : DState) : DState :=
  let tgts := dedup (s.trans.map (·.2))
  { s with trans := tgts.flatMap fun q =>
      let ins := (s.trans.filter fun t => t.2 = q).map (·.1)
      (if ins.length > 1 then flatten ins else ins).map fun r => (r, q) }

def mergeTransitions (d : DFA) : DFA := { states := d.states.map mergeState }

/-- What `ModeBuilder.Build` computes for a mode: `none` for the panic of `rang3.Normalize` /
out of fuel in the subset construction. -/
def buildDFA (m : NFA) : Option OptRes :=
  (normalizeNFA m).bind fun m' =>
    (subset m' (subsetFuel m')).map fun d =>
      match optimize m' d with
      | .ok d' => .ok (mergeTransitions (splitStart d'))
      | r => r

end Lox.Lex.Gen
