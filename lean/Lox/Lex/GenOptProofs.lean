import Lox.Lex.GenOpt
import Lox.Lex.GenLabelProofs
/-! Correctness of `optimize` (partition refinement as written in
`internal/lexergen/dfa/optimize.go`): the quotient automaton accepts, labels and dies on exactly
the same words. -/
namespace Lox.Lex.Gen
open Lox.Rang3 (Range)

/-! ### Well-formed DFAs and their steps -/

/-- What the subset construction guarantees and every later step preserves: targets are states,
two transitions of a state that share a code point are the same transition, labels are written
`lo ≤ hi`. -/
structure DFA.WF (d : DFA) : Prop where
  tgt : ∀ s t, t ∈ d.trans s → t.2 < d.states.length
  det : ∀ s x y (c : Int), x ∈ d.trans s → y ∈ d.trans s → x.1.b ≤ c → c ≤ x.1.e →
    y.1.b ≤ c → c ≤ y.1.e → x = y
  valid : ∀ s t, t ∈ d.trans s → t.1.b ≤ t.1.e

theorem DFA.trans_of_get {d : DFA} {s : Nat} {st : DState} (h : d.states[s]? = some st) :
    d.trans s = st.trans := by simp [DFA.trans, h]

theorem DFA.trans_of_none {d : DFA} {s : Nat} (h : d.states[s]? = none) : d.trans s = [] := by
  simp [DFA.trans, h]

theorem DFA.step_eq (d : DFA) (s : Nat) (c : Int) :
    d.step s c = ((d.trans s).find? fun t => decide (t.1.b ≤ c ∧ c ≤ t.1.e)).map (·.2) := by
  cases h : d.states[s]? with
  | none => simp [DFA.step, h, DFA.trans_of_none h]
  | some st => simp [DFA.step, h, DFA.trans_of_get h, DState.next]

theorem DFA.step_some_iff {d : DFA} (hwf : d.WF) (s : Nat) (c : Int) (t : Nat) :
    d.step s c = some t ↔ ∃ a, (a, t) ∈ d.trans s ∧ a.b ≤ c ∧ c ≤ a.e := by
  rw [DFA.step_eq]
  constructor
  · intro h
    simp only [Option.map_eq_some_iff] at h
    obtain ⟨⟨a, t'⟩, hf, rfl⟩ := h
    have hp := List.find?_some hf
    simp only [decide_eq_true_eq] at hp
    exact ⟨a, List.mem_of_find?_eq_some hf, hp.1, hp.2⟩
  · rintro ⟨a, hm, h1, h2⟩
    cases hf : (d.trans s).find? fun t => decide (t.1.b ≤ c ∧ c ≤ t.1.e) with
    | none =>
      have := List.find?_eq_none.1 hf (a, t) hm
      simp at this; omega
    | some x =>
      have hp := List.find?_some hf
      simp only [decide_eq_true_eq] at hp
      have := hwf.det s x (a, t) c (List.mem_of_find?_eq_some hf) hm hp.1 hp.2 h1 h2
      subst this; rfl

theorem DFA.step_none_iff (d : DFA) (s : Nat) (c : Int) :
    d.step s c = none ↔ ∀ x ∈ d.trans s, ¬ (x.1.b ≤ c ∧ c ≤ x.1.e) := by
  rw [DFA.step_eq]
  simp only [Option.map_eq_none_iff, List.find?_eq_none, decide_eq_true_eq]

theorem tgroup_some_iff {d : DFA} (hwf : d.WF) (gs : Groups) (s : Nat) (a : Range) (g : Nat) :
    tgroup d gs s a = some g ↔ ∃ t, (a, t) ∈ d.trans s ∧ g = groupIdx gs t := by
  unfold tgroup
  constructor
  · intro h
    simp only [Option.map_eq_some_iff] at h
    obtain ⟨⟨a', t⟩, hf, rfl⟩ := h
    have hp := List.find?_some hf
    simp only [decide_eq_true_eq] at hp
    subst hp
    exact ⟨t, List.mem_of_find?_eq_some hf, rfl⟩
  · rintro ⟨t, hm, rfl⟩
    cases hf : (d.trans s).find? fun x => decide (x.1 = a) with
    | none =>
      have := List.find?_eq_none.1 hf (a, t) hm
      simp at this
    | some x =>
      have hp := List.find?_some hf
      simp only [decide_eq_true_eq] at hp
      have hv := hwf.valid s (a, t) hm
      have hx := List.mem_of_find?_eq_some hf
      have := hwf.det s x (a, t) a.b hx hm (by rw [hp]; exact Int.le_refl _) (by rw [hp]; exact hv)
        (Int.le_refl _) hv
      subst this; rfl

theorem tgroup_none_iff (d : DFA) (gs : Groups) (s : Nat) (a : Range) :
    tgroup d gs s a = none ↔ ∀ t, (a, t) ∉ d.trans s := by
  unfold tgroup
  simp only [Option.map_eq_none_iff, List.find?_eq_none, decide_eq_true_eq]
  constructor
  · intro h t hm; exact h (a, t) hm rfl
  · intro h x hx hxa
    obtain ⟨a', t⟩ := x
    simp only at hxa; subst hxa
    exact h t hx

/-! ### Partitions -/

/-- Invariant of `partitions` during `optimize`: a state is in at most one group, and the states of
a group agree on `Accept`. -/
structure PartInv (d : DFA) (gs : Groups) : Prop where
  disj : ∀ (g g' : Nat) (G G' : List Nat) (s : Nat), gs[g]? = some G → gs[g']? = some G' → s ∈ G → s ∈ G' → g = g'
  acc : ∀ G ∈ gs, ∀ s ∈ G, ∀ s' ∈ G, d.accept s = d.accept s'

theorem groupIdx_of_mem {gs : Groups} {d : DFA} (hinv : PartInv d gs) {g : Nat} {G : List Nat}
    (hG : gs[g]? = some G) {s : Nat} (hs : s ∈ G) : groupIdx gs s = g := by
  have hex : ∃ x ∈ gs, decide (s ∈ x) = true := ⟨G, List.mem_of_getElem? hG, by simpa using hs⟩
  have hlt := List.findIdx_lt_length_of_exists hex
  have hp := List.findIdx_getElem (w := hlt)
  simp only [decide_eq_true_eq] at hp
  exact hinv.disj _ _ _ _ s (List.getElem?_eq_getElem hlt) hG hp hs

theorem mem_of_groupIdx_lt {gs : Groups} {s : Nat} (h : groupIdx gs s < gs.length) :
    ∃ G, gs[groupIdx gs s]? = some G ∧ s ∈ G := by
  have hp := List.findIdx_getElem (w := h)
  simp only [decide_eq_true_eq] at hp
  exact ⟨_, List.getElem?_eq_getElem h, hp⟩

/-- The labels `subPartition` looks at for a group. -/
def groupIns (d : DFA) (G : List Nat) : List Range := G.flatMap fun s => (d.trans s).map (·.1)

/-- Group `gi` needs no split: no state of it differs from its first state. -/
def StableAt (m : NFA) (d : DFA) (gs : Groups) (gi : Nat) : Prop :=
  ∀ first rest, gs[gi]? = some (first :: rest) →
    ∀ s ∈ rest, differs m d gs (groupIns d (first :: rest)) first s = false

theorem sameSet_refl (a : List Nat) : sameSet a a = true := by
  simp [sameSet]

theorem differs_self (m : NFA) (d : DFA) (gs : Groups) (ins : List Range) (s : Nat) :
    differs m d gs ins s s = false := by
  simp [differs, sameSet_refl]

/-- `subPartition` either changes nothing (and then the group is stable) or appends one group. -/
theorem subPartition_cases (m : NFA) (d : DFA) (gs : Groups) (gi : Nat) :
    (subPartition m d gs gi = gs ∧ StableAt m d gs gi) ∨
    (subPartition m d gs gi).length = gs.length + 1 := by
  unfold subPartition
  cases h : gs[gi]? with
  | none => left; exact ⟨rfl, fun f r hfr => by rw [h] at hfr; cases hfr⟩
  | some G =>
    cases G with
    | nil => left; exact ⟨rfl, fun f r hfr => by rw [h] at hfr; cases hfr⟩
    | cons first rest =>
      simp only
      split
      · rename_i hmove
        left
        refine ⟨rfl, ?_⟩
        intro f r hfr s hs
        rw [h] at hfr
        simp only [Option.some.injEq, List.cons.injEq] at hfr
        obtain ⟨rfl, rfl⟩ := hfr
        simp only [List.isEmpty_iff] at hmove
        have := List.filter_eq_nil_iff.1 hmove s hs
        simpa [groupIns] using this
      · right; simp

theorem subPartition_inv (m : NFA) (d : DFA) (gs : Groups) (gi : Nat) (hinv : PartInv d gs) :
    PartInv d (subPartition m d gs gi) := by
  unfold subPartition
  cases h : gs[gi]? with
  | none => exact hinv
  | some G =>
    cases G with
    | nil => exact hinv
    | cons first rest =>
      simp only
      split
      · exact hinv
      · -- the group is split into `keep` and `move`
        have hgi : gi < gs.length := by
          rcases Nat.lt_or_ge gi gs.length with h' | h'
          · exact h'
          · rw [List.getElem?_eq_none h'] at h; cases h
        generalize hins : ((first :: rest).flatMap fun s => (d.trans s).map (·.1)) = ins
        -- membership in the new groups
        have hget : ∀ g G', (gs.set gi (first :: rest.filter fun s => !differs m d gs ins first s) ++
            [rest.filter fun s => differs m d gs ins first s])[g]? = some G' →
            (g ≠ gi ∧ g < gs.length ∧ gs[g]? = some G') ∨
            (g = gi ∧ G' = first :: rest.filter fun s => !differs m d gs ins first s) ∨
            (g = gs.length ∧ G' = rest.filter fun s => differs m d gs ins first s) := by
          intro g G' hg
          rcases Nat.lt_trichotomy g gs.length with hlt | heq | hgt
          · rw [List.getElem?_append_left (by simpa using hlt)] at hg
            by_cases hgg : g = gi
            · subst hgg
              rw [List.getElem?_set_self hgi] at hg
              cases hg; exact Or.inr (Or.inl ⟨rfl, rfl⟩)
            · rw [List.getElem?_set_ne (Ne.symm hgg)] at hg
              exact Or.inl ⟨hgg, hlt, hg⟩
          · subst heq
            rw [List.getElem?_append_right (by simp)] at hg
            simp only [List.length_set, Nat.sub_self, List.getElem?_cons_zero,
              Option.some.injEq] at hg
            exact Or.inr (Or.inr ⟨rfl, hg.symm⟩)
          · rw [List.getElem?_eq_none (by simp; omega)] at hg; cases hg
        have hsub1 : ∀ s, s ∈ (first :: rest.filter fun s => !differs m d gs ins first s) →
            s ∈ first :: rest := by
          intro s hs
          rcases List.mem_cons.mp hs with rfl | hs
          · simp
          · exact List.mem_cons_of_mem _ (List.mem_filter.1 hs).1
        have hsub2 : ∀ s, s ∈ (rest.filter fun s => differs m d gs ins first s) →
            s ∈ first :: rest := fun s hs => List.mem_cons_of_mem _ (List.mem_filter.1 hs).1
        have hdisj : ∀ s, s ∈ (first :: rest.filter fun s => !differs m d gs ins first s) →
            s ∈ (rest.filter fun s => differs m d gs ins first s) → False := by
          intro s h1 h2
          have hd := (List.mem_filter.1 h2).2
          rcases List.mem_cons.mp h1 with rfl | h1
          · rw [differs_self] at hd; cases hd
          · have := (List.mem_filter.1 h1).2
            rw [hd] at this; cases this
        constructor
        · intro g g' G1 G2 s hg hg' hs hs'
          rcases hget g G1 hg with ⟨hne, _, hG⟩ | ⟨rfl, rfl⟩ | ⟨rfl, rfl⟩ <;>
          rcases hget g' G2 hg' with ⟨hne', _, hG'⟩ | ⟨rfl, rfl⟩ | ⟨rfl, rfl⟩
          · exact hinv.disj _ _ _ _ s hG hG' hs hs'
          · exact absurd (hinv.disj _ _ _ _ s hG h hs (hsub1 s hs')) hne
          · exact absurd (hinv.disj _ _ _ _ s hG h hs (hsub2 s hs')) hne
          · exact absurd (hinv.disj _ _ _ _ s hG' h hs' (hsub1 s hs)) hne'
          · rfl
          · exact absurd hs' (fun h2 => hdisj s hs h2)
          · exact absurd (hinv.disj _ _ _ _ s hG' h hs' (hsub2 s hs)) hne'
          · exact absurd hs (fun h2 => hdisj s hs' h2)
          · rfl
        · intro G' hG' s hs s' hs'
          obtain ⟨g, hg⟩ := List.mem_iff_getElem?.1 hG'
          have hold := hinv.acc (first :: rest) (List.mem_of_getElem? h)
          rcases hget g G' hg with ⟨_, _, hG⟩ | ⟨_, rfl⟩ | ⟨_, rfl⟩
          · exact hinv.acc G' (List.mem_of_getElem? hG) s hs s' hs'
          · exact hold s (hsub1 s hs) s' (hsub1 s' hs')
          · exact hold s (hsub2 s hs) s' (hsub2 s' hs')


/-! ### The refinement loop -/

theorem foldl_subPartition (m : NFA) (d : DFA) : ∀ (l : List Nat) (gs : Groups), PartInv d gs →
    PartInv d (l.foldl (subPartition m d) gs) ∧ gs.length ≤ (l.foldl (subPartition m d) gs).length ∧
    ((l.foldl (subPartition m d) gs).length = gs.length →
      l.foldl (subPartition m d) gs = gs ∧ ∀ gi ∈ l, StableAt m d gs gi) := by
  intro l
  induction l with
  | nil => intro gs h; exact ⟨h, Nat.le_refl _, fun _ => ⟨rfl, fun _ h => by simp at h⟩⟩
  | cons gi l ih =>
    intro gs hinv
    simp only [List.foldl_cons]
    obtain ⟨h1, h2, h3⟩ := ih (subPartition m d gs gi) (subPartition_inv m d gs gi hinv)
    rcases subPartition_cases m d gs gi with ⟨heq, hst⟩ | hlen
    · rw [heq] at h1 h2 h3 ⊢
      refine ⟨h1, h2, fun h => ?_⟩
      obtain ⟨h4, h5⟩ := h3 h
      refine ⟨h4, ?_⟩
      intro g hg
      rcases List.mem_cons.mp hg with rfl | hg
      · exact hst
      · exact h5 g hg
    · refine ⟨h1, by omega, fun h => by omega⟩

/-- The partition `optimize` ends with: every group is stable. -/
theorem refineLoop_spec (m : NFA) (d : DFA) : ∀ (f : Nat) (gs gs' : Groups),
    refineLoop m d f gs = some gs' → PartInv d gs →
    PartInv d gs' ∧ (∀ gi, gi < gs'.length → StableAt m d gs' gi) := by
  intro f
  induction f with
  | zero => intro gs gs' h; simp [refineLoop] at h
  | succ f ih =>
    intro gs gs' h hinv
    simp only [refineLoop] at h
    obtain ⟨h1, h2, h3⟩ := foldl_subPartition m d (List.range gs.length) gs hinv
    split at h
    · rename_i hlen
      simp only [Option.some.injEq] at h
      subst h
      obtain ⟨h4, h5⟩ := h3 hlen
      unfold refinePass
      rw [h4]
      exact ⟨hinv, fun gi hgi => h5 gi (List.mem_range.2 hgi)⟩
    · exact ih _ _ h h1

/-! ### States of a stable group behave alike -/

theorem differs_false {m : NFA} {d : DFA} {gs : Groups} {ins : List Range} {first s : Nat}
    (h : differs m d gs ins first s = false) :
    (∀ a ∈ ins, tgroup d gs first a = tgroup d gs s a) ∧
    (d.accept first = true → ∀ q, q ∈ accNFA m d first ↔ q ∈ accNFA m d s) := by
  simp only [differs, Bool.or_eq_false_iff, List.any_eq_false, Bool.and_eq_false_iff] at h
  obtain ⟨h1, h2⟩ := h
  refine ⟨?_, ?_⟩
  · intro a ha
    have := h1 a ha
    simpa using this
  · intro hacc q
    rcases h2 with h2 | h2
    · rw [hacc] at h2; cases h2
    · simp only [Bool.not_eq_false', sameSet, Bool.and_eq_true, List.all_eq_true,
        List.contains_eq_mem, decide_eq_true_eq] at h2
      exact ⟨fun hq => h2.1 q hq, fun hq => h2.2 q hq⟩

theorem mem_groupIns {d : DFA} {G : List Nat} {s : Nat} (hs : s ∈ G) {a : Range} {t : Nat}
    (h : (a, t) ∈ d.trans s) : a ∈ groupIns d G := by
  simp only [groupIns, List.mem_flatMap, List.mem_map]
  exact ⟨s, hs, (a, t), h, rfl⟩

/-- In a stable group every state has the labels of the first state, … -/
theorem stable_labels {m : NFA} {d : DFA} (hwf : d.WF) {gs : Groups} {g : Nat} {first : Nat}
    {rest : List Nat} (hG : gs[g]? = some (first :: rest)) (hst : StableAt m d gs g)
    {s : Nat} (hs : s ∈ first :: rest) (a : Range) :
    tgroup d gs first a = tgroup d gs s a := by
  rcases List.mem_cons.mp hs with rfl | hs'
  · rfl
  · have hd := (differs_false (hst first rest hG s hs')).1
    cases h1 : tgroup d gs first a with
    | some x =>
      obtain ⟨t, ht, _⟩ := (tgroup_some_iff hwf gs first a x).1 h1
      rw [← hd a (mem_groupIns (List.mem_cons_self) ht), h1]
    | none =>
      cases h2 : tgroup d gs s a with
      | none => rfl
      | some x =>
        obtain ⟨t, ht, _⟩ := (tgroup_some_iff hwf gs s a x).1 h2
        rw [hd a (mem_groupIns hs ht), h2] at h1
        cases h1

/-- … and moves, on every code point, into the same group as the first state (or nowhere). -/
theorem stable_step {m : NFA} {d : DFA} (hwf : d.WF) {gs : Groups} {g : Nat} {first : Nat}
    {rest : List Nat} (hG : gs[g]? = some (first :: rest)) (hst : StableAt m d gs g)
    {s : Nat} (hs : s ∈ first :: rest) (c : Int) :
    (d.step s c).map (groupIdx gs) = (d.step first c).map (groupIdx gs) := by
  have hlab := fun a => stable_labels hwf hG hst hs a
  cases h1 : d.step s c with
  | some t =>
    obtain ⟨a, ha, hc1, hc2⟩ := (DFA.step_some_iff hwf s c t).1 h1
    have : tgroup d gs s a = some (groupIdx gs t) := (tgroup_some_iff hwf gs s a _).2 ⟨t, ha, rfl⟩
    rw [← hlab a] at this
    obtain ⟨u, hu, hgu⟩ := (tgroup_some_iff hwf gs first a _).1 this
    rw [(DFA.step_some_iff hwf first c u).2 ⟨a, hu, hc1, hc2⟩]
    simp [hgu]
  | none =>
    cases h2 : d.step first c with
    | none => rfl
    | some u =>
      obtain ⟨b, hb, hc1, hc2⟩ := (DFA.step_some_iff hwf first c u).1 h2
      have : tgroup d gs first b = some (groupIdx gs u) :=
        (tgroup_some_iff hwf gs first b _).2 ⟨u, hb, rfl⟩
      rw [hlab b] at this
      obtain ⟨t, ht, _⟩ := (tgroup_some_iff hwf gs s b _).1 this
      exact absurd ⟨hc1, hc2⟩ ((DFA.step_none_iff d s c).1 h1 (b, t) ht)

/-! ### The quotient -/

theorem mem_putTrans {l : List (Range × Nat)} {a : Range} {t : Nat} {x : Range × Nat}
    (h : x ∈ putTrans l a t) : x ∈ l ∨ x = (a, t) := by
  unfold putTrans at h
  split at h
  · simp only [List.mem_map] at h
    obtain ⟨p, hp, rfl⟩ := h
    split
    · exact Or.inr rfl
    · exact Or.inl hp
  · simp only [List.mem_append, List.mem_singleton] at h; exact h

theorem key_putTrans (l : List (Range × Nat)) (a : Range) (t : Nat) (k : Range)
    (h : k = a ∨ ∃ v, (k, v) ∈ l) : ∃ v, (k, v) ∈ putTrans l a t := by
  unfold putTrans
  split
  · rename_i hany
    rcases h with rfl | ⟨v, hv⟩
    · simp only [List.any_eq_true, decide_eq_true_eq] at hany
      obtain ⟨p, hp, hpk⟩ := hany
      exact ⟨t, List.mem_map.2 ⟨p, hp, by simp [hpk]⟩⟩
    · by_cases hk : k = a
      · exact ⟨t, List.mem_map.2 ⟨(k, v), hv, by simp [hk]⟩⟩
      · exact ⟨v, List.mem_map.2 ⟨(k, v), hv, by simp [hk]⟩⟩
  · rcases h with rfl | ⟨v, hv⟩
    · exact ⟨t, by simp⟩
    · exact ⟨v, by simp [hv]⟩

theorem foldl_putTrans (f : Nat → Nat) (ts : List (Range × Nat)) : ∀ (l : List (Range × Nat)),
    (∀ x ∈ ts.foldl (fun l t => putTrans l t.1 (f t.2)) l,
      x ∈ l ∨ ∃ t ∈ ts, x = (t.1, f t.2)) ∧
    (∀ k, ((∃ v, (k, v) ∈ l) ∨ ∃ t ∈ ts, t.1 = k) →
      ∃ v, (k, v) ∈ ts.foldl (fun l t => putTrans l t.1 (f t.2)) l) := by
  induction ts with
  | nil =>
    intro l
    refine ⟨fun x hx => Or.inl hx, ?_⟩
    rintro k (h | ⟨t, ht, _⟩)
    · exact h
    · simp at ht
  | cons t ts ih =>
    intro l
    simp only [List.foldl_cons]
    obtain ⟨h1, h2⟩ := ih (putTrans l t.1 (f t.2))
    refine ⟨?_, ?_⟩
    · intro x hx
      rcases h1 x hx with h | ⟨t', ht', rfl⟩
      · rcases mem_putTrans h with h | rfl
        · exact Or.inl h
        · exact Or.inr ⟨t, by simp, rfl⟩
      · exact Or.inr ⟨t', by simp [ht'], rfl⟩
    · rintro k (h | ⟨t', ht', rfl⟩)
      · exact h2 k (Or.inl (key_putTrans l _ _ k (Or.inr h)))
      · rcases List.mem_cons.mp ht' with rfl | ht'
        · exact h2 _ (Or.inl (key_putTrans l _ _ _ (Or.inl rfl)))
        · exact h2 _ (Or.inr ⟨t', ht', rfl⟩)

theorem foldl_members (d : DFA) (f : Nat → Nat) (ms : List Nat) : ∀ (l : List (Range × Nat)),
    (∀ x ∈ ms.foldl (fun l s => (d.trans s).foldl (fun l t => putTrans l t.1 (f t.2)) l) l,
      x ∈ l ∨ ∃ s ∈ ms, ∃ t ∈ d.trans s, x = (t.1, f t.2)) ∧
    (∀ k, ((∃ v, (k, v) ∈ l) ∨ ∃ s ∈ ms, ∃ t ∈ d.trans s, t.1 = k) →
      ∃ v, (k, v) ∈ ms.foldl (fun l s => (d.trans s).foldl (fun l t => putTrans l t.1 (f t.2)) l) l) := by
  induction ms with
  | nil =>
    intro l
    refine ⟨fun x hx => Or.inl hx, ?_⟩
    rintro k (h | ⟨s, hs, _⟩)
    · exact h
    · simp at hs
  | cons s ms ih =>
    intro l
    simp only [List.foldl_cons]
    obtain ⟨h1, h2⟩ := ih ((d.trans s).foldl (fun l t => putTrans l t.1 (f t.2)) l)
    obtain ⟨g1, g2⟩ := foldl_putTrans f (d.trans s) l
    refine ⟨?_, ?_⟩
    · intro x hx
      rcases h1 x hx with h | ⟨s', hs', t, ht, rfl⟩
      · rcases g1 x h with h | ⟨t, ht, rfl⟩
        · exact Or.inl h
        · exact Or.inr ⟨s, by simp, t, ht, rfl⟩
      · exact Or.inr ⟨s', by simp [hs'], t, ht, rfl⟩
    · rintro k (h | ⟨s', hs', t, ht, rfl⟩)
      · exact h2 k (Or.inl (g2 k (Or.inl h)))
      · rcases List.mem_cons.mp hs' with rfl | hs'
        · exact h2 _ (Or.inl (g2 _ (Or.inr ⟨t, ht, rfl⟩)))
        · exact h2 _ (Or.inr ⟨s', hs', t, ht, rfl⟩)

/-- The transitions of the merged state of group `g`: exactly the labels of its members, each with
the group of a member's target. -/
theorem groupState_trans (d : DFA) (gs : Groups) (g : Nat) :
    (∀ a v, (a, v) ∈ (groupState d gs g).trans → ∃ s, s < d.states.length ∧ groupIdx gs s = g ∧
      ∃ t, (a, t) ∈ d.trans s ∧ v = groupIdx gs t) ∧
    (∀ s, s < d.states.length → groupIdx gs s = g → ∀ a t, (a, t) ∈ d.trans s →
      ∃ v, (a, v) ∈ (groupState d gs g).trans) := by
  obtain ⟨h1, h2⟩ := foldl_members d (groupIdx gs)
    ((List.range d.states.length).filter fun s => groupIdx gs s = g) []
  refine ⟨?_, ?_⟩
  · intro a v hm
    rcases h1 (a, v) hm with h | ⟨s, hs, t, ht, heq⟩
    · simp at h
    · simp only [List.mem_filter, List.mem_range, decide_eq_true_eq] at hs
      simp only [Prod.mk.injEq] at heq
      obtain ⟨rfl, rfl⟩ := heq
      exact ⟨s, hs.1, hs.2, t.2, ht, rfl⟩
  · intro s hs hg a t ht
    exact h2 a (Or.inr ⟨s, by simp [hs, hg], (a, t), ht, rfl⟩)

theorem swap0_swap0 (sg i : Nat) : swap0 sg (swap0 sg i) = i := by
  unfold swap0
  by_cases h1 : i = 0
  · subst h1; by_cases h2 : sg = 0 <;> simp [h2]
  · by_cases h2 : i = sg
    · subst h2; simp [h1]
    · simp [h1, h2]

theorem swap0_lt {sg i n : Nat} (hsg : sg < n) (hi : i < n) : swap0 sg i < n := by
  unfold swap0; split
  · exact hsg
  · split
    · omega
    · exact hi

theorem quotient_get (d : DFA) (gs : Groups) (i : Nat) (hi : i < gs.length) :
    (quotient d gs).states[i]? = some
      { groupState d gs (swap0 (groupIdx gs 0) i) with
        trans := (groupState d gs (swap0 (groupIdx gs 0) i)).trans.map
          fun t => (t.1, swap0 (groupIdx gs 0) t.2) } := by
  simp [quotient, List.getElem?_map, List.getElem?_range hi]

theorem quotient_trans (d : DFA) (gs : Groups) (i : Nat) (hi : i < gs.length) :
    (quotient d gs).trans i = (groupState d gs (swap0 (groupIdx gs 0) i)).trans.map
      fun t => (t.1, swap0 (groupIdx gs 0) t.2) := by
  rw [DFA.trans_of_get (quotient_get d gs i hi)]


/-- `Accept` of a DFA state says whether one of its NFA states accepts (`eClosure` computes it so,
`optimize` keeps it so). -/
def AccOK (m : NFA) (d : DFA) : Prop :=
  ∀ (s : Nat) (st : DState), d.states[s]? = some st → st.accept = st.nfa.any m.isAcc

/-- Everything `optimize` knows about the final partition. -/
structure Refined (m : NFA) (d : DFA) (gs : Groups) : Prop where
  wf : d.WF
  inv : PartInv d gs
  stable : ∀ gi, gi < gs.length → StableAt m d gs gi
  cov : ∀ s, s < d.states.length → groupIdx gs s < gs.length

/-- The new ID of an old state. -/
def newId (gs : Groups) (s : Nat) : Nat := swap0 (groupIdx gs 0) (groupIdx gs s)

theorem Refined.group {m : NFA} {d : DFA} {gs : Groups} (h : Refined m d gs) {s : Nat}
    (hs : s < d.states.length) : ∃ first rest, gs[groupIdx gs s]? = some (first :: rest) ∧
      s ∈ first :: rest ∧ StableAt m d gs (groupIdx gs s) := by
  obtain ⟨G, hG, hsG⟩ := mem_of_groupIdx_lt (h.cov s hs)
  cases G with
  | nil => simp at hsG
  | cons first rest => exact ⟨first, rest, hG, hsG, h.stable _ (h.cov s hs)⟩

theorem Refined.same {m : NFA} {d : DFA} {gs : Groups} (h : Refined m d gs) {s s2 : Nat}
    (hs : s < d.states.length) (hs2 : s2 < d.states.length) (hg : groupIdx gs s2 = groupIdx gs s)
    (c : Int) : (d.step s2 c).map (groupIdx gs) = (d.step s c).map (groupIdx gs) := by
  obtain ⟨first, rest, hG, hsG, hst⟩ := h.group hs
  obtain ⟨G2, hG2, hsG2⟩ := mem_of_groupIdx_lt (h.cov s2 hs2)
  rw [hg, hG] at hG2
  cases hG2
  rw [stable_step h.wf hG hst hsG c, stable_step h.wf hG hst hsG2 c]

theorem Refined.same_label {m : NFA} {d : DFA} {gs : Groups} (h : Refined m d gs) {s s2 : Nat}
    (hs : s < d.states.length) (hs2 : s2 < d.states.length) (hg : groupIdx gs s2 = groupIdx gs s)
    {a : Range} {t : Nat} (ht : (a, t) ∈ d.trans s) : ∃ t2, (a, t2) ∈ d.trans s2 := by
  obtain ⟨first, rest, hG, hsG, hst⟩ := h.group hs
  obtain ⟨G2, hG2, hsG2⟩ := mem_of_groupIdx_lt (h.cov s2 hs2)
  rw [hg, hG] at hG2
  cases hG2
  have h1 : tgroup d gs s a = some (groupIdx gs t) := (tgroup_some_iff h.wf gs s a _).2 ⟨t, ht, rfl⟩
  rw [← stable_labels h.wf hG hst hsG a, stable_labels h.wf hG hst hsG2 a] at h1
  obtain ⟨t2, ht2, _⟩ := (tgroup_some_iff h.wf gs s2 a _).1 h1
  exact ⟨t2, ht2⟩

/-- The transitions of a new state, read through the old automaton. -/
theorem Refined.quotient_entry {m : NFA} {d : DFA} {gs : Groups} (h : Refined m d gs) {s : Nat}
    (hs : s < d.states.length) (hd0 : 0 < d.states.length) (x : Range × Nat)
    (hx : x ∈ (quotient d gs).trans (newId gs s)) :
    ∃ s2 t2, s2 < d.states.length ∧ groupIdx gs s2 = groupIdx gs s ∧ (x.1, t2) ∈ d.trans s2 ∧
      x.2 = newId gs t2 := by
  have hsg := h.cov 0 hd0
  have hi : newId gs s < gs.length := swap0_lt hsg (h.cov s hs)
  rw [quotient_trans d gs _ hi] at hx
  simp only [newId, swap0_swap0, List.mem_map] at hx
  obtain ⟨⟨a, v⟩, hm, rfl⟩ := hx
  obtain ⟨s2, hs2, hg2, t2, ht2, rfl⟩ := (groupState_trans d gs _).1 a v hm
  exact ⟨s2, t2, hs2, hg2, ht2, rfl⟩

/-- **One step of the quotient is one step of the original automaton**, renamed. -/
theorem Refined.quotient_step {m : NFA} {d : DFA} {gs : Groups} (h : Refined m d gs) {s : Nat}
    (hs : s < d.states.length) (c : Int) :
    (quotient d gs).step (newId gs s) c = (d.step s c).map (newId gs) := by
  have hd0 : 0 < d.states.length := by omega
  have hsg := h.cov 0 hd0
  have hi : newId gs s < gs.length := swap0_lt hsg (h.cov s hs)
  -- every entry of the new state that contains `c` agrees with the old step
  have hentry : ∀ x ∈ (quotient d gs).trans (newId gs s), x.1.b ≤ c → c ≤ x.1.e →
      (d.step s c).map (newId gs) = some x.2 := by
    intro x hx h1 h2
    obtain ⟨s2, t2, hs2, hg2, ht2, hx2⟩ := h.quotient_entry hs hd0 x hx
    have hstep2 : d.step s2 c = some t2 := (DFA.step_some_iff h.wf s2 c t2).2 ⟨x.1, ht2, h1, h2⟩
    have hsame := h.same hs hs2 hg2 c
    rw [hstep2] at hsame
    cases hst : d.step s c with
    | none => rw [hst] at hsame; cases hsame
    | some t =>
      rw [hst] at hsame
      simp only [Option.map_some, Option.some.injEq] at hsame ⊢
      rw [hx2]; simp only [newId, hsame]
  cases hq : (quotient d gs).step (newId gs s) c with
  | some t' =>
    rw [DFA.step_eq] at hq
    simp only [Option.map_eq_some_iff] at hq
    obtain ⟨x, hf, rfl⟩ := hq
    have hp := List.find?_some hf
    simp only [decide_eq_true_eq] at hp
    exact (hentry x (List.mem_of_find?_eq_some hf) hp.1 hp.2).symm
  | none =>
    cases hst : d.step s c with
    | none => rfl
    | some t =>
      exfalso
      obtain ⟨a, ha, h1, h2⟩ := (DFA.step_some_iff h.wf s c t).1 hst
      obtain ⟨v, hv⟩ := (groupState_trans d gs (groupIdx gs s)).2 s hs rfl a t ha
      have hmem : (a, swap0 (groupIdx gs 0) v) ∈ (quotient d gs).trans (newId gs s) := by
        rw [quotient_trans d gs _ hi]
        simp only [newId, swap0_swap0, List.mem_map]
        exact ⟨(a, v), hv, rfl⟩
      exact (DFA.step_none_iff _ _ c).1 hq _ hmem ⟨h1, h2⟩

theorem Refined.quotient_run {m : NFA} {d : DFA} {gs : Groups} (h : Refined m d gs) :
    ∀ (w : List Int) (s : Nat), s < d.states.length →
      (quotient d gs).run (newId gs s) w = (d.run s w).map (newId gs) := by
  intro w
  induction w with
  | nil => intro s _; simp [DFA.run]
  | cons c w ih =>
    intro s hs
    simp only [DFA.run, h.quotient_step hs c]
    cases hst : d.step s c with
    | none => simp
    | some t =>
      obtain ⟨a, ha, _⟩ := (DFA.step_some_iff h.wf s c t).1 hst
      simp only [Option.map_some, Option.bind_eq_bind, Option.bind_some]
      exact ih t (h.wf.tgt s _ ha)

theorem newId_zero (gs : Groups) : newId gs 0 = 0 := by
  simp only [newId, swap0]
  by_cases h : groupIdx gs 0 = 0 <;> simp [h]

theorem run_lt {d : DFA} (hwf : d.WF) : ∀ (w : List Int) (s j : Nat), s < d.states.length →
    d.run s w = some j → j < d.states.length := by
  intro w
  induction w with
  | nil => intro s j hs h; simp only [DFA.run, Option.some.injEq] at h; omega
  | cons c w ih =>
    intro s j hs h
    simp only [DFA.run] at h
    cases hst : d.step s c with
    | none => rw [hst] at h; cases h
    | some t =>
      rw [hst] at h
      obtain ⟨a, ha, _⟩ := (DFA.step_some_iff hwf s c t).1 hst
      exact ih t j (hwf.tgt s _ ha) h

/-! ### What a state shows: `Accept` and its accepting NFA states -/

theorem mem_accNFA (m : NFA) (d : DFA) (s q : Nat) :
    q ∈ accNFA m d s ↔ ∃ st, d.states[s]? = some st ∧ q ∈ st.nfa ∧ m.isAcc q = true := by
  unfold accNFA
  cases h : d.states[s]? with
  | none => simp
  | some st => simp [List.mem_filter]

theorem Refined.quotient_accept {m : NFA} {d : DFA} {gs : Groups} (h : Refined m d gs) {s : Nat}
    (hs : s < d.states.length) : (quotient d gs).accept (newId gs s) = d.accept s := by
  have hd0 : 0 < d.states.length := by omega
  have hi : newId gs s < gs.length := swap0_lt (h.cov 0 hd0) (h.cov s hs)
  obtain ⟨first, rest, hG, hsG, _⟩ := h.group hs
  have hget : gs.getD (groupIdx gs s) [] = first :: rest := by
    simp [List.getD_eq_getElem?_getD, hG]
  have hqg := quotient_get d gs (newId gs s) hi
  have hl : (quotient d gs).accept (newId gs s) = (first :: rest).any fun s => d.accept s := by
    unfold DFA.accept
    rw [hqg]
    simp only [Option.map_some, Option.getD_some, newId, swap0_swap0, groupState, hget]
    rfl
  rw [hl]
  have hall := h.inv.acc _ (List.mem_of_getElem? hG)
  cases hacc : d.accept s with
  | true =>
    rw [List.any_eq_true]
    exact ⟨s, hsG, hacc⟩
  | false =>
    rw [List.any_eq_false]
    intro x hx
    rw [← hall s hsG x hx, hacc]; simp

theorem Refined.quotient_accNFA {m : NFA} {d : DFA} {gs : Groups} (h : Refined m d gs)
    (hacc : AccOK m d) {s : Nat} (hs : s < d.states.length) (q : Nat) :
    q ∈ accNFA m (quotient d gs) (newId gs s) ↔ q ∈ accNFA m d s := by
  have hd0 : 0 < d.states.length := by omega
  have hi : newId gs s < gs.length := swap0_lt (h.cov 0 hd0) (h.cov s hs)
  obtain ⟨first, rest, hG, hsG, hst⟩ := h.group hs
  have hget : gs.getD (groupIdx gs s) [] = first :: rest := by
    simp [List.getD_eq_getElem?_getD, hG]
  have hall := h.inv.acc _ (List.mem_of_getElem? hG)
  -- the new state's accepting NFA states are those of the members
  have hqg := quotient_get d gs (newId gs s) hi
  have hnfa : ∀ st, (quotient d gs).states[newId gs s]? = some st →
      st.nfa = (first :: rest).flatMap fun s => (d.states[s]?.map (·.nfa)).getD [] := by
    intro st hst
    rw [hqg] at hst
    cases hst
    simp only [newId, swap0_swap0, groupState, hget]
  have hnew : q ∈ accNFA m (quotient d gs) (newId gs s) ↔ ∃ s2 ∈ first :: rest, q ∈ accNFA m d s2 := by
    constructor
    · intro hq
      obtain ⟨st, hst, hq1, hq2⟩ := (mem_accNFA _ _ _ _).1 hq
      rw [hnfa st hst] at hq1
      obtain ⟨s2, hs2, hq3⟩ := List.mem_flatMap.1 hq1
      refine ⟨s2, hs2, (mem_accNFA m d s2 q).2 ?_⟩
      cases hst2 : d.states[s2]? with
      | none => simp [hst2] at hq3
      | some st2 => exact ⟨st2, rfl, by simpa [hst2] using hq3, hq2⟩
    · rintro ⟨s2, hs2, hq⟩
      obtain ⟨st2, hst2, hq1, hq2⟩ := (mem_accNFA m d s2 q).1 hq
      refine (mem_accNFA _ _ _ _).2 ⟨_, hqg, ?_, hq2⟩
      simp only [newId, swap0_swap0, groupState, hget]
      exact List.mem_flatMap.2 ⟨s2, hs2, by simp [hst2, hq1]⟩
  rw [hnew]
  -- members have the same accepting NFA states as the first one
  have hmem : ∀ s2 ∈ first :: rest, ∀ q, q ∈ accNFA m d s2 ↔ q ∈ accNFA m d first := by
    intro s2 hs2 q
    cases hf : d.accept first with
    | true =>
      rcases List.mem_cons.mp hs2 with rfl | hs2'
      · exact Iff.rfl
      · exact ((differs_false (hst first rest hG s2 hs2')).2 hf q).symm
    | false =>
      have hnone : ∀ s3 ∈ first :: rest, ∀ q, q ∉ accNFA m d s3 := by
        intro s3 hs3 q hq
        obtain ⟨st, hst3, hq1, hq2⟩ := (mem_accNFA m d s3 q).1 hq
        have h1 : d.accept s3 = false := by rw [← hall first List.mem_cons_self s3 hs3]; exact hf
        have h2 := hacc s3 st hst3
        simp only [DFA.accept, hst3, Option.map_some, Option.getD_some] at h1
        rw [h1] at h2
        have := List.any_eq_false.1 h2.symm q hq1
        exact this hq2
      exact ⟨fun hq => absurd hq (hnone s2 hs2 q), fun hq => absurd hq (hnone first List.mem_cons_self q)⟩
  constructor
  · rintro ⟨s2, hs2, hq⟩
    exact (hmem s hsG q).2 ((hmem s2 hs2 q).1 hq)
  · intro hq
    exact ⟨s, hsG, hq⟩


/-! ### The quotient is again a well-formed DFA -/

theorem Refined.entry_step {m : NFA} {d : DFA} {gs : Groups} (h : Refined m d gs) {s : Nat}
    (hs : s < d.states.length) (c : Int) (x : Range × Nat)
    (hx : x ∈ (quotient d gs).trans (newId gs s)) (h1 : x.1.b ≤ c) (h2 : c ≤ x.1.e) :
    (d.step s c).map (newId gs) = some x.2 := by
  have hd0 : 0 < d.states.length := by omega
  obtain ⟨s2, t2, hs2, hg2, ht2, hx2⟩ := h.quotient_entry hs hd0 x hx
  have hstep2 : d.step s2 c = some t2 := (DFA.step_some_iff h.wf s2 c t2).2 ⟨x.1, ht2, h1, h2⟩
  have hsame := h.same hs hs2 hg2 c
  rw [hstep2] at hsame
  cases hst : d.step s c with
  | none => rw [hst] at hsame; cases hsame
  | some t =>
    rw [hst] at hsame
    simp only [Option.map_some, Option.some.injEq] at hsame ⊢
    rw [hx2]; simp only [newId, hsame]

/-- A new state with a transition is the image of an old state. -/
theorem Refined.of_entry {m : NFA} {d : DFA} {gs : Groups} (_h : Refined m d gs) {i : Nat}
    (hi : i < gs.length) {x : Range × Nat} (hx : x ∈ (quotient d gs).trans i) :
    ∃ s, s < d.states.length ∧ newId gs s = i := by
  rw [quotient_trans d gs i hi] at hx
  simp only [List.mem_map] at hx
  obtain ⟨⟨a, v⟩, hm, _⟩ := hx
  obtain ⟨s2, hs2, hg2, _⟩ := (groupState_trans d gs _).1 a v hm
  exact ⟨s2, hs2, by simp only [newId, hg2, swap0_swap0]⟩

theorem quotient_length (d : DFA) (gs : Groups) : (quotient d gs).states.length = gs.length := by
  simp [quotient]

theorem Refined.quotient_wf {m : NFA} {d : DFA} {gs : Groups} (h : Refined m d gs) :
    (quotient d gs).WF := by
  have hlt : ∀ i x, x ∈ (quotient d gs).trans i → i < gs.length := by
    intro i x hx
    rcases Nat.lt_or_ge i gs.length with hi | hi
    · exact hi
    · rw [DFA.trans_of_none (List.getElem?_eq_none (by rw [quotient_length]; exact hi))] at hx
      simp at hx
  constructor
  · intro i x hx
    have hi := hlt i x hx
    obtain ⟨s, hs, rfl⟩ := h.of_entry hi hx
    have hd0 : 0 < d.states.length := by omega
    obtain ⟨s2, t2, hs2, _, ht2, hx2⟩ := h.quotient_entry hs hd0 x hx
    rw [quotient_length, hx2]
    exact swap0_lt (h.cov 0 hd0) (h.cov t2 (h.wf.tgt s2 _ ht2))
  · intro i x y c hx hy h1 h2 h3 h4
    have hi := hlt i x hx
    obtain ⟨s, hs, rfl⟩ := h.of_entry hi hx
    have hd0 : 0 < d.states.length := by omega
    have e1 := h.entry_step hs c x hx h1 h2
    have e2 := h.entry_step hs c y hy h3 h4
    rw [e1] at e2
    simp only [Option.some.injEq] at e2
    obtain ⟨s2, t2, hs2, hg2, ht2, _⟩ := h.quotient_entry hs hd0 x hx
    obtain ⟨s3, t3, hs3, hg3, ht3, _⟩ := h.quotient_entry hs hd0 y hy
    obtain ⟨t', ht'⟩ := h.same_label hs2 hs3 (hg3.trans hg2.symm) ht2
    have := h.wf.det s3 (x.1, t') (y.1, t3) c ht' ht3 h1 h2 h3 h4
    simp only [Prod.mk.injEq] at this
    exact Prod.ext this.1 e2
  · intro i x hx
    have hi := hlt i x hx
    obtain ⟨s, hs, rfl⟩ := h.of_entry hi hx
    have hd0 : 0 < d.states.length := by omega
    obtain ⟨s2, t2, _, _, ht2, _⟩ := h.quotient_entry hs hd0 x hx
    exact h.wf.valid s2 (x.1, t2) ht2

theorem accept_eq_any {m : NFA} {d : DFA} (hacc : AccOK m d) (s : Nat) :
    d.accept s = ((d.states[s]?.map (·.nfa)).getD []).any m.isAcc := by
  unfold DFA.accept
  cases h : d.states[s]? with
  | none => simp
  | some st => simp [hacc s st h]

theorem quotient_accOK {m : NFA} {d : DFA} (hacc : AccOK m d) (gs : Groups) :
    AccOK m (quotient d gs) := by
  intro i st hst
  have hi : i < gs.length := by
    rcases Nat.lt_or_ge i gs.length with hi | hi
    · exact hi
    · rw [List.getElem?_eq_none (by rw [quotient_length]; exact hi)] at hst; cases hst
  rw [quotient_get d gs i hi] at hst
  cases hst
  simp only [groupState, List.any_flatMap]
  congr 1
  funext s
  exact accept_eq_any hacc s

/-! ### `optimize` -/

theorem initial_partInv (d : DFA) :
    PartInv d [(List.range d.states.length).filter fun s => !d.accept s,
      (List.range d.states.length).filter fun s => d.accept s] := by
  constructor
  · intro g g' G G' s hg hg' hs hs'
    match g, g' with
    | 0, 0 => rfl
    | 1, 1 => rfl
    | 0, 1 =>
      simp only [List.getElem?_cons_zero, List.getElem?_cons_succ, Option.some.injEq] at hg hg'
      subst hg hg'
      simp only [List.mem_filter, Bool.not_eq_true'] at hs hs'
      rw [hs.2] at hs'; cases hs'.2
    | 1, 0 =>
      simp only [List.getElem?_cons_zero, List.getElem?_cons_succ, Option.some.injEq] at hg hg'
      subst hg hg'
      simp only [List.mem_filter, Bool.not_eq_true'] at hs hs'
      rw [hs'.2] at hs; cases hs.2
    | g + 2, _ => simp at hg
    | _, g' + 2 => simp at hg'
  · intro G hG s hs s' hs'
    simp only [List.mem_cons, List.not_mem_nil, or_false] at hG
    rcases hG with rfl | rfl
    · simp only [List.mem_filter, Bool.not_eq_true'] at hs hs'
      rw [hs.2, hs'.2]
    · simp only [List.mem_filter] at hs hs'
      rw [hs.2, hs'.2]

theorem covers_spec {d : DFA} {gs : Groups} (h : covers d gs = true) :
    ∀ s, s < d.states.length → groupIdx gs s < gs.length := by
  intro s hs
  simp only [covers, List.all_eq_true, List.mem_range, Bool.and_eq_true, decide_eq_true_eq] at h
  exact (h s hs).1

/-- **`optimize_correct`**: the automaton `optimize` returns is the image of the given one under a
map `f` of states with `f 0 = 0`: on every word the new run is the image of the old run (so the
same words die), and a state and its image have the same `Accept` flag and the same accepting NFA
states (so `pickAction` gives them the same actions). The result is again well formed. -/
theorem optimize_correct (m : NFA) (d : DFA) (hwf : d.WF) (hacc : AccOK m d) (d' : DFA)
    (h : optimize m d = .ok d') :
    d'.WF ∧ AccOK m d' ∧ (0 < d.states.length → 0 < d'.states.length) ∧
    ∃ f : Nat → Nat, f 0 = 0 ∧ ∀ w,
      d'.run 0 w = (d.run 0 w).map f ∧
      ∀ j, d.run 0 w = some j → d'.accept (f j) = d.accept j ∧
        ∀ q, q ∈ accNFA m d' (f j) ↔ q ∈ accNFA m d j := by
  unfold optimize at h
  simp only at h
  split at h
  · cases h
    exact ⟨hwf, hacc, fun h => h, id, rfl, fun w => ⟨by simp, fun j _ => ⟨rfl, fun q => Iff.rfl⟩⟩⟩
  · rename_i hne
    split at h
    · cases h
    · rename_i gs hloop
      split at h
      · rename_i hcov
        cases h
        obtain ⟨hinv, hstable⟩ := refineLoop_spec m d _ _ gs hloop (initial_partInv d)
        have href : Refined m d gs := ⟨hwf, hinv, hstable, covers_spec hcov⟩
        have hn : 0 < d.states.length := by
          rcases Nat.eq_zero_or_pos d.states.length with h0 | h0
          · simp [h0] at hne
          · exact h0
        refine ⟨href.quotient_wf, quotient_accOK hacc gs,
          fun _ => by rw [quotient_length]; exact Nat.lt_of_le_of_lt (Nat.zero_le _) (href.cov 0 hn),
          newId gs, newId_zero gs, ?_⟩
        intro w
        refine ⟨by simpa [newId_zero] using href.quotient_run w 0 hn, ?_⟩
        intro j hj
        have hjl := run_lt hwf w 0 j hn hj
        exact ⟨href.quotient_accept hjl, href.quotient_accNFA hacc hjl⟩
      · cases h

/-- Equal accepting NFA states give equal actions. -/
theorem pickAction_congr (m : NFA) (S S' : List Nat)
    (h : ∀ q, (q ∈ S ∧ m.isAcc q = true) ↔ (q ∈ S' ∧ m.isAcc q = true)) :
    pickAction m S = pickAction m S' := by
  have hmem : ∀ i, i ∈ actionSet m S ↔ i ∈ actionSet m S' := by
    intro i
    simp only [mem_actionSet]
    have hisAcc : ∀ q, (q, i) ∈ m.acc → m.isAcc q = true := by
      intro q hq
      simp only [NFA.isAcc, List.any_eq_true, beq_iff_eq]
      exact ⟨(q, i), hq, rfl⟩
    constructor
    · rintro ⟨q, hq, ha⟩
      exact ⟨q, ((h q).1 ⟨hq, hisAcc q ha⟩).1, ha⟩
    · rintro ⟨q, hq, ha⟩
      exact ⟨q, ((h q).2 ⟨hq, hisAcc q ha⟩).1, ha⟩
  obtain ⟨n1, s1⟩ := pickAction_spec m S
  obtain ⟨n2, s2⟩ := pickAction_spec m S'
  cases h1 : pickAction m S with
  | none =>
    cases h2 : pickAction m S' with
    | none => rfl
    | some i => exact absurd ((hmem i).2 ((s2 i).1 h2).1) (n1.1 h1 i)
  | some i =>
    have := (s1 i).1 h1
    exact ((s2 i).2 ⟨(hmem i).1 this.1, fun j hj => this.2 j ((hmem j).2 hj)⟩).symm

end Lox.Lex.Gen
