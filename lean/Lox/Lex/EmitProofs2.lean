import Lox.Lex.EmitProofs
import Lox.Table.Proofs
/-! The emitted array read back by the row format of `PushRune` (`Lox.Lex.rowAt`): every state's
row decodes to the flags, triples and pairs that `mode_table` wrote. -/
namespace Lox.Lex.Gen
open Lox.Rang3 (Range cmp)
open Lox.Lex (Triple lookup sortedFrom triplesAt pairsAt)
open Lox.Table (flattenTriples flattenPairs encodeLexRow)

theorem getD_toArray (a : List Int) (k : Nat) : a.toArray.getD k 0 = a.getD k 0 := by
  simp [Array.getD, List.getD]
  split <;> simp_all

theorem triplesAt_succ (tbl : Mode) (base n : Nat) :
    triplesAt tbl base (n + 1) =
      (tbl.getD base 0, tbl.getD (base + 1) 0, tbl.getD (base + 2) 0) :: triplesAt tbl (base + 3) n := by
  unfold triplesAt
  rw [List.range_succ_eq_map]
  simp only [List.map_cons, List.map_map, Nat.mul_zero, Nat.add_zero]
  congr 1
  apply List.map_congr_left
  intro j _
  simp only [Function.comp]
  have e1 : base + 3 * (j + 1) = base + 3 + 3 * j := by omega
  rw [e1]

theorem getD_of_drop {a : List Int} {k : Nat} {x : Int} {tl : List Int} (h : a.drop k = x :: tl) :
    a.getD k 0 = x := by
  have := (Lox.Table.drop_cons_get h).1
  simp [List.getD, this]

theorem triplesAt_of_drop (a : List Int) : ∀ (ts : List (Int × Int × Int)) (base : Nat) (rest : List Int),
    a.drop base = flattenTriples ts ++ rest → triplesAt a.toArray base ts.length = ts := by
  intro ts
  induction ts with
  | nil => intro base rest _; rfl
  | cons t ts ih =>
    intro base rest h
    obtain ⟨b, e, s⟩ := t
    simp only [flattenTriples, List.cons_append] at h
    obtain ⟨h0, h1⟩ := Lox.Table.drop_cons_get h
    obtain ⟨h2, h3⟩ := Lox.Table.drop_cons_get h1
    obtain ⟨h4, h5⟩ := Lox.Table.drop_cons_get h3
    rw [List.length_cons, triplesAt_succ, getD_toArray, getD_toArray, getD_toArray]
    simp only [List.getD, h0, h2, h4, Option.getD_some]
    rw [ih (base + 3) rest h5]

theorem pairsAt_of_drop (a : List Int) : ∀ (ps : List (Int × Int)) (base : Nat) (rest : List Int),
    a.drop base = flattenPairs ps ++ rest → pairsAt a.toArray base ps.length = ps := by
  intro ps
  induction ps with
  | nil => intro base rest _; rfl
  | cons t ps ih =>
    intro base rest h
    obtain ⟨k, v⟩ := t
    simp only [flattenPairs, List.cons_append] at h
    obtain ⟨h0, h1⟩ := Lox.Table.drop_cons_get h
    obtain ⟨h2, h3⟩ := Lox.Table.drop_cons_get h1
    rw [List.length_cons, Lox.Lex.pairsAt_succ, getD_toArray, getD_toArray]
    simp only [List.getD, h0, h2, Option.getD_some]
    rw [ih (base + 2) rest h3]

theorem encodeLexRow_length (f : Int) (ts : List (Int × Int × Int)) (ps : List (Int × Int)) :
    (encodeLexRow f ts ps).length = 2 + 3 * ts.length + 2 * ps.length := by
  simp [encodeLexRow, Lox.Table.flattenTriples_length, Lox.Table.flattenPairs_length]
  omega

theorem rowAt_core {a : List Int} {q off L : Nat} {f : Int} {ts : List (Int × Int × Int)}
    {ps : List (Int × Int)} {R : List Int} (hget : a[q]? = some (off : Int))
    (hL : L = 2 + 3 * ts.length + 2 * ps.length) (hfit : off + 1 + L ≤ a.length)
    (hdrop : a.drop off = (L : Int) :: f :: (ts.length : Int) ::
      (flattenTriples ts ++ (flattenPairs ps ++ R))) :
    Lox.Lex.rowAt a.toArray q = some ⟨f, ts, ps⟩ := by
  obtain ⟨h0, h1⟩ := Lox.Table.drop_cons_get hdrop
  obtain ⟨h2, h3⟩ := Lox.Table.drop_cons_get h1
  obtain ⟨h4, h5⟩ := Lox.Table.drop_cons_get h3
  have e3 : off + 1 + 1 + 1 = off + 3 := by omega
  rw [e3] at h5
  have htr := triplesAt_of_drop a ts (off + 3) _ h5
  have h6 : a.drop (off + 3 + 3 * ts.length) = flattenPairs ps ++ R := by
    have := congrArg (List.drop (3 * ts.length)) h5
    rw [List.drop_drop, List.drop_left' (Lox.Table.flattenTriples_length ts)] at this
    exact this
  have hpa := pairsAt_of_drop a ps (off + 3 + 3 * ts.length) _ h6
  unfold Lox.Lex.rowAt
  simp only [List.getElem?_toArray, hget]
  have hn : ¬ ((off : Int) < 0) := by omega
  have e4 : off + 1 + 1 = off + 2 := by omega
  rw [e4] at h4
  simp only [hn, ↓reduceIte, Int.toNat_natCast, h0, h2, h4]
  have hcond : 0 ≤ (ts.length : Int) ∧ 2 + 3 * (ts.length : Int) ≤ (L : Int) ∧
      ((L : Int) - 2 - 3 * (ts.length : Int)) % 2 = 0 ∧
      (off : Int) + 1 + (L : Int) ≤ (a.toArray.size : Int) := by
    simp only [List.size_toArray]
    omega
  simp only [hcond, and_self, ↓reduceIte, Option.some.injEq]
  have e1 : (L - 2 - 3 * ts.length) / 2 = ps.length := by omega
  rw [e1, hpa, htr]

/-- A row stored in the array with the layout of `AddRow` / `Array` decodes (`Lox.Lex.rowAt`, the
addressing of `PushRune`) to what `mode_table` encoded. -/
theorem rowAt_of_view {a : List Int} {q off : Nat} {f : Int} {ts : List (Int × Int × Int)}
    {ps : List (Int × Int)} (hget : a[q]? = some (off : Int))
    (hdrop : a.drop off = (((encodeLexRow f ts ps).length : Int) :: encodeLexRow f ts ps) ++
      a.drop (off + 1 + (encodeLexRow f ts ps).length)) :
    Lox.Lex.rowAt a.toArray q = some ⟨f, ts, ps⟩ := by
  have hlen := encodeLexRow_length f ts ps
  have hfit : off + 1 + (encodeLexRow f ts ps).length ≤ a.length := by
    have := congrArg List.length hdrop
    simp only [List.length_drop, List.length_append, List.length_cons] at this
    omega
  apply rowAt_core hget hlen hfit (R := a.drop (off + 1 + (encodeLexRow f ts ps).length))
  rw [hdrop]
  simp [encodeLexRow]

end Lox.Lex.Gen
