import Lox.Lex.Model
import Lox.Lex.Actions
import Lox.Lex.Regex
/-! The verified lexer-table validator. Core Lean only; linked into the driver.

* `rowAt`: decoding of one emitted `_lexerModeN` (`internal/codegen/emit_lexer.go`, `mode_table` +
  `table.Array`) into rows, with the addressing of the generated `PushRune`: `tbl[q]` is the offset
  `i` of the row of state `q`; `tbl[i] = len`, `tbl[i+1] = flags`, `tbl[i+2] = gotoN`, then `gotoN`
  triples `(lo, hi, target)`, then `(len - 2 - 3·gotoN)/2` action pairs `(type, param)`.
  The number of states is `tbl[0]` (the row of state 0 is stored first, right after the offset
  vector).
* `wfTable`: everything `PushRune` can read is in range, triples sorted / disjoint / inside
  `0..0x10FFFF`, targets are states.
* `tableStep`, `tableRun`: the DFA read back from the table (linear lookup).
* `bisim rules tbl`: checks that a set of pairs (table state, vector of partial-derivative term
  sets, one per rule) containing the initial pair is closed under all code points and that labels
  agree. The set is found by an untrusted worklist exploration (`explore`); only `checkAll` matters
  for `bisim_sound` (`Lox/Lex/BisimProofs.lean`, `Lox/Props/C02.lean`). -/
namespace Lox.Lex

abbrev Triple := Int × Int × Int

/-- A decoded row. -/
structure Row where
  flags : Int
  trs : List Triple
  acts : List Pair
  deriving DecidableEq, Repr, Inhabited

def triplesAt (tbl : Mode) (base n : Nat) : List Triple :=
  (List.range n).map fun j =>
    (tbl.getD (base + 3 * j) 0, tbl.getD (base + 3 * j + 1) 0, tbl.getD (base + 3 * j + 2) 0)

def pairsAt (tbl : Mode) (base n : Nat) : List Pair :=
  (List.range n).map fun j => (tbl.getD (base + 2 * j) 0, tbl.getD (base + 2 * j + 1) 0)

/-- The row of state `q`; `none` when an index is out of range or the lengths are inconsistent
(negative `gotoN`, triples longer than the row, odd action section, row past the end). -/
def rowAt (tbl : Mode) (q : Nat) : Option Row :=
  match tbl[q]? with
  | none => none
  | some off =>
    if off < 0 then none
    else
      let i := off.toNat
      match tbl[i]?, tbl[i + 1]?, tbl[i + 2]? with
      | some count, some flags, some gotoN =>
        if 0 ≤ gotoN ∧ 2 + 3 * gotoN ≤ count ∧ (count - 2 - 3 * gotoN) % 2 = 0
            ∧ (i : Int) + 1 + count ≤ tbl.size then
          let g := gotoN.toNat
          some { flags := flags
                 trs := triplesAt tbl (i + 3) g
                 acts := pairsAt tbl (i + 3 + 3 * g) ((count.toNat - 2 - 3 * g) / 2) }
        else none
      | _, _, _ => none

/-- Number of states = length of the offset vector = offset of the first row. -/
def nStates (tbl : Mode) : Nat := (tbl.getD 0 0).toNat

/-- Triples sorted by `lo`, pairwise disjoint, `lo ≤ hi`, all above `prevHi`. -/
def sortedFrom (prevHi : Int) : List Triple → Bool
  | [] => true
  | (lo, hi, _) :: rest => decide (prevHi < lo) && decide (lo ≤ hi) && sortedFrom hi rest

def maxRune : Int := 0x10FFFF

def rowOK (n : Nat) (row : Row) : Bool :=
  sortedFrom (-1) row.trs &&
  row.trs.all fun t => decide (t.2.1 ≤ maxRune) && decide (0 ≤ t.2.2) && decide (t.2.2 < n)

/-- Well-formed mode table. -/
def wfTable (tbl : Mode) : Bool :=
  decide (1 ≤ nStates tbl) && decide (nStates tbl ≤ tbl.size) &&
  (List.range (nStates tbl)).all fun q =>
    match rowAt tbl q with
    | some row => rowOK (nStates tbl) row
    | none => false

/-- Linear lookup in a row. -/
def lookup : List Triple → Int → Option Int
  | [], _ => none
  | (lo, hi, t) :: rest, c => if lo ≤ c ∧ c ≤ hi then some t else lookup rest c

/-- One step of the table DFA (a row with the non-greedy flag has no transitions, as in
`PushRune`). -/
def tableStep (tbl : Mode) (q : Nat) (c : Int) : Option Nat :=
  match rowAt tbl q with
  | none => none
  | some row => if row.flags % 2 = 0 then (lookup row.trs c).map Int.toNat else none

def tableRunFrom (tbl : Mode) : Nat → List Int → Option Nat
  | q, [] => some q
  | q, c :: s =>
    match tableStep tbl q c with
    | none => none
    | some q' => tableRunFrom tbl q' s

/-- The action pairs stored on state `q`. -/
def rowPairs (tbl : Mode) (q : Nat) : List Pair :=
  match rowAt tbl q with
  | some row => row.acts
  | none => []

/-- Run the table from state 0: `none` = no such path (dead), `some pairs` = the action pairs of the
state reached (`[]` = not accepting). -/
def tableRun (tbl : Mode) (s : List Int) : Option (List Pair) :=
  (tableRunFrom tbl 0 s).map (rowPairs tbl)

/-- The action interpreter of `PushRune` over a decoded pair list (same behaviour as
`runActions` of `Model.lean` on the raw array, see `runActions_eq_runPairs`). `r` is the rune
that was pushed (only used for the end-of-input test when no action returns). -/
def runPairs (modes : Array Mode) (r : Int) : List Pair → SM → Res × SM
  | [], sm => if sm.state = 0 ∧ r = -1 then (.eof, sm) else (.error, sm)
  | (ty, p) :: rest, sm =>
    if ty = 1 then
      if p.toNat < modes.size then
        runPairs modes r rest
          { sm with modeStack := sm.mode.getD 0 :: sm.modeStack, mode := some p.toNat }
      else (.oob, sm)
    else if ty = 2 then
      match sm.modeStack with
      | [] => (.error, sm)
      | top :: st => runPairs modes r rest { sm with mode := some top, modeStack := st }
    else if ty = 3 then (.accept, { sm with token := p, state := 0 })
    else if ty = 4 then (.discard, { sm with state := 0 })
    else if ty = 5 then (.tryAgain, { sm with state := 0 })
    else runPairs modes r rest sm

/-! ### Maximal munch (definitions for `Lox/Lex/MunchProofs.lean`) -/

/-- Number of runes the table consumes from state `q` on the input `s` before it has no
transition (or the input ends). -/
def scanLen (tbl : Mode) : Nat → List Int → Nat
  | _, [] => 0
  | q, c :: s =>
    match tableStep tbl q c with
    | none => 0
    | some q' => scanLen tbl q' s + 1

/-- State 0 is not accepting and no transition leads into state 0 (`splitStartState` in
`internal/lexergen/mode/mode.go` establishes the second; the first fails exactly when some rule
matches the empty string). The generated `PushRune` takes "state 0" to mean "nothing consumed
since the last token". -/
def startClean (tbl : Mode) : Bool :=
  (rowPairs tbl 0).isEmpty &&
  (List.range (nStates tbl)).all fun q =>
    match rowAt tbl q with
    | some row => row.trs.all fun t => decide (t.2.2 ≠ 0)
    | none => true

/-- `k` calls of `consume()`. -/
def Lx.advance (inp : Input) : Nat → Lx → Lx
  | 0, l => l
  | k + 1, l => Lx.advance inp k (l.consume inp)

/-- What `ReadToken` does with the result `x` of one `PushRune` call (the `switch` in
`simplelexer.ReadToken`; `readToken_eq_tokBody`: `readToken (n+1) start l` is `tokBody` applied to
`pushRune l.sm l.char`). `start` is the start offset of the token being read. -/
def tokBody (modes : Array Mode) (inp : Input) (n : Nat) (start : Nat) (l : Lx) (x : Res × SM) :
    Option (Option Tok × Lx) :=
  let l := { l with sm := x.2 }
  match x.1 with
  | .consume => readToken modes inp n (some start) (l.consume inp)
  | .accept => some (some (.tok x.2.token start l.offset), l)
  | .discard => readToken modes inp n none l
  | .tryAgain => readToken modes inp n (some start) l
  | .eof => some (some (.eof start), l)
  | .oob => some (none, l)
  | .error =>
    let c := l.char inp
    let l := skipLine inp (inp.size + 1) l
    let l := l.consume inp
    some (some (.err start c), { l with sm := l.sm.reset })

/-- The runes not yet consumed. -/
def Lx.rest (inp : Input) (l : Lx) : List Int := (inp.toList.drop l.idx).map (·.1)

/-- Push-mode actions name existing modes. -/
def pairsOK (nModes : Nat) (ps : List Pair) : Bool :=
  ps.all fun p => decide (p.1 ≠ 1) || decide (p.2.toNat < nModes)

/-- All mode tables of a lexer: each well formed, push-mode parameters in range. -/
def wfModes (modes : Array Mode) : Bool :=
  decide (1 ≤ modes.size) &&
  modes.toList.all fun m =>
    wfTable m && (List.range (nStates m)).all fun q => pairsOK modes.size (rowPairs m q)

/-- The state machine points into the tables: current mode and stacked modes exist, the state is
a state of the current mode. -/
def SMok (modes : Array Mode) (sm : SM) : Prop :=
  (∀ x ∈ sm.modeStack, x < modes.size) ∧
  ∃ m, modes[sm.mode.getD 0]? = some m ∧ ∃ q : Nat, sm.state = (q : Int) ∧ q < nStates m

/-! ### The checker -/

/-- A pair of the simulation: table state, one term set per rule. -/
abbrev Cfg := Nat × List (List Re)

/-- Pairs of the first rule whose term set contains a nullable term. -/
def labelOf : List (List Pair) → List (List Re) → List Pair
  | ps :: pss, ts :: v => if ts.any nullable then ps else labelOf pss v
  | _, _ => []

def clsBounds (cs : Cls) : List Int := cs.flatMap fun r => [r.1, r.2 + 1]

def rowBounds (row : Row) : List Int := row.trs.flatMap fun t => [t.1, t.2.1 + 1]

def vecBounds (v : List (List Re)) : List Int :=
  v.flatMap fun ts => ts.flatMap fun t => (firstCls t).flatMap clsBounds

/-- Ordered insertion without duplicates. -/
def insInt (a : Int) : List Int → List Int
  | [] => [a]
  | b :: l => if a = b then b :: l else if a < b then a :: b :: l else b :: insInt a l

/-- One representative per piece of the partition of the integers induced by the boundaries
`bs`: every boundary (= least element of its piece) and one point below all of them. -/
def reps (bs : List Int) : List Int :=
  ((bs.foldl min 0 - 1) :: bs).foldr insInt []

/-- A set of pairs indexed by table state: `ix[q]` lists the vectors paired with `q`. -/
abbrev Index := Array (List (List (List Re)))

def Index.has (ix : Index) (cfg : Cfg) : Bool := (ix.getD cfg.1 []).contains cfg.2

def Index.add (ix : Index) (cfg : Cfg) : Index := ix.modify cfg.1 (cfg.2 :: ·)

/-- The index of a list of pairs (states `< n`). -/
def mkIndex (n : Nat) (R : List Cfg) : Index :=
  ((List.range n).map fun q =>
    R.filterMap fun cfg => if cfg.1 = q then some cfg.2 else none).toArray

def checkCfg (pss : List (List Pair)) (tbl : Mode) (R : Index) (cfg : Cfg) : Bool :=
  match rowAt tbl cfg.1 with
  | none => false
  | some row =>
    decide (row.flags % 2 = 0) && decide (row.acts = labelOf pss cfg.2) &&
    (reps (rowBounds row ++ vecBounds cfg.2)).all fun c =>
      let v' := pdVec c cfg.2
      match (lookup row.trs c).map Int.toNat with
      | none => vecDead v'
      | some q' => !vecDead v' && R.has (q', v')

/-- Initial vector. -/
def initVec (rules : List (Re × List Pair)) : List (List Re) := rules.map fun r => [r.1]

/-- At least one rule; every class of every rule is non-empty; every rule has an action pair. -/
def rulesOK (rules : List (Re × List Pair)) : Bool :=
  !rules.isEmpty && rules.all fun r => r.1.clsOK && !r.2.isEmpty

/-- The trusted part of the validator: the candidate relation `R` (a list of pairs) contains the
initial pair, every member passes `checkCfg`. -/
def checkAll (rules : List (Re × List Pair)) (tbl : Mode) (R : List Cfg) : Bool :=
  let set := mkIndex (nStates tbl) R
  wfTable tbl && rulesOK rules && set.has (0, initVec rules) &&
  R.all (checkCfg (rules.map (·.2)) tbl set)

/-! ### Untrusted exploration and diagnostics -/

def succs (tbl : Mode) (cfg : Cfg) : List Cfg :=
  match rowAt tbl cfg.1 with
  | none => []
  | some row =>
    (reps (rowBounds row ++ vecBounds cfg.2)).filterMap fun c =>
      match lookup row.trs c with
      | none => none
      | some q' =>
        let v' := pdVec c cfg.2
        if vecDead v' then none else some (q'.toNat, v')

def explore (tbl : Mode) : Nat → List Cfg → Index → Array Cfg → Option (Array Cfg)
  | 0, _, _, _ => none
  | _ + 1, [], _, acc => some acc
  | n + 1, cfg :: work, seen, acc =>
    let new := (succs tbl cfg).foldl
      (fun (ws : List Cfg × Index) x =>
        if ws.2.has x then ws else (x :: ws.1, ws.2.add x)) (work, seen)
    explore tbl n new.1 new.2 (acc.push cfg)

def showPairs (ps : List Pair) : String :=
  "[" ++ " ".intercalate (ps.map fun p => toString p.1 ++ ":" ++ toString p.2) ++ "]"

/-- Why `checkCfg` fails on a pair (diagnostics only). -/
def explainCfg (pss : List (List Pair)) (tbl : Mode) (R : Index) (cfg : Cfg) : String :=
  let st := "state " ++ toString cfg.1 ++ ": "
  match rowAt tbl cfg.1 with
  | none => st ++ "no row"
  | some row =>
    if row.flags % 2 ≠ 0 then st ++ "non-greedy flag set"
    else if row.acts ≠ labelOf pss cfg.2 then
      st ++ "label table=" ++ showPairs row.acts ++ " rules=" ++ showPairs (labelOf pss cfg.2)
    else
      let bad := (reps (rowBounds row ++ vecBounds cfg.2)).filterMap fun c =>
        let v' := pdVec c cfg.2
        match (lookup row.trs c).map Int.toNat with
        | none => if vecDead v' then none
                  else some ("rune " ++ toString c ++ " rules continue, table has no transition")
        | some q' =>
          if vecDead v' then
            some ("rune " ++ toString c ++ " table goes to " ++ toString q' ++ ", no rule continues")
          else if R.has (q', v') then none
          else some ("rune " ++ toString c ++ " successor not explored")
      st ++ bad.headD "?"

def wfWhy (tbl : Mode) : String :=
  if nStates tbl < 1 then "no states"
  else if tbl.size < nStates tbl then "offset vector truncated"
  else
    let bad := (List.range (nStates tbl)).filterMap fun q =>
      match rowAt tbl q with
      | none => some ("state " ++ toString q ++ ": row out of range or inconsistent lengths")
      | some row =>
        if !sortedFrom (-1) row.trs then
          some ("state " ++ toString q ++ ": ranges not sorted/disjoint")
        else if rowOK (nStates tbl) row then none
        else some ("state " ++ toString q ++ ": range above 0x10FFFF or target out of range")
    bad.headD "?"

def exploreFuel : Nat := 1000000

/-- The validator. `.ok n`: `n` pairs explored, all checks passed. -/
def bisimN (rules : List (Re × List Pair)) (tbl : Mode) : Except String Nat :=
  if !wfTable tbl then .error ("wf " ++ wfWhy tbl)
  else if rules.isEmpty then .error "no rules"
  else
    match (List.range rules.length).find? (fun i => !(rules.getD i default).1.clsOK) with
    | some i => .error ("rule " ++ toString i ++ " has an empty class")
    | none =>
    match (List.range rules.length).find? (fun i => (rules.getD i default).2.isEmpty) with
    | some i => .error ("rule " ++ toString i ++ " has no action pairs")
    | none =>
      let init : Cfg := (0, initVec rules)
      match explore tbl exploreFuel [init] (mkIndex (nStates tbl) [init]) #[] with
      | none => .error "out of fuel"
      | some R =>
        let Rl := R.toList
        if checkAll rules tbl Rl then .ok Rl.length
        else
          let set := mkIndex (nStates tbl) Rl
          let pss := rules.map (·.2)
          match Rl.find? (fun cfg => !checkCfg pss tbl set cfg) with
          | some cfg => .error (explainCfg pss tbl set cfg)
          | none => .error "check failed"

def bisim (rules : List (Re × List Pair)) (tbl : Mode) : Except String Unit :=
  (bisimN rules tbl).map fun _ => ()

end Lox.Lex
