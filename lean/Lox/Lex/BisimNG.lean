import Lox.Lex.Bisim
import Lox.Lex.Spec
/-! Validator for modes with non-greedy rules (C08). Core Lean only.

Specification: a rule that contains a non-greedy repetition (`*?`, `+?`; `Re.hasNG`) matches the
SHORTEST texts of its language: `s` with `Matches r s` such that no proper prefix of `s` matches
`r`. Other rules keep their language. Viability and labels (`viableNG`, `labelNG`, `specRunNG`) are
as in `Spec.lean` over these languages.

Table side: unchanged (`tableStep` already ignores the transitions of a row whose non-greedy flag is
set, as `PushRune` does).

Checker: as `bisim`, but the term set of a non-greedy rule becomes empty once it contains a
nullable term (`stepSet`), and flagged rows are allowed. When a flagged row is labelled by a greedy
rule and cuts off rules that could continue (known finding K2: the non-greedy mark leaks to other
rules' accepting states) the checker fails with a `K2` message. -/
namespace Lox.Lex

/-- The expression contains a non-greedy repetition. -/
def Re.hasNG : Re → Bool
  | .eps => false
  | .cls _ => false
  | .seq r s => r.hasNG || s.hasNG
  | .alt r s => r.hasNG || s.hasNG
  | .star ng r => ng || r.hasNG

/-- No proper prefix of `s` matches `r`. -/
def NoProperPrefix (r : Re) (s : List Int) : Prop :=
  ∀ u v, s = u ++ v → v ≠ [] → ¬ Matches r u

/-- The language of a rule: all matches (greedy rule), shortest matches (non-greedy rule). -/
def RuleMatches (ng : Bool) (r : Re) (s : List Int) : Prop :=
  Matches r s ∧ (ng = true → NoProperPrefix r s)

def viableNG (rules : List Rule) (s : List Int) : Prop :=
  ∃ r ∈ rules, ∃ t, RuleMatches r.1.hasNG r.1 (s ++ t)

open Classical in
noncomputable def labelNG : List Rule → List Int → List Pair
  | [], _ => []
  | r :: rest, s => if RuleMatches r.1.hasNG r.1 s then r.2 else labelNG rest s

open Classical in
noncomputable def specRunNG (rules : List Rule) (s : List Int) : Option (List Pair) :=
  if viableNG rules s then some (labelNG rules s) else none

/-! ### Checker -/

/-- One step of a rule's term set: a non-greedy rule stops once it has matched. -/
def stepSet (ng : Bool) (c : Int) (ts : List Re) : List Re :=
  if ng && ts.any nullable then [] else pdSet c ts

def pdVecNG : List Bool → Int → List (List Re) → List (List Re)
  | ng :: ngs, c, ts :: v => stepSet ng c ts :: pdVecNG ngs c v
  | _, _, _ => []

def checkCfgNG (ngs : List Bool) (pss : List (List Pair)) (tbl : Mode) (R : Index) (cfg : Cfg) :
    Bool :=
  match rowAt tbl cfg.1 with
  | none => false
  | some row =>
    decide (row.acts = labelOf pss cfg.2) &&
    (reps (rowBounds row ++ vecBounds cfg.2)).all fun c =>
      let v' := pdVecNG ngs c cfg.2
      match (if row.flags % 2 = 0 then (lookup row.trs c).map Int.toNat else none) with
      | none => vecDead v'
      | some q' => !vecDead v' && R.has (q', v')

def checkAllNG (rules : List Rule) (tbl : Mode) (R : List Cfg) : Bool :=
  let set := mkIndex (nStates tbl) R
  wfTable tbl && rulesOK rules && set.has (0, initVec rules) &&
  R.all (checkCfgNG (rules.map (·.1.hasNG)) (rules.map (·.2)) tbl set)

/-! ### Untrusted exploration and diagnostics -/

def succsNG (ngs : List Bool) (tbl : Mode) (cfg : Cfg) : List Cfg :=
  match rowAt tbl cfg.1 with
  | none => []
  | some row =>
    if row.flags % 2 ≠ 0 then []
    else
      (reps (rowBounds row ++ vecBounds cfg.2)).filterMap fun c =>
        match lookup row.trs c with
        | none => none
        | some q' =>
          let v' := pdVecNG ngs c cfg.2
          if vecDead v' then none else some (q'.toNat, v')

def exploreNG (ngs : List Bool) (tbl : Mode) : Nat → List Cfg → Index → Array Cfg → Option (Array Cfg)
  | 0, _, _, _ => none
  | _ + 1, [], _, acc => some acc
  | n + 1, cfg :: work, seen, acc =>
    let new := (succsNG ngs tbl cfg).foldl
      (fun (ws : List Cfg × Index) x =>
        if ws.2.has x then ws else (x :: ws.1, ws.2.add x)) (work, seen)
    exploreNG ngs tbl n new.1 new.2 (acc.push cfg)

/-- Index of the first rule that is still alive in the vector, with its non-greedy mark. -/
def firstAlive : List Bool → List (List Re) → Nat → Option (Nat × Bool)
  | ng :: ngs, ts :: v, i => if ts.isEmpty then firstAlive ngs v (i + 1) else some (i, ng)
  | _, _, _ => none

/-- Index of the winning rule (first with a nullable term), with its non-greedy mark. -/
def winner : List Bool → List (List Re) → Nat → Option (Nat × Bool)
  | ng :: ngs, ts :: v, i => if ts.any nullable then some (i, ng) else winner ngs v (i + 1)
  | _, _, _ => none

def explainCfgNG (ngs : List Bool) (pss : List (List Pair)) (tbl : Mode) (R : Index) (cfg : Cfg) :
    String :=
  let st := "state " ++ toString cfg.1 ++ ": "
  match rowAt tbl cfg.1 with
  | none => st ++ "no row"
  | some row =>
    if row.acts ≠ labelOf pss cfg.2 then
      st ++ "label table=" ++ showPairs row.acts ++ " rules=" ++ showPairs (labelOf pss cfg.2)
    else
      let flagged := row.flags % 2 ≠ 0
      let bad := (reps (rowBounds row ++ vecBounds cfg.2)).filterMap fun c =>
        let v' := pdVecNG ngs c cfg.2
        match (if flagged then none else (lookup row.trs c).map Int.toNat) with
        | none =>
          if vecDead v' then none
          else if flagged then
            let who := match firstAlive ngs v' 0 with
              | some (i, ng) => " rule " ++ toString i ++ (if ng then " (non-greedy)" else " (greedy)")
              | none => ""
            match winner ngs cfg.2 0 with
            | some (w, false) =>
              some ("K2 flagged row labelled by greedy rule " ++ toString w ++ "; rune " ++ toString c
                ++ " cuts off" ++ who)
            | _ => some ("rune " ++ toString c ++ " non-greedy flag cuts off" ++ who)
          else some ("rune " ++ toString c ++ " rules continue, table has no transition")
        | some q' =>
          if vecDead v' then
            some ("rune " ++ toString c ++ " table goes to " ++ toString q' ++ ", no rule continues")
          else if R.has (q', v') then none
          else some ("rune " ++ toString c ++ " successor not explored")
      st ++ bad.headD "?"

/-- The validator for modes with non-greedy rules. `.ok n`: `n` pairs explored. -/
def bisimNGN (rules : List Rule) (tbl : Mode) : Except String Nat :=
  if !wfTable tbl then .error ("wf " ++ wfWhy tbl)
  else if rules.isEmpty then .error "no rules"
  else
    match (List.range rules.length).find? (fun i => !(rules.getD i default).1.clsOK) with
    | some i => .error ("rule " ++ toString i ++ " has an empty class")
    | none =>
    match (List.range rules.length).find? (fun i => (rules.getD i default).2.isEmpty) with
    | some i => .error ("rule " ++ toString i ++ " has no action pairs")
    | none =>
      let init : Cfg := (0, initVec rules)
      let ngs := rules.map (·.1.hasNG)
      match exploreNG ngs tbl exploreFuel [init] (mkIndex (nStates tbl) [init]) #[] with
      | none => .error "out of fuel"
      | some R =>
        let Rl := R.toList
        if checkAllNG rules tbl Rl then .ok Rl.length
        else
          let set := mkIndex (nStates tbl) Rl
          let pss := rules.map (·.2)
          match Rl.find? (fun cfg => !checkCfgNG ngs pss tbl set cfg) with
          | some cfg => .error (explainCfgNG ngs pss tbl set cfg)
          | none => .error "check failed"

def bisimNG (rules : List Rule) (tbl : Mode) : Except String Unit :=
  (bisimNGN rules tbl).map fun _ => ()

end Lox.Lex
