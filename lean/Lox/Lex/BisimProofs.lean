import Lox.Lex.Bisim
import Lox.Lex.Spec
import Lox.Lex.RegexProofs
/-! Soundness of the lexer-table validator `bisim` (`Lox/Lex/Bisim.lean`). -/
namespace Lox.Lex

/-! ### Representatives of the pieces -/

/-- `c` and `c'` lie in the same piece of the partition induced by the boundaries `bs`. -/
def SamePiece (bs : List Int) (c c' : Int) : Prop := ∀ b ∈ bs, (b ≤ c ↔ b ≤ c')

theorem foldl_min_le (bs : List Int) : ∀ (a : Int), bs.foldl min a ≤ a ∧ ∀ b ∈ bs, bs.foldl min a ≤ b := by
  induction bs with
  | nil => intro a; simp
  | cons x bs ih =>
    intro a
    simp only [List.foldl_cons, List.mem_cons, forall_eq_or_imp]
    obtain ⟨h1, h2⟩ := ih (min a x)
    refine ⟨by omega, by omega, h2⟩

theorem mem_insInt {a x : Int} {l : List Int} : x ∈ insInt a l ↔ x = a ∨ x ∈ l := by
  induction l with
  | nil => simp [insInt]
  | cons b l ih =>
    unfold insInt
    split
    · rename_i h; subst h; simp
    · split
      · simp
      · simp only [List.mem_cons, ih]
        constructor
        · rintro (h | h | h) <;> simp [h]
        · rintro (h | h | h) <;> simp [h]

theorem mem_foldr_insInt {x : Int} {l : List Int} : x ∈ l.foldr insInt [] ↔ x ∈ l := by
  induction l with
  | nil => simp
  | cons a l ih => simp only [List.foldr_cons, mem_insInt, ih, List.mem_cons]

theorem mem_reps {bs : List Int} {x : Int} :
    x ∈ reps bs ↔ x = bs.foldl min 0 - 1 ∨ x ∈ bs := by
  unfold reps
  rw [mem_foldr_insInt]
  simp

theorem mkIndex_has {n : Nat} {R : List Cfg} {q : Nat} {v : List (List Re)}
    (h : (mkIndex n R).has (q, v) = true) : (q, v) ∈ R := by
  unfold Index.has mkIndex at h
  simp only [List.contains_eq_mem, decide_eq_true_eq] at h
  rw [Array.getD_eq_getD_getElem?] at h
  simp only [List.getElem?_toArray, List.getElem?_map] at h
  by_cases hq : q < n
  · rw [List.getElem?_range hq] at h
    simp only [Option.map_some, Option.getD_some, List.mem_filterMap] at h
    obtain ⟨cfg, hcfg, hif⟩ := h
    split at hif
    · rename_i he
      simp only [Option.some.injEq] at hif
      have : cfg = (q, v) := by
        cases cfg; simp only at he hif; subst he; subst hif; rfl
      rw [← this]; exact hcfg
    · cases hif
  · have : (List.range n)[q]? = none := by simp; omega
    rw [this] at h
    simp at h

/-- Among the boundaries below `c` there is a greatest one. -/
theorem exists_max_below (c : Int) : ∀ (bs : List Int), (∃ b ∈ bs, b ≤ c) →
    ∃ m ∈ bs, m ≤ c ∧ ∀ b ∈ bs, b ≤ c → b ≤ m := by
  intro bs
  induction bs with
  | nil => rintro ⟨b, hb, _⟩; simp at hb
  | cons x bs ih =>
    rintro ⟨b, hb, hbc⟩
    by_cases hex : ∃ b ∈ bs, b ≤ c
    · obtain ⟨m, hm, hmc, hmax⟩ := ih hex
      by_cases hx : x ≤ c ∧ m < x
      · refine ⟨x, by simp, hx.1, ?_⟩
        intro b hb hbc
        rcases List.mem_cons.mp hb with rfl | hb
        · exact Int.le_refl _
        · have := hmax b hb hbc; omega
      · refine ⟨m, by simp [hm], hmc, ?_⟩
        intro b hb hbc
        rcases List.mem_cons.mp hb with rfl | hb
        · omega
        · exact hmax b hb hbc
    · have hbx : b = x := by
        rcases List.mem_cons.mp hb with h | h
        · exact h
        · exact absurd ⟨b, h, hbc⟩ hex
      subst hbx
      refine ⟨b, by simp, hbc, ?_⟩
      intro b' hb' hb'c
      rcases List.mem_cons.mp hb' with rfl | hb'
      · exact Int.le_refl _
      · exact absurd ⟨b', hb', hb'c⟩ hex

/-- Every integer has a representative in its piece. -/
theorem reps_cover (bs : List Int) (c : Int) : ∃ c' ∈ reps bs, SamePiece bs c c' := by
  by_cases hex : ∃ b ∈ bs, b ≤ c
  · obtain ⟨m, hm, hmc, hmax⟩ := exists_max_below c bs hex
    refine ⟨m, mem_reps.mpr (.inr hm), ?_⟩
    intro b hb
    constructor
    · exact hmax b hb
    · intro h; omega
  · refine ⟨bs.foldl min 0 - 1, mem_reps.mpr (.inl rfl), ?_⟩
    intro b hb
    have h1 : ¬ b ≤ c := fun h => hex ⟨b, hb, h⟩
    have h2 := (foldl_min_le bs 0).2 b hb
    constructor
    · intro h; exact absurd h h1
    · intro h; omega

theorem SamePiece.mono {bs bs' : List Int} {c c' : Int} (h : SamePiece bs c c')
    (hsub : ∀ b ∈ bs', b ∈ bs) : SamePiece bs' c c' :=
  fun b hb => h b (hsub b hb)

/-! ### Uniformity on a piece -/

theorem inCls_congr {cs : Cls} {c c' : Int} (h : SamePiece (clsBounds cs) c c') :
    inCls cs c = inCls cs c' := by
  unfold inCls
  induction cs with
  | nil => rfl
  | cons r cs ih =>
    have h1 := h r.1 (by simp [clsBounds])
    have h2 := h (r.2 + 1) (by simp [clsBounds])
    have ih' := ih (h.mono (by
      intro b hb
      simp only [clsBounds, List.flatMap_cons, List.mem_append] at hb ⊢
      exact .inr hb))
    simp only [List.any_cons, ih']
    congr 1
    have e1 : decide (r.1 ≤ c) = decide (r.1 ≤ c') := by simp [h1]
    have e2 : decide (c ≤ r.2) = decide (c' ≤ r.2) := by
      have : c ≤ r.2 ↔ c' ≤ r.2 := by omega
      simp [this]
    rw [e1, e2]

theorem lookup_congr {trs : List Triple} {c c' : Int}
    (h : SamePiece (trs.flatMap fun t => [t.1, t.2.1 + 1]) c c') :
    lookup trs c = lookup trs c' := by
  induction trs with
  | nil => rfl
  | cons t trs ih =>
    obtain ⟨lo, hi, tg⟩ := t
    have h1 := h lo (by simp)
    have h2 := h (hi + 1) (by simp)
    have ih' := ih (h.mono (by
      intro b hb
      simp only [List.flatMap_cons, List.mem_append] at hb ⊢
      exact .inr hb))
    simp only [lookup, ih']
    have : (lo ≤ c ∧ c ≤ hi) ↔ (lo ≤ c' ∧ c' ≤ hi) := by omega
    simp only [this]

theorem mem_vecBounds {v : List (List Re)} {ts : List Re} {t : Re} {cs : Cls} {b : Int}
    (hts : ts ∈ v) (ht : t ∈ ts) (hcs : cs ∈ firstCls t) (hb : b ∈ clsBounds cs) :
    b ∈ vecBounds v := by
  simp only [vecBounds, List.mem_flatMap]
  exact ⟨ts, hts, t, ht, cs, hcs, hb⟩

theorem pdVec_samePiece {v : List (List Re)} {c c' : Int} (h : SamePiece (vecBounds v) c c') :
    pdVec c v = pdVec c' v := by
  apply pdVec_congr
  intro ts hts t ht cs hcs
  exact inCls_congr (h.mono fun b hb => mem_vecBounds hts ht hcs hb)

/-! ### What the checker establishes -/

/-- The step property of one pair of the relation `R`. -/
def CfgOK (pss : List (List Pair)) (tbl : Mode) (R : List Cfg) (q : Nat) (v : List (List Re)) : Prop :=
  ∃ row, rowAt tbl q = some row ∧ row.flags % 2 = 0 ∧ row.acts = labelOf pss v ∧
    ∀ c : Int,
      match tableStep tbl q c with
      | none => vecDead (pdVec c v) = true
      | some q' => vecDead (pdVec c v) = false ∧ (q', pdVec c v) ∈ R

theorem checkCfg_sound {pss : List (List Pair)} {tbl : Mode} {R : List Cfg} {q : Nat}
    {v : List (List Re)} {n : Nat} (h : checkCfg pss tbl (mkIndex n R) (q, v) = true) :
    CfgOK pss tbl R q v := by
  unfold checkCfg at h
  simp only at h
  split at h
  · simp at h
  · rename_i row hrow
    simp only [Bool.and_eq_true, decide_eq_true_eq, List.all_eq_true] at h
    obtain ⟨⟨hflags, hacts⟩, hall⟩ := h
    refine ⟨row, hrow, hflags, hacts, ?_⟩
    intro c
    obtain ⟨c', hc', hsame⟩ := reps_cover (rowBounds row ++ vecBounds v) c
    have hl : lookup row.trs c = lookup row.trs c' :=
      lookup_congr (hsame.mono (by intro b hb; simp only [rowBounds] at *; simp [hb]))
    have hp : pdVec c v = pdVec c' v :=
      pdVec_samePiece (hsame.mono (by intro b hb; simp [hb]))
    have hstep : tableStep tbl q c = (lookup row.trs c').map Int.toNat := by
      simp only [tableStep, hrow, hflags, ↓reduceIte, hl]
    have := hall c' hc'
    rw [hstep, hp]
    split at this
    · rename_i hnone
      rw [hnone]; exact this
    · rename_i q' hsome
      rw [hsome]
      simp only [Bool.and_eq_true, Bool.not_eq_true'] at this
      refine ⟨this.1, ?_⟩
      exact mkIndex_has this.2

/-- `checkAll` as a proposition. -/
structure Closed (rules : List Rule) (tbl : Mode) (R : List Cfg) : Prop where
  wf : wfTable tbl = true
  rulesOK : rulesOK rules = true
  init : (0, initVec rules) ∈ R
  step : ∀ q v, (q, v) ∈ R → CfgOK (rules.map (·.2)) tbl R q v

theorem checkAll_sound {rules : List Rule} {tbl : Mode} {R : List Cfg}
    (h : checkAll rules tbl R = true) : Closed rules tbl R := by
  unfold checkAll at h
  simp only [Bool.and_eq_true, List.all_eq_true] at h
  obtain ⟨⟨⟨hwf, hrules⟩, hinit⟩, hall⟩ := h
  refine ⟨hwf, hrules, ?_, ?_⟩
  · exact mkIndex_has hinit
  · intro q v hqv
    exact checkCfg_sound (hall (q, v) hqv)

theorem bisimN_ok {rules : List Rule} {tbl : Mode} {n : Nat} (h : bisimN rules tbl = .ok n) :
    ∃ R, checkAll rules tbl R = true := by
  unfold bisimN at h
  split at h
  · cases h
  · split at h
    · cases h
    · split at h
      · cases h
      · split at h
        · cases h
        · simp only at h
          split at h
          · cases h
          · rename_i R _
            split at h
            · rename_i hc; exact ⟨_, hc⟩
            · split at h <;> cases h

theorem bisim_ok {rules : List Rule} {tbl : Mode} (h : bisim rules tbl = .ok ()) :
    ∃ R, Closed rules tbl R := by
  unfold bisim at h
  cases hb : bisimN rules tbl with
  | error e => rw [hb] at h; cases h
  | ok n =>
    obtain ⟨R, hR⟩ := bisimN_ok hb
    exact ⟨R, checkAll_sound hR⟩

/-! ### Runs -/

theorem run_inv {rules : List Rule} {tbl : Mode} {R : List Cfg} (hC : Closed rules tbl R) :
    ∀ (s : List Int) (q : Nat) (v : List (List Re)), (q, v) ∈ R → vecDead v = false →
      match tableRunFrom tbl q s with
      | none => vecDead (pdVecW s v) = true
      | some q' => vecDead (pdVecW s v) = false ∧ (q', pdVecW s v) ∈ R := by
  intro s
  induction s with
  | nil => intro q v hqv hd; exact ⟨hd, hqv⟩
  | cons c s ih =>
    intro q v hqv hd
    obtain ⟨row, _, _, _, hstep⟩ := hC.step q v hqv
    have hc := hstep c
    simp only [tableRunFrom, pdVecW_cons]
    split at hc
    · rename_i hnone
      rw [hnone]
      exact vecDead_pdVecW s _ hc
    · rename_i q' hsome
      rw [hsome]
      exact ih q' _ hc.2 hc.1

/-! ### The term sets represent the residual languages of the rules -/

/-- `v` represents the rules after reading `u`: the `i`-th term set denotes
`{w | rules[i] matches u ++ w}`, and all its terms have non-empty classes. -/
def Rep : List (List Re) → List Rule → List Int → Prop
  | [], [], _ => True
  | ts :: v, r :: rs, u =>
    (∀ w, SetMatches ts w ↔ Matches r.1 (u ++ w)) ∧ (∀ t ∈ ts, t.clsOK = true) ∧ Rep v rs u
  | _, _, _ => False

theorem rep_init : ∀ (rules : List Rule), (∀ r ∈ rules, r.1.clsOK = true) →
    Rep (initVec rules) rules [] := by
  intro rules
  induction rules with
  | nil => intro _; trivial
  | cons r rs ih =>
    intro h
    refine ⟨?_, ?_, ih (fun r hr => h r (by simp [hr]))⟩
    · intro w; simp [SetMatches]
    · intro t ht
      simp only [List.mem_singleton] at ht
      subst ht
      exact h r (by simp)

theorem rep_step (c : Int) (u : List Int) : ∀ (v : List (List Re)) (rules : List Rule),
    Rep v rules u → Rep (pdVec c v) rules (u ++ [c]) := by
  intro v
  induction v with
  | nil => intro rules h; cases rules with
    | nil => trivial
    | cons _ _ => exact h.elim
  | cons ts v ih =>
    intro rules h
    cases rules with
    | nil => exact h.elim
    | cons r rs =>
      obtain ⟨h1, h2, h3⟩ := h
      refine ⟨?_, clsOK_pdSet c ts h2, ih rs h3⟩
      intro w
      rw [pdSet_iff, h1]
      simp

theorem rep_word (s : List Int) : ∀ (u : List Int) (v : List (List Re)) (rules : List Rule),
    Rep v rules u → Rep (pdVecW s v) rules (u ++ s) := by
  induction s with
  | nil => intro u v rules h; simpa [pdVecW_nil] using h
  | cons c s ih =>
    intro u v rules h
    rw [pdVecW_cons]
    have := ih (u ++ [c]) _ rules (rep_step c u v rules h)
    simpa using this

theorem setMatches_of_clsOK {ts : List Re} (h : ∀ t ∈ ts, t.clsOK = true) (hne : ts ≠ []) :
    ∃ w, SetMatches ts w := by
  cases ts with
  | nil => exact absurd rfl hne
  | cons t ts =>
    obtain ⟨w, hw⟩ := clsOK_matches t (h t (by simp))
    exact ⟨w, t, by simp, hw⟩

theorem rep_viable (u : List Int) : ∀ (v : List (List Re)) (rules : List Rule), Rep v rules u →
    (viable rules u ↔ vecDead v = false) := by
  intro v
  induction v with
  | nil =>
    intro rules h
    cases rules with
    | nil => simp [viable, vecDead]
    | cons _ _ => exact h.elim
  | cons ts v ih =>
    intro rules h
    cases rules with
    | nil => exact h.elim
    | cons r rs =>
      obtain ⟨h1, h2, h3⟩ := h
      have ih' := ih rs h3
      have hv : viable (r :: rs) u ↔ (∃ t, Matches r.1 (u ++ t)) ∨ viable rs u := by
        simp [viable]
      rw [hv, ih']
      simp only [vecDead, List.all_cons, Bool.and_eq_false_iff]
      constructor
      · rintro (⟨w, hw⟩ | h)
        · left
          obtain ⟨t, ht, _⟩ := (h1 w).mpr hw
          cases ts with
          | nil => simp at ht
          | cons _ _ => rfl
        · right; exact h
      · rintro (h | h)
        · left
          have hne : ts ≠ [] := by intro he; subst he; simp at h
          obtain ⟨w, hw⟩ := setMatches_of_clsOK h2 hne
          exact ⟨w, (h1 w).mp hw⟩
        · right; exact h

theorem rep_label (u : List Int) : ∀ (v : List (List Re)) (rules : List Rule), Rep v rules u →
    label rules u = labelOf (rules.map (·.2)) v := by
  intro v
  induction v with
  | nil =>
    intro rules h
    cases rules with
    | nil => rfl
    | cons _ _ => exact h.elim
  | cons ts v ih =>
    intro rules h
    cases rules with
    | nil => exact h.elim
    | cons r rs =>
      obtain ⟨h1, _, h3⟩ := h
      have hm : Matches r.1 u ↔ ts.any nullable = true := by
        have := h1 []
        simp only [List.append_nil] at this
        rw [← this, List.any_eq_true]
        constructor
        · rintro ⟨t, ht, hm⟩; exact ⟨t, ht, (nullable_iff t).mpr hm⟩
        · rintro ⟨t, ht, hm⟩; exact ⟨t, ht, (nullable_iff t).mp hm⟩
      simp only [label, List.map_cons, labelOf]
      by_cases hn : ts.any nullable = true
      · simp [hn, hm.mpr hn]
      · have : ¬ Matches r.1 u := fun h => hn (hm.mp h)
        simp [hn, this, ih rs h3]

theorem rulesOK_iff {rules : List Rule} : rulesOK rules = true ↔
    rules ≠ [] ∧ ∀ r ∈ rules, r.1.clsOK = true ∧ r.2 ≠ [] := by
  simp [rulesOK, List.all_eq_true]

theorem initVec_not_dead {rules : List Rule} (h : rules ≠ []) : vecDead (initVec rules) = false := by
  cases rules with
  | nil => exact absurd rfl h
  | cons r rs => simp [initVec, vecDead]

/-- Main lemma: a closed relation makes the table compute the specification. -/
theorem closed_sound {rules : List Rule} {tbl : Mode} {R : List Cfg} (hC : Closed rules tbl R)
    (s : List Int) : tableRun tbl s = specRun rules s := by
  obtain ⟨hne, hok⟩ := rulesOK_iff.mp hC.rulesOK
  have hrun := run_inv hC s 0 (initVec rules) hC.init (initVec_not_dead hne)
  have hrep : Rep (pdVecW s (initVec rules)) rules s := by
    simpa using rep_word s [] _ rules (rep_init rules (fun r hr => (hok r hr).1))
  have hvi := rep_viable s _ rules hrep
  have hla := rep_label s _ rules hrep
  unfold tableRun specRun
  split at hrun
  · rename_i hnone
    have : ¬ viable rules s := by rw [hvi, hrun]; simp
    simp [hnone, this]
  · rename_i q' hsome
    obtain ⟨hnd, hmem⟩ := hrun
    obtain ⟨row, hrow, _, hacts, _⟩ := hC.step q' _ hmem
    have : viable rules s := hvi.mpr hnd
    simp [hsome, this, rowPairs, hrow, hacts, hla]

end Lox.Lex
