import Lox.Lex.GenNormProofs
import Lox.Lex.GenNFAViable
/-! `pickAction` and the label of a DFA state of the subset construction: the winning rule after
`w` is the earliest rule matching `w`; the state exists iff `w` is viable. -/
namespace Lox.Lex.Gen
open Lox.Rang3

theorem mem_actionSet (m : NFA) (S : List Nat) (i : Nat) :
    i ∈ actionSet m S ↔ ∃ q ∈ S, (q, i) ∈ m.acc := by
  simp only [actionSet, List.mem_flatMap, List.mem_filterMap]
  constructor
  · rintro ⟨q, hq, a, ha, h⟩
    split at h
    · rename_i hc; cases h; exact ⟨q, hq, by rw [← hc]; exact ha⟩
    · cases h
  · rintro ⟨q, hq, ha⟩
    exact ⟨q, hq, (q, i), ha, by simp⟩

theorem foldl_min_spec (rest : List Nat) : ∀ (a : Nat),
    (rest.foldl (fun w i => if i < w then i else w) a) ∈ a :: rest ∧
    ∀ j ∈ a :: rest, rest.foldl (fun w i => if i < w then i else w) a ≤ j := by
  induction rest with
  | nil => intro a; simp
  | cons b rest ih =>
    intro a
    simp only [List.foldl_cons]
    have hx : (if b < a then b else a) ≤ a ∧ (if b < a then b else a) ≤ b ∧
        ((if b < a then b else a) = a ∨ (if b < a then b else a) = b) := by
      split <;> omega
    generalize (if b < a then b else a) = x at hx
    obtain ⟨h1, h2⟩ := ih x
    refine ⟨?_, ?_⟩
    · rcases List.mem_cons.mp h1 with h | h
      · rw [h]; rcases hx.2.2 with h' | h' <;> simp [h']
      · simp [h]
    · intro j hj
      have hm := h2 x (by simp)
      rcases List.mem_cons.mp hj with rfl | hj
      · omega
      · rcases List.mem_cons.mp hj with rfl | hj
        · omega
        · exact h2 j (by simp [hj])

/-- `pickAction` returns the least rule index among the accepting NFA states (`none` if there is
none): the earliest source position wins. -/
theorem pickAction_spec (m : NFA) (S : List Nat) :
    (pickAction m S = none ↔ ∀ i, i ∉ actionSet m S) ∧
    (∀ i, pickAction m S = some i ↔ i ∈ actionSet m S ∧ ∀ j ∈ actionSet m S, i ≤ j) := by
  unfold pickAction
  cases h : actionSet m S with
  | nil => simp
  | cons a rest =>
    obtain ⟨h1, h2⟩ := foldl_min_spec rest a
    refine ⟨⟨fun h => (by cases h), fun h => absurd List.mem_cons_self (h a)⟩, ?_⟩
    intro i
    simp only [Option.some.injEq]
    constructor
    · rintro rfl; exact ⟨h1, h2⟩
    · rintro ⟨hi, hle⟩
      have := hle _ h1
      have := h2 i hi
      omega

/-- `o` is the earliest rule matching `w` (`none`: no rule matches). -/
def IsWinner (rules : List Rx) (w : List Int) : Option Nat → Prop
  | none => ∀ r ∈ rules, ¬ Matches r.toRe w
  | some i => (∃ r, rules[i]? = some r ∧ Matches r.toRe w) ∧
      ∀ j r, j < i → rules[j]? = some r → ¬ Matches r.toRe w

/-- `pickAction` on the exact set of NFA states reached by `w` picks the earliest matching rule. -/
theorem pickAction_winner (rules : List Rx) (m : NFA) (hacc : m.acc = (modeNFA rules).acc)
    (hstart : m.start = (modeNFA rules).start)
    (hpath : ∀ p w q, Path m.edges p w q ↔ Path (modeNFA rules).edges p w q)
    (w : List Int) (S : List Nat) (hS : ∀ q, q ∈ S ↔ Path m.edges m.start w q) :
    IsWinner rules w (pickAction m S) := by
  have hmem : ∀ i, i ∈ actionSet m S ↔ ∃ r, rules[i]? = some r ∧ Matches r.toRe w := by
    intro i
    rw [mem_actionSet, ← modeNFA_label]
    constructor
    · rintro ⟨q, hq, ha⟩
      exact ⟨q, by rw [← hstart, ← hpath]; exact (hS q).1 hq, hacc ▸ ha⟩
    · rintro ⟨q, hq, ha⟩
      exact ⟨q, (hS q).2 (by rw [hpath, hstart]; exact hq), hacc ▸ ha⟩
  obtain ⟨hnone, hsome⟩ := pickAction_spec m S
  cases hp : pickAction m S with
  | none =>
    intro r hr hm
    obtain ⟨i, hi⟩ := List.mem_iff_getElem?.1 hr
    exact hnone.1 hp i ((hmem i).2 ⟨r, hi, hm⟩)
  | some i =>
    obtain ⟨hi, hle⟩ := (hsome i).1 hp
    refine ⟨(hmem i).1 hi, ?_⟩
    intro j r hj hr hm
    have := hle j ((hmem j).2 ⟨r, hr, hm⟩)
    omega

/-! ### Labels of the mode NFA are valid ranges -/

theorem litEdges_labels (cps : List Int) (p : Nat) :
    ∀ ed ∈ litEdges cps p, ∀ r, ed.lbl = some r → Valid r := by
  induction cps generalizing p with
  | nil => intro ed h; simp [litEdges] at h
  | cons c cs ih =>
    intro ed h r hr
    simp only [litEdges, List.mem_cons] at h
    rcases h with rfl | h
    · simp only [Option.some.injEq] at hr; subst hr; exact Int.le_refl c
    · exact ih (p + 1) ed h r hr

theorem clsEdges_labels (cs : Cls) (hv : ∀ x ∈ cs, x.1 ≤ x.2) (b e p : Nat) :
    ∀ ed ∈ clsEdges cs b e p, ∀ r, ed.lbl = some r → Valid r := by
  induction cs generalizing p with
  | nil => intro ed h; simp [clsEdges] at h
  | cons x cs ih =>
    intro ed h r hr
    simp only [clsEdges, List.mem_cons] at h
    rcases h with rfl | rfl | rfl | h
    · simp only [Option.some.injEq] at hr; subst hr; exact hv x (by simp)
    · cases hr
    · cases hr
    · exact ih (fun y hy => hv y (by simp [hy])) (p + 2) ed h r hr

mutual
theorem th_labels_valid : ∀ (r : Rx) (n : Nat), r.clsOK = true →
    ∀ ed ∈ (th r n).edges, ∀ x, ed.lbl = some x → Valid x
  | .lit cps, n, _ => by simp only [th]; exact litEdges_labels cps n
  | .cls cs, n, hok => by
    simp only [Rx.clsOK, Bool.and_eq_true, List.all_eq_true, decide_eq_true_eq] at hok
    simp only [th]; exact clsEdges_labels cs hok.2 n (n + 1) (n + 2)
  | .seq r s, n, hok => by
    simp only [Rx.clsOK, Bool.and_eq_true] at hok
    intro ed h x hx
    simp only [th, List.mem_append, List.mem_singleton] at h
    rcases h with (h | h) | rfl
    · exact th_labels_valid r n hok.1 ed h x hx
    · exact th_labels_valid s _ hok.2 ed h x hx
    · cases hx
  | .alt r rest, n, hok => by
    simp only [Rx.clsOK, Bool.and_eq_true] at hok
    intro ed h x hx
    simp only [th, List.mem_append, List.mem_cons, List.not_mem_nil, or_false] at h
    rcases h with (h | rfl | rfl) | h
    · exact th_labels_valid r _ hok.1 ed h x hx
    · cases hx
    · cases hx
    · exact thAlts_labels_valid rest _ _ _ hok.2 ed h x hx
  | .opt r, n, hok => by
    simp only [Rx.clsOK] at hok
    intro ed h x hx
    simp only [th, List.mem_append, List.mem_cons, List.not_mem_nil, or_false] at h
    rcases h with h | rfl | rfl | rfl
    · exact th_labels_valid r n hok ed h x hx
    all_goals cases hx
  | .star ng r, n, hok => by
    simp only [Rx.clsOK] at hok
    intro ed h x hx
    simp only [th, List.mem_append, List.mem_cons, List.not_mem_nil, or_false] at h
    rcases h with h | rfl | rfl | rfl | rfl
    · exact th_labels_valid r n hok ed h x hx
    all_goals cases hx
  | .plus ng r, n, hok => by
    simp only [Rx.clsOK] at hok
    intro ed h x hx
    simp only [th, List.mem_append, List.mem_cons, List.not_mem_nil, or_false] at h
    rcases h with h | rfl | rfl | rfl
    · exact th_labels_valid r n hok ed h x hx
    all_goals cases hx
theorem thAlts_labels_valid : ∀ (a : Alts) (b e n : Nat), a.clsOK = true →
    ∀ ed ∈ (thAlts a b e n).edges, ∀ x, ed.lbl = some x → Valid x
  | .last r, b, e, n, hok => by
    simp only [Alts.clsOK] at hok
    intro ed h x hx
    simp only [thAlts, List.mem_append, List.mem_cons, List.not_mem_nil, or_false] at h
    rcases h with h | rfl | rfl
    · exact th_labels_valid r n hok ed h x hx
    all_goals cases hx
  | .more r rest, b, e, n, hok => by
    simp only [Alts.clsOK, Bool.and_eq_true] at hok
    intro ed h x hx
    simp only [thAlts, List.mem_append, List.mem_cons, List.not_mem_nil, or_false] at h
    rcases h with (h | rfl | rfl) | h
    · exact th_labels_valid r n hok.1 ed h x hx
    · cases hx
    · cases hx
    · exact thAlts_labels_valid rest _ _ _ hok.2 ed h x hx
end

theorem modeNFA_validLabels (rules : List Rx) (hok : ∀ r ∈ rules, r.clsOK = true) :
    ValidLabels (modeNFA rules).edges := by
  intro x hx
  obtain ⟨ed, hed, hl⟩ := (mem_labels _ x).1 hx
  simp only [modeNFA, List.mem_append, List.mem_flatMap, List.mem_map] at hed
  rcases hed with ⟨g, hg, hedg⟩ | ⟨g, _, rfl⟩
  · obtain ⟨j, hj⟩ := List.mem_iff_getElem?.1 hg
    obtain ⟨r', m', hr', hg', _⟩ := ruleFrags_get rules 0 j g hj
    subst hg'
    exact th_labels_valid r' m' (hok r' (List.mem_of_getElem? hr')) ed hedg x hl
  · cases hl

/-- **`subset_label`**: build the mode NFA of `rules`, normalise its inputs, run the subset
construction. After any word `w` the DFA is in a state iff `w` is viable; the NFA states of that
state are exactly the states the mode NFA can be in after `w`, and `pickAction` on it returns the
earliest rule matching `w`. -/
theorem subset_label (rules : List Rx) (hne : rules ≠ []) (hok : ∀ r ∈ rules, r.clsOK = true) :
    ∃ m', normalizeNFA (modeNFA rules) = some m' ∧
      ∀ fuel d, subset m' fuel = some d → ∀ w,
        ((d.run 0 w).isSome ↔ Viable rules w) ∧
        ∀ j, d.run 0 w = some j → ∃ s, d.states[j]? = some s ∧
          (∀ q, q ∈ s.nfa ↔ Path (modeNFA rules).edges (modeNFA rules).start w q) ∧
          IsWinner rules w (pickAction m' s.nfa) := by
  obtain ⟨m', hm', hstart, hacc, _, _, hpd, _, hpath⟩ :=
    normalizeNFA_spec (modeNFA rules) (modeNFA_validLabels rules hok)
  refine ⟨m', hm', ?_⟩
  intro fuel d hd w
  obtain ⟨h1, h2⟩ := subset_correct m' hpd fuel d hd w
  refine ⟨?_, ?_⟩
  · rw [← modeNFA_viable rules hne hok w]
    constructor
    · intro hs
      obtain ⟨j, hj⟩ := Option.isSome_iff_exists.1 hs
      obtain ⟨s, _, hs2, _, hs4⟩ := h1 j hj
      cases hn : s.nfa with
      | nil => exact absurd hn hs4
      | cons q _ =>
        have hq : q ∈ s.nfa := by rw [hn]; simp
        exact ⟨q, by rw [← hstart, ← hpath]; exact (hs2 q).1 hq⟩
    · rintro ⟨q, hq⟩
      cases hrun : d.run 0 w with
      | none => exact absurd ((hpath _ _ _).2 (hstart ▸ hq)) (h2 hrun q)
      | some j => rfl
  · intro j hj
    obtain ⟨s, hs1, hs2, _, _⟩ := h1 j hj
    refine ⟨s, hs1, ?_, pickAction_winner rules m' hacc hstart hpath w s.nfa hs2⟩
    intro q
    rw [hs2, hpath, hstart]

end Lox.Lex.Gen
