import Lox.Drv.Common
import Lox.Lex.DrvGen
import Lox.Lex.EmitModel
/-! Driver ops of the emission model (family `lexemit`, harness/drv/ops_lexemit.go).

`lex.emit <count> | acc ng winner : nfa ids : b e t  b e t … : ty p  ty p … | …`
    One section per state in ID order, in the DFA dump format of `lex.build` / `lex.optimize`
    (`Lox/Lex/DrvGen.lean`) with a fourth subsection: the action pairs of the state. `winner` and
    the NFA ids are not used by the emission. Transitions in any order (the order of
    `Transitions.ForEach`); targets are state IDs. Answer: `emitMode`, the `_lexerModeN` array as
    space separated integers (`panic AddRow` for `none`).
`lex.genmode <rules> | <pairs of rule 0> ; <pairs of rule 1> ; …`
    Rules in the rich prefix code of `lex.build`, separated by `;`; per rule its action pairs
    `ty p ty p …`. Answer: `canonMode (genMode …)`, the emitted array after renumbering the states
    breadth first from state 0 (the real `NFAToDFA` numbers the states by a depth-first walk, the
    model by order of creation).
`lex.genmoderaw …`  the same without the renumbering (`genMode`). -/
namespace Lox.Lex.Gen
open Lox.Drv Lox.Rang3

def toPairs2 : List Int → Option (List Pair)
  | [] => some []
  | a :: b :: rest => (toPairs2 rest).map fun ps => (a, b) :: ps
  | [_] => none

def toTrans : List Int → Option (List (Range × Nat))
  | [] => some []
  | b :: e :: t :: rest => (toTrans rest).map fun ts => (⟨b, e⟩, t.toNat) :: ts
  | _ => none

/-- One state section `acc ng winner : nfa ids : b e t … : ty p …`. -/
def parseEmitState (s : String) : Option (DState × List Pair) :=
  match s.splitOn ":" with
  | [hd, nfa, tr, ps] => do
    let hd ← parseInts hd
    let nfa ← parseInts nfa
    let tr ← parseInts tr
    let ps ← parseInts ps
    let ts ← toTrans tr
    let pairs ← toPairs2 ps
    match hd with
    | acc :: ng :: _ =>
      some ({ nfa := nfa.map Int.toNat, trans := ts, accept := acc ≠ 0, ng := ng ≠ 0 }, pairs)
    | _ => none
  | _ => none

def parseEmit (payload : String) : Option (DFA × List (List Pair)) :=
  match payload.splitOn "|" with
  | [] => none
  | cnt :: secs => do
    let n ← parseInts cnt
    let sts ← (secs.filter fun t => !t.trimAscii.toString.isEmpty).mapM parseEmitState
    if n = [(sts.length : Int)] then some ({ states := sts.map (·.1) }, sts.map (·.2)) else none

def showMode : Option Mode → String
  | some a => showInts a.toList
  | none => "panic AddRow"

def parseGenMode (payload : String) : Option (List Rx × List (Re × List Pair)) :=
  match payload.splitOn "|" with
  | [rules, pairs] => do
    let xs ← parseRules rules
    let pss ← (pairs.splitOn ";").mapM fun t => (parseInts t).bind toPairs2
    if pss.length = xs.length then some (xs, (xs.zip pss).map fun p => (p.1.toRe, p.2)) else none
  | _ => none

def handleEmit (op payload : String) : Option String :=
  match op with
  | "lex.emit" => do
    let (F, acts) ← parseEmit payload
    some (showMode (emitMode F fun s => acts.getD s []))
  | "lex.genmode" => do
    let (xs, rules) ← parseGenMode payload
    match genMode xs rules with
    | none => some "panic"
    | some a =>
      match canonMode a.toList with
      | none => some "undecodable"
      | some c => some (showInts c)
  | "lex.genmoderaw" => do
    let (xs, rules) ← parseGenMode payload
    match genMode xs rules with
    | none => some "panic"
    | some a => some (showInts a.toList)
  | _ => none

end Lox.Lex.Gen
